open BinNums
open Bool
open Byte

val eqb : byte -> byte -> bool

val to_N : byte -> coq_N

val of_N : coq_N -> byte option
