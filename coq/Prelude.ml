open BinNat
open BinNums
open Byte
open Byte0
open Datatypes

type bytes = byte list

(** val b2n : byte -> coq_N **)

let b2n =
  to_N

(** val n2b : coq_N -> byte **)

let n2b n =
  match of_N
          (N.modulo n (Npos (Coq_xO (Coq_xO (Coq_xO (Coq_xO (Coq_xO (Coq_xO
            (Coq_xO (Coq_xO Coq_xH)))))))))) with
  | Some b -> b
  | None -> Coq_x00

type err =
| EDecode
| EDup
| EEncode
| EExtra
| ERange
| EUnexpected
| EUnreg
| EUnregNonPriv

type 'a res =
| Ok of 'a
| Err of err
| Panic
| OutOfFuel

(** val bind : 'a1 res -> ('a1 -> 'a2 res) -> 'a2 res **)

let bind r f =
  match r with
  | Ok a -> f a
  | Err e -> Err e
  | Panic -> Panic
  | OutOfFuel -> OutOfFuel

(** val map_err : 'a1 res -> err -> 'a1 res **)

let map_err r e' =
  match r with
  | Err _ -> Err e'
  | _ -> r

(** val mapM : ('a1 -> 'a2 res) -> 'a1 list -> 'a2 list res **)

let rec mapM f = function
| [] -> Ok []
| a :: r -> bind (f a) (fun b -> bind (mapM f r) (fun bs -> Ok (b :: bs)))

(** val isnil : 'a1 list -> bool **)

let isnil = function
| [] -> true
| _ :: _ -> false

(** val issome : 'a1 option -> bool **)

let issome = function
| Some _ -> true
| None -> false

(** val bytes_eqb : bytes -> bytes -> bool **)

let rec bytes_eqb a b =
  match a with
  | [] -> (match b with
           | [] -> true
           | _ :: _ -> false)
  | x :: a' ->
    (match b with
     | [] -> false
     | y :: b' -> (&&) (eqb x y) (bytes_eqb a' b'))

(** val nth_res : 'a1 list -> nat -> 'a1 res **)

let rec nth_res l i =
  match l with
  | [] -> Panic
  | x :: r -> (match i with
               | O -> Ok x
               | S i' -> nth_res r i')
