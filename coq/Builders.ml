open Ascii
open BinInt
open BinNums
open Cbor
open Context
open Cwt
open Datatypes
open Iana
open Key
open Label
open List
open Msg
open Prelude
open String

(** val fresh_protected : header -> protected **)

let fresh_protected h =
  Coq_mkProtected (None, h)

type header_op =
| HO_key_id of bytes
| HO_algorithm of coq_Z
| HO_add_critical of coq_Z
| HO_add_critical_label of reg_label
| HO_content_format of coq_Z
| HO_content_type of bytes
| HO_iv of bytes
| HO_partial_iv of bytes
| HO_add_counter_signature of signature
| HO_value of coq_Z * value
| HO_text_value of bytes * value

(** val header_builder_step : header -> header_op -> header res **)

let header_builder_step h = function
| HO_key_id b -> Ok (set_kid b h)
| HO_algorithm a -> Ok (set_alg (Some (PAssigned a)) h)
| HO_add_critical p -> Ok (set_crit (app (h_crit h) ((RAssigned p) :: [])) h)
| HO_add_critical_label l -> Ok (set_crit (app (h_crit h) (l :: [])) h)
| HO_content_format cf -> Ok (set_ctype (Some (RAssigned cf)) h)
| HO_content_type t -> Ok (set_ctype (Some (RText t)) h)
| HO_iv b -> Ok (set_piv [] (set_iv b h))
| HO_partial_iv b -> Ok (set_iv [] (set_piv b h))
| HO_add_counter_signature s -> Ok (set_csigs (app (h_csigs h) (s :: [])) h)
| HO_value (l, v) ->
  if (&&)
       (Z.leb
         (enum_const (String ((Ascii (false, false, false, true, false,
           false, true, false)), (String ((Ascii (true, false, true, false,
           false, true, true, false)), (String ((Ascii (true, false, false,
           false, false, true, true, false)), (String ((Ascii (false, false,
           true, false, false, true, true, false)), (String ((Ascii (true,
           false, true, false, false, true, true, false)), (String ((Ascii
           (false, true, false, false, true, true, true, false)), (String
           ((Ascii (false, false, false, false, true, false, true, false)),
           (String ((Ascii (true, false, false, false, false, true, true,
           false)), (String ((Ascii (false, true, false, false, true, true,
           true, false)), (String ((Ascii (true, false, false, false, false,
           true, true, false)), (String ((Ascii (true, false, true, true,
           false, true, true, false)), (String ((Ascii (true, false, true,
           false, false, true, true, false)), (String ((Ascii (false, false,
           true, false, true, true, true, false)), (String ((Ascii (true,
           false, true, false, false, true, true, false)), (String ((Ascii
           (false, true, false, false, true, true, true, false)),
           EmptyString)))))))))))))))))))))))))))))) (String ((Ascii (true,
           false, false, false, false, false, true, false)), (String ((Ascii
           (false, false, true, true, false, true, true, false)), (String
           ((Ascii (true, true, true, false, false, true, true, false)),
           EmptyString))))))) l)
       (Z.leb l
         (enum_const (String ((Ascii (false, false, false, true, false,
           false, true, false)), (String ((Ascii (true, false, true, false,
           false, true, true, false)), (String ((Ascii (true, false, false,
           false, false, true, true, false)), (String ((Ascii (false, false,
           true, false, false, true, true, false)), (String ((Ascii (true,
           false, true, false, false, true, true, false)), (String ((Ascii
           (false, true, false, false, true, true, true, false)), (String
           ((Ascii (false, false, false, false, true, false, true, false)),
           (String ((Ascii (true, false, false, false, false, true, true,
           false)), (String ((Ascii (false, true, false, false, true, true,
           true, false)), (String ((Ascii (true, false, false, false, false,
           true, true, false)), (String ((Ascii (true, false, true, true,
           false, true, true, false)), (String ((Ascii (true, false, true,
           false, false, true, true, false)), (String ((Ascii (false, false,
           true, false, true, true, true, false)), (String ((Ascii (true,
           false, true, false, false, true, true, false)), (String ((Ascii
           (false, true, false, false, true, true, true, false)),
           EmptyString)))))))))))))))))))))))))))))) (String ((Ascii (true,
           true, false, false, false, false, true, false)), (String ((Ascii
           (true, true, true, true, false, true, true, false)), (String
           ((Ascii (true, false, true, false, true, true, true, false)),
           (String ((Ascii (false, true, true, true, false, true, true,
           false)), (String ((Ascii (false, false, true, false, true, true,
           true, false)), (String ((Ascii (true, false, true, false, false,
           true, true, false)), (String ((Ascii (false, true, false, false,
           true, true, true, false)), (String ((Ascii (true, true, false,
           false, true, false, true, false)), (String ((Ascii (true, false,
           false, true, false, true, true, false)), (String ((Ascii (true,
           true, true, false, false, true, true, false)), (String ((Ascii
           (false, true, true, true, false, true, true, false)), (String
           ((Ascii (true, false, false, false, false, true, true, false)),
           (String ((Ascii (false, false, true, false, true, true, true,
           false)), (String ((Ascii (true, false, true, false, true, true,
           true, false)), (String ((Ascii (false, true, false, false, true,
           true, true, false)), (String ((Ascii (true, false, true, false,
           false, true, true, false)),
           EmptyString))))))))))))))))))))))))))))))))))
  then Panic
  else Ok (set_rest (app (h_rest h) (((LInt l), v) :: [])) h)
| HO_text_value (l, v) ->
  Ok (set_rest (app (h_rest h) (((LText l), v) :: [])) h)

type signature_op =
| SO_protected of header
| SO_unprotected of header
| SO_signature of bytes

(** val signature_builder_step :
    signature -> signature_op -> signature res **)

let signature_builder_step s = function
| SO_protected h ->
  Ok (Coq_mkSignature ((fresh_protected h), (s_unprot s), (s_sig s)))
| SO_unprotected h -> Ok (Coq_mkSignature ((s_prot s), h, (s_sig s)))
| SO_signature b -> Ok (Coq_mkSignature ((s_prot s), (s_unprot s), b))

type closure1 = bytes -> bytes option

type closure2 = bytes -> bytes -> bytes option

(** val call1 : closure1 -> bytes -> bytes res **)

let call1 f x =
  match f x with
  | Some y -> Ok y
  | None -> Err EEncode

(** val call2 : closure2 -> bytes -> bytes -> bytes res **)

let call2 f x y =
  match f x y with
  | Some z -> Ok z
  | None -> Err EEncode

type sign1_op =
| S1_protected of header
| S1_unprotected of header
| S1_signature of bytes
| S1_payload of bytes
| S1_create_signature of bytes * closure1
| S1_create_detached_signature of bytes * bytes * closure1
| S1_try_create_signature of bytes * closure1
| S1_try_create_detached_signature of bytes * bytes * closure1

(** val sign1_builder_step : sign1 -> sign1_op -> sign1 res **)

let sign1_builder_step m = function
| S1_protected h ->
  Ok { s1_prot = (fresh_protected h); s1_unprot = m.s1_unprot; s1_payload =
    m.s1_payload; s1_sig = m.s1_sig }
| S1_unprotected h ->
  Ok { s1_prot = m.s1_prot; s1_unprot = h; s1_payload = m.s1_payload;
    s1_sig = m.s1_sig }
| S1_signature b ->
  Ok { s1_prot = m.s1_prot; s1_unprot = m.s1_unprot; s1_payload =
    m.s1_payload; s1_sig = b }
| S1_payload b ->
  Ok { s1_prot = m.s1_prot; s1_unprot = m.s1_unprot; s1_payload = (Some b);
    s1_sig = m.s1_sig }
| S1_create_signature (aad, f) ->
  bind (coq_Sign1_tbs_data m aad) (fun tbs ->
    bind (call1 f tbs) (fun sg -> Ok { s1_prot = m.s1_prot; s1_unprot =
      m.s1_unprot; s1_payload = m.s1_payload; s1_sig = sg }))
| S1_create_detached_signature (pl, aad, f) ->
  bind (coq_Sign1_tbs_detached_data m pl aad) (fun tbs ->
    bind (call1 f tbs) (fun sg -> Ok { s1_prot = m.s1_prot; s1_unprot =
      m.s1_unprot; s1_payload = m.s1_payload; s1_sig = sg }))
| S1_try_create_signature (aad, f) ->
  bind (coq_Sign1_tbs_data m aad) (fun tbs ->
    bind (call1 f tbs) (fun sg -> Ok { s1_prot = m.s1_prot; s1_unprot =
      m.s1_unprot; s1_payload = m.s1_payload; s1_sig = sg }))
| S1_try_create_detached_signature (pl, aad, f) ->
  bind (coq_Sign1_tbs_detached_data m pl aad) (fun tbs ->
    bind (call1 f tbs) (fun sg -> Ok { s1_prot = m.s1_prot; s1_unprot =
      m.s1_unprot; s1_payload = m.s1_payload; s1_sig = sg }))

type sign_op =
| SN_protected of header
| SN_unprotected of header
| SN_payload of bytes
| SN_add_signature of signature
| SN_add_created_signature of signature * bytes * closure1
| SN_add_detached_signature of signature * bytes * bytes * closure1
| SN_try_add_created_signature of signature * bytes * closure1
| SN_try_add_detached_signature of signature * bytes * bytes * closure1

(** val sign_builder_step : sign -> sign_op -> sign res **)

let sign_builder_step m = function
| SN_protected h ->
  Ok { sn_prot = (fresh_protected h); sn_unprot = m.sn_unprot; sn_payload =
    m.sn_payload; sn_sigs = m.sn_sigs }
| SN_unprotected h ->
  Ok { sn_prot = m.sn_prot; sn_unprot = h; sn_payload = m.sn_payload;
    sn_sigs = m.sn_sigs }
| SN_payload b ->
  Ok { sn_prot = m.sn_prot; sn_unprot = m.sn_unprot; sn_payload = (Some b);
    sn_sigs = m.sn_sigs }
| SN_add_signature s ->
  Ok { sn_prot = m.sn_prot; sn_unprot = m.sn_unprot; sn_payload =
    m.sn_payload; sn_sigs = (app m.sn_sigs (s :: [])) }
| SN_add_created_signature (s, aad, f) ->
  bind (coq_Sign_tbs_data m aad s) (fun tbs ->
    bind (call1 f tbs) (fun sg -> Ok { sn_prot = m.sn_prot; sn_unprot =
      m.sn_unprot; sn_payload = m.sn_payload; sn_sigs =
      (app m.sn_sigs ((Coq_mkSignature ((s_prot s), (s_unprot s), sg)) :: [])) }))
| SN_add_detached_signature (s, pl, aad, f) ->
  bind (coq_Sign_tbs_detached_data m pl aad s) (fun tbs ->
    bind (call1 f tbs) (fun sg -> Ok { sn_prot = m.sn_prot; sn_unprot =
      m.sn_unprot; sn_payload = m.sn_payload; sn_sigs =
      (app m.sn_sigs ((Coq_mkSignature ((s_prot s), (s_unprot s), sg)) :: [])) }))
| SN_try_add_created_signature (s, aad, f) ->
  bind (coq_Sign_tbs_data m aad s) (fun tbs ->
    bind (call1 f tbs) (fun sg -> Ok { sn_prot = m.sn_prot; sn_unprot =
      m.sn_unprot; sn_payload = m.sn_payload; sn_sigs =
      (app m.sn_sigs ((Coq_mkSignature ((s_prot s), (s_unprot s), sg)) :: [])) }))
| SN_try_add_detached_signature (s, pl, aad, f) ->
  bind (coq_Sign_tbs_detached_data m pl aad s) (fun tbs ->
    bind (call1 f tbs) (fun sg -> Ok { sn_prot = m.sn_prot; sn_unprot =
      m.sn_unprot; sn_payload = m.sn_payload; sn_sigs =
      (app m.sn_sigs ((Coq_mkSignature ((s_prot s), (s_unprot s), sg)) :: [])) }))

type mac0_op =
| M0_protected of header
| M0_unprotected of header
| M0_tag of bytes
| M0_payload of bytes
| M0_create_tag of bytes * closure1
| M0_try_create_tag of bytes * closure1

(** val mac0_builder_step : mac0 -> mac0_op -> mac0 res **)

let mac0_builder_step m = function
| M0_protected h ->
  Ok { m0_prot = (fresh_protected h); m0_unprot = m.m0_unprot; m0_payload =
    m.m0_payload; m0_tag = m.m0_tag }
| M0_unprotected h ->
  Ok { m0_prot = m.m0_prot; m0_unprot = h; m0_payload = m.m0_payload;
    m0_tag = m.m0_tag }
| M0_tag b ->
  Ok { m0_prot = m.m0_prot; m0_unprot = m.m0_unprot; m0_payload =
    m.m0_payload; m0_tag = b }
| M0_payload b ->
  Ok { m0_prot = m.m0_prot; m0_unprot = m.m0_unprot; m0_payload = (Some b);
    m0_tag = m.m0_tag }
| M0_create_tag (aad, f) ->
  bind (coq_Mac0_tbm m aad) (fun tbm ->
    bind (call1 f tbm) (fun tg -> Ok { m0_prot = m.m0_prot; m0_unprot =
      m.m0_unprot; m0_payload = m.m0_payload; m0_tag = tg }))
| M0_try_create_tag (aad, f) ->
  bind (coq_Mac0_tbm m aad) (fun tbm ->
    bind (call1 f tbm) (fun tg -> Ok { m0_prot = m.m0_prot; m0_unprot =
      m.m0_unprot; m0_payload = m.m0_payload; m0_tag = tg }))

type mac_op =
| MC_protected of header
| MC_unprotected of header
| MC_tag of bytes
| MC_payload of bytes
| MC_add_recipient of recipient
| MC_create_tag of bytes * closure1
| MC_try_create_tag of bytes * closure1

(** val mac_builder_step : mac -> mac_op -> mac res **)

let mac_builder_step m = function
| MC_protected h ->
  Ok { mc_prot = (fresh_protected h); mc_unprot = m.mc_unprot; mc_payload =
    m.mc_payload; mc_tag = m.mc_tag; mc_recipients = m.mc_recipients }
| MC_unprotected h ->
  Ok { mc_prot = m.mc_prot; mc_unprot = h; mc_payload = m.mc_payload;
    mc_tag = m.mc_tag; mc_recipients = m.mc_recipients }
| MC_tag b ->
  Ok { mc_prot = m.mc_prot; mc_unprot = m.mc_unprot; mc_payload =
    m.mc_payload; mc_tag = b; mc_recipients = m.mc_recipients }
| MC_payload b ->
  Ok { mc_prot = m.mc_prot; mc_unprot = m.mc_unprot; mc_payload = (Some b);
    mc_tag = m.mc_tag; mc_recipients = m.mc_recipients }
| MC_add_recipient r ->
  Ok { mc_prot = m.mc_prot; mc_unprot = m.mc_unprot; mc_payload =
    m.mc_payload; mc_tag = m.mc_tag; mc_recipients =
    (app m.mc_recipients (r :: [])) }
| MC_create_tag (aad, f) ->
  bind (coq_Mac_tbm m aad) (fun tbm ->
    bind (call1 f tbm) (fun tg -> Ok { mc_prot = m.mc_prot; mc_unprot =
      m.mc_unprot; mc_payload = m.mc_payload; mc_tag = tg; mc_recipients =
      m.mc_recipients }))
| MC_try_create_tag (aad, f) ->
  bind (coq_Mac_tbm m aad) (fun tbm ->
    bind (call1 f tbm) (fun tg -> Ok { mc_prot = m.mc_prot; mc_unprot =
      m.mc_unprot; mc_payload = m.mc_payload; mc_tag = tg; mc_recipients =
      m.mc_recipients }))

type recipient_op =
| RO_protected of header
| RO_unprotected of header
| RO_ciphertext of bytes
| RO_add_recipient of recipient
| RO_create_ciphertext of enc_context * bytes * bytes * closure2
| RO_try_create_ciphertext of enc_context * bytes * bytes * closure2

(** val recipient_aad : recipient -> enc_context -> bytes -> bytes res **)

let recipient_aad m c aad =
  if negb (is_recipient_context c)
  then Panic
  else enc_structure_data c m.r_prot aad

(** val recipient_builder_step :
    recipient -> recipient_op -> recipient res **)

let recipient_builder_step m = function
| RO_protected h ->
  Ok { r_prot = (fresh_protected h); r_unprot = m.r_unprot; r_ct = m.r_ct;
    r_recipients = m.r_recipients }
| RO_unprotected h ->
  Ok { r_prot = m.r_prot; r_unprot = h; r_ct = m.r_ct; r_recipients =
    m.r_recipients }
| RO_ciphertext b ->
  Ok { r_prot = m.r_prot; r_unprot = m.r_unprot; r_ct = (Some b);
    r_recipients = m.r_recipients }
| RO_add_recipient r ->
  Ok { r_prot = m.r_prot; r_unprot = m.r_unprot; r_ct = m.r_ct;
    r_recipients = (app m.r_recipients (r :: [])) }
| RO_create_ciphertext (c, pt, aad, f) ->
  bind (recipient_aad m c aad) (fun a ->
    bind (call2 f pt a) (fun ct -> Ok { r_prot = m.r_prot; r_unprot =
      m.r_unprot; r_ct = (Some ct); r_recipients = m.r_recipients }))
| RO_try_create_ciphertext (c, pt, aad, f) ->
  bind (recipient_aad m c aad) (fun a ->
    bind (call2 f pt a) (fun ct -> Ok { r_prot = m.r_prot; r_unprot =
      m.r_unprot; r_ct = (Some ct); r_recipients = m.r_recipients }))

type encrypt_op =
| EO_protected of header
| EO_unprotected of header
| EO_ciphertext of bytes
| EO_add_recipient of recipient
| EO_create_ciphertext of bytes * bytes * closure2
| EO_try_create_ciphertext of bytes * bytes * closure2

(** val encrypt_builder_step : encrypt -> encrypt_op -> encrypt res **)

let encrypt_builder_step m = function
| EO_protected h ->
  Ok { en_prot = (fresh_protected h); en_unprot = m.en_unprot; en_ct =
    m.en_ct; en_recipients = m.en_recipients }
| EO_unprotected h ->
  Ok { en_prot = m.en_prot; en_unprot = h; en_ct = m.en_ct; en_recipients =
    m.en_recipients }
| EO_ciphertext b ->
  Ok { en_prot = m.en_prot; en_unprot = m.en_unprot; en_ct = (Some b);
    en_recipients = m.en_recipients }
| EO_add_recipient r ->
  Ok { en_prot = m.en_prot; en_unprot = m.en_unprot; en_ct = m.en_ct;
    en_recipients = (app m.en_recipients (r :: [])) }
| EO_create_ciphertext (pt, aad, f) ->
  bind (enc_structure_data EncCoseEncrypt m.en_prot aad) (fun a ->
    bind (call2 f pt a) (fun ct -> Ok { en_prot = m.en_prot; en_unprot =
      m.en_unprot; en_ct = (Some ct); en_recipients = m.en_recipients }))
| EO_try_create_ciphertext (pt, aad, f) ->
  bind (enc_structure_data EncCoseEncrypt m.en_prot aad) (fun a ->
    bind (call2 f pt a) (fun ct -> Ok { en_prot = m.en_prot; en_unprot =
      m.en_unprot; en_ct = (Some ct); en_recipients = m.en_recipients }))

type encrypt0_op =
| E0_protected of header
| E0_unprotected of header
| E0_ciphertext of bytes
| E0_create_ciphertext of bytes * bytes * closure2
| E0_try_create_ciphertext of bytes * bytes * closure2

(** val encrypt0_builder_step : encrypt0 -> encrypt0_op -> encrypt0 res **)

let encrypt0_builder_step m = function
| E0_protected h ->
  Ok { e0_prot = (fresh_protected h); e0_unprot = m.e0_unprot; e0_ct =
    m.e0_ct }
| E0_unprotected h ->
  Ok { e0_prot = m.e0_prot; e0_unprot = h; e0_ct = m.e0_ct }
| E0_ciphertext b ->
  Ok { e0_prot = m.e0_prot; e0_unprot = m.e0_unprot; e0_ct = (Some b) }
| E0_create_ciphertext (pt, aad, f) ->
  bind (enc_structure_data EncCoseEncrypt0 m.e0_prot aad) (fun a ->
    bind (call2 f pt a) (fun ct -> Ok { e0_prot = m.e0_prot; e0_unprot =
      m.e0_unprot; e0_ct = (Some ct) }))
| E0_try_create_ciphertext (pt, aad, f) ->
  bind (enc_structure_data EncCoseEncrypt0 m.e0_prot aad) (fun a ->
    bind (call2 f pt a) (fun ct -> Ok { e0_prot = m.e0_prot; e0_unprot =
      m.e0_unprot; e0_ct = (Some ct) }))

type key_op =
| KO_new
| KO_new_ec2_pub_key of coq_Z * bytes * bytes
| KO_new_ec2_pub_key_y_sign of coq_Z * bytes * bool
| KO_new_ec2_priv_key of coq_Z * bytes * bytes * bytes
| KO_new_symmetric_key of bytes
| KO_new_okp_key
| KO_kty of reg_label
| KO_key_id of bytes
| KO_base_iv of bytes
| KO_key_type of coq_Z
| KO_algorithm of coq_Z
| KO_add_key_op of coq_Z
| KO_param of coq_Z * value

(** val ec2 : string -> label **)

let ec2 n =
  LInt
    (enum_const (String ((Ascii (true, false, true, false, false, false,
      true, false)), (String ((Ascii (true, true, false, false, false, true,
      true, false)), (String ((Ascii (false, true, false, false, true, true,
      false, false)), (String ((Ascii (true, true, false, true, false, false,
      true, false)), (String ((Ascii (true, false, true, false, false, true,
      true, false)), (String ((Ascii (true, false, false, true, true, true,
      true, false)), (String ((Ascii (false, false, false, false, true,
      false, true, false)), (String ((Ascii (true, false, false, false,
      false, true, true, false)), (String ((Ascii (false, true, false, false,
      true, true, true, false)), (String ((Ascii (true, false, false, false,
      false, true, true, false)), (String ((Ascii (true, false, true, true,
      false, true, true, false)), (String ((Ascii (true, false, true, false,
      false, true, true, false)), (String ((Ascii (false, false, true, false,
      true, true, true, false)), (String ((Ascii (true, false, true, false,
      false, true, true, false)), (String ((Ascii (false, true, false, false,
      true, true, true, false)), EmptyString)))))))))))))))))))))))))))))) n)

(** val key_of_kty : string -> cose_key **)

let key_of_kty n =
  set_kty (RAssigned
    (enum_const (String ((Ascii (true, true, false, true, false, false, true,
      false)), (String ((Ascii (true, false, true, false, false, true, true,
      false)), (String ((Ascii (true, false, false, true, true, true, true,
      false)), (String ((Ascii (false, false, true, false, true, false, true,
      false)), (String ((Ascii (true, false, false, true, true, true, true,
      false)), (String ((Ascii (false, false, false, false, true, true, true,
      false)), (String ((Ascii (true, false, true, false, false, true, true,
      false)), EmptyString)))))))))))))) n)) key_default

(** val key_builder_step : cose_key -> key_op -> cose_key res **)

let key_builder_step k = function
| KO_new -> Ok key_default
| KO_new_ec2_pub_key (c, x, y) ->
  Ok
    (set_kparams
      (((ec2 (String ((Ascii (true, true, false, false, false, false, true,
          false)), (String ((Ascii (false, true, false, false, true, true,
          true, false)), (String ((Ascii (false, true, true, false, true,
          true, true, false)), EmptyString))))))), (VInt
      c)) :: (((ec2 (String ((Ascii (false, false, false, true, true, false,
                 true, false)), EmptyString))), (VBytes
      x)) :: (((ec2 (String ((Ascii (true, false, false, true, true, false,
                 true, false)), EmptyString))), (VBytes y)) :: [])))
      (key_of_kty (String ((Ascii (true, false, true, false, false, false,
        true, false)), (String ((Ascii (true, true, false, false, false,
        false, true, false)), (String ((Ascii (false, true, false, false,
        true, true, false, false)), EmptyString))))))))
| KO_new_ec2_pub_key_y_sign (c, x, ys) ->
  Ok
    (set_kparams
      (((ec2 (String ((Ascii (true, true, false, false, false, false, true,
          false)), (String ((Ascii (false, true, false, false, true, true,
          true, false)), (String ((Ascii (false, true, true, false, true,
          true, true, false)), EmptyString))))))), (VInt
      c)) :: (((ec2 (String ((Ascii (false, false, false, true, true, false,
                 true, false)), EmptyString))), (VBytes
      x)) :: (((ec2 (String ((Ascii (true, false, false, true, true, false,
                 true, false)), EmptyString))), (VBool ys)) :: [])))
      (key_of_kty (String ((Ascii (true, false, true, false, false, false,
        true, false)), (String ((Ascii (true, true, false, false, false,
        false, true, false)), (String ((Ascii (false, true, false, false,
        true, true, false, false)), EmptyString))))))))
| KO_new_ec2_priv_key (c, x, y, d) ->
  Ok
    (set_kparams
      (((ec2 (String ((Ascii (true, true, false, false, false, false, true,
          false)), (String ((Ascii (false, true, false, false, true, true,
          true, false)), (String ((Ascii (false, true, true, false, true,
          true, true, false)), EmptyString))))))), (VInt
      c)) :: (((ec2 (String ((Ascii (false, false, false, true, true, false,
                 true, false)), EmptyString))), (VBytes
      x)) :: (((ec2 (String ((Ascii (true, false, false, true, true, false,
                 true, false)), EmptyString))), (VBytes
      y)) :: (((ec2 (String ((Ascii (false, false, true, false, false, false,
                 true, false)), EmptyString))), (VBytes d)) :: []))))
      (key_of_kty (String ((Ascii (true, false, true, false, false, false,
        true, false)), (String ((Ascii (true, true, false, false, false,
        false, true, false)), (String ((Ascii (false, true, false, false,
        true, true, false, false)), EmptyString))))))))
| KO_new_symmetric_key kk ->
  Ok
    (set_kparams (((LInt
      (enum_const (String ((Ascii (true, true, false, false, true, false,
        true, false)), (String ((Ascii (true, false, false, true, true, true,
        true, false)), (String ((Ascii (true, false, true, true, false, true,
        true, false)), (String ((Ascii (true, false, true, true, false, true,
        true, false)), (String ((Ascii (true, false, true, false, false,
        true, true, false)), (String ((Ascii (false, false, true, false,
        true, true, true, false)), (String ((Ascii (false, true, false,
        false, true, true, true, false)), (String ((Ascii (true, false,
        false, true, false, true, true, false)), (String ((Ascii (true, true,
        false, false, false, true, true, false)), (String ((Ascii (true,
        true, false, true, false, false, true, false)), (String ((Ascii
        (true, false, true, false, false, true, true, false)), (String
        ((Ascii (true, false, false, true, true, true, true, false)), (String
        ((Ascii (false, false, false, false, true, false, true, false)),
        (String ((Ascii (true, false, false, false, false, true, true,
        false)), (String ((Ascii (false, true, false, false, true, true,
        true, false)), (String ((Ascii (true, false, false, false, false,
        true, true, false)), (String ((Ascii (true, false, true, true, false,
        true, true, false)), (String ((Ascii (true, false, true, false,
        false, true, true, false)), (String ((Ascii (false, false, true,
        false, true, true, true, false)), (String ((Ascii (true, false, true,
        false, false, true, true, false)), (String ((Ascii (false, true,
        false, false, true, true, true, false)),
        EmptyString)))))))))))))))))))))))))))))))))))))))))) (String ((Ascii
        (true, true, false, true, false, false, true, false)), EmptyString)))),
      (VBytes kk)) :: [])
      (key_of_kty (String ((Ascii (true, true, false, false, true, false,
        true, false)), (String ((Ascii (true, false, false, true, true, true,
        true, false)), (String ((Ascii (true, false, true, true, false, true,
        true, false)), (String ((Ascii (true, false, true, true, false, true,
        true, false)), (String ((Ascii (true, false, true, false, false,
        true, true, false)), (String ((Ascii (false, false, true, false,
        true, true, true, false)), (String ((Ascii (false, true, false,
        false, true, true, true, false)), (String ((Ascii (true, false,
        false, true, false, true, true, false)), (String ((Ascii (true, true,
        false, false, false, true, true, false)),
        EmptyString))))))))))))))))))))
| KO_new_okp_key ->
  Ok
    (key_of_kty (String ((Ascii (true, true, true, true, false, false, true,
      false)), (String ((Ascii (true, true, false, true, false, false, true,
      false)), (String ((Ascii (false, false, false, false, true, false,
      true, false)), EmptyString)))))))
| KO_kty t -> Ok (set_kty t k)
| KO_key_id b -> Ok (set_kkid b k)
| KO_base_iv b -> Ok (set_kbase_iv b k)
| KO_key_type t -> Ok (set_kty (RAssigned t) k)
| KO_algorithm a -> Ok (set_kalg (Some (PAssigned a)) k)
| KO_add_key_op o0 ->
  Ok (set_kops (snd (reg_set_insert (RAssigned o0) k.k_ops)) k)
| KO_param (l, v) ->
  if registered coq_T_KeyParameter l
  then Panic
  else Ok (set_kparams (app k.k_params (((LInt l), v) :: [])) k)

type claims_op =
| CO_issuer of bytes
| CO_subject of bytes
| CO_audience of bytes
| CO_expiration_time of timestamp
| CO_not_before of timestamp
| CO_issued_at of timestamp
| CO_cwt_id of bytes
| CO_claim of coq_Z * value
| CO_text_claim of bytes * value
| CO_private_claim of coq_Z * value

(** val claims_builder_step : claims -> claims_op -> claims res **)

let claims_builder_step c o =
  let mk = fun i s a e n t ct r -> { c_iss = i; c_sub = s; c_aud = a; c_exp =
    e; c_nbf = n; c_iat = t; c_cti = ct; c_rest = r }
  in
  (match o with
   | CO_issuer t ->
     Ok (mk (Some t) c.c_sub c.c_aud c.c_exp c.c_nbf c.c_iat c.c_cti c.c_rest)
   | CO_subject t ->
     Ok (mk c.c_iss (Some t) c.c_aud c.c_exp c.c_nbf c.c_iat c.c_cti c.c_rest)
   | CO_audience t ->
     Ok (mk c.c_iss c.c_sub (Some t) c.c_exp c.c_nbf c.c_iat c.c_cti c.c_rest)
   | CO_expiration_time t ->
     Ok (mk c.c_iss c.c_sub c.c_aud (Some t) c.c_nbf c.c_iat c.c_cti c.c_rest)
   | CO_not_before t ->
     Ok (mk c.c_iss c.c_sub c.c_aud c.c_exp (Some t) c.c_iat c.c_cti c.c_rest)
   | CO_issued_at t ->
     Ok (mk c.c_iss c.c_sub c.c_aud c.c_exp c.c_nbf (Some t) c.c_cti c.c_rest)
   | CO_cwt_id b ->
     Ok (mk c.c_iss c.c_sub c.c_aud c.c_exp c.c_nbf c.c_iat (Some b) c.c_rest)
   | CO_claim (n, v) ->
     if (&&)
          (Z.leb
            (enum_const (String ((Ascii (true, true, false, false, false,
              false, true, false)), (String ((Ascii (true, true, true, false,
              true, true, true, false)), (String ((Ascii (false, false, true,
              false, true, true, true, false)), (String ((Ascii (true, true,
              false, false, false, false, true, false)), (String ((Ascii
              (false, false, true, true, false, true, true, false)), (String
              ((Ascii (true, false, false, false, false, true, true, false)),
              (String ((Ascii (true, false, false, true, false, true, true,
              false)), (String ((Ascii (true, false, true, true, false, true,
              true, false)), (String ((Ascii (false, true, true, true, false,
              false, true, false)), (String ((Ascii (true, false, false,
              false, false, true, true, false)), (String ((Ascii (true,
              false, true, true, false, true, true, false)), (String ((Ascii
              (true, false, true, false, false, true, true, false)),
              EmptyString)))))))))))))))))))))))) (String ((Ascii (true,
              false, false, true, false, false, true, false)), (String
              ((Ascii (true, true, false, false, true, true, true, false)),
              (String ((Ascii (true, true, false, false, true, true, true,
              false)), EmptyString))))))) n)
          (Z.leb n
            (enum_const (String ((Ascii (true, true, false, false, false,
              false, true, false)), (String ((Ascii (true, true, true, false,
              true, true, true, false)), (String ((Ascii (false, false, true,
              false, true, true, true, false)), (String ((Ascii (true, true,
              false, false, false, false, true, false)), (String ((Ascii
              (false, false, true, true, false, true, true, false)), (String
              ((Ascii (true, false, false, false, false, true, true, false)),
              (String ((Ascii (true, false, false, true, false, true, true,
              false)), (String ((Ascii (true, false, true, true, false, true,
              true, false)), (String ((Ascii (false, true, true, true, false,
              false, true, false)), (String ((Ascii (true, false, false,
              false, false, true, true, false)), (String ((Ascii (true,
              false, true, true, false, true, true, false)), (String ((Ascii
              (true, false, true, false, false, true, true, false)),
              EmptyString)))))))))))))))))))))))) (String ((Ascii (true,
              true, false, false, false, false, true, false)), (String
              ((Ascii (false, false, true, false, true, true, true, false)),
              (String ((Ascii (true, false, false, true, false, true, true,
              false)), EmptyString))))))))
     then Panic
     else Ok
            (mk c.c_iss c.c_sub c.c_aud c.c_exp c.c_nbf c.c_iat c.c_cti
              (app c.c_rest (((PAssigned n), v) :: [])))
   | CO_text_claim (n, v) ->
     Ok
       (mk c.c_iss c.c_sub c.c_aud c.c_exp c.c_nbf c.c_iat c.c_cti
         (app c.c_rest (((PText n), v) :: [])))
   | CO_private_claim (i, v) ->
     if negb
          (is_private (String ((Ascii (true, true, false, false, false,
            false, true, false)), (String ((Ascii (true, true, true, false,
            true, true, true, false)), (String ((Ascii (false, false, true,
            false, true, true, true, false)), (String ((Ascii (true, true,
            false, false, false, false, true, false)), (String ((Ascii
            (false, false, true, true, false, true, true, false)), (String
            ((Ascii (true, false, false, false, false, true, true, false)),
            (String ((Ascii (true, false, false, true, false, true, true,
            false)), (String ((Ascii (true, false, true, true, false, true,
            true, false)), (String ((Ascii (false, true, true, true, false,
            false, true, false)), (String ((Ascii (true, false, false, false,
            false, true, true, false)), (String ((Ascii (true, false, true,
            true, false, true, true, false)), (String ((Ascii (true, false,
            true, false, false, true, true, false)),
            EmptyString)))))))))))))))))))))))) i)
     then Panic
     else Ok
            (mk c.c_iss c.c_sub c.c_aud c.c_exp c.c_nbf c.c_iat c.c_cti
              (app c.c_rest (((PPrivate i), v) :: []))))

type party_op =
| PO_identity of bytes
| PO_nonce of nonce
| PO_other of bytes

(** val party_builder_step : party_info -> party_op -> party_info res **)

let party_builder_step p = function
| PO_identity b ->
  Ok { pi_identity = (Some b); pi_nonce = p.pi_nonce; pi_other = p.pi_other }
| PO_nonce n ->
  Ok { pi_identity = p.pi_identity; pi_nonce = (Some n); pi_other =
    p.pi_other }
| PO_other b ->
  Ok { pi_identity = p.pi_identity; pi_nonce = p.pi_nonce; pi_other = (Some
    b) }

type supp_op =
| UO_key_data_length of coq_Z
| UO_protected of header
| UO_other of bytes

(** val supp_builder_step : supp_pub_info -> supp_op -> supp_pub_info res **)

let supp_builder_step s = function
| UO_key_data_length n ->
  Ok { sp_len = n; sp_prot = s.sp_prot; sp_other = s.sp_other }
| UO_protected h ->
  Ok { sp_len = s.sp_len; sp_prot = (fresh_protected h); sp_other =
    s.sp_other }
| UO_other b ->
  Ok { sp_len = s.sp_len; sp_prot = s.sp_prot; sp_other = (Some b) }

type kdf_op =
| DO_party_u_info of party_info
| DO_party_v_info of party_info
| DO_supp_pub_info of supp_pub_info
| DO_algorithm of coq_Z
| DO_add_supp_priv_info of bytes

(** val kdf_builder_step : kdf_context -> kdf_op -> kdf_context res **)

let kdf_builder_step k = function
| DO_party_u_info p ->
  Ok { kc_alg = k.kc_alg; kc_u = p; kc_v = k.kc_v; kc_pub = k.kc_pub;
    kc_priv = k.kc_priv }
| DO_party_v_info p ->
  Ok { kc_alg = k.kc_alg; kc_u = k.kc_u; kc_v = p; kc_pub = k.kc_pub;
    kc_priv = k.kc_priv }
| DO_supp_pub_info s ->
  Ok { kc_alg = k.kc_alg; kc_u = k.kc_u; kc_v = k.kc_v; kc_pub = s; kc_priv =
    k.kc_priv }
| DO_algorithm a ->
  Ok { kc_alg = (PAssigned a); kc_u = k.kc_u; kc_v = k.kc_v; kc_pub =
    k.kc_pub; kc_priv = k.kc_priv }
| DO_add_supp_priv_info b ->
  Ok { kc_alg = k.kc_alg; kc_u = k.kc_u; kc_v = k.kc_v; kc_pub = k.kc_pub;
    kc_priv = (app k.kc_priv (b :: [])) }

(** val run_ops : ('a1 -> 'a2 -> 'a1 res) -> 'a2 list -> 'a1 -> 'a1 res **)

let run_ops step ops init =
  fold_left (fun acc o -> bind acc (fun s -> step s o)) ops (Ok init)
