open Ascii
open BinNums
open Cbor
open Datatypes
open Iana
open Label
open List
open Msg
open PeanoNat
open Prelude
open String

type nonce =
| NonceBytes of bytes
| NonceInteger of coq_Z

type party_info = { pi_identity : bytes option; pi_nonce : nonce option;
                    pi_other : bytes option }

val party_default : party_info

val coq_PartyInfo_from_value : value -> party_info res

val coq_PartyInfo_to_value : party_info -> value res

type supp_pub_info = { sp_len : coq_Z; sp_prot : protected;
                       sp_other : bytes option }

val supp_default : supp_pub_info

val coq_SuppPubInfo_from_value : value -> supp_pub_info res

val coq_SuppPubInfo_to_value : supp_pub_info -> value res

type kdf_context = { kc_alg : regp_label; kc_u : party_info;
                     kc_v : party_info; kc_pub : supp_pub_info;
                     kc_priv : bytes list }

val coq_ALG_RESERVED : regp_label

val kdf_default : kdf_context

val coq_CoseKdfContext_from_value : value -> kdf_context res

val coq_CoseKdfContext_to_value : kdf_context -> value res
