(* The sequential map decoder (seen-set + early exit) is: key normalisation, pairwise distinct
   labels, and a monadic left fold of the per-entry step. *)
From Coq Require Import Lia.
From Coset.Model Require Import Prelude Cbor Iana Label Msg Cwt.
From Coset.Proofs Require Import Head Order.
Open Scope list_scope.

Lemma label_mem_In l seen : label_mem l seen = true <-> In l seen.
Proof. unfold label_mem. rewrite existsb_exists. split.
  - intros (x & Hx & E). unfold is_eq in E. destruct (label_cmp l x) eqn:C; try discriminate.
    apply label_cmp_eq in C. now subst.
  - intros H. exists l. split; auto. unfold is_eq. now rewrite (proj2 (label_cmp_eq l l) eq_refl). Qed.

(* key normalisation of a whole map *)
Fixpoint labels (m : list (value * value)) : res (list (label * value)) :=
  match m with
  | [] => Ok []
  | (k, v) :: m' => do l <- label_from_value k; do r <- labels m'; Ok ((l, v) :: r)
  end.

Lemma label_from_value_cases k : (exists l, label_from_value k = Ok l) \/ (exists e, label_from_value k = Err e).
Proof. destruct k; cbn; eauto. unfold to_i64_res. destruct (in_i64 z); cbn; eauto. Qed.

Section Seq.
  Context {S : Type}.
  Variable step : S -> label -> value -> res S.

  Fixpoint foldM (lm : list (label * value)) (s : S) : res S :=
    match lm with
    | [] => Ok s
    | (l, v) :: r => do s' <- step s l v; foldM r s'
    end.

  Lemma map_loop_iff : forall m s seen s',
    map_loop step m s seen = Ok s' <->
    exists lm, labels m = Ok lm /\ NoDup (map fst lm) /\ (forall l, In l (map fst lm) -> ~ In l seen) /\ foldM lm s = Ok s'.
  Proof.
    induction m as [|[k v] m IH]; intros s seen s'; cbn [map_loop labels].
    - split.
      + intros [= <-]. exists []. cbn. repeat split; auto. constructor.
      + intros (lm & [= <-] & _ & _ & F). cbn in F. congruence.
    - destruct (label_from_value k) as [l|e| |] eqn:LK; cbn [bind];
        try (split; [discriminate | intros (lm & L & _); discriminate]).
      destruct (label_mem l seen) eqn:M.
      { split; [discriminate|]. intros (lm & L & ND & DJ & F).
        destruct (labels m) as [r| | |]; cbn [bind] in L; try discriminate. injection L as <-.
        apply label_mem_In in M. exfalso. apply (DJ l); cbn; auto. }
      assert (NM: ~ In l seen) by (rewrite <- label_mem_In; congruence).
      destruct (step s l v) as [s1|e| |] eqn:ST; cbn [bind].
      2-4: split; [discriminate|]; intros (lm & L & ND & DJ & F);
           destruct (labels m) as [r| | |]; cbn [bind] in L; try discriminate; injection L as <-;
           cbn [foldM] in F; rewrite ST in F; discriminate.
      rewrite IH. split.
      + intros (lm & L & ND & DJ & F). exists ((l, v) :: lm). rewrite L. cbn [bind map fst foldM]. rewrite ST. cbn [bind].
        repeat split; auto.
        * constructor; auto. intros I. apply (DJ l I). now left.
        * intros l0 [<-|I]; auto. intros I2. apply (DJ l0 I). now right.
      + intros (lm & L & ND & DJ & F). destruct (labels m) as [r| | |]; cbn [bind] in L; try discriminate. injection L as <-.
        cbn [map fst foldM] in *. rewrite ST in F. cbn [bind] in F. inversion ND; subst.
        exists r. repeat split; auto.
        intros l0 I [<-|I2]; auto. apply (DJ l0); auto. now right.
  Qed.

  (* a duplicated label is never accepted *)
  Corollary map_loop_dup_rejected m s s' lm :
    labels m = Ok lm -> ~ NoDup (map fst lm) -> map_loop step m s [] <> Ok s'.
  Proof. intros L ND H. apply map_loop_iff in H as (lm' & L' & ND' & _). congruence. Qed.

  (* ... and is reported as DuplicateMapKey when everything before its second occurrence is fine:
     prefix p decodes and folds, the next key is a label already seen *)
  Lemma map_loop_app : forall p rest s seen s1 lp,
    labels p = Ok lp -> NoDup (map fst lp) -> (forall l, In l (map fst lp) -> ~ In l seen) ->
    foldM lp s = Ok s1 ->
    map_loop step (p ++ rest) s seen = map_loop step rest s1 (rev (map fst lp) ++ seen).
  Proof.
    induction p as [|[k v] p IH]; intros rest s seen s1 lp L ND DJ F.
    - cbn in L. injection L as <-. cbn in F. injection F as <-. reflexivity.
    - cbn [labels] in L. destruct (label_from_value k) as [l| | |] eqn:LK; cbn [bind] in L; try discriminate.
      destruct (labels p) as [r| | |] eqn:LP; cbn [bind] in L; try discriminate. injection L as <-.
      cbn [map fst foldM] in *. inversion ND as [|? ? NI ND']; subst.
      destruct (step s l v) as [s2| | |] eqn:ST; cbn [bind] in F; try discriminate.
      cbn [app map_loop]. rewrite LK. cbn [bind].
      assert (M: label_mem l seen = false).
      { destruct (label_mem l seen) eqn:M; auto. apply label_mem_In in M. exfalso. apply (DJ l); auto. now left. }
      rewrite M, ST. cbn [bind].
      rewrite (IH rest s2 (l :: seen) s1 r eq_refl ND').
      + cbn [rev]. now rewrite <- app_assoc.
      + intros l0 I [<-|I2]; auto. apply (DJ l0); auto. now right.
      + exact F.
  Qed.

  Theorem duplicate_reported p k v rest s lp s1 l :
    labels p = Ok lp -> NoDup (map fst lp) -> foldM lp s = Ok s1 ->
    label_from_value k = Ok l -> In l (map fst lp) ->
    map_loop step (p ++ (k, v) :: rest) s [] = Err EDup.
  Proof.
    intros L ND F LK I. rewrite (map_loop_app p _ s [] s1 lp L ND (fun _ _ H => H) F).
    cbn [map_loop]. rewrite LK. cbn [bind].
    replace (label_mem l (rev (map fst lp) ++ [])) with true; [reflexivity|].
    symmetry. apply label_mem_In. rewrite app_nil_r. now apply in_rev in I.
  Qed.

  (* the loop panics only if a step does *)
  Lemma map_loop_no_panic : (forall s l v, step s l v <> Panic) -> forall m s seen, map_loop step m s seen <> Panic.
  Proof. intros NP. induction m as [|[k v] m IH]; intros s seen; cbn [map_loop]; [discriminate|].
    destruct (label_from_value_cases k) as [[l ->]|[e ->]]; cbn [bind]; [|discriminate].
    destruct (label_mem l seen); [discriminate|].
    destruct (step s l v) eqn:ST; cbn [bind]; try discriminate; auto. exfalso. eapply NP; eauto. Qed.
End Seq.

Fixpoint lookup (l : label) (lm : list (label * value)) : option value :=
  match lm with [] => None | (l', v) :: r => if label_eqb l l' then Some v else lookup l r end.

Lemma label_eqb_eq a b : label_eqb a b = true <-> a = b.
Proof. destruct a, b; cbn; try (split; discriminate).
  - rewrite Z.eqb_eq. split; congruence.
  - split. + intros H. f_equal. revert t0 H. induction t as [|x t IH]; intros [|y t0]; cbn; try discriminate; auto.
      intros H. apply andb_true_iff in H as [E H]. apply Byte.byte_dec_bl in E. f_equal; auto.
    + intros [= ->]. induction t0 as [|x t IH]; cbn; auto. rewrite IH, andb_true_r. apply Byte.byte_dec_lb. reflexivity. Qed.
Lemma lookup_notin l lm : ~ In l (map fst lm) -> lookup l lm = None.
Proof. induction lm as [|[l' v] r IH]; cbn; auto. intros H.
  destruct (label_eqb l l') eqn:E. - apply label_eqb_eq in E. subst. tauto. - apply IH. tauto. Qed.
Lemma is_lint_eqb l z : is_lint l z = label_eqb l (LInt z).
Proof. destruct l; reflexivity. Qed.
