(* C06: create (sign / tag / encrypt) with the builder helpers, serialise, parse back, and the
   verify / decrypt helper hands the caller's function exactly the stored signature / tag /
   ciphertext together with exactly the bytes the creating function was given. *)
From Coq Require Import Lia.
From Coset.Model Require Import Prelude Cbor Iana Label Msg Api Builders.
From Coset.Spec Require Import DetCbor Structures.
From Coset.Proofs Require Import Head Codec RoundTrip Fuel Widths OneItem Structures MsgAccept.
Require Import ZifyBool ZifyN ZifyNat.
Open Scope list_scope.

(* ====================================================================== *)
(* 0. bytes -> value round trip                                           *)
(* ====================================================================== *)

Lemma read_back : forall v, value_nf v = true -> (depth v <= 256)%nat -> read_to_value (ser v) = Ok v.
Proof.
  intros v NF D. apply read_to_value_ok_intro.
  apply (from_reader_of_any_fuel _ (vsize v)).
  pose proof (de_ser v NF (vsize v) RECURSION_LIMIT [] (le_n _)) as H.
  rewrite app_nil_r in H. apply H. exact D.
Qed.

Lemma read_back_tagged : forall t v, value_nf (VTag t v) = true -> (depth (VTag t v) <= 256)%nat ->
  read_to_value (ser (VTag t v)) = Ok (VTag t v).
Proof. intros t v. apply read_back. Qed.

Definition wire_ok (v : value) : Prop := value_nf v = true /\ (depth v <= 255)%nat.

Lemma wire_ok_tagged t v : (t < p64)%N -> t <> 2%N -> t <> 3%N -> wire_ok v ->
  value_nf (VTag t v) = true /\ (depth (VTag t v) <= 256)%nat.
Proof.
  intros Ht T2 T3 [NF D].
  assert (S : short_bignum_shape t v = false).
  { destruct v; try reflexivity. cbn [short_bignum_shape].
    destruct (N.eqb_spec t 2); [contradiction|]. destruct (N.eqb_spec t 3); [contradiction|]. reflexivity. }
  split.
  - cbn [value_nf]. rewrite NF, S. cbn [negb orb andb]. rewrite !andb_true_r. apply N.ltb_lt. exact Ht.
  - cbn [depth]. rewrite S. lia.
Qed.

Ltac bind_inv H :=
  match type of H with
  | bind ?x _ = Ok _ => let E := fresh "E" in destruct x eqn:E; cbn [bind] in H; try discriminate H
  end.

Section GenericRoundTrip.
  Context {T : Type}.
  Variable fromv : value -> res T.
  Variable tov : T -> res value.

  (* serialise, parse: the decoder sees exactly the value the encoder produced *)
  Lemma roundtrip_untagged x v b y :
    tov x = Ok v -> wire_ok v ->
    to_vec tov x = Ok b -> from_slice fromv b = Ok y -> fromv v = Ok y.
  Proof.
    intros Hv [NF D] Hb Hy. unfold to_vec in Hb. rewrite Hv in Hb. cbn [bind] in Hb. injection Hb as <-.
    unfold from_slice in Hy. rewrite (read_back v NF) in Hy by lia. exact Hy.
  Qed.

  Lemma roundtrip_tagged TAG x v b y :
    (TAG < p64)%N -> TAG <> 2%N -> TAG <> 3%N ->
    tov x = Ok v -> wire_ok v ->
    to_tagged_vec tov TAG x = Ok b -> from_tagged_slice fromv TAG b = Ok y -> fromv v = Ok y.
  Proof.
    intros Ht T2 T3 Hv W Hb Hy. unfold to_tagged_vec in Hb. rewrite Hv in Hb. cbn [bind] in Hb. injection Hb as <-.
    destruct (wire_ok_tagged TAG v Ht T2 T3 W) as [NF D].
    unfold from_tagged_slice in Hy. change (head 6 TAG ++ ser v) with (ser (VTag TAG v)) in Hy. rewrite (read_back_tagged TAG v NF D) in Hy. cbn [bind] in Hy.
    rewrite N.eqb_refl in Hy. exact Hy.
  Qed.
End GenericRoundTrip.

(* ====================================================================== *)
(* 1. What survives encode / decode                                       *)
(* ====================================================================== *)

(* a decoded protected header re-emits exactly the byte string it was read from *)
Lemma protected_retained parse v p : protected_from_bstr parse v = Ok p -> protected_cbor_bstr p = Ok v.
Proof.
  intros H. destruct (protected_bytes_decoded parse v p H) as (d & -> & O & _).
  destruct p as [o h]. cbn [p_orig] in O. subst o. reflexivity.
Qed.

Lemma bytes_or_nil_opt o : bytes_or_nil (opt_bytes_value o) = Ok o.
Proof. destruct o; reflexivity. Qed.

(* the structure functions look at a protected header only through protected_cbor_bstr *)
Lemma sig_structure_data_ext c p p' s s' aad pl :
  protected_cbor_bstr p = protected_cbor_bstr p' ->
  match s, s' with
  | Some x, Some x' => protected_cbor_bstr x = protected_cbor_bstr x'
  | None, None => True
  | _, _ => False
  end ->
  sig_structure_data c p s aad pl = sig_structure_data c p' s' aad pl.
Proof.
  intros E Es. unfold sig_structure_data. rewrite E.
  destruct s as [x|], s' as [x'|]; try contradiction; [rewrite Es|]; reflexivity.
Qed.
Lemma mac_structure_data_ext c p p' aad pl :
  protected_cbor_bstr p = protected_cbor_bstr p' -> mac_structure_data c p aad pl = mac_structure_data c p' aad pl.
Proof. intros E. unfold mac_structure_data. now rewrite E. Qed.
Lemma enc_structure_data_ext c p p' aad :
  protected_cbor_bstr p = protected_cbor_bstr p' -> enc_structure_data c p aad = enc_structure_data c p' aad.
Proof. intros E. unfold enc_structure_data. now rewrite E. Qed.

(* a structure function that succeeded had a serialisable protected header *)
Lemma expect_ok {A} (r : res A) a : expect r = Ok a -> r = Ok a.
Proof. destruct r; cbn; intros H; try discriminate; exact H. Qed.

(* ---------- COSE_Sign1 ---------- *)
Lemma sign1_encode_shape m v : CoseSign1_to_value m = Ok v ->
  exists p u, protected_cbor_bstr (s1_prot m) = Ok p /\
              v = VArray [p; u; opt_bytes_value (s1_payload m); VBytes (s1_sig m)].
Proof. unfold CoseSign1_to_value. intros H. bind_inv H. bind_inv H. injection H as <-. eauto. Qed.

Lemma sign1_decode_shape p u plv sgv m' :
  CoseSign1_from_value (VArray [p; u; plv; sgv]) = Ok m' ->
  protected_cbor_bstr (s1_prot m') = Ok p /\ bytes_or_nil plv = Ok (s1_payload m') /\ try_as_bytes sgv = Ok (s1_sig m').
Proof.
  unfold CoseSign1_from_value. cbn [try_as_array bind length]. rewrite arity_sign1. cbn [Nat.eqb negb].
  intros H. bind_inv H. bind_inv H. bind_inv H. bind_inv H. injection H as <-.
  cbn [s1_prot s1_payload s1_sig]. repeat split. eapply protected_retained; exact E2.
Qed.

Lemma sign1_roundtrip_fields m v m' :
  CoseSign1_to_value m = Ok v -> CoseSign1_from_value v = Ok m' ->
  protected_cbor_bstr (s1_prot m') = protected_cbor_bstr (s1_prot m) /\
  s1_payload m' = s1_payload m /\ s1_sig m' = s1_sig m.
Proof.
  intros He Hd. destruct (sign1_encode_shape _ _ He) as (p & u & Hp & ->).
  apply sign1_decode_shape in Hd as (Hp' & Hpl & Hsg).
  rewrite bytes_or_nil_opt in Hpl. cbn [try_as_bytes] in Hsg.
  repeat split; congruence.
Qed.

Theorem sign1_sign_then_verify :
  forall (st : sign1) (aad : bytes) (signer : closure1) (tbs sg : bytes) (m : sign1) (v : value) (m' : sign1)
         (R : Type) (verifier : bytes -> bytes -> R),
    Sign1_tbs_data st aad = Ok tbs -> signer tbs = Some sg ->
    s1_prot m = s1_prot st -> s1_payload m = s1_payload st -> s1_sig m = sg ->
    CoseSign1_to_value m = Ok v -> wire_ok v ->
    CoseSign1_from_value v = Ok m' ->
    Sign1_verify_signature m' aad verifier = Ok (verifier sg tbs).
Proof.
  intros st aad signer tbs sg m v m' R verifier Htbs _ Hp Hpl Hsg He _ Hd.
  destruct (sign1_roundtrip_fields _ _ _ He Hd) as (Ep & Epl & Esg).
  unfold Sign1_verify_signature.
  assert (X : Sign1_tbs_data m' aad = Ok tbs).
  { rewrite <- Htbs. unfold Sign1_tbs_data. rewrite Epl, Hpl.
    apply sig_structure_data_ext; [|exact I]. rewrite Ep, Hp. reflexivity. }
  rewrite X. cbn [bind]. rewrite Esg, Hsg. reflexivity.
Qed.

Lemma tbs_detached_ok st pl aad tbs : Sign1_tbs_detached_data st pl aad = Ok tbs ->
  s1_payload st = None /\ sig_structure_data SigCoseSign1 (s1_prot st) None aad pl = Ok tbs.
Proof. unfold Sign1_tbs_detached_data. destruct (s1_payload st); cbn [issome]; [discriminate|]. auto. Qed.

Theorem sign1_detached_sign_then_verify :
  forall (st : sign1) (pl aad : bytes) (signer : closure1) (tbs sg : bytes) (m : sign1) (v : value) (m' : sign1)
         (R : Type) (verifier : bytes -> bytes -> R),
    Sign1_tbs_detached_data st pl aad = Ok tbs -> signer tbs = Some sg ->
    s1_prot m = s1_prot st -> s1_payload m = s1_payload st -> s1_sig m = sg ->
    CoseSign1_to_value m = Ok v -> wire_ok v ->
    CoseSign1_from_value v = Ok m' ->
    Sign1_verify_detached_signature m' pl aad verifier = Ok (verifier sg tbs).
Proof.
  intros st pl aad signer tbs sg m v m' R verifier Htbs _ Hp Hpl Hsg He _ Hd.
  destruct (sign1_roundtrip_fields _ _ _ He Hd) as (Ep & Epl & Esg).
  apply tbs_detached_ok in Htbs as [Hn Htbs].
  unfold Sign1_verify_detached_signature.
  assert (X : Sign1_tbs_detached_data m' pl aad = Ok tbs).
  { unfold Sign1_tbs_detached_data. rewrite Epl, Hpl, Hn. cbn [issome]. rewrite <- Htbs.
    apply sig_structure_data_ext; [|exact I]. rewrite Ep, Hp. reflexivity. }
  rewrite X. cbn [bind]. rewrite Esg, Hsg. reflexivity.
Qed.

(* byte level, untagged and tagged *)
Lemma tag_generic_msgs :
  Forall (fun ty => (tag_of ty < p64)%N /\ tag_of ty <> 2%N /\ tag_of ty <> 3%N)
         ["CoseSign1"; "CoseSign"; "CoseMac0"; "CoseMac"; "CoseEncrypt0"; "CoseEncrypt"]%string.
Proof. repeat constructor; try (intro H; vm_compute in H; discriminate H). Qed.
Lemma tag_generic ty :
  In ty ["CoseSign1"; "CoseSign"; "CoseMac0"; "CoseMac"; "CoseEncrypt0"; "CoseEncrypt"]%string ->
  (tag_of ty < p64)%N /\ tag_of ty <> 2%N /\ tag_of ty <> 3%N.
Proof. intros H. exact (proj1 (Forall_forall _ _) tag_generic_msgs ty H). Qed.

Ltac tag_side := apply tag_generic; cbn [In]; tauto.

Corollary sign1_roundtrip_bytes :
  forall (st : sign1) (aad : bytes) (signer : closure1) (tbs sg : bytes) (m : sign1) (v : value) (b : bytes)
         (m' : sign1) (R : Type) (verifier : bytes -> bytes -> R),
    Sign1_tbs_data st aad = Ok tbs -> signer tbs = Some sg ->
    s1_prot m = s1_prot st -> s1_payload m = s1_payload st -> s1_sig m = sg ->
    CoseSign1_to_value m = Ok v -> wire_ok v ->
    to_vec CoseSign1_to_value m = Ok b -> from_slice CoseSign1_from_value b = Ok m' ->
    Sign1_verify_signature m' aad verifier = Ok (verifier sg tbs).
Proof.
  intros st aad signer tbs sg m v b m' R verifier Htbs Hs Hp Hpl Hsg He W Hb Hd.
  eapply sign1_sign_then_verify; eauto. eapply roundtrip_untagged; eauto.
Qed.

Corollary sign1_roundtrip_tagged_bytes :
  forall (st : sign1) (aad : bytes) (signer : closure1) (tbs sg : bytes) (m : sign1) (v : value) (b : bytes)
         (m' : sign1) (R : Type) (verifier : bytes -> bytes -> R),
    Sign1_tbs_data st aad = Ok tbs -> signer tbs = Some sg ->
    s1_prot m = s1_prot st -> s1_payload m = s1_payload st -> s1_sig m = sg ->
    CoseSign1_to_value m = Ok v -> wire_ok v ->
    to_tagged_vec CoseSign1_to_value (tag_of "CoseSign1") m = Ok b ->
    from_tagged_slice CoseSign1_from_value (tag_of "CoseSign1") b = Ok m' ->
    Sign1_verify_signature m' aad verifier = Ok (verifier sg tbs).
Proof.
  intros st aad signer tbs sg m v b m' R verifier Htbs Hs Hp Hpl Hsg He W Hb Hd.
  eapply sign1_sign_then_verify; eauto.
  destruct (tag_generic "CoseSign1") as (A & B & C); [cbn [In]; tauto|].
  eapply roundtrip_tagged; eauto.
Qed.

Corollary sign1_detached_roundtrip_bytes :
  forall (st : sign1) (pl aad : bytes) (signer : closure1) (tbs sg : bytes) (m : sign1) (v : value) (b : bytes)
         (m' : sign1) (R : Type) (verifier : bytes -> bytes -> R),
    Sign1_tbs_detached_data st pl aad = Ok tbs -> signer tbs = Some sg ->
    s1_prot m = s1_prot st -> s1_payload m = s1_payload st -> s1_sig m = sg ->
    CoseSign1_to_value m = Ok v -> wire_ok v ->
    to_vec CoseSign1_to_value m = Ok b -> from_slice CoseSign1_from_value b = Ok m' ->
    Sign1_verify_detached_signature m' pl aad verifier = Ok (verifier sg tbs).
Proof.
  intros st pl aad signer tbs sg m v b m' R verifier Htbs Hs Hp Hpl Hsg He W Hb Hd.
  eapply sign1_detached_sign_then_verify; eauto. eapply roundtrip_untagged; eauto.
Qed.

Corollary sign1_detached_roundtrip_tagged_bytes :
  forall (st : sign1) (pl aad : bytes) (signer : closure1) (tbs sg : bytes) (m : sign1) (v : value) (b : bytes)
         (m' : sign1) (R : Type) (verifier : bytes -> bytes -> R),
    Sign1_tbs_detached_data st pl aad = Ok tbs -> signer tbs = Some sg ->
    s1_prot m = s1_prot st -> s1_payload m = s1_payload st -> s1_sig m = sg ->
    CoseSign1_to_value m = Ok v -> wire_ok v ->
    to_tagged_vec CoseSign1_to_value (tag_of "CoseSign1") m = Ok b ->
    from_tagged_slice CoseSign1_from_value (tag_of "CoseSign1") b = Ok m' ->
    Sign1_verify_detached_signature m' pl aad verifier = Ok (verifier sg tbs).
Proof.
  intros st pl aad signer tbs sg m v b m' R verifier Htbs Hs Hp Hpl Hsg He W Hb Hd.
  eapply sign1_detached_sign_then_verify; eauto.
  destruct (tag_generic "CoseSign1") as (A & B & C); [cbn [In]; tauto|].
  eapply roundtrip_tagged; eauto.
Qed.

(* connection to the builder *)
Lemma create_signature_step : forall st aad f,
  sign1_builder_step st (S1_create_signature aad f) =
  (do tbs <- Sign1_tbs_data st aad; do sg <- call1 f tbs;
   Ok (mkSign1 (s1_prot st) (s1_unprot st) (s1_payload st) sg)).
Proof. reflexivity. Qed.
Lemma try_create_signature_step : forall st aad f,
  sign1_builder_step st (S1_try_create_signature aad f) =
  (do tbs <- Sign1_tbs_data st aad; do sg <- call1 f tbs;
   Ok (mkSign1 (s1_prot st) (s1_unprot st) (s1_payload st) sg)).
Proof. reflexivity. Qed.
Lemma create_detached_signature_step : forall st pl aad f,
  sign1_builder_step st (S1_create_detached_signature pl aad f) =
  (do tbs <- Sign1_tbs_detached_data st pl aad; do sg <- call1 f tbs;
   Ok (mkSign1 (s1_prot st) (s1_unprot st) (s1_payload st) sg)).
Proof. reflexivity. Qed.
Lemma try_create_detached_signature_step : forall st pl aad f,
  sign1_builder_step st (S1_try_create_detached_signature pl aad f) =
  (do tbs <- Sign1_tbs_detached_data st pl aad; do sg <- call1 f tbs;
   Ok (mkSign1 (s1_prot st) (s1_unprot st) (s1_payload st) sg)).
Proof. reflexivity. Qed.

Lemma call1_ok f x y : call1 f x = Ok y -> f x = Some y.
Proof. unfold call1. destruct (f x); intros H; try discriminate. now injection H as ->. Qed.
Lemma call2_ok f x a y : call2 f x a = Ok y -> f x a = Some y.
Proof. unfold call2. destruct (f x a); intros H; try discriminate. now injection H as ->. Qed.
Lemma call1_none f x : f x = None -> call1 f x = Err EEncode.
Proof. unfold call1. now intros ->. Qed.
Lemma call2_none f x a : f x a = None -> call2 f x a = Err EEncode.
Proof. unfold call2. now intros ->. Qed.

Lemma failing_creator_yields_no_message : forall st aad f tbs,
  Sign1_tbs_data st aad = Ok tbs -> f tbs = None ->
  sign1_builder_step st (S1_try_create_signature aad f) = Err EEncode.
Proof. intros st aad f tbs H N. rewrite try_create_signature_step, H. cbn [bind]. now rewrite (call1_none _ _ N). Qed.
Lemma failing_detached_creator_yields_no_message : forall st pl aad f tbs,
  Sign1_tbs_detached_data st pl aad = Ok tbs -> f tbs = None ->
  sign1_builder_step st (S1_try_create_detached_signature pl aad f) = Err EEncode.
Proof. intros st pl aad f tbs H N. rewrite try_create_detached_signature_step, H. cbn [bind]. now rewrite (call1_none _ _ N). Qed.

(* a successful creating step: the closure was called on the tbs bytes, and only the signature changed *)
Lemma create_signature_step_ok st aad f m :
  sign1_builder_step st (S1_create_signature aad f) = Ok m \/
  sign1_builder_step st (S1_try_create_signature aad f) = Ok m ->
  exists tbs sg, Sign1_tbs_data st aad = Ok tbs /\ f tbs = Some sg /\
                 m = mkSign1 (s1_prot st) (s1_unprot st) (s1_payload st) sg.
Proof.
  rewrite create_signature_step, try_create_signature_step. intros [H|H]; bind_inv H; bind_inv H;
    injection H as <-; (do 2 eexists; split; [reflexivity|]; split; [apply call1_ok; eassumption|reflexivity]).
Qed.

Corollary sign1_builder_sign_then_verify :
  forall (st : sign1) (aad : bytes) (signer : closure1) (m : sign1) (v : value) (m' : sign1)
         (R : Type) (verifier : bytes -> bytes -> R),
    sign1_builder_step st (S1_create_signature aad signer) = Ok m \/
    sign1_builder_step st (S1_try_create_signature aad signer) = Ok m ->
    CoseSign1_to_value m = Ok v -> wire_ok v -> CoseSign1_from_value v = Ok m' ->
    exists tbs sg, Sign1_tbs_data st aad = Ok tbs /\ signer tbs = Some sg /\ s1_sig m = sg /\
                   Sign1_verify_signature m' aad verifier = Ok (verifier sg tbs).
Proof.
  intros st aad signer m v m' R verifier Hstep He W Hd.
  apply create_signature_step_ok in Hstep as (tbs & sg & Ht & Hs & ->).
  exists tbs, sg. split; [exact Ht|]. split; [exact Hs|]. split; [reflexivity|].
  exact (sign1_sign_then_verify st aad signer tbs sg (mkSign1 (s1_prot st) (s1_unprot st) (s1_payload st) sg) v m' R verifier Ht Hs eq_refl eq_refl eq_refl He W Hd).
Qed.

(* ---------- COSE_Mac0 ---------- *)
Lemma mac0_encode_shape m v : CoseMac0_to_value m = Ok v ->
  exists p u, protected_cbor_bstr (m0_prot m) = Ok p /\
              v = VArray [p; u; opt_bytes_value (m0_payload m); VBytes (m0_tag m)].
Proof. unfold CoseMac0_to_value. intros H. bind_inv H. bind_inv H. injection H as <-. eauto. Qed.

Lemma mac0_decode_shape p u plv tgv m' :
  CoseMac0_from_value (VArray [p; u; plv; tgv]) = Ok m' ->
  protected_cbor_bstr (m0_prot m') = Ok p /\ bytes_or_nil plv = Ok (m0_payload m') /\ try_as_bytes tgv = Ok (m0_tag m').
Proof.
  unfold CoseMac0_from_value. cbn [try_as_array bind length]. rewrite arity_mac0. cbn [Nat.eqb negb].
  intros H. bind_inv H. bind_inv H. bind_inv H. bind_inv H. injection H as <-.
  cbn [m0_prot m0_payload m0_tag]. repeat split. eapply protected_retained; eassumption.
Qed.

Lemma mac0_roundtrip_fields m v m' :
  CoseMac0_to_value m = Ok v -> CoseMac0_from_value v = Ok m' ->
  protected_cbor_bstr (m0_prot m') = protected_cbor_bstr (m0_prot m) /\
  m0_payload m' = m0_payload m /\ m0_tag m' = m0_tag m.
Proof.
  intros He Hd. destruct (mac0_encode_shape _ _ He) as (p & u & Hp & ->).
  apply mac0_decode_shape in Hd as (Hp' & Hpl & Htg).
  rewrite bytes_or_nil_opt in Hpl. cbn [try_as_bytes] in Htg.
  repeat split; congruence.
Qed.

Theorem mac0_create_then_verify :
  forall (st : mac0) (aad : bytes) (tagger : closure1) (tbm tg : bytes) (m : mac0) (v : value) (m' : mac0)
         (R : Type) (verify : bytes -> bytes -> R),
    Mac0_tbm st aad = Ok tbm -> tagger tbm = Some tg ->
    m0_prot m = m0_prot st -> m0_payload m = m0_payload st -> m0_tag m = tg ->
    CoseMac0_to_value m = Ok v -> wire_ok v ->
    CoseMac0_from_value v = Ok m' ->
    Mac0_verify_tag m' aad verify = Ok (verify tg tbm).
Proof.
  intros st aad tagger tbm tg m v m' R verify Htbm _ Hp Hpl Htg He _ Hd.
  destruct (mac0_roundtrip_fields _ _ _ He Hd) as (Ep & Epl & Etg).
  unfold Mac0_verify_tag.
  assert (X : Mac0_tbm m' aad = Ok tbm).
  { rewrite <- Htbm. unfold Mac0_tbm. rewrite Epl, Hpl. destruct (m0_payload st); [|reflexivity].
    apply mac_structure_data_ext. rewrite Ep, Hp. reflexivity. }
  rewrite X. cbn [bind]. rewrite Etg, Htg. reflexivity.
Qed.

Corollary mac0_roundtrip_bytes :
  forall (st : mac0) (aad : bytes) (tagger : closure1) (tbm tg : bytes) (m : mac0) (v : value) (b : bytes)
         (m' : mac0) (R : Type) (verify : bytes -> bytes -> R),
    Mac0_tbm st aad = Ok tbm -> tagger tbm = Some tg ->
    m0_prot m = m0_prot st -> m0_payload m = m0_payload st -> m0_tag m = tg ->
    CoseMac0_to_value m = Ok v -> wire_ok v ->
    to_vec CoseMac0_to_value m = Ok b -> from_slice CoseMac0_from_value b = Ok m' ->
    Mac0_verify_tag m' aad verify = Ok (verify tg tbm).
Proof.
  intros st aad tagger tbm tg m v b m' R verify Htbm Hs Hp Hpl Htg He W Hb Hd.
  eapply mac0_create_then_verify; eauto. eapply roundtrip_untagged; eauto.
Qed.
Corollary mac0_roundtrip_tagged_bytes :
  forall (st : mac0) (aad : bytes) (tagger : closure1) (tbm tg : bytes) (m : mac0) (v : value) (b : bytes)
         (m' : mac0) (R : Type) (verify : bytes -> bytes -> R),
    Mac0_tbm st aad = Ok tbm -> tagger tbm = Some tg ->
    m0_prot m = m0_prot st -> m0_payload m = m0_payload st -> m0_tag m = tg ->
    CoseMac0_to_value m = Ok v -> wire_ok v ->
    to_tagged_vec CoseMac0_to_value (tag_of "CoseMac0") m = Ok b ->
    from_tagged_slice CoseMac0_from_value (tag_of "CoseMac0") b = Ok m' ->
    Mac0_verify_tag m' aad verify = Ok (verify tg tbm).
Proof.
  intros st aad tagger tbm tg m v b m' R verify Htbm Hs Hp Hpl Htg He W Hb Hd.
  eapply mac0_create_then_verify; eauto.
  destruct (tag_generic "CoseMac0") as (A & B & C); [cbn [In]; tauto|].
  eapply roundtrip_tagged; eauto.
Qed.

Lemma mac0_create_tag_step : forall st aad f,
  mac0_builder_step st (M0_create_tag aad f) =
  (do tbm <- Mac0_tbm st aad; do tg <- call1 f tbm; Ok (mkMac0 (m0_prot st) (m0_unprot st) (m0_payload st) tg)).
Proof. reflexivity. Qed.
Lemma mac0_try_create_tag_step : forall st aad f,
  mac0_builder_step st (M0_try_create_tag aad f) =
  (do tbm <- Mac0_tbm st aad; do tg <- call1 f tbm; Ok (mkMac0 (m0_prot st) (m0_unprot st) (m0_payload st) tg)).
Proof. reflexivity. Qed.
Lemma mac0_failing_creator_yields_no_message : forall st aad f tbm,
  Mac0_tbm st aad = Ok tbm -> f tbm = None -> mac0_builder_step st (M0_try_create_tag aad f) = Err EEncode.
Proof. intros st aad f tbm H N. rewrite mac0_try_create_tag_step, H. cbn [bind]. now rewrite (call1_none _ _ N). Qed.

(* ---------- COSE_Encrypt0 ---------- *)
Lemma encrypt0_encode_shape m v : CoseEncrypt0_to_value m = Ok v ->
  exists p u, protected_cbor_bstr (e0_prot m) = Ok p /\ v = VArray [p; u; opt_bytes_value (e0_ct m)].
Proof. unfold CoseEncrypt0_to_value. intros H. bind_inv H. bind_inv H. injection H as <-. eauto. Qed.

Lemma encrypt0_decode_shape p u ctv m' :
  CoseEncrypt0_from_value (VArray [p; u; ctv]) = Ok m' ->
  protected_cbor_bstr (e0_prot m') = Ok p /\ bytes_or_nil ctv = Ok (e0_ct m').
Proof.
  unfold CoseEncrypt0_from_value. cbn [try_as_array bind length]. rewrite arity_encrypt0. cbn [Nat.eqb negb].
  intros H. bind_inv H. bind_inv H. bind_inv H. injection H as <-.
  cbn [e0_prot e0_ct]. repeat split. eapply protected_retained; eassumption.
Qed.

Lemma encrypt0_roundtrip_fields m v m' :
  CoseEncrypt0_to_value m = Ok v -> CoseEncrypt0_from_value v = Ok m' ->
  protected_cbor_bstr (e0_prot m') = protected_cbor_bstr (e0_prot m) /\ e0_ct m' = e0_ct m.
Proof.
  intros He Hd. destruct (encrypt0_encode_shape _ _ He) as (p & u & Hp & ->).
  apply encrypt0_decode_shape in Hd as (Hp' & Hct).
  rewrite bytes_or_nil_opt in Hct. repeat split; congruence.
Qed.

Theorem encrypt0_create_then_decrypt :
  forall (st : encrypt0) (pt aad : bytes) (enc : closure2) (a ct : bytes) (m : encrypt0) (v : value) (m' : encrypt0)
         (R : Type) (cipher : bytes -> bytes -> R),
    enc_structure_data EncCoseEncrypt0 (e0_prot st) aad = Ok a -> enc pt a = Some ct ->
    e0_prot m = e0_prot st -> e0_ct m = Some ct ->
    CoseEncrypt0_to_value m = Ok v -> wire_ok v ->
    CoseEncrypt0_from_value v = Ok m' ->
    Encrypt0_decrypt m' aad cipher = Ok (cipher ct a).
Proof.
  intros st pt aad enc a ct m v m' R cipher Ha _ Hp Hct He _ Hd.
  destruct (encrypt0_roundtrip_fields _ _ _ He Hd) as (Ep & Ect).
  unfold Encrypt0_decrypt. rewrite Ect, Hct.
  rewrite (enc_structure_data_ext _ (e0_prot m') (e0_prot st)) by (rewrite Ep, Hp; reflexivity).
  rewrite Ha. reflexivity.
Qed.

Corollary encrypt0_roundtrip_bytes :
  forall (st : encrypt0) (pt aad : bytes) (enc : closure2) (a ct : bytes) (m : encrypt0) (v : value) (b : bytes)
         (m' : encrypt0) (R : Type) (cipher : bytes -> bytes -> R),
    enc_structure_data EncCoseEncrypt0 (e0_prot st) aad = Ok a -> enc pt a = Some ct ->
    e0_prot m = e0_prot st -> e0_ct m = Some ct ->
    CoseEncrypt0_to_value m = Ok v -> wire_ok v ->
    to_vec CoseEncrypt0_to_value m = Ok b -> from_slice CoseEncrypt0_from_value b = Ok m' ->
    Encrypt0_decrypt m' aad cipher = Ok (cipher ct a).
Proof.
  intros st pt aad enc a ct m v b m' R cipher Ha Hs Hp Hct He W Hb Hd.
  eapply encrypt0_create_then_decrypt; eauto. eapply roundtrip_untagged; eauto.
Qed.
Corollary encrypt0_roundtrip_tagged_bytes :
  forall (st : encrypt0) (pt aad : bytes) (enc : closure2) (a ct : bytes) (m : encrypt0) (v : value) (b : bytes)
         (m' : encrypt0) (R : Type) (cipher : bytes -> bytes -> R),
    enc_structure_data EncCoseEncrypt0 (e0_prot st) aad = Ok a -> enc pt a = Some ct ->
    e0_prot m = e0_prot st -> e0_ct m = Some ct ->
    CoseEncrypt0_to_value m = Ok v -> wire_ok v ->
    to_tagged_vec CoseEncrypt0_to_value (tag_of "CoseEncrypt0") m = Ok b ->
    from_tagged_slice CoseEncrypt0_from_value (tag_of "CoseEncrypt0") b = Ok m' ->
    Encrypt0_decrypt m' aad cipher = Ok (cipher ct a).
Proof.
  intros st pt aad enc a ct m v b m' R cipher Ha Hs Hp Hct He W Hb Hd.
  eapply encrypt0_create_then_decrypt; eauto.
  destruct (tag_generic "CoseEncrypt0") as (A & B & C); [cbn [In]; tauto|].
  eapply roundtrip_tagged; eauto.
Qed.

Lemma encrypt0_create_ciphertext_step : forall st pt aad f,
  encrypt0_builder_step st (E0_create_ciphertext pt aad f) =
  (do a <- enc_structure_data EncCoseEncrypt0 (e0_prot st) aad; do ct <- call2 f pt a;
   Ok (mkEncrypt0 (e0_prot st) (e0_unprot st) (Some ct))).
Proof. reflexivity. Qed.
Lemma encrypt0_try_create_ciphertext_step : forall st pt aad f,
  encrypt0_builder_step st (E0_try_create_ciphertext pt aad f) =
  (do a <- enc_structure_data EncCoseEncrypt0 (e0_prot st) aad; do ct <- call2 f pt a;
   Ok (mkEncrypt0 (e0_prot st) (e0_unprot st) (Some ct))).
Proof. reflexivity. Qed.
Lemma encrypt0_failing_creator_yields_no_message : forall st pt aad f a,
  enc_structure_data EncCoseEncrypt0 (e0_prot st) aad = Ok a -> f pt a = None ->
  encrypt0_builder_step st (E0_try_create_ciphertext pt aad f) = Err EEncode.
Proof. intros st pt aad f a H N. rewrite encrypt0_try_create_ciphertext_step, H. cbn [bind]. now rewrite (call2_none _ _ _ N). Qed.

(* ====================================================================== *)
(* 2. Messages with nested recipients / signatures                        *)
(* ====================================================================== *)

(* ---------- COSE_Mac ---------- *)
Lemma mac_encode_shape m v : CoseMac_to_value m = Ok v ->
  exists p u rs, protected_cbor_bstr (mc_prot m) = Ok p /\
              v = VArray [p; u; opt_bytes_value (mc_payload m); VBytes (mc_tag m); VArray rs].
Proof. unfold CoseMac_to_value. intros H. bind_inv H. bind_inv H. bind_inv H. injection H as <-. eauto. Qed.

Lemma mac_decode_shape p u plv tgv rsv m' :
  CoseMac_from_value (VArray [p; u; plv; tgv; rsv]) = Ok m' ->
  protected_cbor_bstr (mc_prot m') = Ok p /\ bytes_or_nil plv = Ok (mc_payload m') /\ try_as_bytes tgv = Ok (mc_tag m').
Proof.
  unfold CoseMac_from_value. cbn [try_as_array bind length]. rewrite arity_mac. cbn [Nat.eqb negb].
  intros H. bind_inv H. bind_inv H. bind_inv H. bind_inv H. bind_inv H. injection H as <-.
  cbn [mc_prot mc_payload mc_tag]. repeat split. eapply protected_retained; eassumption.
Qed.

Lemma mac_roundtrip_fields m v m' :
  CoseMac_to_value m = Ok v -> CoseMac_from_value v = Ok m' ->
  protected_cbor_bstr (mc_prot m') = protected_cbor_bstr (mc_prot m) /\
  mc_payload m' = mc_payload m /\ mc_tag m' = mc_tag m.
Proof.
  intros He Hd. destruct (mac_encode_shape _ _ He) as (p & u & rs & Hp & ->).
  apply mac_decode_shape in Hd as (Hp' & Hpl & Htg).
  rewrite bytes_or_nil_opt in Hpl. cbn [try_as_bytes] in Htg.
  repeat split; congruence.
Qed.

Theorem mac_create_then_verify :
  forall (st : mac) (aad : bytes) (tagger : closure1) (tbm tg : bytes) (m : mac) (v : value) (m' : mac)
         (R : Type) (verify : bytes -> bytes -> R),
    Mac_tbm st aad = Ok tbm -> tagger tbm = Some tg ->
    mc_prot m = mc_prot st -> mc_payload m = mc_payload st -> mc_tag m = tg ->
    CoseMac_to_value m = Ok v -> wire_ok v ->
    CoseMac_from_value v = Ok m' ->
    Mac_verify_tag m' aad verify = Ok (verify tg tbm).
Proof.
  intros st aad tagger tbm tg m v m' R verify Htbm _ Hp Hpl Htg He _ Hd.
  destruct (mac_roundtrip_fields _ _ _ He Hd) as (Ep & Epl & Etg).
  unfold Mac_verify_tag.
  assert (X : Mac_tbm m' aad = Ok tbm).
  { rewrite <- Htbm. unfold Mac_tbm. rewrite Epl, Hpl. destruct (mc_payload st); [|reflexivity].
    apply mac_structure_data_ext. rewrite Ep, Hp. reflexivity. }
  rewrite X. cbn [bind]. rewrite Etg, Htg. reflexivity.
Qed.

Corollary mac_roundtrip_bytes :
  forall (st : mac) (aad : bytes) (tagger : closure1) (tbm tg : bytes) (m : mac) (v : value) (b : bytes)
         (m' : mac) (R : Type) (verify : bytes -> bytes -> R),
    Mac_tbm st aad = Ok tbm -> tagger tbm = Some tg ->
    mc_prot m = mc_prot st -> mc_payload m = mc_payload st -> mc_tag m = tg ->
    CoseMac_to_value m = Ok v -> wire_ok v ->
    to_vec CoseMac_to_value m = Ok b -> from_slice CoseMac_from_value b = Ok m' ->
    Mac_verify_tag m' aad verify = Ok (verify tg tbm).
Proof.
  intros st aad tagger tbm tg m v b m' R verify Htbm Hs Hp Hpl Htg He W Hb Hd.
  eapply mac_create_then_verify; eauto. eapply roundtrip_untagged; eauto.
Qed.
Corollary mac_roundtrip_tagged_bytes :
  forall (st : mac) (aad : bytes) (tagger : closure1) (tbm tg : bytes) (m : mac) (v : value) (b : bytes)
         (m' : mac) (R : Type) (verify : bytes -> bytes -> R),
    Mac_tbm st aad = Ok tbm -> tagger tbm = Some tg ->
    mc_prot m = mc_prot st -> mc_payload m = mc_payload st -> mc_tag m = tg ->
    CoseMac_to_value m = Ok v -> wire_ok v ->
    to_tagged_vec CoseMac_to_value (tag_of "CoseMac") m = Ok b ->
    from_tagged_slice CoseMac_from_value (tag_of "CoseMac") b = Ok m' ->
    Mac_verify_tag m' aad verify = Ok (verify tg tbm).
Proof.
  intros st aad tagger tbm tg m v b m' R verify Htbm Hs Hp Hpl Htg He W Hb Hd.
  eapply mac_create_then_verify; eauto.
  destruct (tag_generic "CoseMac") as (A & B & C); [cbn [In]; tauto|].
  eapply roundtrip_tagged; eauto.
Qed.

Lemma mac_create_tag_step : forall st aad f,
  mac_builder_step st (MC_create_tag aad f) =
  (do tbm <- Mac_tbm st aad; do tg <- call1 f tbm;
   Ok (mkMac (mc_prot st) (mc_unprot st) (mc_payload st) tg (mc_recipients st))).
Proof. reflexivity. Qed.
Lemma mac_try_create_tag_step : forall st aad f,
  mac_builder_step st (MC_try_create_tag aad f) =
  (do tbm <- Mac_tbm st aad; do tg <- call1 f tbm;
   Ok (mkMac (mc_prot st) (mc_unprot st) (mc_payload st) tg (mc_recipients st))).
Proof. reflexivity. Qed.
Lemma mac_failing_creator_yields_no_message : forall st aad f tbm,
  Mac_tbm st aad = Ok tbm -> f tbm = None -> mac_builder_step st (MC_try_create_tag aad f) = Err EEncode.
Proof. intros st aad f tbm H N. rewrite mac_try_create_tag_step, H. cbn [bind]. now rewrite (call1_none _ _ N). Qed.

(* ---------- COSE_Encrypt ---------- *)
Lemma encrypt_encode_shape m v : CoseEncrypt_to_value m = Ok v ->
  exists p u rs, protected_cbor_bstr (en_prot m) = Ok p /\ v = VArray [p; u; opt_bytes_value (en_ct m); VArray rs].
Proof. unfold CoseEncrypt_to_value. intros H. bind_inv H. bind_inv H. bind_inv H. injection H as <-. eauto. Qed.

Lemma encrypt_decode_shape p u ctv rsv m' :
  CoseEncrypt_from_value (VArray [p; u; ctv; rsv]) = Ok m' ->
  protected_cbor_bstr (en_prot m') = Ok p /\ bytes_or_nil ctv = Ok (en_ct m').
Proof.
  unfold CoseEncrypt_from_value. cbn [try_as_array bind length]. rewrite arity_encrypt. cbn [Nat.eqb negb].
  intros H. bind_inv H. bind_inv H. bind_inv H. bind_inv H. injection H as <-.
  cbn [en_prot en_ct]. repeat split. eapply protected_retained; eassumption.
Qed.

Lemma encrypt_roundtrip_fields m v m' :
  CoseEncrypt_to_value m = Ok v -> CoseEncrypt_from_value v = Ok m' ->
  protected_cbor_bstr (en_prot m') = protected_cbor_bstr (en_prot m) /\ en_ct m' = en_ct m.
Proof.
  intros He Hd. destruct (encrypt_encode_shape _ _ He) as (p & u & rs & Hp & ->).
  apply encrypt_decode_shape in Hd as (Hp' & Hct).
  rewrite bytes_or_nil_opt in Hct. repeat split; congruence.
Qed.

Theorem encrypt_create_then_decrypt :
  forall (st : encrypt) (pt aad : bytes) (enc : closure2) (a ct : bytes) (m : encrypt) (v : value) (m' : encrypt)
         (R : Type) (cipher : bytes -> bytes -> R),
    enc_structure_data EncCoseEncrypt (en_prot st) aad = Ok a -> enc pt a = Some ct ->
    en_prot m = en_prot st -> en_ct m = Some ct ->
    CoseEncrypt_to_value m = Ok v -> wire_ok v ->
    CoseEncrypt_from_value v = Ok m' ->
    Encrypt_decrypt m' aad cipher = Ok (cipher ct a).
Proof.
  intros st pt aad enc a ct m v m' R cipher Ha _ Hp Hct He _ Hd.
  destruct (encrypt_roundtrip_fields _ _ _ He Hd) as (Ep & Ect).
  unfold Encrypt_decrypt. rewrite Ect, Hct.
  rewrite (enc_structure_data_ext _ (en_prot m') (en_prot st)) by (rewrite Ep, Hp; reflexivity).
  rewrite Ha. reflexivity.
Qed.

Corollary encrypt_roundtrip_bytes :
  forall (st : encrypt) (pt aad : bytes) (enc : closure2) (a ct : bytes) (m : encrypt) (v : value) (b : bytes)
         (m' : encrypt) (R : Type) (cipher : bytes -> bytes -> R),
    enc_structure_data EncCoseEncrypt (en_prot st) aad = Ok a -> enc pt a = Some ct ->
    en_prot m = en_prot st -> en_ct m = Some ct ->
    CoseEncrypt_to_value m = Ok v -> wire_ok v ->
    to_vec CoseEncrypt_to_value m = Ok b -> from_slice CoseEncrypt_from_value b = Ok m' ->
    Encrypt_decrypt m' aad cipher = Ok (cipher ct a).
Proof.
  intros st pt aad enc a ct m v b m' R cipher Ha Hs Hp Hct He W Hb Hd.
  eapply encrypt_create_then_decrypt; eauto. eapply roundtrip_untagged; eauto.
Qed.
Corollary encrypt_roundtrip_tagged_bytes :
  forall (st : encrypt) (pt aad : bytes) (enc : closure2) (a ct : bytes) (m : encrypt) (v : value) (b : bytes)
         (m' : encrypt) (R : Type) (cipher : bytes -> bytes -> R),
    enc_structure_data EncCoseEncrypt (en_prot st) aad = Ok a -> enc pt a = Some ct ->
    en_prot m = en_prot st -> en_ct m = Some ct ->
    CoseEncrypt_to_value m = Ok v -> wire_ok v ->
    to_tagged_vec CoseEncrypt_to_value (tag_of "CoseEncrypt") m = Ok b ->
    from_tagged_slice CoseEncrypt_from_value (tag_of "CoseEncrypt") b = Ok m' ->
    Encrypt_decrypt m' aad cipher = Ok (cipher ct a).
Proof.
  intros st pt aad enc a ct m v b m' R cipher Ha Hs Hp Hct He W Hb Hd.
  eapply encrypt_create_then_decrypt; eauto.
  destruct (tag_generic "CoseEncrypt") as (A & B & C); [cbn [In]; tauto|].
  eapply roundtrip_tagged; eauto.
Qed.

Lemma encrypt_create_ciphertext_step : forall st pt aad f,
  encrypt_builder_step st (EO_create_ciphertext pt aad f) =
  (do a <- enc_structure_data EncCoseEncrypt (en_prot st) aad; do ct <- call2 f pt a;
   Ok (mkEncrypt (en_prot st) (en_unprot st) (Some ct) (en_recipients st))).
Proof. reflexivity. Qed.
Lemma encrypt_try_create_ciphertext_step : forall st pt aad f,
  encrypt_builder_step st (EO_try_create_ciphertext pt aad f) =
  (do a <- enc_structure_data EncCoseEncrypt (en_prot st) aad; do ct <- call2 f pt a;
   Ok (mkEncrypt (en_prot st) (en_unprot st) (Some ct) (en_recipients st))).
Proof. reflexivity. Qed.
Lemma encrypt_failing_creator_yields_no_message : forall st pt aad f a,
  enc_structure_data EncCoseEncrypt (en_prot st) aad = Ok a -> f pt a = None ->
  encrypt_builder_step st (EO_try_create_ciphertext pt aad f) = Err EEncode.
Proof. intros st pt aad f a H N. rewrite encrypt_try_create_ciphertext_step, H. cbn [bind]. now rewrite (call2_none _ _ _ N). Qed.

(* ---------- COSE_recipient ---------- *)
Lemma CoseRecipient_to_value_eq r :
  CoseRecipient_to_value r =
  (do p <- protected_cbor_bstr (r_prot r);
   do u <- header_to_value (r_unprot r);
   do tail <- (if isnil (r_recipients r) then Ok []
               else do rs <- mapM CoseRecipient_to_value (r_recipients r); Ok [VArray rs]);
   Ok (VArray ([p; u; opt_bytes_value (r_ct r)] ++ tail))).
Proof. destruct r; reflexivity. Qed.

Lemma recipient_encode_shape m v : CoseRecipient_to_value m = Ok v ->
  exists p u tail, protected_cbor_bstr (r_prot m) = Ok p /\ (tail = [] \/ exists rs, tail = [VArray rs]) /\
                   v = VArray ([p; u; opt_bytes_value (r_ct m)] ++ tail).
Proof.
  rewrite CoseRecipient_to_value_eq. intros H. bind_inv H. bind_inv H. bind_inv H. injection H as <-.
  do 3 eexists. split; [reflexivity|]. split; [|reflexivity].
  destruct (isnil (r_recipients m)).
  - injection E1 as <-. now left.
  - bind_inv E1. injection E1 as <-. right. eauto.
Qed.

Lemma recipient_decode_shape p u ctv tail m' : (tail = [] \/ exists rs, tail = [VArray rs]) ->
  CoseRecipient_from_value (VArray ([p; u; ctv] ++ tail)) = Ok m' ->
  protected_cbor_bstr (r_prot m') = Ok p /\ bytes_or_nil ctv = Ok (r_ct m').
Proof.
  intros [->|[rs ->]]; cbn [app CoseRecipient_from_value length]; rewrite arity_recipient;
    cbn [Nat.eqb negb orb]; intros H; bind_inv H; bind_inv H; bind_inv H; bind_inv H; injection H as <-;
    cbn [r_prot r_ct]; (split; [eapply protected_retained; eassumption|reflexivity]).
Qed.

Lemma recipient_roundtrip_fields m v m' :
  CoseRecipient_to_value m = Ok v -> CoseRecipient_from_value v = Ok m' ->
  protected_cbor_bstr (r_prot m') = protected_cbor_bstr (r_prot m) /\ r_ct m' = r_ct m.
Proof.
  intros He Hd. destruct (recipient_encode_shape _ _ He) as (p & u & tail & Hp & Ht & ->).
  apply recipient_decode_shape in Hd as (Hp' & Hct); [|exact Ht].
  rewrite bytes_or_nil_opt in Hct. repeat split; congruence.
Qed.

Lemma recipient_aad_ok m c aad a : recipient_aad m c aad = Ok a ->
  is_recipient_context c = true /\ enc_structure_data c (r_prot m) aad = Ok a.
Proof. unfold recipient_aad. destruct (is_recipient_context c); cbn [negb]; [auto|discriminate]. Qed.

Theorem recipient_create_then_decrypt :
  forall (st : recipient) (c : enc_context) (pt aad : bytes) (enc : closure2) (a ct : bytes) (m : recipient)
         (v : value) (m' : recipient) (R : Type) (cipher : bytes -> bytes -> R),
    is_recipient_context c = true ->
    enc_structure_data c (r_prot st) aad = Ok a -> enc pt a = Some ct ->
    r_prot m = r_prot st -> r_ct m = Some ct ->
    CoseRecipient_to_value m = Ok v -> wire_ok v ->
    CoseRecipient_from_value v = Ok m' ->
    Recipient_decrypt m' c aad cipher = Ok (cipher ct a).
Proof.
  intros st c pt aad enc a ct m v m' R cipher Hc Ha _ Hp Hct He _ Hd.
  destruct (recipient_roundtrip_fields _ _ _ He Hd) as (Ep & Ect).
  unfold Recipient_decrypt. rewrite Ect, Hct, Hc. cbn [negb].
  rewrite (enc_structure_data_ext _ (r_prot m') (r_prot st)) by (rewrite Ep, Hp; reflexivity).
  rewrite Ha. reflexivity.
Qed.

Corollary recipient_roundtrip_bytes :
  forall (st : recipient) (c : enc_context) (pt aad : bytes) (enc : closure2) (a ct : bytes) (m : recipient)
         (v : value) (b : bytes) (m' : recipient) (R : Type) (cipher : bytes -> bytes -> R),
    is_recipient_context c = true ->
    enc_structure_data c (r_prot st) aad = Ok a -> enc pt a = Some ct ->
    r_prot m = r_prot st -> r_ct m = Some ct ->
    CoseRecipient_to_value m = Ok v -> wire_ok v ->
    to_vec CoseRecipient_to_value m = Ok b -> from_slice CoseRecipient_from_value b = Ok m' ->
    Recipient_decrypt m' c aad cipher = Ok (cipher ct a).
Proof.
  intros st c pt aad enc a ct m v b m' R cipher Hc Ha Hs Hp Hct He W Hb Hd.
  eapply recipient_create_then_decrypt; eauto. eapply roundtrip_untagged; eauto.
Qed.

Lemma recipient_create_ciphertext_step : forall st c pt aad f,
  recipient_builder_step st (RO_create_ciphertext c pt aad f) =
  (do a <- recipient_aad st c aad; do ct <- call2 f pt a;
   Ok (mkRecipient (r_prot st) (r_unprot st) (Some ct) (r_recipients st))).
Proof. reflexivity. Qed.
Lemma recipient_try_create_ciphertext_step : forall st c pt aad f,
  recipient_builder_step st (RO_try_create_ciphertext c pt aad f) =
  (do a <- recipient_aad st c aad; do ct <- call2 f pt a;
   Ok (mkRecipient (r_prot st) (r_unprot st) (Some ct) (r_recipients st))).
Proof. reflexivity. Qed.
Lemma recipient_failing_creator_yields_no_message : forall st c pt aad f a,
  is_recipient_context c = true -> enc_structure_data c (r_prot st) aad = Ok a -> f pt a = None ->
  recipient_builder_step st (RO_try_create_ciphertext c pt aad f) = Err EEncode.
Proof. intros st c pt aad f a Hc H N. rewrite recipient_try_create_ciphertext_step.
  unfold recipient_aad. rewrite Hc. cbn [negb]. rewrite H. cbn [bind]. now rewrite (call2_none _ _ _ N). Qed.

(* ---------- COSE_Sign: one signature among several ---------- *)
Lemma mapM_nth {A B} (f : A -> res B) l : forall l', mapM f l = Ok l' ->
  forall i a, nth_error l i = Some a -> exists b, nth_error l' i = Some b /\ f a = Ok b.
Proof.
  induction l as [|x l IH]; intros l' H i a Hn.
  - destruct i; discriminate Hn.
  - cbn [mapM] in H. destruct (f x) as [y| | |] eqn:Fx; cbn [bind] in H; try discriminate H.
    destruct (mapM f l) as [ys| | |] eqn:Ml; cbn [bind] in H; try discriminate H.
    injection H as <-. destruct i as [|i]; cbn [nth_error] in *.
    + injection Hn as <-. eauto.
    + eapply IH; eauto.
Qed.

Lemma mapM_length {A B} (f : A -> res B) l : forall l', mapM f l = Ok l' -> length l' = length l.
Proof.
  induction l as [|x l IH]; intros l' H; cbn [mapM] in H.
  - injection H as <-. reflexivity.
  - destruct (f x) as [y| | |]; cbn [bind] in H; try discriminate H.
    destruct (mapM f l) as [ys| | |] eqn:Ml; cbn [bind] in H; try discriminate H.
    injection H as <-. cbn [length]. f_equal. now apply IH.
Qed.

Lemma nth_error_last {A} (l : list A) x : nth_error (l ++ [x]) (length l) = Some x.
Proof. induction l as [|y l IH]; cbn; auto. Qed.

Lemma nth_res_of_error {A} (l : list A) : forall i x, nth_error l i = Some x -> nth_res l i = Ok x.
Proof. induction l as [|y l IH]; intros [|i] x H; cbn in *; try discriminate; [congruence|auto]. Qed.

Lemma map_err_ok {A} (r : res A) e a : map_err r e = Ok a -> r = Ok a.
Proof. destruct r; cbn; intros H; try discriminate; exact H. Qed.

Lemma signature_to_value_eq s :
  signature_to_value s =
  (do p <- protected_cbor_bstr (s_prot s); do u <- header_to_value (s_unprot s); Ok (VArray [p; u; VBytes (s_sig s)])).
Proof. destruct s; reflexivity. Qed.

Lemma signature_encode_shape s v : signature_to_value s = Ok v ->
  exists p u, protected_cbor_bstr (s_prot s) = Ok p /\ v = VArray [p; u; VBytes (s_sig s)].
Proof. rewrite signature_to_value_eq. intros H. bind_inv H. bind_inv H. injection H as <-. eauto. Qed.

Lemma signature_decode_shape p u sgv s' :
  CoseSignature_from_value (VArray [p; u; sgv]) = Ok s' ->
  protected_cbor_bstr (s_prot s') = Ok p /\ try_as_bytes sgv = Ok (s_sig s').
Proof.
  unfold CoseSignature_from_value, signature_from_value, signature_from_value_with.
  cbn [length]. rewrite arity_signature. cbn [Nat.eqb negb].
  intros H. bind_inv H. bind_inv H. bind_inv H. injection H as <-.
  cbn [s_prot s_sig]. split; [eapply protected_retained; eassumption|reflexivity].
Qed.

(* a nested signature keeps its protected byte string and its signature bytes *)
Lemma signature_roundtrip_fields s v s' :
  signature_to_value s = Ok v -> CoseSignature_from_value v = Ok s' ->
  protected_cbor_bstr (s_prot s') = protected_cbor_bstr (s_prot s) /\ s_sig s' = s_sig s.
Proof.
  intros He Hd. destruct (signature_encode_shape _ _ He) as (p & u & Hp & ->).
  apply signature_decode_shape in Hd as (Hp' & Hsg). cbn [try_as_bytes] in Hsg.
  split; congruence.
Qed.

Lemma sign_encode_shape m v : CoseSign_to_value m = Ok v ->
  exists p u ss, protected_cbor_bstr (sn_prot m) = Ok p /\ mapM signature_to_value (sn_sigs m) = Ok ss /\
                 v = VArray [p; u; opt_bytes_value (sn_payload m); VArray ss].
Proof. unfold CoseSign_to_value. intros H. bind_inv H. bind_inv H. bind_inv H. injection H as <-. eauto 6. Qed.

Lemma sign_decode_shape p u plv ss m' :
  CoseSign_from_value (VArray [p; u; plv; VArray ss]) = Ok m' ->
  protected_cbor_bstr (sn_prot m') = Ok p /\ bytes_or_nil plv = Ok (sn_payload m') /\
  mapM (fun s => map_err (CoseSignature_from_value s) EUnexpected) ss = Ok (sn_sigs m').
Proof.
  unfold CoseSign_from_value. cbn [try_as_array bind length]. rewrite arity_sign. cbn [Nat.eqb negb].
  intros H. bind_inv H. bind_inv H. bind_inv H. bind_inv H. injection H as <-.
  cbn [sn_prot sn_payload sn_sigs]. repeat split. eapply protected_retained; eassumption.
Qed.

(* the i-th decoded signature is the i-th stored one *)
Lemma sign_roundtrip_fields m v m' :
  CoseSign_to_value m = Ok v -> CoseSign_from_value v = Ok m' ->
  protected_cbor_bstr (sn_prot m') = protected_cbor_bstr (sn_prot m) /\
  sn_payload m' = sn_payload m /\
  length (sn_sigs m') = length (sn_sigs m) /\
  forall i s, nth_error (sn_sigs m) i = Some s ->
    exists s', nth_error (sn_sigs m') i = Some s' /\
               protected_cbor_bstr (s_prot s') = protected_cbor_bstr (s_prot s) /\ s_sig s' = s_sig s.
Proof.
  intros He Hd. destruct (sign_encode_shape _ _ He) as (p & u & ss & Hp & Hss & ->).
  apply sign_decode_shape in Hd as (Hp' & Hpl & Hsigs).
  rewrite bytes_or_nil_opt in Hpl.
  split; [congruence|]. split; [congruence|]. split.
  - rewrite (mapM_length _ _ _ Hsigs), (mapM_length _ _ _ Hss). reflexivity.
  - intros i s Hn.
    destruct (mapM_nth _ _ _ Hss i s Hn) as (sv & Hsv & Es).
    destruct (mapM_nth _ _ _ Hsigs i sv Hsv) as (s' & Hs' & Ds). apply map_err_ok in Ds.
    exists s'. split; [exact Hs'|]. eapply signature_roundtrip_fields; eassumption.
Qed.

Theorem sign_sign_then_verify :
  forall (st : sign) (s : signature) (aad : bytes) (signer : closure1) (tbs sg : bytes) (m : sign) (v : value)
         (m' : sign) (R : Type) (verifier : bytes -> bytes -> R),
    Sign_tbs_data st aad s = Ok tbs -> signer tbs = Some sg ->
    sn_prot m = sn_prot st -> sn_payload m = sn_payload st ->
    sn_sigs m = sn_sigs st ++ [mkSignature (s_prot s) (s_unprot s) sg] ->
    CoseSign_to_value m = Ok v -> wire_ok v ->
    CoseSign_from_value v = Ok m' ->
    Sign_verify_signature m' (length (sn_sigs st)) aad verifier = Ok (verifier sg tbs).
Proof.
  intros st s aad signer tbs sg m v m' R verifier Htbs _ Hp Hpl Hsigs He _ Hd.
  destruct (sign_roundtrip_fields _ _ _ He Hd) as (Ep & Epl & _ & Hnth).
  destruct (Hnth (length (sn_sigs st)) (mkSignature (s_prot s) (s_unprot s) sg)) as (s' & Hs' & Esp & Esg).
  { rewrite Hsigs. apply nth_error_last. }
  cbn [s_prot s_sig] in Esp, Esg.
  unfold Sign_verify_signature. rewrite (nth_res_of_error _ _ _ Hs'). cbn [bind].
  assert (X : Sign_tbs_data m' aad s' = Ok tbs).
  { rewrite <- Htbs. unfold Sign_tbs_data. rewrite Epl, Hpl.
    apply sig_structure_data_ext; [rewrite Ep, Hp; reflexivity|exact Esp]. }
  rewrite X. cbn [bind]. rewrite Esg. reflexivity.
Qed.

(* the signatures that were already there keep their index and verify as before *)
Theorem sign_other_signatures_unchanged :
  forall (m : sign) (v : value) (m' : sign) (i : nat) (s : signature) (aad : bytes)
         (R : Type) (verifier : bytes -> bytes -> R),
    CoseSign_to_value m = Ok v -> CoseSign_from_value v = Ok m' ->
    nth_error (sn_sigs m) i = Some s ->
    Sign_verify_signature m' i aad verifier = Sign_verify_signature m i aad verifier.
Proof.
  intros m v m' i s aad R verifier He Hd Hn.
  destruct (sign_roundtrip_fields _ _ _ He Hd) as (Ep & Epl & _ & Hnth).
  destruct (Hnth i s Hn) as (s' & Hs' & Esp & Esg).
  unfold Sign_verify_signature. rewrite (nth_res_of_error _ _ _ Hs'), (nth_res_of_error _ _ _ Hn). cbn [bind].
  unfold Sign_tbs_data. rewrite Epl, Esg.
  rewrite (sig_structure_data_ext _ (sn_prot m') (sn_prot m) (Some (s_prot s')) (Some (s_prot s))) by assumption.
  reflexivity.
Qed.

Corollary sign_roundtrip_bytes :
  forall (st : sign) (s : signature) (aad : bytes) (signer : closure1) (tbs sg : bytes) (m : sign) (v : value)
         (b : bytes) (m' : sign) (R : Type) (verifier : bytes -> bytes -> R),
    Sign_tbs_data st aad s = Ok tbs -> signer tbs = Some sg ->
    sn_prot m = sn_prot st -> sn_payload m = sn_payload st ->
    sn_sigs m = sn_sigs st ++ [mkSignature (s_prot s) (s_unprot s) sg] ->
    CoseSign_to_value m = Ok v -> wire_ok v ->
    to_vec CoseSign_to_value m = Ok b -> from_slice CoseSign_from_value b = Ok m' ->
    Sign_verify_signature m' (length (sn_sigs st)) aad verifier = Ok (verifier sg tbs).
Proof.
  intros st s aad signer tbs sg m v b m' R verifier Htbs Hs Hp Hpl Hsg He W Hb Hd.
  eapply sign_sign_then_verify; eauto. eapply roundtrip_untagged; eauto.
Qed.
Corollary sign_roundtrip_tagged_bytes :
  forall (st : sign) (s : signature) (aad : bytes) (signer : closure1) (tbs sg : bytes) (m : sign) (v : value)
         (b : bytes) (m' : sign) (R : Type) (verifier : bytes -> bytes -> R),
    Sign_tbs_data st aad s = Ok tbs -> signer tbs = Some sg ->
    sn_prot m = sn_prot st -> sn_payload m = sn_payload st ->
    sn_sigs m = sn_sigs st ++ [mkSignature (s_prot s) (s_unprot s) sg] ->
    CoseSign_to_value m = Ok v -> wire_ok v ->
    to_tagged_vec CoseSign_to_value (tag_of "CoseSign") m = Ok b ->
    from_tagged_slice CoseSign_from_value (tag_of "CoseSign") b = Ok m' ->
    Sign_verify_signature m' (length (sn_sigs st)) aad verifier = Ok (verifier sg tbs).
Proof.
  intros st s aad signer tbs sg m v b m' R verifier Htbs Hs Hp Hpl Hsg He W Hb Hd.
  eapply sign_sign_then_verify; eauto.
  destruct (tag_generic "CoseSign") as (A & B & C); [cbn [In]; tauto|].
  eapply roundtrip_tagged; eauto.
Qed.

Lemma sign_add_created_signature_step : forall st s aad f,
  sign_builder_step st (SN_add_created_signature s aad f) =
  (do tbs <- Sign_tbs_data st aad s; do sg <- call1 f tbs;
   Ok (mkSign (sn_prot st) (sn_unprot st) (sn_payload st) (sn_sigs st ++ [mkSignature (s_prot s) (s_unprot s) sg]))).
Proof. reflexivity. Qed.
Lemma sign_try_add_created_signature_step : forall st s aad f,
  sign_builder_step st (SN_try_add_created_signature s aad f) =
  (do tbs <- Sign_tbs_data st aad s; do sg <- call1 f tbs;
   Ok (mkSign (sn_prot st) (sn_unprot st) (sn_payload st) (sn_sigs st ++ [mkSignature (s_prot s) (s_unprot s) sg]))).
Proof. reflexivity. Qed.
Lemma sign_failing_creator_yields_no_message : forall st s aad f tbs,
  Sign_tbs_data st aad s = Ok tbs -> f tbs = None ->
  sign_builder_step st (SN_try_add_created_signature s aad f) = Err EEncode.
Proof. intros st s aad f tbs H N. rewrite sign_try_add_created_signature_step, H. cbn [bind]. now rewrite (call1_none _ _ N). Qed.

(* ====================================================================== *)
(* 3. Sensitivity: any change changes the bytes handed over               *)
(* ====================================================================== *)

Theorem tbs_sensitive : forall c b s aad pl c' b' s' aad' pl',
  short b -> (forall x, s = Some x -> short x) -> short aad -> short pl ->
  short b' -> (forall x, s' = Some x -> short x) -> short aad' -> short pl' ->
  (c, b, s, aad, pl) <> (c', b', s', aad', pl') ->
  sig_structure c b s aad pl <> sig_structure c' b' s' aad' pl'.
Proof.
  intros c b s aad pl c' b' s' aad' pl' H1 H2 H3 H4 H5 H6 H7 H8 N E. apply N.
  destruct (sig_structure_injective _ _ _ _ _ _ _ _ _ _ H1 H2 H3 H4 H5 H6 H7 H8 E) as (-> & -> & -> & -> & ->).
  reflexivity.
Qed.

Theorem tbm_sensitive : forall c p aad pl c' p' aad' pl',
  short p -> short aad -> short pl -> short p' -> short aad' -> short pl' ->
  (c, p, aad, pl) <> (c', p', aad', pl') ->
  mac_structure c p aad pl <> mac_structure c' p' aad' pl'.
Proof.
  intros c p aad pl c' p' aad' pl' H1 H2 H3 H4 H5 H6 N E. apply N.
  destruct (mac_structure_injective _ _ _ _ _ _ _ _ H1 H2 H3 H4 H5 H6 E) as (-> & -> & -> & ->).
  reflexivity.
Qed.

Theorem aad_sensitive : forall c p aad c' p' aad',
  short p -> short aad -> short p' -> short aad' ->
  (c, p, aad) <> (c', p', aad') ->
  enc_structure c p aad <> enc_structure c' p' aad'.
Proof.
  intros c p aad c' p' aad' H1 H2 H3 H4 N E. apply N.
  destruct (enc_structure_injective _ _ _ _ _ _ H1 H2 H3 H4 E) as (-> & -> & ->).
  reflexivity.
Qed.

(* the same at the level of the model's helper functions: what each slot contributes *)
Lemma sig_structure_data_ok c body sign aad pl t : sig_structure_data c body sign aad pl = Ok t ->
  exists b s, protected_bytes body = Ok b /\ opt_protected_bytes sign = Ok s /\
              t = sig_structure (rfc_sig_ctx c) b s aad pl.
Proof.
  rewrite sig_structure_data_spec. destruct (protected_bytes body) as [b| | |]; try discriminate.
  destruct (opt_protected_bytes sign) as [s| | |]; try discriminate. intros [= <-]. eauto.
Qed.
Lemma mac_structure_data_ok c p aad pl t : mac_structure_data c p aad pl = Ok t ->
  exists b, protected_bytes p = Ok b /\ t = mac_structure (rfc_mac_ctx c) b aad pl.
Proof. rewrite mac_structure_data_spec. destruct (protected_bytes p) as [b| | |]; try discriminate. intros [= <-]. eauto. Qed.
Lemma enc_structure_data_ok c p aad t : enc_structure_data c p aad = Ok t ->
  exists b, protected_bytes p = Ok b /\ t = enc_structure (rfc_enc_ctx c) b aad.
Proof. rewrite enc_structure_data_spec. destruct (protected_bytes p) as [b| | |]; try discriminate. intros [= <-]. eauto. Qed.

Theorem sign1_tbs_sensitive : forall m aad m' aad' b b' t t',
  protected_bytes (s1_prot m) = Ok b -> protected_bytes (s1_prot m') = Ok b' ->
  short b -> short aad -> short (unwrap_or_empty (s1_payload m)) ->
  short b' -> short aad' -> short (unwrap_or_empty (s1_payload m')) ->
  Sign1_tbs_data m aad = Ok t -> Sign1_tbs_data m' aad' = Ok t' ->
  (b, aad, unwrap_or_empty (s1_payload m)) <> (b', aad', unwrap_or_empty (s1_payload m')) ->
  t <> t'.
Proof.
  intros m aad m' aad' b b' t t' Hb Hb' S1 S2 S3 S4 S5 S6 Ht Ht' N.
  unfold Sign1_tbs_data in Ht, Ht'.
  apply sig_structure_data_ok in Ht as (x & s & Hx & Hs & ->). apply sig_structure_data_ok in Ht' as (x' & s' & Hx' & Hs' & ->).
  cbn [opt_protected_bytes] in Hs, Hs'. injection Hs as <-. injection Hs' as <-.
  rewrite Hb in Hx. injection Hx as <-. rewrite Hb' in Hx'. injection Hx' as <-.
  apply tbs_sensitive; try assumption; try (intros ? [=]). intros E. apply N. congruence.
Qed.

Theorem sign_tbs_sensitive : forall m aad s m' aad' s' b b' sb sb' t t',
  protected_bytes (sn_prot m) = Ok b -> protected_bytes (sn_prot m') = Ok b' ->
  protected_bytes (s_prot s) = Ok sb -> protected_bytes (s_prot s') = Ok sb' ->
  short b -> short sb -> short aad -> short (unwrap_or_empty (sn_payload m)) ->
  short b' -> short sb' -> short aad' -> short (unwrap_or_empty (sn_payload m')) ->
  Sign_tbs_data m aad s = Ok t -> Sign_tbs_data m' aad' s' = Ok t' ->
  (b, sb, aad, unwrap_or_empty (sn_payload m)) <> (b', sb', aad', unwrap_or_empty (sn_payload m')) ->
  t <> t'.
Proof.
  intros m aad s m' aad' s' b b' sb sb' t t' Hb Hb' Hsb Hsb' S1 S2 S3 S4 S5 S6 S7 S8 Ht Ht' N.
  unfold Sign_tbs_data in Ht, Ht'.
  apply sig_structure_data_ok in Ht as (x & o & Hx & Hs & ->). apply sig_structure_data_ok in Ht' as (x' & o' & Hx' & Hs' & ->).
  cbn [opt_protected_bytes] in Hs, Hs'. rewrite Hsb in Hs. rewrite Hsb' in Hs'. cbn [bind] in Hs, Hs'.
  injection Hs as <-. injection Hs' as <-.
  rewrite Hb in Hx. injection Hx as <-. rewrite Hb' in Hx'. injection Hx' as <-.
  apply tbs_sensitive; try assumption; try (intros ? [= <-]; assumption). intros E. apply N. congruence.
Qed.

Theorem mac0_tbm_sensitive : forall m aad m' aad' b b' pl pl' t t',
  protected_bytes (m0_prot m) = Ok b -> protected_bytes (m0_prot m') = Ok b' ->
  m0_payload m = Some pl -> m0_payload m' = Some pl' ->
  short b -> short aad -> short pl -> short b' -> short aad' -> short pl' ->
  Mac0_tbm m aad = Ok t -> Mac0_tbm m' aad' = Ok t' ->
  (b, aad, pl) <> (b', aad', pl') -> t <> t'.
Proof.
  intros m aad m' aad' b b' pl pl' t t' Hb Hb' Hp Hp' S1 S2 S3 S4 S5 S6 Ht Ht' N.
  unfold Mac0_tbm in Ht, Ht'. rewrite Hp in Ht. rewrite Hp' in Ht'.
  apply mac_structure_data_ok in Ht as (x & Hx & ->). apply mac_structure_data_ok in Ht' as (x' & Hx' & ->).
  rewrite Hb in Hx. injection Hx as <-. rewrite Hb' in Hx'. injection Hx' as <-.
  apply tbm_sensitive; try assumption. intros E. apply N. congruence.
Qed.

Theorem mac_tbm_sensitive : forall m aad m' aad' b b' pl pl' t t',
  protected_bytes (mc_prot m) = Ok b -> protected_bytes (mc_prot m') = Ok b' ->
  mc_payload m = Some pl -> mc_payload m' = Some pl' ->
  short b -> short aad -> short pl -> short b' -> short aad' -> short pl' ->
  Mac_tbm m aad = Ok t -> Mac_tbm m' aad' = Ok t' ->
  (b, aad, pl) <> (b', aad', pl') -> t <> t'.
Proof.
  intros m aad m' aad' b b' pl pl' t t' Hb Hb' Hp Hp' S1 S2 S3 S4 S5 S6 Ht Ht' N.
  unfold Mac_tbm in Ht, Ht'. rewrite Hp in Ht. rewrite Hp' in Ht'.
  apply mac_structure_data_ok in Ht as (x & Hx & ->). apply mac_structure_data_ok in Ht' as (x' & Hx' & ->).
  rewrite Hb in Hx. injection Hx as <-. rewrite Hb' in Hx'. injection Hx' as <-.
  apply tbm_sensitive; try assumption. intros E. apply N. congruence.
Qed.

Theorem enc_aad_sensitive : forall c p aad p' aad' b b' t t',
  protected_bytes p = Ok b -> protected_bytes p' = Ok b' ->
  short b -> short aad -> short b' -> short aad' ->
  enc_structure_data c p aad = Ok t -> enc_structure_data c p' aad' = Ok t' ->
  (b, aad) <> (b', aad') -> t <> t'.
Proof.
  intros c p aad p' aad' b b' t t' Hb Hb' S1 S2 S3 S4 Ht Ht' N.
  apply enc_structure_data_ok in Ht as (x & Hx & ->). apply enc_structure_data_ok in Ht' as (x' & Hx' & ->).
  rewrite Hb in Hx. injection Hx as <-. rewrite Hb' in Hx'. injection Hx' as <-.
  apply aad_sensitive; try assumption. intros E. apply N. congruence.
Qed.

Print Assumptions read_back.
Print Assumptions read_back_tagged.
Print Assumptions sign1_sign_then_verify.
Print Assumptions sign1_detached_sign_then_verify.
Print Assumptions sign1_roundtrip_bytes.
Print Assumptions sign1_roundtrip_tagged_bytes.
Print Assumptions sign1_builder_sign_then_verify.
Print Assumptions failing_creator_yields_no_message.
Print Assumptions mac0_create_then_verify.
Print Assumptions mac0_roundtrip_tagged_bytes.
Print Assumptions encrypt0_create_then_decrypt.
Print Assumptions encrypt0_roundtrip_tagged_bytes.
Print Assumptions mac_create_then_verify.
Print Assumptions mac_roundtrip_tagged_bytes.
Print Assumptions encrypt_create_then_decrypt.
Print Assumptions encrypt_roundtrip_tagged_bytes.
Print Assumptions recipient_create_then_decrypt.
Print Assumptions recipient_roundtrip_bytes.
Print Assumptions sign_sign_then_verify.
Print Assumptions sign_other_signatures_unchanged.
Print Assumptions sign_roundtrip_tagged_bytes.
Print Assumptions tbs_sensitive.
Print Assumptions tbm_sensitive.
Print Assumptions aad_sensitive.
Print Assumptions sign1_tbs_sensitive.
Print Assumptions sign_tbs_sensitive.
Print Assumptions mac0_tbm_sensitive.
Print Assumptions mac_tbm_sensitive.
Print Assumptions enc_aad_sensitive.
