(* C06: create (sign / tag / encrypt) with the builder helpers, serialise, parse back, and the
   verify / decrypt helper hands the caller's function exactly the stored signature / tag /
   ciphertext together with exactly the bytes the creating function was given. *)
From Coq Require Import Lia.
From Coset.Model Require Import Prelude Cbor Iana Label Msg Api Builders.
From Coset.Spec Require Import DetCbor Structures.
From Coset.Proofs Require Import Head Codec RoundTrip Fuel Widths OneItem Structures MsgAccept.
Require Import ZifyBool ZifyN ZifyNat.
Open Scope list_scope.

(* ====================================================================== *)
(* 0. bytes -> value round trip                                           *)
(* ====================================================================== *)

Lemma read_back : forall v, value_nf v = true -> (depth v <= 256)%nat -> read_to_value (ser v) = Ok v.
Proof.
  intros v NF D. apply read_to_value_ok_intro.
  apply (from_reader_of_any_fuel _ (vsize v)).
  pose proof (de_ser v NF (vsize v) RECURSION_LIMIT [] (le_n _)) as H.
  rewrite app_nil_r in H. apply H. exact D.
Qed.

Lemma read_back_tagged : forall t v, value_nf (VTag t v) = true -> (depth (VTag t v) <= 256)%nat ->
  read_to_value (ser (VTag t v)) = Ok (VTag t v).
Proof. intros t v. apply read_back. Qed.

Definition wire_ok (v : value) : Prop := value_nf v = true /\ (depth v <= 255)%nat.

Lemma wire_ok_tagged t v : (t < p64)%N -> t <> 2%N -> t <> 3%N -> wire_ok v ->
  value_nf (VTag t v) = true /\ (depth (VTag t v) <= 256)%nat.
Proof.
  intros Ht T2 T3 [NF D].
  assert (S : short_bignum_shape t v = false).
  { destruct v; try reflexivity. cbn [short_bignum_shape].
    destruct (N.eqb_spec t 2); [contradiction|]. destruct (N.eqb_spec t 3); [contradiction|]. reflexivity. }
  split.
  - cbn [value_nf]. rewrite NF, S. cbn [negb orb andb]. rewrite !andb_true_r. apply N.ltb_lt. exact Ht.
  - cbn [depth]. rewrite S. lia.
Qed.

Ltac bind_inv H :=
  match type of H with
  | bind ?x _ = Ok _ => let E := fresh "E" in destruct x eqn:E; cbn [bind] in H; try discriminate H
  end.

Section GenericRoundTrip.
  Context {T : Type}.
  Variable fromv : value -> res T.
  Variable tov : T -> res value.

  (* serialise, parse: the decoder sees exactly the value the encoder produced *)
  Lemma roundtrip_untagged x v b y :
    tov x = Ok v -> wire_ok v ->
    to_vec tov x = Ok b -> from_slice fromv b = Ok y -> fromv v = Ok y.
  Proof.
    intros Hv [NF D] Hb Hy. unfold to_vec in Hb. rewrite Hv in Hb. cbn [bind] in Hb. injection Hb as <-.
    unfold from_slice in Hy. rewrite (read_back v NF) in Hy by lia. exact Hy.
  Qed.

  Lemma roundtrip_tagged TAG x v b y :
    (TAG < p64)%N -> TAG <> 2%N -> TAG <> 3%N ->
    tov x = Ok v -> wire_ok v ->
    to_tagged_vec tov TAG x = Ok b -> from_tagged_slice fromv TAG b = Ok y -> fromv v = Ok y.
  Proof.
    intros Ht T2 T3 Hv W Hb Hy. unfold to_tagged_vec in Hb. rewrite Hv in Hb. cbn [bind] in Hb. injection Hb as <-.
    destruct (wire_ok_tagged TAG v Ht T2 T3 W) as [NF D].
    unfold from_tagged_slice in Hy. change (head 6 TAG ++ ser v) with (ser (VTag TAG v)) in Hy. rewrite (read_back_tagged TAG v NF D) in Hy. cbn [bind] in Hy.
    rewrite N.eqb_refl in Hy. exact Hy.
  Qed.
End GenericRoundTrip.

(* ====================================================================== *)
(* 1. What survives encode / decode                                       *)
(* ====================================================================== *)

(* a decoded protected header re-emits exactly the byte string it was read from *)
Lemma protected_retained parse v p : protected_from_bstr parse v = Ok p -> protected_cbor_bstr p = Ok v.
Proof.
  intros H. destruct (protected_bytes_decoded parse v p H) as (d & -> & O & _).
  destruct p as [o h]. cbn [p_orig] in O. subst o. reflexivity.
Qed.

Lemma bytes_or_nil_opt o : bytes_or_nil (opt_bytes_value o) = Ok o.
Proof. destruct o; reflexivity. Qed.

(* the structure functions look at a protected header only through protected_cbor_bstr *)
Lemma sig_structure_data_ext c p p' s s' aad pl :
  protected_cbor_bstr p = protected_cbor_bstr p' ->
  match s, s' with
  | Some x, Some x' => protected_cbor_bstr x = protected_cbor_bstr x'
  | None, None => True
  | _, _ => False
  end ->
  sig_structure_data c p s aad pl = sig_structure_data c p' s' aad pl.
Proof.
  intros E Es. unfold sig_structure_data. rewrite E.
  destruct s as [x|], s' as [x'|]; try contradiction; [rewrite Es|]; reflexivity.
Qed.
Lemma mac_structure_data_ext c p p' aad pl :
  protected_cbor_bstr p = protected_cbor_bstr p' -> mac_structure_data c p aad pl = mac_structure_data c p' aad pl.
Proof. intros E. unfold mac_structure_data. now rewrite E. Qed.
Lemma enc_structure_data_ext c p p' aad :
  protected_cbor_bstr p = protected_cbor_bstr p' -> enc_structure_data c p aad = enc_structure_data c p' aad.
Proof. intros E. unfold enc_structure_data. now rewrite E. Qed.

(* a structure function that succeeded had a serialisable protected header *)
Lemma expect_ok {A} (r : res A) a : expect r = Ok a -> r = Ok a.
Proof. destruct r; cbn; intros H; try discriminate; exact H. Qed.

(* ---------- COSE_Sign1 ---------- *)
Lemma sign1_encode_shape m v : CoseSign1_to_value m = Ok v ->
  exists p u, protected_cbor_bstr (s1_prot m) = Ok p /\
              v = VArray [p; u; opt_bytes_value (s1_payload m); VBytes (s1_sig m)].
Proof. unfold CoseSign1_to_value. intros H. bind_inv H. bind_inv H. injection H as <-. eauto. Qed.

Lemma sign1_decode_shape p u plv sgv m' :
  CoseSign1_from_value (VArray [p; u; plv; sgv]) = Ok m' ->
  protected_cbor_bstr (s1_prot m') = Ok p /\ bytes_or_nil plv = Ok (s1_payload m') /\ try_as_bytes sgv = Ok (s1_sig m').
Proof.
  unfold CoseSign1_from_value. cbn [try_as_array bind length]. rewrite arity_sign1. cbn [Nat.eqb negb].
  intros H. bind_inv H. bind_inv H. bind_inv H. bind_inv H. injection H as <-.
  cbn [s1_prot s1_payload s1_sig]. repeat split. eapply protected_retained; exact E2.
Qed.

Lemma sign1_roundtrip_fields m v m' :
  CoseSign1_to_value m = Ok v -> CoseSign1_from_value v = Ok m' ->
  protected_cbor_bstr (s1_prot m') = protected_cbor_bstr (s1_prot m) /\
  s1_payload m' = s1_payload m /\ s1_sig m' = s1_sig m.
Proof.
  intros He Hd. destruct (sign1_encode_shape _ _ He) as (p & u & Hp & ->).
  apply sign1_decode_shape in Hd as (Hp' & Hpl & Hsg).
  rewrite bytes_or_nil_opt in Hpl. cbn [try_as_bytes] in Hsg.
  repeat split; congruence.
Qed.

Theorem sign1_sign_then_verify :
  forall (st : sign1) (aad : bytes) (signer : closure1) (tbs sg : bytes) (m : sign1) (v : value) (m' : sign1)
         (R : Type) (verifier : bytes -> bytes -> R),
    Sign1_tbs_data st aad = Ok tbs -> signer tbs = Some sg ->
    s1_prot m = s1_prot st -> s1_payload m = s1_payload st -> s1_sig m = sg ->
    CoseSign1_to_value m = Ok v -> wire_ok v ->
    CoseSign1_from_value v = Ok m' ->
    Sign1_verify_signature m' aad verifier = Ok (verifier sg tbs).
Proof.
  intros st aad signer tbs sg m v m' R verifier Htbs _ Hp Hpl Hsg He _ Hd.
  destruct (sign1_roundtrip_fields _ _ _ He Hd) as (Ep & Epl & Esg).
  unfold Sign1_verify_signature.
  assert (X : Sign1_tbs_data m' aad = Ok tbs).
  { rewrite <- Htbs. unfold Sign1_tbs_data. rewrite Epl, Hpl.
    apply sig_structure_data_ext; [|exact I]. rewrite Ep, Hp. reflexivity. }
  rewrite X. cbn [bind]. rewrite Esg, Hsg. reflexivity.
Qed.

Lemma tbs_detached_ok st pl aad tbs : Sign1_tbs_detached_data st pl aad = Ok tbs ->
  s1_payload st = None /\ sig_structure_data SigCoseSign1 (s1_prot st) None aad pl = Ok tbs.
Proof. unfold Sign1_tbs_detached_data. destruct (s1_payload st); cbn [issome]; [discriminate|]. auto. Qed.

Theorem sign1_detached_sign_then_verify :
  forall (st : sign1) (pl aad : bytes) (signer : closure1) (tbs sg : bytes) (m : sign1) (v : value) (m' : sign1)
         (R : Type) (verifier : bytes -> bytes -> R),
    Sign1_tbs_detached_data st pl aad = Ok tbs -> signer tbs = Some sg ->
    s1_prot m = s1_prot st -> s1_payload m = s1_payload st -> s1_sig m = sg ->
    CoseSign1_to_value m = Ok v -> wire_ok v ->
    CoseSign1_from_value v = Ok m' ->
    Sign1_verify_detached_signature m' pl aad verifier = Ok (verifier sg tbs).
Proof.
  intros st pl aad signer tbs sg m v m' R verifier Htbs _ Hp Hpl Hsg He _ Hd.
  destruct (sign1_roundtrip_fields _ _ _ He Hd) as (Ep & Epl & Esg).
  apply tbs_detached_ok in Htbs as [Hn Htbs].
  unfold Sign1_verify_detached_signature.
  assert (X : Sign1_tbs_detached_data m' pl aad = Ok tbs).
  { unfold Sign1_tbs_detached_data. rewrite Epl, Hpl, Hn. cbn [issome]. rewrite <- Htbs.
    apply sig_structure_data_ext; [|exact I]. rewrite Ep, Hp. reflexivity. }
  rewrite X. cbn [bind]. rewrite Esg, Hsg. reflexivity.
Qed.
