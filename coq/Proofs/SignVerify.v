(* C06: create (sign / tag / encrypt) with the builder helpers, serialise, parse back, and the
   verify / decrypt helper hands the caller's function exactly the stored signature / tag /
   ciphertext together with exactly the bytes the creating function was given. *)
From Coq Require Import Lia.
From Coset.Model Require Import Prelude Cbor Iana Label Msg Api Builders.
From Coset.Spec Require Import DetCbor Structures.
From Coset.Proofs Require Import Head Codec RoundTrip Fuel Widths OneItem Structures MsgAccept.
Require Import ZifyBool ZifyN ZifyNat.
Open Scope list_scope.

(* ====================================================================== *)
(* 0. bytes -> value round trip                                           *)
(* ====================================================================== *)

Lemma read_back : forall v, value_nf v = true -> (depth v <= 256)%nat -> read_to_value (ser v) = Ok v.
Proof.
  intros v NF D. apply read_to_value_ok_intro.
  apply (from_reader_of_any_fuel _ (vsize v)).
  pose proof (de_ser v NF (vsize v) RECURSION_LIMIT [] (le_n _)) as H.
  rewrite app_nil_r in H. apply H. exact D.
Qed.

Lemma read_back_tagged : forall t v, value_nf (VTag t v) = true -> (depth (VTag t v) <= 256)%nat ->
  read_to_value (ser (VTag t v)) = Ok (VTag t v).
Proof. intros t v. apply read_back. Qed.

Definition wire_ok (v : value) : Prop := value_nf v = true /\ (depth v <= 255)%nat.

Lemma wire_ok_tagged t v : (t < p64)%N -> t <> 2%N -> t <> 3%N -> wire_ok v ->
  value_nf (VTag t v) = true /\ (depth (VTag t v) <= 256)%nat.
Proof.
  intros Ht T2 T3 [NF D].
  assert (S : short_bignum_shape t v = false).
  { destruct v; try reflexivity. cbn [short_bignum_shape].
    destruct (N.eqb_spec t 2); [contradiction|]. destruct (N.eqb_spec t 3); [contradiction|]. reflexivity. }
  split.
  - cbn [value_nf]. rewrite NF, S. cbn [negb orb andb]. rewrite !andb_true_r. apply N.ltb_lt. exact Ht.
  - cbn [depth]. rewrite S. lia.
Qed.

Ltac bind_inv H :=
  match type of H with
  | bind ?x _ = Ok _ => let E := fresh "E" in destruct x eqn:E; cbn [bind] in H; try discriminate H
  end.

Section GenericRoundTrip.
  Context {T : Type}.
  Variable fromv : value -> res T.
  Variable tov : T -> res value.

  (* serialise, parse: the decoder sees exactly the value the encoder produced *)
  Lemma roundtrip_untagged x v b y :
    tov x = Ok v -> wire_ok v ->
    to_vec tov x = Ok b -> from_slice fromv b = Ok y -> fromv v = Ok y.
  Proof.
    intros Hv [NF D] Hb Hy. unfold to_vec in Hb. rewrite Hv in Hb. cbn [bind] in Hb. injection Hb as <-.
    unfold from_slice in Hy. rewrite (read_back v NF) in Hy by lia. exact Hy.
  Qed.

  Lemma roundtrip_tagged TAG x v b y :
    (TAG < p64)%N -> TAG <> 2%N -> TAG <> 3%N ->
    tov x = Ok v -> wire_ok v ->
    to_tagged_vec tov TAG x = Ok b -> from_tagged_slice fromv TAG b = Ok y -> fromv v = Ok y.
  Proof.
    intros Ht T2 T3 Hv W Hb Hy. unfold to_tagged_vec in Hb. rewrite Hv in Hb. cbn [bind] in Hb. injection Hb as <-.
    destruct (wire_ok_tagged TAG v Ht T2 T3 W) as [NF D].
    unfold from_tagged_slice in Hy. change (head 6 TAG ++ ser v) with (ser (VTag TAG v)) in Hy. rewrite (read_back_tagged TAG v NF D) in Hy. cbn [bind] in Hy.
    rewrite N.eqb_refl in Hy. exact Hy.
  Qed.
End GenericRoundTrip.

(* ====================================================================== *)
(* 1. What survives encode / decode                                       *)
(* ====================================================================== *)

(* a decoded protected header re-emits exactly the byte string it was read from *)
Lemma protected_retained parse v p : protected_from_bstr parse v = Ok p -> protected_cbor_bstr p = Ok v.
Proof.
  intros H. destruct (protected_bytes_decoded parse v p H) as (d & -> & O & _).
  destruct p as [o h]. cbn [p_orig] in O. subst o. reflexivity.
Qed.

Lemma bytes_or_nil_opt o : bytes_or_nil (opt_bytes_value o) = Ok o.
Proof. destruct o; reflexivity. Qed.

(* the structure functions look at a protected header only through protected_cbor_bstr *)
Lemma sig_structure_data_ext c p p' s s' aad pl :
  protected_cbor_bstr p = protected_cbor_bstr p' ->
  match s, s' with
  | Some x, Some x' => protected_cbor_bstr x = protected_cbor_bstr x'
  | None, None => True
  | _, _ => False
  end ->
  sig_structure_data c p s aad pl = sig_structure_data c p' s' aad pl.
Proof.
  intros E Es. unfold sig_structure_data. rewrite E.
  destruct s as [x|], s' as [x'|]; try contradiction; [rewrite Es|]; reflexivity.
Qed.
Lemma mac_structure_data_ext c p p' aad pl :
  protected_cbor_bstr p = protected_cbor_bstr p' -> mac_structure_data c p aad pl = mac_structure_data c p' aad pl.
Proof. intros E. unfold mac_structure_data. now rewrite E. Qed.
Lemma enc_structure_data_ext c p p' aad :
  protected_cbor_bstr p = protected_cbor_bstr p' -> enc_structure_data c p aad = enc_structure_data c p' aad.
Proof. intros E. unfold enc_structure_data. now rewrite E. Qed.

(* a structure function that succeeded had a serialisable protected header *)
Lemma expect_ok {A} (r : res A) a : expect r = Ok a -> r = Ok a.
Proof. destruct r; cbn; intros H; try discriminate; exact H. Qed.

(* ---------- COSE_Sign1 ---------- *)
Lemma sign1_encode_shape m v : CoseSign1_to_value m = Ok v ->
  exists p u, protected_cbor_bstr (s1_prot m) = Ok p /\
              v = VArray [p; u; opt_bytes_value (s1_payload m); VBytes (s1_sig m)].
Proof. unfold CoseSign1_to_value. intros H. bind_inv H. bind_inv H. injection H as <-. eauto. Qed.

Lemma sign1_decode_shape p u plv sgv m' :
  CoseSign1_from_value (VArray [p; u; plv; sgv]) = Ok m' ->
  protected_cbor_bstr (s1_prot m') = Ok p /\ bytes_or_nil plv = Ok (s1_payload m') /\ try_as_bytes sgv = Ok (s1_sig m').
Proof.
  unfold CoseSign1_from_value. cbn [try_as_array bind length]. rewrite arity_sign1. cbn [Nat.eqb negb].
  intros H. bind_inv H. bind_inv H. bind_inv H. bind_inv H. injection H as <-.
  cbn [s1_prot s1_payload s1_sig]. repeat split. eapply protected_retained; exact E2.
Qed.

Lemma sign1_roundtrip_fields m v m' :
  CoseSign1_to_value m = Ok v -> CoseSign1_from_value v = Ok m' ->
  protected_cbor_bstr (s1_prot m') = protected_cbor_bstr (s1_prot m) /\
  s1_payload m' = s1_payload m /\ s1_sig m' = s1_sig m.
Proof.
  intros He Hd. destruct (sign1_encode_shape _ _ He) as (p & u & Hp & ->).
  apply sign1_decode_shape in Hd as (Hp' & Hpl & Hsg).
  rewrite bytes_or_nil_opt in Hpl. cbn [try_as_bytes] in Hsg.
  repeat split; congruence.
Qed.

Theorem sign1_sign_then_verify :
  forall (st : sign1) (aad : bytes) (signer : closure1) (tbs sg : bytes) (m : sign1) (v : value) (m' : sign1)
         (R : Type) (verifier : bytes -> bytes -> R),
    Sign1_tbs_data st aad = Ok tbs -> signer tbs = Some sg ->
    s1_prot m = s1_prot st -> s1_payload m = s1_payload st -> s1_sig m = sg ->
    CoseSign1_to_value m = Ok v -> wire_ok v ->
    CoseSign1_from_value v = Ok m' ->
    Sign1_verify_signature m' aad verifier = Ok (verifier sg tbs).
Proof.
  intros st aad signer tbs sg m v m' R verifier Htbs _ Hp Hpl Hsg He _ Hd.
  destruct (sign1_roundtrip_fields _ _ _ He Hd) as (Ep & Epl & Esg).
  unfold Sign1_verify_signature.
  assert (X : Sign1_tbs_data m' aad = Ok tbs).
  { rewrite <- Htbs. unfold Sign1_tbs_data. rewrite Epl, Hpl.
    apply sig_structure_data_ext; [|exact I]. rewrite Ep, Hp. reflexivity. }
  rewrite X. cbn [bind]. rewrite Esg, Hsg. reflexivity.
Qed.

Lemma tbs_detached_ok st pl aad tbs : Sign1_tbs_detached_data st pl aad = Ok tbs ->
  s1_payload st = None /\ sig_structure_data SigCoseSign1 (s1_prot st) None aad pl = Ok tbs.
Proof. unfold Sign1_tbs_detached_data. destruct (s1_payload st); cbn [issome]; [discriminate|]. auto. Qed.

Theorem sign1_detached_sign_then_verify :
  forall (st : sign1) (pl aad : bytes) (signer : closure1) (tbs sg : bytes) (m : sign1) (v : value) (m' : sign1)
         (R : Type) (verifier : bytes -> bytes -> R),
    Sign1_tbs_detached_data st pl aad = Ok tbs -> signer tbs = Some sg ->
    s1_prot m = s1_prot st -> s1_payload m = s1_payload st -> s1_sig m = sg ->
    CoseSign1_to_value m = Ok v -> wire_ok v ->
    CoseSign1_from_value v = Ok m' ->
    Sign1_verify_detached_signature m' pl aad verifier = Ok (verifier sg tbs).
Proof.
  intros st pl aad signer tbs sg m v m' R verifier Htbs _ Hp Hpl Hsg He _ Hd.
  destruct (sign1_roundtrip_fields _ _ _ He Hd) as (Ep & Epl & Esg).
  apply tbs_detached_ok in Htbs as [Hn Htbs].
  unfold Sign1_verify_detached_signature.
  assert (X : Sign1_tbs_detached_data m' pl aad = Ok tbs).
  { unfold Sign1_tbs_detached_data. rewrite Epl, Hpl, Hn. cbn [issome]. rewrite <- Htbs.
    apply sig_structure_data_ext; [|exact I]. rewrite Ep, Hp. reflexivity. }
  rewrite X. cbn [bind]. rewrite Esg, Hsg. reflexivity.
Qed.

(* byte level, untagged and tagged *)
Lemma tag_generic_msgs :
  Forall (fun ty => (tag_of ty < p64)%N /\ tag_of ty <> 2%N /\ tag_of ty <> 3%N)
         ["CoseSign1"; "CoseSign"; "CoseMac0"; "CoseMac"; "CoseEncrypt0"; "CoseEncrypt"]%string.
Proof. repeat constructor; try (intro H; vm_compute in H; discriminate H). Qed.
Lemma tag_generic ty :
  In ty ["CoseSign1"; "CoseSign"; "CoseMac0"; "CoseMac"; "CoseEncrypt0"; "CoseEncrypt"]%string ->
  (tag_of ty < p64)%N /\ tag_of ty <> 2%N /\ tag_of ty <> 3%N.
Proof. intros H. exact (proj1 (Forall_forall _ _) tag_generic_msgs ty H). Qed.

Ltac tag_side := apply tag_generic; cbn [In]; tauto.

Corollary sign1_roundtrip_bytes :
  forall (st : sign1) (aad : bytes) (signer : closure1) (tbs sg : bytes) (m : sign1) (v : value) (b : bytes)
         (m' : sign1) (R : Type) (verifier : bytes -> bytes -> R),
    Sign1_tbs_data st aad = Ok tbs -> signer tbs = Some sg ->
    s1_prot m = s1_prot st -> s1_payload m = s1_payload st -> s1_sig m = sg ->
    CoseSign1_to_value m = Ok v -> wire_ok v ->
    to_vec CoseSign1_to_value m = Ok b -> from_slice CoseSign1_from_value b = Ok m' ->
    Sign1_verify_signature m' aad verifier = Ok (verifier sg tbs).
Proof.
  intros st aad signer tbs sg m v b m' R verifier Htbs Hs Hp Hpl Hsg He W Hb Hd.
  eapply sign1_sign_then_verify; eauto. eapply roundtrip_untagged; eauto.
Qed.

Corollary sign1_roundtrip_tagged_bytes :
  forall (st : sign1) (aad : bytes) (signer : closure1) (tbs sg : bytes) (m : sign1) (v : value) (b : bytes)
         (m' : sign1) (R : Type) (verifier : bytes -> bytes -> R),
    Sign1_tbs_data st aad = Ok tbs -> signer tbs = Some sg ->
    s1_prot m = s1_prot st -> s1_payload m = s1_payload st -> s1_sig m = sg ->
    CoseSign1_to_value m = Ok v -> wire_ok v ->
    to_tagged_vec CoseSign1_to_value (tag_of "CoseSign1") m = Ok b ->
    from_tagged_slice CoseSign1_from_value (tag_of "CoseSign1") b = Ok m' ->
    Sign1_verify_signature m' aad verifier = Ok (verifier sg tbs).
Proof.
  intros st aad signer tbs sg m v b m' R verifier Htbs Hs Hp Hpl Hsg He W Hb Hd.
  eapply sign1_sign_then_verify; eauto.
  destruct (tag_generic "CoseSign1") as (A & B & C); [cbn [In]; tauto|].
  eapply roundtrip_tagged; eauto.
Qed.

Corollary sign1_detached_roundtrip_bytes :
  forall (st : sign1) (pl aad : bytes) (signer : closure1) (tbs sg : bytes) (m : sign1) (v : value) (b : bytes)
         (m' : sign1) (R : Type) (verifier : bytes -> bytes -> R),
    Sign1_tbs_detached_data st pl aad = Ok tbs -> signer tbs = Some sg ->
    s1_prot m = s1_prot st -> s1_payload m = s1_payload st -> s1_sig m = sg ->
    CoseSign1_to_value m = Ok v -> wire_ok v ->
    to_vec CoseSign1_to_value m = Ok b -> from_slice CoseSign1_from_value b = Ok m' ->
    Sign1_verify_detached_signature m' pl aad verifier = Ok (verifier sg tbs).
Proof.
  intros st pl aad signer tbs sg m v b m' R verifier Htbs Hs Hp Hpl Hsg He W Hb Hd.
  eapply sign1_detached_sign_then_verify; eauto. eapply roundtrip_untagged; eauto.
Qed.

Corollary sign1_detached_roundtrip_tagged_bytes :
  forall (st : sign1) (pl aad : bytes) (signer : closure1) (tbs sg : bytes) (m : sign1) (v : value) (b : bytes)
         (m' : sign1) (R : Type) (verifier : bytes -> bytes -> R),
    Sign1_tbs_detached_data st pl aad = Ok tbs -> signer tbs = Some sg ->
    s1_prot m = s1_prot st -> s1_payload m = s1_payload st -> s1_sig m = sg ->
    CoseSign1_to_value m = Ok v -> wire_ok v ->
    to_tagged_vec CoseSign1_to_value (tag_of "CoseSign1") m = Ok b ->
    from_tagged_slice CoseSign1_from_value (tag_of "CoseSign1") b = Ok m' ->
    Sign1_verify_detached_signature m' pl aad verifier = Ok (verifier sg tbs).
Proof.
  intros st pl aad signer tbs sg m v b m' R verifier Htbs Hs Hp Hpl Hsg He W Hb Hd.
  eapply sign1_detached_sign_then_verify; eauto.
  destruct (tag_generic "CoseSign1") as (A & B & C); [cbn [In]; tauto|].
  eapply roundtrip_tagged; eauto.
Qed.

(* connection to the builder *)
Lemma create_signature_step : forall st aad f,
  sign1_builder_step st (S1_create_signature aad f) =
  (do tbs <- Sign1_tbs_data st aad; do sg <- call1 f tbs;
   Ok (mkSign1 (s1_prot st) (s1_unprot st) (s1_payload st) sg)).
Proof. reflexivity. Qed.
Lemma try_create_signature_step : forall st aad f,
  sign1_builder_step st (S1_try_create_signature aad f) =
  (do tbs <- Sign1_tbs_data st aad; do sg <- call1 f tbs;
   Ok (mkSign1 (s1_prot st) (s1_unprot st) (s1_payload st) sg)).
Proof. reflexivity. Qed.
Lemma create_detached_signature_step : forall st pl aad f,
  sign1_builder_step st (S1_create_detached_signature pl aad f) =
  (do tbs <- Sign1_tbs_detached_data st pl aad; do sg <- call1 f tbs;
   Ok (mkSign1 (s1_prot st) (s1_unprot st) (s1_payload st) sg)).
Proof. reflexivity. Qed.
Lemma try_create_detached_signature_step : forall st pl aad f,
  sign1_builder_step st (S1_try_create_detached_signature pl aad f) =
  (do tbs <- Sign1_tbs_detached_data st pl aad; do sg <- call1 f tbs;
   Ok (mkSign1 (s1_prot st) (s1_unprot st) (s1_payload st) sg)).
Proof. reflexivity. Qed.

Lemma call1_ok f x y : call1 f x = Ok y -> f x = Some y.
Proof. unfold call1. destruct (f x); intros H; try discriminate. now injection H as ->. Qed.
Lemma call2_ok f x a y : call2 f x a = Ok y -> f x a = Some y.
Proof. unfold call2. destruct (f x a); intros H; try discriminate. now injection H as ->. Qed.
Lemma call1_none f x : f x = None -> call1 f x = Err EEncode.
Proof. unfold call1. now intros ->. Qed.
Lemma call2_none f x a : f x a = None -> call2 f x a = Err EEncode.
Proof. unfold call2. now intros ->. Qed.

Lemma failing_creator_yields_no_message : forall st aad f tbs,
  Sign1_tbs_data st aad = Ok tbs -> f tbs = None ->
  sign1_builder_step st (S1_try_create_signature aad f) = Err EEncode.
Proof. intros st aad f tbs H N. rewrite try_create_signature_step, H. cbn [bind]. now rewrite (call1_none _ _ N). Qed.
Lemma failing_detached_creator_yields_no_message : forall st pl aad f tbs,
  Sign1_tbs_detached_data st pl aad = Ok tbs -> f tbs = None ->
  sign1_builder_step st (S1_try_create_detached_signature pl aad f) = Err EEncode.
Proof. intros st pl aad f tbs H N. rewrite try_create_detached_signature_step, H. cbn [bind]. now rewrite (call1_none _ _ N). Qed.

(* a successful creating step: the closure was called on the tbs bytes, and only the signature changed *)
Lemma create_signature_step_ok st aad f m :
  sign1_builder_step st (S1_create_signature aad f) = Ok m \/
  sign1_builder_step st (S1_try_create_signature aad f) = Ok m ->
  exists tbs sg, Sign1_tbs_data st aad = Ok tbs /\ f tbs = Some sg /\
                 m = mkSign1 (s1_prot st) (s1_unprot st) (s1_payload st) sg.
Proof.
  rewrite create_signature_step, try_create_signature_step. intros [H|H]; bind_inv H; bind_inv H;
    injection H as <-; eauto using call1_ok.
Qed.

Corollary sign1_builder_sign_then_verify :
  forall (st : sign1) (aad : bytes) (signer : closure1) (m : sign1) (v : value) (m' : sign1)
         (R : Type) (verifier : bytes -> bytes -> R),
    sign1_builder_step st (S1_create_signature aad signer) = Ok m \/
    sign1_builder_step st (S1_try_create_signature aad signer) = Ok m ->
    CoseSign1_to_value m = Ok v -> wire_ok v -> CoseSign1_from_value v = Ok m' ->
    exists tbs sg, Sign1_tbs_data st aad = Ok tbs /\ signer tbs = Some sg /\ s1_sig m = sg /\
                   Sign1_verify_signature m' aad verifier = Ok (verifier sg tbs).
Proof.
  intros st aad signer m v m' R verifier Hstep He W Hd.
  apply create_signature_step_ok in Hstep as (tbs & sg & Ht & Hs & ->).
  exists tbs, sg. repeat split; auto.
  eapply (sign1_sign_then_verify st aad signer tbs sg); eauto.
Qed.

(* ---------- COSE_Mac0 ---------- *)
Lemma mac0_encode_shape m v : CoseMac0_to_value m = Ok v ->
  exists p u, protected_cbor_bstr (m0_prot m) = Ok p /\
              v = VArray [p; u; opt_bytes_value (m0_payload m); VBytes (m0_tag m)].
Proof. unfold CoseMac0_to_value. intros H. bind_inv H. bind_inv H. injection H as <-. eauto. Qed.

Lemma mac0_decode_shape p u plv tgv m' :
  CoseMac0_from_value (VArray [p; u; plv; tgv]) = Ok m' ->
  protected_cbor_bstr (m0_prot m') = Ok p /\ bytes_or_nil plv = Ok (m0_payload m') /\ try_as_bytes tgv = Ok (m0_tag m').
Proof.
  unfold CoseMac0_from_value. cbn [try_as_array bind length]. rewrite arity_mac0. cbn [Nat.eqb negb].
  intros H. bind_inv H. bind_inv H. bind_inv H. bind_inv H. injection H as <-.
  cbn [m0_prot m0_payload m0_tag]. repeat split. eapply protected_retained; eassumption.
Qed.

Lemma mac0_roundtrip_fields m v m' :
  CoseMac0_to_value m = Ok v -> CoseMac0_from_value v = Ok m' ->
  protected_cbor_bstr (m0_prot m') = protected_cbor_bstr (m0_prot m) /\
  m0_payload m' = m0_payload m /\ m0_tag m' = m0_tag m.
Proof.
  intros He Hd. destruct (mac0_encode_shape _ _ He) as (p & u & Hp & ->).
  apply mac0_decode_shape in Hd as (Hp' & Hpl & Htg).
  rewrite bytes_or_nil_opt in Hpl. cbn [try_as_bytes] in Htg.
  repeat split; congruence.
Qed.

Theorem mac0_create_then_verify :
  forall (st : mac0) (aad : bytes) (tagger : closure1) (tbm tg : bytes) (m : mac0) (v : value) (m' : mac0)
         (R : Type) (verify : bytes -> bytes -> R),
    Mac0_tbm st aad = Ok tbm -> tagger tbm = Some tg ->
    m0_prot m = m0_prot st -> m0_payload m = m0_payload st -> m0_tag m = tg ->
    CoseMac0_to_value m = Ok v -> wire_ok v ->
    CoseMac0_from_value v = Ok m' ->
    Mac0_verify_tag m' aad verify = Ok (verify tg tbm).
Proof.
  intros st aad tagger tbm tg m v m' R verify Htbm _ Hp Hpl Htg He _ Hd.
  destruct (mac0_roundtrip_fields _ _ _ He Hd) as (Ep & Epl & Etg).
  unfold Mac0_verify_tag.
  assert (X : Mac0_tbm m' aad = Ok tbm).
  { rewrite <- Htbm. unfold Mac0_tbm. rewrite Epl, Hpl. destruct (m0_payload st); [|reflexivity].
    apply mac_structure_data_ext. rewrite Ep, Hp. reflexivity. }
  rewrite X. cbn [bind]. rewrite Etg, Htg. reflexivity.
Qed.

Corollary mac0_roundtrip_bytes :
  forall (st : mac0) (aad : bytes) (tagger : closure1) (tbm tg : bytes) (m : mac0) (v : value) (b : bytes)
         (m' : mac0) (R : Type) (verify : bytes -> bytes -> R),
    Mac0_tbm st aad = Ok tbm -> tagger tbm = Some tg ->
    m0_prot m = m0_prot st -> m0_payload m = m0_payload st -> m0_tag m = tg ->
    CoseMac0_to_value m = Ok v -> wire_ok v ->
    to_vec CoseMac0_to_value m = Ok b -> from_slice CoseMac0_from_value b = Ok m' ->
    Mac0_verify_tag m' aad verify = Ok (verify tg tbm).
Proof.
  intros st aad tagger tbm tg m v b m' R verify Htbm Hs Hp Hpl Htg He W Hb Hd.
  eapply mac0_create_then_verify; eauto. eapply roundtrip_untagged; eauto.
Qed.
Corollary mac0_roundtrip_tagged_bytes :
  forall (st : mac0) (aad : bytes) (tagger : closure1) (tbm tg : bytes) (m : mac0) (v : value) (b : bytes)
         (m' : mac0) (R : Type) (verify : bytes -> bytes -> R),
    Mac0_tbm st aad = Ok tbm -> tagger tbm = Some tg ->
    m0_prot m = m0_prot st -> m0_payload m = m0_payload st -> m0_tag m = tg ->
    CoseMac0_to_value m = Ok v -> wire_ok v ->
    to_tagged_vec CoseMac0_to_value (tag_of "CoseMac0") m = Ok b ->
    from_tagged_slice CoseMac0_from_value (tag_of "CoseMac0") b = Ok m' ->
    Mac0_verify_tag m' aad verify = Ok (verify tg tbm).
Proof.
  intros st aad tagger tbm tg m v b m' R verify Htbm Hs Hp Hpl Htg He W Hb Hd.
  eapply mac0_create_then_verify; eauto.
  destruct (tag_generic "CoseMac0") as (A & B & C); [cbn [In]; tauto|].
  eapply roundtrip_tagged; eauto.
Qed.

Lemma mac0_create_tag_step : forall st aad f,
  mac0_builder_step st (M0_create_tag aad f) =
  (do tbm <- Mac0_tbm st aad; do tg <- call1 f tbm; Ok (mkMac0 (m0_prot st) (m0_unprot st) (m0_payload st) tg)).
Proof. reflexivity. Qed.
Lemma mac0_try_create_tag_step : forall st aad f,
  mac0_builder_step st (M0_try_create_tag aad f) =
  (do tbm <- Mac0_tbm st aad; do tg <- call1 f tbm; Ok (mkMac0 (m0_prot st) (m0_unprot st) (m0_payload st) tg)).
Proof. reflexivity. Qed.
Lemma mac0_failing_creator_yields_no_message : forall st aad f tbm,
  Mac0_tbm st aad = Ok tbm -> f tbm = None -> mac0_builder_step st (M0_try_create_tag aad f) = Err EEncode.
Proof. intros st aad f tbm H N. rewrite mac0_try_create_tag_step, H. cbn [bind]. now rewrite (call1_none _ _ N). Qed.

(* ---------- COSE_Encrypt0 ---------- *)
Lemma encrypt0_encode_shape m v : CoseEncrypt0_to_value m = Ok v ->
  exists p u, protected_cbor_bstr (e0_prot m) = Ok p /\ v = VArray [p; u; opt_bytes_value (e0_ct m)].
Proof. unfold CoseEncrypt0_to_value. intros H. bind_inv H. bind_inv H. injection H as <-. eauto. Qed.

Lemma encrypt0_decode_shape p u ctv m' :
  CoseEncrypt0_from_value (VArray [p; u; ctv]) = Ok m' ->
  protected_cbor_bstr (e0_prot m') = Ok p /\ bytes_or_nil ctv = Ok (e0_ct m').
Proof.
  unfold CoseEncrypt0_from_value. cbn [try_as_array bind length]. rewrite arity_encrypt0. cbn [Nat.eqb negb].
  intros H. bind_inv H. bind_inv H. bind_inv H. injection H as <-.
  cbn [e0_prot e0_ct]. repeat split. eapply protected_retained; eassumption.
Qed.

Lemma encrypt0_roundtrip_fields m v m' :
  CoseEncrypt0_to_value m = Ok v -> CoseEncrypt0_from_value v = Ok m' ->
  protected_cbor_bstr (e0_prot m') = protected_cbor_bstr (e0_prot m) /\ e0_ct m' = e0_ct m.
Proof.
  intros He Hd. destruct (encrypt0_encode_shape _ _ He) as (p & u & Hp & ->).
  apply encrypt0_decode_shape in Hd as (Hp' & Hct).
  rewrite bytes_or_nil_opt in Hct. repeat split; congruence.
Qed.

Theorem encrypt0_create_then_decrypt :
  forall (st : encrypt0) (pt aad : bytes) (enc : closure2) (a ct : bytes) (m : encrypt0) (v : value) (m' : encrypt0)
         (R : Type) (cipher : bytes -> bytes -> R),
    enc_structure_data EncCoseEncrypt0 (e0_prot st) aad = Ok a -> enc pt a = Some ct ->
    e0_prot m = e0_prot st -> e0_ct m = Some ct ->
    CoseEncrypt0_to_value m = Ok v -> wire_ok v ->
    CoseEncrypt0_from_value v = Ok m' ->
    Encrypt0_decrypt m' aad cipher = Ok (cipher ct a).
Proof.
  intros st pt aad enc a ct m v m' R cipher Ha _ Hp Hct He _ Hd.
  destruct (encrypt0_roundtrip_fields _ _ _ He Hd) as (Ep & Ect).
  unfold Encrypt0_decrypt. rewrite Ect, Hct.
  rewrite (enc_structure_data_ext _ (e0_prot m') (e0_prot st)) by (rewrite Ep, Hp; reflexivity).
  rewrite Ha. reflexivity.
Qed.

Corollary encrypt0_roundtrip_bytes :
  forall (st : encrypt0) (pt aad : bytes) (enc : closure2) (a ct : bytes) (m : encrypt0) (v : value) (b : bytes)
         (m' : encrypt0) (R : Type) (cipher : bytes -> bytes -> R),
    enc_structure_data EncCoseEncrypt0 (e0_prot st) aad = Ok a -> enc pt a = Some ct ->
    e0_prot m = e0_prot st -> e0_ct m = Some ct ->
    CoseEncrypt0_to_value m = Ok v -> wire_ok v ->
    to_vec CoseEncrypt0_to_value m = Ok b -> from_slice CoseEncrypt0_from_value b = Ok m' ->
    Encrypt0_decrypt m' aad cipher = Ok (cipher ct a).
Proof.
  intros st pt aad enc a ct m v b m' R cipher Ha Hs Hp Hct He W Hb Hd.
  eapply encrypt0_create_then_decrypt; eauto. eapply roundtrip_untagged; eauto.
Qed.
Corollary encrypt0_roundtrip_tagged_bytes :
  forall (st : encrypt0) (pt aad : bytes) (enc : closure2) (a ct : bytes) (m : encrypt0) (v : value) (b : bytes)
         (m' : encrypt0) (R : Type) (cipher : bytes -> bytes -> R),
    enc_structure_data EncCoseEncrypt0 (e0_prot st) aad = Ok a -> enc pt a = Some ct ->
    e0_prot m = e0_prot st -> e0_ct m = Some ct ->
    CoseEncrypt0_to_value m = Ok v -> wire_ok v ->
    to_tagged_vec CoseEncrypt0_to_value (tag_of "CoseEncrypt0") m = Ok b ->
    from_tagged_slice CoseEncrypt0_from_value (tag_of "CoseEncrypt0") b = Ok m' ->
    Encrypt0_decrypt m' aad cipher = Ok (cipher ct a).
Proof.
  intros st pt aad enc a ct m v b m' R cipher Ha Hs Hp Hct He W Hb Hd.
  eapply encrypt0_create_then_decrypt; eauto.
  destruct (tag_generic "CoseEncrypt0") as (A & B & C); [cbn [In]; tauto|].
  eapply roundtrip_tagged; eauto.
Qed.

Lemma encrypt0_create_ciphertext_step : forall st pt aad f,
  encrypt0_builder_step st (E0_create_ciphertext pt aad f) =
  (do a <- enc_structure_data EncCoseEncrypt0 (e0_prot st) aad; do ct <- call2 f pt a;
   Ok (mkEncrypt0 (e0_prot st) (e0_unprot st) (Some ct))).
Proof. reflexivity. Qed.
Lemma encrypt0_try_create_ciphertext_step : forall st pt aad f,
  encrypt0_builder_step st (E0_try_create_ciphertext pt aad f) =
  (do a <- enc_structure_data EncCoseEncrypt0 (e0_prot st) aad; do ct <- call2 f pt a;
   Ok (mkEncrypt0 (e0_prot st) (e0_unprot st) (Some ct))).
Proof. reflexivity. Qed.
Lemma encrypt0_failing_creator_yields_no_message : forall st pt aad f a,
  enc_structure_data EncCoseEncrypt0 (e0_prot st) aad = Ok a -> f pt a = None ->
  encrypt0_builder_step st (E0_try_create_ciphertext pt aad f) = Err EEncode.
Proof. intros st pt aad f a H N. rewrite encrypt0_try_create_ciphertext_step, H. cbn [bind]. now rewrite (call2_none _ _ _ N). Qed.
