(* Non-minimal head widths: integers, bignums and tags decode to the same value
   whatever argument width the encoder chose; budget monotonicity; top-level
   corollaries for from_reader. *)
From Coq Require Import Lia.
From Coset.Model Require Import Prelude Cbor.
From Coset.Proofs Require Import Head Codec Fuel RoundTrip.
Require Import ZifyBool ZifyN ZifyNat.
Ltac Zify.zify_post_hook ::= Z.div_mod_to_equations.
Open Scope N_scope.

(* head with a forced argument width: w = 0 (argument in the initial byte,
   needs n < 24), 1, 2, 4 or 8 bytes *)
Definition head_w (mt n : N) (w : nat) : bytes :=
  match w with
  | O => [n2b (mt * 32 + n)]
  | 1 => n2b (mt * 32 + 24) :: be 1 n
  | 2 => n2b (mt * 32 + 25) :: be 2 n
  | 4 => n2b (mt * 32 + 26) :: be 4 n
  | _ => n2b (mt * 32 + 27) :: be 8 n
  end%nat.

Definition width_ok (n : N) (w : nat) : Prop :=
  (w = 0%nat /\ n < 24) \/ (w = 1%nat /\ n < 256) \/ (w = 2%nat /\ n < 65536) \/
  (w = 4%nat /\ n < 4294967296) \/ (w = 8%nat /\ n < p64).

(* ---------- 1. head codec in any width ---------- *)
Lemma dehead_head_w : forall mt n w r, mt < 8 -> width_ok n w ->
  exists ai, dehead (head_w mt n w ++ r) = Some (mt, ai, Some n, r) /\ ai < 28.
Proof.
  intros mt n w r Hm Hw. unfold width_ok, p64 in Hw.
  assert (AI: forall a, a < 32 -> (mt*32+a) mod 256 / 32 = mt /\ (mt*32+a) mod 256 mod 32 = a) by (intros; lia).
  destruct Hw as [[-> Hn]|[[-> Hn]|[[-> Hn]|[[-> Hn]|[-> Hn]]]]]; unfold head_w; cbn [app dehead]; rewrite b2n_n2b.
  - destruct (AI n ltac:(lia)) as [-> ->]. replace (n <? 24) with true by lia. exists n. split; auto. lia.
  - destruct (AI 24 ltac:(lia)) as [-> ->]. change (24 <? 24) with false. change (24 =? 24) with true. cbv iota.
    change 1 with (N.of_nat (length (be 1 n))) at 1. rewrite takeN_app.
    rewrite unbe_be_small by (change (256 ^ N.of_nat 1) with 256; lia). exists 24. split; auto. lia.
  - destruct (AI 25 ltac:(lia)) as [-> ->]. change (25 <? 24) with false. change (25 =? 24) with false. change (25 =? 25) with true. cbv iota.
    change 2 with (N.of_nat (length (be 2 n))) at 1. rewrite takeN_app.
    rewrite unbe_be_small by (change (256 ^ N.of_nat 2) with 65536; lia). exists 25. split; auto. lia.
  - destruct (AI 26 ltac:(lia)) as [-> ->]. change (26 <? 24) with false. change (26 =? 24) with false. change (26 =? 25) with false. change (26 =? 26) with true. cbv iota.
    change 4 with (N.of_nat (length (be 4 n))) at 1. rewrite takeN_app.
    rewrite unbe_be_small by (change (256 ^ N.of_nat 4) with 4294967296; lia). exists 26. split; auto. lia.
  - destruct (AI 27 ltac:(lia)) as [-> ->]. change (27 <? 24) with false. change (27 =? 24) with false. change (27 =? 25) with false. change (27 =? 26) with false. change (27 =? 27) with true. cbv iota.
    change 8 with (N.of_nat (length (be 8 n))) at 1. rewrite takeN_app.
    rewrite unbe_be_small by (change (256 ^ N.of_nat 8) with 18446744073709551616; lia). exists 27. split; auto. lia.
Qed.

Lemma head_is_head_w : forall mt n, n < p64 -> exists w, width_ok n w /\ head mt n = head_w mt n w.
Proof.
  intros mt n Hn. unfold head, width_ok.
  destruct (n <? 24) eqn:E1; [|destruct (n <? 256) eqn:E2; [|destruct (n <? 65536) eqn:E3; [|destruct (n <? 4294967296) eqn:E4]]].
  - exists 0%nat. split; [|reflexivity]. left. split; [reflexivity|lia].
  - exists 1%nat. split; [|reflexivity]. right; left. split; [reflexivity|lia].
  - exists 2%nat. split; [|reflexivity]. right; right; left. split; [reflexivity|lia].
  - exists 4%nat. split; [|reflexivity]. right; right; right; left. split; [reflexivity|lia].
  - exists 8%nat. split; [|reflexivity]. right; right; right; right. split; [reflexivity|exact Hn].
Qed.

(* ---------- 2. integers ---------- *)
Theorem de_uint_any_width : forall f bud n w r, width_ok n w ->
  de (S f) bud (head_w 0 n w ++ r) = Ok (VInt (Z.of_N n), r).
Proof.
  intros f bud n w r W.
  destruct (dehead_head_w 0 n w r) as (ai & H & _); [lia|assumption|].
  cbn [de]. rewrite H. change (0 =? 0) with true. cbv iota. reflexivity.
Qed.

Theorem de_nint_any_width : forall f bud n w r, width_ok n w ->
  de (S f) bud (head_w 1 n w ++ r) = Ok (VInt (-1 - Z.of_N n), r).
Proof.
  intros f bud n w r W.
  destruct (dehead_head_w 1 n w r) as (ai & H & _); [lia|assumption|].
  cbn [de]. rewrite H. change (1 =? 0) with false. change (1 =? 1) with true. cbv iota. reflexivity.
Qed.

(* ---------- 3. bignums ---------- *)
Lemma de_bignum_gen : forall f bud t body wt wl r, t = 2 \/ t = 3 ->
  (length body <= 16)%nat -> width_ok t wt -> width_ok (N.of_nat (length body)) wl ->
  de (S f) bud (head_w 6 t wt ++ head_w 2 (N.of_nat (length body)) wl ++ body ++ r)
  = (do v <- bignum (t =? 3) body; Ok (v, r)).
Proof.
  intros f bud t body wt wl r Ht HL Wt Wl.
  destruct (dehead_head_w 6 t wt (head_w 2 (N.of_nat (length body)) wl ++ body ++ r)) as (ai & H & _); [lia|assumption|].
  destruct (dehead_head_w 2 (N.of_nat (length body)) wl (body ++ r)) as (ai2 & H2 & _); [lia|assumption|].
  cbn [de]. rewrite H.
  change (6 =? 0) with false. change (6 =? 1) with false. change (6 =? 2) with false. change (6 =? 3) with false.
  change (6 =? 4) with false. change (6 =? 5) with false. change (6 =? 6) with true. cbv iota.
  rewrite H2. cbv zeta.
  replace ((t =? 2) || (t =? 3)) with true by lia.
  change (2 =? 2) with true.
  replace (N.of_nat (length body) <=? 16) with true by lia. cbn [andb].
  rewrite takeN_app. reflexivity.
Qed.

Theorem de_bignum_pos : forall f bud body wt wl r, (length body <= 16)%nat -> width_ok 2 wt ->
  width_ok (N.of_nat (length body)) wl -> unbe body < p64 ->
  de (S f) bud (head_w 6 2 wt ++ head_w 2 (N.of_nat (length body)) wl ++ body ++ r)
  = Ok (VInt (Z.of_N (unbe body)), r).
Proof.
  intros f bud body wt wl r HL Wt Wl HU.
  rewrite de_bignum_gen by auto.
  change (2 =? 3) with false. unfold bignum.
  replace (unbe body <? pow2 64) with true by (unfold pow2; change (2 ^ 64) with p64; lia).
  reflexivity.
Qed.

Theorem de_bignum_neg : forall f bud body wt wl r, (length body <= 16)%nat -> width_ok 3 wt ->
  width_ok (N.of_nat (length body)) wl -> unbe body < p64 ->
  de (S f) bud (head_w 6 3 wt ++ head_w 2 (N.of_nat (length body)) wl ++ body ++ r)
  = Ok (VInt (-1 - Z.of_N (unbe body)), r).
Proof.
  intros f bud body wt wl r HL Wt Wl HU.
  rewrite de_bignum_gen by auto.
  change (3 =? 3) with true. unfold bignum.
  replace (unbe body <? pow2 64) with true by (unfold pow2; change (2 ^ 64) with p64; lia).
  reflexivity.
Qed.

(* ---------- 4. tags, generic path ---------- *)
Lemma de_ok_dehead : forall f bud l x, de f bud l = Ok x -> exists h, dehead l = Some h.
Proof.
  intros f bud l x. destruct f as [|f]; [discriminate|]. cbn [de].
  destruct (dehead l) as [h|]; [eauto|discriminate].
Qed.

Theorem de_tag_any_width : forall f bud t w b0 v r, width_ok t w -> t <> 2 -> t <> 3 ->
  de f bud b0 = Ok (v, r) -> de (S f) (S bud) (head_w 6 t w ++ b0) = Ok (VTag t v, r).
Proof.
  intros f bud t w b0 v r W T2 T3 D.
  destruct (dehead_head_w 6 t w b0) as (ai & H & _); [lia|assumption|].
  destruct (de_ok_dehead _ _ _ _ D) as ([[[mt2 ai2] arg2] r2] & H2).
  cbn [de]. rewrite H.
  change (6 =? 0) with false. change (6 =? 1) with false. change (6 =? 2) with false. change (6 =? 3) with false.
  change (6 =? 4) with false. change (6 =? 5) with false. change (6 =? 6) with true. cbv iota.
  rewrite H2. cbv zeta.
  replace ((t =? 2) || (t =? 3)) with false by lia. cbn [andb].
  rewrite D. reflexivity.
Qed.

Theorem de_tag_any_width_inv : forall f bud t w b0 x r, width_ok t w -> t <> 2 -> t <> 3 ->
  de (S f) bud (head_w 6 t w ++ b0) = Ok (x, r) ->
  exists bud' v, bud = S bud' /\ x = VTag t v /\ de f bud' b0 = Ok (v, r).
Proof.
  intros f bud t w b0 x r W T2 T3 D.
  destruct (dehead_head_w 6 t w b0) as (ai & H & _); [lia|assumption|].
  cbn [de] in D. rewrite H in D.
  change (6 =? 0) with false in D. change (6 =? 1) with false in D. change (6 =? 2) with false in D.
  change (6 =? 3) with false in D. change (6 =? 4) with false in D. change (6 =? 5) with false in D.
  change (6 =? 6) with true in D. cbv iota in D.
  destruct (dehead b0) as [[[[mt2 ai2] arg2] r2]|]; [|discriminate D].
  cbv zeta in D.
  replace ((t =? 2) || (t =? 3)) with false in D by lia. cbn [andb] in D.
  destruct bud as [|bud']; [discriminate D|].
  destruct (de f bud' b0) as [[v r']| | |] eqn:E; cbn [bind] in D; try discriminate D.
  injection D as <- <-. exists bud', v. auto.
Qed.

(* ---------- 5. budget monotonicity ---------- *)
Lemma budget_mono_aux : forall f,
  (forall bud l x, de f bud l = Ok x -> forall bud', (bud <= bud')%nat -> de f bud' l = Ok x) /\
  (forall bud c l x, items f bud c l = Ok x -> forall bud', (bud <= bud')%nat -> items f bud' c l = Ok x) /\
  (forall bud c l x, entries f bud c l = Ok x -> forall bud', (bud <= bud')%nat -> entries f bud' c l = Ok x).
Proof.
  induction f as [|f (IHd & IHi & IHe)]; [repeat split; intros; discriminate|].
  split; [|split].
  - intros bud l x D bud' Hle. revert D. cbn [de].
    destruct (dehead l) as [[[[mt ai] arg] r0]|]; [|discriminate].
    destruct (mt =? 0); [auto|]. destruct (mt =? 1); [auto|].
    destruct (mt =? 2); [auto|]. destruct (mt =? 3); [auto|].
    destruct (mt =? 4).
    { destruct bud as [|b]; [discriminate|]. destruct bud' as [|b']; [lia|].
      intros S. bind_destruct S. rewrite (IHi _ _ _ _ E b') by lia. exact S. }
    destruct (mt =? 5).
    { destruct bud as [|b]; [discriminate|]. destruct bud' as [|b']; [lia|].
      intros S. bind_destruct S. rewrite (IHe _ _ _ _ E b') by lia. exact S. }
    destruct (mt =? 6); [|auto].
    destruct arg as [t|]; [|auto].
    destruct (dehead r0) as [[[[mt2 ai2] arg2] r2]|]; [|auto].
    cbv zeta.
    destruct (((t =? 2) || (t =? 3)) && match arg2 with Some n2 => (mt2 =? 2) && (n2 <=? 16) | None => false end); [auto|].
    destruct bud as [|b]; [discriminate|]. destruct bud' as [|b']; [lia|].
    intros S. bind_destruct S. rewrite (IHd _ _ _ E b') by lia. exact S.
  - intros bud c l x D bud' Hle. revert D. cbn [items].
    destruct c as [n|].
    + destruct (n =? 0); [auto|].
      intros S. bind_destruct S. rewrite (IHd _ _ _ E _ Hle). cbn [bind].
      bind_destruct S. rewrite (IHi _ _ _ _ E0 _ Hle). exact S.
    + destruct l as [|b l0]; [auto|].
      destruct (b2n b =? 255); [auto|].
      intros S. bind_destruct S. rewrite (IHd _ _ _ E _ Hle). cbn [bind].
      bind_destruct S. rewrite (IHi _ _ _ _ E0 _ Hle). exact S.
  - intros bud c l x D bud' Hle. revert D. cbn [entries].
    destruct c as [n|].
    + destruct (n =? 0); [auto|].
      intros S. bind_destruct S. rewrite (IHd _ _ _ E _ Hle). cbn [bind].
      bind_destruct S. rewrite (IHd _ _ _ E0 _ Hle). cbn [bind].
      bind_destruct S. rewrite (IHe _ _ _ _ E1 _ Hle). exact S.
    + destruct l as [|b l0]; [auto|].
      destruct (b2n b =? 255); [auto|].
      intros S. bind_destruct S. rewrite (IHd _ _ _ E _ Hle). cbn [bind].
      bind_destruct S. rewrite (IHd _ _ _ E0 _ Hle). cbn [bind].
      bind_destruct S. rewrite (IHe _ _ _ _ E1 _ Hle). exact S.
Qed.

Lemma de_budget_mono : forall f bud l x, de f bud l = Ok x ->
  forall bud', (bud <= bud')%nat -> de f bud' l = Ok x.
Proof. intros f. apply (budget_mono_aux f). Qed.

Lemma items_budget_mono : forall f bud c l x, items f bud c l = Ok x ->
  forall bud', (bud <= bud')%nat -> items f bud' c l = Ok x.
Proof. intros f. apply (budget_mono_aux f). Qed.

Lemma entries_budget_mono : forall f bud c l x, entries f bud c l = Ok x ->
  forall bud', (bud <= bud')%nat -> entries f bud' c l = Ok x.
Proof. intros f. apply (budget_mono_aux f). Qed.

(* ---------- 6. top level ---------- *)
Lemma from_reader_of_any_fuel : forall l f x, de f RECURSION_LIMIT l = Ok x -> from_reader l = Ok x.
Proof.
  intros l f x D.
  rewrite <- (from_reader_fuel l (Nat.max f (fuel_of l))) by apply Nat.le_max_r.
  apply (de_fuel_mono f); [exact D|discriminate|apply Nat.le_max_l].
Qed.

Theorem from_reader_tagged : forall t w b0 v, width_ok t w -> t <> 2 -> t <> 3 ->
  (exists f, de f 255 b0 = Ok (v, [])) -> from_reader (head_w 6 t w ++ b0) = Ok (VTag t v, []).
Proof.
  intros t w b0 v W T2 T3 [f D].
  apply (from_reader_of_any_fuel _ (S f)).
  change RECURSION_LIMIT with (S 255).
  now apply de_tag_any_width.
Qed.

Theorem from_reader_tagged_inv : forall t w b0 x r, width_ok t w -> t <> 2 -> t <> 3 ->
  from_reader (head_w 6 t w ++ b0) = Ok (x, r) -> exists v f, x = VTag t v /\ de f 255 b0 = Ok (v, r).
Proof.
  intros t w b0 x r W T2 T3 D. unfold from_reader, fuel_of in D.
  apply de_tag_any_width_inv in D; try assumption.
  destruct D as (bud' & v & Hb & -> & D).
  unfold RECURSION_LIMIT in Hb. injection Hb as <-.
  exists v. eexists. split; [reflexivity|exact D].
Qed.

Print Assumptions de_uint_any_width.
Print Assumptions de_nint_any_width.
Print Assumptions de_bignum_pos.
Print Assumptions de_bignum_neg.
Print Assumptions de_tag_any_width.
Print Assumptions de_tag_any_width_inv.
Print Assumptions de_budget_mono.
Print Assumptions from_reader_tagged.
Print Assumptions from_reader_tagged_inv.
