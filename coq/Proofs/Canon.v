(* CoseKey::canonicalize: the parameters are only reordered, end up strictly ascending under the
   chosen ordering, canonicalising twice is canonicalising once, and the emitted map has its
   keys in strictly ascending order of their encodings -- except for the extra label 0. *)
From Coq Require Import Lia Permutation Sorted.
From Coset.Model Require Import Prelude Cbor Iana Label Msg Key.
From Coset.Spec Require Import DetCbor.
From Coset.Proofs Require Import Head Order IanaTables Loop.
Require Import ZifyBool ZifyN ZifyNat.
Ltac Zify.zify_post_hook ::= Z.div_mod_to_equations.
Open Scope list_scope. Open Scope Z_scope.

(* ---------- definitions ---------- *)
Definition ord_cmp (o : cbor_ordering) : label -> label -> comparison :=
  match o with Lexicographic => label_cmp | LengthFirstLexicographic => cmp_canonical end.
Definition enc_cmp (o : cbor_ordering) (a b : bytes) : comparison :=
  match o with Lexicographic => lex a b | LengthFirstLexicographic => length_first a b end.

(* in-memory well-formedness of a key's extra parameters: labels pairwise distinct, in range,
   none of them one of the typed labels 1..5 *)
Definition params_wf (k : cose_key) : Prop :=
  NoDup (map fst (k_params k)) /\
  Forall (fun e => label_in_range (fst e) /\ (forall z, fst e = LInt z -> ~ (1 <= z <= 5)%Z)) (k_params k).

Definition keys_of (v : value) : list bytes :=
  match v with VMap m => map (fun kv => ser (fst kv)) m | _ => [] end.

Definition to_vec_bytes (k : cose_key) : res bytes := do v <- CoseKey_to_value k; Ok (ser v).

(* the comparator the sort is run with, on entries *)
Definition kcmp (c : label -> label -> comparison) (l r : label * value) : comparison := c (fst l) (fst r).
Definition klt (c : label -> label -> comparison) (l r : label * value) : Prop := kcmp c l r = Lt.

Lemma canon_eq o k : canonicalize o k = set_kparams (sort_by (kcmp (ord_cmp o)) (k_params k)) k.
Proof. destruct o; reflexivity. Qed.

(* ---------- list helpers ---------- *)
Lemma Forall_perm {A} (P : A -> Prop) l l' : Permutation l l' -> Forall P l -> Forall P l'.
Proof. intros Pm F. rewrite Forall_forall in *. intros x I. apply F. eapply Permutation_in; [apply Permutation_sym, Pm|exact I]. Qed.

Lemma sorted_app_mid {A} (R : A -> A -> Prop) a x r :
  StronglySorted R (a ++ x :: r) -> Forall (fun y => R y x) a.
Proof. induction a as [|y a IH]; cbn [app]; intros S. - constructor.
  - inversion S as [|? ? S' F]; subst. constructor; auto.
    rewrite Forall_forall in F. apply F. apply in_elt. Qed.

Lemma sorted_app {A} (R : A -> A -> Prop) a b :
  StronglySorted R a -> StronglySorted R b -> (forall x y, In x a -> In y b -> R x y) ->
  StronglySorted R (a ++ b).
Proof. induction a as [|x a IH]; cbn [app]; intros Sa Sb C; auto.
  inversion Sa as [|? ? Sa' F]; subst. constructor.
  - apply IH; auto. intros; apply C; cbn; auto.
  - apply Forall_app. split; auto. apply Forall_forall. intros y Iy. apply C; cbn; auto. Qed.

Lemma sorted_map {A B} (R : B -> B -> Prop) (f : A -> B) l :
  StronglySorted (fun a b => R (f a) (f b)) l -> StronglySorted R (map f l).
Proof. induction 1 as [|x l S IH F]; cbn [map]; constructor; auto.
  apply Forall_forall. intros y Iy. apply in_map_iff in Iy as (a & <- & Ia).
  rewrite Forall_forall in F. auto. Qed.

(* ---------- the stable insertion sort permutes ---------- *)
Section SortPerm.
  Context {A : Type} (cmp : A -> A -> comparison).
  Lemma insert_sorted_perm x l : Permutation (insert_sorted cmp x l) (x :: l).
  Proof. induction l as [|y r IH]; cbn [insert_sorted]. - apply Permutation_refl.
    - destruct (cmp x y); try apply Permutation_refl;
      (eapply perm_trans; [apply perm_skip, IH|apply perm_swap]). Qed.
  Lemma fold_insert_perm l : forall acc,
    Permutation (fold_left (fun acc x => insert_sorted cmp x acc) l acc) (acc ++ l).
  Proof. induction l as [|a l IH]; intros acc; cbn [fold_left].
    - rewrite app_nil_r. apply Permutation_refl.
    - eapply perm_trans; [apply IH|]. eapply perm_trans; [apply Permutation_app_tail, insert_sorted_perm|].
      cbn [app]. apply Permutation_middle. Qed.
  Lemma sort_by_perm l : Permutation (sort_by cmp l) l.
  Proof. unfold sort_by. apply (fold_insert_perm l []). Qed.
End SortPerm.

Theorem canonicalize_only_reorders : forall o k,
  Permutation (k_params (canonicalize o k)) (k_params k) /\ k_kty (canonicalize o k) = k_kty k /\
  k_kid (canonicalize o k) = k_kid k /\ k_alg (canonicalize o k) = k_alg k /\
  k_ops (canonicalize o k) = k_ops k /\ k_base_iv (canonicalize o k) = k_base_iv k.
Proof. intros o k. rewrite canon_eq. cbn [set_kparams k_params k_kty k_kid k_alg k_ops k_base_iv].
  split; [apply sort_by_perm|repeat split]. Qed.

(* ---------- both comparators are strict total orders on in-range labels ---------- *)
Lemma length_first_text a b : length_first a b = text_cmp a b.
Proof. unfold length_first, text_cmp, then_cmp. rewrite lex_bytes_cmp.
  destruct (Nat.compare (length a) (length b)); reflexivity. Qed.

Theorem length_first_eq a b : length_first a b = Eq <-> a = b.
Proof. rewrite length_first_text. apply text_cmp_eq. Qed.
Theorem length_first_antisym a b : length_first b a = CompOpp (length_first a b).
Proof. rewrite !length_first_text. apply text_cmp_antisym. Qed.
Theorem length_first_lt_trans a b c : length_first a b = Lt -> length_first b c = Lt -> length_first a c = Lt.
Proof. rewrite !length_first_text. apply text_cmp_lt_trans. Qed.

Lemma det_label_inj a b : label_in_range a -> label_in_range b -> det_label a = det_label b -> a = b.
Proof. intros Ra Rb E. apply label_cmp_eq. rewrite label_cmp_is_lex by assumption.
  rewrite E, lex_bytes_cmp. apply bytes_cmp_refl. Qed.

Theorem cmp_canonical_eq a b : label_in_range a -> label_in_range b -> (cmp_canonical a b = Eq <-> a = b).
Proof. intros Ra Rb. rewrite cmp_canonical_is_length_first, length_first_eq.
  split; [now apply det_label_inj|congruence]. Qed.
Theorem cmp_canonical_antisym a b : cmp_canonical b a = CompOpp (cmp_canonical a b).
Proof. rewrite !cmp_canonical_is_length_first. apply length_first_antisym. Qed.
Theorem cmp_canonical_lt_trans a b c : cmp_canonical a b = Lt -> cmp_canonical b c = Lt -> cmp_canonical a c = Lt.
Proof. rewrite !cmp_canonical_is_length_first. apply length_first_lt_trans. Qed.

Lemma ord_cmp_eq o a b : label_in_range a -> label_in_range b -> (ord_cmp o a b = Eq <-> a = b).
Proof. destruct o; cbn [ord_cmp]; intros. - apply label_cmp_eq. - now apply cmp_canonical_eq. Qed.
Lemma ord_cmp_antisym o a b : ord_cmp o b a = CompOpp (ord_cmp o a b).
Proof. destruct o; cbn [ord_cmp]. - apply label_cmp_antisym. - apply cmp_canonical_antisym. Qed.
Lemma ord_cmp_lt_trans o a b c : ord_cmp o a b = Lt -> ord_cmp o b c = Lt -> ord_cmp o a c = Lt.
Proof. destruct o; cbn [ord_cmp]. - apply label_cmp_lt_trans. - apply cmp_canonical_lt_trans. Qed.

(* the in-memory order is the order of the encodings *)
Lemma ord_cmp_enc o a b : label_in_range a -> label_in_range b ->
  ord_cmp o a b = enc_cmp o (det_label a) (det_label b).
Proof. destruct o; cbn [ord_cmp enc_cmp]; intros. - now apply label_cmp_is_lex. - apply cmp_canonical_is_length_first. Qed.

(* ---------- sorting: strictness and idempotence ---------- *)
Section Gen.
  Variable c : label -> label -> comparison.
  Hypothesis c_eq : forall a b, label_in_range a -> label_in_range b -> c a b = Eq -> a = b.
  Hypothesis c_anti : forall a b, c b a = CompOpp (c a b).
  Hypothesis c_trans : forall a b d, c a b = Lt -> c b d = Lt -> c a d = Lt.

  Let P (e : label * value) : Prop := label_in_range (fst e).

  Lemma insert_strict x : P x -> forall acc, Forall P acc -> ~ In (fst x) (map fst acc) ->
    StronglySorted (klt c) acc -> StronglySorted (klt c) (insert_sorted (kcmp c) x acc).
  Proof. intros Px. induction acc as [|y r IH]; intros Pa NI S; cbn [insert_sorted].
    - repeat constructor.
    - inversion S as [|? ? Sr Fy]; subst. inversion Pa as [|? ? Py Pr]; subst.
      cbn [map] in NI. destruct (kcmp c x y) eqn:C.
      + exfalso. apply NI. left. symmetry. apply c_eq; auto.
      + constructor; auto. constructor; auto.
        eapply Forall_impl; [|exact Fy]. intros z Hz. unfold klt, kcmp in *. eapply c_trans; eauto.
      + constructor.
        * apply IH; auto. intros I; apply NI; right; auto.
        * eapply Forall_perm; [apply Permutation_sym, insert_sorted_perm|]. constructor; auto.
          unfold klt, kcmp in *. rewrite c_anti, C. reflexivity.
  Qed.

  Lemma fold_strict l : forall acc, Forall P (acc ++ l) -> NoDup (map fst (acc ++ l)) ->
    StronglySorted (klt c) acc ->
    StronglySorted (klt c) (fold_left (fun acc x => insert_sorted (kcmp c) x acc) l acc).
  Proof. induction l as [|x r IH]; intros acc F ND S; cbn [fold_left]; auto.
    assert (Pm: Permutation (acc ++ x :: r) (insert_sorted (kcmp c) x acc ++ r)).
    { apply Permutation_sym. eapply perm_trans; [apply Permutation_app_tail, insert_sorted_perm|].
      cbn [app]. apply Permutation_middle. }
    apply IH.
    - eapply Forall_perm; eauto.
    - eapply Permutation_NoDup; [apply Permutation_map, Pm|exact ND].
    - apply Forall_app in F as [Fa Fx]. inversion Fx; subst. apply insert_strict; auto.
      rewrite map_app in ND. cbn [map] in ND. apply NoDup_remove_2 in ND.
      intros I. apply ND. apply in_or_app. now left.
  Qed.

  Lemma sort_strict ps : NoDup (map fst ps) -> Forall P ps -> StronglySorted (klt c) (sort_by (kcmp c) ps).
  Proof. intros ND F. unfold sort_by. apply fold_strict; cbn [app]; auto. constructor. Qed.

  Lemma insert_last x acc : Forall (fun y => klt c y x) acc -> insert_sorted (kcmp c) x acc = acc ++ [x].
  Proof. induction acc as [|y r IH]; intros F; cbn [insert_sorted app]; auto.
    inversion F as [|? ? Hy Fr]; subst. unfold klt, kcmp in Hy.
    replace (kcmp c x y) with Gt by (unfold kcmp; rewrite c_anti, Hy; reflexivity).
    now rewrite IH. Qed.

  Lemma fold_sorted_id l : forall acc, StronglySorted (klt c) (acc ++ l) ->
    fold_left (fun acc x => insert_sorted (kcmp c) x acc) l acc = acc ++ l.
  Proof. induction l as [|x r IH]; intros acc S; cbn [fold_left].
    - now rewrite app_nil_r.
    - rewrite insert_last by (eapply sorted_app_mid; eauto).
      rewrite IH; rewrite <- app_assoc; auto. Qed.

  Lemma sort_sorted_id l : StronglySorted (klt c) l -> sort_by (kcmp c) l = l.
  Proof. intros S. unfold sort_by. now rewrite fold_sorted_id. Qed.
End Gen.

Theorem canonicalize_sorts_params : forall o k, params_wf k ->
  StronglySorted (fun a b => ord_cmp o (fst a) (fst b) = Lt) (k_params (canonicalize o k)).
Proof. intros o k [ND W]. rewrite canon_eq. cbn [set_kparams k_params].
  apply (sort_strict (ord_cmp o)); auto.
  - intros a b Ra Rb. now apply ord_cmp_eq.
  - apply ord_cmp_antisym.
  - apply ord_cmp_lt_trans.
  - eapply Forall_impl; [|exact W]. intros e [R _]. exact R. Qed.

Theorem canonicalize_idempotent : forall o k, params_wf k -> canonicalize o (canonicalize o k) = canonicalize o k.
Proof. intros o k W. pose proof (canonicalize_sorts_params o k W) as S.
  rewrite canon_eq in S. cbn [set_kparams k_params] in S.
  rewrite !canon_eq. unfold set_kparams. cbn [k_params k_kty k_kid k_alg k_ops k_base_iv].
  f_equal. apply sort_sorted_id; auto. apply ord_cmp_antisym. Qed.

(* ---------- the emitted map ---------- *)
Lemma emit_rest_ok ps : forall seen acc, NoDup (map fst ps) -> (forall l, In l (map fst ps) -> ~ In l seen) ->
  emit_rest ps seen acc = Ok (acc ++ map (fun e => (label_to_value (fst e), snd e)) ps).
Proof. induction ps as [|[l x] r IH]; intros seen acc ND DJ; cbn [emit_rest map fst snd] in *.
  - now rewrite app_nil_r.
  - destruct (label_mem l seen) eqn:M.
    { apply label_mem_In in M. exfalso. apply (DJ l); [now left|exact M]. }
    inversion ND as [|? ? NI ND']; subst. rewrite IH; auto.
    + now rewrite <- app_assoc.
    + intros l0 I [<-|I2]; [contradiction|]. apply (DJ l0); [now right|exact I2]. Qed.

Lemma seed_seen_ints m : forall zs, map fst m = map VInt zs -> Forall (fun z => 1 <= z <= 5) zs ->
  seed_seen m = Ok (map LInt zs).
Proof. induction m as [|[k v] m IH]; intros [|z zs] E F; try discriminate; [reflexivity|].
  change (seed_seen ((k, v) :: m)) with (do b <- label_from_value k; do bs <- seed_seen m; Ok (b :: bs)).
  cbn [map fst] in E. injection E as -> E. inversion F as [|? ? Hz F']; subst.
  cbn [label_from_value]. unfold to_i64_res. replace (in_i64 z) with true by (unfold in_i64; lia).
  cbn [bind]. rewrite (IH zs); auto. Qed.

Definition typed_entries (k : cose_key) : list (value * value) :=
  [(VInt K_KTY, reg_to_value (k_kty k))]
  ++ bytes_entry K_KID (k_kid k)
  ++ opt_entry K_ALG (k_alg k) regp_to_value
  ++ (if isnil (k_ops k) then [] else [(VInt K_KEY_OPS, VArray (map reg_to_value (k_ops k)))])
  ++ bytes_entry K_BASE_IV (k_base_iv k).

Lemma typed_entries_shape k : exists zs,
  map fst (typed_entries k) = map VInt zs /\ StronglySorted Z.lt zs /\ Forall (fun z => 1 <= z <= 5) zs.
Proof. exists ([1] ++ (if isnil (k_kid k) then [] else [2]) ++ (if issome (k_alg k) then [3] else [])
                ++ (if isnil (k_ops k) then [] else [4]) ++ (if isnil (k_base_iv k) then [] else [5])).
  unfold typed_entries, bytes_entry, opt_entry, issome.
  destruct (isnil (k_kid k)), (k_alg k), (isnil (k_ops k)), (isnil (k_base_iv k));
  (split; [reflexivity|split; cbn [app]; repeat constructor; lia]). Qed.

Lemma CoseKey_to_value_shape k : NoDup (map fst (k_params k)) ->
  (forall e, In e (k_params k) -> forall z, fst e = LInt z -> ~ (1 <= z <= 5)) ->
  exists zs m1,
    CoseKey_to_value k = Ok (VMap (m1 ++ map (fun e => (label_to_value (fst e), snd e)) (k_params k))) /\
    map fst m1 = map VInt zs /\ StronglySorted Z.lt zs /\ Forall (fun z => 1 <= z <= 5) zs.
Proof. intros ND NT. destruct (typed_entries_shape k) as (zs & E & S & F).
  exists zs, (typed_entries k). repeat split; auto.
  change (CoseKey_to_value k) with
    (do seen <- seed_seen (typed_entries k); do m <- emit_rest (k_params k) seen (typed_entries k); Ok (VMap m)).
  rewrite (seed_seen_ints _ zs E F). cbn [bind]. rewrite emit_rest_ok; auto.
  intros l I I2. apply in_map_iff in I as (e & <- & Ie). apply in_map_iff in I2 as (z & Ez & Iz).
  symmetry in Ez. apply (NT e Ie z Ez). rewrite Forall_forall in F. auto. Qed.

(* typed labels among themselves, and before every admissible extra label *)
Lemma typed_lt o z1 z2 : 1 <= z1 -> z1 < z2 -> z2 <= 5 -> ord_cmp o (LInt z1) (LInt z2) = Lt.
Proof. intros H1 H2 H3. destruct o; cbn [ord_cmp].
  - cbn [label_cmp]. unfold int_cmp.
    replace (z1 <? 0) with false by lia. replace (z1 =? 0) with false by lia.
    replace (z2 <? 0) with false by lia. replace (z2 =? 0) with false by lia.
    apply Z.compare_lt_iff. lia.
  - assert (A: z1 = 1 \/ z1 = 2 \/ z1 = 3 \/ z1 = 4) by lia.
    assert (B: z2 = 2 \/ z2 = 3 \/ z2 = 4 \/ z2 = 5) by lia.
    destruct A as [->|[->|[->| ->]]], B as [->|[->|[->| ->]]]; try lia; vm_compute; reflexivity. Qed.

Lemma typed_len z : 1 <= z <= 5 -> length (det_label (LInt z)) = 1%nat.
Proof. intros H. assert (A: z = 1 \/ z = 2 \/ z = 3 \/ z = 4 \/ z = 5) by lia.
  destruct A as [->|[->|[->|[->| ->]]]]; reflexivity. Qed.

Lemma det_label_len_ge1 l : (1 <= length (det_label l))%nat.
Proof. rewrite <- ser_label. destruct l as [z|t]; cbn [label_to_value ser].
  - destruct (0 <=? z).
    + destruct (head_first 0%N (Z.to_N z) eq_refl) as (b & r & -> & _). cbn [length]. lia.
    + destruct (head_first 1%N (Z.to_N (-1 - z)) eq_refl) as (b & r & -> & _). cbn [length]. lia.
  - destruct (head_first 3%N (N.of_nat (length t)) eq_refl) as (b & r & -> & _). cbn [app length]. lia. Qed.

Lemma extra_after_typed_lex z l : 1 <= z <= 5 -> l <> LInt 0 ->
  (forall i, l = LInt i -> ~ (1 <= i <= 5)) -> label_cmp (LInt z) l = Lt.
Proof. destruct l as [i|t]; cbn [label_cmp]; auto. intros Hz N0 NT.
  assert (i <> 0) by congruence. specialize (NT i eq_refl). unfold int_cmp.
  replace (z <? 0) with false by lia. replace (z =? 0) with false by lia.
  destruct (i <? 0) eqn:A; auto. destruct (i =? 0) eqn:B; [lia|]. apply Z.compare_lt_iff. lia. Qed.

Lemma extra_after_typed o z l : 1 <= z <= 5 -> label_in_range l -> l <> LInt 0 ->
  (forall i, l = LInt i -> ~ (1 <= i <= 5)) -> ord_cmp o (LInt z) l = Lt.
Proof. intros Hz R N0 NT. destruct o; cbn [ord_cmp].
  - now apply extra_after_typed_lex.
  - rewrite cmp_canonical_is_length_first. unfold length_first. rewrite typed_len by assumption.
    pose proof (det_label_len_ge1 l) as G.
    destruct (Nat.compare_spec 1 (length (det_label l))) as [E|L|G']; [|reflexivity|lia].
    rewrite <- label_cmp_is_lex; auto. + now apply extra_after_typed_lex. + cbn [label_in_range]. lia. Qed.

Lemma typed_labels_sorted o zs : StronglySorted Z.lt zs -> Forall (fun z => 1 <= z <= 5) zs ->
  StronglySorted (fun a b => ord_cmp o a b = Lt) (map LInt zs).
Proof. induction 1 as [|z zs S IH Fz]; intros F; cbn [map]; constructor; inversion F as [|? ? Hz F']; subst; auto.
  apply Forall_forall. intros l Il. apply in_map_iff in Il as (z2 & <- & I2).
  rewrite Forall_forall in Fz, F'. specialize (Fz _ I2). specialize (F' _ I2). apply typed_lt; lia. Qed.

Lemma labels_sorted_enc o ls : Forall label_in_range ls ->
  StronglySorted (fun a b => ord_cmp o a b = Lt) ls ->
  StronglySorted (fun a b => enc_cmp o a b = Lt) (map det_label ls).
Proof. intros F S. induction S as [|x l S IH Fx]; cbn [map]; constructor; inversion F as [|? ? Rx F']; subst; auto.
  apply Forall_forall. intros y Iy. apply in_map_iff in Iy as (b & <- & Ib).
  rewrite Forall_forall in Fx, F'. rewrite <- ord_cmp_enc; auto. Qed.

Theorem canonical_key_encoding_sorted : forall o k, params_wf k ->
  (forall e, In e (k_params k) -> fst e <> LInt 0) ->
  exists m, CoseKey_to_value (canonicalize o k) = Ok (VMap m) /\
            StronglySorted (fun a b => enc_cmp o a b = Lt) (map (fun kv => ser (fst kv)) m).
Proof. intros o k W N0. pose proof (canonicalize_sorts_params o k W) as Sp.
  destruct W as [ND W]. destruct (canonicalize_only_reorders o k) as (Pm & _).
  set (k' := canonicalize o k) in *. apply Permutation_sym in Pm.
  assert (ND': NoDup (map fst (k_params k'))) by (eapply Permutation_NoDup; [apply Permutation_map, Pm|exact ND]).
  assert (W': Forall (fun e => label_in_range (fst e) /\ (forall z, fst e = LInt z -> ~ (1 <= z <= 5))) (k_params k'))
    by (eapply Forall_perm; eauto).
  assert (N0': forall e, In e (k_params k') -> fst e <> LInt 0)
    by (intros e I; apply N0; eapply Permutation_in; [apply Permutation_sym, Pm|exact I]).
  rewrite Forall_forall in W'.
  destruct (CoseKey_to_value_shape k' ND') as (zs & m1 & E & Em & Sz & Fz).
  { intros e I. apply (W' e I). }
  eexists. split; [exact E|].
  rewrite map_app, map_map. cbn [fst].
  replace (map (fun kv => ser (fst kv)) m1) with (map det_label (map LInt zs)).
  2:{ rewrite <- (map_map fst ser m1), Em, !map_map. apply map_ext. intros z. symmetry. exact (ser_label (LInt z)). }
  replace (map (fun e : label * value => ser (label_to_value (fst e))) (k_params k'))
    with (map det_label (map fst (k_params k'))).
  2:{ rewrite map_map. apply map_ext. intros e. symmetry. apply ser_label. }
  rewrite <- map_app. apply labels_sorted_enc.
  - apply Forall_app. split; apply Forall_forall; intros l Il.
    + apply in_map_iff in Il as (z & <- & Iz). rewrite Forall_forall in Fz. specialize (Fz _ Iz).
      cbn [label_in_range]. lia.
    + apply in_map_iff in Il as (e & <- & Ie). apply (W' e Ie).
  - apply sorted_app.
    + now apply typed_labels_sorted.
    + apply sorted_map. exact Sp.
    + intros a b Ia Ib. apply in_map_iff in Ia as (z & <- & Iz). apply in_map_iff in Ib as (e & <- & Ie).
      rewrite Forall_forall in Fz. destruct (W' e Ie) as [R NT]. apply extra_after_typed; auto. Qed.

(* the same statement phrased with keys_of *)
Corollary canonical_key_encoding_keys_sorted o k : params_wf k ->
  (forall e, In e (k_params k) -> fst e <> LInt 0) ->
  exists v, CoseKey_to_value (canonicalize o k) = Ok v /\
            StronglySorted (fun a b => enc_cmp o a b = Lt) (keys_of v).
Proof. intros W N0. destruct (canonical_key_encoding_sorted o k W N0) as (m & E & S).
  exists (VMap m). split; auto. Qed.

(* the extra label 0 is admitted by the decoder and by params_wf, and sorts after the typed label 1
   in memory (Label::cmp puts 0 after the positives) although 0x00 < 0x01 on the wire *)
Lemma canonical_label0_refuted :
  let k := mkKey (RAssigned 1) [] None [] [] [(LInt 0, VInt 9); (LInt (-1), VInt 3)] in
  to_vec_bytes (canonicalize Lexicographic k) = Ok [xa3; x01; x01; x00; x09; x20; x03].
Proof. vm_compute. reflexivity. Qed.

Print Assumptions canonicalize_only_reorders.
Print Assumptions canonicalize_sorts_params.
Print Assumptions canonicalize_idempotent.
Print Assumptions canonical_key_encoding_sorted.
Print Assumptions canonical_label0_refuted.
