(* Fuel lemmas for the CBOR decoder model: monotonicity in fuel, every
   successful parse consumes input, and [fuel_of] is always enough. *)
From Coq Require Import Lia.
From Coset.Model Require Import Prelude Cbor.
From Coset.Proofs Require Import Head.
Require Import ZifyBool ZifyN ZifyNat.
Open Scope nat_scope.

(* ---------- generic facts about [bind] ---------- *)
Lemma bind_mono {A B} (x x' : res A) (k k' : A -> res B) :
  (x <> OutOfFuel -> x' = x) ->
  (forall a, k a <> OutOfFuel -> k' a = k a) ->
  bind x k <> OutOfFuel -> bind x' k' = bind x k.
Proof.
  intros Hx Hk. destruct x as [a|e| |]; cbn [bind]; intros H.
  - rewrite Hx by discriminate. cbn [bind]. auto.
  - rewrite Hx by discriminate. reflexivity.
  - rewrite Hx by discriminate. reflexivity.
  - congruence.
Qed.

Lemma bind_not_oof {A B} (x : res A) (k : A -> res B) :
  x <> OutOfFuel -> (forall a, x = Ok a -> k a <> OutOfFuel) -> bind x k <> OutOfFuel.
Proof.
  destruct x as [a|e| |]; cbn [bind]; intros Hx Hk.
  - apply Hk. reflexivity.
  - discriminate.
  - discriminate.
  - congruence.
Qed.

(* destruct every [match] scrutinee occurring in the goal *)
Ltac split_goal :=
  repeat match goal with
         | |- context [match ?x with _ => _ end] => destruct x eqn:?
         end.
(* same for a hypothesis *)
Ltac split_hyp H :=
  repeat match type of H with
         | context [match ?x with _ => _ end] => destruct x eqn:?; try discriminate H
         end.

(* ====================================================================== *)
(* 1. Fuel monotonicity                                                   *)
(* ====================================================================== *)

Ltac mono_leaf tac :=
  first [ (intros; reflexivity)
        | tac
        | apply bind_mono; [ mono_leaf tac | intros [? ?]; cbv beta iota; mono_leaf tac ] ].

Lemma segs_mono_aux f : forall f', f <= f' -> forall mt nested l,
  segs f mt nested l <> OutOfFuel -> segs f' mt nested l = segs f mt nested l.
Proof.
  induction f as [|f IH]; intros f' Hle mt nested l.
  - cbn [segs]. congruence.
  - destruct f' as [|f']; [lia|].
    assert (Hle' : f <= f') by lia. specialize (IH f' Hle').
    cbn [segs]. split_goal; mono_leaf ltac:(apply IH).
Qed.

Lemma de_mono_aux f :
  (forall f', f <= f' -> forall bud l,
      de f bud l <> OutOfFuel -> de f' bud l = de f bud l) /\
  (forall f', f <= f' -> forall bud cnt l,
      items f bud cnt l <> OutOfFuel -> items f' bud cnt l = items f bud cnt l) /\
  (forall f', f <= f' -> forall bud cnt l,
      entries f bud cnt l <> OutOfFuel -> entries f' bud cnt l = entries f bud cnt l).
Proof.
  induction f as [|f IH].
  - repeat split; intros f' Hle bud; intros; exfalso; auto.
  - destruct IH as (IHde & IHitems & IHentries).
    repeat split; intros f' Hle bud; intros;
      (destruct f' as [|f']; [lia|]);
      assert (Hle' : f <= f') by lia;
      specialize (IHde f' Hle'); specialize (IHitems f' Hle'); specialize (IHentries f' Hle');
      pose proof (segs_mono_aux f f' Hle') as IHsegs;
      match goal with H : _ <> OutOfFuel |- _ => revert H end.
    + cbn [de]; cbv zeta. split_goal;
        mono_leaf ltac:(first [apply IHde | apply IHitems | apply IHentries | apply IHsegs]).
    + cbn [items]. split_goal;
        mono_leaf ltac:(first [apply IHde | apply IHitems | apply IHentries | apply IHsegs]).
    + cbn [entries]. split_goal;
        mono_leaf ltac:(first [apply IHde | apply IHitems | apply IHentries | apply IHsegs]).
Qed.

Lemma segs_fuel_mono : forall f mt nested l r, segs f mt nested l = r -> r <> OutOfFuel ->
  forall f', (f <= f')%nat -> segs f' mt nested l = r.
Proof. intros f mt nested l r <- Hr f' Hle. apply segs_mono_aux; assumption. Qed.

Lemma de_fuel_mono : forall f bud l r, de f bud l = r -> r <> OutOfFuel ->
  forall f', (f <= f')%nat -> de f' bud l = r.
Proof. intros f bud l r <- Hr f' Hle. apply (de_mono_aux f); assumption. Qed.

Lemma items_fuel_mono : forall f bud cnt l r, items f bud cnt l = r -> r <> OutOfFuel ->
  forall f', (f <= f')%nat -> items f' bud cnt l = r.
Proof. intros f bud cnt l r <- Hr f' Hle. apply (de_mono_aux f); assumption. Qed.

Lemma entries_fuel_mono : forall f bud cnt l r, entries f bud cnt l = r -> r <> OutOfFuel ->
  forall f', (f <= f')%nat -> entries f' bud cnt l = r.
Proof. intros f bud cnt l r <- Hr f' Hle. apply (de_mono_aux f); assumption. Qed.

(* ====================================================================== *)
(* 2. Successful parses consume input                                     *)
(* ====================================================================== *)

Lemma takeN_le n l a r : takeN n l = Some (a, r) -> length r <= length l.
Proof. intros H. apply takeN_spec in H as [-> _]. rewrite app_length. lia. Qed.

Lemma dehead_shorter : forall l mt ai arg r,
  dehead l = Some (mt, ai, arg, r) -> (length r < length l)%nat.
Proof.
  intros l mt ai arg r H. unfold dehead in H.
  destruct l as [|b l]; [discriminate|]. cbv zeta in H. cbn [length].
  split_hyp H; inversion H; subst;
    repeat match goal with E : takeN _ _ = Some _ |- _ => apply takeN_le in E end; lia.
Qed.

Ltac facts0 :=
  repeat match goal with
         | E : dehead _ = Some _ |- _ => apply dehead_shorter in E
         | E : takeN _ _ = Some _ |- _ => apply takeN_le in E
         end.

Lemma segs_consumes f : forall mt nested l s r,
  segs f mt nested l = Ok (s, r) -> length r < length l.
Proof.
  induction f as [|f IH]; intros mt nested l s r H; [discriminate|].
  cbn [segs] in H. unfold bind, derr in H.
  split_hyp H; inversion H; subst; facts0;
    repeat match goal with E : segs f _ _ _ = Ok _ |- _ => apply IH in E end; lia.
Qed.

Lemma de_consumes_aux f :
  (forall bud l v r, de f bud l = Ok (v, r) -> length r < length l) /\
  (forall bud cnt l vs r, items f bud cnt l = Ok (vs, r) -> length r <= length l) /\
  (forall bud cnt l m r, entries f bud cnt l = Ok (m, r) -> length r <= length l).
Proof.
  induction f as [|f IH].
  - repeat split; intros; discriminate.
  - destruct IH as (IHde & IHitems & IHentries).
    repeat split; intros bud.
    + intros l v r H. cbn [de] in H. cbv zeta in H. unfold bind, derr in H.
      split_hyp H; inversion H; subst; facts0;
        repeat match goal with
               | E : segs f _ _ _ = Ok _ |- _ => apply segs_consumes in E
               | E : de f _ _ = Ok _ |- _ => apply IHde in E
               | E : items f _ _ _ = Ok _ |- _ => apply IHitems in E
               | E : entries f _ _ _ = Ok _ |- _ => apply IHentries in E
               end; lia.
    + intros cnt l vs r H. cbn [items] in H. unfold bind, derr in H.
      split_hyp H; inversion H; subst; facts0;
        repeat match goal with
               | E : de f _ _ = Ok _ |- _ => apply IHde in E
               | E : items f _ _ _ = Ok _ |- _ => apply IHitems in E
               end; cbn [length] in *; lia.
    + intros cnt l m r H. cbn [entries] in H. unfold bind, derr in H.
      split_hyp H; inversion H; subst; facts0;
        repeat match goal with
               | E : de f _ _ = Ok _ |- _ => apply IHde in E
               | E : entries f _ _ _ = Ok _ |- _ => apply IHentries in E
               end; cbn [length] in *; lia.
Qed.

Lemma de_consumes : forall f bud l v r, de f bud l = Ok (v, r) -> (length r < length l)%nat.
Proof. intros f. apply (de_consumes_aux f). Qed.

Lemma items_consumes : forall f bud cnt l vs r,
  items f bud cnt l = Ok (vs, r) -> (length r <= length l)%nat.
Proof. intros f. apply (de_consumes_aux f). Qed.

Lemma entries_consumes : forall f bud cnt l m r,
  entries f bud cnt l = Ok (m, r) -> (length r <= length l)%nat.
Proof. intros f. apply (de_consumes_aux f). Qed.

(* ====================================================================== *)
(* 3. Fuel sufficiency                                                    *)
(* ====================================================================== *)

Ltac facts :=
  repeat match goal with
         | E : dehead _ = Some _ |- _ => apply dehead_shorter in E
         | E : takeN _ _ = Some _ |- _ => apply takeN_le in E
         | E : segs _ _ _ _ = Ok _ |- _ => apply segs_consumes in E
         | E : de _ _ _ = Ok _ |- _ => apply de_consumes in E
         | E : items _ _ _ _ = Ok _ |- _ => apply items_consumes in E
         | E : entries _ _ _ _ = Ok _ |- _ => apply entries_consumes in E
         end; cbn [length] in *.

Ltac suff_leaf tac :=
  first [ discriminate
        | tac
        | apply bind_not_oof;
          [ suff_leaf tac
          | let a := fresh "a" in let Ha := fresh "Ha" in
            intros a Ha; cbv beta;
            first [ discriminate | destruct a as [? ?]; cbv beta iota; suff_leaf tac ] ] ].

Lemma bignum_not_oof neg c : bignum neg c <> OutOfFuel.
Proof. unfold bignum, derr. split_goal; discriminate. Qed.

Lemma segs_fuel_enough : forall f mt nested l,
  (length l + 1 <= f)%nat -> segs f mt nested l <> OutOfFuel.
Proof.
  induction f as [|f IH]; intros mt nested l Hf; [lia|].
  cbn [segs]. unfold derr. split_goal; suff_leaf ltac:(apply IH; facts; lia).
Qed.

Lemma de_fuel_enough_aux f :
  (forall bud l, 2 * length l + 1 <= f -> de f bud l <> OutOfFuel) /\
  (forall bud cnt l, 2 * length l + 2 <= f -> items f bud cnt l <> OutOfFuel) /\
  (forall bud cnt l, 2 * length l + 2 <= f -> entries f bud cnt l <> OutOfFuel).
Proof.
  induction f as [|f IH].
  - repeat split; intros; lia.
  - destruct IH as (IHde & IHitems & IHentries).
    repeat split; intros bud.
    + intros l Hf. cbn [de]; cbv zeta. unfold derr. split_goal;
        suff_leaf ltac:(first [apply bignum_not_oof | apply IHde | apply IHitems | apply IHentries | apply segs_fuel_enough];
                        facts; lia).
    + intros cnt l Hf. cbn [items]. unfold derr. split_goal;
        suff_leaf ltac:(first [apply bignum_not_oof | apply IHde | apply IHitems | apply IHentries | apply segs_fuel_enough];
                        facts; lia).
    + intros cnt l Hf. cbn [entries]. unfold derr. split_goal;
        suff_leaf ltac:(first [apply bignum_not_oof | apply IHde | apply IHitems | apply IHentries | apply segs_fuel_enough];
                        facts; lia).
Qed.

Lemma de_fuel_enough : forall f bud l, (2 * length l + 1 <= f)%nat -> de f bud l <> OutOfFuel.
Proof. intros f. apply (de_fuel_enough_aux f). Qed.

Lemma items_fuel_enough : forall f bud cnt l,
  (2 * length l + 2 <= f)%nat -> items f bud cnt l <> OutOfFuel.
Proof. intros f. apply (de_fuel_enough_aux f). Qed.

Lemma entries_fuel_enough : forall f bud cnt l,
  (2 * length l + 2 <= f)%nat -> entries f bud cnt l <> OutOfFuel.
Proof. intros f. apply (de_fuel_enough_aux f). Qed.

Corollary from_reader_not_out_of_fuel : forall l, from_reader l <> OutOfFuel.
Proof. intros l. unfold from_reader. apply de_fuel_enough. unfold fuel_of. lia. Qed.

Corollary from_reader_fuel : forall l f, (fuel_of l <= f)%nat ->
  de f RECURSION_LIMIT l = from_reader l.
Proof.
  intros l f Hf. apply (de_fuel_mono (fuel_of l)); [reflexivity| |assumption].
  apply from_reader_not_out_of_fuel.
Qed.

Print Assumptions from_reader_fuel.
Print Assumptions from_reader_not_out_of_fuel.
Print Assumptions de_consumes.
Print Assumptions de_fuel_mono.
