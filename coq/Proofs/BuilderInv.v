(* C19: builders.  Every builder of the crate is modelled in Model/Builders.v as a step function
   `X_builder_step : state -> X_op -> res state`; a call sequence is `run_ops`.
   This file
   (A) gives an independent, record-update specification of the documented effect of every
       HeaderBuilder call and proves that the model's step function refines it, for single calls
       and for all finite call sequences;
   (B) proves the invariants quoted by property C19 over all states / all call sequences:
       no built header carries both IVs, reserved labels are refused with a panic exactly on the
       documented ranges (and appended otherwise), setting a protected header discards retained
       wire bytes, setters replace their own field only, later setters override earlier ones,
       key constructors populate exactly the key type and parameters they name. *)
From Coq Require Import Lia ZifyBool ZifyN ZifyNat.
From Coset.Model Require Import Prelude Cbor Iana Label Msg Key Cwt Context Builders.
From Coset.Spec Require Import IanaRef.
From Coset.Proofs Require Import IanaTables.
Open Scope string_scope. Open Scope Z_scope. Open Scope list_scope.

(* ------------------------------------------------------------------------------------------ *)
(* A. documented effect of a HeaderBuilder call, record-update view                           *)
(* ------------------------------------------------------------------------------------------ *)

(* None = the documented panic ("value() method used to set core header parameter"). *)
Definition header_effect (o : header_op) (h : header) : option header :=
  match h with
  | mkHeader alg crit ctype kid iv piv csigs rest =>
    match o with
    | HO_key_id b => Some (mkHeader alg crit ctype b iv piv csigs rest)
    | HO_algorithm a => Some (mkHeader (Some (PAssigned a)) crit ctype kid iv piv csigs rest)
    | HO_add_critical p => Some (mkHeader alg (crit ++ [RAssigned p]) ctype kid iv piv csigs rest)
    | HO_add_critical_label l => Some (mkHeader alg (crit ++ [l]) ctype kid iv piv csigs rest)
    | HO_content_format cf => Some (mkHeader alg crit (Some (RAssigned cf)) kid iv piv csigs rest)
    | HO_content_type t => Some (mkHeader alg crit (Some (RText t)) kid iv piv csigs rest)
    | HO_iv b => Some (mkHeader alg crit ctype kid b [] csigs rest)
    | HO_partial_iv b => Some (mkHeader alg crit ctype kid [] b csigs rest)
    | HO_add_counter_signature s => Some (mkHeader alg crit ctype kid iv piv (csigs ++ [s]) rest)
    | HO_value l v =>
      if Z_le_dec 1 l then
        if Z_le_dec l 7 then None
        else Some (mkHeader alg crit ctype kid iv piv csigs (rest ++ [(LInt l, v)]))
      else Some (mkHeader alg crit ctype kid iv piv csigs (rest ++ [(LInt l, v)]))
    | HO_text_value l v => Some (mkHeader alg crit ctype kid iv piv csigs (rest ++ [(LText l, v)]))
    end
  end.

Definition lift_effect (r : option header) : res header :=
  match r with Some h' => Ok h' | None => Panic end.

Lemma hdr_alg_const : enum_const "HeaderParameter" "Alg" = 1. Proof. reflexivity. Qed.
Lemma hdr_csig_const : enum_const "HeaderParameter" "CounterSignature" = 7. Proof. reflexivity. Qed.
Lemma cwt_iss_const : enum_const "CwtClaimName" "Iss" = 1. Proof. reflexivity. Qed.
Lemma cwt_cti_const : enum_const "CwtClaimName" "Cti" = 7. Proof. reflexivity. Qed.

(* the reserved-range test of HeaderBuilder::value, as a boolean on literals *)
Lemma header_value_step h l v :
  header_builder_step h (HO_value l v) =
  if (1 <=? l) && (l <=? 7) then Panic else Ok (set_rest (h_rest h ++ [(LInt l, v)]) h).
Proof. reflexivity. Qed.

Theorem header_builder_refines_effect : forall h o,
  header_builder_step h o = match header_effect o h with Some h' => Ok h' | None => Panic end.
Proof.
  intros [alg crit ctype kid iv piv csigs rest] o.
  destruct o as [b|a|p|l|cf|t|b|b|s|l v|l v]; try reflexivity.
  rewrite header_value_step. cbn [header_effect].
  destruct (Z_le_dec 1 l) as [H1|H1]; [destruct (Z_le_dec l 7) as [H2|H2]|].
  - replace ((1 <=? l) && (l <=? 7)) with true by lia. reflexivity.
  - replace ((1 <=? l) && (l <=? 7)) with false by lia. reflexivity.
  - replace ((1 <=? l) && (l <=? 7)) with false by lia. reflexivity.
Qed.

(* sequences: the two folds agree from every intermediate result, hence from Ok h *)
Definition effect_fold (acc : res header) (o : header_op) : res header :=
  match acc with
  | Ok s => match header_effect o s with Some s' => Ok s' | None => Panic end
  | r => r
  end.

Lemma header_fold_agree : forall ops (r : res header),
  fold_left (fun acc o => do s <- acc; header_builder_step s o) ops r = fold_left effect_fold ops r.
Proof.
  induction ops as [|o ops IH]; intros r; [reflexivity|].
  cbn [fold_left]. rewrite IH. f_equal.
  destruct r as [s|e| |]; try reflexivity.
  cbn [bind effect_fold]. apply header_builder_refines_effect.
Qed.

Corollary header_builder_run : forall ops h,
  run_ops header_builder_step ops h =
  fold_left (fun acc o => match acc with
                          | Ok s => match header_effect o s with Some s' => Ok s' | None => Panic end
                          | r => r
                          end) ops (Ok h).
Proof. intros ops h. unfold run_ops. apply header_fold_agree. Qed.

(* ------------------------------------------------------------------------------------------ *)
(* B. invariants over all call sequences                                                      *)
(* ------------------------------------------------------------------------------------------ *)

(* a call sequence stops at the first non-Ok result *)
Lemma fold_stuck {S O} (step : S -> O -> res S) : forall ops (r : res S),
  (forall s, r <> Ok s) ->
  fold_left (fun acc o => do s <- acc; step s o) ops r = r.
Proof.
  induction ops as [|o ops IH]; intros r Hr; [reflexivity|].
  cbn [fold_left]. destruct r as [s|e| |]; try (cbn [bind]; apply IH; intros s; discriminate).
  exfalso. now apply (Hr s).
Qed.

Lemma run_ops_nil {S O} (step : S -> O -> res S) s : run_ops step [] s = Ok s.
Proof. reflexivity. Qed.

Lemma run_ops_cons {S O} (step : S -> O -> res S) o ops s :
  run_ops step (o :: ops) s =
  match step s o with Ok s' => run_ops step ops s' | r => r end.
Proof.
  unfold run_ops. cbn [fold_left bind].
  destruct (step s o) as [s'|e| |]; try reflexivity; apply fold_stuck; intros x; discriminate.
Qed.

(* a generic invariant principle for builders *)
Lemma run_ops_invariant {S O} (step : S -> O -> res S) (P : S -> Prop) :
  (forall s o s', P s -> step s o = Ok s' -> P s') ->
  forall ops s s', P s -> run_ops step ops s = Ok s' -> P s'.
Proof.
  intros Hstep. induction ops as [|o ops IH]; intros s s' Hs.
  - rewrite run_ops_nil. intros [= <-]. exact Hs.
  - rewrite run_ops_cons. destruct (step s o) as [s1|e| |] eqn:E; try discriminate.
    apply IH. eapply Hstep; eauto.
Qed.

Lemma header_step_no_clash : forall h o h',
  iv_clash h = false -> header_builder_step h o = Ok h' -> iv_clash h' = false.
Proof.
  intros [alg crit ctype kid iv piv csigs rest] o h' Hc.
  destruct o as [b|a|p|l|cf|t|b|b|s|l v|l v];
    try (intros [= <-]; exact Hc).
  - intros [= <-]. unfold iv_clash. cbn [set_piv set_iv h_iv h_piv isnil negb]. apply andb_false_r.
  - intros [= <-]. unfold iv_clash. cbn [set_piv set_iv h_iv h_piv isnil negb]. reflexivity.
  - rewrite header_value_step. destruct ((1 <=? l) && (l <=? 7)); [discriminate|].
    intros [= <-]. exact Hc.
Qed.

(* general form: from any start state without a clash *)
Theorem built_header_never_both_ivs_from : forall ops h0 h,
  iv_clash h0 = false -> run_ops header_builder_step ops h0 = Ok h -> iv_clash h = false.
Proof.
  intros ops h0 h. apply (run_ops_invariant header_builder_step (fun x => iv_clash x = false)).
  intros s o s'. apply header_step_no_clash.
Qed.

Theorem built_header_never_both_ivs : forall ops h,
  iv_clash header_default = false ->
  run_ops header_builder_step ops header_default = Ok h -> iv_clash h = false.
Proof. intros ops h. apply built_header_never_both_ivs_from. Qed.

(* HeaderBuilder::new() followed by any calls and build() *)
Corollary built_header_never_both_ivs_new : forall ops h,
  run_ops header_builder_step ops header_default = Ok h -> iv_clash h = false.
Proof. intros ops h. now apply built_header_never_both_ivs. Qed.

(* in particular the two byte strings are never both non-empty *)
Corollary built_header_iv_or_piv_empty : forall ops h,
  run_ops header_builder_step ops header_default = Ok h -> h_iv h = [] \/ h_piv h = [].
Proof.
  intros ops h H. apply built_header_never_both_ivs_new in H. unfold iv_clash in H.
  destruct (h_iv h); [now left|]. destruct (h_piv h); [now right|]. discriminate.
Qed.

(* ---------- reserved labels ---------- *)
Theorem header_value_panics_iff : forall h l v,
  header_builder_step h (HO_value l v) = Panic <-> (1 <= l <= 7)%Z.
Proof.
  intros h l v. rewrite header_value_step.
  destruct ((1 <=? l) && (l <=? 7)) eqn:E; split; intros H; try reflexivity; try discriminate; lia.
Qed.

Theorem header_value_appends : forall h l v, ~ (1 <= l <= 7)%Z ->
  header_builder_step h (HO_value l v) = Ok (set_rest (h_rest h ++ [(LInt l, v)]) h).
Proof.
  intros h l v H. rewrite header_value_step.
  replace ((1 <=? l) && (l <=? 7)) with false by lia. reflexivity.
Qed.

Theorem header_text_value_appends : forall h l v,
  header_builder_step h (HO_text_value l v) = Ok (set_rest (h_rest h ++ [(LText l, v)]) h).
Proof. reflexivity. Qed.

Lemma key_parameter_table :
  T_KeyParameter = [("Reserved", 0); ("Kty", 1); ("Kid", 2); ("Alg", 3); ("KeyOps", 4); ("BaseIv", 5)].
Proof. reflexivity. Qed.

Lemma registered_key_parameter l : registered T_KeyParameter l = true <-> (0 <= l <= 5)%Z.
Proof.
  rewrite key_parameter_table. unfold registered. cbn [from_i64].
  destruct (Z.eqb_spec l 0); [cbn [issome]; lia|].
  destruct (Z.eqb_spec l 1); [cbn [issome]; lia|].
  destruct (Z.eqb_spec l 2); [cbn [issome]; lia|].
  destruct (Z.eqb_spec l 3); [cbn [issome]; lia|].
  destruct (Z.eqb_spec l 4); [cbn [issome]; lia|].
  destruct (Z.eqb_spec l 5); [cbn [issome]; lia|].
  cbn [issome]. split; [discriminate|lia].
Qed.

Lemma key_param_step k l v :
  key_builder_step k (KO_param l v) =
  if registered T_KeyParameter l then Panic else Ok (set_kparams (k_params k ++ [(LInt l, v)]) k).
Proof. reflexivity. Qed.

Theorem key_param_panics_iff : forall k l v,
  key_builder_step k (KO_param l v) = Panic <-> (0 <= l <= 5)%Z.
Proof.
  intros k l v. rewrite key_param_step, <- registered_key_parameter.
  destruct (registered T_KeyParameter l); split; intros H; try reflexivity; discriminate.
Qed.

Theorem key_param_appends : forall k l v, ~ (0 <= l <= 5)%Z ->
  key_builder_step k (KO_param l v) = Ok (set_kparams (k_params k ++ [(LInt l, v)]) k).
Proof.
  intros k l v H. rewrite key_param_step. rewrite <- registered_key_parameter in H.
  destruct (registered T_KeyParameter l); [now exfalso|reflexivity].
Qed.

Definition claims_append (c : claims) (e : regp_label * value) : claims :=
  mkClaims (c_iss c) (c_sub c) (c_aud c) (c_exp c) (c_nbf c) (c_iat c) (c_cti c) (c_rest c ++ [e]).

Lemma claim_step c n v :
  claims_builder_step c (CO_claim n v) =
  if (1 <=? n) && (n <=? 7) then Panic else Ok (claims_append c (PAssigned n, v)).
Proof. reflexivity. Qed.

Theorem claim_panics_iff : forall c n v,
  claims_builder_step c (CO_claim n v) = Panic <-> (1 <= n <= 7)%Z.
Proof.
  intros c n v. rewrite claim_step.
  destruct ((1 <=? n) && (n <=? 7)) eqn:E; split; intros H; try reflexivity; try discriminate; lia.
Qed.

Theorem claim_appends : forall c n v, ~ (1 <= n <= 7)%Z ->
  claims_builder_step c (CO_claim n v) = Ok (claims_append c (PAssigned n, v)).
Proof.
  intros c n v H. rewrite claim_step.
  replace ((1 <=? n) && (n <=? 7)) with false by lia. reflexivity.
Qed.

Theorem text_claim_appends : forall c n v,
  claims_builder_step c (CO_text_claim n v) = Ok (claims_append c (PText n, v)).
Proof. reflexivity. Qed.

Lemma private_claim_step c i v :
  claims_builder_step c (CO_private_claim i v) =
  if negb (i <? -65536) then Panic else Ok (claims_append c (PPrivate i, v)).
Proof.
  assert (E : is_private "CwtClaimName" i = (i <? -65536)).
  { apply is_private_iff. cbn. tauto. }
  rewrite <- E. reflexivity.
Qed.

Theorem private_claim_panics_iff : forall c i v,
  claims_builder_step c (CO_private_claim i v) = Panic <-> ~ (i < -65536)%Z.
Proof.
  intros c i v. rewrite private_claim_step.
  destruct (i <? -65536) eqn:E; cbn [negb]; split; intros H; try reflexivity; try discriminate; lia.
Qed.

Theorem private_claim_appends : forall c i v, (i < -65536)%Z ->
  claims_builder_step c (CO_private_claim i v) = Ok (claims_append c (PPrivate i, v)).
Proof.
  intros c i v H. rewrite private_claim_step.
  replace (i <? -65536) with true by lia. reflexivity.
Qed.

(* ---------- protected-header setters discard retained wire bytes ---------- *)
Theorem protected_setter_discards_wire_bytes :
  (forall s h, exists s', signature_builder_step s (SO_protected h) = Ok s'
      /\ p_orig (s_prot s') = None /\ p_hdr (s_prot s') = h)
  /\ (forall m h, exists m', sign1_builder_step m (S1_protected h) = Ok m'
      /\ p_orig (s1_prot m') = None /\ p_hdr (s1_prot m') = h)
  /\ (forall m h, exists m', sign_builder_step m (SN_protected h) = Ok m'
      /\ p_orig (sn_prot m') = None /\ p_hdr (sn_prot m') = h)
  /\ (forall m h, exists m', mac0_builder_step m (M0_protected h) = Ok m'
      /\ p_orig (m0_prot m') = None /\ p_hdr (m0_prot m') = h)
  /\ (forall m h, exists m', mac_builder_step m (MC_protected h) = Ok m'
      /\ p_orig (mc_prot m') = None /\ p_hdr (mc_prot m') = h)
  /\ (forall m h, exists m', recipient_builder_step m (RO_protected h) = Ok m'
      /\ p_orig (r_prot m') = None /\ p_hdr (r_prot m') = h)
  /\ (forall m h, exists m', encrypt_builder_step m (EO_protected h) = Ok m'
      /\ p_orig (en_prot m') = None /\ p_hdr (en_prot m') = h)
  /\ (forall m h, exists m', encrypt0_builder_step m (E0_protected h) = Ok m'
      /\ p_orig (e0_prot m') = None /\ p_hdr (e0_prot m') = h)
  /\ (forall s h, exists s', supp_builder_step s (UO_protected h) = Ok s'
      /\ p_orig (sp_prot s') = None /\ p_hdr (sp_prot s') = h).
Proof.
  repeat split; intros m h; eexists; (split; [reflexivity|split; reflexivity]).
Qed.

(* even when the previous protected header had retained wire bytes (a decoded message
   used as the starting point), and whatever is called afterwards except another decoder *)
Corollary sign1_protected_drops_original : forall p u pl sg h d,
  p_orig p = Some d ->
  exists m', sign1_builder_step (mkSign1 p u pl sg) (S1_protected h) = Ok m'
             /\ s1_prot m' = mkProtected None h.
Proof. intros. eexists. split; reflexivity. Qed.

(* ---------- frame properties ---------- *)
Theorem sign1_setters_frame :
  (forall m h, exists m', sign1_builder_step m (S1_unprotected h) = Ok m'
      /\ s1_unprot m' = h /\ s1_prot m' = s1_prot m /\ s1_payload m' = s1_payload m
      /\ s1_sig m' = s1_sig m)
  /\ (forall m h, exists m', sign1_builder_step m (S1_protected h) = Ok m'
      /\ s1_prot m' = mkProtected None h /\ s1_unprot m' = s1_unprot m
      /\ s1_payload m' = s1_payload m /\ s1_sig m' = s1_sig m)
  /\ (forall m b, exists m', sign1_builder_step m (S1_payload b) = Ok m'
      /\ s1_payload m' = Some b /\ s1_prot m' = s1_prot m /\ s1_unprot m' = s1_unprot m
      /\ s1_sig m' = s1_sig m)
  /\ (forall m b, exists m', sign1_builder_step m (S1_signature b) = Ok m'
      /\ s1_sig m' = b /\ s1_prot m' = s1_prot m /\ s1_unprot m' = s1_unprot m
      /\ s1_payload m' = s1_payload m).
Proof.
  repeat split; intros m x; eexists; (split; [reflexivity|repeat split]).
Qed.

Theorem mac0_setters_frame :
  (forall m h, exists m', mac0_builder_step m (M0_unprotected h) = Ok m'
      /\ m0_unprot m' = h /\ m0_prot m' = m0_prot m /\ m0_payload m' = m0_payload m
      /\ m0_tag m' = m0_tag m)
  /\ (forall m h, exists m', mac0_builder_step m (M0_protected h) = Ok m'
      /\ m0_prot m' = mkProtected None h /\ m0_unprot m' = m0_unprot m
      /\ m0_payload m' = m0_payload m /\ m0_tag m' = m0_tag m)
  /\ (forall m b, exists m', mac0_builder_step m (M0_payload b) = Ok m'
      /\ m0_payload m' = Some b /\ m0_prot m' = m0_prot m /\ m0_unprot m' = m0_unprot m
      /\ m0_tag m' = m0_tag m)
  /\ (forall m b, exists m', mac0_builder_step m (M0_tag b) = Ok m'
      /\ m0_tag m' = b /\ m0_prot m' = m0_prot m /\ m0_unprot m' = m0_unprot m
      /\ m0_payload m' = m0_payload m).
Proof.
  repeat split; intros m x; eexists; (split; [reflexivity|repeat split]).
Qed.

Theorem encrypt0_setters_frame :
  (forall m h, exists m', encrypt0_builder_step m (E0_unprotected h) = Ok m'
      /\ e0_unprot m' = h /\ e0_prot m' = e0_prot m /\ e0_ct m' = e0_ct m)
  /\ (forall m h, exists m', encrypt0_builder_step m (E0_protected h) = Ok m'
      /\ e0_prot m' = mkProtected None h /\ e0_unprot m' = e0_unprot m /\ e0_ct m' = e0_ct m)
  /\ (forall m b, exists m', encrypt0_builder_step m (E0_ciphertext b) = Ok m'
      /\ e0_ct m' = Some b /\ e0_prot m' = e0_prot m /\ e0_unprot m' = e0_unprot m).
Proof.
  repeat split; intros m x; eexists; (split; [reflexivity|repeat split]).
Qed.

Theorem key_setters_frame :
  (forall k b, exists k', key_builder_step k (KO_key_id b) = Ok k'
      /\ k_kid k' = b /\ k_kty k' = k_kty k /\ k_alg k' = k_alg k /\ k_ops k' = k_ops k
      /\ k_base_iv k' = k_base_iv k /\ k_params k' = k_params k)
  /\ (forall k b, exists k', key_builder_step k (KO_base_iv b) = Ok k'
      /\ k_base_iv k' = b /\ k_kty k' = k_kty k /\ k_kid k' = k_kid k /\ k_alg k' = k_alg k
      /\ k_ops k' = k_ops k /\ k_params k' = k_params k)
  /\ (forall k t, exists k', key_builder_step k (KO_key_type t) = Ok k'
      /\ k_kty k' = RAssigned t /\ k_kid k' = k_kid k /\ k_alg k' = k_alg k /\ k_ops k' = k_ops k
      /\ k_base_iv k' = k_base_iv k /\ k_params k' = k_params k)
  /\ (forall k a, exists k', key_builder_step k (KO_algorithm a) = Ok k'
      /\ k_alg k' = Some (PAssigned a) /\ k_kty k' = k_kty k /\ k_kid k' = k_kid k
      /\ k_ops k' = k_ops k /\ k_base_iv k' = k_base_iv k /\ k_params k' = k_params k).
Proof.
  repeat split; intros k x; eexists; (split; [reflexivity|repeat split]).
Qed.

(* ---------- a later setter overrides an earlier one ---------- *)
Theorem later_setter_overrides :
  (forall m h1 h2,
     (do m1 <- sign1_builder_step m (S1_unprotected h1); sign1_builder_step m1 (S1_unprotected h2))
     = sign1_builder_step m (S1_unprotected h2))
  /\ (forall m b1 b2,
     (do m1 <- sign1_builder_step m (S1_payload b1); sign1_builder_step m1 (S1_payload b2))
     = sign1_builder_step m (S1_payload b2)).
Proof. split; intros; reflexivity. Qed.

(* the same for the two remaining plain setters, and for header fields *)
Theorem later_setter_overrides_more :
  (forall m h1 h2,
     (do m1 <- sign1_builder_step m (S1_protected h1); sign1_builder_step m1 (S1_protected h2))
     = sign1_builder_step m (S1_protected h2))
  /\ (forall m b1 b2,
     (do m1 <- sign1_builder_step m (S1_signature b1); sign1_builder_step m1 (S1_signature b2))
     = sign1_builder_step m (S1_signature b2))
  /\ (forall h b1 b2,
     (do h1 <- header_builder_step h (HO_key_id b1); header_builder_step h1 (HO_key_id b2))
     = header_builder_step h (HO_key_id b2))
  /\ (forall h a1 a2,
     (do h1 <- header_builder_step h (HO_algorithm a1); header_builder_step h1 (HO_algorithm a2))
     = header_builder_step h (HO_algorithm a2))
  /\ (forall h b1 b2,
     (do h1 <- header_builder_step h (HO_iv b1); header_builder_step h1 (HO_partial_iv b2))
     = header_builder_step h (HO_partial_iv b2))
  /\ (forall h b1 b2,
     (do h1 <- header_builder_step h (HO_partial_iv b1); header_builder_step h1 (HO_iv b2))
     = header_builder_step h (HO_iv b2)).
Proof. repeat split; intros; reflexivity. Qed.

(* ---------- key constructors ---------- *)
Theorem key_constructors :
  (forall k c x y, key_builder_step k (KO_new_ec2_pub_key c x y) =
     Ok (mkKey (RAssigned 2) [] None [] []
               [(LInt (-1), VInt c); (LInt (-2), VBytes x); (LInt (-3), VBytes y)]))
  /\ (forall k c x ys, key_builder_step k (KO_new_ec2_pub_key_y_sign c x ys) =
     Ok (mkKey (RAssigned 2) [] None [] []
               [(LInt (-1), VInt c); (LInt (-2), VBytes x); (LInt (-3), VBool ys)]))
  /\ (forall k c x y d, key_builder_step k (KO_new_ec2_priv_key c x y d) =
     Ok (mkKey (RAssigned 2) [] None [] []
               [(LInt (-1), VInt c); (LInt (-2), VBytes x); (LInt (-3), VBytes y);
                (LInt (-4), VBytes d)]))
  /\ (forall k kk, key_builder_step k (KO_new_symmetric_key kk) =
     Ok (mkKey (RAssigned 4) [] None [] [] [(LInt (-1), VBytes kk)]))
  /\ (forall k, key_builder_step k KO_new_okp_key =
     Ok (mkKey (RAssigned 1) [] None [] [] [])).
Proof. repeat split; intros; reflexivity. Qed.

(* ---------- create_signature signs the state at the time of the call ---------- *)
Theorem create_signature_uses_current_state : forall m aad f,
  sign1_builder_step m (S1_create_signature aad f) =
  (do tbs <- Sign1_tbs_data m aad; do sg <- call1 f tbs;
   Ok (mkSign1 (s1_prot m) (s1_unprot m) (s1_payload m) sg)).
Proof. reflexivity. Qed.

Print Assumptions header_builder_refines_effect.
Print Assumptions header_builder_run.
Print Assumptions built_header_never_both_ivs.
Print Assumptions built_header_never_both_ivs_from.
Print Assumptions header_value_panics_iff.
Print Assumptions header_value_appends.
Print Assumptions key_param_panics_iff.
Print Assumptions claim_panics_iff.
Print Assumptions private_claim_panics_iff.
Print Assumptions protected_setter_discards_wire_bytes.
Print Assumptions sign1_setters_frame.
Print Assumptions mac0_setters_frame.
Print Assumptions encrypt0_setters_frame.
Print Assumptions key_setters_frame.
Print Assumptions later_setter_overrides.
Print Assumptions key_constructors.
Print Assumptions create_signature_uses_current_state.
