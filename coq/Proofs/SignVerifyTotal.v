(* C06, total form: for a well-formed built message the encoding step and the decoding step of
   "create, serialise, parse back, verify / decrypt" are conclusions instead of hypotheses.
   Each theorem X_total corresponds to C06_X of Properties/C06.v (proved as X in SignVerify.v):
   the hypotheses `T_to_value m = Ok v` and `T_from_value v = Ok m'` are replaced by `T_bwf m`
   (MsgRoundTrip.v) and `v`, `m'` are existentially quantified in the conclusion.
   - value level: the `wire_ok v` hypothesis of the original is not used by its proof and is dropped;
   - byte level: wire normality of the encoded value stays a hypothesis, in the form
     `forall v, T_to_value m = Ok v -> wire_ok v`, and the bytes are a conclusion as well;
   - the four theorems without an encode / decode step are restated unchanged. *)
From Coq Require Import Lia ZifyBool ZifyN ZifyNat.
From Coset.Model Require Import Prelude Cbor Iana Label Msg Api Builders.
From Coset.Spec Require Import DetCbor Structures.
From Coset.Proofs Require Import Head RoundTrip Structures HeaderRoundTrip MsgRoundTrip SignVerify.
Open Scope list_scope.

(* ====================================================================== *)
(* 0. the value-level theorems of SignVerify.v without `wire_ok v`         *)
(* ====================================================================== *)
(* same proofs as in SignVerify.v, from the exported *_roundtrip_fields lemmas *)

Lemma sign1_sign_then_verify_nowire :
  forall (st : sign1) (aad : bytes) (signer : closure1) (tbs sg : bytes) (m : sign1) (v : value) (m' : sign1)
         (R : Type) (verifier : bytes -> bytes -> R),
    Sign1_tbs_data st aad = Ok tbs -> signer tbs = Some sg ->
    s1_prot m = s1_prot st -> s1_payload m = s1_payload st -> s1_sig m = sg ->
    CoseSign1_to_value m = Ok v -> CoseSign1_from_value v = Ok m' ->
    Sign1_verify_signature m' aad verifier = Ok (verifier sg tbs).
Proof.
  intros st aad signer tbs sg m v m' R verifier Htbs _ Hp Hpl Hsg He Hd.
  destruct (sign1_roundtrip_fields _ _ _ He Hd) as (Ep & Epl & Esg).
  unfold Sign1_verify_signature.
  assert (X : Sign1_tbs_data m' aad = Ok tbs).
  { rewrite <- Htbs. unfold Sign1_tbs_data. rewrite Epl, Hpl.
    apply sig_structure_data_ext; [|exact I]. rewrite Ep, Hp. reflexivity. }
  rewrite X. cbn [bind]. rewrite Esg, Hsg. reflexivity.
Qed.

Lemma sign1_detached_sign_then_verify_nowire :
  forall (st : sign1) (pl aad : bytes) (signer : closure1) (tbs sg : bytes) (m : sign1) (v : value) (m' : sign1)
         (R : Type) (verifier : bytes -> bytes -> R),
    Sign1_tbs_detached_data st pl aad = Ok tbs -> signer tbs = Some sg ->
    s1_prot m = s1_prot st -> s1_payload m = s1_payload st -> s1_sig m = sg ->
    CoseSign1_to_value m = Ok v -> CoseSign1_from_value v = Ok m' ->
    Sign1_verify_detached_signature m' pl aad verifier = Ok (verifier sg tbs).
Proof.
  intros st pl aad signer tbs sg m v m' R verifier Htbs _ Hp Hpl Hsg He Hd.
  destruct (sign1_roundtrip_fields _ _ _ He Hd) as (Ep & Epl & Esg).
  apply tbs_detached_ok in Htbs as [Hn Htbs].
  unfold Sign1_verify_detached_signature.
  assert (X : Sign1_tbs_detached_data m' pl aad = Ok tbs).
  { unfold Sign1_tbs_detached_data. rewrite Epl, Hpl, Hn. cbn [issome]. rewrite <- Htbs.
    apply sig_structure_data_ext; [|exact I]. rewrite Ep, Hp. reflexivity. }
  rewrite X. cbn [bind]. rewrite Esg, Hsg. reflexivity.
Qed.

Lemma sign_sign_then_verify_nowire :
  forall (st : sign) (s : signature) (aad : bytes) (signer : closure1) (tbs sg : bytes) (m : sign) (v : value)
         (m' : sign) (R : Type) (verifier : bytes -> bytes -> R),
    Sign_tbs_data st aad s = Ok tbs -> signer tbs = Some sg ->
    sn_prot m = sn_prot st -> sn_payload m = sn_payload st ->
    sn_sigs m = sn_sigs st ++ [mkSignature (s_prot s) (s_unprot s) sg] ->
    CoseSign_to_value m = Ok v -> CoseSign_from_value v = Ok m' ->
    Sign_verify_signature m' (length (sn_sigs st)) aad verifier = Ok (verifier sg tbs).
Proof.
  intros st s aad signer tbs sg m v m' R verifier Htbs _ Hp Hpl Hsigs He Hd.
  destruct (sign_roundtrip_fields _ _ _ He Hd) as (Ep & Epl & _ & Hnth).
  destruct (Hnth (length (sn_sigs st)) (mkSignature (s_prot s) (s_unprot s) sg)) as (s' & Hs' & Esp & Esg).
  { rewrite Hsigs. apply nth_error_last. }
  cbn [s_prot s_sig] in Esp, Esg.
  unfold Sign_verify_signature. rewrite (nth_res_of_error _ _ _ Hs'). cbn [bind].
  assert (X : Sign_tbs_data m' aad s' = Ok tbs).
  { rewrite <- Htbs. unfold Sign_tbs_data. rewrite Epl, Hpl.
    apply sig_structure_data_ext; [rewrite Ep, Hp; reflexivity|exact Esp]. }
  rewrite X. cbn [bind]. rewrite Esg. reflexivity.
Qed.

Lemma mac0_create_then_verify_nowire :
  forall (st : mac0) (aad : bytes) (tagger : closure1) (tbm tg : bytes) (m : mac0) (v : value) (m' : mac0)
         (R : Type) (verify : bytes -> bytes -> R),
    Mac0_tbm st aad = Ok tbm -> tagger tbm = Some tg ->
    m0_prot m = m0_prot st -> m0_payload m = m0_payload st -> m0_tag m = tg ->
    CoseMac0_to_value m = Ok v -> CoseMac0_from_value v = Ok m' ->
    Mac0_verify_tag m' aad verify = Ok (verify tg tbm).
Proof.
  intros st aad tagger tbm tg m v m' R verify Htbm _ Hp Hpl Htg He Hd.
  destruct (mac0_roundtrip_fields _ _ _ He Hd) as (Ep & Epl & Etg).
  unfold Mac0_verify_tag.
  assert (X : Mac0_tbm m' aad = Ok tbm).
  { rewrite <- Htbm. unfold Mac0_tbm. rewrite Epl, Hpl. destruct (m0_payload st); [|reflexivity].
    apply mac_structure_data_ext. rewrite Ep, Hp. reflexivity. }
  rewrite X. cbn [bind]. rewrite Etg, Htg. reflexivity.
Qed.

Lemma mac_create_then_verify_nowire :
  forall (st : mac) (aad : bytes) (tagger : closure1) (tbm tg : bytes) (m : mac) (v : value) (m' : mac)
         (R : Type) (verify : bytes -> bytes -> R),
    Mac_tbm st aad = Ok tbm -> tagger tbm = Some tg ->
    mc_prot m = mc_prot st -> mc_payload m = mc_payload st -> mc_tag m = tg ->
    CoseMac_to_value m = Ok v -> CoseMac_from_value v = Ok m' ->
    Mac_verify_tag m' aad verify = Ok (verify tg tbm).
Proof.
  intros st aad tagger tbm tg m v m' R verify Htbm _ Hp Hpl Htg He Hd.
  destruct (mac_roundtrip_fields _ _ _ He Hd) as (Ep & Epl & Etg).
  unfold Mac_verify_tag.
  assert (X : Mac_tbm m' aad = Ok tbm).
  { rewrite <- Htbm. unfold Mac_tbm. rewrite Epl, Hpl. destruct (mc_payload st); [|reflexivity].
    apply mac_structure_data_ext. rewrite Ep, Hp. reflexivity. }
  rewrite X. cbn [bind]. rewrite Etg, Htg. reflexivity.
Qed.

Lemma encrypt0_create_then_decrypt_nowire :
  forall (st : encrypt0) (pt aad : bytes) (enc : closure2) (a ct : bytes) (m : encrypt0) (v : value) (m' : encrypt0)
         (R : Type) (cipher : bytes -> bytes -> R),
    enc_structure_data EncCoseEncrypt0 (e0_prot st) aad = Ok a -> enc pt a = Some ct ->
    e0_prot m = e0_prot st -> e0_ct m = Some ct ->
    CoseEncrypt0_to_value m = Ok v -> CoseEncrypt0_from_value v = Ok m' ->
    Encrypt0_decrypt m' aad cipher = Ok (cipher ct a).
Proof.
  intros st pt aad enc a ct m v m' R cipher Ha _ Hp Hct He Hd.
  destruct (encrypt0_roundtrip_fields _ _ _ He Hd) as (Ep & Ect).
  unfold Encrypt0_decrypt. rewrite Ect, Hct.
  rewrite (enc_structure_data_ext _ (e0_prot m') (e0_prot st)) by (rewrite Ep, Hp; reflexivity).
  rewrite Ha. reflexivity.
Qed.

Lemma encrypt_create_then_decrypt_nowire :
  forall (st : encrypt) (pt aad : bytes) (enc : closure2) (a ct : bytes) (m : encrypt) (v : value) (m' : encrypt)
         (R : Type) (cipher : bytes -> bytes -> R),
    enc_structure_data EncCoseEncrypt (en_prot st) aad = Ok a -> enc pt a = Some ct ->
    en_prot m = en_prot st -> en_ct m = Some ct ->
    CoseEncrypt_to_value m = Ok v -> CoseEncrypt_from_value v = Ok m' ->
    Encrypt_decrypt m' aad cipher = Ok (cipher ct a).
Proof.
  intros st pt aad enc a ct m v m' R cipher Ha _ Hp Hct He Hd.
  destruct (encrypt_roundtrip_fields _ _ _ He Hd) as (Ep & Ect).
  unfold Encrypt_decrypt. rewrite Ect, Hct.
  rewrite (enc_structure_data_ext _ (en_prot m') (en_prot st)) by (rewrite Ep, Hp; reflexivity).
  rewrite Ha. reflexivity.
Qed.

Lemma recipient_create_then_decrypt_nowire :
  forall (st : recipient) (c : enc_context) (pt aad : bytes) (enc : closure2) (a ct : bytes) (m : recipient)
         (v : value) (m' : recipient) (R : Type) (cipher : bytes -> bytes -> R),
    is_recipient_context c = true ->
    enc_structure_data c (r_prot st) aad = Ok a -> enc pt a = Some ct ->
    r_prot m = r_prot st -> r_ct m = Some ct ->
    CoseRecipient_to_value m = Ok v -> CoseRecipient_from_value v = Ok m' ->
    Recipient_decrypt m' c aad cipher = Ok (cipher ct a).
Proof.
  intros st c pt aad enc a ct m v m' R cipher Hc Ha _ Hp Hct He Hd.
  destruct (recipient_roundtrip_fields _ _ _ He Hd) as (Ep & Ect).
  unfold Recipient_decrypt. rewrite Ect, Hct, Hc. cbn [negb].
  rewrite (enc_structure_data_ext _ (r_prot m') (r_prot st)) by (rewrite Ep, Hp; reflexivity).
  rewrite Ha. reflexivity.
Qed.

(* ====================================================================== *)
(* 1. value level: encoding and decoding succeed, and the verifier sees    *)
(*    the stored signature and the bytes the signer was given              *)
(* ====================================================================== *)

Theorem sign1_sign_then_verify_total :
  forall (st : sign1) (aad : bytes) (signer : closure1) (tbs sg : bytes) (m : sign1)
         (R : Type) (verifier : bytes -> bytes -> R),
    Sign1_tbs_data st aad = Ok tbs -> signer tbs = Some sg ->
    s1_prot m = s1_prot st -> s1_payload m = s1_payload st -> s1_sig m = sg ->
    CoseSign1_bwf m ->
    exists v m', CoseSign1_to_value m = Ok v /\ CoseSign1_from_value v = Ok m' /\
                 Sign1_verify_signature m' aad verifier = Ok (verifier sg tbs).
Proof.
  intros st aad signer tbs sg m R verifier Ht Hs Hp Hpl Hsg W.
  destruct (CoseSign1_encode_decode m W) as (v & E & D).
  exists v, (assign_CoseSign1 m). split; [exact E|]. split; [exact D|].
  exact (sign1_sign_then_verify_nowire st aad signer tbs sg m v _ R verifier Ht Hs Hp Hpl Hsg E D).
Qed.

Theorem sign1_detached_sign_then_verify_total :
  forall (st : sign1) (pl aad : bytes) (signer : closure1) (tbs sg : bytes) (m : sign1)
         (R : Type) (verifier : bytes -> bytes -> R),
    Sign1_tbs_detached_data st pl aad = Ok tbs -> signer tbs = Some sg ->
    s1_prot m = s1_prot st -> s1_payload m = s1_payload st -> s1_sig m = sg ->
    CoseSign1_bwf m ->
    exists v m', CoseSign1_to_value m = Ok v /\ CoseSign1_from_value v = Ok m' /\
                 Sign1_verify_detached_signature m' pl aad verifier = Ok (verifier sg tbs).
Proof.
  intros st pl aad signer tbs sg m R verifier Ht Hs Hp Hpl Hsg W.
  destruct (CoseSign1_encode_decode m W) as (v & E & D).
  exists v, (assign_CoseSign1 m). split; [exact E|]. split; [exact D|].
  exact (sign1_detached_sign_then_verify_nowire st pl aad signer tbs sg m v _ R verifier Ht Hs Hp Hpl Hsg E D).
Qed.

Theorem sign_sign_then_verify_total :
  forall (st : sign) (s : signature) (aad : bytes) (signer : closure1) (tbs sg : bytes) (m : sign)
         (R : Type) (verifier : bytes -> bytes -> R),
    Sign_tbs_data st aad s = Ok tbs -> signer tbs = Some sg ->
    sn_prot m = sn_prot st -> sn_payload m = sn_payload st ->
    sn_sigs m = sn_sigs st ++ [mkSignature (s_prot s) (s_unprot s) sg] ->
    CoseSign_bwf m ->
    exists v m', CoseSign_to_value m = Ok v /\ CoseSign_from_value v = Ok m' /\
                 Sign_verify_signature m' (length (sn_sigs st)) aad verifier = Ok (verifier sg tbs).
Proof.
  intros st s aad signer tbs sg m R verifier Ht Hs Hp Hpl Hsigs W.
  destruct (CoseSign_encode_decode m W) as (v & E & D).
  exists v, (assign_CoseSign m). split; [exact E|]. split; [exact D|].
  exact (sign_sign_then_verify_nowire st s aad signer tbs sg m v _ R verifier Ht Hs Hp Hpl Hsigs E D).
Qed.

Theorem mac0_create_then_verify_total :
  forall (st : mac0) (aad : bytes) (tagger : closure1) (tbm tg : bytes) (m : mac0)
         (R : Type) (verify : bytes -> bytes -> R),
    Mac0_tbm st aad = Ok tbm -> tagger tbm = Some tg ->
    m0_prot m = m0_prot st -> m0_payload m = m0_payload st -> m0_tag m = tg ->
    CoseMac0_bwf m ->
    exists v m', CoseMac0_to_value m = Ok v /\ CoseMac0_from_value v = Ok m' /\
                 Mac0_verify_tag m' aad verify = Ok (verify tg tbm).
Proof.
  intros st aad tagger tbm tg m R verify Ht Hs Hp Hpl Htg W.
  destruct (CoseMac0_encode_decode m W) as (v & E & D).
  exists v, (assign_CoseMac0 m). split; [exact E|]. split; [exact D|].
  exact (mac0_create_then_verify_nowire st aad tagger tbm tg m v _ R verify Ht Hs Hp Hpl Htg E D).
Qed.

Theorem mac_create_then_verify_total :
  forall (st : mac) (aad : bytes) (tagger : closure1) (tbm tg : bytes) (m : mac)
         (R : Type) (verify : bytes -> bytes -> R),
    Mac_tbm st aad = Ok tbm -> tagger tbm = Some tg ->
    mc_prot m = mc_prot st -> mc_payload m = mc_payload st -> mc_tag m = tg ->
    CoseMac_bwf m ->
    exists v m', CoseMac_to_value m = Ok v /\ CoseMac_from_value v = Ok m' /\
                 Mac_verify_tag m' aad verify = Ok (verify tg tbm).
Proof.
  intros st aad tagger tbm tg m R verify Ht Hs Hp Hpl Htg W.
  destruct (CoseMac_encode_decode m W) as (v & E & D).
  exists v, (assign_CoseMac m). split; [exact E|]. split; [exact D|].
  exact (mac_create_then_verify_nowire st aad tagger tbm tg m v _ R verify Ht Hs Hp Hpl Htg E D).
Qed.

Theorem encrypt0_create_then_decrypt_total :
  forall (st : encrypt0) (pt aad : bytes) (enc : closure2) (a ct : bytes) (m : encrypt0)
         (R : Type) (cipher : bytes -> bytes -> R),
    enc_structure_data EncCoseEncrypt0 (e0_prot st) aad = Ok a -> enc pt a = Some ct ->
    e0_prot m = e0_prot st -> e0_ct m = Some ct ->
    CoseEncrypt0_bwf m ->
    exists v m', CoseEncrypt0_to_value m = Ok v /\ CoseEncrypt0_from_value v = Ok m' /\
                 Encrypt0_decrypt m' aad cipher = Ok (cipher ct a).
Proof.
  intros st pt aad enc a ct m R cipher Ha Hs Hp Hct W.
  destruct (CoseEncrypt0_encode_decode m W) as (v & E & D).
  exists v, (assign_CoseEncrypt0 m). split; [exact E|]. split; [exact D|].
  exact (encrypt0_create_then_decrypt_nowire st pt aad enc a ct m v _ R cipher Ha Hs Hp Hct E D).
Qed.

Theorem encrypt_create_then_decrypt_total :
  forall (st : encrypt) (pt aad : bytes) (enc : closure2) (a ct : bytes) (m : encrypt)
         (R : Type) (cipher : bytes -> bytes -> R),
    enc_structure_data EncCoseEncrypt (en_prot st) aad = Ok a -> enc pt a = Some ct ->
    en_prot m = en_prot st -> en_ct m = Some ct ->
    CoseEncrypt_bwf m ->
    exists v m', CoseEncrypt_to_value m = Ok v /\ CoseEncrypt_from_value v = Ok m' /\
                 Encrypt_decrypt m' aad cipher = Ok (cipher ct a).
Proof.
  intros st pt aad enc a ct m R cipher Ha Hs Hp Hct W.
  destruct (CoseEncrypt_encode_decode m W) as (v & E & D).
  exists v, (assign_CoseEncrypt m). split; [exact E|]. split; [exact D|].
  exact (encrypt_create_then_decrypt_nowire st pt aad enc a ct m v _ R cipher Ha Hs Hp Hct E D).
Qed.

Theorem recipient_create_then_decrypt_total :
  forall (st : recipient) (c : enc_context) (pt aad : bytes) (enc : closure2) (a ct : bytes) (m : recipient)
         (R : Type) (cipher : bytes -> bytes -> R),
    is_recipient_context c = true ->
    enc_structure_data c (r_prot st) aad = Ok a -> enc pt a = Some ct ->
    r_prot m = r_prot st -> r_ct m = Some ct ->
    CoseRecipient_bwf m ->
    exists v m', CoseRecipient_to_value m = Ok v /\ CoseRecipient_from_value v = Ok m' /\
                 Recipient_decrypt m' c aad cipher = Ok (cipher ct a).
Proof.
  intros st c pt aad enc a ct m R cipher Hc Ha Hs Hp Hct W.
  destruct (CoseRecipient_encode_decode m W) as (v & E & D).
  exists v, (assign_CoseRecipient m). split; [exact E|]. split; [exact D|].
  exact (recipient_create_then_decrypt_nowire st c pt aad enc a ct m v _ R cipher Hc Ha Hs Hp Hct E D).
Qed.

(* ====================================================================== *)
(* 2. byte level: the bytes exist, they parse, and the same holds          *)
(* ====================================================================== *)
Section BytesTotal.
  Context {T : Type}.
  Variable fromv : value -> res T.
  Variable tov : T -> res value.

  Lemma untagged_bytes_exist x v y :
    tov x = Ok v -> wire_ok v -> fromv v = Ok y ->
    to_vec tov x = Ok (ser v) /\ from_slice fromv (ser v) = Ok y.
  Proof.
    intros Hv [NF D] Hy. unfold to_vec, from_slice. rewrite Hv. cbn [bind]. split; [reflexivity|].
    rewrite (SignVerify.read_back v NF) by lia. exact Hy.
  Qed.

  Lemma tagged_bytes_exist TAG x v y :
    (TAG < p64)%N -> TAG <> 2%N -> TAG <> 3%N ->
    tov x = Ok v -> wire_ok v -> fromv v = Ok y ->
    to_tagged_vec tov TAG x = Ok (ser (VTag TAG v)) /\ from_tagged_slice fromv TAG (ser (VTag TAG v)) = Ok y.
  Proof.
    intros Ht T2 T3 Hv W Hy. unfold to_tagged_vec, from_tagged_slice. rewrite Hv. cbn [bind]. split; [reflexivity|].
    destruct (wire_ok_tagged TAG v Ht T2 T3 W) as [NF D].
    rewrite (read_back_tagged TAG v NF D). cbn [bind]. rewrite N.eqb_refl. exact Hy.
  Qed.
End BytesTotal.

Theorem sign1_roundtrip_bytes_total :
  forall (st : sign1) (aad : bytes) (signer : closure1) (tbs sg : bytes) (m : sign1)
         (R : Type) (verifier : bytes -> bytes -> R),
    Sign1_tbs_data st aad = Ok tbs -> signer tbs = Some sg ->
    s1_prot m = s1_prot st -> s1_payload m = s1_payload st -> s1_sig m = sg ->
    CoseSign1_bwf m -> (forall v, CoseSign1_to_value m = Ok v -> wire_ok v) ->
    exists b m', to_vec CoseSign1_to_value m = Ok b /\ from_slice CoseSign1_from_value b = Ok m' /\
                 Sign1_verify_signature m' aad verifier = Ok (verifier sg tbs).
Proof.
  intros st aad signer tbs sg m R verifier Ht Hs Hp Hpl Hsg W HW.
  destruct (CoseSign1_encode_decode m W) as (v & E & D).
  destruct (untagged_bytes_exist CoseSign1_from_value CoseSign1_to_value m v _ E (HW v E) D) as [Hb Hd].
  exists (ser v), (assign_CoseSign1 m). split; [exact Hb|]. split; [exact Hd|].
  exact (sign1_sign_then_verify_nowire st aad signer tbs sg m v _ R verifier Ht Hs Hp Hpl Hsg E D).
Qed.

Theorem sign1_roundtrip_tagged_bytes_total :
  forall (st : sign1) (aad : bytes) (signer : closure1) (tbs sg : bytes) (m : sign1)
         (R : Type) (verifier : bytes -> bytes -> R),
    Sign1_tbs_data st aad = Ok tbs -> signer tbs = Some sg ->
    s1_prot m = s1_prot st -> s1_payload m = s1_payload st -> s1_sig m = sg ->
    CoseSign1_bwf m -> (forall v, CoseSign1_to_value m = Ok v -> wire_ok v) ->
    exists b m', to_tagged_vec CoseSign1_to_value (tag_of "CoseSign1") m = Ok b /\
                 from_tagged_slice CoseSign1_from_value (tag_of "CoseSign1") b = Ok m' /\
                 Sign1_verify_signature m' aad verifier = Ok (verifier sg tbs).
Proof.
  intros st aad signer tbs sg m R verifier Ht Hs Hp Hpl Hsg W HW.
  destruct (CoseSign1_encode_decode m W) as (v & E & D).
  destruct (tag_generic "CoseSign1") as (A & B & C); [cbn [In]; tauto|].
  destruct (tagged_bytes_exist CoseSign1_from_value CoseSign1_to_value _ m v _ A B C E (HW v E) D) as [Hb Hd].
  exists (ser (VTag (tag_of "CoseSign1") v)), (assign_CoseSign1 m). split; [exact Hb|]. split; [exact Hd|].
  exact (sign1_sign_then_verify_nowire st aad signer tbs sg m v _ R verifier Ht Hs Hp Hpl Hsg E D).
Qed.

(* ====================================================================== *)
(* 3. theorems of C06 without an encode / decode step: unchanged           *)
(* ====================================================================== *)
Theorem failing_creator_yields_no_message_total :
  forall st aad f tbs,
  Sign1_tbs_data st aad = Ok tbs -> f tbs = None ->
  sign1_builder_step st (S1_try_create_signature aad f) = Err EEncode.
Proof. exact failing_creator_yields_no_message. Qed.

Theorem tbs_sensitive_total :
  forall c b s aad pl c' b' s' aad' pl',
  short b -> (forall x, s = Some x -> short x) -> short aad -> short pl ->
  short b' -> (forall x, s' = Some x -> short x) -> short aad' -> short pl' ->
  (c, b, s, aad, pl) <> (c', b', s', aad', pl') ->
  sig_structure c b s aad pl <> sig_structure c' b' s' aad' pl'.
Proof. exact tbs_sensitive. Qed.

Theorem tbm_sensitive_total :
  forall c p aad pl c' p' aad' pl',
  short p -> short aad -> short pl -> short p' -> short aad' -> short pl' ->
  (c, p, aad, pl) <> (c', p', aad', pl') ->
  mac_structure c p aad pl <> mac_structure c' p' aad' pl'.
Proof. exact tbm_sensitive. Qed.

Theorem aad_sensitive_total :
  forall c p aad c' p' aad',
  short p -> short aad -> short p' -> short aad' ->
  (c, p, aad) <> (c', p', aad') ->
  enc_structure c p aad <> enc_structure c' p' aad'.
Proof. exact aad_sensitive. Qed.

(* ====================================================================== *)
(* 4. non-vacuity: one concrete run per family                             *)
(* ====================================================================== *)
Lemma nest_limit_pos : (0 < nest_limit)%nat.
Proof. apply Nat.ltb_lt. vm_compute. reflexivity. Qed.

Lemma flat_wf_intro h : alg_ok (h_alg h) -> crit_ok (h_crit h) -> ctype_ok (h_ctype h) ->
  iv_clash h = false -> rest_ok (h_rest h) -> flat_wf h.
Proof. unfold flat_wf. auto. Qed.

Lemma bwf_flat n h : h_csigs h = [] -> flat_wf h -> bwf n h.
Proof. intros C W. rewrite bwf_eq, C. split; [exact W|exact I]. Qed.

(* a protected header built in memory (no bytes yet) without counter-signatures *)
Lemma pbwf_fresh h : h_csigs h = [] -> flat_wf h ->
  (forall v', header_to_value h = Ok v' -> value_nf v' = true /\ (depth v' <= 256)%nat) ->
  pbwf nest_limit (mkProtected None h).
Proof.
  intros C W NF. rewrite pbwf_eq. cbn [p_orig p_hdr]. right.
  pose proof nest_limit_pos as NL. destruct nest_limit as [|n]; [lia|].
  split; [now apply bwf_flat|exact NF].
Qed.

Ltac concrete_wire E :=
  vm_compute in E; injection E as <-; split; [vm_compute; reflexivity|apply Nat.leb_le; vm_compute; reflexivity].

(* protected: alg = ES256 (-7), content type text "a/b", one critical label, one extra parameter *)
Definition ex_prot_hdr : header :=
  mkHeader (Some (PAssigned (-7))) [RAssigned 4] (Some (RText [x61; x2f; x62])) [] [] [] [] [(LInt 100, VInt 1)].
Definition ex_prot : protected := mkProtected None ex_prot_hdr.
(* unprotected: key id "11", IV *)
Definition ex_unprot : header := mkHeader None [] None [x31; x31] [x09; x0a] [] [] [].
(* protected: alg = A128GCM (1) *)
Definition ex_prot_enc : protected := mkProtected None (mkHeader (Some (PAssigned 1)) [] None [] [] [] [] []).

Lemma ex_prot_pbwf : pbwf nest_limit ex_prot.
Proof.
  apply pbwf_fresh; [reflexivity| |].
  - apply flat_wf_intro; cbn [ex_prot_hdr h_alg h_crit h_ctype h_rest].
    + vm_compute. reflexivity.
    + constructor; [vm_compute; reflexivity|constructor].
    + vm_compute. reflexivity.
    + reflexivity.
    + split.
      * cbn [map fst]. constructor; [intros []|constructor].
      * constructor; [split; vm_compute; reflexivity|constructor].
  - intros v' E. vm_compute in E. injection E as <-.
    split; [vm_compute; reflexivity|apply Nat.leb_le; vm_compute; reflexivity].
Qed.

Lemma ex_unprot_bwf : bwf nest_limit ex_unprot.
Proof.
  apply bwf_flat; [reflexivity|]. apply flat_wf_intro; cbn [ex_unprot h_alg h_crit h_ctype h_rest].
  - exact I.
  - constructor.
  - exact I.
  - reflexivity.
  - split; constructor.
Qed.

Lemma ex_prot_enc_pbwf : pbwf nest_limit ex_prot_enc.
Proof.
  apply pbwf_fresh; [reflexivity| |].
  - apply flat_wf_intro; cbn [h_alg h_crit h_ctype h_rest].
    + vm_compute. reflexivity.
    + constructor.
    + exact I.
    + reflexivity.
    + split; constructor.
  - intros v' E. vm_compute in E. injection E as <-.
    split; [vm_compute; reflexivity|apply Nat.leb_le; vm_compute; reflexivity].
Qed.

Lemma header_default_bwf : bwf nest_limit header_default.
Proof.
  apply bwf_flat; [reflexivity|]. apply flat_wf_intro; cbn [header_default h_alg h_crit h_ctype h_rest].
  - exact I.
  - constructor.
  - exact I.
  - reflexivity.
  - split; constructor.
Qed.

(* COSE_Sign1: builder state with protected / unprotected / payload set, signer = reverse;
   value level, untagged bytes and tagged bytes *)
Example sign1_total_example :
  let st := mkSign1 ex_prot ex_unprot (Some [x70; x71]) [] in
  let aad := [x01; x02] in
  let signer : closure1 := fun tbs => Some (rev tbs) in
  exists tbs m,
    Sign1_tbs_data st aad = Ok tbs /\
    sign1_builder_step st (S1_create_signature aad signer) = Ok m /\
    (exists v m', CoseSign1_to_value m = Ok v /\ CoseSign1_from_value v = Ok m' /\
                  Sign1_verify_signature m' aad (@pair bytes bytes) = Ok (rev tbs, tbs)) /\
    (exists b m', to_vec CoseSign1_to_value m = Ok b /\ from_slice CoseSign1_from_value b = Ok m' /\
                  Sign1_verify_signature m' aad (@pair bytes bytes) = Ok (rev tbs, tbs)) /\
    (exists b m', to_tagged_vec CoseSign1_to_value (tag_of "CoseSign1") m = Ok b /\
                  from_tagged_slice CoseSign1_from_value (tag_of "CoseSign1") b = Ok m' /\
                  Sign1_verify_signature m' aad (@pair bytes bytes) = Ok (rev tbs, tbs)).
Proof.
  intros st aad signer.
  match eval vm_compute in (Sign1_tbs_data st aad) with Ok ?t => pose (tbs := t) end.
  assert (Ht : Sign1_tbs_data st aad = Ok tbs) by (vm_compute; reflexivity).
  pose (m := mkSign1 ex_prot ex_unprot (Some [x70; x71]) (rev tbs)).
  assert (W : CoseSign1_bwf m) by (split; [exact ex_prot_pbwf|exact ex_unprot_bwf]).
  assert (HW : forall v, CoseSign1_to_value m = Ok v -> wire_ok v) by (intros v E; concrete_wire E).
  exists tbs, m. split; [exact Ht|]. split; [vm_compute; reflexivity|]. split; [|split].
  - exact (sign1_sign_then_verify_total st aad signer tbs (rev tbs) m _ pair Ht eq_refl eq_refl eq_refl eq_refl W).
  - exact (sign1_roundtrip_bytes_total st aad signer tbs (rev tbs) m _ pair Ht eq_refl eq_refl eq_refl eq_refl W HW).
  - exact (sign1_roundtrip_tagged_bytes_total st aad signer tbs (rev tbs) m _ pair Ht eq_refl eq_refl eq_refl eq_refl W HW).
Qed.

(* COSE_Sign1, detached payload: no payload in the message, the payload is supplied at both ends *)
Example sign1_detached_total_example :
  let st := mkSign1 ex_prot ex_unprot None [] in
  let pl := [x70; x71; x72] in
  let aad := [x01] in
  let signer : closure1 := fun tbs => Some (rev tbs) in
  exists tbs m,
    Sign1_tbs_detached_data st pl aad = Ok tbs /\
    sign1_builder_step st (S1_create_detached_signature pl aad signer) = Ok m /\
    exists v m', CoseSign1_to_value m = Ok v /\ CoseSign1_from_value v = Ok m' /\
                 Sign1_verify_detached_signature m' pl aad (@pair bytes bytes) = Ok (rev tbs, tbs).
Proof.
  intros st pl aad signer.
  match eval vm_compute in (Sign1_tbs_detached_data st pl aad) with Ok ?t => pose (tbs := t) end.
  assert (Ht : Sign1_tbs_detached_data st pl aad = Ok tbs) by (vm_compute; reflexivity).
  pose (m := mkSign1 ex_prot ex_unprot None (rev tbs)).
  assert (W : CoseSign1_bwf m) by (split; [exact ex_prot_pbwf|exact ex_unprot_bwf]).
  exists tbs, m. split; [exact Ht|]. split; [vm_compute; reflexivity|].
  exact (sign1_detached_sign_then_verify_total st pl aad signer tbs (rev tbs) m _ pair Ht eq_refl eq_refl eq_refl eq_refl W).
Qed.

(* COSE_Sign: one signature is already there, a second one is created and found at index 1 *)
Example sign_total_example :
  let s0 := mkSignature ex_prot_enc header_default [xaa; xbb] in
  let st := mkSign ex_prot ex_unprot (Some [x70; x71]) [s0] in
  let s := mkSignature ex_prot ex_unprot [] in
  let aad := [x01; x02] in
  let signer : closure1 := fun tbs => Some (rev tbs) in
  exists tbs m,
    Sign_tbs_data st aad s = Ok tbs /\
    sign_builder_step st (SN_add_created_signature s aad signer) = Ok m /\
    exists v m', CoseSign_to_value m = Ok v /\ CoseSign_from_value v = Ok m' /\
                 Sign_verify_signature m' 1 aad (@pair bytes bytes) = Ok (rev tbs, tbs).
Proof.
  intros s0 st s aad signer.
  match eval vm_compute in (Sign_tbs_data st aad s) with Ok ?t => pose (tbs := t) end.
  assert (Ht : Sign_tbs_data st aad s = Ok tbs) by (vm_compute; reflexivity).
  pose (m := mkSign ex_prot ex_unprot (Some [x70; x71]) ([s0] ++ [mkSignature (s_prot s) (s_unprot s) (rev tbs)])).
  assert (W : CoseSign_bwf m).
  { split; [exact ex_prot_pbwf|]. split; [exact ex_unprot_bwf|].
    cbn [m sn_sigs app Retained.All]. split; [|split; [|exact I]]; rewrite sbwf_eq; cbn [s_prot s_unprot s0 s].
    - split; [exact ex_prot_enc_pbwf|exact header_default_bwf].
    - split; [exact ex_prot_pbwf|exact ex_unprot_bwf]. }
  exists tbs, m. split; [exact Ht|]. split; [vm_compute; reflexivity|].
  exact (sign_sign_then_verify_total st s aad signer tbs (rev tbs) m _ pair Ht eq_refl eq_refl eq_refl eq_refl W).
Qed.

(* COSE_Mac0 *)
Example mac0_total_example :
  let st := mkMac0 ex_prot_enc ex_unprot (Some [x70; x71]) [] in
  let aad := [x03] in
  let tagger : closure1 := fun tbm => Some (rev tbm) in
  exists tbm m,
    Mac0_tbm st aad = Ok tbm /\
    mac0_builder_step st (M0_create_tag aad tagger) = Ok m /\
    exists v m', CoseMac0_to_value m = Ok v /\ CoseMac0_from_value v = Ok m' /\
                 Mac0_verify_tag m' aad (@pair bytes bytes) = Ok (rev tbm, tbm).
Proof.
  intros st aad tagger.
  match eval vm_compute in (Mac0_tbm st aad) with Ok ?t => pose (tbm := t) end.
  assert (Ht : Mac0_tbm st aad = Ok tbm) by (vm_compute; reflexivity).
  pose (m := mkMac0 ex_prot_enc ex_unprot (Some [x70; x71]) (rev tbm)).
  assert (W : CoseMac0_bwf m) by (split; [exact ex_prot_enc_pbwf|exact ex_unprot_bwf]).
  exists tbm, m. split; [exact Ht|]. split; [vm_compute; reflexivity|].
  exact (mac0_create_then_verify_total st aad tagger tbm (rev tbm) m _ pair Ht eq_refl eq_refl eq_refl eq_refl W).
Qed.

(* a recipient with a nested recipient, both with headers built in memory *)
Definition ex_recipient : recipient :=
  mkRecipient ex_prot_enc ex_unprot (Some [xc0; xc1])
    [mkRecipient (mkProtected None header_default) header_default None []].

Lemma ex_recipient_bwf : CoseRecipient_bwf ex_recipient.
Proof.
  unfold ex_recipient. rewrite CoseRecipient_bwf_eq. cbn [r_prot r_unprot r_recipients].
  split; [exact ex_prot_enc_pbwf|]. split; [exact ex_unprot_bwf|].
  cbn [Retained.All]. split; [|exact I]. rewrite CoseRecipient_bwf_eq. cbn [r_prot r_unprot r_recipients].
  split; [|split; [exact header_default_bwf|exact I]].
  rewrite pbwf_eq. cbn [p_orig p_hdr]. left. reflexivity.
Qed.

(* COSE_Mac with a recipient *)
Example mac_total_example :
  let st := mkMac ex_prot_enc ex_unprot (Some [x70; x71]) [] [ex_recipient] in
  let aad := [x03; x04] in
  let tagger : closure1 := fun tbm => Some (rev tbm) in
  exists tbm m,
    Mac_tbm st aad = Ok tbm /\
    mac_builder_step st (MC_create_tag aad tagger) = Ok m /\
    exists v m', CoseMac_to_value m = Ok v /\ CoseMac_from_value v = Ok m' /\
                 Mac_verify_tag m' aad (@pair bytes bytes) = Ok (rev tbm, tbm).
Proof.
  intros st aad tagger.
  match eval vm_compute in (Mac_tbm st aad) with Ok ?t => pose (tbm := t) end.
  assert (Ht : Mac_tbm st aad = Ok tbm) by (vm_compute; reflexivity).
  pose (m := mkMac ex_prot_enc ex_unprot (Some [x70; x71]) (rev tbm) [ex_recipient]).
  assert (W : CoseMac_bwf m).
  { split; [exact ex_prot_enc_pbwf|]. split; [exact ex_unprot_bwf|]. split; [exact ex_recipient_bwf|exact I]. }
  exists tbm, m. split; [exact Ht|]. split; [vm_compute; reflexivity|].
  exact (mac_create_then_verify_total st aad tagger tbm (rev tbm) m _ pair Ht eq_refl eq_refl eq_refl eq_refl W).
Qed.

(* COSE_Encrypt0: "cipher" = plaintext followed by the reversed AAD structure *)
Example encrypt0_total_example :
  let st := mkEncrypt0 ex_prot_enc ex_unprot None in
  let pt := [x70; x71] in
  let aad := [x05] in
  let enc : closure2 := fun pt a => Some (pt ++ rev a) in
  exists a m,
    enc_structure_data EncCoseEncrypt0 (e0_prot st) aad = Ok a /\
    encrypt0_builder_step st (E0_create_ciphertext pt aad enc) = Ok m /\
    exists v m', CoseEncrypt0_to_value m = Ok v /\ CoseEncrypt0_from_value v = Ok m' /\
                 Encrypt0_decrypt m' aad (@pair bytes bytes) = Ok (pt ++ rev a, a).
Proof.
  intros st pt aad enc.
  match eval vm_compute in (enc_structure_data EncCoseEncrypt0 (e0_prot st) aad) with Ok ?t => pose (a := t) end.
  assert (Ha : enc_structure_data EncCoseEncrypt0 (e0_prot st) aad = Ok a) by (vm_compute; reflexivity).
  pose (m := mkEncrypt0 ex_prot_enc ex_unprot (Some (pt ++ rev a))).
  assert (W : CoseEncrypt0_bwf m) by (split; [exact ex_prot_enc_pbwf|exact ex_unprot_bwf]).
  exists a, m. split; [exact Ha|]. split; [vm_compute; reflexivity|].
  exact (encrypt0_create_then_decrypt_total st pt aad enc a (pt ++ rev a) m _ pair Ha eq_refl eq_refl eq_refl W).
Qed.

(* COSE_Encrypt with a recipient *)
Example encrypt_total_example :
  let st := mkEncrypt ex_prot_enc ex_unprot None [ex_recipient] in
  let pt := [x70; x71] in
  let aad := [x05; x06] in
  let enc : closure2 := fun pt a => Some (pt ++ rev a) in
  exists a m,
    enc_structure_data EncCoseEncrypt (en_prot st) aad = Ok a /\
    encrypt_builder_step st (EO_create_ciphertext pt aad enc) = Ok m /\
    exists v m', CoseEncrypt_to_value m = Ok v /\ CoseEncrypt_from_value v = Ok m' /\
                 Encrypt_decrypt m' aad (@pair bytes bytes) = Ok (pt ++ rev a, a).
Proof.
  intros st pt aad enc.
  match eval vm_compute in (enc_structure_data EncCoseEncrypt (en_prot st) aad) with Ok ?t => pose (a := t) end.
  assert (Ha : enc_structure_data EncCoseEncrypt (en_prot st) aad = Ok a) by (vm_compute; reflexivity).
  pose (m := mkEncrypt ex_prot_enc ex_unprot (Some (pt ++ rev a)) [ex_recipient]).
  assert (W : CoseEncrypt_bwf m).
  { split; [exact ex_prot_enc_pbwf|]. split; [exact ex_unprot_bwf|]. split; [exact ex_recipient_bwf|exact I]. }
  exists a, m. split; [exact Ha|]. split; [vm_compute; reflexivity|].
  exact (encrypt_create_then_decrypt_total st pt aad enc a (pt ++ rev a) m _ pair Ha eq_refl eq_refl eq_refl W).
Qed.

(* COSE_recipient (with a nested recipient), context Rec_Recipient *)
Example recipient_total_example :
  let st := mkRecipient ex_prot_enc ex_unprot None (r_recipients ex_recipient) in
  let c := EncRecRecipient in
  let pt := [x6b; x65; x79] in
  let aad := [x07] in
  let enc : closure2 := fun pt a => Some (pt ++ rev a) in
  exists a m,
    enc_structure_data c (r_prot st) aad = Ok a /\
    recipient_builder_step st (RO_create_ciphertext c pt aad enc) = Ok m /\
    exists v m', CoseRecipient_to_value m = Ok v /\ CoseRecipient_from_value v = Ok m' /\
                 Recipient_decrypt m' c aad (@pair bytes bytes) = Ok (pt ++ rev a, a).
Proof.
  intros st c pt aad enc.
  match eval vm_compute in (enc_structure_data c (r_prot st) aad) with Ok ?t => pose (a := t) end.
  assert (Ha : enc_structure_data c (r_prot st) aad = Ok a) by (vm_compute; reflexivity).
  pose (m := mkRecipient ex_prot_enc ex_unprot (Some (pt ++ rev a)) (r_recipients ex_recipient)).
  assert (W : CoseRecipient_bwf m).
  { pose proof ex_recipient_bwf as X. rewrite CoseRecipient_bwf_eq in X. destruct X as (X1 & X2 & X3).
    unfold m. rewrite CoseRecipient_bwf_eq. cbn [r_prot r_unprot r_recipients].
    split; [exact ex_prot_enc_pbwf|]. split; [exact ex_unprot_bwf|exact X3]. }
  exists a, m. split; [exact Ha|]. split; [vm_compute; reflexivity|].
  exact (recipient_create_then_decrypt_total st c pt aad enc a (pt ++ rev a) m _ pair eq_refl Ha eq_refl eq_refl eq_refl W).
Qed.

(* ====================================================================== *)
(* 5. all 14 theorems of Properties/C06.v, total form                      *)
(* ====================================================================== *)
Theorem all_creators_total :
  (* 1 *) (forall (st : sign1) (aad : bytes) (signer : closure1) (tbs sg : bytes) (m : sign1)
         (R : Type) (verifier : bytes -> bytes -> R),
    Sign1_tbs_data st aad = Ok tbs -> signer tbs = Some sg ->
    s1_prot m = s1_prot st -> s1_payload m = s1_payload st -> s1_sig m = sg ->
    CoseSign1_bwf m ->
    exists v m', CoseSign1_to_value m = Ok v /\ CoseSign1_from_value v = Ok m' /\
                 Sign1_verify_signature m' aad verifier = Ok (verifier sg tbs)) /\
  (* 2 *) (forall (st : sign1) (pl aad : bytes) (signer : closure1) (tbs sg : bytes) (m : sign1)
         (R : Type) (verifier : bytes -> bytes -> R),
    Sign1_tbs_detached_data st pl aad = Ok tbs -> signer tbs = Some sg ->
    s1_prot m = s1_prot st -> s1_payload m = s1_payload st -> s1_sig m = sg ->
    CoseSign1_bwf m ->
    exists v m', CoseSign1_to_value m = Ok v /\ CoseSign1_from_value v = Ok m' /\
                 Sign1_verify_detached_signature m' pl aad verifier = Ok (verifier sg tbs)) /\
  (* 3 *) (forall (st : sign) (s : signature) (aad : bytes) (signer : closure1) (tbs sg : bytes) (m : sign)
         (R : Type) (verifier : bytes -> bytes -> R),
    Sign_tbs_data st aad s = Ok tbs -> signer tbs = Some sg ->
    sn_prot m = sn_prot st -> sn_payload m = sn_payload st ->
    sn_sigs m = sn_sigs st ++ [mkSignature (s_prot s) (s_unprot s) sg] ->
    CoseSign_bwf m ->
    exists v m', CoseSign_to_value m = Ok v /\ CoseSign_from_value v = Ok m' /\
                 Sign_verify_signature m' (length (sn_sigs st)) aad verifier = Ok (verifier sg tbs)) /\
  (* 4 *) (forall (st : mac0) (aad : bytes) (tagger : closure1) (tbm tg : bytes) (m : mac0)
         (R : Type) (verify : bytes -> bytes -> R),
    Mac0_tbm st aad = Ok tbm -> tagger tbm = Some tg ->
    m0_prot m = m0_prot st -> m0_payload m = m0_payload st -> m0_tag m = tg ->
    CoseMac0_bwf m ->
    exists v m', CoseMac0_to_value m = Ok v /\ CoseMac0_from_value v = Ok m' /\
                 Mac0_verify_tag m' aad verify = Ok (verify tg tbm)) /\
  (* 5 *) (forall (st : mac) (aad : bytes) (tagger : closure1) (tbm tg : bytes) (m : mac)
         (R : Type) (verify : bytes -> bytes -> R),
    Mac_tbm st aad = Ok tbm -> tagger tbm = Some tg ->
    mc_prot m = mc_prot st -> mc_payload m = mc_payload st -> mc_tag m = tg ->
    CoseMac_bwf m ->
    exists v m', CoseMac_to_value m = Ok v /\ CoseMac_from_value v = Ok m' /\
                 Mac_verify_tag m' aad verify = Ok (verify tg tbm)) /\
  (* 6 *) (forall (st : encrypt0) (pt aad : bytes) (enc : closure2) (a ct : bytes) (m : encrypt0)
         (R : Type) (cipher : bytes -> bytes -> R),
    enc_structure_data EncCoseEncrypt0 (e0_prot st) aad = Ok a -> enc pt a = Some ct ->
    e0_prot m = e0_prot st -> e0_ct m = Some ct ->
    CoseEncrypt0_bwf m ->
    exists v m', CoseEncrypt0_to_value m = Ok v /\ CoseEncrypt0_from_value v = Ok m' /\
                 Encrypt0_decrypt m' aad cipher = Ok (cipher ct a)) /\
  (* 7 *) (forall (st : encrypt) (pt aad : bytes) (enc : closure2) (a ct : bytes) (m : encrypt)
         (R : Type) (cipher : bytes -> bytes -> R),
    enc_structure_data EncCoseEncrypt (en_prot st) aad = Ok a -> enc pt a = Some ct ->
    en_prot m = en_prot st -> en_ct m = Some ct ->
    CoseEncrypt_bwf m ->
    exists v m', CoseEncrypt_to_value m = Ok v /\ CoseEncrypt_from_value v = Ok m' /\
                 Encrypt_decrypt m' aad cipher = Ok (cipher ct a)) /\
  (* 8 *) (forall (st : recipient) (c : enc_context) (pt aad : bytes) (enc : closure2) (a ct : bytes) (m : recipient)
         (R : Type) (cipher : bytes -> bytes -> R),
    is_recipient_context c = true ->
    enc_structure_data c (r_prot st) aad = Ok a -> enc pt a = Some ct ->
    r_prot m = r_prot st -> r_ct m = Some ct ->
    CoseRecipient_bwf m ->
    exists v m', CoseRecipient_to_value m = Ok v /\ CoseRecipient_from_value v = Ok m' /\
                 Recipient_decrypt m' c aad cipher = Ok (cipher ct a)) /\
  (* 9 *) (forall (st : sign1) (aad : bytes) (signer : closure1) (tbs sg : bytes) (m : sign1)
         (R : Type) (verifier : bytes -> bytes -> R),
    Sign1_tbs_data st aad = Ok tbs -> signer tbs = Some sg ->
    s1_prot m = s1_prot st -> s1_payload m = s1_payload st -> s1_sig m = sg ->
    CoseSign1_bwf m -> (forall v, CoseSign1_to_value m = Ok v -> wire_ok v) ->
    exists b m', to_vec CoseSign1_to_value m = Ok b /\ from_slice CoseSign1_from_value b = Ok m' /\
                 Sign1_verify_signature m' aad verifier = Ok (verifier sg tbs)) /\
  (* 10 *) (forall (st : sign1) (aad : bytes) (signer : closure1) (tbs sg : bytes) (m : sign1)
         (R : Type) (verifier : bytes -> bytes -> R),
    Sign1_tbs_data st aad = Ok tbs -> signer tbs = Some sg ->
    s1_prot m = s1_prot st -> s1_payload m = s1_payload st -> s1_sig m = sg ->
    CoseSign1_bwf m -> (forall v, CoseSign1_to_value m = Ok v -> wire_ok v) ->
    exists b m', to_tagged_vec CoseSign1_to_value (tag_of "CoseSign1") m = Ok b /\
                 from_tagged_slice CoseSign1_from_value (tag_of "CoseSign1") b = Ok m' /\
                 Sign1_verify_signature m' aad verifier = Ok (verifier sg tbs)) /\
  (* 11, unchanged *) (forall st aad f tbs,
    Sign1_tbs_data st aad = Ok tbs -> f tbs = None ->
    sign1_builder_step st (S1_try_create_signature aad f) = Err EEncode) /\
  (* 12, unchanged *) (forall c b s aad pl c' b' s' aad' pl',
    short b -> (forall x, s = Some x -> short x) -> short aad -> short pl ->
    short b' -> (forall x, s' = Some x -> short x) -> short aad' -> short pl' ->
    (c, b, s, aad, pl) <> (c', b', s', aad', pl') ->
    sig_structure c b s aad pl <> sig_structure c' b' s' aad' pl') /\
  (* 13, unchanged *) (forall c p aad pl c' p' aad' pl',
    short p -> short aad -> short pl -> short p' -> short aad' -> short pl' ->
    (c, p, aad, pl) <> (c', p', aad', pl') ->
    mac_structure c p aad pl <> mac_structure c' p' aad' pl') /\
  (* 14, unchanged *) (forall c p aad c' p' aad',
    short p -> short aad -> short p' -> short aad' ->
    (c, p, aad) <> (c', p', aad') ->
    enc_structure c p aad <> enc_structure c' p' aad').
Proof.
  split; [exact sign1_sign_then_verify_total|].
  split; [exact sign1_detached_sign_then_verify_total|].
  split; [exact sign_sign_then_verify_total|].
  split; [exact mac0_create_then_verify_total|].
  split; [exact mac_create_then_verify_total|].
  split; [exact encrypt0_create_then_decrypt_total|].
  split; [exact encrypt_create_then_decrypt_total|].
  split; [exact recipient_create_then_decrypt_total|].
  split; [exact sign1_roundtrip_bytes_total|].
  split; [exact sign1_roundtrip_tagged_bytes_total|].
  split; [exact failing_creator_yields_no_message_total|].
  split; [exact tbs_sensitive_total|].
  split; [exact tbm_sensitive_total|].
  exact aad_sensitive_total.
Qed.

Print Assumptions sign1_total_example.
Print Assumptions sign1_detached_total_example.
Print Assumptions sign_total_example.
Print Assumptions mac0_total_example.
Print Assumptions mac_total_example.
Print Assumptions encrypt0_total_example.
Print Assumptions encrypt_total_example.
Print Assumptions recipient_total_example.
Print Assumptions all_creators_total.

(* ====================================================================== *)
(* 6. end to end for COSE_Sign1: from a well-formed builder state and a    *)
(*    signer that answers, every step succeeds                            *)
(* ====================================================================== *)
Lemma Sign1_tbs_data_total st aad : pbwf nest_limit (s1_prot st) -> exists tbs, Sign1_tbs_data st aad = Ok tbs.
Proof.
  intros W. destruct (protected_encode_decode _ _ W) as (d & E & _).
  unfold Sign1_tbs_data, sig_structure_data. rewrite E. cbn [expect bind]. eexists. reflexivity.
Qed.

Corollary sign1_builder_sign_then_verify_total :
  forall (st : sign1) (aad : bytes) (signer : closure1) (R : Type) (verifier : bytes -> bytes -> R),
    CoseSign1_bwf st -> (forall x, signer x <> None) ->
    exists tbs sg m v m',
      Sign1_tbs_data st aad = Ok tbs /\ signer tbs = Some sg /\
      sign1_builder_step st (S1_create_signature aad signer) = Ok m /\
      CoseSign1_to_value m = Ok v /\ CoseSign1_from_value v = Ok m' /\
      Sign1_verify_signature m' aad verifier = Ok (verifier sg tbs).
Proof.
  intros st aad signer R verifier W Hs. destruct (Sign1_tbs_data_total st aad (proj1 W)) as [tbs Ht].
  destruct (signer tbs) as [sg|] eqn:Es; [|destruct (Hs tbs Es)].
  pose (m := mkSign1 (s1_prot st) (s1_unprot st) (s1_payload st) sg).
  destruct (sign1_sign_then_verify_total st aad signer tbs sg m R verifier Ht Es eq_refl eq_refl eq_refl W)
    as (v & m' & E & D & V).
  exists tbs, sg, m, v, m'. repeat (split; [assumption|]). split; [|auto].
  rewrite create_signature_step, Ht. cbn [bind]. unfold call1. rewrite Es. reflexivity.
Qed.
Print Assumptions sign1_builder_sign_then_verify_total.
