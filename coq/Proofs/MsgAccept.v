(* C09 / C18: the array-shaped decoders accept exactly what their CDDL-shaped specs accept. *)
From Coq Require Import Lia.
From Coset.Model Require Import Prelude Cbor Iana Label Msg Key Cwt Context.
From Coset.Spec Require Import Accept AcceptMsg.
From Coset.Proofs Require Import Head RoundTrip.
Require Import ZifyBool ZifyN ZifyNat.
Open Scope Z_scope. Open Scope list_scope.

Definition to_opt {A} (r : res A) : option A := match r with Ok a => Some a | _ => None end.

Lemma to_opt_some {A} (r : res A) a : to_opt r = Some a <-> r = Ok a.
Proof. destruct r; cbn; split; intros H; try discriminate; congruence. Qed.

Lemma mapM_to_opt {A B} (f : A -> res B) l :
  to_opt (mapM f l) = all_some (map (fun x => to_opt (f x)) l).
Proof. induction l as [|a l IH]; cbn [mapM map all_some]; [reflexivity|].
  destruct (f a) as [b| | |]; cbn [bind to_opt]; try reflexivity.
  rewrite <- IH. destruct (mapM f l); reflexivity. Qed.
Lemma mapM_all_some {A B} (f : A -> res B) l rs :
  mapM f l = Ok rs <-> all_some (map (fun x => to_opt (f x)) l) = Some rs.
Proof. rewrite <- mapM_to_opt. symmetry. apply to_opt_some. Qed.

(* arities found in the source *)
Lemma arity_in_eq ty ks n : assoc ty Generated.arity_of_type = Some ("in"%string, ks) ->
  arity_ok ty n = existsb (Z.eqb (Z.of_nat n)) ks.
Proof. unfold arity_ok. intros ->. reflexivity. Qed.
Lemma arity_ge_eq ty ks n : assoc ty Generated.arity_of_type = Some ("ge"%string, ks) ->
  arity_ok ty n = forallb (fun k => k <=? Z.of_nat n) ks.
Proof. unfold arity_ok. intros ->. reflexivity. Qed.
Lemma arity_signature n : arity_ok "CoseSignature" n = Nat.eqb n 3.
Proof. rewrite (arity_in_eq _ [3]) by reflexivity. cbn [existsb]. lia. Qed.
Lemma arity_sign1 n : arity_ok "CoseSign1" n = Nat.eqb n 4.
Proof. rewrite (arity_in_eq _ [4]) by reflexivity. cbn [existsb]. lia. Qed.
Lemma arity_sign n : arity_ok "CoseSign" n = Nat.eqb n 4.
Proof. rewrite (arity_in_eq _ [4]) by reflexivity. cbn [existsb]. lia. Qed.
Lemma arity_mac n : arity_ok "CoseMac" n = Nat.eqb n 5.
Proof. rewrite (arity_in_eq _ [5]) by reflexivity. cbn [existsb]. lia. Qed.
Lemma arity_mac0 n : arity_ok "CoseMac0" n = Nat.eqb n 4.
Proof. rewrite (arity_in_eq _ [4]) by reflexivity. cbn [existsb]. lia. Qed.
Lemma arity_encrypt n : arity_ok "CoseEncrypt" n = Nat.eqb n 4.
Proof. rewrite (arity_in_eq _ [4]) by reflexivity. cbn [existsb]. lia. Qed.
Lemma arity_encrypt0 n : arity_ok "CoseEncrypt0" n = Nat.eqb n 3.
Proof. rewrite (arity_in_eq _ [3]) by reflexivity. cbn [existsb]. lia. Qed.
Lemma arity_recipient n : arity_ok "CoseRecipient" n = Nat.eqb n 3 || Nat.eqb n 4.
Proof. rewrite (arity_in_eq _ [3; 4]) by reflexivity. cbn [existsb]. lia. Qed.
Lemma arity_party n : arity_ok "PartyInfo" n = Nat.eqb n 3.
Proof. rewrite (arity_in_eq _ [3]) by reflexivity. cbn [existsb]. lia. Qed.
Lemma arity_supp n : arity_ok "SuppPubInfo" n = Nat.eqb n 2 || Nat.eqb n 3.
Proof. rewrite (arity_in_eq _ [2; 3]) by reflexivity. cbn [existsb]. lia. Qed.
Lemma arity_kdf n : arity_ok "CoseKdfContext" n = Nat.leb 4 n.
Proof. rewrite (arity_ge_eq _ [4]) by reflexivity. cbn [forallb]. lia. Qed.

Section Level.
  Variable parse_prot : bytes -> res header.
  Variable hv : value -> res header.
  Let hdr_acc := fun x => to_opt (hv x).
  Let prot_parse := fun b => to_opt (parse_prot b).

  Lemma protected_iff v p :
    protected_from_bstr parse_prot v = Ok p <-> protected_spec prot_parse v = Some p.
  Proof. unfold protected_from_bstr, protected_spec, prot_parse.
    destruct v; cbn [try_as_bytes bind]; try (split; discriminate).
    destruct b as [|x b]; cbn [isnil].
    - split; intros [= <-]; reflexivity.
    - destruct (parse_prot (x :: b)); cbn [bind to_opt option_map]; split; intros H; try discriminate; congruence. Qed.

  Lemma bytes_or_nil_iff v o : bytes_or_nil v = Ok o <-> bstr_or_nil v = Some o.
  Proof. destruct v; cbn; split; intros H; try discriminate; congruence. Qed.
  Lemma try_as_bytes_iff v b : try_as_bytes v = Ok b <-> bstr v = Some b.
  Proof. destruct v; cbn; split; intros H; try discriminate; congruence. Qed.

  (* generic: a result is Ok exactly when the option view is Some *)
  Ltac opt_view H :=
    repeat match goal with
    | |- context [protected_from_bstr parse_prot ?x] =>
        let E := fresh "E" in destruct (protected_from_bstr parse_prot x) eqn:E;
        [apply protected_iff in E; rewrite E
        | destruct (protected_spec prot_parse x) eqn:?; [exfalso; match goal with S : protected_spec _ _ = Some _ |- _ => apply protected_iff in S; congruence end|]
        | destruct (protected_spec prot_parse x) eqn:?; [exfalso; match goal with S : protected_spec _ _ = Some _ |- _ => apply protected_iff in S; congruence end|]
        | destruct (protected_spec prot_parse x) eqn:?; [exfalso; match goal with S : protected_spec _ _ = Some _ |- _ => apply protected_iff in S; congruence end|]]
    end.

  Lemma signature_iff v s :
    signature_from_value_with parse_prot hv v = Ok s <-> signature_spec hdr_acc prot_parse v = Some s.
  Proof.
    unfold signature_from_value_with, signature_spec, hdr_acc.
    destruct v as [| | | | | | |a|]; try (split; discriminate).
    rewrite arity_signature.
    destruct a as [|x0 [|x1 [|x2 [|x3 a]]]]; cbn [length Nat.eqb negb]; try (split; discriminate).
    destruct (try_as_bytes x2) as [sg| | |] eqn:B; cbn [bind].
    2-4: destruct (bstr x2) eqn:B2; [apply try_as_bytes_iff in B2; congruence|];
         destruct (protected_spec prot_parse x0), (to_opt (hv x1)); split; discriminate.
    apply try_as_bytes_iff in B. rewrite B.
    destruct (hv x1) as [u| | |]; cbn [bind to_opt];
      try (destruct (protected_spec prot_parse x0); split; discriminate).
    destruct (protected_from_bstr parse_prot x0) as [p| | |] eqn:P; cbn [bind].
    - apply protected_iff in P. rewrite P. split; intros [= <-]; reflexivity.
    - destruct (protected_spec prot_parse x0) eqn:P2; [apply protected_iff in P2; congruence|]. split; discriminate.
    - destruct (protected_spec prot_parse x0) eqn:P2; [apply protected_iff in P2; congruence|]. split; discriminate.
    - destruct (protected_spec prot_parse x0) eqn:P2; [apply protected_iff in P2; congruence|]. split; discriminate.
  Qed.

  (* ---- option views ---- *)
  Lemma bind_to_opt {A B} (r : res A) (k : A -> res B) :
    to_opt (bind r k) = match to_opt r with Some a => to_opt (k a) | None => None end.
  Proof. destruct r; reflexivity. Qed.
  Lemma protected_to_opt v : to_opt (protected_from_bstr parse_prot v) = protected_spec prot_parse v.
  Proof. destruct (protected_spec prot_parse v) eqn:S.
    - apply protected_iff in S. now rewrite S.
    - destruct (protected_from_bstr parse_prot v) eqn:P; try reflexivity. apply protected_iff in P. congruence. Qed.
  Lemma bytes_or_nil_to_opt v : to_opt (bytes_or_nil v) = bstr_or_nil v. Proof. destruct v; reflexivity. Qed.
  Lemma try_as_bytes_to_opt v : to_opt (try_as_bytes v) = bstr v. Proof. destruct v; reflexivity. Qed.
  Lemma signature_to_opt v : to_opt (signature_from_value_with parse_prot hv v) = signature_spec hdr_acc prot_parse v.
  Proof. destruct (signature_spec hdr_acc prot_parse v) eqn:S.
    - apply signature_iff in S. now rewrite S.
    - destruct (signature_from_value_with parse_prot hv v) eqn:P; try reflexivity. apply signature_iff in P. congruence. Qed.
  Lemma mapM_to_opt_ext {A B} (f : A -> res B) (g : A -> option B) l :
    (forall x, to_opt (f x) = g x) -> to_opt (mapM f l) = all_some (map g l).
  Proof. intros H. rewrite mapM_to_opt. f_equal. apply map_ext. exact H. Qed.
End Level.

Ltac views :=
  repeat first [ rewrite bind_to_opt | rewrite protected_to_opt | rewrite bytes_or_nil_to_opt | rewrite try_as_bytes_to_opt ].
Ltac opts :=
  repeat first
    [ rewrite bind_to_opt | rewrite protected_to_opt | rewrite bytes_or_nil_to_opt | rewrite try_as_bytes_to_opt
    | match goal with
      | |- context [match ?x with Some _ => _ | None => _ end] => destruct x
      end ]; try reflexivity.

Section Types.
  Variable parse_prot : bytes -> res header.
  Variable hv : value -> res header.
  Let hdr_acc := fun x => to_opt (hv x).
  Let prot_parse := fun b => to_opt (parse_prot b).

  (* the generic shapes, for arbitrary nested decoders (instantiated below with the public ones) *)
  Definition sign1_dec (v : value) : res sign1 :=
    do a <- try_as_array v;
    if negb (arity_ok "CoseSign1" (List.length a)) then Err EUnexpected
    else match a with
    | x0 :: x1 :: x2 :: x3 :: _ =>
      do sg <- try_as_bytes x3; do pl <- bytes_or_nil x2; do u <- hv x1;
      do p <- protected_from_bstr parse_prot x0; Ok (mkSign1 p u pl sg)
    | _ => Panic
    end.
  Lemma sign1_view v : to_opt (sign1_dec v) = sign1_spec hdr_acc prot_parse v.
  Proof. unfold sign1_dec, sign1_spec, hdr_acc.
    destruct v as [| | | | | | |a|]; try reflexivity. cbn [try_as_array bind]. rewrite arity_sign1.
    destruct a as [|x0 [|x1 [|x2 [|x3 [|x4 a]]]]]; cbn [List.length Nat.eqb negb]; try reflexivity.
    unfold prot_parse. opts. Qed.

  Definition mac0_dec (v : value) : res mac0 :=
    do a <- try_as_array v;
    if negb (arity_ok "CoseMac0" (List.length a)) then Err EUnexpected
    else match a with
    | x0 :: x1 :: x2 :: x3 :: _ =>
      do tg <- try_as_bytes x3; do pl <- bytes_or_nil x2; do u <- hv x1;
      do p <- protected_from_bstr parse_prot x0; Ok (mkMac0 p u pl tg)
    | _ => Panic
    end.
  Lemma mac0_view v : to_opt (mac0_dec v) = mac0_spec hdr_acc prot_parse v.
  Proof. unfold mac0_dec, mac0_spec, hdr_acc.
    destruct v as [| | | | | | |a|]; try reflexivity. cbn [try_as_array bind]. rewrite arity_mac0.
    destruct a as [|x0 [|x1 [|x2 [|x3 [|x4 a]]]]]; cbn [List.length Nat.eqb negb]; try reflexivity.
    unfold prot_parse. opts. Qed.

  Definition encrypt0_dec (v : value) : res encrypt0 :=
    do a <- try_as_array v;
    if negb (arity_ok "CoseEncrypt0" (List.length a)) then Err EUnexpected
    else match a with
    | x0 :: x1 :: x2 :: _ =>
      do ct <- bytes_or_nil x2; do u <- hv x1;
      do p <- protected_from_bstr parse_prot x0; Ok (mkEncrypt0 p u ct)
    | _ => Panic
    end.
  Lemma encrypt0_view v : to_opt (encrypt0_dec v) = encrypt0_spec hdr_acc prot_parse v.
  Proof. unfold encrypt0_dec, encrypt0_spec, hdr_acc.
    destruct v as [| | | | | | |a|]; try reflexivity. cbn [try_as_array bind]. rewrite arity_encrypt0.
    destruct a as [|x0 [|x1 [|x2 [|x3 a]]]]; cbn [List.length Nat.eqb negb]; try reflexivity.
    unfold prot_parse. opts. Qed.

  Definition sign_dec (v : value) : res sign :=
    do a <- try_as_array v;
    if negb (arity_ok "CoseSign" (List.length a)) then Err EUnexpected
    else match a with
    | x0 :: x1 :: x2 :: x3 :: _ =>
      do sa <- try_as_array x3;
      do sigs <- mapM (fun s => map_err (signature_from_value_with parse_prot hv s) EUnexpected) sa;
      do pl <- bytes_or_nil x2; do u <- hv x1;
      do p <- protected_from_bstr parse_prot x0; Ok (mkSign p u pl sigs)
    | _ => Panic
    end.
  Lemma map_err_to_opt {A} (r : res A) e : to_opt (map_err r e) = to_opt r. Proof. destruct r; reflexivity. Qed.
  Lemma sign_view v : to_opt (sign_dec v) = sign_spec hdr_acc prot_parse v.
  Proof. unfold sign_dec, sign_spec, hdr_acc.
    destruct v as [| | | | | | |a|]; try reflexivity. cbn [try_as_array bind]. rewrite arity_sign.
    destruct a as [|x0 [|x1 [|x2 [|x3 [|x4 a]]]]]; cbn [List.length Nat.eqb negb]; try reflexivity;
      try (destruct x3; reflexivity).
    destruct x3; cbn [try_as_array bind]; try (unfold prot_parse; opts; fail).
    rewrite bind_to_opt.
    rewrite (mapM_to_opt_ext _ (signature_spec (fun x => to_opt (hv x)) prot_parse))
      by (intros x; rewrite map_err_to_opt; apply signature_to_opt).
    unfold prot_parse. opts. Qed.
End Types.

(* ---------- the public decoders ---------- *)
Definition H_acc := fun x => to_opt (Header_from_value x).
Definition P_parse := fun b => to_opt (parse_prot_at nest_limit b).

Lemma CoseSign1_is v : CoseSign1_from_value v = sign1_dec (parse_prot_at nest_limit) Header_from_value v. Proof. reflexivity. Qed.
Lemma CoseMac0_is v : CoseMac0_from_value v = mac0_dec (parse_prot_at nest_limit) Header_from_value v. Proof. reflexivity. Qed.
Lemma CoseEncrypt0_is v : CoseEncrypt0_from_value v = encrypt0_dec (parse_prot_at nest_limit) Header_from_value v. Proof. reflexivity. Qed.

Lemma view_iff {A} (r : res A) (o : option A) : to_opt r = o -> forall a, r = Ok a <-> o = Some a.
Proof. intros <- a. symmetry. apply to_opt_some. Qed.

Theorem sign1_accept_iff v m : CoseSign1_from_value v = Ok m <-> sign1_spec H_acc P_parse v = Some m.
Proof. apply view_iff. rewrite CoseSign1_is. apply sign1_view. Qed.
Theorem mac0_accept_iff v m : CoseMac0_from_value v = Ok m <-> mac0_spec H_acc P_parse v = Some m.
Proof. apply view_iff. rewrite CoseMac0_is. apply mac0_view. Qed.
Theorem encrypt0_accept_iff v m : CoseEncrypt0_from_value v = Ok m <-> encrypt0_spec H_acc P_parse v = Some m.
Proof. apply view_iff. rewrite CoseEncrypt0_is. apply encrypt0_view. Qed.

(* the signatures nested in a COSE_Sign are decoded at depth 0, with the public header decoder *)
Theorem signature_accept_iff v s :
  CoseSignature_from_value v = Ok s <-> signature_spec H_acc P_parse v = Some s.
Proof. apply view_iff. unfold CoseSignature_from_value, signature_from_value.
  (* signature_from_value pp = signature_from_value_with pp (header_from_value pp); the unprotected
     header of a top-level signature is decoded by header_from_value (parse_prot_at nest_limit),
     which is Header_from_value's own definition unfolded one step *)
  rewrite signature_to_opt. unfold H_acc, P_parse, Header_from_value.
  destruct nest_limit eqn:N; reflexivity. Qed.

Lemma CoseSign_is v : CoseSign_from_value v = sign_dec (parse_prot_at nest_limit) Header_from_value v.
Proof. reflexivity. Qed.
Theorem sign_accept_iff v m : CoseSign_from_value v = Ok m <-> sign_spec H_acc P_parse v = Some m.
Proof. apply view_iff. rewrite CoseSign_is. apply sign_view. Qed.

(* ---------- recipients (recursive) ---------- *)
Definition RV (v : value) : Prop := to_opt (CoseRecipient_from_value v) = recipient_spec H_acc P_parse v.

Definition go_spec :=
  fix go (l : list value) : option (list recipient) :=
    match l with
    | [] => Some []
    | x :: r => match recipient_spec H_acc P_parse x, go r with Some a, Some ar => Some (a :: ar) | _, _ => None end
    end.

Lemma go_eq ra : Forall RV ra -> to_opt (mapM CoseRecipient_from_value ra) = go_spec ra.
Proof. induction 1 as [|x r Hx _ IH]; [reflexivity|].
  cbn [mapM go_spec]. rewrite bind_to_opt, Hx.
  destruct (recipient_spec H_acc P_parse x); [|reflexivity].
  rewrite bind_to_opt, IH. destruct (go_spec r); reflexivity. Qed.

Lemma recipient_view_strong : forall v, RV v /\ (forall ra, v = VArray ra -> Forall RV ra).
Proof.
  induction v as [z|b|x|t|b| |t v IH|l IH|m IH] using value_ind'; try (split; [reflexivity|discriminate]).
  assert (FA: Forall RV l) by (eapply Forall_impl; [|exact IH]; intros a [Ha _]; exact Ha).
  split; [|intros ra [= <-]; exact FA].
  unfold RV. cbn [CoseRecipient_from_value recipient_spec]. rewrite arity_recipient.
  destruct l as [|x0 [|x1 [|x2 [|x3 [|x4 l]]]]]; cbn [List.length Nat.eqb negb orb]; try reflexivity.
  - cbn [bind]. unfold ProtectedHeader_from_cbor_bstr, H_acc, P_parse. opts.
  - inversion IH as [|? ? _ IH1]; subst. inversion IH1 as [|? ? _ IH2]; subst.
    inversion IH2 as [|? ? _ IH3]; subst. inversion IH3 as [|? ? [_ I3] _]; subst.
    destruct x3 as [| | | | | | |ra|]; cbn [bind]; try (unfold ProtectedHeader_from_cbor_bstr, H_acc, P_parse; opts; fail).
    rewrite bind_to_opt, (go_eq ra (I3 ra eq_refl)). fold go_spec.
    unfold ProtectedHeader_from_cbor_bstr, H_acc, P_parse. opts.
  - destruct x3; reflexivity.
Qed.

Lemma recipient_view v : to_opt (CoseRecipient_from_value v) = recipient_spec H_acc P_parse v.
Proof. apply recipient_view_strong. Qed.
Theorem recipient_accept_iff v r : CoseRecipient_from_value v = Ok r <-> recipient_spec H_acc P_parse v = Some r.
Proof. apply view_iff, recipient_view. Qed.

Lemma recipients_view v : to_opt (recipients_from_value v) = recipients_spec H_acc P_parse v.
Proof. unfold recipients_from_value, recipients_spec. destruct v; try reflexivity. cbn [try_as_array bind].
  apply mapM_to_opt_ext. apply recipient_view. Qed.

Theorem encrypt_accept_iff v m : CoseEncrypt_from_value v = Ok m <-> encrypt_spec H_acc P_parse v = Some m.
Proof. apply view_iff. unfold CoseEncrypt_from_value, encrypt_spec.
  destruct v as [| | | | | | |a|]; try reflexivity. cbn [try_as_array bind]. rewrite arity_encrypt.
  destruct a as [|x0 [|x1 [|x2 [|x3 [|x4 a]]]]]; cbn [List.length Nat.eqb negb]; try reflexivity.
  rewrite bind_to_opt, recipients_view. unfold ProtectedHeader_from_cbor_bstr, H_acc, P_parse. opts. Qed.

Theorem mac_accept_iff v m : CoseMac_from_value v = Ok m <-> mac_spec H_acc P_parse v = Some m.
Proof. apply view_iff. unfold CoseMac_from_value, mac_spec.
  destruct v as [| | | | | | |a|]; try reflexivity. cbn [try_as_array bind]. rewrite arity_mac.
  destruct a as [|x0 [|x1 [|x2 [|x3 [|x4 [|x5 a]]]]]]; cbn [List.length Nat.eqb negb]; try reflexivity.
  rewrite bind_to_opt, recipients_view. unfold ProtectedHeader_from_cbor_bstr, H_acc, P_parse. opts. Qed.

(* ---------- KDF context ---------- *)
Lemma in_i64_is_i64 z : in_i64 z = is_i64 z.
Proof. unfold in_i64, is_i64. change (2 ^ 63) with 9223372036854775808. reflexivity. Qed.
Lemma in_u64_is_u64 z : in_u64 z = is_u64 z.
Proof. unfold in_u64, is_u64. change (2 ^ 64) with 18446744073709551616. reflexivity. Qed.

Lemma nonce_view x1 :
  to_opt match x1 with
         | VNull => Ok None
         | VBytes b => Ok (Some (NonceBytes b))
         | VInt u => do z <- to_i64_res u; Ok (Some (NonceInteger z))
         | _ => Err EUnexpected
         end = nonce_spec x1.
Proof. destruct x1; try reflexivity. cbn. unfold to_i64_res. rewrite in_i64_is_i64. destruct (is_i64 z); reflexivity. Qed.

Theorem party_accept_iff v p : PartyInfo_from_value v = Ok p <-> party_spec v = Some p.
Proof. apply view_iff. unfold PartyInfo_from_value, party_spec.
  destruct v as [| | | | | | |a|]; try reflexivity. cbn [try_as_array bind]. rewrite arity_party.
  destruct a as [|x0 [|x1 [|x2 [|x3 a]]]]; cbn [List.length Nat.eqb negb]; try reflexivity.
  rewrite bind_to_opt, bytes_or_nil_to_opt. destruct (bstr_or_nil x2); [|destruct (bstr_or_nil x0), (nonce_spec x1); reflexivity].
  rewrite bind_to_opt, nonce_view. destruct (nonce_spec x1); [|destruct (bstr_or_nil x0); reflexivity].
  rewrite bind_to_opt, bytes_or_nil_to_opt. destruct (bstr_or_nil x0); reflexivity. Qed.

Lemma uint_view x : to_opt (do i <- try_as_integer x; to_u64_res i) = uint_spec x.
Proof. destruct x; try reflexivity. cbn. unfold to_u64_res. rewrite in_u64_is_u64. destruct (is_u64 z); reflexivity. Qed.

Lemma supp_view v : to_opt (SuppPubInfo_from_value v) = supp_spec P_parse v.
Proof. unfold SuppPubInfo_from_value, supp_spec.
  destruct v as [| | | | | | |a|]; try reflexivity. cbn [try_as_array bind]. rewrite arity_supp.
  destruct a as [|x0 [|x1 [|x2 [|x3 a]]]]; cbn [List.length Nat.eqb negb orb]; try reflexivity.
  - cbn [bind]. unfold ProtectedHeader_from_cbor_bstr, P_parse. rewrite bind_to_opt, protected_to_opt.
    destruct (protected_spec _ x1); [|destruct (uint_spec x0); reflexivity].
    rewrite <- (uint_view x0). destruct (try_as_integer x0) as [i| | |]; cbn [bind to_opt]; try reflexivity.
    destruct (to_u64_res i); reflexivity.
  - rewrite bind_to_opt. cbn [bind]. rewrite bind_to_opt, try_as_bytes_to_opt.
    destruct (bstr x2); cbn [to_opt].
    + unfold ProtectedHeader_from_cbor_bstr, P_parse. rewrite bind_to_opt, protected_to_opt.
      destruct (protected_spec _ x1); [|destruct (uint_spec x0); reflexivity].
      rewrite <- (uint_view x0). destruct (try_as_integer x0) as [i| | |]; cbn [bind to_opt]; try reflexivity.
      destruct (to_u64_res i); reflexivity.
    + destruct (uint_spec x0), (protected_spec P_parse x1); reflexivity.
Qed.
Theorem supp_accept_iff v s : SuppPubInfo_from_value v = Ok s <-> supp_spec P_parse v = Some s.
Proof. apply view_iff, supp_view. Qed.

Lemma party_view v : to_opt (PartyInfo_from_value v) = party_spec v.
Proof. destruct (party_spec v) eqn:S.
  - apply party_accept_iff in S. now rewrite S.
  - destruct (PartyInfo_from_value v) eqn:P; try reflexivity. apply party_accept_iff in P. congruence. Qed.

Definition A_acc := fun x => to_opt (regp_from_value "Algorithm" x).

Theorem kdf_accept_iff v k : CoseKdfContext_from_value v = Ok k <-> kdf_spec P_parse A_acc v = Some k.
Proof. apply view_iff. unfold CoseKdfContext_from_value, kdf_spec.
  destruct v as [| | | | | | |a|]; try reflexivity. cbn [try_as_array bind]. rewrite arity_kdf.
  destruct a as [|x0 [|x1 [|x2 [|x3 priv]]]]; cbn [List.length Nat.leb negb]; try reflexivity.
  rewrite bind_to_opt, (mapM_to_opt_ext _ bstr) by apply try_as_bytes_to_opt.
  destruct (all_some (map bstr priv)).
  2:{ destruct (A_acc x0), (party_spec x1), (party_spec x2), (supp_spec P_parse x3); reflexivity. }
  rewrite bind_to_opt, supp_view. destruct (supp_spec P_parse x3).
  2:{ destruct (A_acc x0), (party_spec x1), (party_spec x2); reflexivity. }
  rewrite bind_to_opt, party_view. destruct (party_spec x2).
  2:{ destruct (A_acc x0), (party_spec x1); reflexivity. }
  rewrite bind_to_opt, party_view. destruct (party_spec x1).
  2:{ destruct (A_acc x0); reflexivity. }
  rewrite bind_to_opt. unfold A_acc. destruct (regp_from_value "Algorithm" x0); reflexivity.
Qed.
