(* Codec round trip: de (ser v ++ r) = Ok (v, r) for every value in normal form. *)
From Coq Require Import Lia.
From Coset.Model Require Import Prelude Cbor.
From Coset.Proofs Require Import Head Codec.
Require Import ZifyBool ZifyN ZifyNat.
Ltac Zify.zify_post_hook ::= Z.div_mod_to_equations.
Open Scope N_scope.

(* ---------- nested induction principle for value ---------- *)
Section VInd.
  Variable P : value -> Prop.
  Hypothesis Hint : forall z, P (VInt z).
  Hypothesis Hbytes : forall b, P (VBytes b).
  Hypothesis Hfloat : forall x, P (VFloat x).
  Hypothesis Htext : forall t, P (VText t).
  Hypothesis Hbool : forall b, P (VBool b).
  Hypothesis Hnull : P VNull.
  Hypothesis Htag : forall t v, P v -> P (VTag t v).
  Hypothesis Harr : forall l, Forall P l -> P (VArray l).
  Hypothesis Hmap : forall m, Forall (fun kv => P (fst kv) /\ P (snd kv)) m -> P (VMap m).
  Fixpoint value_ind' (v : value) : P v :=
    match v with
    | VInt z => Hint z | VBytes b => Hbytes b | VFloat x => Hfloat x | VText t => Htext t
    | VBool b => Hbool b | VNull => Hnull
    | VTag t v => Htag t v (value_ind' v)
    | VArray l => Harr l ((fix go (l : list value) : Forall P l :=
                             match l with [] => Forall_nil P | x :: r => Forall_cons x (value_ind' x) (go r) end) l)
    | VMap m => Hmap m ((fix go (m : list (value * value)) : Forall (fun kv => P (fst kv) /\ P (snd kv)) m :=
                           match m with
                           | [] => Forall_nil _
                           | kv :: r => Forall_cons kv (conj (value_ind' (fst kv)) (value_ind' (snd kv))) (go r)
                           end) m)
    end.
End VInd.

(* ---------- normal form: exactly what the serialiser round-trips ---------- *)
Definition short_bignum_shape (t : N) (v : value) : bool :=
  match v with
  | VBytes b => ((t =? 2) || (t =? 3)) && (N.of_nat (length b) <=? 16)
  | _ => false
  end.
(* the bignum normal forms the decoder itself produces *)
Definition bignum_nf (t : N) (v : value) : bool :=
  match v with
  | VBytes b => bytes_eqb (strip0 b) b && (p64 <=? unbe b) && ((t =? 2) || (unbe b <? pow2 127))
  | _ => false
  end.

Fixpoint value_nf (v : value) : bool :=
  match v with
  | VInt z => ((- 18446744073709551616 <=? z) && (z <? 18446744073709551616))%Z
  | VBytes b => N.of_nat (length b) <? p64
  | VFloat x => x <? p64
  | VText t => (N.of_nat (length t) <? p64) && utf8_valid t
  | VBool _ => true
  | VNull => true
  | VTag t v => (t <? p64) && value_nf v && (negb (short_bignum_shape t v) || bignum_nf t v)
  | VArray l => (N.of_nat (length l) <? p64) && forallb value_nf l
  | VMap m => (N.of_nat (length m) <? p64) && forallb (fun kv => value_nf (fst kv) && value_nf (snd kv)) m
  end.

Definition list_max (f : value -> nat) (l : list value) : nat := fold_right (fun x m => Nat.max (f x) m) 0%nat l.
Definition list_sum (f : value -> nat) (l : list value) : nat := fold_right (fun x m => (f x + m)%nat) 0%nat l.

(* recursion levels charged by the decoder *)
Fixpoint depth (v : value) : nat :=
  match v with
  | VTag t v => if short_bignum_shape t v then 0%nat else S (depth v)
  | VArray l => S (list_max depth l)
  | VMap m => S (fold_right (fun kv a => Nat.max (Nat.max (depth (fst kv)) (depth (snd kv))) a) 0%nat m)
  | _ => 0%nat
  end.
(* fuel that suffices *)
Fixpoint vsize (v : value) : nat :=
  match v with
  | VTag _ v => S (vsize v)
  | VArray l => (2 + list_sum vsize l + length l)%nat
  | VMap m => (2 + fold_right (fun kv a => (vsize (fst kv) + vsize (snd kv) + a)%nat) 0%nat m + length m)%nat
  | _ => 2%nat
  end.

(* ---------- floats ---------- *)
Lemma cand16_lt x : x < p64 -> cand16 x < 65536.
Proof.
  unfold p64, cand16. intros Hx.
  change (pow2 63) with 9223372036854775808. change (pow2 52) with 4503599627370496. change (pow2 42) with 4398046511104.
  set (e := (x / 4503599627370496) mod 2048). set (m := x mod 4503599627370496).
  assert (Hs: x / 9223372036854775808 <= 1) by lia.
  assert (Hm: m < 4503599627370496) by (unfold m; lia).
  assert (He: e < 2048) by (unfold e; lia).
  destruct (e =? 2047). { destruct (m =? 0); lia. }
  destruct (e =? 0); [lia|].
  destruct ((1009 <=? e) && (e <=? 1038)) eqn:A. { assert (m / 4398046511104 < 1024) by lia. lia. }
  destruct ((999 <=? e) && (e <=? 1008)) eqn:B; [|lia].
  assert (HP: 8796093022208 <= pow2 (1051 - e)).
  { unfold pow2. change 8796093022208 with (2 ^ 43). apply N.pow_le_mono_r; lia. }
  assert ((4503599627370496 + m) / pow2 (1051 - e) < 1024).
  { apply N.div_lt_upper_bound; [lia|]. nia. }
  lia.
Qed.

Lemma cand32_lt x : x < p64 -> cand32 x < 4294967296.
Proof.
  unfold p64, cand32. intros Hx.
  change (pow2 63) with 9223372036854775808. change (pow2 52) with 4503599627370496. change (pow2 29) with 536870912.
  change (pow2 31) with 2147483648. change (pow2 23) with 8388608. change (pow2 22) with 4194304.
  set (e := (x / 4503599627370496) mod 2048). set (m := x mod 4503599627370496).
  assert (Hs: x / 9223372036854775808 <= 1) by lia.
  assert (Hm: m < 4503599627370496) by (unfold m; lia).
  assert (He: e < 2048) by (unfold e; lia).
  destruct (e =? 2047). { destruct (m =? 0); lia. }
  destruct (e =? 0); [lia|].
  destruct ((897 <=? e) && (e <=? 1150)) eqn:A. { assert (m / 536870912 < 8388608) by lia. lia. }
  destruct ((874 <=? e) && (e <=? 896)) eqn:B; [|lia].
  assert (HP: 1073741824 <= pow2 (926 - e)).
  { unfold pow2. change 1073741824 with (2 ^ 30). apply N.pow_le_mono_r; lia. }
  assert ((4503599627370496 + m) / pow2 (926 - e) < 8388608).
  { apply N.div_lt_upper_bound; [lia|]. nia. }
  lia.
Qed.


Lemma de_float f bud x r : x < p64 -> de (S f) bud (ser_float x ++ r) = Ok (VFloat x, r).
Proof.
  intros Hx. unfold ser_float.
  destruct (widen16 (cand16 x) =? x) eqn:E16; [|destruct (widen32 (cand32 x) =? x) eqn:E32].
  - cbn [app de dehead]. rewrite b2n_n2b.
    change (249 mod 256 / 32) with 7. change (249 mod 256 mod 32) with 25.
    change (25 <? 24) with false. change (25 =? 24) with false. change (25 =? 25) with true. cbv iota.
    change 2 with (N.of_nat (length (be 2 (cand16 x)))) at 1. rewrite takeN_app.
    rewrite unbe_be_small by (change (256 ^ N.of_nat 2) with 65536; now apply cand16_lt).
    change (7 =? 0) with false. change (7 =? 1) with false. change (7 =? 2) with false. change (7 =? 3) with false.
    change (7 =? 4) with false. change (7 =? 5) with false. change (7 =? 6) with false. cbv iota.
    change (25 <? 25) with false. change (25 =? 25) with true. cbv iota.
    apply N.eqb_eq in E16. now rewrite E16.
  - cbn [app de dehead]. rewrite b2n_n2b.
    change (250 mod 256 / 32) with 7. change (250 mod 256 mod 32) with 26.
    change (26 <? 24) with false. change (26 =? 24) with false. change (26 =? 25) with false. change (26 =? 26) with true. cbv iota.
    change 4 with (N.of_nat (length (be 4 (cand32 x)))) at 1. rewrite takeN_app.
    rewrite unbe_be_small by (change (256 ^ N.of_nat 4) with 4294967296; now apply cand32_lt).
    change (7 =? 0) with false. change (7 =? 1) with false. change (7 =? 2) with false. change (7 =? 3) with false.
    change (7 =? 4) with false. change (7 =? 5) with false. change (7 =? 6) with false. cbv iota.
    change (26 <? 25) with false. change (26 =? 25) with false. change (26 =? 26) with true. cbv iota.
    apply N.eqb_eq in E32. now rewrite E32.
  - cbn [app de dehead]. rewrite b2n_n2b.
    change (251 mod 256 / 32) with 7. change (251 mod 256 mod 32) with 27.
    change (27 <? 24) with false. change (27 =? 24) with false. change (27 =? 25) with false. change (27 =? 26) with false.
    change (27 =? 27) with true. cbv iota.
    change 8 with (N.of_nat (length (be 8 x))) at 1. rewrite takeN_app.
    rewrite unbe_be_small by (change (256 ^ N.of_nat 8) with 18446744073709551616; exact Hx).
    change (7 =? 0) with false. change (7 =? 1) with false. change (7 =? 2) with false. change (7 =? 3) with false.
    change (7 =? 4) with false. change (7 =? 5) with false. change (7 =? 6) with false. cbv iota.
    change (27 <? 25) with false. change (27 =? 25) with false. change (27 =? 26) with false. cbv iota.
    reflexivity.
Qed.

(* ---------- peeking at the head of a serialised value (the tag case needs it) ---------- *)
Definition is_short (mt2 : N) (arg2 : option N) : bool :=
  match arg2 with Some n2 => (mt2 =? 2) && (n2 <=? 16) | None => false end.

Lemma dehead_head_eq mt n r : mt < 8 -> n < p64 ->
  exists ai, dehead (head mt n ++ r) = Some (mt, ai, Some n, r).
Proof. intros A B. destruct (dehead_head mt n r A B) as (ai & H & _). eauto. Qed.

Lemma float_first x r : x < p64 ->
  exists ai arg r2, dehead (ser_float x ++ r) = Some (7, ai, arg, r2).
Proof.
  intros Hx. unfold ser_float.
  destruct (widen16 (cand16 x) =? x); [|destruct (widen32 (cand32 x) =? x)]; cbn [app dehead]; rewrite b2n_n2b.
  - change (249 mod 256 / 32) with 7. change (249 mod 256 mod 32) with 25.
    change (25 <? 24) with false. change (25 =? 24) with false. change (25 =? 25) with true. cbv iota.
    change 2 with (N.of_nat (length (be 2 (cand16 x)))) at 1. rewrite takeN_app. eauto.
  - change (250 mod 256 / 32) with 7. change (250 mod 256 mod 32) with 26.
    change (26 <? 24) with false. change (26 =? 24) with false. change (26 =? 25) with false. change (26 =? 26) with true. cbv iota.
    change 4 with (N.of_nat (length (be 4 (cand32 x)))) at 1. rewrite takeN_app. eauto.
  - change (251 mod 256 / 32) with 7. change (251 mod 256 mod 32) with 27.
    change (27 <? 24) with false. change (27 =? 24) with false. change (27 =? 25) with false. change (27 =? 26) with false.
    change (27 =? 27) with true. cbv iota.
    change 8 with (N.of_nat (length (be 8 x))) at 1. rewrite takeN_app. eauto.
Qed.

Lemma peek v r : value_nf v = true ->
  exists mt2 ai2 arg2 r2, dehead (ser v ++ r) = Some (mt2, ai2, arg2, r2) /\
    is_short mt2 arg2 = match v with VBytes b => N.of_nat (length b) <=? 16 | _ => false end.
Proof.
  intros NF. destruct v as [z|b|x|t|[|]| |t v|l|m]; cbn [ser value_nf] in *.
  - destruct (0 <=? z)%Z eqn:S.
    + destruct (dehead_head_eq 0 (Z.to_N z) r) as (ai & H); [lia|unfold p64; lia|].
      rewrite H. do 4 eexists. split; [reflexivity|]. reflexivity.
    + destruct (dehead_head_eq 1 (Z.to_N (-1 - z)) r) as (ai & H); [lia|unfold p64; lia|].
      rewrite H. do 4 eexists. split; [reflexivity|]. reflexivity.
  - rewrite <- app_assoc. destruct (dehead_head_eq 2 (N.of_nat (length b)) (b ++ r)) as (ai & H); [lia|lia|].
    rewrite H. do 4 eexists. split; [reflexivity|]. reflexivity.
  - destruct (float_first x r) as (ai & arg & r2 & H); [lia|]. rewrite H. do 4 eexists. split; [reflexivity|].
    unfold is_short. destruct arg; reflexivity.
  - rewrite <- app_assoc. destruct (dehead_head_eq 3 (N.of_nat (length t)) (t ++ r)) as (ai & H); [lia|lia|].
    rewrite H. do 4 eexists. split; [reflexivity|]. reflexivity.
  - do 4 eexists. split; [reflexivity|]. reflexivity.
  - do 4 eexists. split; [reflexivity|]. reflexivity.
  - do 4 eexists. split; [reflexivity|]. reflexivity.
  - rewrite <- app_assoc. destruct (dehead_head_eq 6 t (ser v ++ r)) as (ai & H); [lia|lia|].
    rewrite H. do 4 eexists. split; [reflexivity|]. reflexivity.
  - rewrite <- app_assoc. destruct (dehead_head_eq 4 (N.of_nat (length l)) (flat_map ser l ++ r)) as (ai & H); [lia|lia|].
    rewrite H. do 4 eexists. split; [reflexivity|]. reflexivity.
  - rewrite <- app_assoc. destruct (dehead_head_eq 5 (N.of_nat (length m)) (flat_map (fun kv => ser (fst kv) ++ ser (snd kv)) m ++ r)) as (ai & H); [lia|lia|].
    rewrite H. do 4 eexists. split; [reflexivity|]. reflexivity.
Qed.

Lemma bytes_eqb_eq a b : bytes_eqb a b = true -> a = b.
Proof. revert b. induction a as [|x a IH]; intros [|y b]; cbn; try discriminate; auto.
  intros H. apply andb_true_iff in H as [E H]. apply Byte.byte_dec_bl in E. f_equal; auto. Qed.

Lemma max_le_l a b c : (Nat.max a b <= c)%nat -> (a <= c)%nat. Proof. pose proof (Nat.le_max_l a b). lia. Qed.
Lemma max_le_r a b c : (Nat.max a b <= c)%nat -> (b <= c)%nat. Proof. pose proof (Nat.le_max_r a b). lia. Qed.
Lemma vsize_pos v : (1 <= vsize v)%nat. Proof. destruct v; cbn; lia. Qed.

Definition RT (v : value) : Prop :=
  value_nf v = true -> forall f bud r, (vsize v <= f)%nat -> (depth v <= bud)%nat ->
  de f bud (ser v ++ r) = Ok (v, r).

Lemma items_rt : forall l, Forall RT l -> forallb value_nf l = true ->
  forall f bud r, (list_sum vsize l + length l < f)%nat -> (list_max depth l <= bud)%nat ->
  N.of_nat (length l) < p64 ->
  items f bud (Some (N.of_nat (length l))) (flat_map ser l ++ r) = Ok (l, r).
Proof.
  induction l as [|x l IH]; intros HF NF f bud r Hf Hb HL; (destruct f as [|f]; [unfold list_sum in Hf; cbn in Hf; lia|]).
  - reflexivity.
  - cbn [items length flat_map].
    replace (N.of_nat (S (length l)) =? 0) with false by lia.
    inversion HF as [|? ? Hx HF']; subst. cbn [forallb] in NF. apply andb_true_iff in NF as [NFx NFl].
    unfold list_sum, list_max in *. cbn [fold_right length] in *.
    pose proof (vsize_pos x).
    rewrite <- app_assoc, (Hx NFx f bud _) by (try lia; eapply max_le_l; eauto). cbn [bind].
    replace (N.pred (N.of_nat (S (length l)))) with (N.of_nat (length l)) by lia.
    rewrite IH by (first [assumption | lia | eapply max_le_r; eauto]). reflexivity.
Qed.

Definition msum (m : list (value * value)) : nat := fold_right (fun kv a => (vsize (fst kv) + vsize (snd kv) + a)%nat) 0%nat m.
Definition mmax (m : list (value * value)) : nat := fold_right (fun kv a => Nat.max (Nat.max (depth (fst kv)) (depth (snd kv))) a) 0%nat m.

Lemma entries_rt : forall m, Forall (fun kv => RT (fst kv) /\ RT (snd kv)) m ->
  forallb (fun kv => value_nf (fst kv) && value_nf (snd kv)) m = true ->
  forall f bud r, (msum m + length m < f)%nat -> (mmax m <= bud)%nat ->
  N.of_nat (length m) < p64 ->
  entries f bud (Some (N.of_nat (length m))) (flat_map (fun kv => ser (fst kv) ++ ser (snd kv)) m ++ r) = Ok (m, r).
Proof.
  induction m as [|[k x] m IH]; intros HF NF f bud r Hf Hb HL; (destruct f as [|f]; [lia|]).
  - reflexivity.
  - cbn [entries length flat_map fst snd].
    replace (N.of_nat (S (length m)) =? 0) with false by lia.
    inversion HF as [|? ? [Hk Hx] HF']; subst. cbn [forallb fst snd] in *.
    apply andb_true_iff in NF as [NFkx NFm]. apply andb_true_iff in NFkx as [NFk NFx].
    cbn [msum mmax fold_right length fst snd] in *. fold (msum m) in *. fold (mmax m) in *.
    pose proof (vsize_pos k). pose proof (vsize_pos x).
    assert (D1: (depth k <= bud)%nat) by (eapply max_le_l, max_le_l; eauto).
    assert (D2: (depth x <= bud)%nat) by (eapply max_le_r, max_le_l; eauto).
    assert (D3: (mmax m <= bud)%nat) by (eapply max_le_r; eauto).
    rewrite <- !app_assoc, (Hk NFk f bud _) by lia. cbn [bind].
    rewrite (Hx NFx f bud _) by lia. cbn [bind].
    replace (N.pred (N.of_nat (S (length m)))) with (N.of_nat (length m)) by lia.
    rewrite IH; try assumption; try lia. reflexivity.
Qed.

Theorem de_ser : forall v, RT v.
Proof.
  induction v as [z|b|x|t|b| |t v IH|l IH|m IH] using value_ind'; intros NF f bud r Hf Hb;
    (destruct f as [|f]; [cbn in Hf; lia|]).
  - (* int *) cbn [value_nf] in NF. cbn [ser]. destruct (0 <=? z)%Z eqn:S.
    + destruct (dehead_head_eq 0 (Z.to_N z) r) as (ai & H); [lia|unfold p64; lia|].
      cbn [de]. rewrite H. change (0 =? 0) with true. cbv iota. rewrite Z2N.id by lia. reflexivity.
    + destruct (dehead_head_eq 1 (Z.to_N (-1 - z)) r) as (ai & H); [lia|unfold p64; lia|].
      cbn [de]. rewrite H. change (1 =? 0) with false. change (1 =? 1) with true. cbv iota.
      replace (-1 - Z.of_N (Z.to_N (-1 - z)))%Z with z by lia. reflexivity.
  - (* bytes *) cbn [value_nf] in NF. cbn [ser vsize] in *. rewrite <- app_assoc.
    destruct (dehead_head_eq 2 (N.of_nat (length b)) (b ++ r)) as (ai & H); [lia|lia|].
    cbn [de]. rewrite H. change (2 =? 0) with false. change (2 =? 1) with false. change (2 =? 2) with true. cbv iota.
    destruct f as [|f]; [lia|]. cbn [segs]. rewrite H.
    replace ((2 =? 7) && (ai =? 31)) with false by reflexivity. change (2 =? 2) with true. cbv iota.
    rewrite takeN_app. change (2 =? 3) with false. cbn [andb bind]. reflexivity.
  - (* float *) cbn [value_nf] in NF. cbn [ser]. apply de_float. lia.
  - (* text *) cbn [value_nf] in NF. apply andb_true_iff in NF as [NL NU]. cbn [ser vsize] in *. rewrite <- app_assoc.
    destruct (dehead_head_eq 3 (N.of_nat (length t)) (t ++ r)) as (ai & H); [lia|lia|].
    cbn [de]. rewrite H. change (3 =? 0) with false. change (3 =? 1) with false. change (3 =? 2) with false.
    change (3 =? 3) with true. cbv iota.
    destruct f as [|f]; [lia|]. cbn [segs]. rewrite H.
    replace ((3 =? 7) && (ai =? 31)) with false by reflexivity. change (3 =? 3) with true. cbv iota.
    rewrite takeN_app. rewrite NU. cbn [andb negb bind]. reflexivity.
  - (* bool *) destruct b; reflexivity.
  - (* null *) reflexivity.
  - (* tag *) cbn [value_nf] in NF. apply andb_true_iff in NF as [NF NT]. apply andb_true_iff in NF as [Nt Nv].
    cbn [ser]. rewrite <- app_assoc.
    destruct (dehead_head_eq 6 t (ser v ++ r)) as (ai & H); [lia|lia|].
    cbn [de]. rewrite H.
    change (6 =? 0) with false. change (6 =? 1) with false. change (6 =? 2) with false. change (6 =? 3) with false.
    change (6 =? 4) with false. change (6 =? 5) with false. change (6 =? 6) with true. cbv iota.
    destruct (peek v r Nv) as (mt2 & ai2 & arg2 & r2 & H2 & SH). rewrite H2.
    fold (is_short mt2 arg2). rewrite SH.
    destruct (short_bignum_shape t v) eqn:SB.
    + (* bignum normal form *)
      destruct v as [| b | | | | | | |]; try discriminate SB. cbn [short_bignum_shape] in SB.
      apply andb_true_iff in SB as [T23 L16]. rewrite T23, L16. cbn [andb].
      cbn [negb orb] in NT. cbn [bignum_nf] in NT.
      apply andb_true_iff in NT as [NT N127]. apply andb_true_iff in NT as [NS N64].
      apply bytes_eqb_eq in NS.
      cbn [ser] in H2. rewrite <- app_assoc in H2.
      destruct (dehead_head_eq 2 (N.of_nat (length b)) (b ++ r)) as (ai' & H'); [lia|cbn [value_nf] in Nv; lia|].
      rewrite H' in H2. injection H2 as <- <- <- <-.
      rewrite takeN_app. unfold bignum.
      destruct (t =? 3) eqn:T3.
      * replace (unbe b <? pow2 64) with false by (unfold pow2; change (2^64) with p64; lia).
        apply orb_true_iff in N127 as [T2|N127]; [lia|]. rewrite N127. cbn [bind]. rewrite NS.
        assert (t = 3) by lia. subst t. reflexivity.
      * replace (unbe b <? pow2 64) with false by (unfold pow2; change (2^64) with p64; lia).
        cbn [bind]. rewrite NS. assert (t = 2) by lia. subst t. reflexivity.
    + assert (E: ((t =? 2) || (t =? 3)) && match v with VBytes b => N.of_nat (length b) <=? 16 | _ => false end = false).
      { destruct v; cbn [short_bignum_shape] in SB; try exact SB; apply andb_false_r. }
      rewrite E. cbn [depth vsize] in *. rewrite SB in Hb.
      destruct bud as [|bud']; [lia|].
      rewrite (IH Nv f bud' r) by lia. reflexivity.
  - (* array *) cbn [value_nf] in NF. apply andb_true_iff in NF as [NL NA]. cbn [ser depth vsize] in *. rewrite <- app_assoc.
    destruct (dehead_head_eq 4 (N.of_nat (length l)) (flat_map ser l ++ r)) as (ai & H); [lia|lia|].
    cbn [de]. rewrite H.
    change (4 =? 0) with false. change (4 =? 1) with false. change (4 =? 2) with false. change (4 =? 3) with false.
    change (4 =? 4) with true. cbv iota.
    destruct bud as [|bud']; [lia|].
    rewrite items_rt; try assumption; try lia. reflexivity.
  - (* map *) cbn [value_nf] in NF. apply andb_true_iff in NF as [NL NA]. cbn [ser depth vsize] in *. rewrite <- app_assoc.
    destruct (dehead_head_eq 5 (N.of_nat (length m)) (flat_map (fun kv => ser (fst kv) ++ ser (snd kv)) m ++ r)) as (ai & H); [lia|lia|].
    cbn [de]. rewrite H.
    change (5 =? 0) with false. change (5 =? 1) with false. change (5 =? 2) with false. change (5 =? 3) with false.
    change (5 =? 4) with false. change (5 =? 5) with true. cbv iota.
    destruct bud as [|bud']; [lia|].
    fold (msum m) in Hf. fold (mmax m) in Hb.
    rewrite entries_rt; try assumption; try lia. reflexivity.
Qed.
Print Assumptions de_ser.
