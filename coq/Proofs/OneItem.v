(* Exactly-one-item properties: the decoder never panics, [read_to_value]
   accepts a byte string only if it is exactly one CBOR item (no proper prefix
   and no proper extension of an accepted input is accepted), lifted to the
   typed entry points and to the contents of a protected byte string. *)
From Coq Require Import Lia.
From Coset.Model Require Import Prelude Cbor Iana Label Msg Api.
From Coset.Proofs Require Import Head Codec Fuel.
Require Import ZifyBool ZifyN ZifyNat.
Open Scope nat_scope.

(* ====================================================================== *)
(* 1. The decoder never panics                                            *)
(* ====================================================================== *)

Lemma bind_not_panic {A B} (x : res A) (k : A -> res B) :
  x <> Panic -> (forall a, k a <> Panic) -> bind x k <> Panic.
Proof.
  destruct x as [a|e| |]; cbn [bind]; intros Hx Hk.
  - apply Hk.
  - discriminate.
  - congruence.
  - discriminate.
Qed.

Ltac np_leaf tac :=
  first [ discriminate
        | tac
        | apply bind_not_panic;
          [ np_leaf tac
          | first [ intros [? ?] | intros ? ]; cbv beta iota; np_leaf tac ] ].

Lemma bignum_never_panics : forall neg c, bignum neg c <> Panic.
Proof. intros neg c. unfold bignum, derr. split_goal; discriminate. Qed.

Lemma segs_never_panics : forall f mt nested l, segs f mt nested l <> Panic.
Proof.
  induction f as [|f IH]; intros mt nested l.
  - cbn [segs]. discriminate.
  - cbn [segs]. unfold derr. split_goal; np_leaf ltac:(apply IH).
Qed.

Lemma de_never_panics_aux f :
  (forall bud l, de f bud l <> Panic) /\
  (forall bud cnt l, items f bud cnt l <> Panic) /\
  (forall bud cnt l, entries f bud cnt l <> Panic).
Proof.
  induction f as [|f IH].
  - repeat split; intros; cbn [de items entries]; discriminate.
  - destruct IH as (IHde & IHitems & IHentries).
    repeat split; intros bud.
    + intros l. cbn [de]; cbv zeta. unfold derr. split_goal;
        np_leaf ltac:(first [apply bignum_never_panics | apply IHde | apply IHitems
                            | apply IHentries | apply segs_never_panics]).
    + intros cnt l. cbn [items]. unfold derr. split_goal;
        np_leaf ltac:(first [apply IHde | apply IHitems | apply IHentries]).
    + intros cnt l. cbn [entries]. unfold derr. split_goal;
        np_leaf ltac:(first [apply IHde | apply IHitems | apply IHentries]).
Qed.

Lemma de_never_panics : forall f bud l, de f bud l <> Panic.
Proof. intros f. apply (de_never_panics_aux f). Qed.

Lemma items_never_panics : forall f bud cnt l, items f bud cnt l <> Panic.
Proof. intros f. apply (de_never_panics_aux f). Qed.

Lemma entries_never_panics : forall f bud cnt l, entries f bud cnt l <> Panic.
Proof. intros f. apply (de_never_panics_aux f). Qed.

Lemma from_reader_never_panics : forall l, from_reader l <> Panic.
Proof. intros l. unfold from_reader. apply de_never_panics. Qed.

Lemma read_to_value_total : forall b,
  read_to_value b <> Panic /\ read_to_value b <> OutOfFuel.
Proof.
  intros b. unfold read_to_value.
  pose proof (from_reader_never_panics b) as HP.
  pose proof (from_reader_not_out_of_fuel b) as HF.
  destruct (from_reader b) as [[v r]|e| |]; cbn [bind].
  - destruct (isnil r); split; discriminate.
  - split; discriminate.
  - congruence.
  - congruence.
Qed.

(* ====================================================================== *)
(* 2. Exactly one item                                                    *)
(* ====================================================================== *)

Lemma read_to_value_ok_inv : forall b v,
  read_to_value b = Ok v -> from_reader b = Ok (v, []).
Proof.
  intros b v. unfold read_to_value.
  destruct (from_reader b) as [[v' r]|e| |]; cbn [bind]; try discriminate.
  destruct r as [|x r]; cbn [isnil]; [|discriminate].
  intros [= ->]. reflexivity.
Qed.

Lemma read_to_value_ok_intro : forall b v,
  from_reader b = Ok (v, []) -> read_to_value b = Ok v.
Proof. intros b v H. unfold read_to_value. rewrite H. reflexivity. Qed.

Lemma fuel_of_app_le : forall p q : bytes, fuel_of p <= fuel_of (p ++ q).
Proof. intros p q. unfold fuel_of. rewrite app_length. lia. Qed.

(* the reader on an extended input: same value, the extension is left unread *)
Lemma from_reader_app : forall p q v r,
  from_reader p = Ok (v, r) -> from_reader (p ++ q) = Ok (v, r ++ q).
Proof.
  intros p q v r H. unfold from_reader in *.
  apply de_ext.
  apply (de_fuel_mono (fuel_of p)); [exact H|discriminate|apply fuel_of_app_le].
Qed.

Theorem read_to_value_suffix : forall b v s,
  read_to_value b = Ok v -> s <> [] -> read_to_value (b ++ s) = Err EExtra.
Proof.
  intros b v s H Hs. apply read_to_value_ok_inv in H.
  unfold read_to_value. rewrite (from_reader_app _ s _ _ H).
  cbn [bind app]. destruct s as [|x s]; [congruence|]. reflexivity.
Qed.

Theorem read_to_value_prefix : forall b v k,
  read_to_value b = Ok v -> (k < length b)%nat ->
  exists e, read_to_value (firstn k b) = Err e.
Proof.
  intros b v k H Hk. apply read_to_value_ok_inv in H.
  pose proof (firstn_skipn k b) as Hsplit.
  set (p := firstn k b) in *. set (q := skipn k b) in *.
  assert (Hq : q <> []).
  { intros Hq. assert (Hl : length q = 0) by (rewrite Hq; reflexivity).
    unfold q in Hl. rewrite skipn_length in Hl. lia. }
  unfold read_to_value.
  pose proof (from_reader_never_panics p) as HP.
  pose proof (from_reader_not_out_of_fuel p) as HF.
  destruct (from_reader p) as [[v' r]|e| |] eqn:E; cbn [bind].
  - destruct r as [|x r]; cbn [isnil].
    + exfalso. apply (from_reader_app _ q) in E. rewrite Hsplit in E.
      cbn [app] in E. rewrite H in E. injection E as _ E. congruence.
    + exists EExtra. reflexivity.
  - exists e. reflexivity.
  - congruence.
  - congruence.
Qed.

(* ====================================================================== *)
(* 3. Typed entry points                                                  *)
(* ====================================================================== *)

Theorem from_slice_is_read_then_convert :
  forall (T : Type) (fromv : value -> res T) b,
  from_slice fromv b = (do v <- read_to_value b; fromv v).
Proof. reflexivity. Qed.

Theorem to_vec_is_convert_then_serialise :
  forall (T : Type) (tov : T -> res value) x,
  to_vec tov x = (do v <- tov x; Ok (ser v)).
Proof. reflexivity. Qed.

Lemma bind_ok_inv {A B} (x : res A) (k : A -> res B) y :
  bind x k = Ok y -> exists a, x = Ok a.
Proof. destruct x as [a|e| |]; cbn [bind]; try discriminate. eauto. Qed.

Theorem from_slice_suffix :
  forall (T : Type) (fromv : value -> res T) b x s,
  from_slice fromv b = Ok x -> s <> [] -> from_slice fromv (b ++ s) = Err EExtra.
Proof.
  intros T fromv b x s H Hs. unfold from_slice in *.
  apply bind_ok_inv in H as [v Hv].
  rewrite (read_to_value_suffix _ _ _ Hv Hs). reflexivity.
Qed.

Theorem from_slice_prefix :
  forall (T : Type) (fromv : value -> res T) b x k,
  from_slice fromv b = Ok x -> (k < length b)%nat ->
  exists e, from_slice fromv (firstn k b) = Err e.
Proof.
  intros T fromv b x k H Hk. unfold from_slice in *.
  apply bind_ok_inv in H as [v Hv].
  destruct (read_to_value_prefix _ _ _ Hv Hk) as [e He].
  exists e. rewrite He. reflexivity.
Qed.

Theorem from_tagged_slice_suffix :
  forall (T : Type) (fromv : value -> res T) tag b x s,
  from_tagged_slice fromv tag b = Ok x -> s <> [] ->
  from_tagged_slice fromv tag (b ++ s) = Err EExtra.
Proof.
  intros T fromv tag b x s H Hs. unfold from_tagged_slice in *.
  apply bind_ok_inv in H as [v Hv].
  rewrite (read_to_value_suffix _ _ _ Hv Hs). reflexivity.
Qed.

Theorem from_tagged_slice_prefix :
  forall (T : Type) (fromv : value -> res T) tag b x k,
  from_tagged_slice fromv tag b = Ok x -> (k < length b)%nat ->
  exists e, from_tagged_slice fromv tag (firstn k b) = Err e.
Proof.
  intros T fromv tag b x k H Hk. unfold from_tagged_slice in *.
  apply bind_ok_inv in H as [v Hv].
  destruct (read_to_value_prefix _ _ _ Hv Hk) as [e He].
  exists e. rewrite He. reflexivity.
Qed.

(* ====================================================================== *)
(* 4. Inside a protected byte string                                      *)
(* ====================================================================== *)

(* a successfully parsed non-empty protected byte string is one whole item *)
Lemma protected_ok_inv : forall n h p, h <> [] ->
  protected_from_bstr (parse_prot_at n) (VBytes h) = Ok p ->
  exists n' v, n = S n' /\ read_to_value h = Ok v.
Proof.
  intros n h p Hh H. unfold protected_from_bstr in H. cbn [try_as_bytes bind] in H.
  destruct h as [|x h]; [congruence|]. cbn [isnil] in H.
  apply bind_ok_inv in H as [hd Hhd].
  destruct n as [|n']; [discriminate Hhd|].
  unfold parse_prot_at in Hhd.
  apply bind_ok_inv in Hhd as [v Hv]. eauto.
Qed.

Lemma protected_err : forall n' d e, d <> [] ->
  read_to_value d = Err e ->
  protected_from_bstr (parse_prot_at (S n')) (VBytes d) = Err e.
Proof.
  intros n' d e Hd H. unfold protected_from_bstr. cbn [try_as_bytes bind].
  destruct d as [|x d]; [congruence|]. cbn [isnil].
  unfold parse_prot_at. rewrite H. reflexivity.
Qed.

Theorem protected_suffix_rejected : forall n h s p, s <> [] -> h <> [] ->
  protected_from_bstr (parse_prot_at n) (VBytes h) = Ok p ->
  protected_from_bstr (parse_prot_at n) (VBytes (h ++ s)) = Err EExtra.
Proof.
  intros n h s p Hs Hh H.
  destruct (protected_ok_inv _ _ _ Hh H) as (n' & v & -> & Hv).
  apply protected_err.
  - destruct h; [congruence|discriminate].
  - apply (read_to_value_suffix _ _ _ Hv Hs).
Qed.

Theorem protected_prefix_rejected : forall n h k p, (0 < k < length h)%nat ->
  protected_from_bstr (parse_prot_at n) (VBytes h) = Ok p ->
  exists e, protected_from_bstr (parse_prot_at n) (VBytes (firstn k h)) = Err e.
Proof.
  intros n h k p [Hk0 Hk] H.
  assert (Hh : h <> []) by (destruct h; [cbn [length] in Hk; lia|discriminate]).
  destruct (protected_ok_inv _ _ _ Hh H) as (n' & v & -> & Hv).
  destruct (read_to_value_prefix _ _ _ Hv Hk) as [e He].
  exists e. apply protected_err; [|exact He].
  intros Hnil. assert (Hl : length (firstn k h) = 0) by (rewrite Hnil; reflexivity).
  rewrite firstn_length in Hl. lia.
Qed.

Print Assumptions read_to_value_suffix.
Print Assumptions read_to_value_prefix.
Print Assumptions from_slice_suffix.
Print Assumptions from_slice_prefix.
Print Assumptions from_tagged_slice_suffix.
Print Assumptions from_tagged_slice_prefix.
Print Assumptions protected_suffix_rejected.
Print Assumptions protected_prefix_rejected.
Print Assumptions de_never_panics.
