(* C16: the hand-written Ord implementations are the order of the deterministic encodings. *)
From Coq Require Import Lia.
From Coset.Model Require Import Prelude Cbor Iana Label.
From Coset.Spec Require Import DetCbor.
From Coset.Proofs Require Import Head.
Require Import ZifyBool ZifyN ZifyNat.
Ltac Zify.zify_post_hook ::= Z.div_mod_to_equations.
Open Scope N_scope.

(* ---------- spec encoders coincide with the model's serialiser ---------- *)
Lemma octet_n2b n : octet n = n2b n. Proof. reflexivity. Qed.
Lemma big_endian_be k n : big_endian k n = be k n.
Proof. induction k as [|k IH]. - reflexivity. - cbn [big_endian be]. now rewrite IH. Qed.
Lemma det_head_head mt n : det_head mt n = head mt n.
Proof. unfold det_head, head. rewrite !big_endian_be, !octet_n2b.
  change (2^8) with 256. change (2^16) with 65536. change (2^32) with 4294967296.
  rewrite !(N.mul_comm 32 mt). reflexivity. Qed.
Lemma lex_bytes_cmp a b : lex a b = bytes_cmp a b.
Proof. revert b. induction a as [|x a IH]; intros [|y b]; cbn; auto; try (unfold b2n; now rewrite IH). Qed.

Definition det_label (l : label) : bytes :=
  match l with LInt z => det_int z | LText t => det_tstr t end.

Lemma ser_label l : ser (label_to_value l) = det_label l.
Proof. destruct l as [z|t]; cbn [label_to_value ser det_label]; unfold det_int, det_tstr.
  - rewrite !det_head_head. replace (- z - 1)%Z with (-1 - z)%Z by lia. reflexivity.
  - now rewrite det_head_head. Qed.

(* ---------- comparing encodings ---------- *)
Lemma bytes_cmp_app_same_len a b x y : length a = length b ->
  bytes_cmp (a ++ x) (b ++ y) = match bytes_cmp a b with Eq => bytes_cmp x y | c => c end.
Proof. revert b. induction a as [|p a IH]; intros [|q b] H; try discriminate; cbn [app bytes_cmp]; auto.
  destruct (b2n p ?= b2n q); auto. Qed.

Lemma bytes_cmp_head_app mt n1 n2 x y : mt < 8 -> n1 < p64 -> n2 < p64 ->
  bytes_cmp (head mt n1 ++ x) (head mt n2 ++ y) = match N.compare n1 n2 with Eq => bytes_cmp x y | c => c end.
Proof.
  unfold p64. intros Hm H1 H2. unfold head.
  destruct (n1 <? 24) eqn:A1; [|destruct (n1 <? 256) eqn:A2; [|destruct (n1 <? 65536) eqn:A3; [|destruct (n1 <? 4294967296) eqn:A4]]];
  (destruct (n2 <? 24) eqn:B1; [|destruct (n2 <? 256) eqn:B2; [|destruct (n2 <? 65536) eqn:B3; [|destruct (n2 <? 4294967296) eqn:B4]]]);
  cbn [bytes_cmp app]; rewrite !b2n_n2b;
  repeat match goal with |- context [(mt*32+?a) mod 256] => replace ((mt*32+a) mod 256) with (mt*32+a) by lia end.
  all: try (rewrite N.compare_refl; rewrite bytes_cmp_app_same_len by (now rewrite !be_length);
            rewrite bytes_cmp_be by (first [change (256 ^ N.of_nat 1) with 256 | change (256 ^ N.of_nat 2) with 65536
              | change (256 ^ N.of_nat 4) with 4294967296 | change (256 ^ N.of_nat 8) with 18446744073709551616]; lia);
            reflexivity).
  all: destruct (N.compare_spec n1 n2) as [E|L|G]; try lia.
  all: try (subst n2; rewrite N.compare_refl; reflexivity).
  all: match goal with |- match (?a ?= ?b) with _ => _ end = _ =>
         destruct (N.compare_spec a b) as [E'|L'|G']; try lia; reflexivity end.
Qed.

Lemma bytes_cmp_major mt1 mt2 n1 n2 x y : mt1 < mt2 -> mt2 < 8 ->
  bytes_cmp (head mt1 n1 ++ x) (head mt2 n2 ++ y) = Lt.
Proof. intros H1 H2.
  destruct (head_first mt1 n1 ltac:(lia)) as (b1 & r1 & -> & E1).
  destruct (head_first mt2 n2 ltac:(lia)) as (b2 & r2 & -> & E2).
  cbn [app bytes_cmp]. assert (b2n b1 < b2n b2) by lia.
  now apply N.compare_lt_iff in H as ->. Qed.

Definition label_in_range (l : label) : Prop :=
  match l with
  | LInt z => (- 9223372036854775808 <= z < 9223372036854775808)%Z
  | LText t => N.of_nat (length t) < p64
  end.

Lemma nat_compare_N a b : Nat.compare a b = N.compare (N.of_nat a) (N.of_nat b).
Proof. destruct (Nat.compare_spec a b); symmetry;
  [apply N.compare_eq_iff|apply N.compare_lt_iff|apply N.compare_gt_iff]; lia. Qed.

Theorem label_cmp_is_lex a b : label_in_range a -> label_in_range b ->
  label_cmp a b = lex (det_label a) (det_label b).
Proof.
  intros Ra Rb. rewrite lex_bytes_cmp, <- !ser_label.
  destruct a as [i1|t1], b as [i2|t2]; cbn [label_cmp label_to_value ser label_in_range] in *.
  - unfold int_cmp.
    destruct (0 <=? i1)%Z eqn:P1, (0 <=? i2)%Z eqn:P2.
    + rewrite (bytes_cmp_head 0) by (unfold p64; lia).
      destruct (i1 <? 0)%Z eqn:N1; [lia|]. destruct (i2 <? 0)%Z eqn:N2; [lia|].
      destruct (i1 =? 0)%Z eqn:Z1, (i2 =? 0)%Z eqn:Z2.
      * symmetry. apply N.compare_eq_iff. lia.
      * symmetry. apply N.compare_lt_iff. lia.
      * symmetry. apply N.compare_gt_iff. lia.
      * rewrite <- (Z2N.id i1), <- (Z2N.id i2) at 1 by lia. now rewrite N2Z.inj_compare.
    + destruct (i1 <? 0)%Z eqn:N1; [lia|]. destruct (i2 <? 0)%Z eqn:N2; [|lia].
      rewrite <- (app_nil_r (head 0 _)), <- (app_nil_r (head 1 _)).
      rewrite bytes_cmp_major by lia. destruct (i1 =? 0)%Z; reflexivity.
    + destruct (i1 <? 0)%Z eqn:N1; [|lia]. destruct (i2 <? 0)%Z eqn:N2; [lia|].
      rewrite bytes_cmp_antisym. rewrite <- (app_nil_r (head 0 _)), <- (app_nil_r (head 1 _)).
      rewrite bytes_cmp_major by lia. reflexivity.
    + destruct (i1 <? 0)%Z eqn:N1; [|lia]. destruct (i2 <? 0)%Z eqn:N2; [|lia].
      rewrite (bytes_cmp_head 1) by (unfold p64; lia).
      rewrite <- (Z2N.id (-1 - i1)), <- (Z2N.id (-1 - i2)) by lia.
      destruct (Z.compare_spec i2 i1); symmetry;
        [apply N.compare_eq_iff|apply N.compare_lt_iff|apply N.compare_gt_iff]; lia.
  - destruct (0 <=? i1)%Z; rewrite <- (app_nil_r (head _ _)); now rewrite bytes_cmp_major by lia.
  - rewrite bytes_cmp_antisym.
    destruct (0 <=? i2)%Z; rewrite <- (app_nil_r (head _ (Z.to_N _))); now rewrite bytes_cmp_major by lia.
  - unfold text_cmp, then_cmp. rewrite bytes_cmp_head_app by (unfold p64 in *; lia).
    rewrite nat_compare_N. destruct (N.of_nat (length t1) ?= N.of_nat (length t2)); reflexivity.
Qed.

Theorem cmp_canonical_is_length_first a b :
  cmp_canonical a b = length_first (det_label a) (det_label b).
Proof. unfold cmp_canonical, length_first. cbv zeta. rewrite (ser_label a). rewrite (ser_label b).
  destruct (Nat.compare_spec (length (det_label a)) (length (det_label b))) as [E|L|G].
  - rewrite E, Nat.eqb_refl. reflexivity.
  - replace (Nat.eqb _ _) with false by (symmetry; apply Nat.eqb_neq; lia). cbn.
    now apply Nat.compare_lt_iff in L.
  - replace (Nat.eqb _ _) with false by (symmetry; apply Nat.eqb_neq; lia). cbn.
    now apply Nat.compare_gt_iff in G. Qed.

(* ---------- order laws, for all labels (no range hypothesis) ---------- *)
Ltac int_cases :=
  unfold int_cmp;
  repeat match goal with |- context [if ?c then _ else _] => let E := fresh "E" in destruct c eqn:E end.
Lemma int_cmp_eq i1 i2 : int_cmp i1 i2 = Eq <-> i1 = i2.
Proof. int_cases; rewrite ?Z.compare_eq_iff; split; intros; try discriminate; try lia; auto. Qed.
Lemma int_cmp_antisym i1 i2 : int_cmp i2 i1 = CompOpp (int_cmp i1 i2).
Proof. int_cases; cbn [CompOpp]; try reflexivity; try lia; apply Z.compare_antisym. Qed.
Lemma int_cmp_lt_trans a b c : int_cmp a b = Lt -> int_cmp b c = Lt -> int_cmp a c = Lt.
Proof. int_cases; rewrite ?Z.compare_lt_iff; intros; try discriminate; try lia; auto. Qed.

Lemma text_cmp_eq t1 t2 : text_cmp t1 t2 = Eq <-> t1 = t2.
Proof. unfold text_cmp, then_cmp. split.
  - destruct (Nat.compare (length t1) (length t2)); try discriminate. apply bytes_cmp_eq.
  - intros ->. now rewrite Nat.compare_refl, bytes_cmp_refl. Qed.
Lemma text_cmp_antisym t1 t2 : text_cmp t2 t1 = CompOpp (text_cmp t1 t2).
Proof. unfold text_cmp, then_cmp. rewrite (Nat.compare_antisym (length t1) (length t2)).
  destruct (Nat.compare (length t1) (length t2)); cbn; auto. apply bytes_cmp_antisym. Qed.
Lemma text_cmp_lt_trans a b c : text_cmp a b = Lt -> text_cmp b c = Lt -> text_cmp a c = Lt.
Proof. unfold text_cmp, then_cmp.
  destruct (Nat.compare_spec (length a) (length b)) as [E|L|G]; try discriminate;
  destruct (Nat.compare_spec (length b) (length c)) as [E2|L2|G2]; try discriminate; intros H1 H2.
  - replace (Nat.compare (length a) (length c)) with Eq by (symmetry; apply Nat.compare_eq_iff; lia).
    eapply bytes_cmp_lt_trans; eauto.
  - replace (Nat.compare (length a) (length c)) with Lt by (symmetry; apply Nat.compare_lt_iff; lia). reflexivity.
  - replace (Nat.compare (length a) (length c)) with Lt by (symmetry; apply Nat.compare_lt_iff; lia). reflexivity.
  - replace (Nat.compare (length a) (length c)) with Lt by (symmetry; apply Nat.compare_lt_iff; lia). reflexivity.
Qed.

Theorem label_cmp_eq a b : label_cmp a b = Eq <-> a = b.
Proof. destruct a, b; cbn [label_cmp]; try (split; discriminate).
  - rewrite int_cmp_eq. split; congruence.
  - rewrite text_cmp_eq. split; congruence. Qed.
Theorem label_cmp_antisym a b : label_cmp b a = CompOpp (label_cmp a b).
Proof. destruct a, b; cbn [label_cmp CompOpp]; auto using int_cmp_antisym, text_cmp_antisym. Qed.
Theorem label_cmp_lt_trans a b c : label_cmp a b = Lt -> label_cmp b c = Lt -> label_cmp a c = Lt.
Proof. destruct a, b, c; cbn [label_cmp]; try discriminate; auto; eauto using int_cmp_lt_trans, text_cmp_lt_trans. Qed.

(* ---------- registry label types ---------- *)
Definition reg_as_label (l : reg_label) : label := match l with RAssigned z => LInt z | RText t => LText t end.
Definition regp_as_label (l : regp_label) : label :=
  match l with PPrivate z => LInt z | PAssigned z => LInt z | PText t => LText t end.

Theorem reg_cmp_as_label a b : reg_cmp a b = label_cmp (reg_as_label a) (reg_as_label b).
Proof. destruct a, b; reflexivity. Qed.
Theorem regp_cmp_as_label a b : regp_cmp a b = label_cmp (regp_as_label a) (regp_as_label b).
Proof. destruct a, b; reflexivity. Qed.

(* values produced by decoding or by the builders: Assigned only for registered integers,
   PrivateUse only for unregistered ones *)
Definition regp_wf (reg : string) (l : regp_label) : Prop :=
  match l with
  | PAssigned z => registered (table_of reg) z = true
  | PPrivate z => registered (table_of reg) z = false
  | PText _ => True
  end.

Lemma reg_as_label_inj a b : reg_as_label a = reg_as_label b -> a = b.
Proof. destruct a, b; cbn; congruence. Qed.
Lemma regp_as_label_inj reg a b : regp_wf reg a -> regp_wf reg b -> regp_as_label a = regp_as_label b -> a = b.
Proof. destruct a, b; cbn; intros; try congruence. Qed.

Theorem reg_cmp_eq a b : reg_cmp a b = Eq <-> a = b.
Proof. rewrite reg_cmp_as_label, label_cmp_eq. split; [apply reg_as_label_inj|congruence]. Qed.
Theorem regp_cmp_eq reg a b : regp_wf reg a -> regp_wf reg b -> (regp_cmp a b = Eq <-> a = b).
Proof. intros Wa Wb. rewrite regp_cmp_as_label, label_cmp_eq. split; [now apply (regp_as_label_inj reg)|congruence]. Qed.

Lemma regp_from_value_wf reg v l : regp_from_value reg v = Ok l -> regp_wf reg l.
Proof. destruct v; cbn; try discriminate.
  - unfold to_i64_res. destruct (in_i64 z); cbn; [|discriminate].
    destruct (registered (table_of reg) z) eqn:R. + intros [= <-]. exact R.
    + destruct (is_private reg z); [|discriminate]. intros [= <-]. exact R.
  - intros [= <-]. exact I. Qed.
