(* C12: no map with a repeated label is ever accepted by the header / key / claims decoders, the
   error is DuplicateMapKey when everything before the second occurrence is acceptable, and the
   header / key encoders never emit a map with a repeated key (the claims encoder can: known finding). *)
From Coq Require Import Lia.
From Coset.Model Require Import Prelude Cbor Iana Label Msg Key Cwt.
From Coset.Proofs Require Import Head Order IanaTables Loop ClaimsAccept.
Require Import ZifyBool ZifyN ZifyNat.
Open Scope string_scope. Open Scope Z_scope. Open Scope list_scope.

(* ====================================================================== *)
(* A. decoding                                                            *)
(* ====================================================================== *)

(* two keys, at different positions, denote the same label *)
Definition dup_keys (m : list (value * value)) : Prop :=
  exists i j ki kj l, (i < j)%nat /\
    nth_error (map fst m) i = Some ki /\ nth_error (map fst m) j = Some kj /\
    label_from_value ki = Ok l /\ label_from_value kj = Ok l.

Definition dup_claims (m : list (value * value)) : Prop :=
  exists i j ki kj n, (i < j)%nat /\
    nth_error (map fst m) i = Some ki /\ nth_error (map fst m) j = Some kj /\
    regp_from_value "CwtClaimName" ki = Ok n /\ regp_from_value "CwtClaimName" kj = Ok n.

Lemma nth_dup_not_NoDup {A} (l : list A) i j x :
  (i < j)%nat -> nth_error l i = Some x -> nth_error l j = Some x -> ~ NoDup l.
Proof. intros Lt Hi Hj ND. rewrite NoDup_nth_error in ND.
  assert (i = j); [|lia]. apply ND.
  - apply nth_error_Some. congruence.
  - congruence. Qed.

Lemma labels_nth : forall m lm i k, labels m = Ok lm -> nth_error (map fst m) i = Some k ->
  exists l, label_from_value k = Ok l /\ nth_error (map fst lm) i = Some l.
Proof. induction m as [|[k0 v0] m IH]; intros lm i k L N.
  - destruct i; discriminate.
  - cbn [labels] in L. destruct (label_from_value k0) as [l0| | |] eqn:LK; cbn [bind] in L; try discriminate.
    destruct (labels m) as [r| | |] eqn:LM; cbn [bind] in L; try discriminate. injection L as <-.
    destruct i as [|i]; cbn [map fst nth_error] in *.
    + injection N as <-. eauto.
    + eapply IH; eauto. Qed.

Lemma names_nth : forall m lm i k, names m = Ok lm -> nth_error (map fst m) i = Some k ->
  exists l, regp_from_value "CwtClaimName" k = Ok l /\ nth_error (map fst lm) i = Some l.
Proof. induction m as [|[k0 v0] m IH]; intros lm i k L N.
  - destruct i; discriminate.
  - cbn [names] in L. destruct (regp_from_value "CwtClaimName" k0) as [l0| | |] eqn:LK; cbn [bind] in L; try discriminate.
    destruct (names m) as [r| | |] eqn:LM; cbn [bind] in L; try discriminate. injection L as <-.
    destruct i as [|i]; cbn [map fst nth_error] in *.
    + injection N as <-. eauto.
    + eapply IH; eauto. Qed.

Lemma dup_keys_labels m lm : dup_keys m -> labels m = Ok lm -> ~ NoDup (map fst lm).
Proof. intros (i & j & ki & kj & l & Lt & Ni & Nj & Li & Lj) L.
  destruct (labels_nth m lm i ki L Ni) as (l1 & E1 & N1).
  destruct (labels_nth m lm j kj L Nj) as (l2 & E2 & N2).
  assert (l1 = l) by congruence. assert (l2 = l) by congruence. subst.
  eapply nth_dup_not_NoDup; eauto. Qed.

Lemma dup_claims_names m lm : dup_claims m -> names m = Ok lm -> ~ NoDup (map fst lm).
Proof. intros (i & j & ki & kj & l & Lt & Ni & Nj & Li & Lj) L.
  destruct (names_nth m lm i ki L Ni) as (l1 & E1 & N1).
  destruct (names_nth m lm j kj L Nj) as (l2 & E2 & N2).
  assert (l1 = l) by congruence. assert (l2 = l) by congruence. subst.
  eapply nth_dup_not_NoDup; eauto. Qed.

(* generic: whatever the per-entry step and the start state *)
Theorem map_loop_dup_never_accepted {S} (step : S -> label -> value -> res S) m s s' :
  dup_keys m -> map_loop step m s [] <> Ok s'.
Proof. intros D H. apply map_loop_iff in H as (lm & L & ND & _). exact (dup_keys_labels m lm D L ND). Qed.

Theorem header_dup_never_accepted : forall pp hv m h,
  dup_keys m -> map_loop (header_step pp hv) m header_default [] <> Ok h.
Proof. intros. now apply map_loop_dup_never_accepted. Qed.

Theorem key_dup_never_accepted : forall m k,
  dup_keys m -> map_loop key_step m key_default [] <> Ok k.
Proof. intros. now apply map_loop_dup_never_accepted. Qed.

Corollary CoseKey_dup_never_accepted : forall m k,
  dup_keys m -> CoseKey_from_value (VMap m) <> Ok k.
Proof. intros m k D H. unfold CoseKey_from_value in H. cbn [try_as_map bind] in H.
  destruct (map_loop key_step m key_default []) as [k0| | |] eqn:E; cbn [bind] in H; try discriminate.
  exact (key_dup_never_accepted m k0 D E). Qed.

Lemma Header_from_value_map m :
  Header_from_value (VMap m) =
  map_loop (header_step (parse_prot_at nest_limit) (header_from_value (parse_prot_at nest_limit))) m header_default [].
Proof. unfold Header_from_value. destruct nest_limit; reflexivity. Qed.

Corollary Header_dup_never_accepted : forall m h,
  dup_keys m -> Header_from_value (VMap m) <> Ok h.
Proof. intros m h D. rewrite Header_from_value_map. now apply header_dup_never_accepted. Qed.

(* at any nesting depth *)
Corollary header_from_value_dup_never_accepted : forall pp m h,
  dup_keys m -> header_from_value pp (VMap m) <> Ok h.
Proof. intros pp m h D. change (header_from_value pp (VMap m))
    with (map_loop (header_step pp (header_from_value pp)) m header_default []).
  now apply header_dup_never_accepted. Qed.

(* the error kind *)
Theorem header_dup_reported : forall pp hv p k v rest lp h1 l,
  labels p = Ok lp -> NoDup (map fst lp) -> foldM (header_step pp hv) lp header_default = Ok h1 ->
  label_from_value k = Ok l -> In l (map fst lp) ->
  map_loop (header_step pp hv) (p ++ (k, v) :: rest) header_default [] = Err EDup.
Proof. intros. eapply duplicate_reported; eauto. Qed.

Theorem key_dup_reported : forall p k v rest lp k1 l,
  labels p = Ok lp -> NoDup (map fst lp) -> foldM key_step lp key_default = Ok k1 ->
  label_from_value k = Ok l -> In l (map fst lp) ->
  map_loop key_step (p ++ (k, v) :: rest) key_default [] = Err EDup.
Proof. intros. eapply duplicate_reported; eauto. Qed.

Corollary CoseKey_dup_reported : forall p k v rest lp k1 l,
  labels p = Ok lp -> NoDup (map fst lp) -> foldM key_step lp key_default = Ok k1 ->
  label_from_value k = Ok l -> In l (map fst lp) ->
  CoseKey_from_value (VMap (p ++ (k, v) :: rest)) = Err EDup.
Proof. intros. unfold CoseKey_from_value. cbn [try_as_map bind].
  erewrite key_dup_reported; eauto. Qed.

Corollary Header_dup_reported : forall p k v rest lp h1 l,
  labels p = Ok lp -> NoDup (map fst lp) ->
  foldM (header_step (parse_prot_at nest_limit) (header_from_value (parse_prot_at nest_limit))) lp header_default = Ok h1 ->
  label_from_value k = Ok l -> In l (map fst lp) ->
  Header_from_value (VMap (p ++ (k, v) :: rest)) = Err EDup.
Proof. intros. rewrite Header_from_value_map. eapply header_dup_reported; eauto. Qed.

(* ---------- claims sets ---------- *)
Theorem claims_loop_dup_never_accepted : forall m c0 c,
  dup_claims m -> claims_loop m c0 [] <> Ok c.
Proof. intros m c0 c D H. apply claims_loop_iff in H as (lm & L & ND & _); [|constructor].
  exact (dup_claims_names m lm D L ND). Qed.

Theorem claims_dup_never_accepted : forall m c,
  dup_claims m -> ClaimsSet_from_value (VMap m) <> Ok c.
Proof. intros m c D. cbn [ClaimsSet_from_value]. now apply claims_loop_dup_never_accepted. Qed.

Lemma claims_loop_app : forall p rest c seen c1 lp,
  Forall (regp_wf "CwtClaimName") seen ->
  names p = Ok lp -> NoDup (map fst lp) -> (forall l, In l (map fst lp) -> ~ In l seen) ->
  cfold lp c = Ok c1 ->
  claims_loop (p ++ rest) c seen = claims_loop rest c1 (rev (map fst lp) ++ seen).
Proof.
  induction p as [|[k v] p IH]; intros rest c seen c1 lp WS L ND DJ F.
  - cbn in L. injection L as <-. cbn in F. injection F as <-. reflexivity.
  - cbn [names] in L. destruct (regp_from_value "CwtClaimName" k) as [l| | |] eqn:LK; cbn [bind] in L; try discriminate.
    destruct (names p) as [r| | |] eqn:LP; cbn [bind] in L; try discriminate. injection L as <-.
    pose proof (regp_from_value_wf _ _ _ LK) as WL.
    cbn [map fst cfold] in *. inversion ND as [|? ? NI ND']; subst.
    destruct (claims_step c l v) as [c2| | |] eqn:ST; cbn [bind] in F; try discriminate.
    cbn [app claims_loop]. rewrite LK. cbn [bind].
    assert (M: regp_mem l seen = false).
    { destruct (regp_mem l seen) eqn:M; auto. apply regp_mem_In in M; auto. exfalso. apply (DJ l); auto. now left. }
    rewrite M, ST. cbn [bind].
    rewrite (IH rest c2 (l :: seen) c1 r); auto.
    + cbn [rev]. now rewrite <- app_assoc.
    + intros l0 I [<-|I2]; auto. apply (DJ l0); auto. now right.
Qed.

Theorem claims_loop_dup_reported : forall p k v rest c0 lp c1 n,
  names p = Ok lp -> NoDup (map fst lp) -> cfold lp c0 = Ok c1 ->
  regp_from_value "CwtClaimName" k = Ok n -> In n (map fst lp) ->
  claims_loop (p ++ (k, v) :: rest) c0 [] = Err EDup.
Proof.
  intros p k v rest c0 lp c1 n L ND F LK I.
  rewrite (claims_loop_app p _ c0 [] c1 lp (Forall_nil _) L ND (fun _ _ H => H) F).
  cbn [claims_loop]. rewrite LK. cbn [bind].
  replace (regp_mem n (rev (map fst lp) ++ [])) with true; [reflexivity|].
  symmetry. rewrite app_nil_r. apply regp_mem_In.
  - eapply regp_from_value_wf; eauto.
  - apply Forall_rev. eapply names_wf; eauto.
  - now apply in_rev in I.
Qed.

Theorem claims_dup_reported : forall p k v rest lp c1 n,
  names p = Ok lp -> NoDup (map fst lp) -> cfold lp claims_default = Ok c1 ->
  regp_from_value "CwtClaimName" k = Ok n -> In n (map fst lp) ->
  claims_loop (p ++ (k, v) :: rest) claims_default [] = Err EDup.
Proof. intros. eapply claims_loop_dup_reported; eauto. Qed.

Corollary ClaimsSet_dup_reported : forall p k v rest lp c1 n,
  names p = Ok lp -> NoDup (map fst lp) -> cfold lp claims_default = Ok c1 ->
  regp_from_value "CwtClaimName" k = Ok n -> In n (map fst lp) ->
  ClaimsSet_from_value (VMap (p ++ (k, v) :: rest)) = Err EDup.
Proof. intros. cbn [ClaimsSet_from_value]. eapply claims_dup_reported; eauto. Qed.

(* ====================================================================== *)
(* B. encoding                                                            *)
(* ====================================================================== *)

(* the loop over the extra entries: on success it appended one entry per extra label, in order,
   the extra labels are pairwise distinct and none is in the initial seen-set *)
Theorem emit_rest_nodup : forall rest seen acc m, emit_rest rest seen acc = Ok m ->
  exists tail, m = acc ++ tail /\ map fst tail = map (fun e => label_to_value (fst e)) rest /\
    NoDup (map fst rest) /\ (forall l, In l (map fst rest) -> ~ In l seen).
Proof.
  induction rest as [|[l x] r IH]; intros seen acc m H; cbn [emit_rest] in H.
  - injection H as <-. exists []. rewrite app_nil_r. cbn. repeat split; auto. constructor.
  - destruct (label_mem l seen) eqn:M; [discriminate|].
    assert (NM: ~ In l seen) by (rewrite <- label_mem_In; congruence).
    apply IH in H as (tail & -> & K & ND & DJ).
    exists ((label_to_value l, x) :: tail). cbn [map fst]. repeat split.
    + now rewrite <- app_assoc.
    + now rewrite K.
    + constructor; auto. intros I. apply (DJ l I). now left.
    + intros l0 [<-|I]; auto. intros I2. apply (DJ l0 I). now right.
Qed.

Lemma label_to_value_inj a b : label_to_value a = label_to_value b -> a = b.
Proof. destruct a, b; cbn; congruence. Qed.

Lemma label_from_to l l' : label_from_value (label_to_value l) = Ok l' -> l' = l.
Proof. destruct l; cbn [label_to_value label_from_value]; [|congruence].
  unfold to_i64_res. destruct (in_i64 z); cbn [bind]; congruence. Qed.

Lemma NoDup_map_inj {A B} (f : A -> B) l : (forall a b, f a = f b -> a = b) -> NoDup l -> NoDup (map f l).
Proof. intros Inj. induction 1 as [|a l NI ND IH]; cbn [map]; constructor; auto.
  intros I. apply in_map_iff in I as (b & E & I). apply Inj in E. now subst. Qed.

Lemma NoDup_app_intro {A} (a b : list A) :
  NoDup a -> NoDup b -> (forall x, In x a -> ~ In x b) -> NoDup (a ++ b).
Proof. induction 1 as [|x a NI ND IH]; intros NB DJ; cbn [app]; auto.
  constructor.
  - rewrite in_app_iff. intros [I|I]; auto. apply (DJ x); auto. now left.
  - apply IH; auto. intros y I. apply DJ. now right. Qed.

Lemma seed_seen_cons k v m :
  seed_seen ((k, v) :: m) = do b <- label_from_value k; do bs <- seed_seen m; Ok (b :: bs).
Proof. reflexivity. Qed.

(* every emitted key is recorded in the seeded seen-set, as the label it denotes *)
Lemma seed_seen_In : forall m seen k, seed_seen m = Ok seen -> In k (map fst m) ->
  exists l, label_from_value k = Ok l /\ In l seen.
Proof. induction m as [|[k0 v0] m IH]; intros seen k S I; [destruct I|].
  rewrite seed_seen_cons in S.
  destruct (label_from_value k0) as [l0| | |] eqn:LK; cbn [bind] in S; try discriminate.
  destruct (seed_seen m) as [r| | |] eqn:SM; cbn [bind] in S; try discriminate. injection S as <-.
  cbn [map fst In] in I. destruct I as [<-|I].
  - exists l0. split; auto. now left.
  - destruct (IH r k eq_refl I) as (l & E & J). exists l. split; auto. now right. Qed.

(* typed entries with distinct keys + seeded seen-set + the loop => distinct keys overall *)
Lemma emit_keys_nodup m2 seen rest m :
  NoDup (map fst m2) -> seed_seen m2 = Ok seen -> emit_rest rest seen m2 = Ok m -> NoDup (map fst m).
Proof. intros ND S E. apply emit_rest_nodup in E as (tail & -> & K & NDr & DJ).
  rewrite map_app, K. apply NoDup_app_intro; auto.
  - rewrite <- map_map. apply NoDup_map_inj; auto. exact label_to_value_inj.
  - intros k I1 I2. rewrite <- map_map in I2. apply in_map_iff in I2 as (l & <- & Il).
    destruct (seed_seen_In m2 seen _ S I1) as (l' & E & Is).
    apply label_from_to in E. subst l'. exact (DJ l Il Is). Qed.

(* ---------- the typed part: a sub-sequence of the keys 1..7, each at most once ---------- *)
Definition ent (b : bool) (k : Z) : list value := if b then [VInt k] else [].

Lemma keys_opt_entry {A} k (o : option A) f : map fst (opt_entry k o f) = ent (issome o) k.
Proof. destruct o; reflexivity. Qed.
Lemma keys_bytes_entry k b : map fst (bytes_entry k b) = ent (negb (isnil b)) k.
Proof. destruct b; reflexivity. Qed.
Lemma keys_if_entry (b : bool) k (v : value) : map fst (if b then [] else [(VInt k, v)]) = ent (negb b) k.
Proof. destruct b; reflexivity. Qed.

Lemma ent7_nodup b1 b2 b3 b4 b5 b6 b7 :
  NoDup (ent b1 1 ++ ent b2 2 ++ ent b3 3 ++ ent b4 4 ++ ent b5 5 ++ ent b6 6 ++ ent b7 7).
Proof. destruct b1, b2, b3, b4, b5, b6, b7; cbn [ent app];
  repeat (constructor; [cbn [In]; intuition discriminate|]); constructor. Qed.

(* ---------- headers ---------- *)
Definition header_typed (h : header) : list (value * value) :=
  opt_entry 1 (h_alg h) regp_to_value
  ++ (if isnil (h_crit h) then [] else [(VInt 2, VArray (map reg_to_value (h_crit h)))])
  ++ opt_entry 3 (h_ctype h) reg_to_value
  ++ bytes_entry 4 (h_kid h)
  ++ bytes_entry 5 (h_iv h)
  ++ bytes_entry 6 (h_piv h).

Lemma header_to_value_eq h : header_to_value h =
  do m2 <-
    match h_csigs h with
    | [] => Ok (header_typed h)
    | [s] => do sv <- signature_to_value s; Ok (header_typed h ++ [(VInt 7, sv)])
    | ss => do svs <- mapM signature_to_value ss; Ok (header_typed h ++ [(VInt 7, VArray svs)])
    end;
  do seen <- seed_seen m2;
  do m <- emit_rest (h_rest h) seen m2;
  Ok (VMap m).
Proof. destruct h; reflexivity. Qed.

(* what a successful header encoding is made of *)
Lemma header_to_value_inv h m : header_to_value h = Ok (VMap m) ->
  exists (b7 : bool) (x : value) seen,
    let m2 := header_typed h ++ (if b7 then [(VInt 7, x)] else []) in
    seed_seen m2 = Ok seen /\ emit_rest (h_rest h) seen m2 = Ok m.
Proof.
  rewrite header_to_value_eq. intros H.
  match type of H with bind ?X _ = _ => destruct X as [m2| | |] eqn:E2 end; cbn [bind] in H; try discriminate.
  destruct (seed_seen m2) as [seen| | |] eqn:SS; cbn [bind] in H; try discriminate.
  destruct (emit_rest (h_rest h) seen m2) as [m'| | |] eqn:ER; cbn [bind] in H; try discriminate.
  injection H as <-.
  destruct (h_csigs h) as [|s [|s' ss]].
  - injection E2 as <-. exists false, VNull, seen. cbv zeta. rewrite app_nil_r. auto.
  - destruct (signature_to_value s) as [sv| | |]; cbn [bind] in E2; try discriminate. injection E2 as <-.
    exists true, sv, seen. auto.
  - destruct (mapM signature_to_value (s :: s' :: ss)) as [svs| | |]; cbn [bind] in E2; try discriminate.
    injection E2 as <-. exists true, (VArray svs), seen. auto.
Qed.

Lemma header_typed_keys h (b7 : bool) (x : value) :
  map fst (header_typed h ++ (if b7 then [(VInt 7, x)] else [])) =
  ent (issome (h_alg h)) 1 ++ ent (negb (isnil (h_crit h))) 2 ++ ent (issome (h_ctype h)) 3
  ++ ent (negb (isnil (h_kid h))) 4 ++ ent (negb (isnil (h_iv h))) 5 ++ ent (negb (isnil (h_piv h))) 6
  ++ ent b7 7.
Proof. unfold header_typed. rewrite !map_app, !keys_opt_entry, !keys_bytes_entry, keys_if_entry.
  rewrite <- !app_assoc. destruct b7; reflexivity. Qed.

Theorem header_encoding_has_distinct_keys : forall h m,
  header_to_value h = Ok (VMap m) -> NoDup (map fst m).
Proof. intros h m H. apply header_to_value_inv in H as (b7 & x & seen & S & E). cbv zeta in *.
  eapply emit_keys_nodup; eauto. rewrite header_typed_keys. apply ent7_nodup. Qed.

Theorem header_extra_repeating_label_fails : forall h m,
  ~ NoDup (map fst (h_rest h)) -> header_to_value h <> Ok (VMap m).
Proof. intros h m ND H. apply header_to_value_inv in H as (b7 & x & seen & S & E). cbv zeta in *.
  apply emit_rest_nodup in E as (tail & _ & _ & ND' & _). contradiction. Qed.

(* generic form: an extra label equal to the label of an emitted typed entry *)
Lemma header_extra_clashes_typed_fails h m k :
  In (VInt k) (map fst (header_typed h)) -> In (LInt k) (map fst (h_rest h)) ->
  header_to_value h <> Ok (VMap m).
Proof. intros IT IR H. apply header_to_value_inv in H as (b7 & x & seen & S & E). cbv zeta in *.
  apply emit_rest_nodup in E as (tail & _ & _ & _ & DJ).
  destruct (seed_seen_In _ seen (VInt k) S) as (l & LK & Is).
  - rewrite map_app, in_app_iff. now left.
  - apply (label_from_to (LInt k)) in LK. subst l. exact (DJ _ IR Is). Qed.

Theorem header_extra_equal_to_kid_fails : forall h m,
  h_kid h <> [] -> In (LInt 4) (map fst (h_rest h)) -> header_to_value h <> Ok (VMap m).
Proof. intros h m NK IR. apply header_extra_clashes_typed_fails with (k := 4); auto.
  pose proof (header_typed_keys h false VNull) as K. rewrite app_nil_r in K. rewrite K.
  destruct (h_kid h); [congruence|]. cbn [isnil negb]. rewrite !in_app_iff. right. right. right. left. now left. Qed.

(* ---------- keys ---------- *)
Definition key_typed (k : cose_key) : list (value * value) :=
  [(VInt 1, reg_to_value (k_kty k))]
  ++ bytes_entry 2 (k_kid k)
  ++ opt_entry 3 (k_alg k) regp_to_value
  ++ (if isnil (k_ops k) then [] else [(VInt 4, VArray (map reg_to_value (k_ops k)))])
  ++ bytes_entry 5 (k_base_iv k).

Lemma CoseKey_to_value_eq k : CoseKey_to_value k =
  do seen <- seed_seen (key_typed k); do m <- emit_rest (k_params k) seen (key_typed k); Ok (VMap m).
Proof. reflexivity. Qed.

Lemma CoseKey_to_value_inv k m : CoseKey_to_value k = Ok (VMap m) ->
  exists seen, seed_seen (key_typed k) = Ok seen /\ emit_rest (k_params k) seen (key_typed k) = Ok m.
Proof. rewrite CoseKey_to_value_eq. intros H.
  destruct (seed_seen (key_typed k)) as [seen| | |] eqn:SS; cbn [bind] in H; try discriminate.
  destruct (emit_rest (k_params k) seen (key_typed k)) as [m'| | |] eqn:ER; cbn [bind] in H; try discriminate.
  injection H as <-. eauto. Qed.

Lemma key_typed_keys k :
  map fst (key_typed k) =
  ent true 1 ++ ent (negb (isnil (k_kid k))) 2 ++ ent (issome (k_alg k)) 3
  ++ ent (negb (isnil (k_ops k))) 4 ++ ent (negb (isnil (k_base_iv k))) 5 ++ ent false 6 ++ ent false 7.
Proof. unfold key_typed. rewrite !map_app, !keys_opt_entry, !keys_bytes_entry, keys_if_entry.
  cbn [ent]. rewrite !app_nil_r. reflexivity. Qed.

Theorem key_encoding_has_distinct_keys : forall k m,
  CoseKey_to_value k = Ok (VMap m) -> NoDup (map fst m).
Proof. intros k m H. apply CoseKey_to_value_inv in H as (seen & S & E).
  eapply emit_keys_nodup; eauto. rewrite key_typed_keys. apply ent7_nodup. Qed.

Theorem key_extra_repeating_label_fails : forall k m,
  ~ NoDup (map fst (k_params k)) -> CoseKey_to_value k <> Ok (VMap m).
Proof. intros k m ND H. apply CoseKey_to_value_inv in H as (seen & S & E).
  apply emit_rest_nodup in E as (tail & _ & _ & ND' & _). contradiction. Qed.

Lemma key_extra_clashes_typed_fails k m z :
  In (VInt z) (map fst (key_typed k)) -> In (LInt z) (map fst (k_params k)) ->
  CoseKey_to_value k <> Ok (VMap m).
Proof. intros IT IR H. apply CoseKey_to_value_inv in H as (seen & S & E).
  apply emit_rest_nodup in E as (tail & _ & _ & _ & DJ).
  destruct (seed_seen_In _ seen (VInt z) S IT) as (l & LK & Is).
  apply (label_from_to (LInt z)) in LK. subst l. exact (DJ _ IR Is). Qed.

Theorem key_extra_equal_to_kty_fails : forall k m,
  In (LInt 1) (map fst (k_params k)) -> CoseKey_to_value k <> Ok (VMap m).
Proof. intros k m IR. apply key_extra_clashes_typed_fails with (z := 1); auto. now left. Qed.

(* ---------- claims sets: the encoder has no such check (known finding, pinned upstream by
   test_cwt_dup_claim) ---------- *)
Lemma claims_encoding_dup_refuted :
  exists c m, ClaimsSet_to_value c = Ok (VMap m) /\ ~ NoDup (map fst m).
Proof.
  exists (mkClaims None None None None None None None [(PText [x61], VInt 1); (PText [x61], VInt 2)]).
  eexists. split; [reflexivity|]. cbn. intros ND. inversion ND as [|? ? NI _]; subst. apply NI. now left. Qed.

Print Assumptions header_dup_never_accepted.
Print Assumptions Header_dup_never_accepted.
Print Assumptions CoseKey_dup_never_accepted.
Print Assumptions claims_dup_never_accepted.
Print Assumptions header_dup_reported.
Print Assumptions key_dup_reported.
Print Assumptions claims_dup_reported.
Print Assumptions emit_rest_nodup.
Print Assumptions header_encoding_has_distinct_keys.
Print Assumptions key_encoding_has_distinct_keys.
Print Assumptions header_extra_repeating_label_fails.
Print Assumptions header_extra_equal_to_kid_fails.
Print Assumptions key_extra_repeating_label_fails.
Print Assumptions key_extra_equal_to_kty_fails.
Print Assumptions claims_encoding_dup_refuted.
