(* C19, completed: frame / effect, override, accumulation and commutation laws for all
   fourteen builders of Model/Builders.v.

   For every builder X with state record S and every constructor C of X_op:
   (a) X_step_effect: the exact outcome of one call - the new value of the written field and
       every other field unchanged, written `X_fields s' v1 .. vn` (a conjunction of
       field-wise equations); for calls that can panic or fail, the exact condition.
   (b) X_later_setter_overrides: a later call of a plain setter overrides an earlier one;
       X_accumulates: accumulating calls append (or insert) in call order.
   (c) X_ops_commute: two calls with independent footprints commute.  The footprint of a call
       is given by X_writes / X_reads (defined here, only for stating the laws); X_step_frame
       proves that nothing outside X_writes changes, and the commutation theorem itself shows
       that X_reads is not under-approximated.  Two plain setters (X_reads = nil) of different
       fields are the special case X_setters_commute.
   Nothing of Proofs/BuilderInv.v is re-proved; it is imported and re-exported in the final
   conjunction all_builders_frame_laws. *)
From Coq Require Import Lia ZifyBool ZifyN ZifyNat.
From Coset.Model Require Import Prelude Cbor Iana Label Msg Key Cwt Context Builders.
From Coset.Proofs Require Import Order IanaTables NoPanic BuilderInv.
Open Scope string_scope. Open Scope Z_scope. Open Scope list_scope.

(* ------------------------------------------------------------------------------------------ *)
(* 0. generic definitions                                                                     *)
(* ------------------------------------------------------------------------------------------ *)

(* two calls in a row *)
Definition seq2 {S O} (step : S -> O -> res S) (s : S) (o1 o2 : O) : res S :=
  do s1 <- step s o1; step s1 o2.

Section Footprint.
  Context {F : Type} (dec : forall a b : F, {a = b} + {a <> b}).
  Definition memb (f : F) (l : list F) : bool := if in_dec dec f l then true else false.
  Definition disjointb (l1 l2 : list F) : bool := forallb (fun f => negb (memb f l2)) l1.
  Definition inclb (l1 l2 : list F) : bool := forallb (fun f => memb f l2) l1.

  (* footprints are independent: neither call writes what the other reads or writes *)
  Definition disjoint (l1 l2 : list F) : Prop := forall f, In f l1 -> ~ In f l2.
  Definition independent (w1 r1 w2 r2 : list F) : Prop :=
    disjoint w1 (r2 ++ w2) /\ disjoint w2 (r1 ++ w1).
  Definition independentb (w1 r1 w2 r2 : list F) : bool :=
    disjointb w1 (r2 ++ w2) && disjointb w2 (r1 ++ w1).

  Lemma memb_true f l : In f l -> memb f l = true.
  Proof. unfold memb. destruct (in_dec dec f l); [reflexivity|contradiction]. Qed.
  Lemma memb_false f l : ~ In f l -> memb f l = false.
  Proof. unfold memb. destruct (in_dec dec f l); [contradiction|reflexivity]. Qed.
  Lemma disjointb_of l1 l2 : disjoint l1 l2 -> disjointb l1 l2 = true.
  Proof.
    unfold disjoint, disjointb. intros H. apply forallb_forall. intros f Hf.
    rewrite memb_false; [reflexivity|auto].
  Qed.
  Lemma inclb_of l1 l2 : incl l1 l2 -> inclb l1 l2 = true.
  Proof.
    unfold incl, inclb. intros H. apply forallb_forall. intros f Hf. apply memb_true. auto.
  Qed.
  Lemma independentb_of w1 r1 w2 r2 : independent w1 r1 w2 r2 -> independentb w1 r1 w2 r2 = true.
  Proof. intros [H1 H2]. unfold independentb. now rewrite !disjointb_of. Qed.
End Footprint.

(* a run of accumulating calls appends the accumulated elements in call order *)
Lemma run_ops_accumulate {S O A B} (step : S -> O -> res S) (mk : A -> O) (elt : A -> B)
      (P : A -> Prop) (get : S -> list B) (set : list B -> S -> S) :
  (forall s a, P a -> step s (mk a) = Ok (set (get s ++ [elt a]) s)) ->
  (forall l s, get (set l s) = l) ->
  (forall l1 l2 s, set l1 (set l2 s) = set l1 s) ->
  (forall s, set (get s) s = s) ->
  forall l s, Forall P l -> run_ops step (map mk l) s = Ok (set (get s ++ map elt l) s).
Proof.
  intros Hstep Hgs Hss Hid. induction l as [|a l IH]; intros s HP.
  - cbn [map]. rewrite app_nil_r, Hid. reflexivity.
  - inversion HP as [|? ? Pa Pl]; subst. cbn [map]. rewrite run_ops_cons, (Hstep s a Pa).
    rewrite (IH _ Pl), Hgs, Hss, <- app_assoc. reflexivity.
Qed.

Lemma Forall_True {A} (l : list A) : Forall (fun _ => True) l.
Proof. induction l; constructor; auto. Qed.

(* ---------- serialisable protected headers: the condition of the creators' panic ---------- *)
(* .expect("failed to serialize header") *)
Definition serialisable (p : protected) : Prop := exists v, protected_cbor_bstr p = Ok v.

Lemma not_serialisable_err p : ~ serialisable p -> exists e, protected_cbor_bstr p = Err e.
Proof.
  intros H. destruct (protected_cbor_bstr_total p) as [H1 H2].
  destruct (protected_cbor_bstr p) as [v|e| |] eqn:E; try congruence; [|eauto].
  exfalso. apply H. exists v. exact E.
Qed.

Lemma expect_serialisable p : serialisable p -> exists v, expect (protected_cbor_bstr p) = Ok v.
Proof. intros [v H]. exists v. rewrite H. reflexivity. Qed.
Lemma expect_not_serialisable p : ~ serialisable p -> expect (protected_cbor_bstr p) = Panic.
Proof. intros H. destruct (not_serialisable_err p H) as [e E]. rewrite E. reflexivity. Qed.

Lemma serialisable_fresh_default : serialisable protected_default.
Proof. eexists. reflexivity. Qed.

Definition opt_serialisable (o : option protected) : Prop :=
  match o with Some p => serialisable p | None => True end.

Lemma sig_structure_data_ok c p s aad pl :
  serialisable p -> opt_serialisable s -> exists tbs, sig_structure_data c p s aad pl = Ok tbs.
Proof.
  intros Hp Hs. unfold sig_structure_data.
  destruct (expect_serialisable p Hp) as [v ->]. cbn [bind].
  destruct s as [sp|]; cbn [opt_serialisable] in Hs.
  - destruct (expect_serialisable sp Hs) as [x ->]. cbn [bind]. eauto.
  - cbn [bind]. eauto.
Qed.
Lemma sig_structure_data_panic c p s aad pl :
  ~ (serialisable p /\ opt_serialisable s) -> sig_structure_data c p s aad pl = Panic.
Proof.
  intros H. unfold sig_structure_data.
  destruct (protected_cbor_bstr p) as [v|e| |] eqn:E; cbn [expect bind]; try reflexivity.
  - destruct s as [sp|]; [|exfalso; apply H; split; [now exists v|exact I]].
    rewrite expect_not_serialisable; [reflexivity|].
    intros Hs. apply H. split; [now exists v|exact Hs].
  - destruct (protected_cbor_bstr_total p) as [_ H2]. congruence.
Qed.
Lemma mac_structure_data_ok c p aad pl : serialisable p -> exists t, mac_structure_data c p aad pl = Ok t.
Proof. intros Hp. unfold mac_structure_data. destruct (expect_serialisable p Hp) as [v ->]. cbn [bind]. eauto. Qed.
Lemma mac_structure_data_panic c p aad pl : ~ serialisable p -> mac_structure_data c p aad pl = Panic.
Proof. intros Hp. unfold mac_structure_data. now rewrite expect_not_serialisable. Qed.
Lemma enc_structure_data_ok c p aad : serialisable p -> exists t, enc_structure_data c p aad = Ok t.
Proof. intros Hp. unfold enc_structure_data. destruct (expect_serialisable p Hp) as [v ->]. cbn [bind]. eauto. Qed.
Lemma enc_structure_data_panic c p aad : ~ serialisable p -> enc_structure_data c p aad = Panic.
Proof. intros Hp. unfold enc_structure_data. now rewrite expect_not_serialisable. Qed.

(* outcome of a creator: `r` is the to-be-signed / to-be-MACed / AAD computation, `f` the
   closure, `k` stores the closure's output *)
Definition creator_outcome {S} (step_result : res S) (r : res bytes) (f : bytes -> option bytes)
           (post : S -> bytes -> Prop) : Prop :=
  match r with
  | Ok tbs => match f tbs with
              | Some out => exists s', step_result = Ok s' /\ post s' out
              | None => step_result = Err EEncode   (* the closure's error is passed on *)
              end
  | Err e => step_result = Err e
  | Panic => step_result = Panic
  | OutOfFuel => step_result = OutOfFuel
  end.

(* complete specification of a creator call:
   - its outcome given the result `r` of the structure computation (creator_outcome),
   - under the precondition `pre` the structure computation succeeds,
   - the call panics exactly when `pre` does not hold. *)
Definition creator_spec {S} (step_result : res S) (r : res bytes) (f : bytes -> option bytes)
           (pre : Prop) (post : S -> bytes -> Prop) : Prop :=
  creator_outcome step_result r f post /\ (pre -> exists t, r = Ok t) /\ (step_result = Panic <-> ~ pre).

Lemma creator_spec_intro {S} (r : res bytes) (f : bytes -> option bytes) (k : bytes -> S)
      (pre : Prop) (post : S -> bytes -> Prop) :
  (pre -> exists t, r = Ok t) -> (~ pre -> r = Panic) -> (forall o, post (k o) o) ->
  creator_spec (do t <- r; do o <- call1 f t; Ok (k o)) r f pre post.
Proof.
  intros H1 H2 Hpost. split; [|split; [exact H1|split]].
  - unfold creator_outcome. destruct r as [t|e| |]; cbn [bind]; try reflexivity.
    unfold call1. destruct (f t); cbn [bind]; [eauto|reflexivity].
  - intros HP Hpre. destruct (H1 Hpre) as [t E]. rewrite E in HP. cbn [bind] in HP.
    unfold call1 in HP. destruct (f t); discriminate HP.
  - intros Hn. rewrite (H2 Hn). reflexivity.
Qed.

(* serialisability is decidable (protected_cbor_bstr neither panics nor runs out of fuel), so a
   creator call has exactly three possible outcomes *)
Lemma serialisable_dec p : serialisable p \/ ~ serialisable p.
Proof.
  destruct (protected_cbor_bstr p) as [v|e| |] eqn:E.
  - left. now exists v.
  - right. intros [v H]. congruence.
  - right. intros [v H]. congruence.
  - right. intros [v H]. congruence.
Qed.

Lemma creator_spec_cases {S} (result : res S) r f (pre : Prop) post :
  creator_spec result r f pre post -> pre \/ ~ pre ->
  (pre /\ exists t out s', r = Ok t /\ f t = Some out /\ result = Ok s' /\ post s' out)
  \/ (pre /\ exists t, r = Ok t /\ f t = None /\ result = Err EEncode)
  \/ (~ pre /\ result = Panic).
Proof.
  intros [Ho [Hok Hp]] [Hpre|Hn].
  - destruct (Hok Hpre) as [t Et]. unfold creator_outcome in Ho. rewrite Et in Ho.
    destruct (f t) as [out|] eqn:Ef.
    + destruct Ho as [s' [E P]]. left. split; [exact Hpre|]. exists t, out, s'. auto.
    + right. left. split; [exact Hpre|]. exists t. auto.
  - right. right. split; [exact Hn|]. now apply Hp.
Qed.

(* a run of plain appends *)
Lemma run_ops_append {S O B} (step : S -> O -> res S) (mk : B -> O)
      (get : S -> list B) (set : list B -> S -> S) :
  (forall s a, step s (mk a) = Ok (set (get s ++ [a]) s)) ->
  (forall l s, get (set l s) = l) ->
  (forall l1 l2 s, set l1 (set l2 s) = set l1 s) ->
  (forall s, set (get s) s = s) ->
  forall l s, run_ops step (map mk l) s = Ok (set (get s ++ l) s).
Proof.
  intros H1 H2 H3 H4 l s.
  rewrite (run_ops_accumulate step mk (fun x => x) (fun _ => True) get set); auto using Forall_True.
  now rewrite map_id.
Qed.

(* two outcomes agree: same kind of result, and related states when both returned *)
Definition res_agree {S} (R : S -> S -> Prop) (r1 r2 : res S) : Prop :=
  match r1, r2 with
  | Ok a, Ok b => R a b
  | Err e1, Err e2 => e1 = e2
  | Panic, Panic => True
  | OutOfFuel, OutOfFuel => True
  | _, _ => False
  end.

(* ---------- tactics ---------- *)
Ltac fp_false H := vm_compute in H; discriminate H.

(* split the scrutinee of the first stuck `bind` / `if` / `match` of the goal *)
Ltac split_scrutinee :=
  match goal with
  | |- context[if ?c then _ else _] => destruct c; cbn [bind]
  | |- context[match ?f ?x with Some _ => _ | None => _ end] => destruct (f x); cbn [bind]
  | |- context[bind ?r _] =>
    lazymatch r with Ok _ => fail | Err _ => fail | Panic => fail | OutOfFuel => fail
                     | bind _ _ => fail | _ => idtac end;
    destruct r; cbn [bind]
  end.

(* invert a step equation `... = Ok s'` through binds, ifs and option matches *)
Ltac inv_ok E :=
  repeat match type of E with
  | bind ?r _ = Ok _ => destruct r; cbn [bind] in E; try discriminate E
  | (if ?c then _ else _) = Ok _ => destruct c; try discriminate E
  end.

(* use the hypotheses `In f (reads o) -> x = y` of an agree_on assumption *)
Ltac use_agree :=
  repeat match goal with H : _ /\ _ |- _ => destruct H end;
  repeat match goal with
  | H : ?P -> _ = _ |- _ => first [ specialize (H ltac:(cbn; auto 8)) | clear H ]
  end; subst.
Ltac agree_tac :=
  repeat match goal with |- _ /\ _ => split end;
  intros Hin; try reflexivity; exfalso; cbn in Hin; intuition discriminate.
Ltac reads_finish :=
  repeat split_scrutinee; cbn [res_agree]; try exact I; try reflexivity.

(* ------------------------------------------------------------------------------------------ *)
(* 1. HeaderBuilder                                                                           *)
(* ------------------------------------------------------------------------------------------ *)
Inductive header_field := HF_alg | HF_crit | HF_ctype | HF_kid | HF_iv | HF_piv | HF_csigs | HF_rest.
Definition header_field_dec : forall a b : header_field, {a = b} + {a <> b}.
Proof. decide equality. Defined.

Definition header_writes (o : header_op) : list header_field :=
  match o with
  | HO_key_id _ => [HF_kid]
  | HO_algorithm _ => [HF_alg]
  | HO_add_critical _ | HO_add_critical_label _ => [HF_crit]
  | HO_content_format _ | HO_content_type _ => [HF_ctype]
  | HO_iv _ | HO_partial_iv _ => [HF_iv; HF_piv]     (* each clears the other *)
  | HO_add_counter_signature _ => [HF_csigs]
  | HO_value _ _ | HO_text_value _ _ => [HF_rest]
  end.
Definition header_reads (o : header_op) : list header_field :=
  match o with
  | HO_add_critical _ | HO_add_critical_label _ => [HF_crit]
  | HO_add_counter_signature _ => [HF_csigs]
  | HO_value _ _ | HO_text_value _ _ => [HF_rest]
  | _ => []
  end.
Definition header_independent (o1 o2 : header_op) : Prop :=
  independent (header_writes o1) (header_reads o1) (header_writes o2) (header_reads o2).

Definition header_fields (h : header) alg crit ctype kid iv piv csigs rest : Prop :=
  h_alg h = alg /\ h_crit h = crit /\ h_ctype h = ctype /\ h_kid h = kid /\ h_iv h = iv /\
  h_piv h = piv /\ h_csigs h = csigs /\ h_rest h = rest.

Definition header_unchanged_outside (ws : list header_field) (h h' : header) : Prop :=
  (~ In HF_alg ws -> h_alg h' = h_alg h) /\ (~ In HF_crit ws -> h_crit h' = h_crit h) /\
  (~ In HF_ctype ws -> h_ctype h' = h_ctype h) /\ (~ In HF_kid ws -> h_kid h' = h_kid h) /\
  (~ In HF_iv ws -> h_iv h' = h_iv h) /\ (~ In HF_piv ws -> h_piv h' = h_piv h) /\
  (~ In HF_csigs ws -> h_csigs h' = h_csigs h) /\ (~ In HF_rest ws -> h_rest h' = h_rest h).

Ltac frame_tac :=
  repeat match goal with |- _ /\ _ => split end;
  intros Hnot; try reflexivity; exfalso; apply Hnot; cbn; tauto.

Theorem header_step_effect :
  (forall h b, exists h', header_builder_step h (HO_key_id b) = Ok h' /\
     header_fields h' (h_alg h) (h_crit h) (h_ctype h) b (h_iv h) (h_piv h) (h_csigs h) (h_rest h))
  /\ (forall h a, exists h', header_builder_step h (HO_algorithm a) = Ok h' /\
     header_fields h' (Some (PAssigned a)) (h_crit h) (h_ctype h) (h_kid h) (h_iv h) (h_piv h) (h_csigs h) (h_rest h))
  /\ (forall h p, exists h', header_builder_step h (HO_add_critical p) = Ok h' /\
     header_fields h' (h_alg h) (h_crit h ++ [RAssigned p]) (h_ctype h) (h_kid h) (h_iv h) (h_piv h) (h_csigs h) (h_rest h))
  /\ (forall h l, exists h', header_builder_step h (HO_add_critical_label l) = Ok h' /\
     header_fields h' (h_alg h) (h_crit h ++ [l]) (h_ctype h) (h_kid h) (h_iv h) (h_piv h) (h_csigs h) (h_rest h))
  /\ (forall h cf, exists h', header_builder_step h (HO_content_format cf) = Ok h' /\
     header_fields h' (h_alg h) (h_crit h) (Some (RAssigned cf)) (h_kid h) (h_iv h) (h_piv h) (h_csigs h) (h_rest h))
  /\ (forall h t, exists h', header_builder_step h (HO_content_type t) = Ok h' /\
     header_fields h' (h_alg h) (h_crit h) (Some (RText t)) (h_kid h) (h_iv h) (h_piv h) (h_csigs h) (h_rest h))
  (* iv clears partial_iv and conversely *)
  /\ (forall h b, exists h', header_builder_step h (HO_iv b) = Ok h' /\
     header_fields h' (h_alg h) (h_crit h) (h_ctype h) (h_kid h) b [] (h_csigs h) (h_rest h))
  /\ (forall h b, exists h', header_builder_step h (HO_partial_iv b) = Ok h' /\
     header_fields h' (h_alg h) (h_crit h) (h_ctype h) (h_kid h) [] b (h_csigs h) (h_rest h))
  /\ (forall h s, exists h', header_builder_step h (HO_add_counter_signature s) = Ok h' /\
     header_fields h' (h_alg h) (h_crit h) (h_ctype h) (h_kid h) (h_iv h) (h_piv h) (h_csigs h ++ [s]) (h_rest h))
  (* value: documented panic exactly on the core labels 1..7 *)
  /\ (forall h l v, ~ (1 <= l <= 7) -> exists h', header_builder_step h (HO_value l v) = Ok h' /\
     header_fields h' (h_alg h) (h_crit h) (h_ctype h) (h_kid h) (h_iv h) (h_piv h) (h_csigs h) (h_rest h ++ [(LInt l, v)]))
  /\ (forall h l v, 1 <= l <= 7 -> header_builder_step h (HO_value l v) = Panic)
  /\ (forall h l v, exists h', header_builder_step h (HO_text_value l v) = Ok h' /\
     header_fields h' (h_alg h) (h_crit h) (h_ctype h) (h_kid h) (h_iv h) (h_piv h) (h_csigs h) (h_rest h ++ [(LText l, v)])).
Proof.
  repeat match goal with |- _ /\ _ => split end;
    try (intros h x; eexists; split; [reflexivity|repeat split]);
    try (intros h l v; eexists; split; [reflexivity|repeat split]).
  - intros h l v H. eexists. split; [apply header_value_appends; exact H|repeat split].
  - intros h l v H. now apply header_value_panics_iff.
Qed.

(* nothing outside the write footprint changes, for every call that returns *)
Theorem header_step_frame : forall h o h',
  header_builder_step h o = Ok h' -> header_unchanged_outside (header_writes o) h h'.
Proof.
  intros h o h' E. destruct o; cbn [header_builder_step] in E;
    try (injection E as <-; unfold header_unchanged_outside; frame_tac).
  destruct (_ && _); [discriminate|]. injection E as <-. unfold header_unchanged_outside. frame_tac.
Qed.

Definition header_agree_on (fs : list header_field) (h h' : header) : Prop :=
  (In HF_alg fs -> h_alg h = h_alg h') /\ (In HF_crit fs -> h_crit h = h_crit h') /\
  (In HF_ctype fs -> h_ctype h = h_ctype h') /\ (In HF_kid fs -> h_kid h = h_kid h') /\
  (In HF_iv fs -> h_iv h = h_iv h') /\ (In HF_piv fs -> h_piv h = h_piv h') /\
  (In HF_csigs fs -> h_csigs h = h_csigs h') /\ (In HF_rest fs -> h_rest h = h_rest h').

(* the outcome of a call, and what it writes, depend only on the read footprint *)
Theorem header_step_reads : forall o h1 h2, header_agree_on (header_reads o) h1 h2 ->
  res_agree (header_agree_on (header_writes o)) (header_builder_step h1 o) (header_builder_step h2 o).
Proof.
  intros o h1 h2 H. destruct h1 as [x0 x1 x2 x3 x4 x5 x6 x7], h2 as [y0 y1 y2 y3 y4 y5 y6 y7]; destruct o;
    unfold header_agree_on in H;
    cbn [header_reads h_alg h_crit h_ctype h_kid h_iv h_piv h_csigs h_rest] in H; use_agree;
    cbn [header_builder_step]; reads_finish; unfold header_agree_on; agree_tac.
Qed.

Theorem header_later_setter_overrides :
  (forall h b1 b2, seq2 header_builder_step h (HO_key_id b1) (HO_key_id b2) = header_builder_step h (HO_key_id b2))
  /\ (forall h a1 a2, seq2 header_builder_step h (HO_algorithm a1) (HO_algorithm a2) = header_builder_step h (HO_algorithm a2))
  /\ (forall h a1 a2, seq2 header_builder_step h (HO_content_format a1) (HO_content_format a2) = header_builder_step h (HO_content_format a2))
  /\ (forall h a1 a2, seq2 header_builder_step h (HO_content_type a1) (HO_content_type a2) = header_builder_step h (HO_content_type a2))
  (* content_format and content_type set the same field *)
  /\ (forall h a1 a2, seq2 header_builder_step h (HO_content_format a1) (HO_content_type a2) = header_builder_step h (HO_content_type a2))
  /\ (forall h a1 a2, seq2 header_builder_step h (HO_content_type a1) (HO_content_format a2) = header_builder_step h (HO_content_format a2))
  /\ (forall h b1 b2, seq2 header_builder_step h (HO_iv b1) (HO_iv b2) = header_builder_step h (HO_iv b2))
  /\ (forall h b1 b2, seq2 header_builder_step h (HO_partial_iv b1) (HO_partial_iv b2) = header_builder_step h (HO_partial_iv b2))
  (* iv and partial_iv override each other *)
  /\ (forall h b1 b2, seq2 header_builder_step h (HO_iv b1) (HO_partial_iv b2) = header_builder_step h (HO_partial_iv b2))
  /\ (forall h b1 b2, seq2 header_builder_step h (HO_partial_iv b1) (HO_iv b2) = header_builder_step h (HO_iv b2)).
Proof. repeat split; intros; reflexivity. Qed.

(* general form: a plain setter overrides every earlier call whose writes it covers *)
Theorem header_setter_overrides_covered : forall h o1 o2 h1,
  header_builder_step h o1 = Ok h1 -> header_reads o2 = [] -> incl (header_writes o1) (header_writes o2) ->
  header_builder_step h1 o2 = header_builder_step h o2.
Proof.
  intros h o1 o2 h1 E R I. apply (inclb_of header_field_dec) in I.
  destruct h; destruct o1, o2; try discriminate R; try (fp_false I); clear R I;
    cbn [header_builder_step] in E;
    try (destruct (_ && _); [discriminate E|]); injection E as <-; reflexivity.
Qed.

(* accumulating calls *)
Theorem header_accumulates :
  (forall h p, header_builder_step h (HO_add_critical p) = header_builder_step h (HO_add_critical_label (RAssigned p)))
  /\ (forall ls h, run_ops header_builder_step (map HO_add_critical_label ls) h = Ok (set_crit (h_crit h ++ ls) h))
  /\ (forall ps h, run_ops header_builder_step (map HO_add_critical ps) h = Ok (set_crit (h_crit h ++ map RAssigned ps) h))
  /\ (forall ss h, run_ops header_builder_step (map HO_add_counter_signature ss) h = Ok (set_csigs (h_csigs h ++ ss) h))
  /\ (forall lvs h, Forall (fun lv => ~ (1 <= fst lv <= 7)) lvs ->
        run_ops header_builder_step (map (fun lv => HO_value (fst lv) (snd lv)) lvs) h
        = Ok (set_rest (h_rest h ++ map (fun lv => (LInt (fst lv), snd lv)) lvs) h))
  /\ (forall lvs h,
        run_ops header_builder_step (map (fun lv => HO_text_value (fst lv) (snd lv)) lvs) h
        = Ok (set_rest (h_rest h ++ map (fun lv => (LText (fst lv), snd lv)) lvs) h)).
Proof.
  repeat match goal with |- _ /\ _ => split end.
  - reflexivity.
  - intros ls h. rewrite <- (map_id ls) at 2.
    apply (run_ops_accumulate header_builder_step HO_add_critical_label (fun x => x) (fun _ => True) h_crit set_crit);
      try reflexivity; [now intros []|apply Forall_True].
  - intros ps h.
    apply (run_ops_accumulate header_builder_step HO_add_critical RAssigned (fun _ => True) h_crit set_crit);
      try reflexivity; [now intros []|apply Forall_True].
  - intros ss h. rewrite <- (map_id ss) at 2.
    apply (run_ops_accumulate header_builder_step HO_add_counter_signature (fun x => x) (fun _ => True) h_csigs set_csigs);
      try reflexivity; [now intros []|apply Forall_True].
  - intros lvs h H.
    apply (run_ops_accumulate header_builder_step (fun lv => HO_value (fst lv) (snd lv))
             (fun lv => (LInt (fst lv), snd lv)) (fun lv => ~ (1 <= fst lv <= 7)) h_rest set_rest);
      try reflexivity; [intros s a Pa; now apply header_value_appends|now intros []|exact H].
  - intros lvs h.
    apply (run_ops_accumulate header_builder_step (fun lv => HO_text_value (fst lv) (snd lv))
             (fun lv => (LText (fst lv), snd lv)) (fun _ => True) h_rest set_rest);
      try reflexivity; [now intros []|apply Forall_True].
Qed.

(* calls with independent footprints commute *)
Theorem header_ops_commute : forall h o1 o2, header_independent o1 o2 ->
  seq2 header_builder_step h o1 o2 = seq2 header_builder_step h o2 o1.
Proof.
  intros h o1 o2 H. apply (independentb_of header_field_dec) in H.
  destruct h; destruct o1, o2; try (fp_false H); clear H;
    unfold seq2; cbn [header_builder_step bind]; repeat split_scrutinee; reflexivity.
Qed.

Corollary header_setters_commute : forall h o1 o2,
  header_reads o1 = [] -> header_reads o2 = [] -> disjoint (header_writes o1) (header_writes o2) ->
  seq2 header_builder_step h o1 o2 = seq2 header_builder_step h o2 o1.
Proof.
  intros h o1 o2 R1 R2 D. apply header_ops_commute. unfold header_independent, independent.
  rewrite R1, R2. cbn [app]. split; [exact D|]. intros f H2 H1. exact (D f H1 H2).
Qed.

(* ------------------------------------------------------------------------------------------ *)
(* 2. what the creators hand to their closure: success and panic conditions                   *)
(* ------------------------------------------------------------------------------------------ *)
Lemma Sign1_tbs_data_ok m aad : serialisable (s1_prot m) -> exists t, Sign1_tbs_data m aad = Ok t.
Proof. intros H. unfold Sign1_tbs_data. apply sig_structure_data_ok; [exact H|exact I]. Qed.
Lemma Sign1_tbs_data_panic m aad : ~ serialisable (s1_prot m) -> Sign1_tbs_data m aad = Panic.
Proof. intros H. unfold Sign1_tbs_data. apply sig_structure_data_panic. tauto. Qed.

(* assert!(self.payload.is_none()) *)
Lemma Sign1_tbs_detached_data_ok m pl aad :
  s1_payload m = None /\ serialisable (s1_prot m) -> exists t, Sign1_tbs_detached_data m pl aad = Ok t.
Proof.
  intros [E H]. unfold Sign1_tbs_detached_data. rewrite E. cbn [issome].
  apply sig_structure_data_ok; [exact H|exact I].
Qed.
Lemma Sign1_tbs_detached_data_panic m pl aad :
  ~ (s1_payload m = None /\ serialisable (s1_prot m)) -> Sign1_tbs_detached_data m pl aad = Panic.
Proof.
  intros H. unfold Sign1_tbs_detached_data. destruct (s1_payload m); cbn [issome]; [reflexivity|].
  apply sig_structure_data_panic. tauto.
Qed.

Lemma Sign_tbs_data_ok m aad s :
  serialisable (sn_prot m) /\ serialisable (s_prot s) -> exists t, Sign_tbs_data m aad s = Ok t.
Proof. intros [H1 H2]. unfold Sign_tbs_data. apply sig_structure_data_ok; [exact H1|exact H2]. Qed.
Lemma Sign_tbs_data_panic m aad s :
  ~ (serialisable (sn_prot m) /\ serialisable (s_prot s)) -> Sign_tbs_data m aad s = Panic.
Proof. intros H. unfold Sign_tbs_data. apply sig_structure_data_panic. exact H. Qed.
Lemma Sign_tbs_detached_data_ok m pl aad s :
  sn_payload m = None /\ serialisable (sn_prot m) /\ serialisable (s_prot s) ->
  exists t, Sign_tbs_detached_data m pl aad s = Ok t.
Proof.
  intros [E [H1 H2]]. unfold Sign_tbs_detached_data. rewrite E. cbn [issome].
  apply sig_structure_data_ok; [exact H1|exact H2].
Qed.
Lemma Sign_tbs_detached_data_panic m pl aad s :
  ~ (sn_payload m = None /\ serialisable (sn_prot m) /\ serialisable (s_prot s)) ->
  Sign_tbs_detached_data m pl aad s = Panic.
Proof.
  intros H. unfold Sign_tbs_detached_data. destruct (sn_payload m); cbn [issome]; [reflexivity|].
  apply sig_structure_data_panic. cbn [opt_serialisable]. tauto.
Qed.

(* expect("payload missing") *)
Lemma Mac0_tbm_ok m aad :
  m0_payload m <> None /\ serialisable (m0_prot m) -> exists t, Mac0_tbm m aad = Ok t.
Proof.
  intros [E H]. unfold Mac0_tbm. destruct (m0_payload m); [|congruence]. now apply mac_structure_data_ok.
Qed.
Lemma Mac0_tbm_panic m aad :
  ~ (m0_payload m <> None /\ serialisable (m0_prot m)) -> Mac0_tbm m aad = Panic.
Proof.
  intros H. unfold Mac0_tbm. destruct (m0_payload m); [|reflexivity].
  apply mac_structure_data_panic. intros Hs. apply H. split; [discriminate|exact Hs].
Qed.
Lemma Mac_tbm_ok m aad :
  mc_payload m <> None /\ serialisable (mc_prot m) -> exists t, Mac_tbm m aad = Ok t.
Proof.
  intros [E H]. unfold Mac_tbm. destruct (mc_payload m); [|congruence]. now apply mac_structure_data_ok.
Qed.
Lemma Mac_tbm_panic m aad :
  ~ (mc_payload m <> None /\ serialisable (mc_prot m)) -> Mac_tbm m aad = Panic.
Proof.
  intros H. unfold Mac_tbm. destruct (mc_payload m); [|reflexivity].
  apply mac_structure_data_panic. intros Hs. apply H. split; [discriminate|exact Hs].
Qed.

(* the recipient builder insists on one of the three recipient contexts *)
Lemma recipient_aad_ok m c aad :
  is_recipient_context c = true /\ serialisable (r_prot m) -> exists t, recipient_aad m c aad = Ok t.
Proof. intros [E H]. unfold recipient_aad. rewrite E. cbn [negb]. now apply enc_structure_data_ok. Qed.
Lemma recipient_aad_panic m c aad :
  ~ (is_recipient_context c = true /\ serialisable (r_prot m)) -> recipient_aad m c aad = Panic.
Proof.
  intros H. unfold recipient_aad. destruct (is_recipient_context c); cbn [negb]; [|reflexivity].
  apply enc_structure_data_panic. tauto.
Qed.

(* ------------------------------------------------------------------------------------------ *)
(* 3. CoseSignatureBuilder *)
(* ------------------------------------------------------------------------------------------ *)
Inductive signature_field := GF_prot | GF_unprot | GF_sig.
Definition signature_field_dec : forall a b : signature_field, {a = b} + {a <> b}.
Proof. decide equality. Defined.

Definition signature_writes (o : signature_op) : list signature_field :=
  match o with
  | SO_protected _ => [GF_prot]
  | SO_unprotected _ => [GF_unprot]
  | SO_signature _ => [GF_sig]
  end.
Definition signature_reads (o : signature_op) : list signature_field :=
  match o with
  | SO_protected _ => []
  | SO_unprotected _ => []
  | SO_signature _ => []
  end.
Definition signature_independent (o1 o2 : signature_op) : Prop :=
  independent (signature_writes o1) (signature_reads o1) (signature_writes o2) (signature_reads o2).

Definition signature_fields (s : signature) v_prot v_unprot v_sig : Prop :=
  s_prot s = v_prot /\ s_unprot s = v_unprot /\ s_sig s = v_sig.
Definition signature_unchanged_outside (ws : list signature_field) (s s' : signature) : Prop :=
  (~ In GF_prot ws -> s_prot s' = s_prot s) /\
  (~ In GF_unprot ws -> s_unprot s' = s_unprot s) /\
  (~ In GF_sig ws -> s_sig s' = s_sig s).

Theorem signature_step_effect :
  (* retained wire bytes are dropped *)
  (forall s h, exists s', signature_builder_step s (SO_protected h) = Ok s' /\
     signature_fields s' (mkProtected None h) (s_unprot s) (s_sig s))
  /\ (forall s h, exists s', signature_builder_step s (SO_unprotected h) = Ok s' /\
     signature_fields s' (s_prot s) h (s_sig s))
  /\ (forall s b, exists s', signature_builder_step s (SO_signature b) = Ok s' /\
     signature_fields s' (s_prot s) (s_unprot s) b).
Proof.
  repeat match goal with |- _ /\ _ => split end;
    first [(intros; eexists; split; [reflexivity|repeat split])].
Qed.

(* nothing outside the write footprint changes, for every call that returns *)
Theorem signature_step_frame : forall s o s',
  signature_builder_step s o = Ok s' -> signature_unchanged_outside (signature_writes o) s s'.
Proof.
  intros s o s' E. destruct o; cbn [signature_builder_step] in E; inv_ok E;
    injection E as <-; unfold signature_unchanged_outside; frame_tac.
Qed.

Definition signature_agree_on (fs : list signature_field) (s s' : signature) : Prop :=
  (In GF_prot fs -> s_prot s = s_prot s') /\
  (In GF_unprot fs -> s_unprot s = s_unprot s') /\
  (In GF_sig fs -> s_sig s = s_sig s').

(* the outcome of a call, and what it writes, depend only on the read footprint *)
Theorem signature_step_reads : forall o s1 s2, signature_agree_on (signature_reads o) s1 s2 ->
  res_agree (signature_agree_on (signature_writes o)) (signature_builder_step s1 o) (signature_builder_step s2 o).
Proof.
  intros o s1 s2 H. destruct s1 as [x0 x1 x2], s2 as [y0 y1 y2]; destruct o;
    unfold signature_agree_on in H; cbn [signature_reads s_prot s_unprot s_sig] in H; use_agree;
    cbn [signature_builder_step s_prot s_unprot s_sig];
    reads_finish; unfold signature_agree_on; agree_tac.
Qed.

Theorem signature_later_setter_overrides :
  (forall s h1 h2, seq2 signature_builder_step s (SO_protected h1) (SO_protected h2) = signature_builder_step s (SO_protected h2))
  /\ (forall s h1 h2, seq2 signature_builder_step s (SO_unprotected h1) (SO_unprotected h2) = signature_builder_step s (SO_unprotected h2))
  /\ (forall s b1 b2, seq2 signature_builder_step s (SO_signature b1) (SO_signature b2) = signature_builder_step s (SO_signature b2)).
Proof. repeat match goal with |- _ /\ _ => split end; intros; reflexivity. Qed.

(* general form: a plain setter overrides every earlier call whose writes it covers *)
Theorem signature_setter_overrides_covered : forall s o1 o2 s1,
  signature_builder_step s o1 = Ok s1 -> signature_reads o2 = [] -> incl (signature_writes o1) (signature_writes o2) ->
  signature_builder_step s1 o2 = signature_builder_step s o2.
Proof.
  intros s o1 o2 s1 E R I. apply (inclb_of signature_field_dec) in I.
  destruct s as [x0 x1 x2]; destruct o1, o2; try discriminate R; try (fp_false I); clear R I;
    cbn [signature_builder_step] in E; inv_ok E; injection E as <-; reflexivity.
Qed.

(* calls with independent footprints commute *)
Theorem signature_ops_commute : forall s o1 o2, signature_independent o1 o2 ->
  seq2 signature_builder_step s o1 o2 = seq2 signature_builder_step s o2 o1.
Proof.
  intros s o1 o2 H. apply (independentb_of signature_field_dec) in H.
  destruct s as [x0 x1 x2]; destruct o1, o2; try (fp_false H); clear H;
    unfold seq2; cbn [signature_builder_step bind s_prot s_unprot s_sig];
    repeat split_scrutinee; reflexivity.
Qed.

Corollary signature_setters_commute : forall s o1 o2,
  signature_reads o1 = [] -> signature_reads o2 = [] -> disjoint (signature_writes o1) (signature_writes o2) ->
  seq2 signature_builder_step s o1 o2 = seq2 signature_builder_step s o2 o1.
Proof.
  intros s o1 o2 R1 R2 D. apply signature_ops_commute. unfold signature_independent, independent.
  rewrite R1, R2. cbn [app]. split; [exact D|]. intros f H2 H1. exact (D f H1 H2).
Qed.

(* ------------------------------------------------------------------------------------------ *)
(* 4. CoseSign1Builder *)
(* ------------------------------------------------------------------------------------------ *)
Inductive sign1_field := S1F_prot | S1F_unprot | S1F_payload | S1F_sig.
Definition sign1_field_dec : forall a b : sign1_field, {a = b} + {a <> b}.
Proof. decide equality. Defined.

Definition sign1_writes (o : sign1_op) : list sign1_field :=
  match o with
  | S1_protected _ => [S1F_prot]
  | S1_unprotected _ => [S1F_unprot]
  | S1_signature _ => [S1F_sig]
  | S1_payload _ => [S1F_payload]
  | S1_create_signature _ _ => [S1F_sig]
  | S1_create_detached_signature _ _ _ => [S1F_sig]
  | S1_try_create_signature _ _ => [S1F_sig]
  | S1_try_create_detached_signature _ _ _ => [S1F_sig]
  end.
Definition sign1_reads (o : sign1_op) : list sign1_field :=
  match o with
  | S1_protected _ => []
  | S1_unprotected _ => []
  | S1_signature _ => []
  | S1_payload _ => []
  | S1_create_signature _ _ => [S1F_prot; S1F_payload]
  | S1_create_detached_signature _ _ _ => [S1F_prot; S1F_payload]
  | S1_try_create_signature _ _ => [S1F_prot; S1F_payload]
  | S1_try_create_detached_signature _ _ _ => [S1F_prot; S1F_payload]
  end.
Definition sign1_independent (o1 o2 : sign1_op) : Prop :=
  independent (sign1_writes o1) (sign1_reads o1) (sign1_writes o2) (sign1_reads o2).

Definition sign1_fields (m : sign1) v_prot v_unprot v_payload v_sig : Prop :=
  s1_prot m = v_prot /\ s1_unprot m = v_unprot /\ s1_payload m = v_payload /\ s1_sig m = v_sig.
Definition sign1_unchanged_outside (ws : list sign1_field) (m m' : sign1) : Prop :=
  (~ In S1F_prot ws -> s1_prot m' = s1_prot m) /\
  (~ In S1F_unprot ws -> s1_unprot m' = s1_unprot m) /\
  (~ In S1F_payload ws -> s1_payload m' = s1_payload m) /\
  (~ In S1F_sig ws -> s1_sig m' = s1_sig m).

Lemma S1_create_signature_effect :
  forall m aad f, creator_spec (sign1_builder_step m (S1_create_signature aad f))
     (Sign1_tbs_data m aad) f
     (serialisable (s1_prot m))
     (fun m' out => sign1_fields m' (s1_prot m) (s1_unprot m) (s1_payload m) out).
Proof.
  intros m aad f.
  apply (creator_spec_intro (Sign1_tbs_data m aad) f
           (fun o => mkSign1 (s1_prot m) (s1_unprot m) (s1_payload m) o)).
  - apply Sign1_tbs_data_ok.
  - apply Sign1_tbs_data_panic.
  - intros o. repeat split.
Qed.

Lemma S1_create_detached_signature_effect :
  forall m pl aad f, creator_spec (sign1_builder_step m (S1_create_detached_signature pl aad f))
     (Sign1_tbs_detached_data m pl aad) f
     (s1_payload m = None /\ serialisable (s1_prot m))
     (fun m' out => sign1_fields m' (s1_prot m) (s1_unprot m) (s1_payload m) out).
Proof.
  intros m pl aad f.
  apply (creator_spec_intro (Sign1_tbs_detached_data m pl aad) f
           (fun o => mkSign1 (s1_prot m) (s1_unprot m) (s1_payload m) o)).
  - apply Sign1_tbs_detached_data_ok.
  - apply Sign1_tbs_detached_data_panic.
  - intros o. repeat split.
Qed.

Lemma S1_try_create_signature_effect :
  forall m aad f, creator_spec (sign1_builder_step m (S1_try_create_signature aad f))
     (Sign1_tbs_data m aad) f
     (serialisable (s1_prot m))
     (fun m' out => sign1_fields m' (s1_prot m) (s1_unprot m) (s1_payload m) out).
Proof.
  intros m aad f.
  apply (creator_spec_intro (Sign1_tbs_data m aad) f
           (fun o => mkSign1 (s1_prot m) (s1_unprot m) (s1_payload m) o)).
  - apply Sign1_tbs_data_ok.
  - apply Sign1_tbs_data_panic.
  - intros o. repeat split.
Qed.

Lemma S1_try_create_detached_signature_effect :
  forall m pl aad f, creator_spec (sign1_builder_step m (S1_try_create_detached_signature pl aad f))
     (Sign1_tbs_detached_data m pl aad) f
     (s1_payload m = None /\ serialisable (s1_prot m))
     (fun m' out => sign1_fields m' (s1_prot m) (s1_unprot m) (s1_payload m) out).
Proof.
  intros m pl aad f.
  apply (creator_spec_intro (Sign1_tbs_detached_data m pl aad) f
           (fun o => mkSign1 (s1_prot m) (s1_unprot m) (s1_payload m) o)).
  - apply Sign1_tbs_detached_data_ok.
  - apply Sign1_tbs_detached_data_panic.
  - intros o. repeat split.
Qed.


Theorem sign1_step_effect :
  (* retained wire bytes are dropped *)
  (forall m h, exists m', sign1_builder_step m (S1_protected h) = Ok m' /\
     sign1_fields m' (mkProtected None h) (s1_unprot m) (s1_payload m) (s1_sig m))
  /\ (forall m h, exists m', sign1_builder_step m (S1_unprotected h) = Ok m' /\
     sign1_fields m' (s1_prot m) h (s1_payload m) (s1_sig m))
  /\ (forall m b, exists m', sign1_builder_step m (S1_signature b) = Ok m' /\
     sign1_fields m' (s1_prot m) (s1_unprot m) (s1_payload m) b)
  /\ (forall m b, exists m', sign1_builder_step m (S1_payload b) = Ok m' /\
     sign1_fields m' (s1_prot m) (s1_unprot m) (Some b) (s1_sig m))
  /\ (forall m aad f, creator_spec (sign1_builder_step m (S1_create_signature aad f))
     (Sign1_tbs_data m aad) f
     (serialisable (s1_prot m))
     (fun m' out => sign1_fields m' (s1_prot m) (s1_unprot m) (s1_payload m) out))
  /\ (forall m pl aad f, creator_spec (sign1_builder_step m (S1_create_detached_signature pl aad f))
     (Sign1_tbs_detached_data m pl aad) f
     (s1_payload m = None /\ serialisable (s1_prot m))
     (fun m' out => sign1_fields m' (s1_prot m) (s1_unprot m) (s1_payload m) out))
  /\ (forall m aad f, creator_spec (sign1_builder_step m (S1_try_create_signature aad f))
     (Sign1_tbs_data m aad) f
     (serialisable (s1_prot m))
     (fun m' out => sign1_fields m' (s1_prot m) (s1_unprot m) (s1_payload m) out))
  /\ (forall m pl aad f, creator_spec (sign1_builder_step m (S1_try_create_detached_signature pl aad f))
     (Sign1_tbs_detached_data m pl aad) f
     (s1_payload m = None /\ serialisable (s1_prot m))
     (fun m' out => sign1_fields m' (s1_prot m) (s1_unprot m) (s1_payload m) out)).
Proof.
  repeat match goal with |- _ /\ _ => split end;
    first [exact S1_create_signature_effect
          |exact S1_create_detached_signature_effect
          |exact S1_try_create_signature_effect
          |exact S1_try_create_detached_signature_effect
          |(intros; eexists; split; [reflexivity|repeat split])].
Qed.

(* nothing outside the write footprint changes, for every call that returns *)
Theorem sign1_step_frame : forall m o m',
  sign1_builder_step m o = Ok m' -> sign1_unchanged_outside (sign1_writes o) m m'.
Proof.
  intros m o m' E. destruct o; cbn [sign1_builder_step] in E; inv_ok E;
    injection E as <-; unfold sign1_unchanged_outside; frame_tac.
Qed.

Definition sign1_agree_on (fs : list sign1_field) (m m' : sign1) : Prop :=
  (In S1F_prot fs -> s1_prot m = s1_prot m') /\
  (In S1F_unprot fs -> s1_unprot m = s1_unprot m') /\
  (In S1F_payload fs -> s1_payload m = s1_payload m') /\
  (In S1F_sig fs -> s1_sig m = s1_sig m').

(* the outcome of a call, and what it writes, depend only on the read footprint *)
Theorem sign1_step_reads : forall o m1 m2, sign1_agree_on (sign1_reads o) m1 m2 ->
  res_agree (sign1_agree_on (sign1_writes o)) (sign1_builder_step m1 o) (sign1_builder_step m2 o).
Proof.
  intros o m1 m2 H. destruct m1 as [x0 x1 x2 x3], m2 as [y0 y1 y2 y3]; destruct o;
    unfold sign1_agree_on in H; cbn [sign1_reads s1_prot s1_unprot s1_payload s1_sig] in H; use_agree;
    cbn [sign1_builder_step s1_prot s1_unprot s1_payload s1_sig]; cbv delta [Sign1_tbs_data Sign1_tbs_detached_data call1]; cbn [s1_prot s1_unprot s1_payload s1_sig bind];
    reads_finish; unfold sign1_agree_on; agree_tac.
Qed.

Theorem sign1_later_setter_overrides :
  (forall m h1 h2, seq2 sign1_builder_step m (S1_protected h1) (S1_protected h2) = sign1_builder_step m (S1_protected h2))
  /\ (forall m h1 h2, seq2 sign1_builder_step m (S1_unprotected h1) (S1_unprotected h2) = sign1_builder_step m (S1_unprotected h2))
  /\ (forall m b1 b2, seq2 sign1_builder_step m (S1_signature b1) (S1_signature b2) = sign1_builder_step m (S1_signature b2))
  /\ (forall m b1 b2, seq2 sign1_builder_step m (S1_payload b1) (S1_payload b2) = sign1_builder_step m (S1_payload b2)).
Proof. repeat match goal with |- _ /\ _ => split end; intros; reflexivity. Qed.

(* general form: a plain setter overrides every earlier call whose writes it covers *)
Theorem sign1_setter_overrides_covered : forall m o1 o2 m1,
  sign1_builder_step m o1 = Ok m1 -> sign1_reads o2 = [] -> incl (sign1_writes o1) (sign1_writes o2) ->
  sign1_builder_step m1 o2 = sign1_builder_step m o2.
Proof.
  intros m o1 o2 m1 E R I. apply (inclb_of sign1_field_dec) in I.
  destruct m as [x0 x1 x2 x3]; destruct o1, o2; try discriminate R; try (fp_false I); clear R I;
    cbn [sign1_builder_step] in E; inv_ok E; injection E as <-; reflexivity.
Qed.

(* calls with independent footprints commute *)
Theorem sign1_ops_commute : forall m o1 o2, sign1_independent o1 o2 ->
  seq2 sign1_builder_step m o1 o2 = seq2 sign1_builder_step m o2 o1.
Proof.
  intros m o1 o2 H. apply (independentb_of sign1_field_dec) in H.
  destruct m as [x0 x1 x2 x3]; destruct o1, o2; try (fp_false H); clear H;
    unfold seq2; cbn [sign1_builder_step bind s1_prot s1_unprot s1_payload s1_sig]; cbv delta [Sign1_tbs_data Sign1_tbs_detached_data call1]; cbn [sign1_builder_step bind s1_prot s1_unprot s1_payload s1_sig];
    repeat split_scrutinee; reflexivity.
Qed.

Corollary sign1_setters_commute : forall m o1 o2,
  sign1_reads o1 = [] -> sign1_reads o2 = [] -> disjoint (sign1_writes o1) (sign1_writes o2) ->
  seq2 sign1_builder_step m o1 o2 = seq2 sign1_builder_step m o2 o1.
Proof.
  intros m o1 o2 R1 R2 D. apply sign1_ops_commute. unfold sign1_independent, independent.
  rewrite R1, R2. cbn [app]. split; [exact D|]. intros f H2 H1. exact (D f H1 H2).
Qed.

(* ------------------------------------------------------------------------------------------ *)
(* 5. CoseSignBuilder *)
(* ------------------------------------------------------------------------------------------ *)
Inductive sign_field := SNF_prot | SNF_unprot | SNF_payload | SNF_sigs.
Definition sign_field_dec : forall a b : sign_field, {a = b} + {a <> b}.
Proof. decide equality. Defined.

Definition sign_writes (o : sign_op) : list sign_field :=
  match o with
  | SN_protected _ => [SNF_prot]
  | SN_unprotected _ => [SNF_unprot]
  | SN_payload _ => [SNF_payload]
  | SN_add_signature _ => [SNF_sigs]
  | SN_add_created_signature _ _ _ => [SNF_sigs]
  | SN_add_detached_signature _ _ _ _ => [SNF_sigs]
  | SN_try_add_created_signature _ _ _ => [SNF_sigs]
  | SN_try_add_detached_signature _ _ _ _ => [SNF_sigs]
  end.
Definition sign_reads (o : sign_op) : list sign_field :=
  match o with
  | SN_protected _ => []
  | SN_unprotected _ => []
  | SN_payload _ => []
  | SN_add_signature _ => [SNF_sigs]
  | SN_add_created_signature _ _ _ => [SNF_prot; SNF_payload; SNF_sigs]
  | SN_add_detached_signature _ _ _ _ => [SNF_prot; SNF_payload; SNF_sigs]
  | SN_try_add_created_signature _ _ _ => [SNF_prot; SNF_payload; SNF_sigs]
  | SN_try_add_detached_signature _ _ _ _ => [SNF_prot; SNF_payload; SNF_sigs]
  end.
Definition sign_independent (o1 o2 : sign_op) : Prop :=
  independent (sign_writes o1) (sign_reads o1) (sign_writes o2) (sign_reads o2).

Definition sign_fields (m : sign) v_prot v_unprot v_payload v_sigs : Prop :=
  sn_prot m = v_prot /\ sn_unprot m = v_unprot /\ sn_payload m = v_payload /\ sn_sigs m = v_sigs.
Definition sign_unchanged_outside (ws : list sign_field) (m m' : sign) : Prop :=
  (~ In SNF_prot ws -> sn_prot m' = sn_prot m) /\
  (~ In SNF_unprot ws -> sn_unprot m' = sn_unprot m) /\
  (~ In SNF_payload ws -> sn_payload m' = sn_payload m) /\
  (~ In SNF_sigs ws -> sn_sigs m' = sn_sigs m).

Lemma SN_add_created_signature_effect :
  forall m s aad f, creator_spec (sign_builder_step m (SN_add_created_signature s aad f))
     (Sign_tbs_data m aad s) f
     (serialisable (sn_prot m) /\ serialisable (s_prot s))
     (fun m' out => sign_fields m' (sn_prot m) (sn_unprot m) (sn_payload m)
        (sn_sigs m ++ [mkSignature (s_prot s) (s_unprot s) out])).
Proof.
  intros m s aad f.
  apply (creator_spec_intro (Sign_tbs_data m aad s) f
           (fun o => mkSign (sn_prot m) (sn_unprot m) (sn_payload m) (sn_sigs m ++ [mkSignature (s_prot s) (s_unprot s) o]))).
  - apply Sign_tbs_data_ok.
  - apply Sign_tbs_data_panic.
  - intros o. repeat split.
Qed.

Lemma SN_add_detached_signature_effect :
  forall m s pl aad f, creator_spec (sign_builder_step m (SN_add_detached_signature s pl aad f))
     (Sign_tbs_detached_data m pl aad s) f
     (sn_payload m = None /\ serialisable (sn_prot m) /\ serialisable (s_prot s))
     (fun m' out => sign_fields m' (sn_prot m) (sn_unprot m) (sn_payload m)
        (sn_sigs m ++ [mkSignature (s_prot s) (s_unprot s) out])).
Proof.
  intros m s pl aad f.
  apply (creator_spec_intro (Sign_tbs_detached_data m pl aad s) f
           (fun o => mkSign (sn_prot m) (sn_unprot m) (sn_payload m) (sn_sigs m ++ [mkSignature (s_prot s) (s_unprot s) o]))).
  - apply Sign_tbs_detached_data_ok.
  - apply Sign_tbs_detached_data_panic.
  - intros o. repeat split.
Qed.

Lemma SN_try_add_created_signature_effect :
  forall m s aad f, creator_spec (sign_builder_step m (SN_try_add_created_signature s aad f))
     (Sign_tbs_data m aad s) f
     (serialisable (sn_prot m) /\ serialisable (s_prot s))
     (fun m' out => sign_fields m' (sn_prot m) (sn_unprot m) (sn_payload m)
        (sn_sigs m ++ [mkSignature (s_prot s) (s_unprot s) out])).
Proof.
  intros m s aad f.
  apply (creator_spec_intro (Sign_tbs_data m aad s) f
           (fun o => mkSign (sn_prot m) (sn_unprot m) (sn_payload m) (sn_sigs m ++ [mkSignature (s_prot s) (s_unprot s) o]))).
  - apply Sign_tbs_data_ok.
  - apply Sign_tbs_data_panic.
  - intros o. repeat split.
Qed.

Lemma SN_try_add_detached_signature_effect :
  forall m s pl aad f, creator_spec (sign_builder_step m (SN_try_add_detached_signature s pl aad f))
     (Sign_tbs_detached_data m pl aad s) f
     (sn_payload m = None /\ serialisable (sn_prot m) /\ serialisable (s_prot s))
     (fun m' out => sign_fields m' (sn_prot m) (sn_unprot m) (sn_payload m)
        (sn_sigs m ++ [mkSignature (s_prot s) (s_unprot s) out])).
Proof.
  intros m s pl aad f.
  apply (creator_spec_intro (Sign_tbs_detached_data m pl aad s) f
           (fun o => mkSign (sn_prot m) (sn_unprot m) (sn_payload m) (sn_sigs m ++ [mkSignature (s_prot s) (s_unprot s) o]))).
  - apply Sign_tbs_detached_data_ok.
  - apply Sign_tbs_detached_data_panic.
  - intros o. repeat split.
Qed.


Theorem sign_step_effect :
  (* retained wire bytes are dropped *)
  (forall m h, exists m', sign_builder_step m (SN_protected h) = Ok m' /\
     sign_fields m' (mkProtected None h) (sn_unprot m) (sn_payload m) (sn_sigs m))
  /\ (forall m h, exists m', sign_builder_step m (SN_unprotected h) = Ok m' /\
     sign_fields m' (sn_prot m) h (sn_payload m) (sn_sigs m))
  /\ (forall m b, exists m', sign_builder_step m (SN_payload b) = Ok m' /\
     sign_fields m' (sn_prot m) (sn_unprot m) (Some b) (sn_sigs m))
  /\ (forall m s, exists m', sign_builder_step m (SN_add_signature s) = Ok m' /\
     sign_fields m' (sn_prot m) (sn_unprot m) (sn_payload m) (sn_sigs m ++ [s]))
  /\ (forall m s aad f, creator_spec (sign_builder_step m (SN_add_created_signature s aad f))
     (Sign_tbs_data m aad s) f
     (serialisable (sn_prot m) /\ serialisable (s_prot s))
     (fun m' out => sign_fields m' (sn_prot m) (sn_unprot m) (sn_payload m)
        (sn_sigs m ++ [mkSignature (s_prot s) (s_unprot s) out])))
  /\ (forall m s pl aad f, creator_spec (sign_builder_step m (SN_add_detached_signature s pl aad f))
     (Sign_tbs_detached_data m pl aad s) f
     (sn_payload m = None /\ serialisable (sn_prot m) /\ serialisable (s_prot s))
     (fun m' out => sign_fields m' (sn_prot m) (sn_unprot m) (sn_payload m)
        (sn_sigs m ++ [mkSignature (s_prot s) (s_unprot s) out])))
  /\ (forall m s aad f, creator_spec (sign_builder_step m (SN_try_add_created_signature s aad f))
     (Sign_tbs_data m aad s) f
     (serialisable (sn_prot m) /\ serialisable (s_prot s))
     (fun m' out => sign_fields m' (sn_prot m) (sn_unprot m) (sn_payload m)
        (sn_sigs m ++ [mkSignature (s_prot s) (s_unprot s) out])))
  /\ (forall m s pl aad f, creator_spec (sign_builder_step m (SN_try_add_detached_signature s pl aad f))
     (Sign_tbs_detached_data m pl aad s) f
     (sn_payload m = None /\ serialisable (sn_prot m) /\ serialisable (s_prot s))
     (fun m' out => sign_fields m' (sn_prot m) (sn_unprot m) (sn_payload m)
        (sn_sigs m ++ [mkSignature (s_prot s) (s_unprot s) out]))).
Proof.
  repeat match goal with |- _ /\ _ => split end;
    first [exact SN_add_created_signature_effect
          |exact SN_add_detached_signature_effect
          |exact SN_try_add_created_signature_effect
          |exact SN_try_add_detached_signature_effect
          |(intros; eexists; split; [reflexivity|repeat split])].
Qed.

(* nothing outside the write footprint changes, for every call that returns *)
Theorem sign_step_frame : forall m o m',
  sign_builder_step m o = Ok m' -> sign_unchanged_outside (sign_writes o) m m'.
Proof.
  intros m o m' E. destruct o; cbn [sign_builder_step] in E; inv_ok E;
    injection E as <-; unfold sign_unchanged_outside; frame_tac.
Qed.

Definition sign_agree_on (fs : list sign_field) (m m' : sign) : Prop :=
  (In SNF_prot fs -> sn_prot m = sn_prot m') /\
  (In SNF_unprot fs -> sn_unprot m = sn_unprot m') /\
  (In SNF_payload fs -> sn_payload m = sn_payload m') /\
  (In SNF_sigs fs -> sn_sigs m = sn_sigs m').

(* the outcome of a call, and what it writes, depend only on the read footprint *)
Theorem sign_step_reads : forall o m1 m2, sign_agree_on (sign_reads o) m1 m2 ->
  res_agree (sign_agree_on (sign_writes o)) (sign_builder_step m1 o) (sign_builder_step m2 o).
Proof.
  intros o m1 m2 H. destruct m1 as [x0 x1 x2 x3], m2 as [y0 y1 y2 y3]; destruct o;
    unfold sign_agree_on in H; cbn [sign_reads sn_prot sn_unprot sn_payload sn_sigs] in H; use_agree;
    cbn [sign_builder_step sn_prot sn_unprot sn_payload sn_sigs]; cbv delta [Sign_tbs_data Sign_tbs_detached_data call1]; cbn [sn_prot sn_unprot sn_payload sn_sigs bind];
    reads_finish; unfold sign_agree_on; agree_tac.
Qed.

Theorem sign_later_setter_overrides :
  (forall m h1 h2, seq2 sign_builder_step m (SN_protected h1) (SN_protected h2) = sign_builder_step m (SN_protected h2))
  /\ (forall m h1 h2, seq2 sign_builder_step m (SN_unprotected h1) (SN_unprotected h2) = sign_builder_step m (SN_unprotected h2))
  /\ (forall m b1 b2, seq2 sign_builder_step m (SN_payload b1) (SN_payload b2) = sign_builder_step m (SN_payload b2)).
Proof. repeat match goal with |- _ /\ _ => split end; intros; reflexivity. Qed.

(* general form: a plain setter overrides every earlier call whose writes it covers *)
Theorem sign_setter_overrides_covered : forall m o1 o2 m1,
  sign_builder_step m o1 = Ok m1 -> sign_reads o2 = [] -> incl (sign_writes o1) (sign_writes o2) ->
  sign_builder_step m1 o2 = sign_builder_step m o2.
Proof.
  intros m o1 o2 m1 E R I. apply (inclb_of sign_field_dec) in I.
  destruct m as [x0 x1 x2 x3]; destruct o1, o2; try discriminate R; try (fp_false I); clear R I;
    cbn [sign_builder_step] in E; inv_ok E; injection E as <-; reflexivity.
Qed.

(* accumulating calls append in call order *)
Theorem sign_accumulates :
  (forall l m, run_ops sign_builder_step (map SN_add_signature l) m =
     Ok (mkSign (sn_prot m) (sn_unprot m) (sn_payload m) (sn_sigs m ++ l))).
Proof.
  intros l m. apply (run_ops_append sign_builder_step SN_add_signature sn_sigs (fun l m => mkSign (sn_prot m) (sn_unprot m) (sn_payload m) l));
      try reflexivity; now intros [].
Qed.

(* calls with independent footprints commute *)
Theorem sign_ops_commute : forall m o1 o2, sign_independent o1 o2 ->
  seq2 sign_builder_step m o1 o2 = seq2 sign_builder_step m o2 o1.
Proof.
  intros m o1 o2 H. apply (independentb_of sign_field_dec) in H.
  destruct m as [x0 x1 x2 x3]; destruct o1, o2; try (fp_false H); clear H;
    unfold seq2; cbn [sign_builder_step bind sn_prot sn_unprot sn_payload sn_sigs]; cbv delta [Sign_tbs_data Sign_tbs_detached_data call1]; cbn [sign_builder_step bind sn_prot sn_unprot sn_payload sn_sigs];
    repeat split_scrutinee; reflexivity.
Qed.

Corollary sign_setters_commute : forall m o1 o2,
  sign_reads o1 = [] -> sign_reads o2 = [] -> disjoint (sign_writes o1) (sign_writes o2) ->
  seq2 sign_builder_step m o1 o2 = seq2 sign_builder_step m o2 o1.
Proof.
  intros m o1 o2 R1 R2 D. apply sign_ops_commute. unfold sign_independent, independent.
  rewrite R1, R2. cbn [app]. split; [exact D|]. intros f H2 H1. exact (D f H1 H2).
Qed.

(* ------------------------------------------------------------------------------------------ *)
(* 6. CoseMac0Builder *)
(* ------------------------------------------------------------------------------------------ *)
Inductive mac0_field := M0F_prot | M0F_unprot | M0F_payload | M0F_tag.
Definition mac0_field_dec : forall a b : mac0_field, {a = b} + {a <> b}.
Proof. decide equality. Defined.

Definition mac0_writes (o : mac0_op) : list mac0_field :=
  match o with
  | M0_protected _ => [M0F_prot]
  | M0_unprotected _ => [M0F_unprot]
  | M0_tag _ => [M0F_tag]
  | M0_payload _ => [M0F_payload]
  | M0_create_tag _ _ => [M0F_tag]
  | M0_try_create_tag _ _ => [M0F_tag]
  end.
Definition mac0_reads (o : mac0_op) : list mac0_field :=
  match o with
  | M0_protected _ => []
  | M0_unprotected _ => []
  | M0_tag _ => []
  | M0_payload _ => []
  | M0_create_tag _ _ => [M0F_prot; M0F_payload]
  | M0_try_create_tag _ _ => [M0F_prot; M0F_payload]
  end.
Definition mac0_independent (o1 o2 : mac0_op) : Prop :=
  independent (mac0_writes o1) (mac0_reads o1) (mac0_writes o2) (mac0_reads o2).

Definition mac0_fields (m : mac0) v_prot v_unprot v_payload v_tag : Prop :=
  m0_prot m = v_prot /\ m0_unprot m = v_unprot /\ m0_payload m = v_payload /\ m0_tag m = v_tag.
Definition mac0_unchanged_outside (ws : list mac0_field) (m m' : mac0) : Prop :=
  (~ In M0F_prot ws -> m0_prot m' = m0_prot m) /\
  (~ In M0F_unprot ws -> m0_unprot m' = m0_unprot m) /\
  (~ In M0F_payload ws -> m0_payload m' = m0_payload m) /\
  (~ In M0F_tag ws -> m0_tag m' = m0_tag m).

Lemma M0_create_tag_effect :
  forall m aad f, creator_spec (mac0_builder_step m (M0_create_tag aad f))
     (Mac0_tbm m aad) f
     (m0_payload m <> None /\ serialisable (m0_prot m))
     (fun m' out => mac0_fields m' (m0_prot m) (m0_unprot m) (m0_payload m) out).
Proof.
  intros m aad f.
  apply (creator_spec_intro (Mac0_tbm m aad) f
           (fun o => mkMac0 (m0_prot m) (m0_unprot m) (m0_payload m) o)).
  - apply Mac0_tbm_ok.
  - apply Mac0_tbm_panic.
  - intros o. repeat split.
Qed.

Lemma M0_try_create_tag_effect :
  forall m aad f, creator_spec (mac0_builder_step m (M0_try_create_tag aad f))
     (Mac0_tbm m aad) f
     (m0_payload m <> None /\ serialisable (m0_prot m))
     (fun m' out => mac0_fields m' (m0_prot m) (m0_unprot m) (m0_payload m) out).
Proof.
  intros m aad f.
  apply (creator_spec_intro (Mac0_tbm m aad) f
           (fun o => mkMac0 (m0_prot m) (m0_unprot m) (m0_payload m) o)).
  - apply Mac0_tbm_ok.
  - apply Mac0_tbm_panic.
  - intros o. repeat split.
Qed.


Theorem mac0_step_effect :
  (* retained wire bytes are dropped *)
  (forall m h, exists m', mac0_builder_step m (M0_protected h) = Ok m' /\
     mac0_fields m' (mkProtected None h) (m0_unprot m) (m0_payload m) (m0_tag m))
  /\ (forall m h, exists m', mac0_builder_step m (M0_unprotected h) = Ok m' /\
     mac0_fields m' (m0_prot m) h (m0_payload m) (m0_tag m))
  /\ (forall m b, exists m', mac0_builder_step m (M0_tag b) = Ok m' /\
     mac0_fields m' (m0_prot m) (m0_unprot m) (m0_payload m) b)
  /\ (forall m b, exists m', mac0_builder_step m (M0_payload b) = Ok m' /\
     mac0_fields m' (m0_prot m) (m0_unprot m) (Some b) (m0_tag m))
  /\ (forall m aad f, creator_spec (mac0_builder_step m (M0_create_tag aad f))
     (Mac0_tbm m aad) f
     (m0_payload m <> None /\ serialisable (m0_prot m))
     (fun m' out => mac0_fields m' (m0_prot m) (m0_unprot m) (m0_payload m) out))
  /\ (forall m aad f, creator_spec (mac0_builder_step m (M0_try_create_tag aad f))
     (Mac0_tbm m aad) f
     (m0_payload m <> None /\ serialisable (m0_prot m))
     (fun m' out => mac0_fields m' (m0_prot m) (m0_unprot m) (m0_payload m) out)).
Proof.
  repeat match goal with |- _ /\ _ => split end;
    first [exact M0_create_tag_effect
          |exact M0_try_create_tag_effect
          |(intros; eexists; split; [reflexivity|repeat split])].
Qed.

(* nothing outside the write footprint changes, for every call that returns *)
Theorem mac0_step_frame : forall m o m',
  mac0_builder_step m o = Ok m' -> mac0_unchanged_outside (mac0_writes o) m m'.
Proof.
  intros m o m' E. destruct o; cbn [mac0_builder_step] in E; inv_ok E;
    injection E as <-; unfold mac0_unchanged_outside; frame_tac.
Qed.

Definition mac0_agree_on (fs : list mac0_field) (m m' : mac0) : Prop :=
  (In M0F_prot fs -> m0_prot m = m0_prot m') /\
  (In M0F_unprot fs -> m0_unprot m = m0_unprot m') /\
  (In M0F_payload fs -> m0_payload m = m0_payload m') /\
  (In M0F_tag fs -> m0_tag m = m0_tag m').

(* the outcome of a call, and what it writes, depend only on the read footprint *)
Theorem mac0_step_reads : forall o m1 m2, mac0_agree_on (mac0_reads o) m1 m2 ->
  res_agree (mac0_agree_on (mac0_writes o)) (mac0_builder_step m1 o) (mac0_builder_step m2 o).
Proof.
  intros o m1 m2 H. destruct m1 as [x0 x1 x2 x3], m2 as [y0 y1 y2 y3]; destruct o;
    unfold mac0_agree_on in H; cbn [mac0_reads m0_prot m0_unprot m0_payload m0_tag] in H; use_agree;
    cbn [mac0_builder_step m0_prot m0_unprot m0_payload m0_tag]; cbv delta [Mac0_tbm call1]; cbn [m0_prot m0_unprot m0_payload m0_tag bind];
    reads_finish; unfold mac0_agree_on; agree_tac.
Qed.

Theorem mac0_later_setter_overrides :
  (forall m h1 h2, seq2 mac0_builder_step m (M0_protected h1) (M0_protected h2) = mac0_builder_step m (M0_protected h2))
  /\ (forall m h1 h2, seq2 mac0_builder_step m (M0_unprotected h1) (M0_unprotected h2) = mac0_builder_step m (M0_unprotected h2))
  /\ (forall m b1 b2, seq2 mac0_builder_step m (M0_tag b1) (M0_tag b2) = mac0_builder_step m (M0_tag b2))
  /\ (forall m b1 b2, seq2 mac0_builder_step m (M0_payload b1) (M0_payload b2) = mac0_builder_step m (M0_payload b2)).
Proof. repeat match goal with |- _ /\ _ => split end; intros; reflexivity. Qed.

(* general form: a plain setter overrides every earlier call whose writes it covers *)
Theorem mac0_setter_overrides_covered : forall m o1 o2 m1,
  mac0_builder_step m o1 = Ok m1 -> mac0_reads o2 = [] -> incl (mac0_writes o1) (mac0_writes o2) ->
  mac0_builder_step m1 o2 = mac0_builder_step m o2.
Proof.
  intros m o1 o2 m1 E R I. apply (inclb_of mac0_field_dec) in I.
  destruct m as [x0 x1 x2 x3]; destruct o1, o2; try discriminate R; try (fp_false I); clear R I;
    cbn [mac0_builder_step] in E; inv_ok E; injection E as <-; reflexivity.
Qed.

(* calls with independent footprints commute *)
Theorem mac0_ops_commute : forall m o1 o2, mac0_independent o1 o2 ->
  seq2 mac0_builder_step m o1 o2 = seq2 mac0_builder_step m o2 o1.
Proof.
  intros m o1 o2 H. apply (independentb_of mac0_field_dec) in H.
  destruct m as [x0 x1 x2 x3]; destruct o1, o2; try (fp_false H); clear H;
    unfold seq2; cbn [mac0_builder_step bind m0_prot m0_unprot m0_payload m0_tag]; cbv delta [Mac0_tbm call1]; cbn [mac0_builder_step bind m0_prot m0_unprot m0_payload m0_tag];
    repeat split_scrutinee; reflexivity.
Qed.

Corollary mac0_setters_commute : forall m o1 o2,
  mac0_reads o1 = [] -> mac0_reads o2 = [] -> disjoint (mac0_writes o1) (mac0_writes o2) ->
  seq2 mac0_builder_step m o1 o2 = seq2 mac0_builder_step m o2 o1.
Proof.
  intros m o1 o2 R1 R2 D. apply mac0_ops_commute. unfold mac0_independent, independent.
  rewrite R1, R2. cbn [app]. split; [exact D|]. intros f H2 H1. exact (D f H1 H2).
Qed.

(* ------------------------------------------------------------------------------------------ *)
(* 7. CoseMacBuilder *)
(* ------------------------------------------------------------------------------------------ *)
Inductive mac_field := MCF_prot | MCF_unprot | MCF_payload | MCF_tag | MCF_recipients.
Definition mac_field_dec : forall a b : mac_field, {a = b} + {a <> b}.
Proof. decide equality. Defined.

Definition mac_writes (o : mac_op) : list mac_field :=
  match o with
  | MC_protected _ => [MCF_prot]
  | MC_unprotected _ => [MCF_unprot]
  | MC_tag _ => [MCF_tag]
  | MC_payload _ => [MCF_payload]
  | MC_add_recipient _ => [MCF_recipients]
  | MC_create_tag _ _ => [MCF_tag]
  | MC_try_create_tag _ _ => [MCF_tag]
  end.
Definition mac_reads (o : mac_op) : list mac_field :=
  match o with
  | MC_protected _ => []
  | MC_unprotected _ => []
  | MC_tag _ => []
  | MC_payload _ => []
  | MC_add_recipient _ => [MCF_recipients]
  | MC_create_tag _ _ => [MCF_prot; MCF_payload]
  | MC_try_create_tag _ _ => [MCF_prot; MCF_payload]
  end.
Definition mac_independent (o1 o2 : mac_op) : Prop :=
  independent (mac_writes o1) (mac_reads o1) (mac_writes o2) (mac_reads o2).

Definition mac_fields (m : mac) v_prot v_unprot v_payload v_tag v_recipients : Prop :=
  mc_prot m = v_prot /\ mc_unprot m = v_unprot /\ mc_payload m = v_payload /\ mc_tag m = v_tag /\ mc_recipients m = v_recipients.
Definition mac_unchanged_outside (ws : list mac_field) (m m' : mac) : Prop :=
  (~ In MCF_prot ws -> mc_prot m' = mc_prot m) /\
  (~ In MCF_unprot ws -> mc_unprot m' = mc_unprot m) /\
  (~ In MCF_payload ws -> mc_payload m' = mc_payload m) /\
  (~ In MCF_tag ws -> mc_tag m' = mc_tag m) /\
  (~ In MCF_recipients ws -> mc_recipients m' = mc_recipients m).

Lemma MC_create_tag_effect :
  forall m aad f, creator_spec (mac_builder_step m (MC_create_tag aad f))
     (Mac_tbm m aad) f
     (mc_payload m <> None /\ serialisable (mc_prot m))
     (fun m' out => mac_fields m' (mc_prot m) (mc_unprot m) (mc_payload m) out (mc_recipients m)).
Proof.
  intros m aad f.
  apply (creator_spec_intro (Mac_tbm m aad) f
           (fun o => mkMac (mc_prot m) (mc_unprot m) (mc_payload m) o (mc_recipients m))).
  - apply Mac_tbm_ok.
  - apply Mac_tbm_panic.
  - intros o. repeat split.
Qed.

Lemma MC_try_create_tag_effect :
  forall m aad f, creator_spec (mac_builder_step m (MC_try_create_tag aad f))
     (Mac_tbm m aad) f
     (mc_payload m <> None /\ serialisable (mc_prot m))
     (fun m' out => mac_fields m' (mc_prot m) (mc_unprot m) (mc_payload m) out (mc_recipients m)).
Proof.
  intros m aad f.
  apply (creator_spec_intro (Mac_tbm m aad) f
           (fun o => mkMac (mc_prot m) (mc_unprot m) (mc_payload m) o (mc_recipients m))).
  - apply Mac_tbm_ok.
  - apply Mac_tbm_panic.
  - intros o. repeat split.
Qed.


Theorem mac_step_effect :
  (* retained wire bytes are dropped *)
  (forall m h, exists m', mac_builder_step m (MC_protected h) = Ok m' /\
     mac_fields m' (mkProtected None h) (mc_unprot m) (mc_payload m) (mc_tag m) (mc_recipients m))
  /\ (forall m h, exists m', mac_builder_step m (MC_unprotected h) = Ok m' /\
     mac_fields m' (mc_prot m) h (mc_payload m) (mc_tag m) (mc_recipients m))
  /\ (forall m b, exists m', mac_builder_step m (MC_tag b) = Ok m' /\
     mac_fields m' (mc_prot m) (mc_unprot m) (mc_payload m) b (mc_recipients m))
  /\ (forall m b, exists m', mac_builder_step m (MC_payload b) = Ok m' /\
     mac_fields m' (mc_prot m) (mc_unprot m) (Some b) (mc_tag m) (mc_recipients m))
  /\ (forall m r, exists m', mac_builder_step m (MC_add_recipient r) = Ok m' /\
     mac_fields m' (mc_prot m) (mc_unprot m) (mc_payload m) (mc_tag m) (mc_recipients m ++ [r]))
  /\ (forall m aad f, creator_spec (mac_builder_step m (MC_create_tag aad f))
     (Mac_tbm m aad) f
     (mc_payload m <> None /\ serialisable (mc_prot m))
     (fun m' out => mac_fields m' (mc_prot m) (mc_unprot m) (mc_payload m) out (mc_recipients m)))
  /\ (forall m aad f, creator_spec (mac_builder_step m (MC_try_create_tag aad f))
     (Mac_tbm m aad) f
     (mc_payload m <> None /\ serialisable (mc_prot m))
     (fun m' out => mac_fields m' (mc_prot m) (mc_unprot m) (mc_payload m) out (mc_recipients m))).
Proof.
  repeat match goal with |- _ /\ _ => split end;
    first [exact MC_create_tag_effect
          |exact MC_try_create_tag_effect
          |(intros; eexists; split; [reflexivity|repeat split])].
Qed.

(* nothing outside the write footprint changes, for every call that returns *)
Theorem mac_step_frame : forall m o m',
  mac_builder_step m o = Ok m' -> mac_unchanged_outside (mac_writes o) m m'.
Proof.
  intros m o m' E. destruct o; cbn [mac_builder_step] in E; inv_ok E;
    injection E as <-; unfold mac_unchanged_outside; frame_tac.
Qed.

Definition mac_agree_on (fs : list mac_field) (m m' : mac) : Prop :=
  (In MCF_prot fs -> mc_prot m = mc_prot m') /\
  (In MCF_unprot fs -> mc_unprot m = mc_unprot m') /\
  (In MCF_payload fs -> mc_payload m = mc_payload m') /\
  (In MCF_tag fs -> mc_tag m = mc_tag m') /\
  (In MCF_recipients fs -> mc_recipients m = mc_recipients m').

(* the outcome of a call, and what it writes, depend only on the read footprint *)
Theorem mac_step_reads : forall o m1 m2, mac_agree_on (mac_reads o) m1 m2 ->
  res_agree (mac_agree_on (mac_writes o)) (mac_builder_step m1 o) (mac_builder_step m2 o).
Proof.
  intros o m1 m2 H. destruct m1 as [x0 x1 x2 x3 x4], m2 as [y0 y1 y2 y3 y4]; destruct o;
    unfold mac_agree_on in H; cbn [mac_reads mc_prot mc_unprot mc_payload mc_tag mc_recipients] in H; use_agree;
    cbn [mac_builder_step mc_prot mc_unprot mc_payload mc_tag mc_recipients]; cbv delta [Mac_tbm call1]; cbn [mc_prot mc_unprot mc_payload mc_tag mc_recipients bind];
    reads_finish; unfold mac_agree_on; agree_tac.
Qed.

Theorem mac_later_setter_overrides :
  (forall m h1 h2, seq2 mac_builder_step m (MC_protected h1) (MC_protected h2) = mac_builder_step m (MC_protected h2))
  /\ (forall m h1 h2, seq2 mac_builder_step m (MC_unprotected h1) (MC_unprotected h2) = mac_builder_step m (MC_unprotected h2))
  /\ (forall m b1 b2, seq2 mac_builder_step m (MC_tag b1) (MC_tag b2) = mac_builder_step m (MC_tag b2))
  /\ (forall m b1 b2, seq2 mac_builder_step m (MC_payload b1) (MC_payload b2) = mac_builder_step m (MC_payload b2)).
Proof. repeat match goal with |- _ /\ _ => split end; intros; reflexivity. Qed.

(* general form: a plain setter overrides every earlier call whose writes it covers *)
Theorem mac_setter_overrides_covered : forall m o1 o2 m1,
  mac_builder_step m o1 = Ok m1 -> mac_reads o2 = [] -> incl (mac_writes o1) (mac_writes o2) ->
  mac_builder_step m1 o2 = mac_builder_step m o2.
Proof.
  intros m o1 o2 m1 E R I. apply (inclb_of mac_field_dec) in I.
  destruct m as [x0 x1 x2 x3 x4]; destruct o1, o2; try discriminate R; try (fp_false I); clear R I;
    cbn [mac_builder_step] in E; inv_ok E; injection E as <-; reflexivity.
Qed.

(* accumulating calls append in call order *)
Theorem mac_accumulates :
  (forall l m, run_ops mac_builder_step (map MC_add_recipient l) m =
     Ok (mkMac (mc_prot m) (mc_unprot m) (mc_payload m) (mc_tag m) (mc_recipients m ++ l))).
Proof.
  intros l m. apply (run_ops_append mac_builder_step MC_add_recipient mc_recipients (fun l m => mkMac (mc_prot m) (mc_unprot m) (mc_payload m) (mc_tag m) l));
      try reflexivity; now intros [].
Qed.

(* calls with independent footprints commute *)
Theorem mac_ops_commute : forall m o1 o2, mac_independent o1 o2 ->
  seq2 mac_builder_step m o1 o2 = seq2 mac_builder_step m o2 o1.
Proof.
  intros m o1 o2 H. apply (independentb_of mac_field_dec) in H.
  destruct m as [x0 x1 x2 x3 x4]; destruct o1, o2; try (fp_false H); clear H;
    unfold seq2; cbn [mac_builder_step bind mc_prot mc_unprot mc_payload mc_tag mc_recipients]; cbv delta [Mac_tbm call1]; cbn [mac_builder_step bind mc_prot mc_unprot mc_payload mc_tag mc_recipients];
    repeat split_scrutinee; reflexivity.
Qed.

Corollary mac_setters_commute : forall m o1 o2,
  mac_reads o1 = [] -> mac_reads o2 = [] -> disjoint (mac_writes o1) (mac_writes o2) ->
  seq2 mac_builder_step m o1 o2 = seq2 mac_builder_step m o2 o1.
Proof.
  intros m o1 o2 R1 R2 D. apply mac_ops_commute. unfold mac_independent, independent.
  rewrite R1, R2. cbn [app]. split; [exact D|]. intros f H2 H1. exact (D f H1 H2).
Qed.

(* ------------------------------------------------------------------------------------------ *)
(* 8. CoseRecipientBuilder *)
(* ------------------------------------------------------------------------------------------ *)
Inductive recipient_field := ROF_prot | ROF_unprot | ROF_ct | ROF_recipients.
Definition recipient_field_dec : forall a b : recipient_field, {a = b} + {a <> b}.
Proof. decide equality. Defined.

Definition recipient_writes (o : recipient_op) : list recipient_field :=
  match o with
  | RO_protected _ => [ROF_prot]
  | RO_unprotected _ => [ROF_unprot]
  | RO_ciphertext _ => [ROF_ct]
  | RO_add_recipient _ => [ROF_recipients]
  | RO_create_ciphertext _ _ _ _ => [ROF_ct]
  | RO_try_create_ciphertext _ _ _ _ => [ROF_ct]
  end.
Definition recipient_reads (o : recipient_op) : list recipient_field :=
  match o with
  | RO_protected _ => []
  | RO_unprotected _ => []
  | RO_ciphertext _ => []
  | RO_add_recipient _ => [ROF_recipients]
  | RO_create_ciphertext _ _ _ _ => [ROF_prot]
  | RO_try_create_ciphertext _ _ _ _ => [ROF_prot]
  end.
Definition recipient_independent (o1 o2 : recipient_op) : Prop :=
  independent (recipient_writes o1) (recipient_reads o1) (recipient_writes o2) (recipient_reads o2).

Definition recipient_fields (m : recipient) v_prot v_unprot v_ct v_recipients : Prop :=
  r_prot m = v_prot /\ r_unprot m = v_unprot /\ r_ct m = v_ct /\ r_recipients m = v_recipients.
Definition recipient_unchanged_outside (ws : list recipient_field) (m m' : recipient) : Prop :=
  (~ In ROF_prot ws -> r_prot m' = r_prot m) /\
  (~ In ROF_unprot ws -> r_unprot m' = r_unprot m) /\
  (~ In ROF_ct ws -> r_ct m' = r_ct m) /\
  (~ In ROF_recipients ws -> r_recipients m' = r_recipients m).

Lemma RO_create_ciphertext_effect :
  forall m c pt aad f, creator_spec (recipient_builder_step m (RO_create_ciphertext c pt aad f))
     (recipient_aad m c aad) (f pt)
     (is_recipient_context c = true /\ serialisable (r_prot m))
     (fun m' out => recipient_fields m' (r_prot m) (r_unprot m) (Some out) (r_recipients m)).
Proof.
  intros m c pt aad f.
  apply (creator_spec_intro (recipient_aad m c aad) (f pt)
           (fun o => mkRecipient (r_prot m) (r_unprot m) (Some o) (r_recipients m))).
  - apply recipient_aad_ok.
  - apply recipient_aad_panic.
  - intros o. repeat split.
Qed.

Lemma RO_try_create_ciphertext_effect :
  forall m c pt aad f, creator_spec (recipient_builder_step m (RO_try_create_ciphertext c pt aad f))
     (recipient_aad m c aad) (f pt)
     (is_recipient_context c = true /\ serialisable (r_prot m))
     (fun m' out => recipient_fields m' (r_prot m) (r_unprot m) (Some out) (r_recipients m)).
Proof.
  intros m c pt aad f.
  apply (creator_spec_intro (recipient_aad m c aad) (f pt)
           (fun o => mkRecipient (r_prot m) (r_unprot m) (Some o) (r_recipients m))).
  - apply recipient_aad_ok.
  - apply recipient_aad_panic.
  - intros o. repeat split.
Qed.


Theorem recipient_step_effect :
  (* retained wire bytes are dropped *)
  (forall m h, exists m', recipient_builder_step m (RO_protected h) = Ok m' /\
     recipient_fields m' (mkProtected None h) (r_unprot m) (r_ct m) (r_recipients m))
  /\ (forall m h, exists m', recipient_builder_step m (RO_unprotected h) = Ok m' /\
     recipient_fields m' (r_prot m) h (r_ct m) (r_recipients m))
  /\ (forall m b, exists m', recipient_builder_step m (RO_ciphertext b) = Ok m' /\
     recipient_fields m' (r_prot m) (r_unprot m) (Some b) (r_recipients m))
  /\ (forall m r, exists m', recipient_builder_step m (RO_add_recipient r) = Ok m' /\
     recipient_fields m' (r_prot m) (r_unprot m) (r_ct m) (r_recipients m ++ [r]))
  /\ (forall m c pt aad f, creator_spec (recipient_builder_step m (RO_create_ciphertext c pt aad f))
     (recipient_aad m c aad) (f pt)
     (is_recipient_context c = true /\ serialisable (r_prot m))
     (fun m' out => recipient_fields m' (r_prot m) (r_unprot m) (Some out) (r_recipients m)))
  /\ (forall m c pt aad f, creator_spec (recipient_builder_step m (RO_try_create_ciphertext c pt aad f))
     (recipient_aad m c aad) (f pt)
     (is_recipient_context c = true /\ serialisable (r_prot m))
     (fun m' out => recipient_fields m' (r_prot m) (r_unprot m) (Some out) (r_recipients m))).
Proof.
  repeat match goal with |- _ /\ _ => split end;
    first [exact RO_create_ciphertext_effect
          |exact RO_try_create_ciphertext_effect
          |(intros; eexists; split; [reflexivity|repeat split])].
Qed.

(* nothing outside the write footprint changes, for every call that returns *)
Theorem recipient_step_frame : forall m o m',
  recipient_builder_step m o = Ok m' -> recipient_unchanged_outside (recipient_writes o) m m'.
Proof.
  intros m o m' E. destruct o; cbn [recipient_builder_step] in E; inv_ok E;
    injection E as <-; unfold recipient_unchanged_outside; frame_tac.
Qed.

Definition recipient_agree_on (fs : list recipient_field) (m m' : recipient) : Prop :=
  (In ROF_prot fs -> r_prot m = r_prot m') /\
  (In ROF_unprot fs -> r_unprot m = r_unprot m') /\
  (In ROF_ct fs -> r_ct m = r_ct m') /\
  (In ROF_recipients fs -> r_recipients m = r_recipients m').

(* the outcome of a call, and what it writes, depend only on the read footprint *)
Theorem recipient_step_reads : forall o m1 m2, recipient_agree_on (recipient_reads o) m1 m2 ->
  res_agree (recipient_agree_on (recipient_writes o)) (recipient_builder_step m1 o) (recipient_builder_step m2 o).
Proof.
  intros o m1 m2 H. destruct m1 as [x0 x1 x2 x3], m2 as [y0 y1 y2 y3]; destruct o;
    unfold recipient_agree_on in H; cbn [recipient_reads r_prot r_unprot r_ct r_recipients] in H; use_agree;
    cbn [recipient_builder_step r_prot r_unprot r_ct r_recipients]; cbv delta [recipient_aad call2]; cbn [r_prot r_unprot r_ct r_recipients bind];
    reads_finish; unfold recipient_agree_on; agree_tac.
Qed.

Theorem recipient_later_setter_overrides :
  (forall m h1 h2, seq2 recipient_builder_step m (RO_protected h1) (RO_protected h2) = recipient_builder_step m (RO_protected h2))
  /\ (forall m h1 h2, seq2 recipient_builder_step m (RO_unprotected h1) (RO_unprotected h2) = recipient_builder_step m (RO_unprotected h2))
  /\ (forall m b1 b2, seq2 recipient_builder_step m (RO_ciphertext b1) (RO_ciphertext b2) = recipient_builder_step m (RO_ciphertext b2)).
Proof. repeat match goal with |- _ /\ _ => split end; intros; reflexivity. Qed.

(* general form: a plain setter overrides every earlier call whose writes it covers *)
Theorem recipient_setter_overrides_covered : forall m o1 o2 m1,
  recipient_builder_step m o1 = Ok m1 -> recipient_reads o2 = [] -> incl (recipient_writes o1) (recipient_writes o2) ->
  recipient_builder_step m1 o2 = recipient_builder_step m o2.
Proof.
  intros m o1 o2 m1 E R I. apply (inclb_of recipient_field_dec) in I.
  destruct m as [x0 x1 x2 x3]; destruct o1, o2; try discriminate R; try (fp_false I); clear R I;
    cbn [recipient_builder_step] in E; inv_ok E; injection E as <-; reflexivity.
Qed.

(* accumulating calls append in call order *)
Theorem recipient_accumulates :
  (forall l m, run_ops recipient_builder_step (map RO_add_recipient l) m =
     Ok (mkRecipient (r_prot m) (r_unprot m) (r_ct m) (r_recipients m ++ l))).
Proof.
  intros l m. apply (run_ops_append recipient_builder_step RO_add_recipient r_recipients (fun l m => mkRecipient (r_prot m) (r_unprot m) (r_ct m) l));
      try reflexivity; now intros [].
Qed.

(* calls with independent footprints commute *)
Theorem recipient_ops_commute : forall m o1 o2, recipient_independent o1 o2 ->
  seq2 recipient_builder_step m o1 o2 = seq2 recipient_builder_step m o2 o1.
Proof.
  intros m o1 o2 H. apply (independentb_of recipient_field_dec) in H.
  destruct m as [x0 x1 x2 x3]; destruct o1, o2; try (fp_false H); clear H;
    unfold seq2; cbn [recipient_builder_step bind r_prot r_unprot r_ct r_recipients]; cbv delta [recipient_aad call2]; cbn [recipient_builder_step bind r_prot r_unprot r_ct r_recipients];
    repeat split_scrutinee; reflexivity.
Qed.

Corollary recipient_setters_commute : forall m o1 o2,
  recipient_reads o1 = [] -> recipient_reads o2 = [] -> disjoint (recipient_writes o1) (recipient_writes o2) ->
  seq2 recipient_builder_step m o1 o2 = seq2 recipient_builder_step m o2 o1.
Proof.
  intros m o1 o2 R1 R2 D. apply recipient_ops_commute. unfold recipient_independent, independent.
  rewrite R1, R2. cbn [app]. split; [exact D|]. intros f H2 H1. exact (D f H1 H2).
Qed.

(* ------------------------------------------------------------------------------------------ *)
(* 9. CoseEncryptBuilder *)
(* ------------------------------------------------------------------------------------------ *)
Inductive encrypt_field := EOF__prot | EOF__unprot | EOF__ct | EOF__recipients.
Definition encrypt_field_dec : forall a b : encrypt_field, {a = b} + {a <> b}.
Proof. decide equality. Defined.

Definition encrypt_writes (o : encrypt_op) : list encrypt_field :=
  match o with
  | EO_protected _ => [EOF__prot]
  | EO_unprotected _ => [EOF__unprot]
  | EO_ciphertext _ => [EOF__ct]
  | EO_add_recipient _ => [EOF__recipients]
  | EO_create_ciphertext _ _ _ => [EOF__ct]
  | EO_try_create_ciphertext _ _ _ => [EOF__ct]
  end.
Definition encrypt_reads (o : encrypt_op) : list encrypt_field :=
  match o with
  | EO_protected _ => []
  | EO_unprotected _ => []
  | EO_ciphertext _ => []
  | EO_add_recipient _ => [EOF__recipients]
  | EO_create_ciphertext _ _ _ => [EOF__prot]
  | EO_try_create_ciphertext _ _ _ => [EOF__prot]
  end.
Definition encrypt_independent (o1 o2 : encrypt_op) : Prop :=
  independent (encrypt_writes o1) (encrypt_reads o1) (encrypt_writes o2) (encrypt_reads o2).

Definition encrypt_fields (m : encrypt) v_prot v_unprot v_ct v_recipients : Prop :=
  en_prot m = v_prot /\ en_unprot m = v_unprot /\ en_ct m = v_ct /\ en_recipients m = v_recipients.
Definition encrypt_unchanged_outside (ws : list encrypt_field) (m m' : encrypt) : Prop :=
  (~ In EOF__prot ws -> en_prot m' = en_prot m) /\
  (~ In EOF__unprot ws -> en_unprot m' = en_unprot m) /\
  (~ In EOF__ct ws -> en_ct m' = en_ct m) /\
  (~ In EOF__recipients ws -> en_recipients m' = en_recipients m).

Lemma EO_create_ciphertext_effect :
  forall m pt aad f, creator_spec (encrypt_builder_step m (EO_create_ciphertext pt aad f))
     (enc_structure_data EncCoseEncrypt (en_prot m) aad) (f pt)
     (serialisable (en_prot m))
     (fun m' out => encrypt_fields m' (en_prot m) (en_unprot m) (Some out) (en_recipients m)).
Proof.
  intros m pt aad f.
  apply (creator_spec_intro (enc_structure_data EncCoseEncrypt (en_prot m) aad) (f pt)
           (fun o => mkEncrypt (en_prot m) (en_unprot m) (Some o) (en_recipients m))).
  - apply enc_structure_data_ok.
  - apply enc_structure_data_panic.
  - intros o. repeat split.
Qed.

Lemma EO_try_create_ciphertext_effect :
  forall m pt aad f, creator_spec (encrypt_builder_step m (EO_try_create_ciphertext pt aad f))
     (enc_structure_data EncCoseEncrypt (en_prot m) aad) (f pt)
     (serialisable (en_prot m))
     (fun m' out => encrypt_fields m' (en_prot m) (en_unprot m) (Some out) (en_recipients m)).
Proof.
  intros m pt aad f.
  apply (creator_spec_intro (enc_structure_data EncCoseEncrypt (en_prot m) aad) (f pt)
           (fun o => mkEncrypt (en_prot m) (en_unprot m) (Some o) (en_recipients m))).
  - apply enc_structure_data_ok.
  - apply enc_structure_data_panic.
  - intros o. repeat split.
Qed.


Theorem encrypt_step_effect :
  (* retained wire bytes are dropped *)
  (forall m h, exists m', encrypt_builder_step m (EO_protected h) = Ok m' /\
     encrypt_fields m' (mkProtected None h) (en_unprot m) (en_ct m) (en_recipients m))
  /\ (forall m h, exists m', encrypt_builder_step m (EO_unprotected h) = Ok m' /\
     encrypt_fields m' (en_prot m) h (en_ct m) (en_recipients m))
  /\ (forall m b, exists m', encrypt_builder_step m (EO_ciphertext b) = Ok m' /\
     encrypt_fields m' (en_prot m) (en_unprot m) (Some b) (en_recipients m))
  /\ (forall m r, exists m', encrypt_builder_step m (EO_add_recipient r) = Ok m' /\
     encrypt_fields m' (en_prot m) (en_unprot m) (en_ct m) (en_recipients m ++ [r]))
  /\ (forall m pt aad f, creator_spec (encrypt_builder_step m (EO_create_ciphertext pt aad f))
     (enc_structure_data EncCoseEncrypt (en_prot m) aad) (f pt)
     (serialisable (en_prot m))
     (fun m' out => encrypt_fields m' (en_prot m) (en_unprot m) (Some out) (en_recipients m)))
  /\ (forall m pt aad f, creator_spec (encrypt_builder_step m (EO_try_create_ciphertext pt aad f))
     (enc_structure_data EncCoseEncrypt (en_prot m) aad) (f pt)
     (serialisable (en_prot m))
     (fun m' out => encrypt_fields m' (en_prot m) (en_unprot m) (Some out) (en_recipients m))).
Proof.
  repeat match goal with |- _ /\ _ => split end;
    first [exact EO_create_ciphertext_effect
          |exact EO_try_create_ciphertext_effect
          |(intros; eexists; split; [reflexivity|repeat split])].
Qed.

(* nothing outside the write footprint changes, for every call that returns *)
Theorem encrypt_step_frame : forall m o m',
  encrypt_builder_step m o = Ok m' -> encrypt_unchanged_outside (encrypt_writes o) m m'.
Proof.
  intros m o m' E. destruct o; cbn [encrypt_builder_step] in E; inv_ok E;
    injection E as <-; unfold encrypt_unchanged_outside; frame_tac.
Qed.

Definition encrypt_agree_on (fs : list encrypt_field) (m m' : encrypt) : Prop :=
  (In EOF__prot fs -> en_prot m = en_prot m') /\
  (In EOF__unprot fs -> en_unprot m = en_unprot m') /\
  (In EOF__ct fs -> en_ct m = en_ct m') /\
  (In EOF__recipients fs -> en_recipients m = en_recipients m').

(* the outcome of a call, and what it writes, depend only on the read footprint *)
Theorem encrypt_step_reads : forall o m1 m2, encrypt_agree_on (encrypt_reads o) m1 m2 ->
  res_agree (encrypt_agree_on (encrypt_writes o)) (encrypt_builder_step m1 o) (encrypt_builder_step m2 o).
Proof.
  intros o m1 m2 H. destruct m1 as [x0 x1 x2 x3], m2 as [y0 y1 y2 y3]; destruct o;
    unfold encrypt_agree_on in H; cbn [encrypt_reads en_prot en_unprot en_ct en_recipients] in H; use_agree;
    cbn [encrypt_builder_step en_prot en_unprot en_ct en_recipients]; cbv delta [call2]; cbn [en_prot en_unprot en_ct en_recipients bind];
    reads_finish; unfold encrypt_agree_on; agree_tac.
Qed.

Theorem encrypt_later_setter_overrides :
  (forall m h1 h2, seq2 encrypt_builder_step m (EO_protected h1) (EO_protected h2) = encrypt_builder_step m (EO_protected h2))
  /\ (forall m h1 h2, seq2 encrypt_builder_step m (EO_unprotected h1) (EO_unprotected h2) = encrypt_builder_step m (EO_unprotected h2))
  /\ (forall m b1 b2, seq2 encrypt_builder_step m (EO_ciphertext b1) (EO_ciphertext b2) = encrypt_builder_step m (EO_ciphertext b2)).
Proof. repeat match goal with |- _ /\ _ => split end; intros; reflexivity. Qed.

(* general form: a plain setter overrides every earlier call whose writes it covers *)
Theorem encrypt_setter_overrides_covered : forall m o1 o2 m1,
  encrypt_builder_step m o1 = Ok m1 -> encrypt_reads o2 = [] -> incl (encrypt_writes o1) (encrypt_writes o2) ->
  encrypt_builder_step m1 o2 = encrypt_builder_step m o2.
Proof.
  intros m o1 o2 m1 E R I. apply (inclb_of encrypt_field_dec) in I.
  destruct m as [x0 x1 x2 x3]; destruct o1, o2; try discriminate R; try (fp_false I); clear R I;
    cbn [encrypt_builder_step] in E; inv_ok E; injection E as <-; reflexivity.
Qed.

(* accumulating calls append in call order *)
Theorem encrypt_accumulates :
  (forall l m, run_ops encrypt_builder_step (map EO_add_recipient l) m =
     Ok (mkEncrypt (en_prot m) (en_unprot m) (en_ct m) (en_recipients m ++ l))).
Proof.
  intros l m. apply (run_ops_append encrypt_builder_step EO_add_recipient en_recipients (fun l m => mkEncrypt (en_prot m) (en_unprot m) (en_ct m) l));
      try reflexivity; now intros [].
Qed.

(* calls with independent footprints commute *)
Theorem encrypt_ops_commute : forall m o1 o2, encrypt_independent o1 o2 ->
  seq2 encrypt_builder_step m o1 o2 = seq2 encrypt_builder_step m o2 o1.
Proof.
  intros m o1 o2 H. apply (independentb_of encrypt_field_dec) in H.
  destruct m as [x0 x1 x2 x3]; destruct o1, o2; try (fp_false H); clear H;
    unfold seq2; cbn [encrypt_builder_step bind en_prot en_unprot en_ct en_recipients]; cbv delta [call2]; cbn [encrypt_builder_step bind en_prot en_unprot en_ct en_recipients];
    repeat split_scrutinee; reflexivity.
Qed.

Corollary encrypt_setters_commute : forall m o1 o2,
  encrypt_reads o1 = [] -> encrypt_reads o2 = [] -> disjoint (encrypt_writes o1) (encrypt_writes o2) ->
  seq2 encrypt_builder_step m o1 o2 = seq2 encrypt_builder_step m o2 o1.
Proof.
  intros m o1 o2 R1 R2 D. apply encrypt_ops_commute. unfold encrypt_independent, independent.
  rewrite R1, R2. cbn [app]. split; [exact D|]. intros f H2 H1. exact (D f H1 H2).
Qed.

(* ------------------------------------------------------------------------------------------ *)
(* 10. CoseEncrypt0Builder *)
(* ------------------------------------------------------------------------------------------ *)
Inductive encrypt0_field := E0F_prot | E0F_unprot | E0F_ct.
Definition encrypt0_field_dec : forall a b : encrypt0_field, {a = b} + {a <> b}.
Proof. decide equality. Defined.

Definition encrypt0_writes (o : encrypt0_op) : list encrypt0_field :=
  match o with
  | E0_protected _ => [E0F_prot]
  | E0_unprotected _ => [E0F_unprot]
  | E0_ciphertext _ => [E0F_ct]
  | E0_create_ciphertext _ _ _ => [E0F_ct]
  | E0_try_create_ciphertext _ _ _ => [E0F_ct]
  end.
Definition encrypt0_reads (o : encrypt0_op) : list encrypt0_field :=
  match o with
  | E0_protected _ => []
  | E0_unprotected _ => []
  | E0_ciphertext _ => []
  | E0_create_ciphertext _ _ _ => [E0F_prot]
  | E0_try_create_ciphertext _ _ _ => [E0F_prot]
  end.
Definition encrypt0_independent (o1 o2 : encrypt0_op) : Prop :=
  independent (encrypt0_writes o1) (encrypt0_reads o1) (encrypt0_writes o2) (encrypt0_reads o2).

Definition encrypt0_fields (m : encrypt0) v_prot v_unprot v_ct : Prop :=
  e0_prot m = v_prot /\ e0_unprot m = v_unprot /\ e0_ct m = v_ct.
Definition encrypt0_unchanged_outside (ws : list encrypt0_field) (m m' : encrypt0) : Prop :=
  (~ In E0F_prot ws -> e0_prot m' = e0_prot m) /\
  (~ In E0F_unprot ws -> e0_unprot m' = e0_unprot m) /\
  (~ In E0F_ct ws -> e0_ct m' = e0_ct m).

Lemma E0_create_ciphertext_effect :
  forall m pt aad f, creator_spec (encrypt0_builder_step m (E0_create_ciphertext pt aad f))
     (enc_structure_data EncCoseEncrypt0 (e0_prot m) aad) (f pt)
     (serialisable (e0_prot m))
     (fun m' out => encrypt0_fields m' (e0_prot m) (e0_unprot m) (Some out)).
Proof.
  intros m pt aad f.
  apply (creator_spec_intro (enc_structure_data EncCoseEncrypt0 (e0_prot m) aad) (f pt)
           (fun o => mkEncrypt0 (e0_prot m) (e0_unprot m) (Some o))).
  - apply enc_structure_data_ok.
  - apply enc_structure_data_panic.
  - intros o. repeat split.
Qed.

Lemma E0_try_create_ciphertext_effect :
  forall m pt aad f, creator_spec (encrypt0_builder_step m (E0_try_create_ciphertext pt aad f))
     (enc_structure_data EncCoseEncrypt0 (e0_prot m) aad) (f pt)
     (serialisable (e0_prot m))
     (fun m' out => encrypt0_fields m' (e0_prot m) (e0_unprot m) (Some out)).
Proof.
  intros m pt aad f.
  apply (creator_spec_intro (enc_structure_data EncCoseEncrypt0 (e0_prot m) aad) (f pt)
           (fun o => mkEncrypt0 (e0_prot m) (e0_unprot m) (Some o))).
  - apply enc_structure_data_ok.
  - apply enc_structure_data_panic.
  - intros o. repeat split.
Qed.


Theorem encrypt0_step_effect :
  (* retained wire bytes are dropped *)
  (forall m h, exists m', encrypt0_builder_step m (E0_protected h) = Ok m' /\
     encrypt0_fields m' (mkProtected None h) (e0_unprot m) (e0_ct m))
  /\ (forall m h, exists m', encrypt0_builder_step m (E0_unprotected h) = Ok m' /\
     encrypt0_fields m' (e0_prot m) h (e0_ct m))
  /\ (forall m b, exists m', encrypt0_builder_step m (E0_ciphertext b) = Ok m' /\
     encrypt0_fields m' (e0_prot m) (e0_unprot m) (Some b))
  /\ (forall m pt aad f, creator_spec (encrypt0_builder_step m (E0_create_ciphertext pt aad f))
     (enc_structure_data EncCoseEncrypt0 (e0_prot m) aad) (f pt)
     (serialisable (e0_prot m))
     (fun m' out => encrypt0_fields m' (e0_prot m) (e0_unprot m) (Some out)))
  /\ (forall m pt aad f, creator_spec (encrypt0_builder_step m (E0_try_create_ciphertext pt aad f))
     (enc_structure_data EncCoseEncrypt0 (e0_prot m) aad) (f pt)
     (serialisable (e0_prot m))
     (fun m' out => encrypt0_fields m' (e0_prot m) (e0_unprot m) (Some out))).
Proof.
  repeat match goal with |- _ /\ _ => split end;
    first [exact E0_create_ciphertext_effect
          |exact E0_try_create_ciphertext_effect
          |(intros; eexists; split; [reflexivity|repeat split])].
Qed.

(* nothing outside the write footprint changes, for every call that returns *)
Theorem encrypt0_step_frame : forall m o m',
  encrypt0_builder_step m o = Ok m' -> encrypt0_unchanged_outside (encrypt0_writes o) m m'.
Proof.
  intros m o m' E. destruct o; cbn [encrypt0_builder_step] in E; inv_ok E;
    injection E as <-; unfold encrypt0_unchanged_outside; frame_tac.
Qed.

Definition encrypt0_agree_on (fs : list encrypt0_field) (m m' : encrypt0) : Prop :=
  (In E0F_prot fs -> e0_prot m = e0_prot m') /\
  (In E0F_unprot fs -> e0_unprot m = e0_unprot m') /\
  (In E0F_ct fs -> e0_ct m = e0_ct m').

(* the outcome of a call, and what it writes, depend only on the read footprint *)
Theorem encrypt0_step_reads : forall o m1 m2, encrypt0_agree_on (encrypt0_reads o) m1 m2 ->
  res_agree (encrypt0_agree_on (encrypt0_writes o)) (encrypt0_builder_step m1 o) (encrypt0_builder_step m2 o).
Proof.
  intros o m1 m2 H. destruct m1 as [x0 x1 x2], m2 as [y0 y1 y2]; destruct o;
    unfold encrypt0_agree_on in H; cbn [encrypt0_reads e0_prot e0_unprot e0_ct] in H; use_agree;
    cbn [encrypt0_builder_step e0_prot e0_unprot e0_ct]; cbv delta [call2]; cbn [e0_prot e0_unprot e0_ct bind];
    reads_finish; unfold encrypt0_agree_on; agree_tac.
Qed.

Theorem encrypt0_later_setter_overrides :
  (forall m h1 h2, seq2 encrypt0_builder_step m (E0_protected h1) (E0_protected h2) = encrypt0_builder_step m (E0_protected h2))
  /\ (forall m h1 h2, seq2 encrypt0_builder_step m (E0_unprotected h1) (E0_unprotected h2) = encrypt0_builder_step m (E0_unprotected h2))
  /\ (forall m b1 b2, seq2 encrypt0_builder_step m (E0_ciphertext b1) (E0_ciphertext b2) = encrypt0_builder_step m (E0_ciphertext b2)).
Proof. repeat match goal with |- _ /\ _ => split end; intros; reflexivity. Qed.

(* general form: a plain setter overrides every earlier call whose writes it covers *)
Theorem encrypt0_setter_overrides_covered : forall m o1 o2 m1,
  encrypt0_builder_step m o1 = Ok m1 -> encrypt0_reads o2 = [] -> incl (encrypt0_writes o1) (encrypt0_writes o2) ->
  encrypt0_builder_step m1 o2 = encrypt0_builder_step m o2.
Proof.
  intros m o1 o2 m1 E R I. apply (inclb_of encrypt0_field_dec) in I.
  destruct m as [x0 x1 x2]; destruct o1, o2; try discriminate R; try (fp_false I); clear R I;
    cbn [encrypt0_builder_step] in E; inv_ok E; injection E as <-; reflexivity.
Qed.

(* calls with independent footprints commute *)
Theorem encrypt0_ops_commute : forall m o1 o2, encrypt0_independent o1 o2 ->
  seq2 encrypt0_builder_step m o1 o2 = seq2 encrypt0_builder_step m o2 o1.
Proof.
  intros m o1 o2 H. apply (independentb_of encrypt0_field_dec) in H.
  destruct m as [x0 x1 x2]; destruct o1, o2; try (fp_false H); clear H;
    unfold seq2; cbn [encrypt0_builder_step bind e0_prot e0_unprot e0_ct]; cbv delta [call2]; cbn [encrypt0_builder_step bind e0_prot e0_unprot e0_ct];
    repeat split_scrutinee; reflexivity.
Qed.

Corollary encrypt0_setters_commute : forall m o1 o2,
  encrypt0_reads o1 = [] -> encrypt0_reads o2 = [] -> disjoint (encrypt0_writes o1) (encrypt0_writes o2) ->
  seq2 encrypt0_builder_step m o1 o2 = seq2 encrypt0_builder_step m o2 o1.
Proof.
  intros m o1 o2 R1 R2 D. apply encrypt0_ops_commute. unfold encrypt0_independent, independent.
  rewrite R1, R2. cbn [app]. split; [exact D|]. intros f H2 H1. exact (D f H1 H2).
Qed.

(* ------------------------------------------------------------------------------------------ *)
(* 11. CoseKeyBuilder *)
(* ------------------------------------------------------------------------------------------ *)
Inductive key_field := KF_kty | KF_kid | KF_alg | KF_ops | KF_base_iv | KF_params.
Definition key_field_dec : forall a b : key_field, {a = b} + {a <> b}.
Proof. decide equality. Defined.

Definition key_writes (o : key_op) : list key_field :=
  match o with
  | KO_new => [KF_kty; KF_kid; KF_alg; KF_ops; KF_base_iv; KF_params]
  | KO_new_ec2_pub_key _ _ _ => [KF_kty; KF_kid; KF_alg; KF_ops; KF_base_iv; KF_params]
  | KO_new_ec2_pub_key_y_sign _ _ _ => [KF_kty; KF_kid; KF_alg; KF_ops; KF_base_iv; KF_params]
  | KO_new_ec2_priv_key _ _ _ _ => [KF_kty; KF_kid; KF_alg; KF_ops; KF_base_iv; KF_params]
  | KO_new_symmetric_key _ => [KF_kty; KF_kid; KF_alg; KF_ops; KF_base_iv; KF_params]
  | KO_new_okp_key => [KF_kty; KF_kid; KF_alg; KF_ops; KF_base_iv; KF_params]
  | KO_kty _ => [KF_kty]
  | KO_key_id _ => [KF_kid]
  | KO_base_iv _ => [KF_base_iv]
  | KO_key_type _ => [KF_kty]
  | KO_algorithm _ => [KF_alg]
  | KO_add_key_op _ => [KF_ops]
  | KO_param _ _ => [KF_params]
  end.
Definition key_reads (o : key_op) : list key_field :=
  match o with
  | KO_new => []
  | KO_new_ec2_pub_key _ _ _ => []
  | KO_new_ec2_pub_key_y_sign _ _ _ => []
  | KO_new_ec2_priv_key _ _ _ _ => []
  | KO_new_symmetric_key _ => []
  | KO_new_okp_key => []
  | KO_kty _ => []
  | KO_key_id _ => []
  | KO_base_iv _ => []
  | KO_key_type _ => []
  | KO_algorithm _ => []
  | KO_add_key_op _ => [KF_ops]
  | KO_param _ _ => [KF_params]
  end.
Definition key_independent (o1 o2 : key_op) : Prop :=
  independent (key_writes o1) (key_reads o1) (key_writes o2) (key_reads o2).

Definition key_fields (k : cose_key) v_kty v_kid v_alg v_ops v_base_iv v_params : Prop :=
  k_kty k = v_kty /\ k_kid k = v_kid /\ k_alg k = v_alg /\ k_ops k = v_ops /\ k_base_iv k = v_base_iv /\ k_params k = v_params.
Definition key_unchanged_outside (ws : list key_field) (k k' : cose_key) : Prop :=
  (~ In KF_kty ws -> k_kty k' = k_kty k) /\
  (~ In KF_kid ws -> k_kid k' = k_kid k) /\
  (~ In KF_alg ws -> k_alg k' = k_alg k) /\
  (~ In KF_ops ws -> k_ops k' = k_ops k) /\
  (~ In KF_base_iv ws -> k_base_iv k' = k_base_iv k) /\
  (~ In KF_params ws -> k_params k' = k_params k).

(* BTreeSet<KeyOperation>::insert: the members afterwards are the old ones and the new one *)
Lemma reg_cmp_refl' a : reg_cmp a a = Eq.
Proof. now apply reg_cmp_eq. Qed.
Lemma reg_set_insert_members x s y : In y (snd (reg_set_insert x s)) <-> y = x \/ In y s.
Proof.
  induction s as [|a r IH]; cbn [reg_set_insert].
  - cbn [snd In]. intuition congruence.
  - destruct (reg_cmp x a) eqn:C.
    + apply reg_cmp_eq in C. subst a. cbn [snd In]. intuition congruence.
    + cbn [snd In]. intuition congruence.
    + destruct (reg_set_insert x r) as [ins r'] eqn:E. cbn [snd In] in *. rewrite IH. intuition congruence.
Qed.
Lemma reg_set_insert_idem x s :
  snd (reg_set_insert x (snd (reg_set_insert x s))) = snd (reg_set_insert x s).
Proof.
  induction s as [|a r IH]; cbn [reg_set_insert snd].
  - now rewrite reg_cmp_refl'.
  - destruct (reg_cmp x a) eqn:C.
    + cbn [snd reg_set_insert]. now rewrite C.
    + cbn [snd reg_set_insert]. now rewrite reg_cmp_refl'.
    + destruct (reg_set_insert x r) as [ins r'] eqn:E. cbn [snd] in *. cbn [reg_set_insert]. rewrite C.
      destruct (reg_set_insert x r') as [ins2 r2] eqn:E2. cbn [snd] in *. now rewrite IH.
Qed.

Lemma KO_param_effect_ok : forall k l v, ~ (0 <= l <= 5) ->
  exists k', key_builder_step k (KO_param l v) = Ok k' /\
     k_kty k' = k_kty k /\ k_kid k' = k_kid k /\ k_alg k' = k_alg k /\ k_ops k' = k_ops k /\
     k_base_iv k' = k_base_iv k /\ k_params k' = k_params k ++ [(LInt l, v)].
Proof. intros k l v H. eexists. split; [apply key_param_appends; exact H|repeat split]. Qed.
Lemma KO_param_effect_panic : forall k l v, 0 <= l <= 5 -> key_builder_step k (KO_param l v) = Panic.
Proof. intros k l v H. now apply key_param_panics_iff. Qed.


Theorem key_step_effect :
  (* the constructors reset every field *)
  (forall k, exists k', key_builder_step k KO_new = Ok k' /\
     key_fields k' (RAssigned 0) [] None [] [] [])
  /\ (forall k c x y, exists k', key_builder_step k (KO_new_ec2_pub_key c x y) = Ok k' /\
     key_fields k' (RAssigned 2) [] None [] [] [(LInt (-1), VInt c); (LInt (-2), VBytes x); (LInt (-3), VBytes y)])
  /\ (forall k c x ys, exists k', key_builder_step k (KO_new_ec2_pub_key_y_sign c x ys) = Ok k' /\
     key_fields k' (RAssigned 2) [] None [] [] [(LInt (-1), VInt c); (LInt (-2), VBytes x); (LInt (-3), VBool ys)])
  /\ (forall k c x y d, exists k', key_builder_step k (KO_new_ec2_priv_key c x y d) = Ok k' /\
     key_fields k' (RAssigned 2) [] None [] [] [(LInt (-1), VInt c); (LInt (-2), VBytes x); (LInt (-3), VBytes y); (LInt (-4), VBytes d)])
  /\ (forall k kk, exists k', key_builder_step k (KO_new_symmetric_key kk) = Ok k' /\
     key_fields k' (RAssigned 4) [] None [] [] [(LInt (-1), VBytes kk)])
  /\ (forall k, exists k', key_builder_step k KO_new_okp_key = Ok k' /\
     key_fields k' (RAssigned 1) [] None [] [] [])
  /\ (forall k t, exists k', key_builder_step k (KO_kty t) = Ok k' /\
     key_fields k' t (k_kid k) (k_alg k) (k_ops k) (k_base_iv k) (k_params k))
  /\ (forall k b, exists k', key_builder_step k (KO_key_id b) = Ok k' /\
     key_fields k' (k_kty k) b (k_alg k) (k_ops k) (k_base_iv k) (k_params k))
  /\ (forall k b, exists k', key_builder_step k (KO_base_iv b) = Ok k' /\
     key_fields k' (k_kty k) (k_kid k) (k_alg k) (k_ops k) b (k_params k))
  /\ (forall k t, exists k', key_builder_step k (KO_key_type t) = Ok k' /\
     key_fields k' (RAssigned t) (k_kid k) (k_alg k) (k_ops k) (k_base_iv k) (k_params k))
  /\ (forall k a, exists k', key_builder_step k (KO_algorithm a) = Ok k' /\
     key_fields k' (k_kty k) (k_kid k) (Some (PAssigned a)) (k_ops k) (k_base_iv k) (k_params k))
  /\ (* BTreeSet insert *)
  (forall k o, exists k', key_builder_step k (KO_add_key_op o) = Ok k' /\
     key_fields k' (k_kty k) (k_kid k) (k_alg k) (snd (reg_set_insert (RAssigned o) (k_ops k))) (k_base_iv k) (k_params k))
  /\ (* param: documented panic exactly on the registered key parameters 0..5 *)
  (forall k l v, ~ (0 <= l <= 5) -> exists k', key_builder_step k (KO_param l v) = Ok k' /\
     key_fields k' (k_kty k) (k_kid k) (k_alg k) (k_ops k) (k_base_iv k) (k_params k ++ [(LInt l, v)]))
  /\ (forall k l v, 0 <= l <= 5 -> key_builder_step k (KO_param l v) = Panic).
Proof.
  repeat match goal with |- _ /\ _ => split end;
    first [exact KO_param_effect_ok
          |exact KO_param_effect_panic
          |(intros; eexists; split; [reflexivity|repeat split])].
Qed.

(* nothing outside the write footprint changes, for every call that returns *)
Theorem key_step_frame : forall k o k',
  key_builder_step k o = Ok k' -> key_unchanged_outside (key_writes o) k k'.
Proof.
  intros k o k' E. destruct o; cbn [key_builder_step] in E; inv_ok E;
    injection E as <-; unfold key_unchanged_outside; frame_tac.
Qed.

Definition key_agree_on (fs : list key_field) (k k' : cose_key) : Prop :=
  (In KF_kty fs -> k_kty k = k_kty k') /\
  (In KF_kid fs -> k_kid k = k_kid k') /\
  (In KF_alg fs -> k_alg k = k_alg k') /\
  (In KF_ops fs -> k_ops k = k_ops k') /\
  (In KF_base_iv fs -> k_base_iv k = k_base_iv k') /\
  (In KF_params fs -> k_params k = k_params k').

(* the outcome of a call, and what it writes, depend only on the read footprint *)
Theorem key_step_reads : forall o k1 k2, key_agree_on (key_reads o) k1 k2 ->
  res_agree (key_agree_on (key_writes o)) (key_builder_step k1 o) (key_builder_step k2 o).
Proof.
  intros o k1 k2 H. destruct k1 as [x0 x1 x2 x3 x4 x5], k2 as [y0 y1 y2 y3 y4 y5]; destruct o;
    unfold key_agree_on in H; cbn [key_reads k_kty k_kid k_alg k_ops k_base_iv k_params] in H; use_agree;
    cbn [key_builder_step k_kty k_kid k_alg k_ops k_base_iv k_params];
    reads_finish; unfold key_agree_on; agree_tac.
Qed.

Theorem key_later_setter_overrides :
  (forall k, seq2 key_builder_step k KO_new KO_new = key_builder_step k KO_new)
  /\ (forall k c1 x1 y1 c2 x2 y2, seq2 key_builder_step k (KO_new_ec2_pub_key c1 x1 y1) (KO_new_ec2_pub_key c2 x2 y2) = key_builder_step k (KO_new_ec2_pub_key c2 x2 y2))
  /\ (forall k c1 x1 ys1 c2 x2 ys2, seq2 key_builder_step k (KO_new_ec2_pub_key_y_sign c1 x1 ys1) (KO_new_ec2_pub_key_y_sign c2 x2 ys2) = key_builder_step k (KO_new_ec2_pub_key_y_sign c2 x2 ys2))
  /\ (forall k c1 x1 y1 d1 c2 x2 y2 d2, seq2 key_builder_step k (KO_new_ec2_priv_key c1 x1 y1 d1) (KO_new_ec2_priv_key c2 x2 y2 d2) = key_builder_step k (KO_new_ec2_priv_key c2 x2 y2 d2))
  /\ (forall k kk1 kk2, seq2 key_builder_step k (KO_new_symmetric_key kk1) (KO_new_symmetric_key kk2) = key_builder_step k (KO_new_symmetric_key kk2))
  /\ (forall k, seq2 key_builder_step k KO_new_okp_key KO_new_okp_key = key_builder_step k KO_new_okp_key)
  /\ (forall k t1 t2, seq2 key_builder_step k (KO_kty t1) (KO_kty t2) = key_builder_step k (KO_kty t2))
  /\ (forall k b1 b2, seq2 key_builder_step k (KO_key_id b1) (KO_key_id b2) = key_builder_step k (KO_key_id b2))
  /\ (forall k b1 b2, seq2 key_builder_step k (KO_base_iv b1) (KO_base_iv b2) = key_builder_step k (KO_base_iv b2))
  /\ (forall k t1 t2, seq2 key_builder_step k (KO_key_type t1) (KO_key_type t2) = key_builder_step k (KO_key_type t2))
  /\ (forall k a1 a2, seq2 key_builder_step k (KO_algorithm a1) (KO_algorithm a2) = key_builder_step k (KO_algorithm a2))
  /\ (* kty and key_type set the same field *)
  (forall k t, key_builder_step k (KO_key_type t) = key_builder_step k (KO_kty (RAssigned t)))
  /\ (forall k t1 t2, seq2 key_builder_step k (KO_kty t1) (KO_key_type t2) = key_builder_step k (KO_key_type t2))
  /\ (forall k t1 t2, seq2 key_builder_step k (KO_key_type t1) (KO_kty t2) = key_builder_step k (KO_kty t2)).
Proof. repeat match goal with |- _ /\ _ => split end; intros; reflexivity. Qed.

(* general form: a plain setter overrides every earlier call whose writes it covers *)
Theorem key_setter_overrides_covered : forall k o1 o2 k1,
  key_builder_step k o1 = Ok k1 -> key_reads o2 = [] -> incl (key_writes o1) (key_writes o2) ->
  key_builder_step k1 o2 = key_builder_step k o2.
Proof.
  intros k o1 o2 k1 E R I. apply (inclb_of key_field_dec) in I.
  destruct k as [x0 x1 x2 x3 x4 x5]; destruct o1, o2; try discriminate R; try (fp_false I); clear R I;
    cbn [key_builder_step] in E; inv_ok E; injection E as <-; reflexivity.
Qed.

(* accumulating calls append in call order *)
Theorem key_accumulates :
  (forall lvs k, Forall (fun lv => ~ (0 <= fst lv <= 5)) lvs ->
     run_ops key_builder_step (map (fun lv => KO_param (fst lv) (snd lv)) lvs) k =
     Ok (set_kparams (k_params k ++ map (fun lv => (LInt (fst lv), snd lv)) lvs) k))
  /\ (* key operations form a set: calls insert in order, a repeated call changes nothing *)
  (forall os k, run_ops key_builder_step (map KO_add_key_op os) k =
     Ok (set_kops (fold_left (fun acc o => snd (reg_set_insert (RAssigned o) acc)) os (k_ops k)) k))
  /\ (forall k o, seq2 key_builder_step k (KO_add_key_op o) (KO_add_key_op o) = key_builder_step k (KO_add_key_op o))
  /\ (forall k o k' x, key_builder_step k (KO_add_key_op o) = Ok k' ->
     (In x (k_ops k') <-> x = RAssigned o \/ In x (k_ops k))).
Proof.
  repeat match goal with |- _ /\ _ => split end.
  - intros lvs k H.
    apply (run_ops_accumulate key_builder_step (fun lv => KO_param (fst lv) (snd lv))
             (fun lv => (LInt (fst lv), snd lv)) (fun lv => ~ (0 <= fst lv <= 5)) k_params set_kparams);
      try reflexivity; [intros s a Pa; now apply key_param_appends|now intros []|exact H].
  - induction os as [|o os IH]; intros k.
    + destruct k; reflexivity.
    + cbn [map]. rewrite run_ops_cons. cbn [key_builder_step]. rewrite IH. destruct k; reflexivity.
  - intros k o. unfold seq2. cbn [key_builder_step bind set_kops k_ops]. now rewrite reg_set_insert_idem.
  - intros k o k' x E. cbn [key_builder_step] in E. injection E as <-. cbn [set_kops k_ops].
    apply reg_set_insert_members.
Qed.

(* calls with independent footprints commute *)
Theorem key_ops_commute : forall k o1 o2, key_independent o1 o2 ->
  seq2 key_builder_step k o1 o2 = seq2 key_builder_step k o2 o1.
Proof.
  intros k o1 o2 H. apply (independentb_of key_field_dec) in H.
  destruct k as [x0 x1 x2 x3 x4 x5]; destruct o1, o2; try (fp_false H); clear H;
    unfold seq2; cbn [key_builder_step bind k_kty k_kid k_alg k_ops k_base_iv k_params];
    repeat split_scrutinee; reflexivity.
Qed.

Corollary key_setters_commute : forall k o1 o2,
  key_reads o1 = [] -> key_reads o2 = [] -> disjoint (key_writes o1) (key_writes o2) ->
  seq2 key_builder_step k o1 o2 = seq2 key_builder_step k o2 o1.
Proof.
  intros k o1 o2 R1 R2 D. apply key_ops_commute. unfold key_independent, independent.
  rewrite R1, R2. cbn [app]. split; [exact D|]. intros f H2 H1. exact (D f H1 H2).
Qed.

(* ------------------------------------------------------------------------------------------ *)
(* 12. ClaimsSetBuilder *)
(* ------------------------------------------------------------------------------------------ *)
Inductive claims_field := CF_iss | CF_sub | CF_aud | CF_exp | CF_nbf | CF_iat | CF_cti | CF_rest.
Definition claims_field_dec : forall a b : claims_field, {a = b} + {a <> b}.
Proof. decide equality. Defined.

Definition claims_writes (o : claims_op) : list claims_field :=
  match o with
  | CO_issuer _ => [CF_iss]
  | CO_subject _ => [CF_sub]
  | CO_audience _ => [CF_aud]
  | CO_expiration_time _ => [CF_exp]
  | CO_not_before _ => [CF_nbf]
  | CO_issued_at _ => [CF_iat]
  | CO_cwt_id _ => [CF_cti]
  | CO_claim _ _ => [CF_rest]
  | CO_text_claim _ _ => [CF_rest]
  | CO_private_claim _ _ => [CF_rest]
  end.
Definition claims_reads (o : claims_op) : list claims_field :=
  match o with
  | CO_issuer _ => []
  | CO_subject _ => []
  | CO_audience _ => []
  | CO_expiration_time _ => []
  | CO_not_before _ => []
  | CO_issued_at _ => []
  | CO_cwt_id _ => []
  | CO_claim _ _ => [CF_rest]
  | CO_text_claim _ _ => [CF_rest]
  | CO_private_claim _ _ => [CF_rest]
  end.
Definition claims_independent (o1 o2 : claims_op) : Prop :=
  independent (claims_writes o1) (claims_reads o1) (claims_writes o2) (claims_reads o2).

Definition claims_fields (c : claims) v_iss v_sub v_aud v_exp v_nbf v_iat v_cti v_rest : Prop :=
  c_iss c = v_iss /\ c_sub c = v_sub /\ c_aud c = v_aud /\ c_exp c = v_exp /\ c_nbf c = v_nbf /\ c_iat c = v_iat /\ c_cti c = v_cti /\ c_rest c = v_rest.
Definition claims_unchanged_outside (ws : list claims_field) (c c' : claims) : Prop :=
  (~ In CF_iss ws -> c_iss c' = c_iss c) /\
  (~ In CF_sub ws -> c_sub c' = c_sub c) /\
  (~ In CF_aud ws -> c_aud c' = c_aud c) /\
  (~ In CF_exp ws -> c_exp c' = c_exp c) /\
  (~ In CF_nbf ws -> c_nbf c' = c_nbf c) /\
  (~ In CF_iat ws -> c_iat c' = c_iat c) /\
  (~ In CF_cti ws -> c_cti c' = c_cti c) /\
  (~ In CF_rest ws -> c_rest c' = c_rest c).

Lemma CO_claim_effect_ok : forall c n v, ~ (1 <= n <= 7) ->
  exists c', claims_builder_step c (CO_claim n v) = Ok c' /\
     c_iss c' = c_iss c /\ c_sub c' = c_sub c /\ c_aud c' = c_aud c /\ c_exp c' = c_exp c /\
     c_nbf c' = c_nbf c /\ c_iat c' = c_iat c /\ c_cti c' = c_cti c /\ c_rest c' = c_rest c ++ [(PAssigned n, v)].
Proof. intros c n v H. eexists. split; [apply claim_appends; exact H|repeat split]. Qed.
Lemma CO_claim_effect_panic : forall c n v, 1 <= n <= 7 -> claims_builder_step c (CO_claim n v) = Panic.
Proof. intros c n v H. now apply claim_panics_iff. Qed.
Lemma CO_private_claim_effect_ok : forall c i v, i < -65536 ->
  exists c', claims_builder_step c (CO_private_claim i v) = Ok c' /\
     c_iss c' = c_iss c /\ c_sub c' = c_sub c /\ c_aud c' = c_aud c /\ c_exp c' = c_exp c /\
     c_nbf c' = c_nbf c /\ c_iat c' = c_iat c /\ c_cti c' = c_cti c /\ c_rest c' = c_rest c ++ [(PPrivate i, v)].
Proof. intros c i v H. eexists. split; [apply private_claim_appends; exact H|repeat split]. Qed.
Lemma CO_private_claim_effect_panic : forall c i v, ~ (i < -65536) -> claims_builder_step c (CO_private_claim i v) = Panic.
Proof. intros c i v H. now apply private_claim_panics_iff. Qed.

Definition claims_set_rest (l : list (regp_label * value)) (c : claims) : claims :=
  mkClaims (c_iss c) (c_sub c) (c_aud c) (c_exp c) (c_nbf c) (c_iat c) (c_cti c) l.


Theorem claims_step_effect :
  (forall c t, exists c', claims_builder_step c (CO_issuer t) = Ok c' /\
     claims_fields c' (Some t) (c_sub c) (c_aud c) (c_exp c) (c_nbf c) (c_iat c) (c_cti c) (c_rest c))
  /\ (forall c t, exists c', claims_builder_step c (CO_subject t) = Ok c' /\
     claims_fields c' (c_iss c) (Some t) (c_aud c) (c_exp c) (c_nbf c) (c_iat c) (c_cti c) (c_rest c))
  /\ (forall c t, exists c', claims_builder_step c (CO_audience t) = Ok c' /\
     claims_fields c' (c_iss c) (c_sub c) (Some t) (c_exp c) (c_nbf c) (c_iat c) (c_cti c) (c_rest c))
  /\ (forall c t, exists c', claims_builder_step c (CO_expiration_time t) = Ok c' /\
     claims_fields c' (c_iss c) (c_sub c) (c_aud c) (Some t) (c_nbf c) (c_iat c) (c_cti c) (c_rest c))
  /\ (forall c t, exists c', claims_builder_step c (CO_not_before t) = Ok c' /\
     claims_fields c' (c_iss c) (c_sub c) (c_aud c) (c_exp c) (Some t) (c_iat c) (c_cti c) (c_rest c))
  /\ (forall c t, exists c', claims_builder_step c (CO_issued_at t) = Ok c' /\
     claims_fields c' (c_iss c) (c_sub c) (c_aud c) (c_exp c) (c_nbf c) (Some t) (c_cti c) (c_rest c))
  /\ (forall c b, exists c', claims_builder_step c (CO_cwt_id b) = Ok c' /\
     claims_fields c' (c_iss c) (c_sub c) (c_aud c) (c_exp c) (c_nbf c) (c_iat c) (Some b) (c_rest c))
  /\ (* claim: documented panic exactly on the core claims 1..7 *)
  (forall c n v, ~ (1 <= n <= 7) -> exists c', claims_builder_step c (CO_claim n v) = Ok c' /\
     claims_fields c' (c_iss c) (c_sub c) (c_aud c) (c_exp c) (c_nbf c) (c_iat c) (c_cti c) (c_rest c ++ [(PAssigned n, v)]))
  /\ (forall c n v, 1 <= n <= 7 -> claims_builder_step c (CO_claim n v) = Panic)
  /\ (forall c n v, exists c', claims_builder_step c (CO_text_claim n v) = Ok c' /\
     claims_fields c' (c_iss c) (c_sub c) (c_aud c) (c_exp c) (c_nbf c) (c_iat c) (c_cti c) (c_rest c ++ [(PText n, v)]))
  /\ (* private_claim: documented panic exactly outside the private range *)
  (forall c i v, i < -65536 -> exists c', claims_builder_step c (CO_private_claim i v) = Ok c' /\
     claims_fields c' (c_iss c) (c_sub c) (c_aud c) (c_exp c) (c_nbf c) (c_iat c) (c_cti c) (c_rest c ++ [(PPrivate i, v)]))
  /\ (forall c i v, ~ (i < -65536) -> claims_builder_step c (CO_private_claim i v) = Panic).
Proof.
  repeat match goal with |- _ /\ _ => split end;
    first [exact CO_claim_effect_ok
          |exact CO_claim_effect_panic
          |exact CO_private_claim_effect_ok
          |exact CO_private_claim_effect_panic
          |(intros; eexists; split; [reflexivity|repeat split])].
Qed.

(* nothing outside the write footprint changes, for every call that returns *)
Theorem claims_step_frame : forall c o c',
  claims_builder_step c o = Ok c' -> claims_unchanged_outside (claims_writes o) c c'.
Proof.
  intros c o c' E. destruct o; cbn [claims_builder_step] in E; inv_ok E;
    injection E as <-; unfold claims_unchanged_outside; frame_tac.
Qed.

Definition claims_agree_on (fs : list claims_field) (c c' : claims) : Prop :=
  (In CF_iss fs -> c_iss c = c_iss c') /\
  (In CF_sub fs -> c_sub c = c_sub c') /\
  (In CF_aud fs -> c_aud c = c_aud c') /\
  (In CF_exp fs -> c_exp c = c_exp c') /\
  (In CF_nbf fs -> c_nbf c = c_nbf c') /\
  (In CF_iat fs -> c_iat c = c_iat c') /\
  (In CF_cti fs -> c_cti c = c_cti c') /\
  (In CF_rest fs -> c_rest c = c_rest c').

(* the outcome of a call, and what it writes, depend only on the read footprint *)
Theorem claims_step_reads : forall o c1 c2, claims_agree_on (claims_reads o) c1 c2 ->
  res_agree (claims_agree_on (claims_writes o)) (claims_builder_step c1 o) (claims_builder_step c2 o).
Proof.
  intros o c1 c2 H. destruct c1 as [x0 x1 x2 x3 x4 x5 x6 x7], c2 as [y0 y1 y2 y3 y4 y5 y6 y7]; destruct o;
    unfold claims_agree_on in H; cbn [claims_reads c_iss c_sub c_aud c_exp c_nbf c_iat c_cti c_rest] in H; use_agree;
    cbn [claims_builder_step c_iss c_sub c_aud c_exp c_nbf c_iat c_cti c_rest];
    reads_finish; unfold claims_agree_on; agree_tac.
Qed.

Theorem claims_later_setter_overrides :
  (forall c t1 t2, seq2 claims_builder_step c (CO_issuer t1) (CO_issuer t2) = claims_builder_step c (CO_issuer t2))
  /\ (forall c t1 t2, seq2 claims_builder_step c (CO_subject t1) (CO_subject t2) = claims_builder_step c (CO_subject t2))
  /\ (forall c t1 t2, seq2 claims_builder_step c (CO_audience t1) (CO_audience t2) = claims_builder_step c (CO_audience t2))
  /\ (forall c t1 t2, seq2 claims_builder_step c (CO_expiration_time t1) (CO_expiration_time t2) = claims_builder_step c (CO_expiration_time t2))
  /\ (forall c t1 t2, seq2 claims_builder_step c (CO_not_before t1) (CO_not_before t2) = claims_builder_step c (CO_not_before t2))
  /\ (forall c t1 t2, seq2 claims_builder_step c (CO_issued_at t1) (CO_issued_at t2) = claims_builder_step c (CO_issued_at t2))
  /\ (forall c b1 b2, seq2 claims_builder_step c (CO_cwt_id b1) (CO_cwt_id b2) = claims_builder_step c (CO_cwt_id b2)).
Proof. repeat match goal with |- _ /\ _ => split end; intros; reflexivity. Qed.

(* general form: a plain setter overrides every earlier call whose writes it covers *)
Theorem claims_setter_overrides_covered : forall c o1 o2 c1,
  claims_builder_step c o1 = Ok c1 -> claims_reads o2 = [] -> incl (claims_writes o1) (claims_writes o2) ->
  claims_builder_step c1 o2 = claims_builder_step c o2.
Proof.
  intros c o1 o2 c1 E R I. apply (inclb_of claims_field_dec) in I.
  destruct c as [x0 x1 x2 x3 x4 x5 x6 x7]; destruct o1, o2; try discriminate R; try (fp_false I); clear R I;
    cbn [claims_builder_step] in E; inv_ok E; injection E as <-; reflexivity.
Qed.

(* accumulating calls append in call order *)
Theorem claims_accumulates :
  (forall nvs c, Forall (fun nv => ~ (1 <= fst nv <= 7)) nvs ->
     run_ops claims_builder_step (map (fun nv => CO_claim (fst nv) (snd nv)) nvs) c =
     Ok (claims_set_rest (c_rest c ++ map (fun nv => (PAssigned (fst nv), snd nv)) nvs) c))
  /\ (forall nvs c, run_ops claims_builder_step (map (fun nv => CO_text_claim (fst nv) (snd nv)) nvs) c =
     Ok (claims_set_rest (c_rest c ++ map (fun nv => (PText (fst nv), snd nv)) nvs) c))
  /\ (forall nvs c, Forall (fun nv => fst nv < -65536) nvs ->
     run_ops claims_builder_step (map (fun nv => CO_private_claim (fst nv) (snd nv)) nvs) c =
     Ok (claims_set_rest (c_rest c ++ map (fun nv => (PPrivate (fst nv), snd nv)) nvs) c)).
Proof.
  repeat match goal with |- _ /\ _ => split end.
  - intros nvs c H.
    apply (run_ops_accumulate claims_builder_step (fun nv => CO_claim (fst nv) (snd nv))
             (fun nv => (PAssigned (fst nv), snd nv)) (fun nv => ~ (1 <= fst nv <= 7)) c_rest claims_set_rest);
      try reflexivity; [intros s a Pa; now apply claim_appends|now intros []|exact H].
  - intros nvs c.
    apply (run_ops_accumulate claims_builder_step (fun nv => CO_text_claim (fst nv) (snd nv))
             (fun nv => (PText (fst nv), snd nv)) (fun _ => True) c_rest claims_set_rest);
      try reflexivity; [now intros []|apply Forall_True].
  - intros nvs c H.
    apply (run_ops_accumulate claims_builder_step (fun nv => CO_private_claim (fst nv) (snd nv))
             (fun nv => (PPrivate (fst nv), snd nv)) (fun nv => fst nv < -65536) c_rest claims_set_rest);
      try reflexivity; [intros s a Pa; now apply private_claim_appends|now intros []|exact H].
Qed.

(* calls with independent footprints commute *)
Theorem claims_ops_commute : forall c o1 o2, claims_independent o1 o2 ->
  seq2 claims_builder_step c o1 o2 = seq2 claims_builder_step c o2 o1.
Proof.
  intros c o1 o2 H. apply (independentb_of claims_field_dec) in H.
  destruct c as [x0 x1 x2 x3 x4 x5 x6 x7]; destruct o1, o2; try (fp_false H); clear H;
    unfold seq2; cbn [claims_builder_step bind c_iss c_sub c_aud c_exp c_nbf c_iat c_cti c_rest];
    repeat split_scrutinee; reflexivity.
Qed.

Corollary claims_setters_commute : forall c o1 o2,
  claims_reads o1 = [] -> claims_reads o2 = [] -> disjoint (claims_writes o1) (claims_writes o2) ->
  seq2 claims_builder_step c o1 o2 = seq2 claims_builder_step c o2 o1.
Proof.
  intros c o1 o2 R1 R2 D. apply claims_ops_commute. unfold claims_independent, independent.
  rewrite R1, R2. cbn [app]. split; [exact D|]. intros f H2 H1. exact (D f H1 H2).
Qed.

(* ------------------------------------------------------------------------------------------ *)
(* 13. PartyInfoBuilder *)
(* ------------------------------------------------------------------------------------------ *)
Inductive party_field := PF_identity | PF_nonce | PF_other.
Definition party_field_dec : forall a b : party_field, {a = b} + {a <> b}.
Proof. decide equality. Defined.

Definition party_writes (o : party_op) : list party_field :=
  match o with
  | PO_identity _ => [PF_identity]
  | PO_nonce _ => [PF_nonce]
  | PO_other _ => [PF_other]
  end.
Definition party_reads (o : party_op) : list party_field :=
  match o with
  | PO_identity _ => []
  | PO_nonce _ => []
  | PO_other _ => []
  end.
Definition party_independent (o1 o2 : party_op) : Prop :=
  independent (party_writes o1) (party_reads o1) (party_writes o2) (party_reads o2).

Definition party_fields (p : party_info) v_identity v_nonce v_other : Prop :=
  pi_identity p = v_identity /\ pi_nonce p = v_nonce /\ pi_other p = v_other.
Definition party_unchanged_outside (ws : list party_field) (p p' : party_info) : Prop :=
  (~ In PF_identity ws -> pi_identity p' = pi_identity p) /\
  (~ In PF_nonce ws -> pi_nonce p' = pi_nonce p) /\
  (~ In PF_other ws -> pi_other p' = pi_other p).

Theorem party_step_effect :
  (forall p b, exists p', party_builder_step p (PO_identity b) = Ok p' /\
     party_fields p' (Some b) (pi_nonce p) (pi_other p))
  /\ (forall p n, exists p', party_builder_step p (PO_nonce n) = Ok p' /\
     party_fields p' (pi_identity p) (Some n) (pi_other p))
  /\ (forall p b, exists p', party_builder_step p (PO_other b) = Ok p' /\
     party_fields p' (pi_identity p) (pi_nonce p) (Some b)).
Proof.
  repeat match goal with |- _ /\ _ => split end;
    first [(intros; eexists; split; [reflexivity|repeat split])].
Qed.

(* nothing outside the write footprint changes, for every call that returns *)
Theorem party_step_frame : forall p o p',
  party_builder_step p o = Ok p' -> party_unchanged_outside (party_writes o) p p'.
Proof.
  intros p o p' E. destruct o; cbn [party_builder_step] in E; inv_ok E;
    injection E as <-; unfold party_unchanged_outside; frame_tac.
Qed.

Definition party_agree_on (fs : list party_field) (p p' : party_info) : Prop :=
  (In PF_identity fs -> pi_identity p = pi_identity p') /\
  (In PF_nonce fs -> pi_nonce p = pi_nonce p') /\
  (In PF_other fs -> pi_other p = pi_other p').

(* the outcome of a call, and what it writes, depend only on the read footprint *)
Theorem party_step_reads : forall o p1 p2, party_agree_on (party_reads o) p1 p2 ->
  res_agree (party_agree_on (party_writes o)) (party_builder_step p1 o) (party_builder_step p2 o).
Proof.
  intros o p1 p2 H. destruct p1 as [x0 x1 x2], p2 as [y0 y1 y2]; destruct o;
    unfold party_agree_on in H; cbn [party_reads pi_identity pi_nonce pi_other] in H; use_agree;
    cbn [party_builder_step pi_identity pi_nonce pi_other];
    reads_finish; unfold party_agree_on; agree_tac.
Qed.

Theorem party_later_setter_overrides :
  (forall p b1 b2, seq2 party_builder_step p (PO_identity b1) (PO_identity b2) = party_builder_step p (PO_identity b2))
  /\ (forall p n1 n2, seq2 party_builder_step p (PO_nonce n1) (PO_nonce n2) = party_builder_step p (PO_nonce n2))
  /\ (forall p b1 b2, seq2 party_builder_step p (PO_other b1) (PO_other b2) = party_builder_step p (PO_other b2)).
Proof. repeat match goal with |- _ /\ _ => split end; intros; reflexivity. Qed.

(* general form: a plain setter overrides every earlier call whose writes it covers *)
Theorem party_setter_overrides_covered : forall p o1 o2 p1,
  party_builder_step p o1 = Ok p1 -> party_reads o2 = [] -> incl (party_writes o1) (party_writes o2) ->
  party_builder_step p1 o2 = party_builder_step p o2.
Proof.
  intros p o1 o2 p1 E R I. apply (inclb_of party_field_dec) in I.
  destruct p as [x0 x1 x2]; destruct o1, o2; try discriminate R; try (fp_false I); clear R I;
    cbn [party_builder_step] in E; inv_ok E; injection E as <-; reflexivity.
Qed.

(* calls with independent footprints commute *)
Theorem party_ops_commute : forall p o1 o2, party_independent o1 o2 ->
  seq2 party_builder_step p o1 o2 = seq2 party_builder_step p o2 o1.
Proof.
  intros p o1 o2 H. apply (independentb_of party_field_dec) in H.
  destruct p as [x0 x1 x2]; destruct o1, o2; try (fp_false H); clear H;
    unfold seq2; cbn [party_builder_step bind pi_identity pi_nonce pi_other];
    repeat split_scrutinee; reflexivity.
Qed.

Corollary party_setters_commute : forall p o1 o2,
  party_reads o1 = [] -> party_reads o2 = [] -> disjoint (party_writes o1) (party_writes o2) ->
  seq2 party_builder_step p o1 o2 = seq2 party_builder_step p o2 o1.
Proof.
  intros p o1 o2 R1 R2 D. apply party_ops_commute. unfold party_independent, independent.
  rewrite R1, R2. cbn [app]. split; [exact D|]. intros f H2 H1. exact (D f H1 H2).
Qed.

(* ------------------------------------------------------------------------------------------ *)
(* 14. SuppPubInfoBuilder *)
(* ------------------------------------------------------------------------------------------ *)
Inductive supp_field := UF_len | UF_prot | UF_other.
Definition supp_field_dec : forall a b : supp_field, {a = b} + {a <> b}.
Proof. decide equality. Defined.

Definition supp_writes (o : supp_op) : list supp_field :=
  match o with
  | UO_key_data_length _ => [UF_len]
  | UO_protected _ => [UF_prot]
  | UO_other _ => [UF_other]
  end.
Definition supp_reads (o : supp_op) : list supp_field :=
  match o with
  | UO_key_data_length _ => []
  | UO_protected _ => []
  | UO_other _ => []
  end.
Definition supp_independent (o1 o2 : supp_op) : Prop :=
  independent (supp_writes o1) (supp_reads o1) (supp_writes o2) (supp_reads o2).

Definition supp_fields (s : supp_pub_info) v_len v_prot v_other : Prop :=
  sp_len s = v_len /\ sp_prot s = v_prot /\ sp_other s = v_other.
Definition supp_unchanged_outside (ws : list supp_field) (s s' : supp_pub_info) : Prop :=
  (~ In UF_len ws -> sp_len s' = sp_len s) /\
  (~ In UF_prot ws -> sp_prot s' = sp_prot s) /\
  (~ In UF_other ws -> sp_other s' = sp_other s).

Theorem supp_step_effect :
  (forall s n, exists s', supp_builder_step s (UO_key_data_length n) = Ok s' /\
     supp_fields s' n (sp_prot s) (sp_other s))
  /\ (* retained wire bytes are dropped *)
  (forall s h, exists s', supp_builder_step s (UO_protected h) = Ok s' /\
     supp_fields s' (sp_len s) (mkProtected None h) (sp_other s))
  /\ (forall s b, exists s', supp_builder_step s (UO_other b) = Ok s' /\
     supp_fields s' (sp_len s) (sp_prot s) (Some b)).
Proof.
  repeat match goal with |- _ /\ _ => split end;
    first [(intros; eexists; split; [reflexivity|repeat split])].
Qed.

(* nothing outside the write footprint changes, for every call that returns *)
Theorem supp_step_frame : forall s o s',
  supp_builder_step s o = Ok s' -> supp_unchanged_outside (supp_writes o) s s'.
Proof.
  intros s o s' E. destruct o; cbn [supp_builder_step] in E; inv_ok E;
    injection E as <-; unfold supp_unchanged_outside; frame_tac.
Qed.

Definition supp_agree_on (fs : list supp_field) (s s' : supp_pub_info) : Prop :=
  (In UF_len fs -> sp_len s = sp_len s') /\
  (In UF_prot fs -> sp_prot s = sp_prot s') /\
  (In UF_other fs -> sp_other s = sp_other s').

(* the outcome of a call, and what it writes, depend only on the read footprint *)
Theorem supp_step_reads : forall o s1 s2, supp_agree_on (supp_reads o) s1 s2 ->
  res_agree (supp_agree_on (supp_writes o)) (supp_builder_step s1 o) (supp_builder_step s2 o).
Proof.
  intros o s1 s2 H. destruct s1 as [x0 x1 x2], s2 as [y0 y1 y2]; destruct o;
    unfold supp_agree_on in H; cbn [supp_reads sp_len sp_prot sp_other] in H; use_agree;
    cbn [supp_builder_step sp_len sp_prot sp_other];
    reads_finish; unfold supp_agree_on; agree_tac.
Qed.

Theorem supp_later_setter_overrides :
  (forall s n1 n2, seq2 supp_builder_step s (UO_key_data_length n1) (UO_key_data_length n2) = supp_builder_step s (UO_key_data_length n2))
  /\ (forall s h1 h2, seq2 supp_builder_step s (UO_protected h1) (UO_protected h2) = supp_builder_step s (UO_protected h2))
  /\ (forall s b1 b2, seq2 supp_builder_step s (UO_other b1) (UO_other b2) = supp_builder_step s (UO_other b2)).
Proof. repeat match goal with |- _ /\ _ => split end; intros; reflexivity. Qed.

(* general form: a plain setter overrides every earlier call whose writes it covers *)
Theorem supp_setter_overrides_covered : forall s o1 o2 s1,
  supp_builder_step s o1 = Ok s1 -> supp_reads o2 = [] -> incl (supp_writes o1) (supp_writes o2) ->
  supp_builder_step s1 o2 = supp_builder_step s o2.
Proof.
  intros s o1 o2 s1 E R I. apply (inclb_of supp_field_dec) in I.
  destruct s as [x0 x1 x2]; destruct o1, o2; try discriminate R; try (fp_false I); clear R I;
    cbn [supp_builder_step] in E; inv_ok E; injection E as <-; reflexivity.
Qed.

(* calls with independent footprints commute *)
Theorem supp_ops_commute : forall s o1 o2, supp_independent o1 o2 ->
  seq2 supp_builder_step s o1 o2 = seq2 supp_builder_step s o2 o1.
Proof.
  intros s o1 o2 H. apply (independentb_of supp_field_dec) in H.
  destruct s as [x0 x1 x2]; destruct o1, o2; try (fp_false H); clear H;
    unfold seq2; cbn [supp_builder_step bind sp_len sp_prot sp_other];
    repeat split_scrutinee; reflexivity.
Qed.

Corollary supp_setters_commute : forall s o1 o2,
  supp_reads o1 = [] -> supp_reads o2 = [] -> disjoint (supp_writes o1) (supp_writes o2) ->
  seq2 supp_builder_step s o1 o2 = seq2 supp_builder_step s o2 o1.
Proof.
  intros s o1 o2 R1 R2 D. apply supp_ops_commute. unfold supp_independent, independent.
  rewrite R1, R2. cbn [app]. split; [exact D|]. intros f H2 H1. exact (D f H1 H2).
Qed.

(* ------------------------------------------------------------------------------------------ *)
(* 15. CoseKdfContextBuilder *)
(* ------------------------------------------------------------------------------------------ *)
Inductive kdf_field := DF_alg | DF_u | DF_v | DF_pub | DF_priv.
Definition kdf_field_dec : forall a b : kdf_field, {a = b} + {a <> b}.
Proof. decide equality. Defined.

Definition kdf_writes (o : kdf_op) : list kdf_field :=
  match o with
  | DO_party_u_info _ => [DF_u]
  | DO_party_v_info _ => [DF_v]
  | DO_supp_pub_info _ => [DF_pub]
  | DO_algorithm _ => [DF_alg]
  | DO_add_supp_priv_info _ => [DF_priv]
  end.
Definition kdf_reads (o : kdf_op) : list kdf_field :=
  match o with
  | DO_party_u_info _ => []
  | DO_party_v_info _ => []
  | DO_supp_pub_info _ => []
  | DO_algorithm _ => []
  | DO_add_supp_priv_info _ => [DF_priv]
  end.
Definition kdf_independent (o1 o2 : kdf_op) : Prop :=
  independent (kdf_writes o1) (kdf_reads o1) (kdf_writes o2) (kdf_reads o2).

Definition kdf_fields (k : kdf_context) v_alg v_u v_v v_pub v_priv : Prop :=
  kc_alg k = v_alg /\ kc_u k = v_u /\ kc_v k = v_v /\ kc_pub k = v_pub /\ kc_priv k = v_priv.
Definition kdf_unchanged_outside (ws : list kdf_field) (k k' : kdf_context) : Prop :=
  (~ In DF_alg ws -> kc_alg k' = kc_alg k) /\
  (~ In DF_u ws -> kc_u k' = kc_u k) /\
  (~ In DF_v ws -> kc_v k' = kc_v k) /\
  (~ In DF_pub ws -> kc_pub k' = kc_pub k) /\
  (~ In DF_priv ws -> kc_priv k' = kc_priv k).

Theorem kdf_step_effect :
  (forall k p, exists k', kdf_builder_step k (DO_party_u_info p) = Ok k' /\
     kdf_fields k' (kc_alg k) p (kc_v k) (kc_pub k) (kc_priv k))
  /\ (forall k p, exists k', kdf_builder_step k (DO_party_v_info p) = Ok k' /\
     kdf_fields k' (kc_alg k) (kc_u k) p (kc_pub k) (kc_priv k))
  /\ (forall k s, exists k', kdf_builder_step k (DO_supp_pub_info s) = Ok k' /\
     kdf_fields k' (kc_alg k) (kc_u k) (kc_v k) s (kc_priv k))
  /\ (forall k a, exists k', kdf_builder_step k (DO_algorithm a) = Ok k' /\
     kdf_fields k' (PAssigned a) (kc_u k) (kc_v k) (kc_pub k) (kc_priv k))
  /\ (forall k b, exists k', kdf_builder_step k (DO_add_supp_priv_info b) = Ok k' /\
     kdf_fields k' (kc_alg k) (kc_u k) (kc_v k) (kc_pub k) (kc_priv k ++ [b])).
Proof.
  repeat match goal with |- _ /\ _ => split end;
    first [(intros; eexists; split; [reflexivity|repeat split])].
Qed.

(* nothing outside the write footprint changes, for every call that returns *)
Theorem kdf_step_frame : forall k o k',
  kdf_builder_step k o = Ok k' -> kdf_unchanged_outside (kdf_writes o) k k'.
Proof.
  intros k o k' E. destruct o; cbn [kdf_builder_step] in E; inv_ok E;
    injection E as <-; unfold kdf_unchanged_outside; frame_tac.
Qed.

Definition kdf_agree_on (fs : list kdf_field) (k k' : kdf_context) : Prop :=
  (In DF_alg fs -> kc_alg k = kc_alg k') /\
  (In DF_u fs -> kc_u k = kc_u k') /\
  (In DF_v fs -> kc_v k = kc_v k') /\
  (In DF_pub fs -> kc_pub k = kc_pub k') /\
  (In DF_priv fs -> kc_priv k = kc_priv k').

(* the outcome of a call, and what it writes, depend only on the read footprint *)
Theorem kdf_step_reads : forall o k1 k2, kdf_agree_on (kdf_reads o) k1 k2 ->
  res_agree (kdf_agree_on (kdf_writes o)) (kdf_builder_step k1 o) (kdf_builder_step k2 o).
Proof.
  intros o k1 k2 H. destruct k1 as [x0 x1 x2 x3 x4], k2 as [y0 y1 y2 y3 y4]; destruct o;
    unfold kdf_agree_on in H; cbn [kdf_reads kc_alg kc_u kc_v kc_pub kc_priv] in H; use_agree;
    cbn [kdf_builder_step kc_alg kc_u kc_v kc_pub kc_priv];
    reads_finish; unfold kdf_agree_on; agree_tac.
Qed.

Theorem kdf_later_setter_overrides :
  (forall k p1 p2, seq2 kdf_builder_step k (DO_party_u_info p1) (DO_party_u_info p2) = kdf_builder_step k (DO_party_u_info p2))
  /\ (forall k p1 p2, seq2 kdf_builder_step k (DO_party_v_info p1) (DO_party_v_info p2) = kdf_builder_step k (DO_party_v_info p2))
  /\ (forall k s1 s2, seq2 kdf_builder_step k (DO_supp_pub_info s1) (DO_supp_pub_info s2) = kdf_builder_step k (DO_supp_pub_info s2))
  /\ (forall k a1 a2, seq2 kdf_builder_step k (DO_algorithm a1) (DO_algorithm a2) = kdf_builder_step k (DO_algorithm a2)).
Proof. repeat match goal with |- _ /\ _ => split end; intros; reflexivity. Qed.

(* general form: a plain setter overrides every earlier call whose writes it covers *)
Theorem kdf_setter_overrides_covered : forall k o1 o2 k1,
  kdf_builder_step k o1 = Ok k1 -> kdf_reads o2 = [] -> incl (kdf_writes o1) (kdf_writes o2) ->
  kdf_builder_step k1 o2 = kdf_builder_step k o2.
Proof.
  intros k o1 o2 k1 E R I. apply (inclb_of kdf_field_dec) in I.
  destruct k as [x0 x1 x2 x3 x4]; destruct o1, o2; try discriminate R; try (fp_false I); clear R I;
    cbn [kdf_builder_step] in E; inv_ok E; injection E as <-; reflexivity.
Qed.

(* accumulating calls append in call order *)
Theorem kdf_accumulates :
  (forall l k, run_ops kdf_builder_step (map DO_add_supp_priv_info l) k =
     Ok (mkKdf (kc_alg k) (kc_u k) (kc_v k) (kc_pub k) (kc_priv k ++ l))).
Proof.
  intros l k. apply (run_ops_append kdf_builder_step DO_add_supp_priv_info kc_priv (fun l k => mkKdf (kc_alg k) (kc_u k) (kc_v k) (kc_pub k) l));
      try reflexivity; now intros [].
Qed.

(* calls with independent footprints commute *)
Theorem kdf_ops_commute : forall k o1 o2, kdf_independent o1 o2 ->
  seq2 kdf_builder_step k o1 o2 = seq2 kdf_builder_step k o2 o1.
Proof.
  intros k o1 o2 H. apply (independentb_of kdf_field_dec) in H.
  destruct k as [x0 x1 x2 x3 x4]; destruct o1, o2; try (fp_false H); clear H;
    unfold seq2; cbn [kdf_builder_step bind kc_alg kc_u kc_v kc_pub kc_priv];
    repeat split_scrutinee; reflexivity.
Qed.

Corollary kdf_setters_commute : forall k o1 o2,
  kdf_reads o1 = [] -> kdf_reads o2 = [] -> disjoint (kdf_writes o1) (kdf_writes o2) ->
  seq2 kdf_builder_step k o1 o2 = seq2 kdf_builder_step k o2 o1.
Proof.
  intros k o1 o2 R1 R2 D. apply kdf_ops_commute. unfold kdf_independent, independent.
  rewrite R1, R2. cbn [app]. split; [exact D|]. intros f H2 H1. exact (D f H1 H2).
Qed.

(* ------------------------------------------------------------------------------------------ *)
(* 16. a creator is the plain setter / adder applied to the closure's output                  *)
(* ------------------------------------------------------------------------------------------ *)
Ltac creator_is_setter :=
  intros; cbn [sign1_builder_step sign_builder_step mac0_builder_step mac_builder_step
               recipient_builder_step encrypt_builder_step encrypt0_builder_step];
  match goal with H : _ = Ok _ |- _ => rewrite H end; cbn [bind]; unfold call1, call2;
  match goal with H : _ = Some _ |- _ => rewrite H end; reflexivity.

Theorem sign1_creators_are_setters :
  (forall m aad f tbs sg, Sign1_tbs_data m aad = Ok tbs -> f tbs = Some sg ->
     sign1_builder_step m (S1_create_signature aad f) = sign1_builder_step m (S1_signature sg))
  /\ (forall m aad f tbs sg, Sign1_tbs_data m aad = Ok tbs -> f tbs = Some sg ->
     sign1_builder_step m (S1_try_create_signature aad f) = sign1_builder_step m (S1_signature sg))
  /\ (forall m pl aad f tbs sg, Sign1_tbs_detached_data m pl aad = Ok tbs -> f tbs = Some sg ->
     sign1_builder_step m (S1_create_detached_signature pl aad f) = sign1_builder_step m (S1_signature sg))
  /\ (forall m pl aad f tbs sg, Sign1_tbs_detached_data m pl aad = Ok tbs -> f tbs = Some sg ->
     sign1_builder_step m (S1_try_create_detached_signature pl aad f) = sign1_builder_step m (S1_signature sg)).
Proof. repeat match goal with |- _ /\ _ => split end; creator_is_setter. Qed.

(* hence runs of add_*_signature calls append in call order, by sign_accumulates *)
Theorem sign_creators_are_adders :
  (forall m s aad f tbs sg, Sign_tbs_data m aad s = Ok tbs -> f tbs = Some sg ->
     sign_builder_step m (SN_add_created_signature s aad f)
     = sign_builder_step m (SN_add_signature (mkSignature (s_prot s) (s_unprot s) sg)))
  /\ (forall m s aad f tbs sg, Sign_tbs_data m aad s = Ok tbs -> f tbs = Some sg ->
     sign_builder_step m (SN_try_add_created_signature s aad f)
     = sign_builder_step m (SN_add_signature (mkSignature (s_prot s) (s_unprot s) sg)))
  /\ (forall m s pl aad f tbs sg, Sign_tbs_detached_data m pl aad s = Ok tbs -> f tbs = Some sg ->
     sign_builder_step m (SN_add_detached_signature s pl aad f)
     = sign_builder_step m (SN_add_signature (mkSignature (s_prot s) (s_unprot s) sg)))
  /\ (forall m s pl aad f tbs sg, Sign_tbs_detached_data m pl aad s = Ok tbs -> f tbs = Some sg ->
     sign_builder_step m (SN_try_add_detached_signature s pl aad f)
     = sign_builder_step m (SN_add_signature (mkSignature (s_prot s) (s_unprot s) sg))).
Proof. repeat match goal with |- _ /\ _ => split end; creator_is_setter. Qed.

Theorem mac0_creators_are_setters :
  (forall m aad f tbm tg, Mac0_tbm m aad = Ok tbm -> f tbm = Some tg ->
     mac0_builder_step m (M0_create_tag aad f) = mac0_builder_step m (M0_tag tg))
  /\ (forall m aad f tbm tg, Mac0_tbm m aad = Ok tbm -> f tbm = Some tg ->
     mac0_builder_step m (M0_try_create_tag aad f) = mac0_builder_step m (M0_tag tg)).
Proof. repeat match goal with |- _ /\ _ => split end; creator_is_setter. Qed.

Theorem mac_creators_are_setters :
  (forall m aad f tbm tg, Mac_tbm m aad = Ok tbm -> f tbm = Some tg ->
     mac_builder_step m (MC_create_tag aad f) = mac_builder_step m (MC_tag tg))
  /\ (forall m aad f tbm tg, Mac_tbm m aad = Ok tbm -> f tbm = Some tg ->
     mac_builder_step m (MC_try_create_tag aad f) = mac_builder_step m (MC_tag tg)).
Proof. repeat match goal with |- _ /\ _ => split end; creator_is_setter. Qed.

Theorem recipient_creators_are_setters :
  (forall m c pt aad f a ct, recipient_aad m c aad = Ok a -> f pt a = Some ct ->
     recipient_builder_step m (RO_create_ciphertext c pt aad f) = recipient_builder_step m (RO_ciphertext ct))
  /\ (forall m c pt aad f a ct, recipient_aad m c aad = Ok a -> f pt a = Some ct ->
     recipient_builder_step m (RO_try_create_ciphertext c pt aad f) = recipient_builder_step m (RO_ciphertext ct)).
Proof. repeat match goal with |- _ /\ _ => split end; creator_is_setter. Qed.

Theorem encrypt_creators_are_setters :
  (forall m pt aad f a ct, enc_structure_data EncCoseEncrypt (en_prot m) aad = Ok a -> f pt a = Some ct ->
     encrypt_builder_step m (EO_create_ciphertext pt aad f) = encrypt_builder_step m (EO_ciphertext ct))
  /\ (forall m pt aad f a ct, enc_structure_data EncCoseEncrypt (en_prot m) aad = Ok a -> f pt a = Some ct ->
     encrypt_builder_step m (EO_try_create_ciphertext pt aad f) = encrypt_builder_step m (EO_ciphertext ct)).
Proof. repeat match goal with |- _ /\ _ => split end; creator_is_setter. Qed.

Theorem encrypt0_creators_are_setters :
  (forall m pt aad f a ct, enc_structure_data EncCoseEncrypt0 (e0_prot m) aad = Ok a -> f pt a = Some ct ->
     encrypt0_builder_step m (E0_create_ciphertext pt aad f) = encrypt0_builder_step m (E0_ciphertext ct))
  /\ (forall m pt aad f a ct, enc_structure_data EncCoseEncrypt0 (e0_prot m) aad = Ok a -> f pt a = Some ct ->
     encrypt0_builder_step m (E0_try_create_ciphertext pt aad f) = encrypt0_builder_step m (E0_ciphertext ct)).
Proof. repeat match goal with |- _ /\ _ => split end; creator_is_setter. Qed.

(* ------------------------------------------------------------------------------------------ *)
(* 17. the statements are not vacuous                                                         *)
(* ------------------------------------------------------------------------------------------ *)
Definition unserialisable_header : header := set_rest [(LInt 8, VNull); (LInt 8, VNull)] header_default.

Example unserialisable_header_built :
  run_ops header_builder_step [HO_value 8 VNull; HO_value 8 VNull] header_default = Ok unserialisable_header.
Proof. reflexivity. Qed.
Example not_serialisable_example : ~ serialisable (mkProtected None unserialisable_header).
Proof. intros [v H]. vm_compute in H. discriminate H. Qed.

Example creators_nonvacuous :
  (* a serialisable header, a closure that succeeds: the signature is what the closure returned *)
  (exists m', sign1_builder_step (mkSign1 protected_default header_default None [x00]) (S1_create_signature [] (fun _ => Some [x2a])) = Ok m'
     /\ sign1_fields m' protected_default header_default None [x2a])
  (* the closure fails *)
  /\ sign1_builder_step (mkSign1 protected_default header_default None [x00]) (S1_try_create_signature [] (fun _ => None)) = Err EEncode
  (* the protected header cannot be serialised *)
  /\ sign1_builder_step (mkSign1 (mkProtected None unserialisable_header) header_default None []) (S1_create_signature [] (fun t => Some t)) = Panic
  (* detached signature over a message that has a payload *)
  /\ sign1_builder_step (mkSign1 protected_default header_default (Some [x01]) []) (S1_create_detached_signature [] [] (fun t => Some t)) = Panic
  (* tag without a payload *)
  /\ mac0_builder_step (mkMac0 protected_default header_default None []) (M0_create_tag [] (fun t => Some t)) = Panic
  (* recipient ciphertext under a non-recipient context *)
  /\ recipient_builder_step (mkRecipient protected_default header_default None []) (RO_create_ciphertext EncCoseEncrypt [] [] (fun _ a => Some a)) = Panic
  /\ (exists m', recipient_builder_step (mkRecipient protected_default header_default None []) (RO_create_ciphertext EncEncRecipient [] [] (fun _ _ => Some [x2a])) = Ok m'
     /\ recipient_fields m' protected_default header_default (Some [x2a]) [])
  (* key operations are a sorted set, not a list *)
  /\ run_ops key_builder_step [KO_add_key_op 2; KO_add_key_op 1; KO_add_key_op 2] key_default
     = Ok (set_kops [RAssigned 1; RAssigned 2] key_default)
  (* iv and partial_iv clear each other *)
  /\ run_ops header_builder_step [HO_iv [x01]; HO_partial_iv [x02]] header_default
     = Ok (mkHeader None [] None [] [] [x02] [] [])
  (* independent calls commute, dependent ones need not *)
  /\ header_independent (HO_key_id [x01]) (HO_value 9 VNull)
  /\ seq2 sign1_builder_step (mkSign1 protected_default header_default None []) (S1_payload [x01]) (S1_create_signature [] (fun t => Some t))
     <> seq2 sign1_builder_step (mkSign1 protected_default header_default None []) (S1_create_signature [] (fun t => Some t)) (S1_payload [x01]).
Proof.
  repeat match goal with |- _ /\ _ => split end; try reflexivity.
  - eexists. split; [reflexivity|repeat split].
  - eexists. split; [reflexivity|repeat split].
  - split; intros f; cbn; intuition congruence.
  - vm_compute. discriminate.
Qed.

(* ------------------------------------------------------------------------------------------ *)
(* 18. all builders                                                                           *)
(* ------------------------------------------------------------------------------------------ *)
Notation statement_of x := ltac:(let t := type of x in exact t) (only parsing).

Theorem all_builders_frame_laws :
  (* header *)
  (statement_of header_step_effect
   /\ statement_of header_step_frame
   /\ statement_of header_step_reads
   /\ statement_of header_later_setter_overrides
   /\ statement_of header_setter_overrides_covered
   /\ statement_of header_accumulates
   /\ statement_of header_ops_commute
   /\ statement_of header_setters_commute
   /\ statement_of header_builder_refines_effect
   /\ statement_of header_builder_run
   /\ statement_of built_header_never_both_ivs_new
   /\ statement_of header_value_panics_iff
   /\ statement_of later_setter_overrides_more)
  /\
  (* signature *)
  (statement_of signature_step_effect
   /\ statement_of signature_step_frame
   /\ statement_of signature_step_reads
   /\ statement_of signature_later_setter_overrides
   /\ statement_of signature_setter_overrides_covered
   /\ statement_of signature_ops_commute
   /\ statement_of signature_setters_commute)
  /\
  (* sign1 *)
  (statement_of sign1_step_effect
   /\ statement_of sign1_step_frame
   /\ statement_of sign1_step_reads
   /\ statement_of sign1_later_setter_overrides
   /\ statement_of sign1_setter_overrides_covered
   /\ statement_of sign1_ops_commute
   /\ statement_of sign1_setters_commute
   /\ statement_of sign1_setters_frame
   /\ statement_of later_setter_overrides
   /\ statement_of create_signature_uses_current_state
   /\ statement_of sign1_creators_are_setters)
  /\
  (* sign *)
  (statement_of sign_step_effect
   /\ statement_of sign_step_frame
   /\ statement_of sign_step_reads
   /\ statement_of sign_later_setter_overrides
   /\ statement_of sign_setter_overrides_covered
   /\ statement_of sign_accumulates
   /\ statement_of sign_ops_commute
   /\ statement_of sign_setters_commute
   /\ statement_of sign_creators_are_adders)
  /\
  (* mac0 *)
  (statement_of mac0_step_effect
   /\ statement_of mac0_step_frame
   /\ statement_of mac0_step_reads
   /\ statement_of mac0_later_setter_overrides
   /\ statement_of mac0_setter_overrides_covered
   /\ statement_of mac0_ops_commute
   /\ statement_of mac0_setters_commute
   /\ statement_of mac0_setters_frame
   /\ statement_of mac0_creators_are_setters)
  /\
  (* mac *)
  (statement_of mac_step_effect
   /\ statement_of mac_step_frame
   /\ statement_of mac_step_reads
   /\ statement_of mac_later_setter_overrides
   /\ statement_of mac_setter_overrides_covered
   /\ statement_of mac_accumulates
   /\ statement_of mac_ops_commute
   /\ statement_of mac_setters_commute
   /\ statement_of mac_creators_are_setters)
  /\
  (* recipient *)
  (statement_of recipient_step_effect
   /\ statement_of recipient_step_frame
   /\ statement_of recipient_step_reads
   /\ statement_of recipient_later_setter_overrides
   /\ statement_of recipient_setter_overrides_covered
   /\ statement_of recipient_accumulates
   /\ statement_of recipient_ops_commute
   /\ statement_of recipient_setters_commute
   /\ statement_of recipient_creators_are_setters)
  /\
  (* encrypt *)
  (statement_of encrypt_step_effect
   /\ statement_of encrypt_step_frame
   /\ statement_of encrypt_step_reads
   /\ statement_of encrypt_later_setter_overrides
   /\ statement_of encrypt_setter_overrides_covered
   /\ statement_of encrypt_accumulates
   /\ statement_of encrypt_ops_commute
   /\ statement_of encrypt_setters_commute
   /\ statement_of encrypt_creators_are_setters)
  /\
  (* encrypt0 *)
  (statement_of encrypt0_step_effect
   /\ statement_of encrypt0_step_frame
   /\ statement_of encrypt0_step_reads
   /\ statement_of encrypt0_later_setter_overrides
   /\ statement_of encrypt0_setter_overrides_covered
   /\ statement_of encrypt0_ops_commute
   /\ statement_of encrypt0_setters_commute
   /\ statement_of encrypt0_setters_frame
   /\ statement_of encrypt0_creators_are_setters)
  /\
  (* key *)
  (statement_of key_step_effect
   /\ statement_of key_step_frame
   /\ statement_of key_step_reads
   /\ statement_of key_later_setter_overrides
   /\ statement_of key_setter_overrides_covered
   /\ statement_of key_accumulates
   /\ statement_of key_ops_commute
   /\ statement_of key_setters_commute
   /\ statement_of key_setters_frame
   /\ statement_of key_constructors
   /\ statement_of key_param_panics_iff)
  /\
  (* claims *)
  (statement_of claims_step_effect
   /\ statement_of claims_step_frame
   /\ statement_of claims_step_reads
   /\ statement_of claims_later_setter_overrides
   /\ statement_of claims_setter_overrides_covered
   /\ statement_of claims_accumulates
   /\ statement_of claims_ops_commute
   /\ statement_of claims_setters_commute
   /\ statement_of claim_panics_iff
   /\ statement_of private_claim_panics_iff)
  /\
  (* party *)
  (statement_of party_step_effect
   /\ statement_of party_step_frame
   /\ statement_of party_step_reads
   /\ statement_of party_later_setter_overrides
   /\ statement_of party_setter_overrides_covered
   /\ statement_of party_ops_commute
   /\ statement_of party_setters_commute)
  /\
  (* supp *)
  (statement_of supp_step_effect
   /\ statement_of supp_step_frame
   /\ statement_of supp_step_reads
   /\ statement_of supp_later_setter_overrides
   /\ statement_of supp_setter_overrides_covered
   /\ statement_of supp_ops_commute
   /\ statement_of supp_setters_commute)
  /\
  (* kdf *)
  (statement_of kdf_step_effect
   /\ statement_of kdf_step_frame
   /\ statement_of kdf_step_reads
   /\ statement_of kdf_later_setter_overrides
   /\ statement_of kdf_setter_overrides_covered
   /\ statement_of kdf_accumulates
   /\ statement_of kdf_ops_commute
   /\ statement_of kdf_setters_commute)
  (* protected-header setters of all nine builders drop retained wire bytes *)
  /\ statement_of protected_setter_discards_wire_bytes.
Proof.
  exact (conj (conj header_step_effect (conj header_step_frame (conj header_step_reads (conj header_later_setter_overrides (conj header_setter_overrides_covered (conj header_accumulates (conj header_ops_commute (conj header_setters_commute (conj header_builder_refines_effect (conj header_builder_run (conj built_header_never_both_ivs_new (conj header_value_panics_iff later_setter_overrides_more))))))))))))
    (conj (conj signature_step_effect (conj signature_step_frame (conj signature_step_reads (conj signature_later_setter_overrides (conj signature_setter_overrides_covered (conj signature_ops_commute signature_setters_commute))))))
    (conj (conj sign1_step_effect (conj sign1_step_frame (conj sign1_step_reads (conj sign1_later_setter_overrides (conj sign1_setter_overrides_covered (conj sign1_ops_commute (conj sign1_setters_commute (conj sign1_setters_frame (conj later_setter_overrides (conj create_signature_uses_current_state sign1_creators_are_setters))))))))))
    (conj (conj sign_step_effect (conj sign_step_frame (conj sign_step_reads (conj sign_later_setter_overrides (conj sign_setter_overrides_covered (conj sign_accumulates (conj sign_ops_commute (conj sign_setters_commute sign_creators_are_adders))))))))
    (conj (conj mac0_step_effect (conj mac0_step_frame (conj mac0_step_reads (conj mac0_later_setter_overrides (conj mac0_setter_overrides_covered (conj mac0_ops_commute (conj mac0_setters_commute (conj mac0_setters_frame mac0_creators_are_setters))))))))
    (conj (conj mac_step_effect (conj mac_step_frame (conj mac_step_reads (conj mac_later_setter_overrides (conj mac_setter_overrides_covered (conj mac_accumulates (conj mac_ops_commute (conj mac_setters_commute mac_creators_are_setters))))))))
    (conj (conj recipient_step_effect (conj recipient_step_frame (conj recipient_step_reads (conj recipient_later_setter_overrides (conj recipient_setter_overrides_covered (conj recipient_accumulates (conj recipient_ops_commute (conj recipient_setters_commute recipient_creators_are_setters))))))))
    (conj (conj encrypt_step_effect (conj encrypt_step_frame (conj encrypt_step_reads (conj encrypt_later_setter_overrides (conj encrypt_setter_overrides_covered (conj encrypt_accumulates (conj encrypt_ops_commute (conj encrypt_setters_commute encrypt_creators_are_setters))))))))
    (conj (conj encrypt0_step_effect (conj encrypt0_step_frame (conj encrypt0_step_reads (conj encrypt0_later_setter_overrides (conj encrypt0_setter_overrides_covered (conj encrypt0_ops_commute (conj encrypt0_setters_commute (conj encrypt0_setters_frame encrypt0_creators_are_setters))))))))
    (conj (conj key_step_effect (conj key_step_frame (conj key_step_reads (conj key_later_setter_overrides (conj key_setter_overrides_covered (conj key_accumulates (conj key_ops_commute (conj key_setters_commute (conj key_setters_frame (conj key_constructors key_param_panics_iff))))))))))
    (conj (conj claims_step_effect (conj claims_step_frame (conj claims_step_reads (conj claims_later_setter_overrides (conj claims_setter_overrides_covered (conj claims_accumulates (conj claims_ops_commute (conj claims_setters_commute (conj claim_panics_iff private_claim_panics_iff)))))))))
    (conj (conj party_step_effect (conj party_step_frame (conj party_step_reads (conj party_later_setter_overrides (conj party_setter_overrides_covered (conj party_ops_commute party_setters_commute))))))
    (conj (conj supp_step_effect (conj supp_step_frame (conj supp_step_reads (conj supp_later_setter_overrides (conj supp_setter_overrides_covered (conj supp_ops_commute supp_setters_commute))))))
    (conj (conj kdf_step_effect (conj kdf_step_frame (conj kdf_step_reads (conj kdf_later_setter_overrides (conj kdf_setter_overrides_covered (conj kdf_accumulates (conj kdf_ops_commute kdf_setters_commute)))))))
    protected_setter_discards_wire_bytes)))))))))))))).
Qed.

Print Assumptions header_step_effect.
Print Assumptions signature_step_effect.
Print Assumptions sign1_step_effect.
Print Assumptions sign_step_effect.
Print Assumptions mac0_step_effect.
Print Assumptions mac_step_effect.
Print Assumptions recipient_step_effect.
Print Assumptions encrypt_step_effect.
Print Assumptions encrypt0_step_effect.
Print Assumptions key_step_effect.
Print Assumptions claims_step_effect.
Print Assumptions party_step_effect.
Print Assumptions supp_step_effect.
Print Assumptions kdf_step_effect.
Print Assumptions all_builders_frame_laws.
