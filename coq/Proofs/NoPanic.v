(* C01: no decoding entry point panics (or runs out of model fuel) on any input; every decoded
   value can be re-encoded and handed to the to-be-signed / verify / MAC / decrypt helpers under
   their documented preconditions without panicking. *)
From Coq Require Import Lia ZifyBool ZifyN ZifyNat.
From Coset.Model Require Import Prelude Cbor Iana Label Msg Key Cwt Context Api.
From Coset.gen Require Import Generated.
From Coset.Proofs Require Import OneItem RoundTrip MsgAccept Structures.
Open Scope string_scope. Open Scope Z_scope. Open Scope list_scope.

(* ====================================================================== *)
(* 0. total: neither Panic nor OutOfFuel                                   *)
(* ====================================================================== *)
Definition total {A} (r : res A) : Prop := r <> Panic /\ r <> OutOfFuel.

Lemma total_ok {A} (a : A) : total (Ok a). Proof. split; discriminate. Qed.
Lemma total_err {A} (e : err) : total (@Err A e). Proof. split; discriminate. Qed.
Lemma total_cases {A} (r : res A) : total r <-> (exists a, r = Ok a) \/ (exists e, r = Err e).
Proof. unfold total. destruct r; split; intros H; eauto; try (split; discriminate);
  try (destruct H as [H _]; congruence); try (destruct H as [_ H]; congruence);
  destruct H as [[? H]|[? H]]; discriminate. Qed.

Lemma bind_total {A B} (r : res A) (k : A -> res B) :
  total r -> (forall a, r = Ok a -> total (k a)) -> total (bind r k).
Proof. intros [H1 H2] H. destruct r; cbn [bind]; auto using total_err; congruence. Qed.

Lemma map_err_total {A} (r : res A) e : total r -> total (map_err r e).
Proof. intros [H1 H2]. destruct r; cbn [map_err]; auto using total_ok, total_err; congruence. Qed.

Lemma mapM_total_Forall {A B} (f : A -> res B) l :
  Forall (fun x => total (f x)) l -> total (mapM f l).
Proof. induction 1 as [|a r Ha Hr IH]; cbn [mapM]; [apply total_ok|].
  apply bind_total; auto. intros b _. apply bind_total; auto. intros bs _. apply total_ok. Qed.

Lemma mapM_total {A B} (f : A -> res B) : (forall x, total (f x)) -> forall l, total (mapM f l).
Proof. intros H l. apply mapM_total_Forall. apply Forall_forall. auto. Qed.

(* inversion of successful runs *)
Lemma bind_ok {A B} (r : res A) (k : A -> res B) b :
  bind r k = Ok b -> exists a, r = Ok a /\ k a = Ok b.
Proof. destruct r; cbn [bind]; try discriminate. eauto. Qed.

Lemma mapM_ok_Forall {A B} (f : A -> res B) (P : B -> Prop) :
  (forall a b, f a = Ok b -> P b) -> forall l bs, mapM f l = Ok bs -> Forall P bs.
Proof. intros H. induction l as [|a r IH]; intros bs; cbn [mapM].
  - intros [= <-]. constructor.
  - intros E. apply bind_ok in E as (b & Eb & E). apply bind_ok in E as (bs' & Ebs & E).
    injection E as <-. constructor; eauto. Qed.

(* ---------- leaves ---------- *)
Lemma try_as_bytes_total x : total (try_as_bytes x).
Proof. destruct x; split; discriminate. Qed.
Lemma try_as_nonempty_bytes_total x : total (try_as_nonempty_bytes x).
Proof. destruct x as [ |[|b r]| | | | | | | ]; split; discriminate. Qed.
Lemma try_as_array_total x : total (try_as_array x).
Proof. destruct x; split; discriminate. Qed.
Lemma try_as_map_total x : total (try_as_map x).
Proof. destruct x; split; discriminate. Qed.
Lemma try_as_string_total x : total (try_as_string x).
Proof. destruct x; split; discriminate. Qed.
Lemma try_as_integer_total x : total (try_as_integer x).
Proof. destruct x; split; discriminate. Qed.
Lemma bytes_or_nil_total x : total (bytes_or_nil x).
Proof. destruct x; split; discriminate. Qed.
Lemma to_i64_res_total z : total (to_i64_res z).
Proof. unfold to_i64_res. destruct (in_i64 z); split; discriminate. Qed.
Lemma to_u64_res_total z : total (to_u64_res z).
Proof. unfold to_u64_res. destruct (in_u64 z); split; discriminate. Qed.
Lemma label_from_value_total x : total (label_from_value x).
Proof. destruct x; cbn [label_from_value]; try apply total_err; try apply total_ok.
  apply bind_total; [apply to_i64_res_total|]. intros; apply total_ok. Qed.
Lemma reg_from_value_total T x : total (reg_from_value T x).
Proof. destruct x; cbn [reg_from_value]; try apply total_err; try apply total_ok.
  apply bind_total; [apply to_i64_res_total|]. intros a _.
  destruct (registered T a); [apply total_ok|apply total_err]. Qed.
Lemma regp_from_value_total reg x : total (regp_from_value reg x).
Proof. destruct x; cbn [regp_from_value]; try apply total_err; try apply total_ok.
  apply bind_total; [apply to_i64_res_total|]. intros a _.
  destruct (registered (table_of reg) a); [apply total_ok|].
  destruct (is_private reg a); [apply total_ok|apply total_err]. Qed.
Lemma check_content_type_text_total t : total (check_content_type_text t).
Proof. unfold check_content_type_text. destruct (isnil t); [apply total_err|].
  destruct (ws_prefix t || ws_suffix t); [apply total_err|].
  destruct (negb _); [apply total_err|apply total_ok]. Qed.
Lemma read_to_value_tot b : total (read_to_value b).
Proof. apply read_to_value_total. Qed.

Global Hint Resolve total_ok total_err try_as_bytes_total try_as_nonempty_bytes_total try_as_array_total
  try_as_map_total try_as_string_total try_as_integer_total bytes_or_nil_total to_i64_res_total
  to_u64_res_total label_from_value_total reg_from_value_total regp_from_value_total
  check_content_type_text_total read_to_value_tot map_err_total : tot.

(* the mechanical part: binds, conditionals, matches *)
Ltac tot_step :=
  match goal with
  | |- total (Ok _) => apply total_ok
  | |- total (Err _) => apply total_err
  | |- total (bind _ _) => apply bind_total; [|intros ? ?]
  | |- total (if ?c then _ else _) => destruct c eqn:?
  | |- total (match ?x with _ => _ end) => destruct x eqn:?
  | |- total (mapM _ _) => apply mapM_total; intros ?
  | |- total _ => solve [auto with tot]
  end.
Ltac tot := repeat tot_step.

(* the seen-set loop, entry-wise *)
Lemma map_loop_total {S} (step : S -> label -> value -> res S) m :
  Forall (fun kv => forall s l, total (step s l (snd kv))) m ->
  forall s seen, total (map_loop step m s seen).
Proof. induction 1 as [|[k x] r Hx Hr IH]; intros s seen; cbn [map_loop]; [apply total_ok|].
  apply bind_total; [apply label_from_value_total|]. intros l _.
  destruct (label_mem l seen); [apply total_err|].
  apply bind_total; [apply Hx|]. intros s' _. apply IH. Qed.

(* ====================================================================== *)
(* 1. Header decoding, one nesting level                                   *)
(* ====================================================================== *)
(* P on the elements of an array *)
Definition sub1 (P : value -> Prop) (v : value) : Prop :=
  match v with VArray l => Forall P l | _ => True end.

Section LevelTotal.
  Variable pp : bytes -> res header.
  Hypothesis pp_total : forall b, total (pp b).

  Lemma protected_from_bstr_total x : total (protected_from_bstr pp x).
  Proof. unfold protected_from_bstr. tot. Qed.

  Section Local.
    Variable hv : value -> res header.
    Let Q (y : value) : Prop := total (hv y).

    (* only the second element of the array is handed to [hv] *)
    Lemma signature_from_value_with_total x : sub1 Q x -> total (signature_from_value_with pp hv x).
    Proof. destruct x; try (intros; apply total_err). cbn [sub1 signature_from_value_with]. intros F.
      rewrite arity_signature.
      destruct l as [|x0 [|x1 [|x2 [|x3 r]]]]; cbn [length Nat.eqb negb]; try apply total_err.
      apply bind_total; [apply try_as_bytes_total|]. intros sg _.
      apply bind_total. { inversion F as [|? ? _ F1]; subst. inversion F1; subst. assumption. }
      intros u _. apply bind_total; [apply protected_from_bstr_total|]. intros p _. apply total_ok. Qed.

    (* [hv] sees elements of x (single counter-signature) or elements of elements of x (array of them) *)
    Lemma header_step_total h l x : sub1 Q x -> sub1 (sub1 Q) x -> total (header_step pp hv h l x).
    Proof. intros F1 F2. unfold header_step. apply bind_total.
      2:{ intros h' _. destruct (iv_clash h'); [apply total_err|apply total_ok]. }
      destruct (is_lint l H_ALG); [tot|].
      destruct (is_lint l H_CRIT); [tot|].
      destruct (is_lint l H_CONTENT_TYPE); [tot|].
      destruct (is_lint l H_KID); [tot|].
      destruct (is_lint l H_IV); [tot|].
      destruct (is_lint l H_PARTIAL_IV); [tot|].
      destruct (is_lint l H_COUNTER_SIG); [|apply total_ok].
      destruct x as [ | | | | | | |a| ]; try apply total_err.
      destruct a as [|y r]; [apply total_err|].
      destruct y; try apply total_err.
      - apply bind_total; [|intros; apply total_ok]. now apply signature_from_value_with_total.
      - apply bind_total; [|intros; apply total_ok]. apply mapM_total_Forall.
        cbn [sub1] in F2. revert F2. apply Forall_impl. intros s. apply signature_from_value_with_total. Qed.
  End Local.

  Lemma header_from_value_total_strong : forall v,
    let Q := fun y => total (header_from_value pp y) in Q v /\ sub1 Q v /\ sub1 (sub1 Q) v.
  Proof. intros v Q.
    induction v as [z|b|x|t|b| |t v IH|l IH|m IH] using value_ind';
      try (split; [apply total_err|split; exact I]).
    - (* array *) split; [apply total_err|]. cbn [sub1]. split.
      + revert IH. apply Forall_impl. tauto.
      + revert IH. apply Forall_impl. tauto.
    - (* map *) split; [|split; exact I]. unfold Q. cbn [header_from_value].
      apply map_loop_total. revert IH. apply Forall_impl. intros [k x] [_ (_ & H1 & H2)] s l. cbn [snd] in *.
      now apply header_step_total.
  Qed.

  Lemma header_from_value_total_pp : forall v, total (header_from_value pp v).
  Proof. intros v. apply (header_from_value_total_strong v). Qed.

  Lemma signature_from_value_total x : total (signature_from_value pp x).
  Proof. unfold signature_from_value. apply signature_from_value_with_total.
    destruct x; cbn [sub1]; auto. apply Forall_forall. intros. apply header_from_value_total_pp. Qed.
End LevelTotal.

Lemma header_from_value_total : forall pp, (forall b, total (pp b)) -> forall v, total (header_from_value pp v).
Proof. exact header_from_value_total_pp. Qed.

(* ====================================================================== *)
(* 2. All nesting levels                                                   *)
(* ====================================================================== *)
Lemma header_at_unfold n v : header_at n v = header_from_value (parse_prot_at n) v.
Proof. destruct n; reflexivity. Qed.

Lemma levels_total : forall n, (forall b, total (parse_prot_at n b)) /\ (forall v, total (header_at n v)).
Proof. induction n as [|n [IHp IHh]].
  - assert (P0 : forall b, total (parse_prot_at 0 b)) by (intros; apply total_err).
    split; [exact P0|]. intros v. rewrite header_at_unfold. now apply header_from_value_total.
  - assert (PS : forall b, total (parse_prot_at (S n) b)).
    { intros b. cbn [parse_prot_at]. apply bind_total; [apply read_to_value_tot|]. intros v _. apply IHh. }
    split; [exact PS|]. intros v. rewrite header_at_unfold. now apply header_from_value_total.
Qed.

Lemma header_at_total : forall n v, total (header_at n v).
Proof. intros n. apply levels_total. Qed.
Lemma parse_prot_at_total : forall n b, total (parse_prot_at n b).
Proof. intros n. apply levels_total. Qed.


(* ====================================================================== *)
(* 3. The public decoders                                                  *)
(* ====================================================================== *)
Lemma Header_from_value_total v : total (Header_from_value v).
Proof. apply header_at_total. Qed.
Lemma ProtectedHeader_from_cbor_bstr_total v : total (ProtectedHeader_from_cbor_bstr v).
Proof. apply protected_from_bstr_total. apply parse_prot_at_total. Qed.
Lemma ProtectedHeader_from_value_total v : total (ProtectedHeader_from_value v).
Proof. unfold ProtectedHeader_from_value. apply bind_total; [apply Header_from_value_total|]. intros; apply total_ok. Qed.
Lemma CoseSignature_from_value_total v : total (CoseSignature_from_value v).
Proof. apply signature_from_value_total. apply parse_prot_at_total. Qed.

Global Hint Resolve Header_from_value_total ProtectedHeader_from_cbor_bstr_total
  ProtectedHeader_from_value_total CoseSignature_from_value_total : tot.

Lemma CoseSign1_from_value_total v : total (CoseSign1_from_value v).
Proof. unfold CoseSign1_from_value. apply bind_total; [apply try_as_array_total|]. intros a _.
  rewrite arity_sign1.
  destruct a as [|x0 [|x1 [|x2 [|x3 [|x4 r]]]]]; cbn [length Nat.eqb negb]; try apply total_err. tot. Qed.

Lemma CoseSign_from_value_total v : total (CoseSign_from_value v).
Proof. unfold CoseSign_from_value. apply bind_total; [apply try_as_array_total|]. intros a _.
  rewrite arity_sign.
  destruct a as [|x0 [|x1 [|x2 [|x3 [|x4 r]]]]]; cbn [length Nat.eqb negb]; try apply total_err. tot. Qed.

Lemma CoseMac0_from_value_total v : total (CoseMac0_from_value v).
Proof. unfold CoseMac0_from_value. apply bind_total; [apply try_as_array_total|]. intros a _.
  rewrite arity_mac0.
  destruct a as [|x0 [|x1 [|x2 [|x3 [|x4 r]]]]]; cbn [length Nat.eqb negb]; try apply total_err. tot. Qed.

Lemma CoseEncrypt0_from_value_total v : total (CoseEncrypt0_from_value v).
Proof. unfold CoseEncrypt0_from_value. apply bind_total; [apply try_as_array_total|]. intros a _.
  rewrite arity_encrypt0.
  destruct a as [|x0 [|x1 [|x2 [|x3 r]]]]; cbn [length Nat.eqb negb]; try apply total_err. tot. Qed.

(* recipients: the nested recipients are the elements of the fourth element *)
Lemma CoseRecipient_from_value_total_strong : forall v,
  let Q := fun y => total (CoseRecipient_from_value y) in Q v /\ sub1 Q v.
Proof. intros v Q.
  induction v as [z|b|x|t|b| |t v IH|l IH|m IH] using value_ind';
    try (split; [apply total_err|exact I]).
  split; [|cbn [sub1]; revert IH; apply Forall_impl; tauto].
  unfold Q. cbn [CoseRecipient_from_value]. rewrite arity_recipient.
  destruct l as [|x0 [|x1 [|x2 [|x3 [|x4 r]]]]]; cbn [length Nat.eqb negb orb]; try apply total_err.
  - tot.
  - apply bind_total; [|intros rs _; tot].
    destruct x3; try apply total_err. apply mapM_total_Forall.
    inversion IH as [|? ? _ I1]; subst. inversion I1 as [|? ? _ I2]; subst. inversion I2 as [|? ? _ I3]; subst.
    inversion I3 as [|? ? [_ H3] _]; subst. exact H3.
Qed.

Lemma CoseRecipient_from_value_total v : total (CoseRecipient_from_value v).
Proof. apply (CoseRecipient_from_value_total_strong v). Qed.

Lemma recipients_from_value_total v : total (recipients_from_value v).
Proof. unfold recipients_from_value. apply bind_total; [apply try_as_array_total|]. intros ra _.
  apply mapM_total. apply CoseRecipient_from_value_total. Qed.
Global Hint Resolve CoseRecipient_from_value_total recipients_from_value_total : tot.

Lemma CoseMac_from_value_total v : total (CoseMac_from_value v).
Proof. unfold CoseMac_from_value. apply bind_total; [apply try_as_array_total|]. intros a _.
  rewrite arity_mac.
  destruct a as [|x0 [|x1 [|x2 [|x3 [|x4 [|x5 r]]]]]]; cbn [length Nat.eqb negb]; try apply total_err. tot. Qed.

Lemma CoseEncrypt_from_value_total v : total (CoseEncrypt_from_value v).
Proof. unfold CoseEncrypt_from_value. apply bind_total; [apply try_as_array_total|]. intros a _.
  rewrite arity_encrypt.
  destruct a as [|x0 [|x1 [|x2 [|x3 [|x4 r]]]]]; cbn [length Nat.eqb negb]; try apply total_err. tot. Qed.

(* keys *)
Lemma key_ops_loop_total a : forall s, total (key_ops_loop a s).
Proof. induction a as [|x r IH]; intros s; cbn [key_ops_loop]; [apply total_ok|].
  apply bind_total; [apply reg_from_value_total|]. intros op _.
  destruct (reg_set_insert op s) as [[|] s']; [apply IH|apply total_err]. Qed.
Global Hint Resolve key_ops_loop_total : tot.

Lemma key_step_total k l x : total (key_step k l x).
Proof. unfold key_step. tot. Qed.

Lemma CoseKey_from_value_total v : total (CoseKey_from_value v).
Proof. unfold CoseKey_from_value. apply bind_total; [apply try_as_map_total|]. intros m _.
  apply bind_total; [|intros k _; tot].
  apply map_loop_total. apply Forall_forall. intros kv _ s l. apply key_step_total. Qed.

Lemma CoseKeySet_from_value_total v : total (CoseKeySet_from_value v).
Proof. unfold CoseKeySet_from_value. apply bind_total; [apply try_as_array_total|]. intros a _.
  apply mapM_total. apply CoseKey_from_value_total. Qed.

(* claims *)
Lemma Timestamp_from_value_total x : total (Timestamp_from_value x).
Proof. destruct x; cbn [Timestamp_from_value]; tot. Qed.
Global Hint Resolve Timestamp_from_value_total : tot.

Lemma claims_step_total c n x : total (claims_step c n x).
Proof. unfold claims_step. tot. Qed.

Lemma claims_loop_total m : forall c seen, total (claims_loop m c seen).
Proof. induction m as [|[k x] m IH]; intros c seen; cbn [claims_loop]; [apply total_ok|].
  apply bind_total; [apply regp_from_value_total|]. intros n _.
  destruct (regp_mem n seen); [apply total_err|].
  apply bind_total; [apply claims_step_total|]. intros c' _. apply IH. Qed.

Lemma ClaimsSet_from_value_total v : total (ClaimsSet_from_value v).
Proof. destruct v; cbn [ClaimsSet_from_value]; try apply total_err. apply claims_loop_total. Qed.

(* key-derivation context *)
Lemma PartyInfo_from_value_total v : total (PartyInfo_from_value v).
Proof. unfold PartyInfo_from_value. apply bind_total; [apply try_as_array_total|]. intros a _.
  rewrite arity_party.
  destruct a as [|x0 [|x1 [|x2 [|x3 r]]]]; cbn [length Nat.eqb negb]; try apply total_err. tot. Qed.

Lemma SuppPubInfo_from_value_total v : total (SuppPubInfo_from_value v).
Proof. unfold SuppPubInfo_from_value. apply bind_total; [apply try_as_array_total|]. intros a _.
  rewrite arity_supp.
  destruct a as [|x0 [|x1 [|x2 [|x3 r]]]]; cbn [length Nat.eqb negb orb]; try apply total_err; tot. Qed.
Global Hint Resolve PartyInfo_from_value_total SuppPubInfo_from_value_total : tot.

Lemma CoseKdfContext_from_value_total v : total (CoseKdfContext_from_value v).
Proof. unfold CoseKdfContext_from_value. apply bind_total; [apply try_as_array_total|]. intros a _.
  rewrite arity_kdf.
  destruct a as [|x0 [|x1 [|x2 [|x3 r]]]]; cbn [length Nat.leb negb]; try apply total_err. tot. Qed.

Theorem decoders_total :
  (forall v, total (Header_from_value v)) /\
  (forall v, total (ProtectedHeader_from_value v)) /\
  (forall v, total (ProtectedHeader_from_cbor_bstr v)) /\
  (forall v, total (CoseSignature_from_value v)) /\
  (forall v, total (CoseSign1_from_value v)) /\
  (forall v, total (CoseSign_from_value v)) /\
  (forall v, total (CoseMac_from_value v)) /\
  (forall v, total (CoseMac0_from_value v)) /\
  (forall v, total (CoseEncrypt_from_value v)) /\
  (forall v, total (CoseEncrypt0_from_value v)) /\
  (forall v, total (CoseRecipient_from_value v)) /\
  (forall v, total (CoseKey_from_value v)) /\
  (forall v, total (CoseKeySet_from_value v)) /\
  (forall v, total (ClaimsSet_from_value v)) /\
  (forall v, total (PartyInfo_from_value v)) /\
  (forall v, total (SuppPubInfo_from_value v)) /\
  (forall v, total (CoseKdfContext_from_value v)) /\
  (forall v, total (label_from_value v)) /\
  (forall t v, total (reg_from_value t v)) /\
  (forall reg v, total (regp_from_value reg v)).
Proof. repeat (match goal with |- and _ _ => split end); intros;
  auto using Header_from_value_total, ProtectedHeader_from_value_total, ProtectedHeader_from_cbor_bstr_total,
    CoseSignature_from_value_total, CoseSign1_from_value_total, CoseSign_from_value_total, CoseMac_from_value_total,
    CoseMac0_from_value_total, CoseEncrypt_from_value_total, CoseEncrypt0_from_value_total,
    CoseRecipient_from_value_total, CoseKey_from_value_total, CoseKeySet_from_value_total,
    ClaimsSet_from_value_total, PartyInfo_from_value_total, SuppPubInfo_from_value_total,
    CoseKdfContext_from_value_total, label_from_value_total, reg_from_value_total, regp_from_value_total.
Qed.

(* ====================================================================== *)
(* 4. Byte-level entry points                                              *)
(* ====================================================================== *)
Theorem byte_entry_points_total : forall (T : Type) (fromv : value -> res T),
  (forall v, total (fromv v)) ->
  forall b, total (from_slice fromv b) /\ forall tag, total (from_tagged_slice fromv tag b).
Proof. intros T fromv H b. split.
  - unfold from_slice. apply bind_total; [apply read_to_value_tot|]. intros v _. apply H.
  - intros tag. unfold from_tagged_slice. apply bind_total; [apply read_to_value_tot|]. intros v _.
    destruct v; try apply total_err. destruct (N.eqb t tag); [apply H|apply total_err].
Qed.


(* ====================================================================== *)
(* 5. Encoders: no Panic / OutOfFuel for any in-memory value               *)
(* ====================================================================== *)
(* mutual induction over header / signature / protected (nested through the counter-signature list) *)
Section HeaderInd.
  Variables (Ph : header -> Prop) (Ps : signature -> Prop) (Pp : protected -> Prop).
  Hypothesis Hh : forall a c ct k iv piv cs rest, Forall Ps cs -> Ph (mkHeader a c ct k iv piv cs rest).
  Hypothesis Hs : forall p u sg, Pp p -> Ph u -> Ps (mkSignature p u sg).
  Hypothesis Hp : forall o h, Ph h -> Pp (mkProtected o h).
  Fixpoint header_ind' (h : header) : Ph h :=
    match h with
    | mkHeader a c ct k iv piv cs rest =>
      Hh a c ct k iv piv cs rest
         ((fix go (l : list signature) : Forall Ps l :=
             match l with [] => Forall_nil Ps | s :: r => Forall_cons s (signature_ind' s) (go r) end) cs)
    end
  with signature_ind' (s : signature) : Ps s :=
    match s with mkSignature p u sg => Hs p u sg (protected_ind' p) (header_ind' u) end
  with protected_ind' (p : protected) : Pp p :=
    match p with mkProtected o h => Hp o h (header_ind' h) end.
  Lemma header_mutind : (forall h, Ph h) /\ (forall s, Ps s) /\ (forall p, Pp p).
  Proof. repeat split; [apply header_ind'|apply signature_ind'|apply protected_ind']. Qed.
End HeaderInd.

Section RecipientInd.
  Variable P : recipient -> Prop.
  Hypothesis H : forall p u ct rs, Forall P rs -> P (mkRecipient p u ct rs).
  Fixpoint recipient_ind' (r : recipient) : P r :=
    match r with
    | mkRecipient p u ct rs =>
      H p u ct rs ((fix go (l : list recipient) : Forall P l :=
                      match l with [] => Forall_nil P | x :: t => Forall_cons x (recipient_ind' x) (go t) end) rs)
    end.
End RecipientInd.

Lemma emit_rest_total rest : forall seen acc, total (emit_rest rest seen acc).
Proof. induction rest as [|[l x] r IH]; intros seen acc; cbn [emit_rest]; [apply total_ok|].
  destruct (label_mem l seen); [apply total_err|apply IH]. Qed.
Lemma seed_seen_total m : total (seed_seen m).
Proof. unfold seed_seen. apply mapM_total. intros kv. apply label_from_value_total. Qed.
Global Hint Resolve emit_rest_total seed_seen_total : tot.

Lemma header_to_value_eq h : header_to_value h =
  (let m1 := opt_entry H_ALG (h_alg h) regp_to_value
         ++ (if isnil (h_crit h) then [] else [(VInt H_CRIT, VArray (map reg_to_value (h_crit h)))])
         ++ opt_entry H_CONTENT_TYPE (h_ctype h) reg_to_value
         ++ bytes_entry H_KID (h_kid h)
         ++ bytes_entry H_IV (h_iv h)
         ++ bytes_entry H_PARTIAL_IV (h_piv h) in
  do m2 <-
    match h_csigs h with
    | [] => Ok m1
    | [s] => do sv <- signature_to_value s; Ok (m1 ++ [(VInt H_COUNTER_SIG, sv)])
    | ss => do svs <- mapM signature_to_value ss; Ok (m1 ++ [(VInt H_COUNTER_SIG, VArray svs)])
    end;
  do seen <- seed_seen m2;
  do m <- emit_rest (h_rest h) seen m2;
  Ok (VMap m)).
Proof. destruct h; reflexivity. Qed.
Lemma signature_to_value_eq s : signature_to_value s =
  (do p <- protected_cbor_bstr (s_prot s); do u <- header_to_value (s_unprot s); Ok (VArray [p; u; VBytes (s_sig s)])).
Proof. destruct s; reflexivity. Qed.
Lemma protected_cbor_bstr_eq p : protected_cbor_bstr p =
  match p_orig p with
  | Some d => Ok (VBytes d)
  | None => if header_is_empty (p_hdr p) then Ok (VBytes []) else do v <- header_to_value (p_hdr p); Ok (VBytes (ser v))
  end.
Proof. destruct p; reflexivity. Qed.

Lemma header_family_total :
  (forall h, total (header_to_value h)) /\ (forall s, total (signature_to_value s)) /\
  (forall p, total (protected_cbor_bstr p)).
Proof. apply header_mutind.
  - intros a c ct k iv piv cs rest F. rewrite header_to_value_eq.
    cbn [h_alg h_crit h_ctype h_kid h_iv h_piv h_csigs h_rest]. cbv zeta.
    apply bind_total; [|intros m2 _; tot].
    destruct cs as [|s [|s' r]].
    + apply total_ok.
    + apply bind_total; [|intros; apply total_ok]. now inversion F.
    + apply bind_total; [|intros; apply total_ok]. now apply mapM_total_Forall.
  - intros p u sg Hp Hu. rewrite signature_to_value_eq. cbn [s_prot s_unprot s_sig].
    apply bind_total; [exact Hp|]. intros pv _. apply bind_total; [exact Hu|]. intros uv _. apply total_ok.
  - intros o h Hh. rewrite protected_cbor_bstr_eq. cbn [p_orig p_hdr].
    destruct o; [apply total_ok|]. destruct (header_is_empty h); [apply total_ok|].
    apply bind_total; [exact Hh|]. intros; apply total_ok.
Qed.

Lemma header_to_value_total h : total (header_to_value h). Proof. apply header_family_total. Qed.
Lemma signature_to_value_total s : total (signature_to_value s). Proof. apply header_family_total. Qed.
Lemma protected_cbor_bstr_total p : total (protected_cbor_bstr p). Proof. apply header_family_total. Qed.
Global Hint Resolve header_to_value_total signature_to_value_total protected_cbor_bstr_total : tot.

Lemma CoseRecipient_to_value_eq r : CoseRecipient_to_value r =
  (do p <- protected_cbor_bstr (r_prot r);
   do u <- header_to_value (r_unprot r);
   do tail <- (if isnil (r_recipients r) then Ok []
               else do rs <- mapM CoseRecipient_to_value (r_recipients r); Ok [VArray rs]);
   Ok (VArray ([p; u; opt_bytes_value (r_ct r)] ++ tail))).
Proof. destruct r; reflexivity. Qed.

Lemma CoseRecipient_to_value_total r : total (CoseRecipient_to_value r).
Proof. induction r as [p u ct rs F] using recipient_ind'. rewrite CoseRecipient_to_value_eq.
  cbn [r_prot r_unprot r_ct r_recipients].
  apply bind_total; [apply protected_cbor_bstr_total|]. intros pv _.
  apply bind_total; [apply header_to_value_total|]. intros uv _.
  apply bind_total; [|intros; apply total_ok].
  destruct (isnil rs); [apply total_ok|]. apply bind_total; [|intros; apply total_ok].
  now apply mapM_total_Forall. Qed.
Global Hint Resolve CoseRecipient_to_value_total : tot.

Lemma CoseKey_to_value_total k : total (CoseKey_to_value k).
Proof. unfold CoseKey_to_value. cbv zeta. tot. Qed.
Global Hint Resolve CoseKey_to_value_total : tot.

Theorem encoders_never_panic :
  (forall h, total (header_to_value h)) /\
  (forall s, total (signature_to_value s)) /\
  (forall p, total (protected_cbor_bstr p)) /\
  (forall m, total (CoseSign1_to_value m)) /\
  (forall m, total (CoseSign_to_value m)) /\
  (forall m, total (CoseMac_to_value m)) /\
  (forall m, total (CoseMac0_to_value m)) /\
  (forall m, total (CoseEncrypt_to_value m)) /\
  (forall m, total (CoseEncrypt0_to_value m)) /\
  (forall m, total (CoseRecipient_to_value m)) /\
  (forall k, total (CoseKey_to_value k)) /\
  (forall ks, total (CoseKeySet_to_value ks)) /\
  (forall c, total (ClaimsSet_to_value c)) /\
  (forall p, total (PartyInfo_to_value p)) /\
  (forall s, total (SuppPubInfo_to_value s)) /\
  (forall k, total (CoseKdfContext_to_value k)) /\
  (forall l, total (Label_to_value l)) /\
  (forall (T : Type) (tov : T -> res value), (forall x, total (tov x)) ->
     forall x, total (to_vec tov x) /\ forall tag, total (to_tagged_vec tov tag x)).
Proof. repeat (match goal with |- and _ _ => split end); intros;
  try solve [auto with tot];
  try solve [unfold CoseSign1_to_value, CoseSign_to_value, CoseMac_to_value, CoseMac0_to_value,
      CoseEncrypt_to_value, CoseEncrypt0_to_value, CoseKeySet_to_value, ClaimsSet_to_value,
      PartyInfo_to_value, SuppPubInfo_to_value, CoseKdfContext_to_value, PartyInfo_to_value,
      SuppPubInfo_to_value, Label_to_value, to_vec, to_tagged_vec; tot].
  split; [|intros tag]; unfold to_vec, to_tagged_vec; tot.
Qed.

(* ====================================================================== *)
(* 6. Helpers on decoded messages                                          *)
(* ====================================================================== *)
(* a protected header decoded from a bstr keeps its wire bytes *)
Definition retained (p : protected) : Prop := exists d, p_orig p = Some d.

Lemma protected_from_bstr_retained parse v p : protected_from_bstr parse v = Ok p -> retained p.
Proof. intros H. apply protected_bytes_decoded in H as (d & _ & H & _). now exists d. Qed.

Lemma retained_cbor_bstr p : retained p -> exists b, protected_cbor_bstr p = Ok b.
Proof. intros [d H]. rewrite protected_cbor_bstr_eq, H. eauto. Qed.

Lemma sig_structure_data_ok c body sign aad pl :
  retained body -> (forall sp, sign = Some sp -> retained sp) ->
  exists b, sig_structure_data c body sign aad pl = Ok b.
Proof. intros Hb Hs. unfold sig_structure_data.
  destruct (retained_cbor_bstr _ Hb) as [b ->]. cbn [expect bind].
  destruct sign as [sp|]; cbn [bind]; [|eauto].
  destruct (retained_cbor_bstr sp (Hs sp eq_refl)) as [x ->]. cbn [expect bind]. eauto. Qed.
Lemma mac_structure_data_ok c p aad pl : retained p -> exists b, mac_structure_data c p aad pl = Ok b.
Proof. intros Hp. unfold mac_structure_data. destruct (retained_cbor_bstr _ Hp) as [b ->]. cbn [expect bind]. eauto. Qed.
Lemma enc_structure_data_ok c p aad : retained p -> exists b, enc_structure_data c p aad = Ok b.
Proof. intros Hp. unfold enc_structure_data. destruct (retained_cbor_bstr _ Hp) as [b ->]. cbn [expect bind]. eauto. Qed.

Ltac inv_binds H :=
  repeat (let a := fresh "a" in let E := fresh "E" in apply bind_ok in H as (a & E & H)).

Lemma try_as_array_ok v a : try_as_array v = Ok a -> v = VArray a.
Proof. destruct v; cbn; congruence. Qed.

Lemma sign1_decoded v m : CoseSign1_from_value v = Ok m -> retained (s1_prot m).
Proof. unfold CoseSign1_from_value. intros H. apply bind_ok in H as (a & _ & H).
  destruct (negb _); [discriminate|].
  destruct a as [|x0 [|x1 [|x2 [|x3 r]]]]; try discriminate.
  inv_binds H. injection H as <-. cbn [s1_prot]. eapply protected_from_bstr_retained; eassumption. Qed.

Lemma mac0_decoded v m : CoseMac0_from_value v = Ok m -> retained (m0_prot m).
Proof. unfold CoseMac0_from_value. intros H. apply bind_ok in H as (a & _ & H).
  destruct (negb _); [discriminate|].
  destruct a as [|x0 [|x1 [|x2 [|x3 r]]]]; try discriminate.
  inv_binds H. injection H as <-. cbn [m0_prot]. eapply protected_from_bstr_retained; eassumption. Qed.

Lemma encrypt0_decoded v m : CoseEncrypt0_from_value v = Ok m -> retained (e0_prot m).
Proof. unfold CoseEncrypt0_from_value. intros H. apply bind_ok in H as (a & _ & H).
  destruct (negb _); [discriminate|].
  destruct a as [|x0 [|x1 [|x2 r]]]; try discriminate.
  inv_binds H. injection H as <-. cbn [e0_prot]. eapply protected_from_bstr_retained; eassumption. Qed.

Lemma mac_decoded v m : CoseMac_from_value v = Ok m -> retained (mc_prot m).
Proof. unfold CoseMac_from_value. intros H. apply bind_ok in H as (a & _ & H).
  destruct (negb _); [discriminate|].
  destruct a as [|x0 [|x1 [|x2 [|x3 [|x4 r]]]]]; try discriminate.
  inv_binds H. injection H as <-. cbn [mc_prot]. eapply protected_from_bstr_retained; eassumption. Qed.

Lemma encrypt_decoded v m : CoseEncrypt_from_value v = Ok m -> retained (en_prot m).
Proof. unfold CoseEncrypt_from_value. intros H. apply bind_ok in H as (a & _ & H).
  destruct (negb _); [discriminate|].
  destruct a as [|x0 [|x1 [|x2 [|x3 r]]]]; try discriminate.
  inv_binds H. injection H as <-. cbn [en_prot]. eapply protected_from_bstr_retained; eassumption. Qed.

Lemma recipient_decoded v m : CoseRecipient_from_value v = Ok m -> retained (r_prot m).
Proof. destruct v; try discriminate. cbn [CoseRecipient_from_value]. intros H.
  destruct (negb _); [discriminate|].
  destruct l as [|x0 [|x1 [|x2 r]]]; try discriminate.
  inv_binds H. injection H as <-. cbn [r_prot]. eapply protected_from_bstr_retained; eassumption. Qed.

Lemma signature_decoded v sg : CoseSignature_from_value v = Ok sg -> retained (s_prot sg).
Proof. unfold CoseSignature_from_value, signature_from_value. destruct v; try discriminate.
  cbn [signature_from_value_with]. intros H.
  destruct (negb _); [discriminate|].
  destruct l as [|x0 [|x1 [|x2 r]]]; try discriminate.
  inv_binds H. injection H as <-. cbn [s_prot]. eapply protected_from_bstr_retained; eassumption. Qed.

Lemma map_err_ok {A} (r : res A) e a : map_err r e = Ok a -> r = Ok a.
Proof. destruct r; cbn; congruence. Qed.

Lemma sign_decoded v m : CoseSign_from_value v = Ok m ->
  retained (sn_prot m) /\ Forall (fun sg => retained (s_prot sg)) (sn_sigs m).
Proof. unfold CoseSign_from_value. intros H. apply bind_ok in H as (a & _ & H).
  destruct (negb _); [discriminate|].
  destruct a as [|x0 [|x1 [|x2 [|x3 r]]]]; try discriminate.
  apply bind_ok in H as (sa & _ & H). apply bind_ok in H as (sigs & Es & H).
  inv_binds H. injection H as <-. cbn [sn_prot sn_sigs]. split.
  - eapply protected_from_bstr_retained; eassumption.
  - revert Es. apply mapM_ok_Forall. intros s sg Esg. apply map_err_ok in Esg. eapply signature_decoded; eassumption. Qed.

Lemma ok_not_panic {A} (r : res A) : (exists a, r = Ok a) -> r <> Panic.
Proof. intros [a ->]. discriminate. Qed.

Theorem helpers_on_decoded_never_panic :
  (forall v m aad, CoseSign1_from_value v = Ok m -> Sign1_tbs_data m aad <> Panic) /\
  (forall v m aad pl, CoseSign1_from_value v = Ok m -> s1_payload m = None ->
      Sign1_tbs_detached_data m pl aad <> Panic) /\
  (forall v m aad i, CoseSign_from_value v = Ok m -> (i < length (sn_sigs m))%nat ->
      forall (R : Type) (f : bytes -> bytes -> R), Sign_verify_signature m i aad f <> Panic) /\
  (forall v m aad, CoseMac_from_value v = Ok m -> mc_payload m <> None -> Mac_tbm m aad <> Panic) /\
  (forall v m aad, CoseMac0_from_value v = Ok m -> m0_payload m <> None -> Mac0_tbm m aad <> Panic) /\
  (forall v m aad (R : Type) (f : bytes -> bytes -> R),
      CoseEncrypt_from_value v = Ok m -> en_ct m <> None -> Encrypt_decrypt m aad f <> Panic) /\
  (forall v m aad (R : Type) (f : bytes -> bytes -> R),
      CoseEncrypt0_from_value v = Ok m -> e0_ct m <> None -> Encrypt0_decrypt m aad f <> Panic) /\
  (forall v m c aad (R : Type) (f : bytes -> bytes -> R),
      CoseRecipient_from_value v = Ok m -> r_ct m <> None -> is_recipient_context c = true ->
      Recipient_decrypt m c aad f <> Panic).
Proof. repeat (match goal with |- and _ _ => split end).
  - intros v m aad D. apply sign1_decoded in D. apply ok_not_panic.
    unfold Sign1_tbs_data. apply sig_structure_data_ok; [assumption|discriminate].
  - intros v m aad pl D N. apply sign1_decoded in D. apply ok_not_panic.
    unfold Sign1_tbs_detached_data. rewrite N. cbn [issome].
    apply sig_structure_data_ok; [assumption|discriminate].
  - intros v m aad i D L R f. apply sign_decoded in D as [Db Ds].
    destruct (nth_res_in_range _ _ L) as (sg & E1 & E2). apply nth_error_In in E2.
    rewrite Forall_forall in Ds. specialize (Ds sg E2).
    unfold Sign_verify_signature. rewrite E1. cbn [bind]. unfold Sign_tbs_data.
    destruct (sig_structure_data_ok SigCoseSignature (sn_prot m) (Some (s_prot sg)) aad
                (unwrap_or_empty (sn_payload m)) Db) as [b ->].
    { intros sp [= <-]. exact Ds. }
    cbn [bind]. discriminate.
  - intros v m aad D N. apply mac_decoded in D. unfold Mac_tbm.
    destruct (mc_payload m) as [pl|]; [|congruence]. apply ok_not_panic. now apply mac_structure_data_ok.
  - intros v m aad D N. apply mac0_decoded in D. unfold Mac0_tbm.
    destruct (m0_payload m) as [pl|]; [|congruence]. apply ok_not_panic. now apply mac_structure_data_ok.
  - intros v m aad R f D N. apply encrypt_decoded in D. unfold Encrypt_decrypt.
    destruct (en_ct m) as [ct|]; [|congruence].
    destruct (enc_structure_data_ok EncCoseEncrypt (en_prot m) aad D) as [b ->]. cbn [bind]. discriminate.
  - intros v m aad R f D N. apply encrypt0_decoded in D. unfold Encrypt0_decrypt.
    destruct (e0_ct m) as [ct|]; [|congruence].
    destruct (enc_structure_data_ok EncCoseEncrypt0 (e0_prot m) aad D) as [b ->]. cbn [bind]. discriminate.
  - intros v m c aad R f D N C. apply recipient_decoded in D. unfold Recipient_decrypt.
    destruct (r_ct m) as [ct|]; [|congruence]. rewrite C. cbn [negb].
    destruct (enc_structure_data_ok c (r_prot m) aad D) as [b ->]. cbn [bind]. discriminate.
Qed.

(* the documented panics, for the record *)
Theorem documented_panics :
  (forall m aad, mc_payload m = None -> Mac_tbm m aad = Panic) /\
  (forall m aad, m0_payload m = None -> Mac0_tbm m aad = Panic) /\
  (forall m pl aad, s1_payload m <> None -> Sign1_tbs_detached_data m pl aad = Panic) /\
  (forall (R : Type) m c aad (f : bytes -> bytes -> R),
      r_ct m <> None -> is_recipient_context c = false -> Recipient_decrypt m c aad f = Panic).
Proof. repeat (match goal with |- and _ _ => split end).
  - intros m aad H. unfold Mac_tbm. now rewrite H.
  - intros m aad H. unfold Mac0_tbm. now rewrite H.
  - intros m pl aad H. unfold Sign1_tbs_detached_data. destruct (s1_payload m); [reflexivity|congruence].
  - intros R m c aad f H C. unfold Recipient_decrypt. destruct (r_ct m); [|reflexivity]. now rewrite C.
Qed.

Print Assumptions header_from_value_total.
Print Assumptions header_at_total.
Print Assumptions decoders_total.
Print Assumptions byte_entry_points_total.
Print Assumptions encoders_never_panic.
Print Assumptions helpers_on_decoded_never_panic.
Print Assumptions documented_panics.
