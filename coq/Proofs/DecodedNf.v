(* What the decoder can output: every decoded value is in normal form
   (value_nf0) and within the recursion budget; the only obstacle to
   decode -> encode -> decode is a tag 2/3 directly over a short byte string
   that is not a bignum normal form (no_bad_bignum). *)
From Coq Require Import Lia.
From Coset.Model Require Import Prelude Cbor.
From Coset.Proofs Require Import Head Codec Fuel RoundTrip Widths.
Require Import ZifyBool ZifyN ZifyNat.
Ltac Zify.zify_post_hook ::= Z.div_mod_to_equations.
Open Scope N_scope.

(* ---------- the two halves of value_nf ---------- *)
(* nf without the tag-shape clause *)
Fixpoint value_nf0 (v : value) : bool :=
  match v with
  | VInt z => ((- 18446744073709551616 <=? z) && (z <? 18446744073709551616))%Z
  | VBytes b => N.of_nat (length b) <? p64
  | VFloat x => x <? p64
  | VText t => (N.of_nat (length t) <? p64) && utf8_valid t
  | VBool _ => true
  | VNull => true
  | VTag t v => (t <? p64) && value_nf0 v
  | VArray l => (N.of_nat (length l) <? p64) && forallb value_nf0 l
  | VMap m => (N.of_nat (length m) <? p64) && forallb (fun kv => value_nf0 (fst kv) && value_nf0 (snd kv)) m
  end.

(* no tag 2/3 directly over a byte string of <= 16 bytes that is not a bignum normal form *)
Fixpoint no_bad_bignum (v : value) : bool :=
  match v with
  | VTag t x => (negb (short_bignum_shape t x) || bignum_nf t x) && no_bad_bignum x
  | VArray l => forallb no_bad_bignum l
  | VMap m => forallb (fun kv => no_bad_bignum (fst kv) && no_bad_bignum (snd kv)) m
  | _ => true
  end.

Lemma nf_split : forall v, value_nf v = value_nf0 v && no_bad_bignum v.
Proof.
  induction v as [z|b|x|t|b| |t v IH|l IH|m IH] using value_ind'; cbn [value_nf value_nf0 no_bad_bignum].
  1-6: now rewrite andb_true_r.
  - rewrite IH.
    destruct (t <? p64), (value_nf0 v), (no_bad_bignum v), (negb (short_bignum_shape t v) || bignum_nf t v); reflexivity.
  - assert (E: forallb value_nf l = forallb value_nf0 l && forallb no_bad_bignum l).
    { induction IH as [|x l Hx _ IHl]; [reflexivity|]. cbn [forallb]. rewrite Hx, IHl.
      destruct (value_nf0 x), (no_bad_bignum x), (forallb value_nf0 l), (forallb no_bad_bignum l); reflexivity. }
    rewrite E. destruct (N.of_nat (length l) <? p64), (forallb value_nf0 l), (forallb no_bad_bignum l); reflexivity.
  - assert (E: forallb (fun kv => value_nf (fst kv) && value_nf (snd kv)) m =
               forallb (fun kv => value_nf0 (fst kv) && value_nf0 (snd kv)) m &&
               forallb (fun kv => no_bad_bignum (fst kv) && no_bad_bignum (snd kv)) m).
    { induction IH as [|[k x] m [Hk Hx] _ IHm]; [reflexivity|]. cbn [forallb fst snd] in *. rewrite Hk, Hx, IHm.
      destruct (value_nf0 k), (no_bad_bignum k), (value_nf0 x), (no_bad_bignum x),
        (forallb (fun kv => value_nf0 (fst kv) && value_nf0 (snd kv)) m),
        (forallb (fun kv => no_bad_bignum (fst kv) && no_bad_bignum (snd kv)) m); reflexivity. }
    rewrite E. destruct (N.of_nat (length m) <? p64),
        (forallb (fun kv => value_nf0 (fst kv) && value_nf0 (snd kv)) m),
        (forallb (fun kv => no_bad_bignum (fst kv) && no_bad_bignum (snd kv)) m); reflexivity.
Qed.

(* ---------- floats: widening stays below 2^64 ---------- *)
Lemma subnormal_lt m : 0 < m -> N.log2 m <= 52 ->
  (m - pow2 (N.log2 m)) * pow2 (52 - N.log2 m) < 4503599627370496.
Proof.
  intros Hm Hk. unfold pow2. destruct (N.log2_spec m Hm) as [A B].
  rewrite N.pow_succ_r' in B.
  assert (E: 2 ^ N.log2 m * 2 ^ (52 - N.log2 m) = 4503599627370496).
  { rewrite <- N.pow_add_r. replace (N.log2 m + (52 - N.log2 m)) with 52 by lia. reflexivity. }
  assert (Q: 2 ^ (52 - N.log2 m) <> 0) by (apply N.pow_nonzero; lia).
  set (p := 2 ^ N.log2 m) in *. set (q := 2 ^ (52 - N.log2 m)) in *.
  rewrite <- E. apply N.mul_lt_mono_pos_r; lia.
Qed.

Lemma widen16_lt h : h < 65536 -> widen16 h < p64.
Proof.
  intros Hh. unfold widen16, p64. cbv zeta.
  change (pow2 63) with 9223372036854775808. change (pow2 52) with 4503599627370496.
  change (pow2 51) with 2251799813685248. change (pow2 42) with 4398046511104.
  set (e := (h / 1024) mod 32). set (m := h mod 1024).
  assert (Hs: h / 32768 <= 1) by lia.
  assert (Hm: m < 1024) by (unfold m; lia).
  assert (He: e < 32) by (unfold e; lia).
  destruct (e =? 31) eqn:E31. { destruct (m =? 0); lia. }
  destruct (e =? 0) eqn:E0; [|lia].
  destruct (m =? 0) eqn:M0; [lia|].
  assert (K: N.log2 m <= 9).
  { assert (N.log2 m < 10); [|lia]. apply N.log2_lt_pow2; [lia|]. change (2 ^ 10) with 1024. lia. }
  pose proof (subnormal_lt m ltac:(lia) ltac:(lia)). lia.
Qed.

Lemma widen32_lt f : f < 4294967296 -> widen32 f < p64.
Proof.
  intros Hf. unfold widen32, p64. cbv zeta.
  change (pow2 63) with 9223372036854775808. change (pow2 52) with 4503599627370496.
  change (pow2 51) with 2251799813685248. change (pow2 31) with 2147483648.
  change (pow2 29) with 536870912. change (pow2 23) with 8388608.
  set (e := (f / 8388608) mod 256). set (m := f mod 8388608).
  assert (Hs: f / 2147483648 <= 1) by lia.
  assert (Hm: m < 8388608) by (unfold m; lia).
  assert (He: e < 256) by (unfold e; lia).
  destruct (e =? 255) eqn:E255. { destruct (m =? 0); lia. }
  destruct (e =? 0) eqn:E0; [|lia].
  destruct (m =? 0) eqn:M0; [lia|].
  assert (K: N.log2 m <= 22).
  { assert (N.log2 m < 23); [|lia]. apply N.log2_lt_pow2; [lia|]. change (2 ^ 23) with 8388608. lia. }
  pose proof (subnormal_lt m ltac:(lia) ltac:(lia)). lia.
Qed.

(* ---------- UTF-8 validity is closed under concatenation ---------- *)
Lemma utf8_valid_app_aux : forall n a b, (length a <= n)%nat ->
  utf8_valid a = true -> utf8_valid b = true -> utf8_valid (a ++ b) = true.
Proof.
  induction n as [|n IHn]; intros a b Hn Ha Hb.
  { destruct a; [exact Hb|cbn [length] in Hn; lia]. }
  destruct a as [|b0 r0]; [exact Hb|]. cbn [app]. cbn [length] in Hn.
  cbn [utf8_valid] in Ha |- *.
  destruct (b2n b0 <? 128). { apply IHn; [lia|assumption|assumption]. }
  destruct r0 as [|b1 r1]; [discriminate Ha|]. cbn [app]. cbn [length] in Hn.
  destruct (inr 194 223 b0).
  { apply andb_true_iff in Ha as [H1 H2]. rewrite H1. cbn [andb]. apply IHn; [lia|assumption|assumption]. }
  destruct r1 as [|b2 r2]; [discriminate Ha|]. cbn [app]. cbn [length] in Hn.
  destruct (b2n b0 =? 224).
  { apply andb_true_iff in Ha as [H1 H2]. rewrite H1. cbn [andb]. apply IHn; [lia|assumption|assumption]. }
  destruct (inr 225 236 b0 || inr 238 239 b0).
  { apply andb_true_iff in Ha as [H1 H2]. rewrite H1. cbn [andb]. apply IHn; [lia|assumption|assumption]. }
  destruct (b2n b0 =? 237).
  { apply andb_true_iff in Ha as [H1 H2]. rewrite H1. cbn [andb]. apply IHn; [lia|assumption|assumption]. }
  destruct r2 as [|b3 r3]; [discriminate Ha|]. cbn [app]. cbn [length] in Hn.
  destruct (b2n b0 =? 240).
  { apply andb_true_iff in Ha as [H1 H2]. rewrite H1. cbn [andb]. apply IHn; [lia|assumption|assumption]. }
  destruct (inr 241 243 b0).
  { apply andb_true_iff in Ha as [H1 H2]. rewrite H1. cbn [andb]. apply IHn; [lia|assumption|assumption]. }
  destruct (b2n b0 =? 244); [|discriminate Ha].
  apply andb_true_iff in Ha as [H1 H2]. rewrite H1. cbn [andb]. apply IHn; [lia|assumption|assumption].
Qed.

Lemma utf8_valid_app : forall a b, utf8_valid a = true -> utf8_valid b = true -> utf8_valid (a ++ b) = true.
Proof. intros a b. apply (utf8_valid_app_aux (length a)). lia. Qed.

(* ---------- head arguments are below 2^64 ---------- *)
Lemma dehead_arg : forall l mt ai n r, dehead l = Some (mt, ai, Some n, r) ->
  n < p64 /\ (ai = 25 -> n < 65536) /\ (ai = 26 -> n < 4294967296).
Proof.
  intros l mt ai n r. unfold dehead, p64. destruct l as [|b l]; [discriminate|]. cbv zeta.
  pose proof (b2n_lt b) as Hb.
  destruct (b2n b mod 32 <? 24) eqn:E0. { intros [= <- <- <- <-]. lia. }
  destruct (b2n b mod 32 =? 24) eqn:E1.
  { destruct (takeN 1 l) as [[a r']|] eqn:T; [|discriminate]. intros [= <- <- <- <-].
    apply takeN_spec in T as [_ T]. pose proof (unbe_bound a) as U. rewrite T in U.
    change (256 ^ 1) with 256 in U. lia. }
  destruct (b2n b mod 32 =? 25) eqn:E2.
  { destruct (takeN 2 l) as [[a r']|] eqn:T; [|discriminate]. intros [= <- <- <- <-].
    apply takeN_spec in T as [_ T]. pose proof (unbe_bound a) as U. rewrite T in U.
    change (256 ^ 2) with 65536 in U. lia. }
  destruct (b2n b mod 32 =? 26) eqn:E3.
  { destruct (takeN 4 l) as [[a r']|] eqn:T; [|discriminate]. intros [= <- <- <- <-].
    apply takeN_spec in T as [_ T]. pose proof (unbe_bound a) as U. rewrite T in U.
    change (256 ^ 4) with 4294967296 in U. lia. }
  destruct (b2n b mod 32 =? 27) eqn:E4.
  { destruct (takeN 8 l) as [[a r']|] eqn:T; [|discriminate]. intros [= <- <- <- <-].
    apply takeN_spec in T as [_ T]. pose proof (unbe_bound a) as U. rewrite T in U.
    change (256 ^ 8) with 18446744073709551616 in U. lia. }
  destruct (b2n b mod 32 =? 31); discriminate.
Qed.

(* ---------- bignum path ---------- *)
Lemma strip0_length c : (length (strip0 c) <= length c)%nat.
Proof. induction c as [|a c IH]; cbn [strip0]; [lia|]. destruct (b2n a =? 0); cbn [length] in *; lia. Qed.

Lemma strip0_idem c : strip0 (strip0 c) = strip0 c.
Proof. induction c as [|a c IH]; cbn [strip0]; [reflexivity|].
  destruct (b2n a =? 0) eqn:E; [exact IH|]. cbn [strip0]. now rewrite E. Qed.

Lemma unbe_strip0 c : unbe (strip0 c) = unbe c.
Proof. induction c as [|a c IH]; cbn [strip0]; [reflexivity|].
  destruct (b2n a =? 0) eqn:E; [|reflexivity]. cbn [unbe]. apply N.eqb_eq in E. rewrite E, IH. now rewrite N.mul_0_l. Qed.

Lemma bytes_eqb_refl a : bytes_eqb a a = true.
Proof. induction a as [|x a IH]; cbn [bytes_eqb]; [reflexivity|]. rewrite IH. now rewrite (Byte.byte_dec_lb (x:=x) eq_refl). Qed.

Lemma nf_uint n : n < p64 -> value_nf (VInt (Z.of_N n)) = true.
Proof. unfold p64. intros H. unfold value_nf. lia. Qed.
Lemma nf_nint n : n < p64 -> value_nf (VInt (-1 - Z.of_N n)) = true.
Proof. unfold p64. intros H. unfold value_nf. lia. Qed.
Lemma nf0_uint n : n < p64 -> value_nf0 (VInt (Z.of_N n)) = true.
Proof. unfold p64. intros H. unfold value_nf0. lia. Qed.
Lemma nf0_nint n : n < p64 -> value_nf0 (VInt (-1 - Z.of_N n)) = true.
Proof. unfold p64. intros H. unfold value_nf0. lia. Qed.

Theorem de_output_bignum_path_ok : forall neg c v, (length c <= 16)%nat -> bignum neg c = Ok v ->
  no_bad_bignum v = true /\ value_nf v = true.
Proof.
  intros neg c v Hc. unfold bignum. pose proof (strip0_length c) as SL.
  change (pow2 64) with 18446744073709551616.
  destruct neg.
  - destruct (unbe c <? 18446744073709551616) eqn:A.
    + intros [= <-]. split; [reflexivity|]. apply nf_nint. unfold p64. lia.
    + destruct (unbe c <? pow2 127) eqn:B; [|discriminate]. intros [= <-].
      assert (NF: bignum_nf 3 (VBytes (strip0 c)) = true).
      { cbn [bignum_nf]. rewrite strip0_idem, bytes_eqb_refl, unbe_strip0, B.
        replace (p64 <=? unbe c) with true by (unfold p64; lia). reflexivity. }
      split.
      * cbn [no_bad_bignum]. rewrite NF, orb_true_r. reflexivity.
      * cbn [value_nf]. rewrite NF, orb_true_r.
        replace (N.of_nat (length (strip0 c)) <? p64) with true by (unfold p64; lia). reflexivity.
  - destruct (unbe c <? 18446744073709551616) eqn:A.
    + intros [= <-]. split; [reflexivity|]. apply nf_uint. unfold p64. lia.
    + intros [= <-].
      assert (NF: bignum_nf 2 (VBytes (strip0 c)) = true).
      { cbn [bignum_nf]. rewrite strip0_idem, bytes_eqb_refl, unbe_strip0.
        replace (p64 <=? unbe c) with true by (unfold p64; lia). reflexivity. }
      split.
      * cbn [no_bad_bignum]. rewrite NF, orb_true_r. reflexivity.
      * cbn [value_nf]. rewrite NF, orb_true_r.
        replace (N.of_nat (length (strip0 c)) <? p64) with true by (unfold p64; lia). reflexivity.
Qed.

Lemma bignum_depth : forall neg c v, (length c <= 16)%nat -> bignum neg c = Ok v -> depth v = 0%nat.
Proof.
  intros neg c v Hc. unfold bignum. pose proof (strip0_length c) as SL.
  destruct neg; repeat match goal with |- context [if ?x then _ else _] => destruct x end;
    try discriminate; intros [= <-]; try reflexivity;
    cbn [depth short_bignum_shape];
    replace (N.of_nat (length (strip0 c)) <=? 16) with true by lia; reflexivity.
Qed.

(* ---------- lengths of decoded sequences ---------- *)
Ltac bd H x r E :=
  match type of H with
  | bind ?e _ = Ok _ => destruct e as [[x r]| | |] eqn:E; cbn [bind] in H; try discriminate H
  end.

Lemma segs_output : forall f mt n l b r, segs f mt n l = Ok (b, r) ->
  (length b + length r <= length l)%nat /\ (mt = 3 -> utf8_valid b = true).
Proof.
  induction f as [|f IH]; intros mt n l b r; [discriminate|]. cbn [segs].
  destruct (dehead l) as [[[[mt' ai] arg] r0]|] eqn:H; [|discriminate].
  apply dehead_shorter in H.
  destruct ((mt' =? 7) && (ai =? 31)).
  { destruct n as [|[|n']]; [discriminate| |].
    - intros [= <- <-]. cbn [length]. split; [lia|reflexivity].
    - intros S. apply IH in S as [S1 S2]. split; [lia|assumption]. }
  destruct (mt' =? mt); [|discriminate].
  destruct arg as [k|].
  - destruct (takeN k r0) as [[sg r1]|] eqn:T; [|discriminate].
    apply takeN_spec in T as [-> _]. rewrite app_length in H.
    destruct ((mt =? 3) && negb (utf8_valid sg)) eqn:U; [discriminate|].
    assert (US: mt = 3 -> utf8_valid sg = true).
    { intros ->. change (3 =? 3) with true in U. cbn [andb] in U. now destruct (utf8_valid sg). }
    destruct n as [|n'].
    + intros [= <- <-]. split; [lia|assumption].
    + intros S. bd S rest r2 E. injection S as <- <-.
      apply IH in E as [E1 E2]. rewrite app_length. split; [lia|].
      intros M. apply utf8_valid_app; auto.
  - intros S. apply IH in S as [S1 S2]. split; [lia|assumption].
Qed.

Lemma items_len : forall f bud c l vs r, items f bud c l = Ok (vs, r) ->
  (length vs + length r <= length l)%nat.
Proof.
  induction f as [|f IH]; intros bud c l vs r; [discriminate|]. cbn [items].
  destruct c as [n|].
  - destruct (n =? 0). { intros [= <- <-]. cbn [length]. lia. }
    intros S. bd S x r1 E. bd S xs r2 E'. injection S as <- <-.
    apply de_consumes in E. apply IH in E'. cbn [length]. lia.
  - destruct l as [|b l0]; [discriminate|].
    destruct (b2n b =? 255). { intros [= <- <-]. cbn [length]. lia. }
    intros S. bd S x r1 E. bd S xs r2 E'. injection S as <- <-.
    apply de_consumes in E. apply IH in E'. cbn [length] in *. lia.
Qed.

Lemma entries_len : forall f bud c l m r, entries f bud c l = Ok (m, r) ->
  (length m + length r <= length l)%nat.
Proof.
  induction f as [|f IH]; intros bud c l m r; [discriminate|]. cbn [entries].
  destruct c as [n|].
  - destruct (n =? 0). { intros [= <- <-]. cbn [length]. lia. }
    intros S. bd S k r1 E. bd S x r2 E'. bd S xs r3 E''. injection S as <- <-.
    apply de_consumes in E. apply de_consumes in E'. apply IH in E''. cbn [length]. lia.
  - destruct l as [|b l0]; [discriminate|].
    destruct (b2n b =? 255). { intros [= <- <-]. cbn [length]. lia. }
    intros S. bd S k r1 E. bd S x r2 E'. bd S xs r3 E''. injection S as <- <-.
    apply de_consumes in E. apply de_consumes in E'. apply IH in E''. cbn [length] in *. lia.
Qed.

(* ---------- 1. decoded values are in value_nf0 ---------- *)
Lemma de_nf0_aux : forall f,
  (forall bud l v r, N.of_nat (length l) < p64 -> de f bud l = Ok (v, r) -> value_nf0 v = true) /\
  (forall bud c l vs r, N.of_nat (length l) < p64 -> items f bud c l = Ok (vs, r) ->
     forallb value_nf0 vs = true) /\
  (forall bud c l m r, N.of_nat (length l) < p64 -> entries f bud c l = Ok (m, r) ->
     forallb (fun kv => value_nf0 (fst kv) && value_nf0 (snd kv)) m = true).
Proof.
  induction f as [|f (IHd & IHi & IHe)]; [repeat split; intros; discriminate|].
  split; [|split].
  - intros bud l v r HL. cbn [de].
    destruct (dehead l) as [[[[mt ai] arg] r0]|] eqn:H; [|discriminate].
    pose proof (dehead_shorter _ _ _ _ _ H) as Hs.
    assert (HL0: N.of_nat (length r0) < p64) by lia.
    destruct (mt =? 0).
    { destruct arg as [n|]; [|discriminate]. intros [= <- <-].
      apply dehead_arg in H as (A & _). now apply nf0_uint. }
    destruct (mt =? 1).
    { destruct arg as [n|]; [|discriminate]. intros [= <- <-].
      apply dehead_arg in H as (A & _). now apply nf0_nint. }
    destruct (mt =? 2).
    { intros S. bd S b r1 E. injection S as <- <-. apply segs_output in E as [E1 _].
      cbn [value_nf0]. lia. }
    destruct (mt =? 3).
    { intros S. bd S b r1 E. injection S as <- <-. apply segs_output in E as [E1 E2].
      cbn [value_nf0]. rewrite (E2 eq_refl). lia. }
    destruct (mt =? 4).
    { destruct bud as [|bud']; [discriminate|]. intros S. bd S vs r1 E. injection S as <- <-.
      cbn [value_nf0]. rewrite (IHi _ _ _ _ _ HL0 E). apply items_len in E. lia. }
    destruct (mt =? 5).
    { destruct bud as [|bud']; [discriminate|]. intros S. bd S vs r1 E. injection S as <- <-.
      cbn [value_nf0]. rewrite (IHe _ _ _ _ _ HL0 E). apply entries_len in E. lia. }
    destruct (mt =? 6).
    { destruct arg as [t|]; [|discriminate].
      destruct (dehead r0) as [[[[mt2 ai2] arg2] r2]|] eqn:H2; [|discriminate].
      pose proof (dehead_shorter _ _ _ _ _ H2) as Hs2.
      cbv zeta.
      destruct (((t =? 2) || (t =? 3)) && match arg2 with Some n2 => (mt2 =? 2) && (n2 <=? 16) | None => false end) eqn:C.
      - destruct arg2 as [n2|]; [|discriminate].
        destruct (takeN n2 r2) as [[c r3]|] eqn:T; [|discriminate].
        destruct (bignum (t =? 3) c) as [bv| | |] eqn:B; cbn [bind]; try discriminate. intros [= <- <-].
        apply takeN_spec in T as [_ T].
        apply de_output_bignum_path_ok in B as [_ B]; [|lia].
        rewrite nf_split in B. now apply andb_true_iff in B as [B _].
      - destruct bud as [|bud']; [discriminate|]. intros S. bd S x r1 E. injection S as <- <-.
        cbn [value_nf0]. rewrite (IHd _ _ _ _ HL0 E).
        apply dehead_arg in H as (A & _). lia. }
    destruct arg as [n|]; [|discriminate].
    apply dehead_arg in H as (A & B & C).
    destruct (ai <? 25).
    { repeat match goal with |- context [if ?c then _ else _] => destruct c end;
        try discriminate; intros [= <- <-]; reflexivity. }
    destruct (ai =? 25) eqn:A25.
    { intros [= <- <-]. cbn [value_nf0]. apply N.ltb_lt, widen16_lt, B. lia. }
    destruct (ai =? 26) eqn:A26.
    { intros [= <- <-]. cbn [value_nf0]. apply N.ltb_lt, widen32_lt, C. lia. }
    intros [= <- <-]. cbn [value_nf0]. now apply N.ltb_lt.
  - intros bud c l vs r HL. cbn [items]. destruct c as [n|].
    + destruct (n =? 0). { intros [= <- <-]. reflexivity. }
      intros S. bd S x r1 E. bd S xs r2 E'. injection S as <- <-.
      pose proof (de_consumes _ _ _ _ _ E) as EC.
      assert (HL1: N.of_nat (length r1) < p64) by lia.
      cbn [forallb]. rewrite (IHd _ _ _ _ HL E). rewrite (IHi _ _ _ _ _ HL1 E'). reflexivity.
    + destruct l as [|b l0]; [discriminate|].
      destruct (b2n b =? 255). { intros [= <- <-]. reflexivity. }
      intros S. bd S x r1 E. bd S xs r2 E'. injection S as <- <-.
      pose proof (de_consumes _ _ _ _ _ E) as EC.
      assert (HL1: N.of_nat (length r1) < p64) by lia.
      cbn [forallb]. rewrite (IHd _ _ _ _ HL E). rewrite (IHi _ _ _ _ _ HL1 E'). reflexivity.
  - intros bud c l m r HL. cbn [entries]. destruct c as [n|].
    + destruct (n =? 0). { intros [= <- <-]. reflexivity. }
      intros S. bd S k r1 E. bd S x r2 E'. bd S xs r3 E''. injection S as <- <-.
      pose proof (de_consumes _ _ _ _ _ E) as EC. pose proof (de_consumes _ _ _ _ _ E') as EC'.
      assert (HL1: N.of_nat (length r1) < p64) by lia.
      assert (HL2: N.of_nat (length r2) < p64) by lia.
      cbn [forallb fst snd]. rewrite (IHd _ _ _ _ HL E). rewrite (IHd _ _ _ _ HL1 E').
      rewrite (IHe _ _ _ _ _ HL2 E''). reflexivity.
    + destruct l as [|b l0]; [discriminate|].
      destruct (b2n b =? 255). { intros [= <- <-]. reflexivity. }
      intros S. bd S k r1 E. bd S x r2 E'. bd S xs r3 E''. injection S as <- <-.
      pose proof (de_consumes _ _ _ _ _ E) as EC. pose proof (de_consumes _ _ _ _ _ E') as EC'.
      assert (HL1: N.of_nat (length r1) < p64) by lia.
      assert (HL2: N.of_nat (length r2) < p64) by lia.
      cbn [forallb fst snd]. rewrite (IHd _ _ _ _ HL E). rewrite (IHd _ _ _ _ HL1 E').
      rewrite (IHe _ _ _ _ _ HL2 E''). reflexivity.
Qed.

Theorem de_output_nf0 : forall f bud l v r, N.of_nat (length l) < p64 ->
  de f bud l = Ok (v, r) -> value_nf0 v = true.
Proof. intros f. apply (de_nf0_aux f). Qed.

Theorem items_output_nf0 : forall f bud c l vs r, N.of_nat (length l) < p64 ->
  items f bud c l = Ok (vs, r) -> forallb value_nf0 vs = true /\ (length vs <= length l)%nat.
Proof. intros f bud c l vs r HL E. split; [now apply (de_nf0_aux f) in E|]. apply items_len in E. lia. Qed.

Theorem entries_output_nf0 : forall f bud c l m r, N.of_nat (length l) < p64 ->
  entries f bud c l = Ok (m, r) ->
  forallb (fun kv => value_nf0 (fst kv) && value_nf0 (snd kv)) m = true /\ (length m <= length l)%nat.
Proof. intros f bud c l m r HL E. split; [now apply (de_nf0_aux f) in E|]. apply entries_len in E. lia. Qed.

(* ---------- 2. decoded values are within the recursion budget ---------- *)
Lemma de_depth_aux : forall f,
  (forall bud l v r, de f bud l = Ok (v, r) -> (depth v <= bud)%nat) /\
  (forall bud c l vs r, items f bud c l = Ok (vs, r) -> (list_max depth vs <= bud)%nat) /\
  (forall bud c l m r, entries f bud c l = Ok (m, r) -> (mmax m <= bud)%nat).
Proof.
  induction f as [|f (IHd & IHi & IHe)]; [repeat split; intros; discriminate|].
  split; [|split].
  - intros bud l v r. cbn [de].
    destruct (dehead l) as [[[[mt ai] arg] r0]|] eqn:H; [|discriminate].
    destruct (mt =? 0). { destruct arg as [n|]; [|discriminate]. intros [= <- <-]. cbn [depth]. lia. }
    destruct (mt =? 1). { destruct arg as [n|]; [|discriminate]. intros [= <- <-]. cbn [depth]. lia. }
    destruct (mt =? 2). { intros S. bd S b r1 E. injection S as <- <-. cbn [depth]. lia. }
    destruct (mt =? 3). { intros S. bd S b r1 E. injection S as <- <-. cbn [depth]. lia. }
    destruct (mt =? 4).
    { destruct bud as [|bud']; [discriminate|]. intros S. bd S vs r1 E. injection S as <- <-.
      apply IHi in E. cbn [depth]. lia. }
    destruct (mt =? 5).
    { destruct bud as [|bud']; [discriminate|]. intros S. bd S vs r1 E. injection S as <- <-.
      apply IHe in E. cbn [depth]. fold (mmax vs). lia. }
    destruct (mt =? 6).
    { destruct arg as [t|]; [|discriminate].
      destruct (dehead r0) as [[[[mt2 ai2] arg2] r2]|] eqn:H2; [|discriminate].
      cbv zeta.
      destruct (((t =? 2) || (t =? 3)) && match arg2 with Some n2 => (mt2 =? 2) && (n2 <=? 16) | None => false end) eqn:C.
      - destruct arg2 as [n2|]; [|discriminate].
        destruct (takeN n2 r2) as [[c r3]|] eqn:T; [|discriminate].
        destruct (bignum (t =? 3) c) as [bv| | |] eqn:B; cbn [bind]; try discriminate. intros [= <- <-].
        apply takeN_spec in T as [_ T].
        apply bignum_depth in B; [|lia]. lia.
      - destruct bud as [|bud']; [discriminate|]. intros S. bd S x r1 E. injection S as <- <-.
        apply IHd in E. cbn [depth]. destruct (short_bignum_shape t x); lia. }
    destruct arg as [n|]; [|discriminate].
    repeat match goal with |- context [if ?c then _ else _] => destruct c end;
      try discriminate; intros [= <- <-]; cbn [depth]; lia.
  - intros bud c l vs r. cbn [items]. destruct c as [n|].
    + destruct (n =? 0). { intros [= <- <-]. cbn. lia. }
      intros S. bd S x r1 E. bd S xs r2 E'. injection S as <- <-.
      apply IHd in E. apply IHi in E'. unfold list_max in *. cbn [fold_right]. apply Nat.max_lub; assumption.
    + destruct l as [|b l0]; [discriminate|].
      destruct (b2n b =? 255). { intros [= <- <-]. cbn. lia. }
      intros S. bd S x r1 E. bd S xs r2 E'. injection S as <- <-.
      apply IHd in E. apply IHi in E'. unfold list_max in *. cbn [fold_right]. apply Nat.max_lub; assumption.
  - intros bud c l m r. cbn [entries]. destruct c as [n|].
    + destruct (n =? 0). { intros [= <- <-]. cbn. lia. }
      intros S. bd S k r1 E. bd S x r2 E'. bd S xs r3 E''. injection S as <- <-.
      apply IHd in E. apply IHd in E'. apply IHe in E''. unfold mmax in *. cbn [fold_right fst snd].
      repeat apply Nat.max_lub; assumption.
    + destruct l as [|b l0]; [discriminate|].
      destruct (b2n b =? 255). { intros [= <- <-]. cbn. lia. }
      intros S. bd S k r1 E. bd S x r2 E'. bd S xs r3 E''. injection S as <- <-.
      apply IHd in E. apply IHd in E'. apply IHe in E''. unfold mmax in *. cbn [fold_right fst snd].
      repeat apply Nat.max_lub; assumption.
Qed.

Theorem de_output_depth : forall f bud l v r, de f bud l = Ok (v, r) -> (depth v <= bud)%nat.
Proof. intros f. apply (de_depth_aux f). Qed.

Theorem items_output_depth : forall f bud c l vs r, items f bud c l = Ok (vs, r) ->
  (list_max depth vs <= bud)%nat.
Proof. intros f. apply (de_depth_aux f). Qed.

Theorem entries_output_depth : forall f bud c l m r, entries f bud c l = Ok (m, r) ->
  (mmax m <= bud)%nat.
Proof. intros f. apply (de_depth_aux f). Qed.

(* ---------- 3. top level ---------- *)
Theorem from_reader_output_gen : forall l v r, N.of_nat (length l) < p64 -> from_reader l = Ok (v, r) ->
  value_nf0 v = true /\ (depth v <= 256)%nat.
Proof.
  intros l v r HL D. unfold from_reader in D. split.
  - eapply de_output_nf0; eauto.
  - apply de_output_depth in D. exact D.
Qed.

Theorem from_reader_output : forall l v, N.of_nat (length l) < p64 -> from_reader l = Ok (v, []) ->
  value_nf0 v = true /\ (depth v <= 256)%nat.
Proof. intros l v. apply from_reader_output_gen. Qed.

(* ---------- 5. decode -> encode -> decode ---------- *)
Corollary decoded_roundtrips : forall l v, N.of_nat (length l) < p64 -> from_reader l = Ok (v, []) ->
  no_bad_bignum v = true -> from_reader (ser v) = Ok (v, []).
Proof.
  intros l v HL D NB. destruct (from_reader_output l v HL D) as [N0 DP].
  assert (NF: value_nf v = true) by (rewrite nf_split, N0, NB; reflexivity).
  apply (from_reader_of_any_fuel _ (vsize v)).
  rewrite <- (app_nil_r (ser v)). apply (de_ser v NF); [lia|exact DP].
Qed.

Print Assumptions nf_split.
Print Assumptions de_output_nf0.
Print Assumptions de_output_depth.
Print Assumptions from_reader_output.
Print Assumptions de_output_bignum_path_ok.
Print Assumptions decoded_roundtrips.
