(* Linear work bound for the CBOR parser model (Model/Cbor.v).

   The parser functions [segs], [de], [items], [entries] are mirrored by
   instrumented versions [segs_c], [de_c], [items_c], [entries_c] with exactly
   the same control structure, which return the result together with a STEP
   COUNT: every invocation of any of the four functions (successful, failing
   or out of fuel) counts one step, plus the steps of the invocations it makes.

   What is NOT counted as a step (primitive work of one invocation):
     - [dehead]     reads at most 9 bytes: O(1);
     - [takeN n]    walks the n cells it takes (or the rest of the input when it
                    fails): O(bytes taken), and these bytes are consumed;
     - [utf8_valid] one pass over the segment just taken: O(bytes taken);
     - [s ++ rest]  in [segs]: copies the segment just taken: O(bytes taken);
     - [bignum], [unbe], [strip0] on at most 16 bytes, [widen16], [widen32]: O(1).
   So the total work of a run is O(steps + input length), and the theorems
   below bound the steps by 3 * length + 1.

   Results (all for ANY fuel and ANY nesting budget, success or failure):
     erasure       fst (de_c f bud l) = de f bud l           (same for the others)
     success       de_c f bud l = (Ok (v, r), n) -> n + 1 + 3 * |r| <= 3 * |l|
                   i.e. at most 3 * (bytes consumed) - 1 steps
     any outcome   snd (de_c f bud l) <= 3 * |l| + 1
     from_reader   snd (from_reader_c l) <= 3 * |l| + 1
   The factor 3 is optimal: the input 81 81 ... 81 80 of n bytes takes exactly
   3 * n - 1 steps (one [de], one [items (Some 1)], one [items (Some 0)] per
   byte), see [nest_steps_tight] and [from_reader_steps_tight]; the additive
   constant 1 is attained by the empty input.  In particular a bound 2 * |l| + c is FALSE, and the step count
   is NOT bounded by the fuel [fuel_of l = 2 * |l| + 2] (the fuel bounds the
   length of a call chain, not the number of calls), see [steps_exceed_fuel].

   A second mirror [de_d], [items_d], [entries_d] returns the maximum number
   of simultaneously open array / map / tag frames; it never exceeds the
   budget, hence never exceeds RECURSION_LIMIT = 256 for [from_reader]. *)
From Coq Require Import Lia.
From Coset.Model Require Import Prelude Cbor.
From Coset.Proofs Require Import Head Fuel.
Require Import ZifyBool ZifyN ZifyNat.
Open Scope N_scope.

(* ====================================================================== *)
(* 1. Instrumented mirrors                                                *)
(* ====================================================================== *)

Definition res_c (A : Type) : Type := (res A * nat)%type.

Definition ret_c {A} (a : A) : res_c A := (Ok a, O).
Definition derr_c {A} : res_c A := (Err EDecode, O).
Definition lift0 {A} (x : res A) : res_c A := (x, O).
Definition tick {A} (x : res_c A) : res_c A := let '(y, n) := x in (y, S n).
Definition bind_c {A B} (x : res_c A) (k : A -> res_c B) : res_c B :=
  match x with
  | (Ok a, n) => let '(y, m) := k a in (y, (n + m)%nat)
  | (Err e, n) => (Err e, n)
  | (Panic, n) => (Panic, n)
  | (OutOfFuel, n) => (OutOfFuel, n)
  end.
Notation "'doc' x <- r ; k" := (bind_c r (fun x => k))
  (at level 200, x pattern, r at level 100, k at level 200, right associativity).

(* depth instrumentation: entering a frame adds one, sequencing takes the maximum *)
Definition frame {A} (x : res_c A) : res_c A := let '(y, n) := x in (y, S n).
Definition bind_d {A B} (x : res_c A) (k : A -> res_c B) : res_c B :=
  match x with
  | (Ok a, n) => let '(y, m) := k a in (y, Nat.max n m)
  | (Err e, n) => (Err e, n)
  | (Panic, n) => (Panic, n)
  | (OutOfFuel, n) => (OutOfFuel, n)
  end.
Notation "'dod' x <- r ; k" := (bind_d r (fun x => k))
  (at level 200, x pattern, r at level 100, k at level 200, right associativity).

Fixpoint segs_c (fuel : nat) (mt : N) (nested : nat) (l : bytes) : res_c (bytes * bytes) :=
  match fuel with O => (OutOfFuel, 1%nat) | S f => tick (
  match dehead l with
  | None => derr_c
  | Some (mt', ai, arg, r) =>
    if (mt' =? 7) && (ai =? 31) then
      match nested with
      | O => derr_c
      | S O => ret_c ([], r)
      | S n' => segs_c f mt n' r
      end
    else if mt' =? mt then
      match arg with
      | None => segs_c f mt (S nested) r
      | Some n =>
        match takeN n r with
        | None => derr_c
        | Some (s, r') =>
          if (mt =? 3) && negb (utf8_valid s) then derr_c
          else match nested with
               | O => ret_c (s, r')
               | _ => doc (rest, r'') <- segs_c f mt nested r'; ret_c (s ++ rest, r'')
               end
        end
      end
    else derr_c
  end) end.

Fixpoint de_c (fuel : nat) (bud : nat) (l : bytes) {struct fuel} : res_c (value * bytes) :=
  match fuel with O => (OutOfFuel, 1%nat) | S f => tick (
  match dehead l with
  | None => derr_c
  | Some (mt, ai, arg, r) =>
    if mt =? 0 then match arg with Some n => ret_c (VInt (Z.of_N n), r) | None => derr_c end
    else if mt =? 1 then match arg with Some n => ret_c (VInt (-1 - Z.of_N n), r) | None => derr_c end
    else if mt =? 2 then doc (b, r') <- segs_c f 2 0 l; ret_c (VBytes b, r')
    else if mt =? 3 then doc (t, r') <- segs_c f 3 0 l; ret_c (VText t, r')
    else if mt =? 4 then
      match bud with O => derr_c | S bud' =>
        doc (vs, r') <- items_c f bud' arg r; ret_c (VArray vs, r') end
    else if mt =? 5 then
      match bud with O => derr_c | S bud' =>
        doc (m, r') <- entries_c f bud' arg r; ret_c (VMap m, r') end
    else if mt =? 6 then
      match arg with
      | None => derr_c
      | Some t =>
        match dehead r with
        | None => derr_c
        | Some (mt2, ai2, arg2, r2) =>
          let short := match arg2 with Some n2 => (mt2 =? 2) && (n2 <=? 16) | None => false end in
          if ((t =? 2) || (t =? 3)) && short then
            match arg2 with
            | Some n2 => match takeN n2 r2 with
                         | None => derr_c
                         | Some (c, r3) => doc v <- lift0 (bignum (t =? 3) c); ret_c (v, r3)
                         end
            | None => derr_c
            end
          else
            match bud with O => derr_c | S bud' =>
              doc (v, r') <- de_c f bud' r; ret_c (VTag t v, r') end
        end
      end
    else
      match arg with
      | None => derr_c
      | Some n =>
        if ai <? 25 then
          if n =? 20 then ret_c (VBool false, r)
          else if n =? 21 then ret_c (VBool true, r)
          else if n =? 22 then ret_c (VNull, r)
          else if n =? 23 then ret_c (VNull, r)
          else derr_c
        else if ai =? 25 then ret_c (VFloat (widen16 n), r)
        else if ai =? 26 then ret_c (VFloat (widen32 n), r)
        else ret_c (VFloat n, r)
      end
  end) end
with items_c (fuel : nat) (bud : nat) (cnt : option N) (l : bytes) {struct fuel} : res_c (list value * bytes) :=
  match fuel with O => (OutOfFuel, 1%nat) | S f => tick (
  match cnt with
  | Some n =>
    if n =? 0 then ret_c ([], l)
    else doc (v, r) <- de_c f bud l; doc (vs, r') <- items_c f bud (Some (N.pred n)) r; ret_c (v :: vs, r')
  | None =>
    match l with
    | [] => derr_c
    | b :: r0 =>
      if b2n b =? 255 then ret_c ([], r0)
      else doc (v, r) <- de_c f bud l; doc (vs, r') <- items_c f bud None r; ret_c (v :: vs, r')
    end
  end) end
with entries_c (fuel : nat) (bud : nat) (cnt : option N) (l : bytes) {struct fuel} : res_c (list (value * value) * bytes) :=
  match fuel with O => (OutOfFuel, 1%nat) | S f => tick (
  match cnt with
  | Some n =>
    if n =? 0 then ret_c ([], l)
    else doc (k, r) <- de_c f bud l; doc (v, r1) <- de_c f bud r;
         doc (m, r') <- entries_c f bud (Some (N.pred n)) r1; ret_c ((k, v) :: m, r')
  | None =>
    match l with
    | [] => derr_c
    | b :: r0 =>
      if b2n b =? 255 then ret_c ([], r0)
      else doc (k, r) <- de_c f bud l; doc (v, r1) <- de_c f bud r;
           doc (m, r') <- entries_c f bud None r1; ret_c ((k, v) :: m, r')
    end
  end) end.


(* Depth mirror: same control structure again; the number returned is the
   maximum number of simultaneously open array / map / tag frames ([frame]
   sits exactly where the model decrements the budget).  [segs] opens no
   frame, so the model function itself is used for strings. *)
Fixpoint de_d (fuel : nat) (bud : nat) (l : bytes) {struct fuel} : res_c (value * bytes) :=
  match fuel with O => (OutOfFuel, O) | S f => (
  match dehead l with
  | None => derr_c
  | Some (mt, ai, arg, r) =>
    if mt =? 0 then match arg with Some n => ret_c (VInt (Z.of_N n), r) | None => derr_c end
    else if mt =? 1 then match arg with Some n => ret_c (VInt (-1 - Z.of_N n), r) | None => derr_c end
    else if mt =? 2 then dod (b, r') <- lift0 (segs f 2 0 l); ret_c (VBytes b, r')
    else if mt =? 3 then dod (t, r') <- lift0 (segs f 3 0 l); ret_c (VText t, r')
    else if mt =? 4 then
      match bud with O => derr_c | S bud' =>
        frame (dod (vs, r') <- items_d f bud' arg r; ret_c (VArray vs, r')) end
    else if mt =? 5 then
      match bud with O => derr_c | S bud' =>
        frame (dod (m, r') <- entries_d f bud' arg r; ret_c (VMap m, r')) end
    else if mt =? 6 then
      match arg with
      | None => derr_c
      | Some t =>
        match dehead r with
        | None => derr_c
        | Some (mt2, ai2, arg2, r2) =>
          let short := match arg2 with Some n2 => (mt2 =? 2) && (n2 <=? 16) | None => false end in
          if ((t =? 2) || (t =? 3)) && short then
            match arg2 with
            | Some n2 => match takeN n2 r2 with
                         | None => derr_c
                         | Some (c, r3) => dod v <- lift0 (bignum (t =? 3) c); ret_c (v, r3)
                         end
            | None => derr_c
            end
          else
            match bud with O => derr_c | S bud' =>
              frame (dod (v, r') <- de_d f bud' r; ret_c (VTag t v, r')) end
        end
      end
    else
      match arg with
      | None => derr_c
      | Some n =>
        if ai <? 25 then
          if n =? 20 then ret_c (VBool false, r)
          else if n =? 21 then ret_c (VBool true, r)
          else if n =? 22 then ret_c (VNull, r)
          else if n =? 23 then ret_c (VNull, r)
          else derr_c
        else if ai =? 25 then ret_c (VFloat (widen16 n), r)
        else if ai =? 26 then ret_c (VFloat (widen32 n), r)
        else ret_c (VFloat n, r)
      end
  end) end
with items_d (fuel : nat) (bud : nat) (cnt : option N) (l : bytes) {struct fuel} : res_c (list value * bytes) :=
  match fuel with O => (OutOfFuel, O) | S f => (
  match cnt with
  | Some n =>
    if n =? 0 then ret_c ([], l)
    else dod (v, r) <- de_d f bud l; dod (vs, r') <- items_d f bud (Some (N.pred n)) r; ret_c (v :: vs, r')
  | None =>
    match l with
    | [] => derr_c
    | b :: r0 =>
      if b2n b =? 255 then ret_c ([], r0)
      else dod (v, r) <- de_d f bud l; dod (vs, r') <- items_d f bud None r; ret_c (v :: vs, r')
    end
  end) end
with entries_d (fuel : nat) (bud : nat) (cnt : option N) (l : bytes) {struct fuel} : res_c (list (value * value) * bytes) :=
  match fuel with O => (OutOfFuel, O) | S f => (
  match cnt with
  | Some n =>
    if n =? 0 then ret_c ([], l)
    else dod (k, r) <- de_d f bud l; dod (v, r1) <- de_d f bud r;
         dod (m, r') <- entries_d f bud (Some (N.pred n)) r1; ret_c ((k, v) :: m, r')
  | None =>
    match l with
    | [] => derr_c
    | b :: r0 =>
      if b2n b =? 255 then ret_c ([], r0)
      else dod (k, r) <- de_d f bud l; dod (v, r1) <- de_d f bud r;
           dod (m, r') <- entries_d f bud None r1; ret_c ((k, v) :: m, r')
    end
  end) end.


(* ====================================================================== *)
(* Proof automation: always split on the OUTERMOST scrutinee              *)
(* ====================================================================== *)

Ltac hs t :=
  lazymatch t with
  | tick ?x => hs x
  | bind_c ?x _ => hs x
  | frame ?x => hs x
  | bind_d ?x _ => hs x
  | lift0 ?x => hs x
  | fst ?x => hs x
  | snd ?x => hs x
  | match ?x with _ => _ end => hs x
  | _ => constr:(t)
  end.

Ltac red_c := cbn [bind_c bind_d tick frame ret_c derr_c lift0 fst snd bind derr].

(* ====================================================================== *)
(* 2. Erasure: the instrumented functions compute the model functions     *)
(* ====================================================================== *)

Ltac erase_go IHs IHd IHi IHe :=
  red_c;
  lazymatch goal with
  | |- ?L = ?R =>
    let x := hs L in
    lazymatch x with
    | (_, _) => reflexivity
    | Ok _ => reflexivity
    | Err _ => reflexivity
    | Panic => reflexivity
    | OutOfFuel => reflexivity
    | segs_c ?f ?a ?b ?c => rewrite <- (IHs a b c); destruct x as [[[? ?]| | |] ?]; erase_go IHs IHd IHi IHe
    | de_c ?f ?a ?b => rewrite <- (IHd a b); destruct x as [[[? ?]| | |] ?]; erase_go IHs IHd IHi IHe
    | items_c ?f ?a ?b ?c => rewrite <- (IHi a b c); destruct x as [[[? ?]| | |] ?]; erase_go IHs IHd IHi IHe
    | entries_c ?f ?a ?b ?c => rewrite <- (IHe a b c); destruct x as [[[? ?]| | |] ?]; erase_go IHs IHd IHi IHe
    | de_d ?f ?a ?b => rewrite <- (IHd a b); destruct x as [[[? ?]| | |] ?]; erase_go IHs IHd IHi IHe
    | items_d ?f ?a ?b ?c => rewrite <- (IHi a b c); destruct x as [[[? ?]| | |] ?]; erase_go IHs IHd IHi IHe
    | entries_d ?f ?a ?b ?c => rewrite <- (IHe a b c); destruct x as [[[? ?]| | |] ?]; erase_go IHs IHd IHi IHe
    | _ => destruct x; erase_go IHs IHd IHi IHe
    end
  end.

Lemma segs_c_erase : forall f mt nested l, fst (segs_c f mt nested l) = segs f mt nested l.
Proof.
  induction f as [|f IH]; intros mt nested l; [reflexivity|].
  cbn [segs_c segs]. erase_go IH IH IH IH.
Qed.

Lemma de_c_erase_aux f :
  (forall bud l, fst (de_c f bud l) = de f bud l) /\
  (forall bud cnt l, fst (items_c f bud cnt l) = items f bud cnt l) /\
  (forall bud cnt l, fst (entries_c f bud cnt l) = entries f bud cnt l).
Proof.
  induction f as [|f (IHd & IHi & IHe)]; [repeat split|].
  pose proof (segs_c_erase f) as IHs.
  repeat split.
  - intros bud l. cbn [de_c de]. cbv zeta. erase_go IHs IHd IHi IHe.
  - intros bud cnt l. cbn [items_c items]. erase_go IHs IHd IHi IHe.
  - intros bud cnt l. cbn [entries_c entries]. erase_go IHs IHd IHi IHe.
Qed.

Theorem de_c_erase : forall f bud l, fst (de_c f bud l) = de f bud l.
Proof. intros f. apply (de_c_erase_aux f). Qed.
Theorem items_c_erase : forall f bud cnt l, fst (items_c f bud cnt l) = items f bud cnt l.
Proof. intros f. apply (de_c_erase_aux f). Qed.
Theorem entries_c_erase : forall f bud cnt l, fst (entries_c f bud cnt l) = entries f bud cnt l.
Proof. intros f. apply (de_c_erase_aux f). Qed.

(* ====================================================================== *)
(* 3. The amortised invariants                                            *)
(* ====================================================================== *)
Open Scope nat_scope.

Definition segs_inv (l : bytes) (x : res_c (bytes * bytes)) : Prop :=
  match x with
  | (Ok (_, r), n) => 1 <= n /\ n + length r <= length l
  | (_, n) => n <= length l + 1
  end.

Definition de_inv (l : bytes) (x : res_c (value * bytes)) : Prop :=
  match x with
  | (Ok (_, r), n) => n + 1 + 3 * length r <= 3 * length l
  | (_, n) => n <= 3 * length l + 1
  end.

Definition seq_inv {A} (l : bytes) (x : res_c (A * bytes)) : Prop :=
  match x with
  | (Ok (_, r), n) => n + 3 * length r <= 3 * length l + 1
  | (_, n) => n <= 3 * length l + 2
  end.

Ltac unfold_inv := cbv beta iota delta [segs_inv de_inv seq_inv] in *.

Ltac inv_leaf := unfold_inv; facts0; cbn [length] in *; lia.

Ltac inv_go IHs IHd IHi IHe :=
  red_c;
  lazymatch goal with
  | |- _ _ ?L =>
    let x := hs L in
    lazymatch x with
    | (_, _) => inv_leaf
    | segs_c ?f ?a ?b ?c => pose proof (IHs a b c); destruct x as [[[? ?]| | |] ?]; inv_go IHs IHd IHi IHe
    | de_c ?f ?a ?b => pose proof (IHd a b); destruct x as [[[? ?]| | |] ?]; inv_go IHs IHd IHi IHe
    | items_c ?f ?a ?b ?c => pose proof (IHi a b c); destruct x as [[[? ?]| | |] ?]; inv_go IHs IHd IHi IHe
    | entries_c ?f ?a ?b ?c => pose proof (IHe a b c); destruct x as [[[? ?]| | |] ?]; inv_go IHs IHd IHi IHe
    | _ => destruct x eqn:?; inv_go IHs IHd IHi IHe
    end
  end.

Lemma segs_c_inv : forall f mt nested l, segs_inv l (segs_c f mt nested l).
Proof.
  induction f as [|f IH]; intros mt nested l; [cbn [segs_c]; inv_leaf|].
  cbn [segs_c]. inv_go IH IH IH IH.
Qed.

Lemma de_c_inv_aux f :
  (forall bud l, de_inv l (de_c f bud l)) /\
  (forall bud cnt l, seq_inv l (items_c f bud cnt l)) /\
  (forall bud cnt l, seq_inv l (entries_c f bud cnt l)).
Proof.
  induction f as [|f (IHd & IHi & IHe)].
  { repeat split; intros; cbn [de_c items_c entries_c]; inv_leaf. }
  pose proof (segs_c_inv f) as IHs.
  repeat split.
  - intros bud l. cbn [de_c]. cbv zeta. inv_go IHs IHd IHi IHe.
  - intros bud cnt l. cbn [items_c]. inv_go IHs IHd IHi IHe.
  - intros bud cnt l. cbn [entries_c]. inv_go IHs IHd IHi IHe.
Qed.

Theorem segs_c_steps_ok : forall f mt nested l s r n,
  segs_c f mt nested l = (Ok (s, r), n) -> 1 <= n /\ n + length r <= length l.
Proof. intros f mt nested l s r n H. pose proof (segs_c_inv f mt nested l) as I. rewrite H in I. exact I. Qed.

Theorem segs_c_steps : forall f mt nested l, snd (segs_c f mt nested l) <= length l + 1.
Proof.
  intros f mt nested l. pose proof (segs_c_inv f mt nested l) as I.
  destruct (segs_c f mt nested l) as [[[? ?]| | |] ?]; unfold_inv; cbn [snd]; lia.
Qed.

Theorem de_c_steps_ok : forall f bud l v r n,
  de_c f bud l = (Ok (v, r), n) -> n + 1 + 3 * length r <= 3 * length l.
Proof. intros f bud l v r n H. pose proof (proj1 (de_c_inv_aux f) bud l) as I. rewrite H in I. exact I. Qed.

Theorem items_c_steps_ok : forall f bud cnt l vs r n,
  items_c f bud cnt l = (Ok (vs, r), n) -> n + 3 * length r <= 3 * length l + 1.
Proof. intros f bud cnt l vs r n H. pose proof (proj1 (proj2 (de_c_inv_aux f)) bud cnt l) as I. rewrite H in I. exact I. Qed.

Theorem entries_c_steps_ok : forall f bud cnt l m r n,
  entries_c f bud cnt l = (Ok (m, r), n) -> n + 3 * length r <= 3 * length l + 1.
Proof. intros f bud cnt l m r n H. pose proof (proj2 (proj2 (de_c_inv_aux f)) bud cnt l) as I. rewrite H in I. exact I. Qed.

Theorem de_c_steps : forall f bud l, snd (de_c f bud l) <= 3 * length l + 1.
Proof.
  intros f bud l. pose proof (proj1 (de_c_inv_aux f) bud l) as I.
  destruct (de_c f bud l) as [[[? ?]| | |] ?]; unfold_inv; cbn [snd]; lia.
Qed.

Theorem items_c_steps : forall f bud cnt l, snd (items_c f bud cnt l) <= 3 * length l + 2.
Proof.
  intros f bud cnt l. pose proof (proj1 (proj2 (de_c_inv_aux f)) bud cnt l) as I.
  destruct (items_c f bud cnt l) as [[[? ?]| | |] ?]; unfold_inv; cbn [snd]; lia.
Qed.

Theorem entries_c_steps : forall f bud cnt l, snd (entries_c f bud cnt l) <= 3 * length l + 2.
Proof.
  intros f bud cnt l. pose proof (proj2 (proj2 (de_c_inv_aux f)) bud cnt l) as I.
  destruct (entries_c f bud cnt l) as [[[? ?]| | |] ?]; unfold_inv; cbn [snd]; lia.
Qed.

Theorem de_c_steps_pos : forall f bud l, 1 <= snd (de_c f bud l).
Proof.
  intros [|f] bud l; cbn [de_c]; [cbn [snd]; lia|].
  match goal with |- _ <= snd (tick ?x) => destruct x as [? ?] end. cbn [tick snd]. lia.
Qed.

(* ====================================================================== *)
(* 4. Corollaries for from_reader                                         *)
(* ====================================================================== *)

Definition from_reader_c (l : bytes) : res_c (value * bytes) := de_c (fuel_of l) RECURSION_LIMIT l.

Theorem from_reader_c_erase : forall l, fst (from_reader_c l) = from_reader l.
Proof. intros l. unfold from_reader_c, from_reader. exact (de_c_erase _ _ _). Qed.

Theorem from_reader_steps : forall l, snd (from_reader_c l) <= 3 * length l + 1.
Proof. intros l. unfold from_reader_c. exact (de_c_steps _ _ _). Qed.

Theorem from_reader_steps_ok : forall l v r n,
  from_reader_c l = (Ok (v, r), n) ->
  from_reader l = Ok (v, r) /\ length r < length l /\ n + 1 <= 3 * (length l - length r).
Proof.
  intros l v r n H. split.
  - rewrite <- from_reader_c_erase, H. reflexivity.
  - unfold from_reader_c in H. apply de_c_steps_ok in H. lia.
Qed.

Theorem from_reader_c_not_out_of_fuel : forall l, fst (from_reader_c l) <> OutOfFuel.
Proof. intros l. rewrite from_reader_c_erase. apply from_reader_not_out_of_fuel. Qed.

Theorem from_reader_steps_any_fuel : forall l f, fuel_of l <= f ->
  fst (de_c f RECURSION_LIMIT l) = from_reader l /\ snd (de_c f RECURSION_LIMIT l) <= 3 * length l + 1.
Proof.
  intros l f Hf. split; [|exact (de_c_steps _ _ _)].
  rewrite de_c_erase. apply from_reader_fuel. exact Hf.
Qed.

(* ====================================================================== *)
(* 5. Frame depth never exceeds the budget                                *)
(* ====================================================================== *)

Lemma de_d_erase_aux f :
  (forall bud l, fst (de_d f bud l) = de f bud l) /\
  (forall bud cnt l, fst (items_d f bud cnt l) = items f bud cnt l) /\
  (forall bud cnt l, fst (entries_d f bud cnt l) = entries f bud cnt l).
Proof.
  induction f as [|f (IHd & IHi & IHe)]; [repeat split|].
  repeat split.
  - intros bud l. cbn [de_d de]. cbv zeta. erase_go IHd IHd IHi IHe.
  - intros bud cnt l. cbn [items_d items]. erase_go IHd IHd IHi IHe.
  - intros bud cnt l. cbn [entries_d entries]. erase_go IHd IHd IHi IHe.
Qed.

Theorem de_d_erase : forall f bud l, fst (de_d f bud l) = de f bud l.
Proof. intros f. apply (de_d_erase_aux f). Qed.

Ltac depth_leaf :=
  cbn [snd] in *;
  repeat match goal with
         | |- context [Nat.max ?a ?b] => destruct (Nat.max_spec a b) as [[? ->]|[? ->]]
         end; lia.

Ltac depth_go IHd IHi IHe :=
  red_c;
  lazymatch goal with
  | |- snd ?L <= _ =>
    let x := hs L in
    lazymatch x with
    | (_, _) => depth_leaf
    | de_d ?f ?a ?b => pose proof (IHd a b); destruct x as [[[? ?]| | |] ?]; depth_go IHd IHi IHe
    | items_d ?f ?a ?b ?c => pose proof (IHi a b c); destruct x as [[[? ?]| | |] ?]; depth_go IHd IHi IHe
    | entries_d ?f ?a ?b ?c => pose proof (IHe a b c); destruct x as [[[? ?]| | |] ?]; depth_go IHd IHi IHe
    | _ => destruct x; depth_go IHd IHi IHe
    end
  | |- _ => depth_leaf
  end.

Lemma de_d_depth_aux f :
  (forall bud l, snd (de_d f bud l) <= bud) /\
  (forall bud cnt l, snd (items_d f bud cnt l) <= bud) /\
  (forall bud cnt l, snd (entries_d f bud cnt l) <= bud).
Proof.
  induction f as [|f (IHd & IHi & IHe)].
  { repeat split; intros; cbn [de_d items_d entries_d snd]; lia. }
  repeat split.
  - intros bud l. cbn [de_d]. cbv zeta. depth_go IHd IHi IHe.
  - intros bud cnt l. cbn [items_d]. depth_go IHd IHi IHe.
  - intros bud cnt l. cbn [entries_d]. depth_go IHd IHi IHe.
Qed.

Theorem de_d_depth : forall f bud l, snd (de_d f bud l) <= bud.
Proof. intros f. apply (de_d_depth_aux f). Qed.

Definition from_reader_d (l : bytes) : res_c (value * bytes) := de_d (fuel_of l) RECURSION_LIMIT l.

Theorem from_reader_d_erase : forall l, fst (from_reader_d l) = from_reader l.
Proof. intros l. unfold from_reader_d, from_reader. exact (de_d_erase _ _ _). Qed.

Theorem from_reader_depth : forall l, snd (from_reader_d l) <= 256.
Proof. intros l. unfold from_reader_d. exact (de_d_depth _ RECURSION_LIMIT _). Qed.

(* ====================================================================== *)
(* 6. The constants are optimal; non-vacuity                              *)
(* ====================================================================== *)

Definition rep (n : nat) (b : N) : bytes := repeat (n2b b) n.

(* 81 81 ... 81 80 : n one-element arrays around an empty array, n + 1 bytes *)
Definition nest (n : nat) : bytes := rep n 129 ++ [n2b 128].
Fixpoint nestv (n : nat) : value :=
  match n with O => VArray [] | S n' => VArray [nestv n'] end.

Lemma nest_length n : length (nest n) = S n.
Proof. unfold nest, rep. rewrite app_length, repeat_length. cbn [length]. lia. Qed.

Lemma dehead_129 r : dehead (n2b 129 :: r) = Some (4, 1, Some 1, r)%N.
Proof. reflexivity. Qed.
Lemma dehead_128 r : dehead (n2b 128 :: r) = Some (4, 0, Some 0, r)%N.
Proof. reflexivity. Qed.

(* exactly 3 * (bytes consumed) - 1 steps, for every nesting depth (the budget
   is arbitrary here; [from_reader] caps it at 256) *)
Lemma nest_steps_tight : forall n k b s,
  de_c (S (S (n + n + k))) (S (n + b)) (nest n ++ s) = (Ok (nestv n, s), 3 * S n - 1).
Proof.
  induction n as [|n IH]; intros k b s.
  - cbn [nest rep repeat app Nat.add]. cbn [de_c]. rewrite dehead_128. cbn. reflexivity.
  - unfold nest, rep in *. cbn [repeat app Nat.add]. rewrite <- plus_n_Sm. cbn [Nat.add].
    cbn [de_c]. rewrite dehead_129.
    change (4 =? 0)%N with false; change (4 =? 1)%N with false; change (4 =? 2)%N with false;
    change (4 =? 3)%N with false; change (4 =? 4)%N with true. cbv iota.
    cbn [items_c]. change (1 =? 0)%N with false. cbv iota.
    rewrite IH. cbn [bind_c]. change (N.pred 1) with 0%N.
    cbn [items_c]. change (0 =? 0)%N with true. cbv iota.
    cbn [ret_c tick bind_c nestv]. f_equal. lia.
Qed.

(* the same for [from_reader], up to the recursion limit *)
Corollary from_reader_steps_tight : forall n, n < 256 ->
  from_reader_c (nest n) = (Ok (nestv n, []), 3 * length (nest n) - 1).
Proof.
  intros n Hn. pose proof (nest_steps_tight n 2 (255 - n) []) as H.
  rewrite app_nil_r in H. unfold from_reader_c, fuel_of. rewrite nest_length.
  replace (S n + S n) with (n + n + 2) by lia.
  replace RECURSION_LIMIT with (S (n + (255 - n))) by (unfold RECURSION_LIMIT; lia).
  exact H.
Qed.

(* Concrete runs of [from_reader_c] / [from_reader_d]:
   (input length, fuel, steps, whole input accepted, maximum frame depth) *)
Definition summary (l : bytes) : nat * nat * nat * bool * nat :=
  let x := from_reader_c l in
  let d := from_reader_d l in
  (length l, fuel_of l, snd x, match fst x with Ok (_, []) => true | _ => false end, snd d).

(* 200 nested arrays, 201 bytes: 602 = 3 * 201 - 1 steps (bound 3 * 201 + 1 = 604) *)
Example nest_200 : summary (nest 200) = (201, 404, 602, true, 201).
Proof. vm_compute. reflexivity. Qed.

(* the step count is NOT bounded by the fuel: 602 steps with fuel 404 *)
Example steps_exceed_fuel : fuel_of (nest 200) < snd (from_reader_c (nest 200)).
Proof. apply Nat.ltb_lt. vm_compute. reflexivity. Qed.

(* and 2 * length + 2 is not an upper bound *)
Example two_n_is_false : 2 * length (nest 200) + 2 < snd (from_reader_c (nest 200)).
Proof. apply Nat.ltb_lt. vm_compute. reflexivity. Qed.

(* exactly RECURSION_LIMIT frames are accepted, one more is refused, and the
   refusing run still obeys both bounds (513 <= 3 * 257 + 1, depth 256) *)
Example nest_255 : summary (nest 255) = (256, 514, 767, true, 256).
Proof. vm_compute. reflexivity. Qed.
Example nest_256 : summary (nest 256) = (257, 516, 513, false, 256).
Proof. vm_compute. reflexivity. Qed.

(* a failing run close to the general bound: 82 81 ... 81 80 with the second
   element missing, 202 bytes, 606 = 3 * 202 steps (bound 607) *)
Example nest_fail : summary (n2b 130 :: nest 200) = (202, 406, 606, false, 202).
Proof. vm_compute. reflexivity. Qed.

(* the empty input attains the additive constant: 1 = 3 * 0 + 1 *)
Example empty_input : summary [] = (0, 2, 1, false, 0).
Proof. vm_compute. reflexivity. Qed.

(* mixed input, 322 bytes: an indefinite array of 40 copies of
   a1 01 82 5f 40 40 ff f5  =  {1: [(_ h'', h''), true]} *)
Definition unit8 : bytes := map n2b [161; 1; 130; 95; 64; 64; 255; 245]%N.
Definition wide (n : nat) : bytes := n2b 159 :: concat (repeat unit8 n) ++ [n2b 255].
Example wide_40 : summary (wide 40) = (322, 646, 602, true, 3).
Proof. vm_compute. reflexivity. Qed.

(* an indefinite byte string of 300 empty segments: 5f 40 ... 40 ff *)
Example many_segments : summary (n2b 95 :: rep 300 64 ++ [n2b 255]) = (302, 606, 303, true, 0).
Proof. vm_compute. reflexivity. Qed.

(* a declared count of 2^64 - 1 with no content costs three steps *)
Example huge_count : summary (n2b 155 :: rep 8 255) = (9, 20, 3, false, 1).
Proof. vm_compute. reflexivity. Qed.

Print Assumptions segs_c_erase.
Print Assumptions de_c_erase.
Print Assumptions items_c_erase.
Print Assumptions entries_c_erase.
Print Assumptions segs_c_steps.
Print Assumptions segs_c_steps_ok.
Print Assumptions de_c_steps.
Print Assumptions de_c_steps_ok.
Print Assumptions items_c_steps.
Print Assumptions items_c_steps_ok.
Print Assumptions entries_c_steps.
Print Assumptions entries_c_steps_ok.
Print Assumptions de_c_steps_pos.
Print Assumptions from_reader_c_erase.
Print Assumptions from_reader_steps.
Print Assumptions from_reader_steps_ok.
Print Assumptions from_reader_c_not_out_of_fuel.
Print Assumptions from_reader_steps_any_fuel.
Print Assumptions de_d_erase.
Print Assumptions de_d_depth.
Print Assumptions from_reader_d_erase.
Print Assumptions from_reader_depth.
Print Assumptions nest_steps_tight.
Print Assumptions from_reader_steps_tight.
Print Assumptions nest_200.
Print Assumptions steps_exceed_fuel.
Print Assumptions wide_40.
