(* C07 / C11 for the mutually recursive types header / signature / protected:
   - PART A: every decoded header (signature, protected header) re-encodes, and decoding the
     re-encoding returns the same in-memory value, at every nesting budget;
   - PART B: every well-formed built header encodes, and decoding the encoding returns the value
     with the byte strings of its protected headers filled in (`assign_header`). *)
From Coq Require Import Lia ZifyBool ZifyN ZifyNat.
From Coset.Model Require Import Prelude Cbor Iana Label Msg.
From Coset.gen Require Import Generated.
From Coset.Spec Require Import IanaRef Accept.
From Coset.Proofs Require Import Head RoundTrip Loop IanaTables HeaderAccept.
From Coset.Proofs Require NoDupLabels Canon Retained NoPanic MsgAccept TypedRoundTrip.
Open Scope string_scope. Open Scope Z_scope. Open Scope list_scope.

Notation RA := (registered T_Algorithm).
Notation RH := (registered T_HeaderParameter).
Notation RC := (registered T_CoapContentFormat).
Notation All := Retained.All.
Notation non_std := (fun e : label * value => negb (std_header_label (fst e))).

(* ====================================================================== *)
(* 0. per-field shape conditions                                          *)
(* ====================================================================== *)
(* each typed field holds a value the decoder can produce for it *)
Definition alg_ok (o : option regp_label) : Prop :=
  match o with None => True | Some a => regp_from_value "Algorithm" (regp_to_value a) = Ok a end.
Definition crit_ok (c : list reg_label) : Prop :=
  Forall (fun r => reg_from_value T_HeaderParameter (reg_to_value r) = Ok r) c.
Definition ctype_ok (o : option reg_label) : Prop :=
  match o with None => True | Some c => ctype_parse (reg_to_value c) = Ok c end.
(* extra parameters: labels pairwise distinct, in the i64 range, none of them 1..7 *)
Definition rest_ok (r : list (label * value)) : Prop :=
  NoDup (map fst r) /\
  Forall (fun e => label_from_value (label_to_value (fst e)) = Ok (fst e) /\ std_header_label (fst e) = false) r.

Definition flat_wf (h : header) : Prop :=
  alg_ok (h_alg h) /\ crit_ok (h_crit h) /\ ctype_ok (h_ctype h) /\ iv_clash h = false /\ rest_ok (h_rest h).

(* ---------- explicit readings of the conditions ---------- *)
Lemma alg_ok_iff o : alg_ok o <->
  match o with
  | None => True
  | Some (PAssigned z) => in_i64 z = true /\ RA z = true
  | Some (PPrivate z) => in_i64 z = true /\ RA z = false /\ z < -65536
  | Some (PText _) => True
  end.
Proof.
  destruct o as [[z|z|t]|]; cbn [alg_ok regp_to_value regp_from_value]; try tauto.
  - unfold to_i64_res. destruct (in_i64 z); cbn [bind]; [|split; [discriminate|intros [? _]; discriminate]].
    change (table_of "Algorithm") with T_Algorithm.
    rewrite (is_private_iff "Algorithm") by (cbn; tauto).
    destruct (RA z); [split; [discriminate|intros (_ & ? & _); discriminate]|].
    destruct (Z.ltb_spec z (-65536)); split; try discriminate; try tauto; try lia.
  - unfold to_i64_res. destruct (in_i64 z); cbn [bind]; [|split; [discriminate|intros [? _]; discriminate]].
    change (table_of "Algorithm") with T_Algorithm.
    destruct (RA z); [tauto|].
    rewrite (is_private_iff "Algorithm") by (cbn; tauto).
    destruct (z <? -65536); split; try discriminate; intros [_ ?]; discriminate.
Qed.

Lemma reg_ok_iff T r : reg_from_value T (reg_to_value r) = Ok r <->
  match r with RAssigned z => in_i64 z = true /\ registered T z = true | RText _ => True end.
Proof.
  destruct r as [z|t]; cbn [reg_to_value reg_from_value]; [|tauto].
  unfold to_i64_res. destruct (in_i64 z); cbn [bind]; [|split; [discriminate|intros [? _]; discriminate]].
  destruct (registered T z); split; try discriminate; try tauto. intros [_ ?]; discriminate.
Qed.

Lemma ctype_ok_iff o : ctype_ok o <->
  match o with
  | None => True
  | Some (RAssigned z) => in_i64 z = true /\ RC z = true
  | Some (RText t) => check_content_type_text t = Ok tt
  end.
Proof.
  destruct o as [[z|t]|]; cbn [ctype_ok]; [| |tauto].
  - rewrite <- (reg_ok_iff T_CoapContentFormat (RAssigned z)). unfold ctype_parse.
    destruct (reg_from_value T_CoapContentFormat (reg_to_value (RAssigned z))) as [[z'|t']| | |] eqn:E;
      cbn [bind]; try (split; discriminate); try tauto.
    cbn [reg_to_value reg_from_value] in E. unfold to_i64_res in E.
    destruct (in_i64 z); cbn [bind] in E; [|discriminate]. destruct (RC z); discriminate.
  - unfold ctype_parse. cbn [reg_to_value reg_from_value bind].
    destruct (check_content_type_text t) as [[]| | |]; cbn [bind]; split; try discriminate; reflexivity.
Qed.

Lemma label_ok_iff l : label_from_value (label_to_value l) = Ok l <->
  match l with LInt z => in_i64 z = true | LText _ => True end.
Proof. destruct l as [z|t]; cbn [label_to_value label_from_value]; [|tauto].
  unfold to_i64_res. destruct (in_i64 z); cbn [bind]; split; try discriminate; reflexivity. Qed.

(* ====================================================================== *)
(* 1. list / lookup helpers                                               *)
(* ====================================================================== *)
Lemma key_labels_app a b :
  key_labels (a ++ b) =
  match key_labels a, key_labels b with Some x, Some y => Some (x ++ y) | _, _ => None end.
Proof. induction a as [|[k v] a IH]; cbn [app key_labels].
  - destruct (key_labels b); reflexivity.
  - rewrite IH. destruct (key_label k); [|reflexivity].
    destruct (key_labels a); [|reflexivity]. destruct (key_labels b); reflexivity. Qed.

Lemma key_label_to_value l : label_from_value (label_to_value l) = Ok l -> key_label (label_to_value l) = Some l.
Proof. intros H. rewrite key_label_from_value, H. reflexivity. Qed.

Lemma key_labels_rest r :
  Forall (fun e : label * value => label_from_value (label_to_value (fst e)) = Ok (fst e) /\ std_header_label (fst e) = false) r ->
  key_labels (map (fun e => (label_to_value (fst e), snd e)) r) = Some r.
Proof. induction 1 as [|[l x] r [Hl _] _ IH]; [reflexivity|]. cbn [map key_labels fst snd] in *.
  rewrite (key_label_to_value l Hl), IH. reflexivity. Qed.

Lemma key_label_inv k l : key_label k = Some l -> k = label_to_value l.
Proof. destruct k; cbn [key_label]; try discriminate.
  - destruct (is_i64 z); [|discriminate]. now intros [= <-].
  - now intros [= <-]. Qed.

Lemma key_labels_keys m : forall lm, key_labels m = Some lm -> map fst m = map label_to_value (map fst lm).
Proof. induction m as [|[k v] m IH]; intros lm; cbn [key_labels].
  - now intros [= <-].
  - destruct (key_label k) as [l|] eqn:K; [|discriminate].
    destruct (key_labels m) as [r|]; [|discriminate]. intros [= <-].
    cbn [map fst]. rewrite (IH r eq_refl), (key_label_inv k l K). reflexivity. Qed.

Lemma key_labels_snd m : forall lm, key_labels m = Some lm -> map snd lm = map snd m.
Proof. induction m as [|[k v] m IH]; intros lm; cbn [key_labels].
  - now intros [= <-].
  - destruct (key_label k) as [l|]; [|discriminate].
    destruct (key_labels m) as [r|]; [|discriminate]. intros [= <-].
    cbn [map snd]. now rewrite (IH r eq_refl). Qed.

Lemma seed_seen_key_labels m : forall lm, key_labels m = Some lm -> seed_seen m = Ok (map fst lm).
Proof. induction m as [|[k v] m IH]; intros lm; cbn [key_labels].
  - now intros [= <-].
  - rewrite NoDupLabels.seed_seen_cons, key_label_from_value.
    destruct (label_from_value k) as [l| | |]; cbn [to_opt]; try discriminate.
    destruct (key_labels m) as [r|]; [|discriminate]. intros [= <-].
    cbn [bind]. rewrite (IH r eq_refl). reflexivity. Qed.

Lemma find_app l a b :
  find l (a ++ b) = match find l a with Some v => Some v | None => find l b end.
Proof. induction a as [|[l' v] a IH]; cbn [app find]; [reflexivity|].
  destruct (label_eqb l l'); [reflexivity|exact IH]. Qed.

Lemma find_none_r l a b : find l b = None -> find l (a ++ b) = find l a.
Proof. intros H. rewrite find_app, H. destruct (find l a); reflexivity. Qed.
Lemma find_none_l l a b : find l a = None -> find l (a ++ b) = find l b.
Proof. intros H. now rewrite find_app, H. Qed.

Lemma find_In l lm v : find l lm = Some v -> In v (map snd lm).
Proof. induction lm as [|[l' x] r IH]; cbn [find map snd In]; [discriminate|].
  destruct (label_eqb l l'); [intros [= <-]; now left|intros H; right; now apply IH]. Qed.

Lemma find_nonstd l r : std_header_label l = true ->
  Forall (fun e : label * value => label_from_value (label_to_value (fst e)) = Ok (fst e) /\ std_header_label (fst e) = false) r ->
  find l r = None.
Proof. intros S. induction 1 as [|[l' x] r [_ N] _ IH]; [reflexivity|]. cbn [find fst] in *.
  destruct (label_eqb l l') eqn:E; [|exact IH]. apply label_eqb_eq in E. subst. congruence. Qed.

Lemma filter_nonstd_all r :
  Forall (fun e : label * value => label_from_value (label_to_value (fst e)) = Ok (fst e) /\ std_header_label (fst e) = false) r ->
  filter non_std r = r.
Proof. induction 1 as [|[l x] r [_ N] _ IH]; [reflexivity|]. cbn [filter fst] in *. rewrite N. cbn [negb]. now rewrite IH. Qed.

Lemma NoDup_map_inv' {A B} (f : A -> B) l : NoDup (map f l) -> NoDup l.
Proof. induction l as [|a l IH]; cbn [map]; intros H; [constructor|].
  inversion H as [|? ? NI ND]; subst. constructor; auto. intros I. apply NI. now apply in_map. Qed.

(* ====================================================================== *)
(* 2. the typed entries, as labels                                        *)
(* ====================================================================== *)
Definition typed_l (h : header) : list (label * value) :=
  (match h_alg h with Some a => [(LInt 1, regp_to_value a)] | None => [] end)
  ++ (if isnil (h_crit h) then [] else [(LInt 2, VArray (map reg_to_value (h_crit h)))])
  ++ (match h_ctype h with Some c => [(LInt 3, reg_to_value c)] | None => [] end)
  ++ (if isnil (h_kid h) then [] else [(LInt 4, VBytes (h_kid h))])
  ++ (if isnil (h_iv h) then [] else [(LInt 5, VBytes (h_iv h))])
  ++ (if isnil (h_piv h) then [] else [(LInt 6, VBytes (h_piv h))]).

Ltac typed_cases h :=
  unfold NoDupLabels.header_typed, typed_l, opt_entry, bytes_entry;
  destruct (h_alg h), (isnil (h_crit h)), (h_ctype h), (isnil (h_kid h)), (isnil (h_iv h)), (isnil (h_piv h));
  reflexivity.

Lemma typed_key_labels h : key_labels (NoDupLabels.header_typed h) = Some (typed_l h).
Proof. typed_cases h. Qed.

Lemma typed_find1 h : find (LInt 1) (typed_l h) = option_map regp_to_value (h_alg h).
Proof. typed_cases h. Qed.
Lemma typed_find2 h : find (LInt 2) (typed_l h) =
  if isnil (h_crit h) then None else Some (VArray (map reg_to_value (h_crit h))).
Proof. typed_cases h. Qed.
Lemma typed_find3 h : find (LInt 3) (typed_l h) = option_map reg_to_value (h_ctype h).
Proof. typed_cases h. Qed.
Lemma typed_find4 h : find (LInt 4) (typed_l h) = if isnil (h_kid h) then None else Some (VBytes (h_kid h)).
Proof. typed_cases h. Qed.
Lemma typed_find5 h : find (LInt 5) (typed_l h) = if isnil (h_iv h) then None else Some (VBytes (h_iv h)).
Proof. typed_cases h. Qed.
Lemma typed_find6 h : find (LInt 6) (typed_l h) = if isnil (h_piv h) then None else Some (VBytes (h_piv h)).
Proof. typed_cases h. Qed.
Lemma typed_find7 h : find (LInt 7) (typed_l h) = None.
Proof. typed_cases h. Qed.
Lemma typed_filter h : filter non_std (typed_l h) = [].
Proof. typed_cases h. Qed.
Lemma typed_std h : Forall (fun l => std_header_label l = true) (map fst (typed_l h)).
Proof. unfold typed_l.
  destruct (h_alg h), (isnil (h_crit h)), (h_ctype h), (isnil (h_kid h)), (isnil (h_iv h)), (isnil (h_piv h));
  cbn [app map fst]; repeat constructor. Qed.

(* ====================================================================== *)
(* 3. field by field: the spec reads back what the encoder wrote          *)
(* ====================================================================== *)
Lemma fld_alg a : alg_ok a ->
  field (option_map regp_to_value a) (fun x => option_map Some (alg_shape RA x)) None = Some a.
Proof. destruct a as [a|]; cbn [alg_ok option_map field]; [|reflexivity].
  intros H. rewrite <- regp_alg_shape, H. reflexivity. Qed.

Lemma all_some_reg T c : Forall (fun r => reg_from_value T (reg_to_value r) = Ok r) c ->
  all_some (map (reg_shape (registered T)) (map reg_to_value c)) = Some c.
Proof. induction 1 as [|r c Hr _ IH]; [reflexivity|]. cbn [map all_some].
  rewrite <- reg_reg_shape, Hr. cbn [to_opt]. now rewrite IH. Qed.

Lemma fld_crit c : crit_ok c ->
  field (if isnil c then None else Some (VArray (map reg_to_value c))) (crit_shape RH) [] = Some c.
Proof. intros H. destruct c as [|x r]; [reflexivity|]. cbn [isnil field].
  change (crit_shape RH (VArray (map reg_to_value (x :: r))))
    with (all_some (map (reg_shape RH) (map reg_to_value (x :: r)))).
  now apply all_some_reg. Qed.

Lemma fld_ctype o : ctype_ok o ->
  field (option_map reg_to_value o) (fun x => option_map Some (content_type_shape RC x)) None = Some o.
Proof. destruct o as [c|]; cbn [ctype_ok option_map field]; [|reflexivity].
  intros H. rewrite <- ctype_parse_shape, H. reflexivity. Qed.

Lemma fld_bytes b : field (if isnil b then None else Some (VBytes b)) nonempty_bstr [] = Some b.
Proof. destruct b; reflexivity. Qed.

(* ====================================================================== *)
(* 4. one level: typed entries + counter-signature entry + extras         *)
(* ====================================================================== *)
Definition c7_of (o7 : option value) : list (value * value) :=
  match o7 with Some x => [(VInt 7, x)] | None => [] end.
Definition l7_of (o7 : option value) : list (label * value) :=
  match o7 with Some x => [(LInt 7, x)] | None => [] end.

Section Core.
  Variable pp : bytes -> res header.
  Let sig_acc := fun x => to_opt (signature_from_value pp x).

  Lemma encode_core h o7 :
    flat_wf h ->
    field o7 (countersig_shape sig_acc) [] = Some (h_csigs h) ->
    let m2 := NoDupLabels.header_typed h ++ c7_of o7 in
    let m := m2 ++ map (fun e => (label_to_value (fst e), snd e)) (h_rest h) in
    (do seen <- seed_seen m2; do m' <- emit_rest (h_rest h) seen m2; Ok (VMap m')) = Ok (VMap m)
    /\ header_from_value pp (VMap m) = Ok h.
  Proof.
    intros (Ha & Hc & Ht & Hiv & Hnd & Hr) H7. cbv zeta.
    assert (K2 : key_labels (NoDupLabels.header_typed h ++ c7_of o7) = Some (typed_l h ++ l7_of o7)).
    { rewrite key_labels_app, typed_key_labels. destruct o7; reflexivity. }
    pose proof (seed_seen_key_labels _ _ K2) as S2.
    assert (STD : forall l, In l (map fst (typed_l h ++ l7_of o7)) -> std_header_label l = true).
    { intros l. rewrite map_app, in_app_iff. intros [I|I].
      - pose proof (typed_std h) as F. rewrite Forall_forall in F. now apply F.
      - destruct o7; cbn [l7_of map fst In] in I; [|destruct I]. destruct I as [<-|[]]. reflexivity. }
    assert (E : emit_rest (h_rest h) (map fst (typed_l h ++ l7_of o7)) (NoDupLabels.header_typed h ++ c7_of o7) =
                Ok ((NoDupLabels.header_typed h ++ c7_of o7) ++ map (fun e => (label_to_value (fst e), snd e)) (h_rest h))).
    { apply Canon.emit_rest_ok; [exact Hnd|]. intros l I I2. apply STD in I2.
      apply in_map_iff in I as (e & <- & Ie). rewrite Forall_forall in Hr. destruct (Hr e Ie) as [_ N]. congruence. }
    split.
    - rewrite S2. cbn [bind]. rewrite E. reflexivity.
    - apply header_from_value_accept_iff. rewrite header_spec_unfold.
      assert (K : key_labels ((NoDupLabels.header_typed h ++ c7_of o7) ++ map (fun e => (label_to_value (fst e), snd e)) (h_rest h))
                  = Some ((typed_l h ++ l7_of o7) ++ h_rest h)).
      { rewrite key_labels_app, K2, (key_labels_rest _ Hr). reflexivity. }
      rewrite K.
      assert (ND : NoDup (map fst ((typed_l h ++ l7_of o7) ++ h_rest h))).
      { apply (NoDup_map_inv' label_to_value). rewrite <- (key_labels_keys _ _ K).
        eapply NoDupLabels.emit_keys_nodup; [|exact S2|exact E].
        destruct o7 as [x|]; cbn [c7_of].
        - rewrite (NoDupLabels.header_typed_keys h true x). apply NoDupLabels.ent7_nodup.
        - rewrite (NoDupLabels.header_typed_keys h false VNull). apply NoDupLabels.ent7_nodup. }
      rewrite (proj2 (distinct_NoDup _) ND). cbn [negb].
      assert (RN : forall k, std_header_label (LInt k) = true -> find (LInt k) (h_rest h) = None).
      { intros k Sk. now apply find_nonstd. }
      assert (F1 : find (LInt 1) ((typed_l h ++ l7_of o7) ++ h_rest h) = option_map regp_to_value (h_alg h)).
      { rewrite find_none_r by (now apply RN). rewrite find_none_r by (destruct o7; reflexivity). apply typed_find1. }
      assert (F2 : find (LInt 2) ((typed_l h ++ l7_of o7) ++ h_rest h) =
                   if isnil (h_crit h) then None else Some (VArray (map reg_to_value (h_crit h)))).
      { rewrite find_none_r by (now apply RN). rewrite find_none_r by (destruct o7; reflexivity). apply typed_find2. }
      assert (F3 : find (LInt 3) ((typed_l h ++ l7_of o7) ++ h_rest h) = option_map reg_to_value (h_ctype h)).
      { rewrite find_none_r by (now apply RN). rewrite find_none_r by (destruct o7; reflexivity). apply typed_find3. }
      assert (F4 : find (LInt 4) ((typed_l h ++ l7_of o7) ++ h_rest h) =
                   if isnil (h_kid h) then None else Some (VBytes (h_kid h))).
      { rewrite find_none_r by (now apply RN). rewrite find_none_r by (destruct o7; reflexivity). apply typed_find4. }
      assert (F5 : find (LInt 5) ((typed_l h ++ l7_of o7) ++ h_rest h) =
                   if isnil (h_iv h) then None else Some (VBytes (h_iv h))).
      { rewrite find_none_r by (now apply RN). rewrite find_none_r by (destruct o7; reflexivity). apply typed_find5. }
      assert (F6 : find (LInt 6) ((typed_l h ++ l7_of o7) ++ h_rest h) =
                   if isnil (h_piv h) then None else Some (VBytes (h_piv h))).
      { rewrite find_none_r by (now apply RN). rewrite find_none_r by (destruct o7; reflexivity). apply typed_find6. }
      assert (F7 : find (LInt 7) ((typed_l h ++ l7_of o7) ++ h_rest h) = o7).
      { rewrite find_none_r by (now apply RN). rewrite find_none_l by apply typed_find7. destruct o7; reflexivity. }
      assert (FL : filter non_std ((typed_l h ++ l7_of o7) ++ h_rest h) = h_rest h).
      { rewrite !filter_app, typed_filter, (filter_nonstd_all _ Hr). destruct o7; reflexivity. }
      unfold header_spec_body. rewrite F1, F2, F3, F4, F5, F6, F7, FL.
      rewrite (fld_alg _ Ha), (fld_crit _ Hc), (fld_ctype _ Ht), !fld_bytes.
      fold sig_acc. rewrite H7.
      change (negb (isnil (h_iv h)) && negb (isnil (h_piv h))) with (iv_clash h). rewrite Hiv.
      destruct h; reflexivity.
  Qed.
End Core.

(* ====================================================================== *)
(* 5. decoded-consistent values                                           *)
(* ====================================================================== *)
Section DWF.
  Variable pp : bytes -> res header.

  (* the stored bytes parse, with this nested parser, to exactly this protected header *)
  Definition pdwf (p : protected) : Prop :=
    exists d, p_orig p = Some d /\ protected_from_bstr pp (VBytes d) = Ok p.

  Fixpoint dwf (h : header) {struct h} : Prop := flat_wf h /\ All sdwf (h_csigs h)
  with sdwf (s : signature) {struct s} : Prop := pdwf (s_prot s) /\ dwf (s_unprot s).

  Lemma dwf_eq h : dwf h = (flat_wf h /\ All sdwf (h_csigs h)). Proof. destruct h; reflexivity. Qed.
  Lemma sdwf_eq s : sdwf s = (pdwf (s_prot s) /\ dwf (s_unprot s)). Proof. destruct s; reflexivity. Qed.

  Let sig_acc := fun x => to_opt (signature_from_value pp x).

  Definition PH (h : header) : Prop :=
    dwf h -> exists v', header_to_value h = Ok v' /\ header_from_value pp v' = Ok h.
  Definition PS (s : signature) : Prop :=
    sdwf s -> exists d u,
      signature_to_value s = Ok (VArray [VBytes d; u; VBytes (s_sig s)]) /\
      signature_from_value pp (VArray [VBytes d; u; VBytes (s_sig s)]) = Ok s.

  Lemma PS_step p u sg : PH u -> PS (mkSignature p u sg).
  Proof.
    intros IHu. unfold PS. rewrite sdwf_eq. cbn [s_prot s_unprot s_sig]. intros [(d & O & P) Du].
    destruct (IHu Du) as (u' & Eu & Du').
    exists d, u'. split.
    - rewrite NoPanic.signature_to_value_eq. cbn [s_prot s_unprot s_sig].
      rewrite (Retained.protected_reencoded_verbatim p d O). cbn [bind]. rewrite Eu. reflexivity.
    - unfold signature_from_value, signature_from_value_with. rewrite arity_sig.
      cbn [length Nat.eqb negb try_as_bytes bind]. rewrite Du'. cbn [bind]. rewrite P. reflexivity.
  Qed.

  (* two or more counter-signatures: an array of arrays *)
  Lemma PS_list cs : Forall PS cs -> All sdwf cs ->
    exists svs, mapM signature_to_value cs = Ok svs /\ all_some (map sig_acc svs) = Some cs /\
                (forall s r, cs = s :: r -> exists a r', svs = VArray a :: r').
  Proof.
    induction 1 as [|s cs Hs _ IH]; intros A.
    - exists []. repeat split. discriminate.
    - destruct A as [As Ar]. destruct (Hs As) as (d & u & E & D). destruct (IH Ar) as (svs & M & S & _).
      exists (VArray [VBytes d; u; VBytes (s_sig s)] :: svs). repeat split.
      + cbn [mapM]. rewrite E. cbn [bind]. rewrite M. reflexivity.
      + cbn [map all_some]. unfold sig_acc at 1. rewrite D. cbn [to_opt]. rewrite S. reflexivity.
      + intros; eauto.
  Qed.

  Lemma PH_step a c ct k iv piv cs rest : Forall PS cs -> PH (mkHeader a c ct k iv piv cs rest).
  Proof.
    intros F. unfold PH. rewrite dwf_eq. set (h := mkHeader a c ct k iv piv cs rest).
    change (h_csigs h) with cs. intros [W A].
    assert (X : exists o7, field o7 (countersig_shape sig_acc) [] = Some cs /\
                (match cs with
                 | [] => Ok (NoDupLabels.header_typed h)
                 | [s] => do sv <- signature_to_value s; Ok (NoDupLabels.header_typed h ++ [(VInt 7, sv)])
                 | s :: s0 :: l0 => do svs <- mapM signature_to_value (s :: s0 :: l0);
                                    Ok (NoDupLabels.header_typed h ++ [(VInt 7, VArray svs)])
                 end) = Ok (NoDupLabels.header_typed h ++ c7_of o7)).
    { destruct cs as [|s [|s' r]].
      - exists None. split; [reflexivity|]. cbn [c7_of]. now rewrite app_nil_r.
      - inversion F as [|? ? Hs _]; subst. destruct A as [As _].
        destruct (Hs As) as (d & u & E & D).
        exists (Some (VArray [VBytes d; u; VBytes (s_sig s)])). split.
        + cbn [field countersig_shape]. unfold sig_acc. rewrite D. reflexivity.
        + rewrite E. reflexivity.
      - destruct (PS_list _ F A) as (svs & M & S & Sh).
        destruct (Sh _ _ eq_refl) as (a0 & r' & ->).
        exists (Some (VArray (VArray a0 :: r'))). split.
        + cbn [field countersig_shape]. exact S.
        + rewrite M. reflexivity. }
    destruct X as (o7 & H7 & E2).
    destruct (encode_core pp h o7 W H7) as [Enc Dec]. cbv zeta in Enc, Dec.
    eexists. split; [|exact Dec].
    rewrite NoDupLabels.header_to_value_eq. change (h_csigs h) with cs. rewrite E2. cbn [bind]. exact Enc.
  Qed.

  Lemma reencode_all : (forall h, PH h) /\ (forall s, PS s) /\ (forall p : protected, True).
  Proof. apply NoPanic.header_mutind.
    - intros. now apply PH_step.
    - intros p u sg _ Hu. now apply PS_step.
    - trivial. Qed.

  (* (ii) consistent values encode, and the encoding decodes back to them *)
  Theorem dwf_reencodes h : dwf h ->
    exists v', header_to_value h = Ok v' /\ header_from_value pp v' = Ok h.
  Proof. apply (proj1 reencode_all). Qed.

  Theorem sdwf_reencodes s : sdwf s ->
    exists v', signature_to_value s = Ok v' /\ signature_from_value pp v' = Ok s.
  Proof. intros H. destruct (proj1 (proj2 reencode_all) s H) as (d & u & E & D). eauto. Qed.
End DWF.

(* ====================================================================== *)
(* 6. (i) everything the decoder returns is consistent                    *)
(* ====================================================================== *)
Lemma regp_rt reg x a : regp_from_value reg x = Ok a -> regp_from_value reg (regp_to_value a) = Ok a.
Proof. destruct x; try discriminate; cbn [regp_from_value].
  - unfold to_i64_res. destruct (in_i64 z) eqn:I; cbn [bind]; [|discriminate].
    destruct (registered (table_of reg) z) eqn:R.
    + intros [= <-]. cbn [regp_to_value regp_from_value]. unfold to_i64_res. rewrite I. cbn [bind]. now rewrite R.
    + destruct (is_private reg z) eqn:P; [|discriminate]. intros [= <-].
      cbn [regp_to_value regp_from_value]. unfold to_i64_res. rewrite I. cbn [bind]. now rewrite R, P.
  - intros [= <-]. reflexivity. Qed.

Lemma reg_rt T x r : reg_from_value T x = Ok r -> reg_from_value T (reg_to_value r) = Ok r.
Proof. destruct x; try discriminate; cbn [reg_from_value].
  - unfold to_i64_res. destruct (in_i64 z) eqn:I; cbn [bind]; [|discriminate].
    destruct (registered T z) eqn:R; [|discriminate]. intros [= <-].
    cbn [reg_to_value reg_from_value]. unfold to_i64_res. rewrite I. cbn [bind]. now rewrite R.
  - intros [= <-]. reflexivity. Qed.

Lemma ctype_rt x c : ctype_parse x = Ok c -> ctype_parse (reg_to_value c) = Ok c.
Proof. unfold ctype_parse.
  destruct (reg_from_value T_CoapContentFormat x) as [[z|t]| | |] eqn:E; cbn [bind]; try discriminate.
  - intros [= <-]. rewrite (reg_rt _ _ _ E). reflexivity.
  - destruct (check_content_type_text t) as [[]| | |] eqn:C; cbn [bind]; try discriminate. intros [= <-].
    cbn [reg_to_value reg_from_value bind]. now rewrite C. Qed.

Lemma label_rt k l : label_from_value k = Ok l -> label_from_value (label_to_value l) = Ok l.
Proof. destruct k; try discriminate; cbn [label_from_value].
  - unfold to_i64_res. destruct (in_i64 z) eqn:I; cbn [bind]; [|discriminate]. intros [= <-].
    cbn [label_to_value label_from_value]. unfold to_i64_res. now rewrite I.
  - intros [= <-]. reflexivity. Qed.

Lemma mapM_reg_rt T a : forall c, mapM (reg_from_value T) a = Ok c ->
  Forall (fun r => reg_from_value T (reg_to_value r) = Ok r) c.
Proof. induction a as [|x a IH]; intros c; cbn [mapM].
  - intros [= <-]. constructor.
  - destruct (reg_from_value T x) as [r| | |] eqn:E; cbn [bind]; try discriminate.
    destruct (mapM (reg_from_value T) a) as [rs| | |]; cbn [bind]; try discriminate.
    intros [= <-]. constructor; [eapply reg_rt; eassumption|now apply IH]. Qed.

Lemma key_labels_rt m : forall lm, key_labels m = Some lm ->
  forall l, In l (map fst lm) -> label_from_value (label_to_value l) = Ok l.
Proof. induction m as [|[k v] m IH]; intros lm; cbn [key_labels].
  - intros [= <-] l [].
  - destruct (key_label k) as [l0|] eqn:K; [|discriminate].
    destruct (key_labels m) as [r|]; [|discriminate]. intros [= <-] l [<-|I].
    + rewrite key_label_from_value in K. apply to_opt_ok in K. eapply label_rt; eassumption.
    + eapply IH; [reflexivity|exact I]. Qed.

Lemma NoDup_filter_fst {A B} (f : A * B -> bool) l : NoDup (map fst l) -> NoDup (map fst (filter f l)).
Proof. induction l as [|x l IH]; cbn [map filter]; intros H; [constructor|].
  inversion H as [|? ? NI ND]; subst. destruct (f x); cbn [map]; auto.
  constructor; auto. intros I. apply NI. apply in_map_iff in I as (y & E & Iy).
  apply filter_In in Iy as [Iy _]. apply in_map_iff. eauto. Qed.

Lemma spec_body_inv sig_acc lm h : NoDup (map fst lm) ->
  (forall l, In l (map fst lm) -> label_from_value (label_to_value l) = Ok l) ->
  header_spec_body RA RH RC sig_acc lm = Some h ->
  flat_wf h /\ field (find (LInt 7) lm) (countersig_shape sig_acc) [] = Some (h_csigs h).
Proof.
  intros ND LR. unfold header_spec_body.
  destruct (field (find (LInt 1) lm) _ None) as [a|] eqn:E1; [|discriminate].
  destruct (field (find (LInt 2) lm) (crit_shape RH) []) as [c|] eqn:E2; [|discriminate].
  destruct (field (find (LInt 3) lm) _ None) as [ct|] eqn:E3; [|discriminate].
  destruct (field (find (LInt 4) lm) nonempty_bstr []) as [kid|] eqn:E4; [|discriminate].
  destruct (field (find (LInt 5) lm) nonempty_bstr []) as [iv|] eqn:E5; [|discriminate].
  destruct (field (find (LInt 6) lm) nonempty_bstr []) as [piv|] eqn:E6; [|discriminate].
  destruct (field (find (LInt 7) lm) (countersig_shape sig_acc) []) as [cs|] eqn:E7; [|discriminate].
  destruct (negb (isnil iv) && negb (isnil piv)) eqn:C; [discriminate|]. intros [= <-].
  split; [|reflexivity]. unfold flat_wf. cbn [h_alg h_crit h_ctype h_rest]. repeat split.
  - destruct (find (LInt 1) lm) as [x|]; cbn [field] in E1; [|injection E1 as <-; exact I].
    rewrite <- regp_alg_shape in E1. destruct (regp_from_value "Algorithm" x) as [a0| | |] eqn:R; try discriminate.
    cbn [to_opt option_map] in E1. injection E1 as <-. cbn [alg_ok]. eapply regp_rt; eassumption.
  - destruct (find (LInt 2) lm) as [x|]; cbn [field] in E2; [|injection E2 as <-; constructor].
    rewrite <- crit_parse_shape in E2. apply to_opt_ok in E2.
    destruct x; try discriminate. cbn [crit_parse] in E2. destruct (isnil l); [discriminate|].
    eapply mapM_reg_rt; eassumption.
  - destruct (find (LInt 3) lm) as [x|]; cbn [field] in E3; [|injection E3 as <-; exact I].
    rewrite <- ctype_parse_shape in E3. destruct (ctype_parse x) as [c0| | |] eqn:R; try discriminate.
    cbn [to_opt option_map] in E3. injection E3 as <-. cbn [ctype_ok]. eapply ctype_rt; eassumption.
  - exact C.
  - now apply NoDup_filter_fst.
  - apply Forall_forall. intros e Ie. apply filter_In in Ie as [Ie N]. split.
    + apply LR. now apply in_map.
    + now apply negb_true_iff in N.
Qed.

Section Decoded.
  Variable pp : bytes -> res header.
  Let hfv := header_from_value pp.
  Let sfv := signature_from_value_with pp hfv.

  Lemma signature_decoded_dwf x0 x1 x2 a s :
    (forall h, hfv x1 = Ok h -> dwf pp h) ->
    sfv (VArray (x0 :: x1 :: x2 :: a)) = Ok s -> sdwf pp s.
  Proof.
    intros Hu. unfold sfv, signature_from_value_with. destruct (negb _); [discriminate|].
    destruct (try_as_bytes x2) as [sg| | |]; cbn [bind]; try discriminate.
    destruct (hfv x1) as [u| | |] eqn:U; cbn [bind]; try discriminate.
    destruct (protected_from_bstr pp x0) as [p| | |] eqn:P; cbn [bind]; try discriminate.
    intros [= <-]. rewrite sdwf_eq. cbn [s_prot s_unprot]. split; [|now apply Hu].
    destruct (Retained.protected_retained pp x0 p P) as (d & -> & O & _). exists d. auto.
  Qed.

  Definition DS (v : value) : Prop :=
    (forall h, hfv v = Ok h -> dwf pp h) /\
    (forall s, sfv v = Ok s -> sdwf pp s) /\
    (forall l ss, v = VArray l -> mapM sfv l = Ok ss -> All (sdwf pp) ss).

  Lemma DS_all : forall v, DS v.
  Proof.
    induction v as [z|b|x|t|b| |t v IH|l IH|m IH] using value_ind';
      try (split; [discriminate|split; [discriminate|discriminate]]).
    - (* array *)
      split; [discriminate|]. split.
      + intros s H. destruct l as [|x0 [|x1 [|x2 a]]].
        1-3: unfold sfv, signature_from_value_with in H; rewrite arity_sig in H; discriminate H.
        eapply signature_decoded_dwf; [|exact H].
        inversion IH as [|? ? _ IH1]; subst. inversion IH1 as [|? ? [I1 _] _]; subst. exact I1.
      + intros l' ss [= <-]. apply Retained.mapM_all_ok. eapply Forall_impl; [|exact IH].
        intros a (_ & Ha & _). exact Ha.
    - (* map *)
      split; [|split; discriminate].
      intros h H. unfold hfv in H. apply header_from_value_accept_iff in H.
      rewrite header_spec_unfold in H.
      destruct (key_labels m) as [lm|] eqn:K; [|discriminate].
      destruct (distinct (map fst lm)) eqn:D; cbn [negb] in H; [|discriminate].
      apply distinct_NoDup in D.
      destruct (spec_body_inv _ lm h D (key_labels_rt m lm K) H) as [W H7].
      rewrite dwf_eq. split; [exact W|].
      destruct (find (LInt 7) lm) as [x|] eqn:F7; cbn [field] in H7; [|injection H7 as <-; exact I].
      apply find_In in F7. rewrite (key_labels_snd m lm K) in F7.
      apply in_map_iff in F7 as ([k x'] & E & Ikx). cbn [snd] in E. subst x'.
      rewrite Forall_forall in IH. destruct (IH _ Ikx) as [_ (_ & Hs & Hm)]. cbn [snd] in Hs, Hm.
      destruct x as [| | | | | | |sl|]; try discriminate.
      destruct sl as [|y r]; [discriminate|]. destruct y; try discriminate.
      * cbn [countersig_shape] in H7.
        destruct (signature_from_value pp (VArray (VBytes b :: r))) as [s| | |] eqn:S; cbn [to_opt] in H7; try discriminate.
        injection H7 as <-. cbn [Retained.All]. split; [|exact I]. apply Hs. exact S.
      * cbn [countersig_shape] in H7.
        rewrite <- (mapM_all_some (signature_from_value pp)) in H7. apply to_opt_ok in H7.
        eapply Hm; [reflexivity|exact H7].
  Qed.

  Theorem header_decoded_dwf v h : header_from_value pp v = Ok h -> dwf pp h.
  Proof. apply (DS_all v). Qed.
  Theorem signature_decoded_sdwf v s : signature_from_value pp v = Ok s -> sdwf pp s.
  Proof. apply (DS_all v). Qed.
End Decoded.

(* ====================================================================== *)
(* 7. PART A: decode -> encode -> decode is a fixed point                 *)
(* ====================================================================== *)
(* for any nested parser ... *)
Theorem header_fixed_point_gen : forall pp v h, header_from_value pp v = Ok h ->
  exists v', header_to_value h = Ok v' /\ header_from_value pp v' = Ok h.
Proof. intros pp v h H. apply dwf_reencodes. eapply header_decoded_dwf; eassumption. Qed.

Theorem signature_fixed_point_gen : forall pp v s, signature_from_value pp v = Ok s ->
  exists v', signature_to_value s = Ok v' /\ signature_from_value pp v' = Ok s.
Proof. intros pp v s H. apply sdwf_reencodes. eapply signature_decoded_sdwf; eassumption. Qed.

(* ... in particular at every nesting budget *)
Theorem header_decode_encode_fixed_point : forall n v h, header_at n v = Ok h ->
  exists v', header_to_value h = Ok v' /\ header_at n v' = Ok h.
Proof. intros n v h. rewrite Retained.header_at_eq. intros H.
  destruct (header_fixed_point_gen _ _ _ H) as (v' & E & D). exists v'. now rewrite Retained.header_at_eq. Qed.

Theorem signature_decode_encode_fixed_point : forall n v s,
  signature_from_value (parse_prot_at n) v = Ok s ->
  exists v', signature_to_value s = Ok v' /\ signature_from_value (parse_prot_at n) v' = Ok s.
Proof. intros n. apply signature_fixed_point_gen. Qed.

Theorem protected_decode_encode_fixed_point : forall n v p,
  protected_from_bstr (parse_prot_at n) v = Ok p ->
  protected_cbor_bstr p = Ok v /\ protected_from_bstr (parse_prot_at n) v = Ok p.
Proof. intros n v p H. destruct (Retained.protected_retained _ _ _ H) as (d & -> & _ & E). auto. Qed.

(* the public entry points *)
Corollary Header_decode_encode_fixed_point : forall v h, Header_from_value v = Ok h ->
  exists v', Header_to_value h = Ok v' /\ Header_from_value v' = Ok h.
Proof. apply header_decode_encode_fixed_point. Qed.
Corollary CoseSignature_decode_encode_fixed_point : forall v s, CoseSignature_from_value v = Ok s ->
  exists v', CoseSignature_to_value s = Ok v' /\ CoseSignature_from_value v' = Ok s.
Proof. apply signature_decode_encode_fixed_point. Qed.
Corollary ProtectedHeader_decode_encode_fixed_point : forall v p, ProtectedHeader_from_cbor_bstr v = Ok p ->
  protected_cbor_bstr p = Ok v /\ ProtectedHeader_from_cbor_bstr v = Ok p.
Proof. apply protected_decode_encode_fixed_point. Qed.

(* ====================================================================== *)
(* 8. PART B: built values                                                *)
(* ====================================================================== *)
(* headers without counter-signatures *)
Theorem flat_header_encode_decode : forall n h, h_csigs h = [] -> flat_wf h ->
  exists v, header_to_value h = Ok v /\ header_at n v = Ok h.
Proof. intros n h C W.
  destruct (dwf_reencodes (parse_prot_at n) h) as (v & E & D).
  { rewrite dwf_eq, C. split; [exact W|exact I]. }
  exists v. now rewrite Retained.header_at_eq. Qed.

(* the byte strings that encoding assigns to the protected headers that have none yet *)
Definition assigned_bytes (h : header) : bytes :=
  if header_is_empty h then [] else match header_to_value h with Ok v => ser v | _ => [] end.

Fixpoint assign_header (h : header) {struct h} : header :=
  match h with
  | mkHeader a c ct k iv piv cs rest => mkHeader a c ct k iv piv (map assign_sig cs) rest
  end
with assign_sig (s : signature) {struct s} : signature :=
  match s with
  | mkSignature p u sg => mkSignature (assign_prot p) (assign_header u) sg
  end
with assign_prot (p : protected) {struct p} : protected :=
  match p with
  | mkProtected (Some d) h => mkProtected (Some d) h
  | mkProtected None h => mkProtected (Some (assigned_bytes h)) (assign_header h)
  end.

(* well-formed built values, for nesting budget n: per-field shapes everywhere; a protected header
   that already carries bytes is consistent with them; one that does not is empty, or there is
   budget left for it, it is well formed one level down, and its encoding is in the normal form /
   nesting range that the byte-level reader accepts *)
Fixpoint bwf (n : nat) (h : header) {struct h} : Prop := flat_wf h /\ All (sbwf n) (h_csigs h)
with sbwf (n : nat) (s : signature) {struct s} : Prop := pbwf n (s_prot s) /\ bwf n (s_unprot s)
with pbwf (n : nat) (p : protected) {struct p} : Prop :=
  match p_orig p with
  | Some d => protected_from_bstr (parse_prot_at n) (VBytes d) = Ok p
  | None =>
    header_is_empty (p_hdr p) = true \/
    match n with
    | O => False
    | S n' => bwf n' (p_hdr p) /\
              forall v', header_to_value (p_hdr p) = Ok v' -> value_nf v' = true /\ (depth v' <= 256)%nat
    end
  end.

Lemma bwf_eq n h : bwf n h = (flat_wf h /\ All (sbwf n) (h_csigs h)). Proof. destruct h; reflexivity. Qed.
Lemma sbwf_eq n s : sbwf n s = (pbwf n (s_prot s) /\ bwf n (s_unprot s)). Proof. destruct s; reflexivity. Qed.
Lemma pbwf_eq n p : pbwf n p =
  match p_orig p with
  | Some d => protected_from_bstr (parse_prot_at n) (VBytes d) = Ok p
  | None =>
    header_is_empty (p_hdr p) = true \/
    match n with
    | O => False
    | S n' => bwf n' (p_hdr p) /\
              forall v', header_to_value (p_hdr p) = Ok v' -> value_nf v' = true /\ (depth v' <= 256)%nat
    end
  end.
Proof. destruct p; reflexivity. Qed.

Lemma header_is_empty_default h : header_is_empty h = true -> h = header_default.
Proof. destruct h as [a c ct k iv piv cs rest]. unfold header_is_empty.
  cbn [h_alg h_crit h_ctype h_kid h_iv h_piv h_csigs h_rest].
  destruct a, c, ct, k, iv, piv, cs, rest; cbn; try discriminate. reflexivity. Qed.

Lemma ser_nonempty v : isnil (ser v) = false.
Proof. destruct v as [z|b|x|t|[|]| |t v|l|m]; cbn [ser]; try reflexivity.
  - destruct (0 <=? z).
    + destruct (head_first 0%N (Z.to_N z) eq_refl) as (b & r & -> & _). reflexivity.
    + destruct (head_first 1%N (Z.to_N (-1 - z)) eq_refl) as (b & r & -> & _). reflexivity.
  - destruct (head_first 2%N (N.of_nat (length b)) eq_refl) as (b0 & r & -> & _). reflexivity.
  - unfold ser_float. repeat match goal with |- context [if ?c then _ else _] => destruct c end; reflexivity.
  - destruct (head_first 3%N (N.of_nat (length t)) eq_refl) as (b0 & r & -> & _). reflexivity.
  - destruct (head_first 6%N t eq_refl) as (b0 & r & -> & _). reflexivity.
  - destruct (head_first 4%N (N.of_nat (length l)) eq_refl) as (b0 & r & -> & _). reflexivity.
  - destruct (head_first 5%N (N.of_nat (length m)) eq_refl) as (b0 & r & -> & _). reflexivity.
Qed.

(* the invariant: assigning gives a decoded-consistent value with the same encoding *)
Definition BH (h : header) : Prop := forall n, bwf n h ->
  dwf (parse_prot_at n) (assign_header h) /\ header_to_value (assign_header h) = header_to_value h.
Definition BS (s : signature) : Prop := forall n, sbwf n s ->
  sdwf (parse_prot_at n) (assign_sig s) /\ signature_to_value (assign_sig s) = signature_to_value s.
Definition BP (p : protected) : Prop := forall n, pbwf n p ->
  pdwf (parse_prot_at n) (assign_prot p) /\ protected_cbor_bstr (assign_prot p) = protected_cbor_bstr p.

Lemma BP_step o h : BH h -> BP (mkProtected o h).
Proof.
  intros IH n. rewrite pbwf_eq. cbn [p_orig p_hdr]. destruct o as [d|].
  - intros P. cbn [assign_prot]. split; [|reflexivity]. exists d. auto.
  - intros W. cbn [assign_prot]. unfold assigned_bytes.
    destruct (header_is_empty h) eqn:Em.
    + apply header_is_empty_default in Em. subst h. split; [|reflexivity].
      exists []. split; reflexivity.
    + destruct W as [W|W]; [discriminate|]. destruct n as [|n']; [destruct W|]. destruct W as [W NF].
      destruct (IH n' W) as [D E].
      destruct (dwf_reencodes _ _ D) as (v' & Ev & Dv). rewrite E in Ev.
      destruct (NF v' Ev) as [Nf Dp]. rewrite Ev. split.
      * exists (ser v'). split; [reflexivity|]. unfold protected_from_bstr. cbn [try_as_bytes bind].
        rewrite ser_nonempty. cbn [parse_prot_at]. rewrite (TypedRoundTrip.read_back v' Nf Dp). cbn [bind].
        rewrite Retained.header_at_eq, Dv. reflexivity.
      * rewrite !NoPanic.protected_cbor_bstr_eq. cbn [p_orig p_hdr]. rewrite Em, Ev. reflexivity.
Qed.

Lemma BS_step p u sg : BP p -> BH u -> BS (mkSignature p u sg).
Proof.
  intros Hp Hu n. rewrite sbwf_eq. cbn [s_prot s_unprot]. intros [Wp Wu].
  destruct (Hp n Wp) as [Dp Ep]. destruct (Hu n Wu) as [Du Eu].
  cbn [assign_sig]. split.
  - rewrite sdwf_eq. cbn [s_prot s_unprot]. auto.
  - rewrite !NoPanic.signature_to_value_eq. cbn [s_prot s_unprot s_sig]. now rewrite Ep, Eu.
Qed.

Lemma BS_list cs : Forall BS cs -> forall n, All (sbwf n) cs ->
  All (sdwf (parse_prot_at n)) (map assign_sig cs) /\
  Forall2 (fun s' s => signature_to_value s' = signature_to_value s) (map assign_sig cs) cs.
Proof. induction 1 as [|s cs Hs _ IH]; intros n A; cbn [map Retained.All].
  - split; [exact I|constructor].
  - destruct A as [As Ar]. destruct (Hs n As) as [Ds Es]. destruct (IH n Ar) as [Dr Er].
    repeat split; auto. Qed.

Lemma mapM_Forall2 {A B} (f : A -> res B) l l' :
  Forall2 (fun x y => f x = f y) l l' -> mapM f l = mapM f l'.
Proof. induction 1 as [|x y l l' E _ IH]; [reflexivity|]. cbn [mapM]. now rewrite E, IH. Qed.

Lemma BH_step a c ct k iv piv cs rest : Forall BS cs -> BH (mkHeader a c ct k iv piv cs rest).
Proof.
  intros F n. rewrite bwf_eq. cbn [h_csigs]. intros [W A].
  destruct (BS_list cs F n A) as [D E]. cbn [assign_header]. split.
  - rewrite dwf_eq. cbn [h_csigs]. split; [exact W|exact D].
  - rewrite !NoDupLabels.header_to_value_eq. cbn [h_csigs h_rest].
    change (NoDupLabels.header_typed (mkHeader a c ct k iv piv (map assign_sig cs) rest))
      with (NoDupLabels.header_typed (mkHeader a c ct k iv piv cs rest)).
    pose proof (mapM_Forall2 signature_to_value _ _ E) as M.
    destruct cs as [|s [|s' r]]; cbn [map] in *; [reflexivity| |].
    + inversion E; subst. match goal with H : signature_to_value _ = signature_to_value _ |- _ => rewrite H end. reflexivity.
    + rewrite M. reflexivity.
Qed.

Lemma assign_all : (forall h, BH h) /\ (forall s, BS s) /\ (forall p, BP p).
Proof. apply NoPanic.header_mutind.
  - intros. now apply BH_step.
  - intros. now apply BS_step.
  - intros. now apply BP_step. Qed.

Theorem header_encode_decode : forall n h, bwf n h ->
  exists v, header_to_value h = Ok v /\ header_at n v = Ok (assign_header h).
Proof. intros n h W. destruct (proj1 assign_all h n W) as [D E].
  destruct (dwf_reencodes _ _ D) as (v & Ev & Dv). exists v. split; [congruence|].
  now rewrite Retained.header_at_eq. Qed.

Theorem signature_encode_decode : forall n s, sbwf n s ->
  exists v, signature_to_value s = Ok v /\ signature_from_value (parse_prot_at n) v = Ok (assign_sig s).
Proof. intros n s W. destruct (proj1 (proj2 assign_all) s n W) as [D E].
  destruct (sdwf_reencodes _ _ D) as (v & Ev & Dv). exists v. split; [congruence|exact Dv]. Qed.

Theorem protected_encode_decode : forall n p, pbwf n p ->
  exists d, protected_cbor_bstr p = Ok (VBytes d) /\
            protected_from_bstr (parse_prot_at n) (VBytes d) = Ok (assign_prot p).
Proof. intros n p W. destruct (proj2 (proj2 assign_all) p n W) as [(d & O & P) E].
  exists d. split; [|exact P]. rewrite <- E. now apply Retained.protected_reencoded_verbatim. Qed.

(* decoded values are well-formed built values that assigning leaves unchanged: PART B covers PART A *)
Lemma decoded_is_built n :
  (forall h, dwf (parse_prot_at n) h -> bwf n h /\ assign_header h = h) /\
  (forall s, sdwf (parse_prot_at n) s -> sbwf n s /\ assign_sig s = s) /\
  (forall p : protected, True).
Proof. apply NoPanic.header_mutind.
  - intros a c ct k iv piv cs rest F. rewrite dwf_eq, bwf_eq. cbn [h_csigs assign_header]. intros [W A].
    assert (X : All (sbwf n) cs /\ map assign_sig cs = cs).
    { clear W. induction F as [|s cs Hs _ IH]; [split; [exact I|reflexivity]|].
      destruct A as [As Ar]. destruct (Hs As) as [Ws Es]. destruct (IH Ar) as [Wr Er].
      cbn [map Retained.All]. rewrite Es, Er. auto. }
    destruct X as [X1 X2]. rewrite X2. auto.
  - intros p u sg _ Hu. rewrite sdwf_eq, sbwf_eq. cbn [s_prot s_unprot assign_sig]. intros [(d & O & P) Du].
    destruct (Hu Du) as [Wu Eu]. rewrite Eu. destruct p as [o h0]. cbn [p_orig] in O. subst o.
    rewrite pbwf_eq. cbn [p_orig assign_prot]. auto.
  - trivial. Qed.

Corollary decoded_header_is_built : forall n v h, header_at n v = Ok h -> bwf n h /\ assign_header h = h.
Proof. intros n v h. rewrite Retained.header_at_eq. intros H.
  apply (proj1 (decoded_is_built n)). eapply header_decoded_dwf; eassumption. Qed.

(* non-vacuity: a built header with an extra parameter and a counter-signature whose protected
   header (alg = ES256) has no bytes yet *)
Example bwf_example :
  let inner := mkHeader (Some (PAssigned (-7))) [] None [] [] [] [] [] in
  let s := mkSignature (mkProtected None inner) (mkHeader None [] None [x31] [] [] [] []) [x01; x02] in
  let h := mkHeader None [RAssigned 4] (Some (RText [x61; x2f; x62])) [] [x09] [] [s] [(LInt 100, VInt 1); (LText [x7a], VNull)] in
  bwf 1 h /\ assign_header h <> h /\
  exists v, header_to_value h = Ok v /\ header_at 1 v = Ok (assign_header h).
Proof.
  cbv zeta.
  match goal with |- bwf 1 ?h /\ _ => assert (W : bwf 1 h) end.
  { assert (FW : forall h0, alg_ok (h_alg h0) -> crit_ok (h_crit h0) -> ctype_ok (h_ctype h0) ->
                  iv_clash h0 = false -> rest_ok (h_rest h0) -> flat_wf h0) by (unfold flat_wf; auto).
    rewrite bwf_eq. split; [|split; [|exact I]].
    - apply FW; cbn [h_alg h_crit h_ctype h_rest].
      + exact I.
      + constructor; [reflexivity|constructor].
      + reflexivity.
      + reflexivity.
      + split.
        * cbn [map fst]. constructor; [cbn [In]; intuition discriminate|]. constructor; [intros []|constructor].
        * constructor; [split; reflexivity|]. constructor; [split; reflexivity|constructor].
    - rewrite sbwf_eq. cbn [s_prot s_unprot]. split.
      + rewrite pbwf_eq. cbn [p_orig p_hdr]. right. split.
        * rewrite bwf_eq. split; [|exact I]. apply FW; cbn [h_alg h_crit h_ctype h_rest].
          -- reflexivity.
          -- constructor.
          -- exact I.
          -- reflexivity.
          -- split; constructor.
        * intros v' E. vm_compute in E. injection E as <-. split; [vm_compute; reflexivity|cbn; lia].
      + rewrite bwf_eq. split; [|exact I]. apply FW; cbn [h_alg h_crit h_ctype h_rest].
        * exact I.
        * constructor.
        * exact I.
        * reflexivity.
        * split; constructor. }
  split; [exact W|]. split; [discriminate|]. now apply header_encode_decode.
Qed.

Print Assumptions header_decode_encode_fixed_point.
Print Assumptions decoded_header_is_built.
Print Assumptions bwf_example.
Print Assumptions signature_decode_encode_fixed_point.
Print Assumptions protected_decode_encode_fixed_point.
Print Assumptions header_fixed_point_gen.
Print Assumptions signature_fixed_point_gen.
Print Assumptions Header_decode_encode_fixed_point.
Print Assumptions CoseSignature_decode_encode_fixed_point.
Print Assumptions ProtectedHeader_decode_encode_fixed_point.
Print Assumptions header_decoded_dwf.
Print Assumptions dwf_reencodes.
Print Assumptions flat_header_encode_decode.
Print Assumptions header_encode_decode.
Print Assumptions signature_encode_decode.
Print Assumptions protected_encode_decode.
