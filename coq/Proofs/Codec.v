(* Codec lemmas for the byte-level model: the parser never looks past the item (de_ext). *)
From Coq Require Import Lia.
From Coset.Model Require Import Prelude Cbor.
From Coset.Proofs Require Import Head.
Require Import ZifyBool ZifyN ZifyNat.
Open Scope N_scope.

Lemma dehead_ext l mt ai arg r s :
  dehead l = Some (mt, ai, arg, r) -> dehead (l ++ s) = Some (mt, ai, arg, r ++ s).
Proof.
  destruct l as [|b l]; [discriminate|]. cbn [app dehead].
  repeat match goal with |- context [if ?c then _ else _] => destruct c end;
  try (intros [= <- <- <- <-]; reflexivity); try discriminate;
  match goal with |- context [takeN ?k l] =>
    destruct (takeN k l) as [[a r']|] eqn:T; [|discriminate];
    intros [= <- <- <- <-]; now rewrite (takeN_ext _ _ _ _ s T) end.
Qed.

Ltac bind_destruct H :=
  match type of H with
  | bind ?x _ = Ok _ => let E := fresh "E" in destruct x as [[? ?]| | |] eqn:E; cbn [bind] in H; try discriminate H
  end.

Lemma segs_ext : forall f mt n l b r s,
  segs f mt n l = Ok (b, r) -> segs f mt n (l ++ s) = Ok (b, r ++ s).
Proof.
  induction f as [|f IH]; intros mt n l b r s; [discriminate|]. cbn [segs].
  destruct (dehead l) as [[[[mt' ai] arg] r0]|] eqn:H; [|discriminate].
  rewrite (dehead_ext _ _ _ _ _ s H).
  destruct ((mt' =? 7) && (ai =? 31)).
  { destruct n as [|[|n']]; [discriminate| |].
    - intros [= <- <-]. reflexivity.
    - intros S. now apply IH. }
  destruct (mt' =? mt); [|discriminate].
  destruct arg as [k|].
  - destruct (takeN k r0) as [[sg r1]|] eqn:T; [|discriminate]. rewrite (takeN_ext _ _ _ _ s T).
    destruct ((mt =? 3) && negb (utf8_valid sg)); [discriminate|].
    destruct n as [|n'].
    + intros [= <- <-]. reflexivity.
    + intros S. bind_destruct S. injection S as <- <-.
      rewrite (IH _ _ _ _ _ s E). reflexivity.
  - intros S. now apply IH.
Qed.

Lemma de_ext_all : forall f,
  (forall bud l v r s, de f bud l = Ok (v, r) -> de f bud (l ++ s) = Ok (v, r ++ s)) /\
  (forall bud c l vs r s, items f bud c l = Ok (vs, r) -> items f bud c (l ++ s) = Ok (vs, r ++ s)) /\
  (forall bud c l m r s, entries f bud c l = Ok (m, r) -> entries f bud c (l ++ s) = Ok (m, r ++ s)).
Proof.
  induction f as [|f (IHd & IHi & IHe)]; [repeat split; intros; discriminate|].
  split; [|split].
  - intros bud l v r s. cbn [de].
    destruct (dehead l) as [[[[mt ai] arg] r0]|] eqn:H; [|discriminate].
    rewrite (dehead_ext _ _ _ _ _ s H).
    destruct (mt =? 0). { destruct arg; [intros [= <- <-]; reflexivity|discriminate]. }
    destruct (mt =? 1). { destruct arg; [intros [= <- <-]; reflexivity|discriminate]. }
    destruct (mt =? 2). { intros S. bind_destruct S. injection S as <- <-. now rewrite (segs_ext _ _ _ _ _ _ s E). }
    destruct (mt =? 3). { intros S. bind_destruct S. injection S as <- <-. now rewrite (segs_ext _ _ _ _ _ _ s E). }
    destruct (mt =? 4). { destruct bud as [|bud']; [discriminate|]. intros S. bind_destruct S. injection S as <- <-.
      now rewrite (IHi _ _ _ _ _ s E). }
    destruct (mt =? 5). { destruct bud as [|bud']; [discriminate|]. intros S. bind_destruct S. injection S as <- <-.
      now rewrite (IHe _ _ _ _ _ s E). }
    destruct (mt =? 6).
    { destruct arg as [t|]; [|discriminate].
      destruct (dehead r0) as [[[[mt2 ai2] arg2] r2]|] eqn:H2; [|discriminate].
      rewrite (dehead_ext _ _ _ _ _ s H2).
      destruct (((t =? 2) || (t =? 3)) && match arg2 with Some n2 => (mt2 =? 2) && (n2 <=? 16) | None => false end).
      - destruct arg2 as [n2|]; [|discriminate].
        destruct (takeN n2 r2) as [[c r3]|] eqn:T; [|discriminate]. rewrite (takeN_ext _ _ _ _ s T).
        destruct (bignum (t =? 3) c) as [bv| | |]; cbn [bind]; try discriminate. intros [= <- <-]. reflexivity.
      - destruct bud as [|bud']; [discriminate|]. intros S. bind_destruct S. injection S as <- <-.
        now rewrite (IHd _ _ _ _ s E). }
    destruct arg as [n|]; [|discriminate].
    repeat match goal with |- context [if ?c then _ else _] => destruct c end;
      try discriminate; intros [= <- <-]; reflexivity.
  - intros bud c l vs r s. cbn [items].
    destruct c as [n|].
    + destruct (n =? 0). { intros [= <- <-]. reflexivity. }
      intros S. bind_destruct S. rewrite (IHd _ _ _ _ s E). cbn [bind].
      bind_destruct S. injection S as <- <-. now rewrite (IHi _ _ _ _ _ s E0).
    + destruct l as [|b l0]; [discriminate|]. cbn [app].
      destruct (b2n b =? 255). { intros [= <- <-]. reflexivity. }
      intros S. bind_destruct S. change (b :: l0 ++ s) with ((b :: l0) ++ s).
      rewrite (IHd _ _ _ _ s E). cbn [bind].
      bind_destruct S. injection S as <- <-. now rewrite (IHi _ _ _ _ _ s E0).
  - intros bud c l m r s. cbn [entries].
    destruct c as [n|].
    + destruct (n =? 0). { intros [= <- <-]. reflexivity. }
      intros S. bind_destruct S. rewrite (IHd _ _ _ _ s E). cbn [bind].
      bind_destruct S. rewrite (IHd _ _ _ _ s E0). cbn [bind].
      bind_destruct S. injection S as <- <-. now rewrite (IHe _ _ _ _ _ s E1).
    + destruct l as [|b l0]; [discriminate|]. cbn [app].
      destruct (b2n b =? 255). { intros [= <- <-]. reflexivity. }
      intros S. bind_destruct S. change (b :: l0 ++ s) with ((b :: l0) ++ s).
      rewrite (IHd _ _ _ _ s E). cbn [bind].
      bind_destruct S. rewrite (IHd _ _ _ _ s E0). cbn [bind].
      bind_destruct S. injection S as <- <-. now rewrite (IHe _ _ _ _ _ s E1).
Qed.

Lemma de_ext f bud l v r s : de f bud l = Ok (v, r) -> de f bud (l ++ s) = Ok (v, r ++ s).
Proof. apply de_ext_all. Qed.
