(* C11 / C07 for the types that do not contain protected headers: Label, PartyInfo, CoseKey,
   CoseKeySet (and ClaimsSet, building on ClaimsAccept.v).
   - X_roundtrip: for every well-formed in-memory value, to_value succeeds and from_value of the
     result returns the original value;
   - decoded_X_wf: everything the decoder returns is well-formed;
   - X_decode_encode_fixed_point: decode, encode, decode is a fixed point (value level);
   - bytes_fixed_point: the same at byte level (from_slice / to_vec). *)
From Coq Require Import Lia Permutation Sorted.
From Coset.Model Require Import Prelude Cbor Iana Label Msg Key Cwt Context Api.
From Coset.Spec Require Import IanaRef Accept AcceptMsg.
From Coset.Proofs Require Import Head Codec RoundTrip Fuel Widths OneItem Order IanaTables Loop.
From Coset.Proofs Require Canon ClaimsAccept MsgAccept.
From Coset.Proofs Require Import KeyAccept.
Require Import ZifyBool ZifyN ZifyNat.
Open Scope string_scope. Open Scope Z_scope. Open Scope list_scope.

(* ====================================================================== *)
(* 0. bytes -> value round trip                                           *)
(* ====================================================================== *)
Lemma read_back : forall v, value_nf v = true -> (depth v <= 256)%nat -> read_to_value (ser v) = Ok v.
Proof.
  intros v NF D. apply read_to_value_ok_intro.
  apply (from_reader_of_any_fuel _ (vsize v)).
  pose proof (de_ser v NF (vsize v) RECURSION_LIMIT [] (le_n _)) as H.
  rewrite app_nil_r in H. apply H. exact D.
Qed.

(* ====================================================================== *)
(* 2. Label and PartyInfo                                                 *)
(* ====================================================================== *)
Definition label_wf (l : label) : Prop := match l with LInt z => in_i64 z = true | LText _ => True end.

Theorem label_roundtrip : forall l, label_wf l -> label_from_value (label_to_value l) = Ok l.
Proof. intros [z|t] W; cbn [label_to_value label_from_value label_wf] in *; [|reflexivity].
  unfold to_i64_res. rewrite W. reflexivity. Qed.

Theorem decoded_label_wf : forall v l, label_from_value v = Ok l -> label_wf l.
Proof. intros v l. destruct v; cbn [label_from_value]; try discriminate.
  - unfold to_i64_res. destruct (in_i64 z) eqn:E; cbn [bind]; [|discriminate]. intros [= <-]. exact E.
  - intros [= <-]. exact I. Qed.

Corollary label_roundtrip_api : forall l, label_wf l ->
  exists v, Label_to_value l = Ok v /\ Label_from_value v = Ok l.
Proof. intros l W. exists (label_to_value l). split; [reflexivity|]. now apply label_roundtrip. Qed.

Corollary label_decode_encode_fixed_point : forall v l, Label_from_value v = Ok l ->
  exists v', Label_to_value l = Ok v' /\ Label_from_value v' = Ok l.
Proof. intros v l H. apply label_roundtrip_api. eapply decoded_label_wf. exact H. Qed.

Definition party_wf (p : party_info) : Prop := forall z, pi_nonce p = Some (NonceInteger z) -> in_i64 z = true.

Lemma bytes_or_nil_rt o : bytes_or_nil (opt_bytes_value o) = Ok o.
Proof. destruct o; reflexivity. Qed.

Theorem party_roundtrip : forall p, party_wf p ->
  exists v, PartyInfo_to_value p = Ok v /\ PartyInfo_from_value v = Ok p.
Proof.
  intros [id nn ot] W. unfold party_wf in W. cbn [pi_nonce] in W.
  eexists. split; [reflexivity|]. cbn [pi_identity pi_nonce pi_other].
  unfold PartyInfo_from_value. cbn [try_as_array bind length]. rewrite MsgAccept.arity_party.
  change (Nat.eqb 3 3) with true. cbn [negb]. rewrite !bytes_or_nil_rt. cbn [bind].
  destruct nn as [[b|z]|]; cbn [bind]; try reflexivity.
  unfold to_i64_res. rewrite (W z eq_refl). reflexivity.
Qed.

Theorem decoded_party_wf : forall v p, PartyInfo_from_value v = Ok p -> party_wf p.
Proof.
  intros v p H. apply MsgAccept.party_accept_iff in H. unfold party_spec in H.
  destruct v as [| | | | | | |a|]; try discriminate.
  destruct a as [|x0 [|x1 [|x2 [|x3 a]]]]; try discriminate.
  destruct (bstr_or_nil x0); [|discriminate].
  destruct (nonce_spec x1) as [n'|] eqn:N; [|discriminate].
  destruct (bstr_or_nil x2); [|discriminate]. injection H as <-.
  intros z. cbn [pi_nonce]. intros ->.
  destruct x1; cbn [nonce_spec] in N; try discriminate.
  change (is_i64 z0) with (in_i64 z0) in N. destruct (in_i64 z0) eqn:E; [|discriminate].
  injection N as <-. exact E.
Qed.

Corollary party_decode_encode_fixed_point : forall v p, PartyInfo_from_value v = Ok p ->
  exists v', PartyInfo_to_value p = Ok v' /\ PartyInfo_from_value v' = Ok p.
Proof. intros v p H. apply party_roundtrip. eapply decoded_party_wf. exact H. Qed.


(* ====================================================================== *)
(* 1. CoseKey                                                             *)
(* ====================================================================== *)
Local Notation RA := (registered T_Algorithm).
Local Notation RKT := (registered T_KeyType).
Local Notation RKO := (registered T_KeyOperation).

Definition op_wf (o : reg_label) : Prop :=
  match o with RAssigned z => in_i64 z = true /\ registered T_KeyOperation z = true | RText _ => True end.
Definition alg_wf (a : regp_label) : Prop :=
  match a with
  | PAssigned z => in_i64 z = true /\ registered T_Algorithm z = true
  | PPrivate z => in_i64 z = true /\ registered T_Algorithm z = false /\ (z <? -65536)%Z = true
  | PText _ => True
  end.
Definition key_wf (k : cose_key) : Prop :=
  (match k_kty k with
   | RAssigned z => in_i64 z = true /\ registered T_KeyType z = true /\ z <> 0%Z
   | RText _ => True end) /\
  (forall a, k_alg k = Some a -> alg_wf a) /\
  ssorted (k_ops k) /\ Forall op_wf (k_ops k) /\
  NoDup (map fst (k_params k)) /\
  Forall (fun e => std_key_label (fst e) = false /\ label_wf (fst e)) (k_params k).

(* ---------- list helpers ---------- *)
Lemma NoDup_app' {A} (a b : list A) :
  NoDup a -> NoDup b -> (forall x, In x a -> ~ In x b) -> NoDup (a ++ b).
Proof. induction a as [|x a IH]; cbn [app]; intros Na Nb DJ; auto.
  inversion Na as [|? ? NI Na']; subst. constructor.
  - intros I. apply in_app_or in I as [I|I]; [contradiction|]. apply (DJ x); cbn; auto.
  - apply IH; auto. intros y Iy. apply DJ. now right. Qed.

Lemma find_app l a b : find l (a ++ b) = match find l a with Some v => Some v | None => find l b end.
Proof. induction a as [|[l' v] a IH]; cbn [app find]; [reflexivity|]. destruct (label_eqb l l'); auto. Qed.

Lemma key_labels_app a : forall b la lb, key_labels a = Some la -> key_labels b = Some lb ->
  key_labels (a ++ b) = Some (la ++ lb).
Proof. induction a as [|[k v] a IH]; intros b la lb Ha Hb; cbn [app key_labels] in *.
  - injection Ha as <-. exact Hb.
  - destruct (key_label k) as [l|]; [|discriminate]. destruct (key_labels a) as [lr|]; [|discriminate].
    injection Ha as <-. rewrite (IH b lr lb eq_refl Hb). reflexivity. Qed.

Lemma key_labels_params ps : Forall (fun e : label * value => label_wf (fst e)) ps ->
  key_labels (map (fun e => (label_to_value (fst e), snd e)) ps) = Some ps.
Proof. induction 1 as [|[l x] r W _ IH]; [reflexivity|]. cbn [map key_labels fst snd] in *. rewrite IH.
  destruct l as [z|t]; cbn [label_to_value key_label label_wf] in *; [|reflexivity].
  change (is_i64 z) with (in_i64 z). rewrite W. reflexivity. Qed.

Lemma key_labels_wf m : forall lm, key_labels m = Some lm -> Forall (fun e : label * value => label_wf (fst e)) lm.
Proof. induction m as [|[k v] m IH]; intros lm H; cbn [key_labels] in H.
  - injection H as <-. constructor.
  - destruct (key_label k) as [l|] eqn:KL; [|discriminate]. destruct (key_labels m) as [lr|]; [|discriminate].
    injection H as <-. constructor; [|now apply IH]. cbn [fst].
    destruct k; cbn [key_label] in KL; try discriminate.
    + change (is_i64 z) with (in_i64 z) in KL. destruct (in_i64 z) eqn:E; [|discriminate]. injection KL as <-. exact E.
    + injection KL as <-. exact I. Qed.

(* ---------- the emitted map ---------- *)
Definition params_entries (ps : list (label * value)) : list (value * value) :=
  map (fun e => (label_to_value (fst e), snd e)) ps.

Lemma CoseKey_to_value_eq k : NoDup (map fst (k_params k)) ->
  Forall (fun e : label * value => std_key_label (fst e) = false) (k_params k) ->
  CoseKey_to_value k = Ok (VMap (Canon.typed_entries k ++ params_entries (k_params k))).
Proof. intros ND NT. destruct (Canon.typed_entries_shape k) as (zs & E & S & F).
  change (CoseKey_to_value k) with
    (do seen <- seed_seen (Canon.typed_entries k); do m <- emit_rest (k_params k) seen (Canon.typed_entries k); Ok (VMap m)).
  rewrite (Canon.seed_seen_ints _ zs E F). cbn [bind]. rewrite Canon.emit_rest_ok; auto.
  intros l I1 I2. apply in_map_iff in I1 as (e & <- & Ie). apply in_map_iff in I2 as (z & Ez & Iz).
  rewrite Forall_forall in NT, F. specialize (NT e Ie). rewrite <- Ez in NT. cbn [std_key_label] in NT.
  specialize (F z Iz). cbn beta in F. lia. Qed.

(* the typed entries, with their keys normalised *)
Definition typed_lm (k : cose_key) : list (label * value) :=
  [(LInt 1, reg_to_value (k_kty k))]
  ++ (if isnil (k_kid k) then [] else [(LInt 2, VBytes (k_kid k))])
  ++ (match k_alg k with Some a => [(LInt 3, regp_to_value a)] | None => [] end)
  ++ (if isnil (k_ops k) then [] else [(LInt 4, VArray (map reg_to_value (k_ops k)))])
  ++ (if isnil (k_base_iv k) then [] else [(LInt 5, VBytes (k_base_iv k))]).

Ltac key_cases k :=
  destruct (isnil (k_kid k)), (k_alg k), (isnil (k_ops k)), (isnil (k_base_iv k)).

Lemma key_labels_typed k : key_labels (Canon.typed_entries k) = Some (typed_lm k).
Proof. unfold Canon.typed_entries, typed_lm, bytes_entry, opt_entry.
  change K_KTY with 1. change K_KID with 2. change K_ALG with 3. change K_KEY_OPS with 4. change K_BASE_IV with 5.
  key_cases k; reflexivity. Qed.

Lemma typed_lm_distinct k : distinct (map fst (typed_lm k)) = true.
Proof. unfold typed_lm. key_cases k; reflexivity. Qed.
Lemma typed_lm_std k : Forall (fun l => std_key_label l = true) (map fst (typed_lm k)).
Proof. unfold typed_lm. key_cases k; cbn [app map fst]; repeat constructor. Qed.
Lemma typed_lm_filter k : filter (fun e : label * value => negb (std_key_label (fst e))) (typed_lm k) = [].
Proof. unfold typed_lm. key_cases k; reflexivity. Qed.

Lemma find1 k : find (LInt 1) (typed_lm k) = Some (reg_to_value (k_kty k)).
Proof. reflexivity. Qed.
Lemma find2 k : find (LInt 2) (typed_lm k) = if isnil (k_kid k) then None else Some (VBytes (k_kid k)).
Proof. unfold typed_lm. key_cases k; reflexivity. Qed.
Lemma find3 k : find (LInt 3) (typed_lm k) = option_map regp_to_value (k_alg k).
Proof. unfold typed_lm. key_cases k; reflexivity. Qed.
Lemma find4 k : find (LInt 4) (typed_lm k) =
  if isnil (k_ops k) then None else Some (VArray (map reg_to_value (k_ops k))).
Proof. unfold typed_lm. key_cases k; reflexivity. Qed.
Lemma find5 k : find (LInt 5) (typed_lm k) = if isnil (k_base_iv k) then None else Some (VBytes (k_base_iv k)).
Proof. unfold typed_lm. key_cases k; reflexivity. Qed.

Lemma find_std_params l ps : std_key_label l = true ->
  Forall (fun e : label * value => std_key_label (fst e) = false) ps -> find l ps = None.
Proof. intros S F. apply find_notin. intros I. apply in_map_iff in I as (e & <- & Ie).
  rewrite Forall_forall in F. rewrite (F e Ie) in S. discriminate. Qed.

Lemma filter_nonstd_id ps : Forall (fun e : label * value => std_key_label (fst e) = false) ps ->
  filter (fun e : label * value => negb (std_key_label (fst e))) ps = ps.
Proof. induction 1 as [|e r H _ IH]; [reflexivity|]. cbn [filter]. rewrite H, IH. reflexivity. Qed.

(* ---------- shapes of the emitted fields ---------- *)
Lemma kty_shape_rt t : (match t with RAssigned z => in_i64 z = true /\ RKT z = true /\ z <> 0 | RText _ => True end) ->
  reg_shape RKT (reg_to_value t) = Some t /\ reg_eqb t (RAssigned 0) = false.
Proof. destruct t as [z|x]; cbn [reg_to_value reg_shape reg_eqb]; [|split; reflexivity].
  intros (H1 & H2 & H3). change (is_i64 z) with (in_i64 z). rewrite H1, H2. split; [reflexivity|]. lia. Qed.

Lemma bstr_field_rt b : field (if isnil b then None else Some (VBytes b)) nonempty_bstr [] = Some b.
Proof. destruct b; reflexivity. Qed.

Lemma alg_field_rt o : (forall a, o = Some a -> alg_wf a) ->
  field (option_map regp_to_value o) (fun x => option_map Some (alg_shape RA x)) None = Some o.
Proof. destruct o as [a|]; [|reflexivity]. intros H. specialize (H a eq_refl).
  cbn [option_map field]. destruct a as [z|z|t]; cbn [regp_to_value alg_shape alg_wf] in *; [| |reflexivity].
  - destruct H as (H1 & H2 & H3). change (is_i64 z) with (in_i64 z). rewrite H1, H2. unfold private_use. rewrite H3. reflexivity.
  - destruct H as (H1 & H2). change (is_i64 z) with (in_i64 z). rewrite H1, H2. reflexivity. Qed.

Lemma ops_shapes_rt ops : Forall op_wf ops -> all_some (map (reg_shape RKO) (map reg_to_value ops)) = Some ops.
Proof. induction 1 as [|o r W _ IH]; [reflexivity|]. cbn [map all_some]. rewrite IH.
  destruct o as [z|t]; cbn [reg_to_value reg_shape op_wf] in *; [|reflexivity].
  destruct W as [H1 H2]. change (is_i64 z) with (in_i64 z). rewrite H1, H2. reflexivity. Qed.

Lemma ssorted_NoDup s : ssorted s -> NoDup s.
Proof. induction s as [|x r IH]; cbn [ssorted]; intros H; constructor.
  - destruct H as [LT _]. intros I. specialize (LT x I). rewrite reg_cmp_refl in LT. discriminate.
  - apply IH. tauto. Qed.

Lemma reg_insert_last x acc : (forall y, In y acc -> reg_cmp y x = Lt) -> insert_sorted reg_cmp x acc = acc ++ [x].
Proof. induction acc as [|y r IH]; intros H; cbn [insert_sorted app]; [reflexivity|].
  rewrite (reg_cmp_antisym y x), (H y) by (now left). cbn [CompOpp]. rewrite IH; auto.
  intros z I. apply H. now right. Qed.

Lemma reg_fold_sorted_id l : forall acc, (forall a b, In a acc -> In b l -> reg_cmp a b = Lt) -> ssorted l ->
  fold_left (fun acc x => insert_sorted reg_cmp x acc) l acc = acc ++ l.
Proof. induction l as [|x r IH]; intros acc H SS; cbn [fold_left].
  - now rewrite app_nil_r.
  - destruct SS as [LT SS]. rewrite reg_insert_last by (intros y I; apply H; [exact I|now left]).
    rewrite IH; auto. + now rewrite <- app_assoc.
    + intros a b Ia Ib. apply in_app_or in Ia as [Ia|[<-|[]]]; [apply H; auto; now right|now apply LT]. Qed.

Lemma reg_sort_sorted_id l : ssorted l -> sort_by reg_cmp l = l.
Proof. intros SS. unfold sort_by. rewrite reg_fold_sorted_id; auto. intros a b []. Qed.

Lemma ops_field_rt ops : ssorted ops -> Forall op_wf ops ->
  field (if isnil ops then None else Some (VArray (map reg_to_value ops))) (key_ops_shape RKO) [] = Some ops.
Proof. intros SS W. destruct ops as [|o r]; [reflexivity|]. cbn [isnil field].
  change (key_ops_shape RKO (VArray (map reg_to_value (o :: r)))) with
    (match all_some (map (reg_shape RKO) (map reg_to_value (o :: r))) with
     | Some ops => if reg_distinct ops then Some (sort_by reg_cmp ops) else None
     | None => None end).
  rewrite ops_shapes_rt by assumption.
  rewrite (proj2 (reg_distinct_NoDup _) (ssorted_NoDup _ SS)). now rewrite reg_sort_sorted_id. Qed.

(* ---------- encode then decode ---------- *)
Theorem key_roundtrip : forall k, key_wf k ->
  exists v, CoseKey_to_value k = Ok v /\ CoseKey_from_value v = Ok k.
Proof.
  intros k (Wkty & Walg & SS & Wops & ND & Wps).
  assert (NS: Forall (fun e : label * value => std_key_label (fst e) = false) (k_params k))
    by (eapply Forall_impl; [|exact Wps]; cbn beta; tauto).
  assert (WL: Forall (fun e : label * value => label_wf (fst e)) (k_params k))
    by (eapply Forall_impl; [|exact Wps]; cbn beta; tauto).
  eexists. split; [now apply CoseKey_to_value_eq|].
  apply key_accept_iff. rewrite key_spec_unfold. unfold params_entries.
  rewrite (key_labels_app _ _ _ _ (key_labels_typed k) (key_labels_params _ WL)).
  assert (D: distinct (map fst (typed_lm k ++ k_params k)) = true).
  { apply distinct_NoDup. rewrite map_app. apply NoDup_app'; auto.
    - apply distinct_NoDup, typed_lm_distinct.
    - intros l I1 I2. pose proof (typed_lm_std k) as TS. rewrite Forall_forall in TS. specialize (TS l I1).
      apply in_map_iff in I2 as (e & <- & Ie). rewrite Forall_forall in NS. rewrite (NS e Ie) in TS. discriminate. }
  rewrite D. cbn [negb]. unfold key_body.
  rewrite !find_app, find1, find2, find3, find4, find5.
  rewrite !(find_std_params _ (k_params k)) by (auto; reflexivity).
  rewrite filter_app, typed_lm_filter, filter_nonstd_id by assumption. cbn [app].
  destruct (kty_shape_rt (k_kty k) Wkty) as [K1 K2].
  replace (match (if isnil (k_kid k) then None else Some (VBytes (k_kid k))) with Some v => Some v | None => None end)
    with (if isnil (k_kid k) then None else Some (VBytes (k_kid k))) by (destruct (isnil (k_kid k)); reflexivity).
  replace (match option_map regp_to_value (k_alg k) with Some v => Some v | None => None end)
    with (option_map regp_to_value (k_alg k)) by (destruct (k_alg k); reflexivity).
  replace (match (if isnil (k_ops k) then None else Some (VArray (map reg_to_value (k_ops k)))) with Some v => Some v | None => None end)
    with (if isnil (k_ops k) then None else Some (VArray (map reg_to_value (k_ops k)))) by (destruct (isnil (k_ops k)); reflexivity).
  replace (match (if isnil (k_base_iv k) then None else Some (VBytes (k_base_iv k))) with Some v => Some v | None => None end)
    with (if isnil (k_base_iv k) then None else Some (VBytes (k_base_iv k))) by (destruct (isnil (k_base_iv k)); reflexivity).
  rewrite K1, !bstr_field_rt, alg_field_rt, ops_field_rt, K2 by assumption.
  destruct k; reflexivity.
Qed.


(* ---------- everything the decoder returns is well-formed ---------- *)
Lemma reg_shape_wf (R : Z -> bool) v r : reg_shape R v = Some r ->
  match r with RAssigned z => in_i64 z = true /\ R z = true | RText _ => True end.
Proof. destruct v; cbn [reg_shape]; try discriminate.
  - change (is_i64 z) with (in_i64 z). destruct (in_i64 z) eqn:E1; cbn [andb]; [|discriminate].
    destruct (R z) eqn:E2; [|discriminate]. intros [= <-]. split; reflexivity || assumption.
  - intros [= <-]. exact I. Qed.

Lemma alg_shape_wf v a : alg_shape RA v = Some a -> alg_wf a.
Proof. destruct v; cbn [alg_shape]; try discriminate.
  - change (is_i64 z) with (in_i64 z). destruct (in_i64 z) eqn:E1; [|discriminate].
    destruct (RA z) eqn:E2.
    + intros [= <-]. cbn [alg_wf]. auto.
    + unfold private_use. destruct (z <? -65536) eqn:E3; [|discriminate]. intros [= <-]. cbn [alg_wf]. auto.
  - intros [= <-]. exact I. Qed.

Lemma ops_shapes_wf l : forall ops, all_some (map (reg_shape RKO) l) = Some ops -> Forall op_wf ops.
Proof. induction l as [|x l IH]; intros ops H; cbn [map all_some] in H.
  - injection H as <-. constructor.
  - destruct (reg_shape RKO x) as [o|] eqn:S; [|discriminate].
    destruct (all_some (map (reg_shape RKO) l)) as [r|]; [|discriminate]. injection H as <-.
    constructor; [|now apply IH]. apply reg_shape_wf in S. destruct o; cbn [op_wf]; auto. Qed.

Lemma In_fold_insert z ops : forall s,
  In z (fold_left (fun acc x => insert_sorted reg_cmp x acc) ops s) <-> In z ops \/ In z s.
Proof. induction ops as [|x r IH]; intros s; cbn [fold_left In]; [tauto|].
  rewrite IH, In_insert_sorted. intuition. Qed.

Lemma ssorted_fold ops : forall s, ssorted s -> NoDup ops -> (forall y, In y ops -> ~ In y s) ->
  ssorted (fold_left (fun acc x => insert_sorted reg_cmp x acc) ops s).
Proof. induction ops as [|x r IH]; intros s SS ND DJ; cbn [fold_left]; auto.
  inversion ND as [|? ? NI ND']; subst. apply IH; auto.
  - apply ssorted_insert; auto. apply DJ. now left.
  - intros y Iy I2. apply In_insert_sorted in I2 as [->|I2]; [contradiction|]. apply (DJ y); auto. now right. Qed.

Lemma key_ops_shape_wf v ops : key_ops_shape RKO v = Some ops -> ssorted ops /\ Forall op_wf ops.
Proof. destruct v as [| | | | | | |[|x r]|]; cbn [key_ops_shape]; try discriminate.
  destruct (all_some (map (reg_shape RKO) (x :: r))) as [ops0|] eqn:AS; [|discriminate].
  destruct (reg_distinct ops0) eqn:D; [|discriminate]. intros [= <-].
  apply reg_distinct_NoDup in D. apply ops_shapes_wf in AS. split.
  - unfold sort_by. apply ssorted_fold; auto. exact I.
  - rewrite Forall_forall in *. intros z Iz. unfold sort_by in Iz. apply In_fold_insert in Iz as [Iz|[]]. auto. Qed.

Lemma NoDup_map_filter {A B} (f : A -> B) (p : A -> bool) l : NoDup (map f l) -> NoDup (map f (filter p l)).
Proof. induction l as [|a l IH]; cbn [map filter]; intros ND; auto.
  inversion ND as [|? ? NI ND']; subst. destruct (p a); cbn [map]; auto. constructor; auto.
  intros I. apply NI. apply in_map_iff in I as (y & E & Iy). apply filter_In in Iy as [Iy _].
  rewrite <- E. now apply in_map. Qed.

Theorem decoded_key_wf : forall v k, CoseKey_from_value v = Ok k -> key_wf k.
Proof.
  intros v k H. apply key_accept_iff in H.
  destruct v as [| | | | | | | |m]; try (cbn [key_spec] in H; discriminate).
  rewrite key_spec_unfold in H.
  destruct (key_labels m) as [lm|] eqn:L; [|discriminate].
  destruct (distinct (map fst lm)) eqn:D; cbn [negb] in H; [|discriminate].
  unfold key_body in H.
  destruct (find (LInt 1) lm) as [kv|]; [|discriminate].
  destruct (reg_shape RKT kv) as [kty|] eqn:S1; [|discriminate].
  destruct (field (find (LInt 2) lm) nonempty_bstr []) as [kid|]; [|discriminate].
  destruct (field (find (LInt 3) lm) (fun x => option_map Some (alg_shape RA x)) None) as [alg|] eqn:S3; [|discriminate].
  destruct (field (find (LInt 4) lm) (key_ops_shape RKO) []) as [ops|] eqn:S4; [|discriminate].
  destruct (field (find (LInt 5) lm) nonempty_bstr []) as [biv|]; [|discriminate].
  destruct (reg_eqb kty (RAssigned 0)) eqn:RE; [discriminate|]. injection H as <-.
  unfold key_wf. cbn [k_kty k_kid k_alg k_ops k_base_iv k_params].
  split; [|split; [|split; [|split; [|split]]]].
  - apply reg_shape_wf in S1. destruct kty as [z|t]; [|exact I]. destruct S1 as [A B].
    repeat split; auto. intros ->. cbn in RE. discriminate.
  - intros a ->. destruct (find (LInt 3) lm) as [x|]; cbn [field] in S3; [|discriminate].
    destruct (alg_shape RA x) as [a'|] eqn:AS; cbn [option_map] in S3; [|discriminate].
    injection S3 as <-. eapply alg_shape_wf; eauto.
  - destruct (find (LInt 4) lm) as [x|]; cbn [field] in S4.
    + apply key_ops_shape_wf in S4. tauto.
    + injection S4 as <-. exact I.
  - destruct (find (LInt 4) lm) as [x|]; cbn [field] in S4.
    + apply key_ops_shape_wf in S4. tauto.
    + injection S4 as <-. constructor.
  - apply NoDup_map_filter. now apply distinct_NoDup.
  - pose proof (key_labels_wf m lm L) as W. rewrite Forall_forall in *. intros e Ie.
    apply filter_In in Ie as [Ie Ne]. split; [|auto].
    destruct (std_key_label (fst e)); [discriminate|reflexivity].
Qed.

Corollary key_decode_encode_fixed_point : forall v k, CoseKey_from_value v = Ok k ->
  exists v', CoseKey_to_value k = Ok v' /\ CoseKey_from_value v' = Ok k.
Proof. intros v k H. apply key_roundtrip. eapply decoded_key_wf. exact H. Qed.

(* ---------- key sets ---------- *)
Theorem keyset_roundtrip : forall ks, Forall key_wf ks ->
  exists v, CoseKeySet_to_value ks = Ok v /\ CoseKeySet_from_value v = Ok ks.
Proof.
  intros ks F.
  assert (G: exists vs, mapM CoseKey_to_value ks = Ok vs /\ mapM CoseKey_from_value vs = Ok ks).
  { induction F as [|k r W _ (vs & E1 & E2)].
    - exists []. split; reflexivity.
    - destruct (key_roundtrip k W) as (v & Ev & Dv). exists (v :: vs). cbn [mapM].
      rewrite Ev, E1, Dv, E2. split; reflexivity. }
  destruct G as (vs & E1 & E2). exists (VArray vs). unfold CoseKeySet_to_value, CoseKeySet_from_value.
  rewrite E1. cbn [bind try_as_array]. split; [reflexivity|exact E2].
Qed.

Lemma mapM_ok_Forall {A B} (f : A -> res B) (P : B -> Prop) :
  (forall a b, f a = Ok b -> P b) -> forall l bs, mapM f l = Ok bs -> Forall P bs.
Proof. intros H. induction l as [|a l IH]; intros bs E; cbn [mapM] in E.
  - injection E as <-. constructor.
  - destruct (f a) as [b| | |] eqn:Fa; cbn [bind] in E; try discriminate.
    destruct (mapM f l) as [r| | |]; cbn [bind] in E; try discriminate. injection E as <-.
    constructor; eauto. Qed.

Theorem decoded_keyset_wf : forall v ks, CoseKeySet_from_value v = Ok ks -> Forall key_wf ks.
Proof. intros v ks H. unfold CoseKeySet_from_value in H.
  destruct (try_as_array v) as [a| | |]; cbn [bind] in H; try discriminate.
  eapply mapM_ok_Forall; [|exact H]. exact decoded_key_wf. Qed.

Corollary keyset_decode_encode_fixed_point : forall v ks, CoseKeySet_from_value v = Ok ks ->
  exists v', CoseKeySet_to_value ks = Ok v' /\ CoseKeySet_from_value v' = Ok ks.
Proof. intros v ks H. apply keyset_roundtrip. eapply decoded_keyset_wf. exact H. Qed.

(* ====================================================================== *)
(* 3. Byte level                                                          *)
(* ====================================================================== *)
Theorem bytes_fixed_point : forall (T : Type) (fromv : value -> res T) (tov : T -> res value) b x,
  (forall v y, fromv v = Ok y -> exists v', tov y = Ok v' /\ fromv v' = Ok y) ->
  from_slice fromv b = Ok x ->
  forall v', tov x = Ok v' -> value_nf v' = true -> (depth v' <= 256)%nat ->
  exists b', to_vec tov x = Ok b' /\ from_slice fromv b' = Ok x /\ to_vec tov x = Ok b'.
Proof.
  intros T fromv tov b x FP Hb v' Hv NF D.
  unfold from_slice in Hb. destruct (read_to_value b) as [v| | |]; cbn [bind] in Hb; try discriminate.
  destruct (FP v x Hb) as (v'' & E1 & E2). rewrite Hv in E1. injection E1 as <-.
  assert (TV: to_vec tov x = Ok (ser v')) by (unfold to_vec; rewrite Hv; reflexivity).
  exists (ser v'). split; [exact TV|]. split; [|exact TV].
  unfold from_slice. rewrite (read_back v' NF D). exact E2.
Qed.

(* C11 at byte level: a value that encodes to a wire-representable item is read back unchanged *)
Theorem bytes_roundtrip : forall (T : Type) (fromv : value -> res T) (tov : T -> res value) x v,
  tov x = Ok v -> fromv v = Ok x -> value_nf v = true -> (depth v <= 256)%nat ->
  exists b, to_vec tov x = Ok b /\ from_slice fromv b = Ok x.
Proof. intros T fromv tov x v Hv Hd NF D. exists (ser v). unfold to_vec, from_slice. rewrite Hv. cbn [bind].
  split; [reflexivity|]. rewrite (read_back v NF D). exact Hd. Qed.

Corollary key_bytes_fixed_point : forall b k v', from_slice CoseKey_from_value b = Ok k ->
  CoseKey_to_value k = Ok v' -> value_nf v' = true -> (depth v' <= 256)%nat ->
  exists b', to_vec CoseKey_to_value k = Ok b' /\ from_slice CoseKey_from_value b' = Ok k /\
             to_vec CoseKey_to_value k = Ok b'.
Proof. intros b k v' H. exact (bytes_fixed_point _ _ _ b k key_decode_encode_fixed_point H v'). Qed.

Corollary keyset_bytes_fixed_point : forall b ks v', from_slice CoseKeySet_from_value b = Ok ks ->
  CoseKeySet_to_value ks = Ok v' -> value_nf v' = true -> (depth v' <= 256)%nat ->
  exists b', to_vec CoseKeySet_to_value ks = Ok b' /\ from_slice CoseKeySet_from_value b' = Ok ks /\
             to_vec CoseKeySet_to_value ks = Ok b'.
Proof. intros b ks v' H. exact (bytes_fixed_point _ _ _ b ks keyset_decode_encode_fixed_point H v'). Qed.

Corollary party_bytes_fixed_point : forall b p v', from_slice PartyInfo_from_value b = Ok p ->
  PartyInfo_to_value p = Ok v' -> value_nf v' = true -> (depth v' <= 256)%nat ->
  exists b', to_vec PartyInfo_to_value p = Ok b' /\ from_slice PartyInfo_from_value b' = Ok p /\
             to_vec PartyInfo_to_value p = Ok b'.
Proof. intros b p v' H. exact (bytes_fixed_point _ _ _ b p party_decode_encode_fixed_point H v'). Qed.

Corollary label_bytes_fixed_point : forall b l v', from_slice Label_from_value b = Ok l ->
  Label_to_value l = Ok v' -> value_nf v' = true -> (depth v' <= 256)%nat ->
  exists b', to_vec Label_to_value l = Ok b' /\ from_slice Label_from_value b' = Ok l /\
             to_vec Label_to_value l = Ok b'.
Proof. intros b l v' H. exact (bytes_fixed_point _ _ _ b l label_decode_encode_fixed_point H v'). Qed.


(* ---------- ClaimsSet: what the decoder returns satisfies claims_wf ---------- *)
Import ClaimsAccept.

Definition claim_name_ok (n : regp_label) : Prop :=
  regp_wf "CwtClaimName" n /\
  match n with
  | PAssigned z => in_i64 z = true
  | PPrivate z => in_i64 z = true /\ (z <? -65536) = true
  | PText _ => True
  end.

Lemma claim_name_wf k n : claim_name creg k = Some n -> claim_name_ok n.
Proof. destruct k; cbn [claim_name]; try discriminate.
  - change (is_i64 z) with (in_i64 z). destruct (in_i64 z) eqn:E1; [|discriminate].
    destruct (creg z) eqn:E2.
    + intros [= <-]. split; [exact E2|exact E1].
    + unfold private_use. destruct (z <? -65536) eqn:E3; [|discriminate]. intros [= <-].
      split; [exact E2|]. split; [exact E1|exact E3].
  - intros [= <-]. split; exact I. Qed.

Lemma claim_names_wf m : forall lm, claim_names creg m = Some lm ->
  Forall (fun e : regp_label * value => claim_name_ok (fst e)) lm.
Proof. induction m as [|[k v] m IH]; intros lm H; cbn [claim_names] in H.
  - injection H as <-. constructor.
  - destruct (claim_name creg k) as [n|] eqn:CN; [|discriminate].
    destruct (claim_names creg m) as [lr|]; [|discriminate]. injection H as <-.
    constructor; [|now apply IH]. cbn [fst]. eapply claim_name_wf; eauto. Qed.

Lemma time_field_wf o t : field o time_shape None = Some t ->
  forall z, t = Some (WholeSeconds z) -> in_i64 z = true.
Proof. destruct o as [v|]; cbn [field]; [|intros [= <-]; discriminate].
  destruct v; cbn [time_shape]; try discriminate.
  - change (is_i64 z) with (in_i64 z). destruct (in_i64 z) eqn:E; [|discriminate].
    intros [= <-] z0 [= <-]. exact E.
  - intros [= <-] z0. discriminate. Qed.

Theorem decoded_claims_wf : forall v c, ClaimsSet_from_value v = Ok c -> claims_wf c.
Proof.
  intros v c H. apply claims_accept_iff in H.
  destruct v as [| | | | | | | |m]; try (cbn [claims_spec] in H; discriminate).
  rewrite claims_spec_merge in H.
  destruct (claim_names creg m) as [lm|] eqn:N; [|discriminate].
  destruct (regp_distinct (map fst lm)) eqn:D; cbn [negb] in H; [|discriminate].
  unfold ClaimsAccept.merge, claims_default in H. cbn [c_iss c_sub c_aud c_exp c_nbf c_iat c_cti c_rest app] in H.
  destruct (field (find_claim (PAssigned 1) lm) text_shape None) as [i|]; [|discriminate].
  destruct (field (find_claim (PAssigned 2) lm) text_shape None) as [sb|]; [|discriminate].
  destruct (field (find_claim (PAssigned 3) lm) text_shape None) as [a|]; [|discriminate].
  destruct (field (find_claim (PAssigned 4) lm) time_shape None) as [e|] eqn:S4; [|discriminate].
  destruct (field (find_claim (PAssigned 5) lm) time_shape None) as [n|] eqn:S5; [|discriminate].
  destruct (field (find_claim (PAssigned 6) lm) time_shape None) as [t|] eqn:S6; [|discriminate].
  destruct (field (find_claim (PAssigned 7) lm) bstr_shape None) as [ct|]; [|discriminate].
  injection H as <-. unfold claims_wf. cbn [c_exp c_nbf c_iat c_rest].
  split; [|split; [|split; [|split]]].
  - apply NoDup_map_filter. now apply regp_distinct_NoDup.
  - pose proof (claim_names_wf m lm N) as W. rewrite Forall_forall in *. intros x Ix.
    apply filter_In in Ix as [Ix Nx]. destruct (W x Ix) as [W1 W2]. split; [exact W1|]. split; [|exact W2].
    destruct (std_claim (fst x)); [discriminate|reflexivity].
  - eapply time_field_wf; eauto.
  - eapply time_field_wf; eauto.
  - eapply time_field_wf; eauto.
Qed.

Corollary claims_decode_encode_fixed_point : forall v c, ClaimsSet_from_value v = Ok c ->
  exists v', ClaimsSet_to_value c = Ok v' /\ ClaimsSet_from_value v' = Ok c.
Proof. intros v c H. apply claims_roundtrip. eapply decoded_claims_wf. exact H. Qed.

Corollary claims_bytes_fixed_point : forall b c v', from_slice ClaimsSet_from_value b = Ok c ->
  ClaimsSet_to_value c = Ok v' -> value_nf v' = true -> (depth v' <= 256)%nat ->
  exists b', to_vec ClaimsSet_to_value c = Ok b' /\ from_slice ClaimsSet_from_value b' = Ok c /\
             to_vec ClaimsSet_to_value c = Ok b'.
Proof. intros b c v' H. exact (bytes_fixed_point _ _ _ b c claims_decode_encode_fixed_point H v'). Qed.

Print Assumptions read_back.
Print Assumptions label_roundtrip.
Print Assumptions decoded_label_wf.
Print Assumptions party_roundtrip.
Print Assumptions decoded_party_wf.
Print Assumptions key_roundtrip.
Print Assumptions decoded_key_wf.
Print Assumptions key_decode_encode_fixed_point.
Print Assumptions keyset_roundtrip.
Print Assumptions keyset_decode_encode_fixed_point.
Print Assumptions bytes_fixed_point.
Print Assumptions bytes_roundtrip.
Print Assumptions key_bytes_fixed_point.
Print Assumptions keyset_bytes_fixed_point.
Print Assumptions party_bytes_fixed_point.
Print Assumptions label_bytes_fixed_point.
Print Assumptions decoded_keyset_wf.
Print Assumptions decoded_claims_wf.
Print Assumptions claims_decode_encode_fixed_point.
Print Assumptions claims_bytes_fixed_point.
