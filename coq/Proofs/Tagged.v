(* C14: tagged forms. *)
From Coq Require Import Lia.
From Coset.Model Require Import Prelude Cbor Iana Label Msg Api.
From Coset.Proofs Require Import Head Codec Fuel RoundTrip OneItem Widths.
Require Import ZifyBool ZifyN ZifyNat.
Open Scope N_scope.

Lemma tags_pinned :
  tag_of "CoseSign" = 98 /\ tag_of "CoseSign1" = 18 /\ tag_of "CoseEncrypt" = 96 /\
  tag_of "CoseEncrypt0" = 16 /\ tag_of "CoseMac" = 97 /\ tag_of "CoseMac0" = 17.
Proof. repeat split. Qed.

Section Generic.
  Context {T : Type}.
  Variable fromv : value -> res T.
  Variable tov : T -> res value.
  Variable TAG : N.

  (* tagged encoding = the tag applied once to the untagged encoding *)
  Lemma to_tagged_vec_spec x :
    to_tagged_vec tov TAG x = do b <- to_vec tov x; Ok (head 6 TAG ++ b).
  Proof. unfold to_tagged_vec, to_vec. destruct (tov x); reflexivity. Qed.

  (* tagged decoding at the item level *)
  Lemma from_tagged_slice_iff b m :
    from_tagged_slice fromv TAG b = Ok m <->
    exists v, read_to_value b = Ok (VTag TAG v) /\ fromv v = Ok m.
  Proof. unfold from_tagged_slice. split.
    - destruct (read_to_value b) as [x| | |]; cbn [bind]; try discriminate.
      destruct x; try discriminate. destruct (N.eqb_spec t TAG); [|discriminate]. subst. eauto.
    - intros (v & -> & H). cbn [bind]. now rewrite N.eqb_refl. Qed.

  Lemma from_tagged_slice_other_tag b t v : read_to_value b = Ok (VTag t v) -> t <> TAG ->
    from_tagged_slice fromv TAG b = Err EUnexpected.
  Proof. unfold from_tagged_slice. intros -> H. cbn [bind]. destruct (N.eqb_spec t TAG); [contradiction|reflexivity]. Qed.
  Lemma from_tagged_slice_untagged b v : read_to_value b = Ok v -> (forall t x, v <> VTag t x) ->
    from_tagged_slice fromv TAG b = Err EUnexpected.
  Proof. unfold from_tagged_slice. intros -> H. cbn [bind]. destruct v; try reflexivity. exfalso. eapply H; eauto. Qed.

  (* byte level: the tag head in any width, body decodable within 255 levels *)
  Hypothesis TAG_generic : TAG <> 2 /\ TAG <> 3.

  Lemma read_to_value_of_de b0 v f : de f 255 b0 = Ok (v, []) -> read_to_value b0 = Ok v.
  Proof. intros D. apply read_to_value_ok_intro. apply (from_reader_of_any_fuel _ f).
    eapply de_budget_mono; [exact D|]. unfold RECURSION_LIMIT. lia. Qed.

  Theorem tagged_decode_of_body w b0 m :
    width_ok TAG w -> (exists v f, de f 255 b0 = Ok (v, []) /\ fromv v = Ok m) ->
    from_tagged_slice fromv TAG (head_w 6 TAG w ++ b0) = Ok m.
  Proof. intros W (v & f & D & F). apply from_tagged_slice_iff. exists v. split; [|exact F].
    apply read_to_value_ok_intro. destruct TAG_generic. apply from_reader_tagged; eauto. Qed.

  Theorem tagged_decode_inv w b0 m :
    width_ok TAG w -> from_tagged_slice fromv TAG (head_w 6 TAG w ++ b0) = Ok m ->
    from_slice fromv b0 = Ok m.
  Proof. intros W H. apply from_tagged_slice_iff in H as (v & R & F).
    apply read_to_value_ok_inv in R. destruct TAG_generic.
    apply from_reader_tagged_inv in R as (v' & f & E & D); auto. injection E as <-.
    unfold from_slice. rewrite (read_to_value_of_de _ _ _ D). exact F. Qed.
End Generic.

(* untagged decoding of the six message types rejects every tagged item *)
Lemma untagged_rejects_tag t v :
  CoseSign_from_value (VTag t v) = Err EUnexpected /\ CoseSign1_from_value (VTag t v) = Err EUnexpected /\
  CoseEncrypt_from_value (VTag t v) = Err EUnexpected /\ CoseEncrypt0_from_value (VTag t v) = Err EUnexpected /\
  CoseMac_from_value (VTag t v) = Err EUnexpected /\ CoseMac0_from_value (VTag t v) = Err EUnexpected.
Proof. repeat split. Qed.

(* hence a doubly tagged item is rejected by tagged decoding, for each of the six types *)
Lemma double_tag_rejected {T} (fromv : value -> res T) TAG b t v :
  (forall t' v', fromv (VTag t' v') = Err EUnexpected) ->
  read_to_value b = Ok (VTag TAG (VTag t v)) -> from_tagged_slice fromv TAG b = Err EUnexpected.
Proof. intros H R. unfold from_tagged_slice. rewrite R. cbn [bind]. rewrite N.eqb_refl. apply H. Qed.

(* the side condition is real (finding F5): a body nested exactly 256 levels *)
Definition f5_body : bytes :=
  [x84; x40; xa1; x18; x63] ++ repeat x81 253 ++ [x80; xf6; x40].
Lemma f5_witness :
  (exists m, from_slice CoseSign1_from_value f5_body = Ok m) /\
  from_tagged_slice CoseSign1_from_value 18 (head 6 18 ++ f5_body) = Err EDecode.
Proof. split; [eexists|]; vm_compute; reflexivity. Qed.
