(* COSE_Key / COSE_KeySet: the sequential decoder accepts exactly what the declarative
   specification (Spec/Accept.v, RFC 8152 section 7) accepts, with the same result. *)
From Coq Require Import Lia.
From Coset.Model Require Import Prelude Cbor Iana Label Msg Key.
From Coset.Spec Require Import IanaRef Accept.
From Coset.Proofs Require Import Order IanaTables Loop.
Require Import ZifyBool ZifyN ZifyNat.
Open Scope string_scope. Open Scope Z_scope. Open Scope list_scope.

Definition to_opt {A} (r : res A) : option A := match r with Ok a => Some a | _ => None end.

Lemma to_opt_ok {A} (r : res A) a : r = Ok a <-> to_opt r = Some a.
Proof. destruct r; cbn; split; congruence. Qed.

Lemma to_opt_ext {A} (r : res A) (o : option A) : (forall a, r = Ok a <-> o = Some a) -> to_opt r = o.
Proof. intros H. destruct r as [a|e| |]; cbn.
  - symmetry. now apply H.
  - destruct o as [b|]; auto. pose proof (proj2 (H b) eq_refl). discriminate.
  - destruct o as [b|]; auto. pose proof (proj2 (H b) eq_refl). discriminate.
  - destruct o as [b|]; auto. pose proof (proj2 (H b) eq_refl). discriminate. Qed.

Lemma to_opt_bind {A B} (r : res A) (f : A -> res B) :
  to_opt (bind r f) = match to_opt r with Some a => to_opt (f a) | None => None end.
Proof. destruct r; reflexivity. Qed.

(* ---------- shapes ---------- *)
Lemma is_i64_eq z : is_i64 z = in_i64 z.
Proof. reflexivity. Qed.

Lemma reg_shape_eq T x : to_opt (reg_from_value T x) = reg_shape (registered T) x.
Proof. destruct x; try reflexivity. cbn [reg_from_value reg_shape]. unfold to_i64_res. change (is_i64 z) with (in_i64 z).
  destruct (in_i64 z); cbn [bind andb to_opt]; [|reflexivity]. destruct (registered T z); reflexivity. Qed.

Lemma alg_shape_eq x : to_opt (regp_from_value "Algorithm" x) = alg_shape (registered T_Algorithm) x.
Proof. destruct x; try reflexivity. cbn [regp_from_value alg_shape]. unfold to_i64_res. change (is_i64 z) with (in_i64 z).
  destruct (in_i64 z); cbn [bind to_opt]; [|reflexivity]. unfold T_Algorithm.
  destruct (registered (table_of "Algorithm") z); [reflexivity|].
  rewrite is_private_iff by (cbn; tauto). unfold private_use. destruct (z <? -65536); reflexivity. Qed.

Lemma nonempty_eq x : to_opt (try_as_nonempty_bytes x) = nonempty_bstr x.
Proof. destruct x as [ |[|b r]| | | | | | | ]; reflexivity. Qed.

Lemma mapM_all_some {A B} (f : A -> res B) l :
  to_opt (mapM f l) = all_some (map (fun x => to_opt (f x)) l).
Proof. induction l as [|a r IH]; [reflexivity|]. cbn [mapM map all_some].
  destruct (f a); cbn [bind to_opt]; try reflexivity. rewrite <- IH.
  destruct (mapM f r); reflexivity. Qed.

(* ---------- equalities ---------- *)
Lemma bytes_eqb_eq a b : bytes_eqb a b = true <-> a = b.
Proof. pose proof (label_eqb_eq (LText a) (LText b)) as H. cbn [label_eqb] in H. rewrite H. split; congruence. Qed.

Lemma reg_eqb_eq a b : reg_eqb a b = true <-> a = b.
Proof. destruct a, b; cbn [reg_eqb]; try (split; discriminate).
  - rewrite Z.eqb_eq. split; congruence.
  - rewrite bytes_eqb_eq. split; congruence. Qed.

Lemma reg_in_In x s : reg_in x s = true <-> In x s.
Proof. induction s as [|a s IH]; cbn [reg_in In]. - split; [discriminate|tauto].
  - rewrite orb_true_iff, reg_eqb_eq, IH. split; intros [H|H]; auto. Qed.

Lemma reg_distinct_NoDup s : reg_distinct s = true <-> NoDup s.
Proof. induction s as [|a s IH]; cbn [reg_distinct]. - split; auto. constructor.
  - rewrite andb_true_iff, negb_true_iff, IH. split.
    + intros [H1 H2]. constructor; auto. rewrite <- reg_in_In. congruence.
    + intros H. inversion H; subst. split; auto. destruct (reg_in a s) eqn:E; auto.
      apply reg_in_In in E. contradiction. Qed.

Lemma label_in_In x s : label_in x s = true <-> In x s.
Proof. induction s as [|a s IH]; cbn [label_in In]. - split; [discriminate|tauto].
  - rewrite orb_true_iff, label_eqb_eq, IH. split; intros [H|H]; auto. Qed.

Lemma distinct_NoDup s : distinct s = true <-> NoDup s.
Proof. induction s as [|a s IH]; cbn [distinct]. - split; auto. constructor.
  - rewrite andb_true_iff, negb_true_iff, IH. split.
    + intros [H1 H2]. constructor; auto. rewrite <- label_in_In. congruence.
    + intros H. inversion H; subst. split; auto. destruct (label_in a s) eqn:E; auto.
      apply label_in_In in E. contradiction. Qed.

(* ---------- map keys ---------- *)
Lemma key_label_eq k : to_opt (label_from_value k) = key_label k.
Proof. destruct k; try reflexivity. cbn [label_from_value key_label]. unfold to_i64_res. change (is_i64 z) with (in_i64 z).
  destruct (in_i64 z); reflexivity. Qed.

Lemma labels_eq m : to_opt (labels m) = key_labels m.
Proof. induction m as [|[k v] m IH]; [reflexivity|]. cbn [labels key_labels].
  rewrite <- key_label_eq, <- IH. destruct (label_from_value k); cbn [bind to_opt]; try reflexivity.
  destruct (labels m); reflexivity. Qed.

Lemma find_notin l lm : ~ In l (map fst lm) -> find l lm = None.
Proof. induction lm as [|[l' v] r IH]; cbn [find map fst In]; auto. intros H.
  destruct (label_eqb l l') eqn:E. - apply label_eqb_eq in E. subst. tauto. - apply IH. tauto. Qed.
Lemma find_cons_eq l v r : find l ((l, v) :: r) = Some v.
Proof. cbn [find]. now rewrite (proj2 (label_eqb_eq l l) eq_refl). Qed.
Lemma find_cons_neq l l' v r : l <> l' -> find l ((l', v) :: r) = find l r.
Proof. intros H. cbn [find]. destruct (label_eqb l l') eqn:E; auto. apply label_eqb_eq in E. contradiction. Qed.
Lemma label_eqb_false a b : label_eqb a b = false -> b <> a.
Proof. intros E ->. now rewrite (proj2 (label_eqb_eq a a) eq_refl) in E. Qed.

(* ---------- the set of key operations ---------- *)
Lemma reg_cmp_antisym a b : reg_cmp b a = CompOpp (reg_cmp a b).
Proof. rewrite !reg_cmp_as_label. apply label_cmp_antisym. Qed.
Lemma reg_cmp_lt_trans a b c : reg_cmp a b = Lt -> reg_cmp b c = Lt -> reg_cmp a c = Lt.
Proof. rewrite !reg_cmp_as_label. apply label_cmp_lt_trans. Qed.
Lemma reg_cmp_refl a : reg_cmp a a = Eq.
Proof. now apply reg_cmp_eq. Qed.

(* strictly increasing *)
Fixpoint ssorted (s : list reg_label) : Prop :=
  match s with [] => True | y :: r => (forall z, In z r -> reg_cmp y z = Lt) /\ ssorted r end.

Lemma In_insert_sorted z x s : In z (insert_sorted reg_cmp x s) <-> z = x \/ In z s.
Proof. induction s as [|y r IH]; cbn [insert_sorted In]. - intuition.
  - destruct (reg_cmp x y); cbn [In]; rewrite ?IH; intuition. Qed.

Lemma reg_set_insert_spec x s : ssorted s ->
  (In x s /\ fst (reg_set_insert x s) = false) \/
  (~ In x s /\ reg_set_insert x s = (true, insert_sorted reg_cmp x s)).
Proof. induction s as [|y r IH]; intros SS.
  - right. split; auto.
  - destruct SS as [LT SS]. cbn [reg_set_insert insert_sorted]. destruct (reg_cmp x y) eqn:C.
    + left. apply reg_cmp_eq in C. subst. split; [now left|reflexivity].
    + right. split; [|reflexivity]. intros [<-|I].
      * rewrite reg_cmp_refl in C. discriminate.
      * pose proof (LT x I) as L. rewrite (reg_cmp_antisym x y), C in L. discriminate.
    + destruct (IH SS) as [[I F]|[NI E]].
      * left. split; [now right|]. destruct (reg_set_insert x r) as [ins r']. exact F.
      * right. rewrite E. split; [|reflexivity]. intros [<-|I]; auto.
        rewrite reg_cmp_refl in C. discriminate. Qed.

Lemma ssorted_insert x s : ssorted s -> ~ In x s -> ssorted (insert_sorted reg_cmp x s).
Proof. induction s as [|y r IH]; intros SS NI.
  - cbn. split; auto. intros z [].
  - destruct SS as [LT SS]. cbn [insert_sorted].
    assert (G: reg_cmp x y <> Lt -> ssorted (y :: insert_sorted reg_cmp x r)).
    { intros C. cbn [ssorted]. split.
      - intros z I. apply In_insert_sorted in I as [->|I]; auto.
        rewrite (reg_cmp_antisym x y). destruct (reg_cmp x y) eqn:C2; try reflexivity; try congruence.
        apply reg_cmp_eq in C2. subst. exfalso. apply NI. now left.
      - apply IH; auto. intros I. apply NI. now right. }
    destruct (reg_cmp x y) eqn:C.
    + apply G. discriminate.
    + cbn [ssorted]. repeat split; auto. intros z [<-|I]; auto.
      eapply reg_cmp_lt_trans; eauto.
    + apply G. discriminate. Qed.

Fixpoint ins_all (ops s : list reg_label) : option (list reg_label) :=
  match ops with
  | [] => Some s
  | op :: r => let (ins, s') := reg_set_insert op s in if ins then ins_all r s' else None
  end.

Lemma ins_all_iff ops : forall s t, ssorted s ->
  (ins_all ops s = Some t <->
   NoDup ops /\ (forall y, In y ops -> ~ In y s) /\
   t = fold_left (fun acc x => insert_sorted reg_cmp x acc) ops s).
Proof. induction ops as [|x r IH]; intros s t SS; cbn [ins_all fold_left].
  - split. + intros [= <-]. repeat split; auto. constructor. + intros (_ & _ & ->). reflexivity.
  - destruct (reg_set_insert_spec x s SS) as [[I F]|[NI E]].
    + destruct (reg_set_insert x s) as [ins s']. cbn [fst] in F. subst ins. split; [discriminate|].
      intros (_ & DJ & _). exfalso. apply (DJ x); auto. now left.
    + rewrite E. rewrite IH by (apply ssorted_insert; auto). split.
      * intros (ND & DJ & ->). split; [|split]; auto.
        -- constructor; auto. intros I. apply (DJ x I). apply In_insert_sorted. now left.
        -- intros y [<-|I]; auto. intros I2. apply (DJ y I). apply In_insert_sorted. now right.
      * intros (ND & DJ & ->). inversion ND; subst. split; [|split]; auto.
        intros y I I2. apply In_insert_sorted in I2 as [->|I2]; [contradiction|].
        apply (DJ y); auto. now right. Qed.

Lemma key_ops_loop_eq a : forall s,
  to_opt (key_ops_loop a s) =
  match all_some (map (reg_shape (registered T_KeyOperation)) a) with
  | Some ops => ins_all ops s
  | None => None
  end.
Proof. induction a as [|x r IH]; intros s; [reflexivity|]. cbn [key_ops_loop map all_some].
  rewrite <- reg_shape_eq. destruct (reg_from_value T_KeyOperation x) as [op| | |]; cbn [bind to_opt]; try reflexivity.
  destruct (all_some (map (reg_shape (registered T_KeyOperation)) r)) as [ops|] eqn:AS; cbn [ins_all].
  - destruct (reg_set_insert op s) as [[|] s']; [|reflexivity]. rewrite IH. reflexivity.
  - destruct (reg_set_insert op s) as [[|] s']; [|reflexivity]. rewrite IH. reflexivity. Qed.

Lemma length_insert_sorted x s : length (insert_sorted reg_cmp x s) = S (length s).
Proof. induction s as [|y r IH]; cbn [insert_sorted length]; auto. destruct (reg_cmp x y); cbn [length]; auto. Qed.
Lemma length_fold_insert ops : forall s,
  length (fold_left (fun acc x => insert_sorted reg_cmp x acc) ops s) = (length ops + length s)%nat.
Proof. induction ops as [|x r IH]; intros s; cbn [fold_left length]; auto.
  rewrite IH, length_insert_sorted. lia. Qed.

Definition kops_dec (x : value) (s0 : list reg_label) : res (list reg_label) :=
  do a <- try_as_array x; do s <- key_ops_loop a s0; if isnil s then Err EUnexpected else Ok s.

Lemma kops_shape_eq x : to_opt (kops_dec x []) = key_ops_shape (registered T_KeyOperation) x.
Proof. destruct x; try reflexivity. destruct l as [|x0 r]; [reflexivity|].
  unfold kops_dec, key_ops_shape. cbn [try_as_array bind]. rewrite to_opt_bind, key_ops_loop_eq.
  destruct (all_some (map (reg_shape (registered T_KeyOperation)) (x0 :: r))) as [ops|] eqn:AS; [|reflexivity].
  assert (NE: ops <> []).
  { cbn [map all_some] in AS. destruct (reg_shape _ x0); [|discriminate].
    destruct (all_some _); [|discriminate]. injection AS as <-. discriminate. }
  destruct (reg_distinct ops) eqn:D.
  - apply reg_distinct_NoDup in D.
    assert (E: ins_all ops [] = Some (sort_by reg_cmp ops)).
    { apply ins_all_iff; [exact I|]. split; [|split]; auto. }
    rewrite E. destruct (sort_by reg_cmp ops) eqn:SB; [|reflexivity].
    exfalso. apply (f_equal (@length _)) in SB. unfold sort_by in SB. rewrite length_fold_insert in SB.
    destruct ops; [congruence|]. cbn [length] in SB. lia.
  - destruct (ins_all ops []) as [t|] eqn:E; [|reflexivity].
    apply ins_all_iff in E as (ND & _); [|exact I]. apply reg_distinct_NoDup in ND. congruence. Qed.

(* ---------- one step, by label ---------- *)
Lemma key_step_cases k l x : key_step k l x =
  if label_eqb l (LInt 1) then do t <- reg_from_value T_KeyType x; Ok (set_kty t k)
  else if label_eqb l (LInt 2) then do b <- try_as_nonempty_bytes x; Ok (set_kkid b k)
  else if label_eqb l (LInt 3) then do a <- regp_from_value "Algorithm" x; Ok (set_kalg (Some a) k)
  else if label_eqb l (LInt 4) then do s <- kops_dec x (k_ops k); Ok (set_kops s k)
  else if label_eqb l (LInt 5) then do b <- try_as_nonempty_bytes x; Ok (set_kbase_iv b k)
  else Ok (set_kparams (k_params k ++ [(l, x)]) k).
Proof. unfold key_step. rewrite !is_lint_eqb.
  change K_KTY with 1. change K_KID with 2. change K_ALG with 3. change K_KEY_OPS with 4. change K_BASE_IV with 5.
  destruct (label_eqb l (LInt 1)); [reflexivity|]. destruct (label_eqb l (LInt 2)); [reflexivity|].
  destruct (label_eqb l (LInt 3)); [reflexivity|]. destruct (label_eqb l (LInt 4)); [|reflexivity].
  unfold kops_dec. destruct (try_as_array x); cbn [bind]; try reflexivity.
  destruct (key_ops_loop a (k_ops k)) as [s| | |]; cbn [bind]; try reflexivity. destruct (isnil s); reflexivity. Qed.

Lemma std_key_label_false l :
  label_eqb l (LInt 1) = false -> label_eqb l (LInt 2) = false -> label_eqb l (LInt 3) = false ->
  label_eqb l (LInt 4) = false -> label_eqb l (LInt 5) = false -> std_key_label l = false.
Proof. destruct l; cbn [label_eqb std_key_label]; intros; [lia|reflexivity]. Qed.

Lemma filter_cons_std l (v : value) r : std_key_label l = true ->
  filter (fun e : label * value => negb (std_key_label (fst e))) ((l, v) :: r) =
  filter (fun e => negb (std_key_label (fst e))) r.
Proof. intros H. cbn [filter fst]. now rewrite H. Qed.
Lemma filter_cons_nonstd l (v : value) r : std_key_label l = false ->
  filter (fun e : label * value => negb (std_key_label (fst e))) ((l, v) :: r) =
  (l, v) :: filter (fun e => negb (std_key_label (fst e))) r.
Proof. intros H. cbn [filter fst]. now rewrite H. Qed.

(* ---------- the fold is the per-label lookup, started from state k ---------- *)
Local Notation RA := (registered T_Algorithm).
Local Notation RKT := (registered T_KeyType).
Local Notation RKO := (registered T_KeyOperation).

Definition merge (k : cose_key) (lm : list (label * value)) : option cose_key :=
  match field (find (LInt 1) lm) (reg_shape RKT) (k_kty k),
        field (find (LInt 2) lm) nonempty_bstr (k_kid k),
        field (find (LInt 3) lm) (fun x => option_map Some (alg_shape RA x)) (k_alg k),
        field (find (LInt 4) lm) (fun x => to_opt (kops_dec x (k_ops k))) (k_ops k),
        field (find (LInt 5) lm) nonempty_bstr (k_base_iv k) with
  | Some kty, Some kid, Some a, Some ops, Some biv =>
    Some (mkKey kty kid a ops biv (k_params k ++ filter (fun e => negb (std_key_label (fst e))) lm))
  | _, _, _, _, _ => None
  end.

Ltac kill_fields :=
  repeat (match goal with |- context [match field ?a ?b ?c with _ => _ end] => destruct (field a b c) end);
  try reflexivity.

Lemma foldM_merge : forall lm k, NoDup (map fst lm) -> to_opt (foldM key_step lm k) = merge k lm.
Proof.
  induction lm as [|[l v] r IH]; intros k ND.
  - destruct k as [kty kid alg ops biv ps]. unfold merge. cbn [foldM to_opt find field filter k_kty k_kid k_alg k_ops k_base_iv k_params].
    now rewrite app_nil_r.
  - cbn [map fst] in ND. inversion ND as [|? ? NI ND']; subst. cbn [foldM]. rewrite key_step_cases.
    pose proof (find_notin l r NI) as LN.
    destruct k as [kty kid alg ops biv ps].
    destruct (label_eqb l (LInt 1)) eqn:E1.
    { apply label_eqb_eq in E1. subst l. unfold merge at 1.
      rewrite find_cons_eq, !find_cons_neq by discriminate. rewrite filter_cons_std by reflexivity.
      cbn [field k_kty k_kid k_alg k_ops k_base_iv k_params]. rewrite <- reg_shape_eq.
      destruct (reg_from_value T_KeyType v) as [t| | |]; cbn [bind to_opt]; try reflexivity.
      rewrite IH by assumption. unfold merge. cbn [set_kty k_kty k_kid k_alg k_ops k_base_iv k_params].
      rewrite LN. reflexivity. }
    destruct (label_eqb l (LInt 2)) eqn:E2.
    { apply label_eqb_eq in E2. subst l. unfold merge at 1.
      rewrite find_cons_eq, !find_cons_neq by discriminate. rewrite filter_cons_std by reflexivity.
      cbn [field k_kty k_kid k_alg k_ops k_base_iv k_params]. rewrite <- nonempty_eq.
      destruct (try_as_nonempty_bytes v) as [t| | |]; cbn [bind to_opt]; [|kill_fields ..].
      rewrite IH by assumption. unfold merge. cbn [set_kkid k_kty k_kid k_alg k_ops k_base_iv k_params].
      rewrite LN. reflexivity. }
    destruct (label_eqb l (LInt 3)) eqn:E3.
    { apply label_eqb_eq in E3. subst l. unfold merge at 1.
      rewrite find_cons_eq, !find_cons_neq by discriminate. rewrite filter_cons_std by reflexivity.
      cbn [field k_kty k_kid k_alg k_ops k_base_iv k_params]. rewrite <- alg_shape_eq.
      destruct (regp_from_value "Algorithm" v) as [t| | |]; cbn [bind to_opt option_map]; [|kill_fields ..].
      rewrite IH by assumption. unfold merge. cbn [set_kalg k_kty k_kid k_alg k_ops k_base_iv k_params].
      rewrite LN. reflexivity. }
    destruct (label_eqb l (LInt 4)) eqn:E4.
    { apply label_eqb_eq in E4. subst l. unfold merge at 1.
      rewrite find_cons_eq, !find_cons_neq by discriminate. rewrite filter_cons_std by reflexivity.
      cbn [field k_kty k_kid k_alg k_ops k_base_iv k_params].
      destruct (kops_dec v ops) as [t| | |]; cbn [bind to_opt]; [|kill_fields ..].
      rewrite IH by assumption. unfold merge. cbn [set_kops k_kty k_kid k_alg k_ops k_base_iv k_params].
      rewrite LN. reflexivity. }
    destruct (label_eqb l (LInt 5)) eqn:E5.
    { apply label_eqb_eq in E5. subst l. unfold merge at 1.
      rewrite find_cons_eq, !find_cons_neq by discriminate. rewrite filter_cons_std by reflexivity.
      cbn [field k_kty k_kid k_alg k_ops k_base_iv k_params]. rewrite <- nonempty_eq.
      destruct (try_as_nonempty_bytes v) as [t| | |]; cbn [bind to_opt]; [|kill_fields ..].
      rewrite IH by assumption. unfold merge. cbn [set_kbase_iv k_kty k_kid k_alg k_ops k_base_iv k_params].
      rewrite LN. reflexivity. }
    cbn [bind]. rewrite IH by assumption. unfold merge.
    rewrite !find_cons_neq by (now apply label_eqb_false).
    rewrite filter_cons_nonstd by (now apply std_key_label_false).
    cbn [set_kparams k_kty k_kid k_alg k_ops k_base_iv k_params]. rewrite <- app_assoc. reflexivity.
Qed.

(* ---------- the entry points ---------- *)
Lemma KTY_RESERVED_eq : KTY_RESERVED = RAssigned 0.
Proof. reflexivity. Qed.

Definition key_body (lm : list (label * value)) : option cose_key :=
  match find (LInt 1) lm with
  | None => None
  | Some kv =>
    match reg_shape RKT kv,
          field (find (LInt 2) lm) nonempty_bstr [],
          field (find (LInt 3) lm) (fun x => option_map Some (alg_shape RA x)) None,
          field (find (LInt 4) lm) (key_ops_shape RKO) [],
          field (find (LInt 5) lm) nonempty_bstr [] with
    | Some kty, Some kid, Some a, Some ops, Some biv =>
      if reg_eqb kty (RAssigned 0) then None
      else Some (mkKey kty kid a ops biv (filter (fun e => negb (std_key_label (fst e))) lm))
    | _, _, _, _, _ => None
    end
  end.

Lemma key_spec_unfold m :
  key_spec RA RKT RKO (VMap m) =
  match key_labels m with
  | None => None
  | Some lm => if negb (distinct (map fst lm)) then None else key_body lm
  end.
Proof. reflexivity. Qed.

Lemma field_ext {A} o (f g : value -> option A) d : (forall v, f v = g v) -> field o f d = field o g d.
Proof. intros H. destruct o; cbn [field]; auto. Qed.

Lemma body_merge lm :
  key_body lm =
  match merge key_default lm with
  | Some k => if reg_eqb (k_kty k) (RAssigned 0) then None else Some k
  | None => None
  end.
Proof. unfold key_body, merge, key_default. cbn [k_kty k_kid k_alg k_ops k_base_iv k_params].
  rewrite KTY_RESERVED_eq.
  rewrite (field_ext (find (LInt 4) lm) (fun x => to_opt (kops_dec x [])) (key_ops_shape RKO) [] kops_shape_eq).
  destruct (find (LInt 1) lm) as [kv|]; cbn [field].
  - destruct (reg_shape RKT kv) as [kty|]; [|reflexivity]. kill_fields.
  - kill_fields. Qed.

Theorem key_accept_iff : forall v k,
  CoseKey_from_value v = Ok k <-> key_spec RA RKT RKO v = Some k.
Proof.
  intros v k. destruct v; try (unfold CoseKey_from_value, key_spec; cbn [try_as_map bind]; split; discriminate).
  rewrite key_spec_unfold. unfold CoseKey_from_value. cbn [try_as_map bind]. split.
  - intros H. destruct (map_loop key_step m key_default []) as [k0| | |] eqn:ML; cbn [bind] in H; try discriminate.
    destruct (reg_eqb (k_kty k0) KTY_RESERVED) eqn:RE; try discriminate. injection H as ->.
    apply map_loop_iff in ML as (lm & L & ND & _ & F).
    apply to_opt_ok in L. rewrite labels_eq in L. rewrite L.
    rewrite (proj2 (distinct_NoDup _) ND). cbn [negb]. rewrite body_merge.
    apply to_opt_ok in F. rewrite foldM_merge in F by assumption. rewrite F.
    rewrite <- KTY_RESERVED_eq, RE. reflexivity.
  - intros H. destruct (key_labels m) as [lm|] eqn:L; try discriminate.
    destruct (distinct (map fst lm)) eqn:D; cbn [negb] in H; try discriminate.
    rewrite body_merge in H. destruct (merge key_default lm) as [k0|] eqn:M; try discriminate.
    destruct (reg_eqb (k_kty k0) (RAssigned 0)) eqn:RE; try discriminate. injection H as ->.
    apply distinct_NoDup in D.
    assert (ML: map_loop key_step m key_default [] = Ok k).
    { apply map_loop_iff. exists lm. split; [|split; [|split]]; auto.
      - apply to_opt_ok. now rewrite labels_eq.
      - apply to_opt_ok. now rewrite foldM_merge. }
    rewrite ML. cbn [bind]. rewrite KTY_RESERVED_eq, RE. reflexivity.
Qed.

Corollary key_accept_eq v : to_opt (CoseKey_from_value v) = key_spec RA RKT RKO v.
Proof. apply to_opt_ext. intros k. apply key_accept_iff. Qed.

Theorem keyset_accept_iff : forall v ks,
  CoseKeySet_from_value v = Ok ks <-> keyset_spec RA RKT RKO v = Some ks.
Proof.
  intros v ks. rewrite to_opt_ok.
  destruct v; try (unfold CoseKeySet_from_value, keyset_spec; cbn [try_as_array bind to_opt]; split; discriminate).
  unfold CoseKeySet_from_value, keyset_spec. cbn [try_as_array bind]. rewrite mapM_all_some.
  rewrite (map_ext _ _ key_accept_eq). reflexivity.
Qed.

(* ---------- no panics ---------- *)
Lemma bind_no_panic {A B} (r : res A) (f : A -> res B) :
  r <> Panic -> (forall a, f a <> Panic) -> bind r f <> Panic.
Proof. intros H1 H2. destruct r; cbn [bind]; auto; discriminate. Qed.

Lemma reg_from_value_no_panic T x : reg_from_value T x <> Panic.
Proof. destruct x; cbn [reg_from_value]; try discriminate. unfold to_i64_res.
  destruct (in_i64 z); cbn [bind]; [|discriminate]. destruct (registered T z); discriminate. Qed.
Lemma regp_from_value_no_panic reg x : regp_from_value reg x <> Panic.
Proof. destruct x; cbn [regp_from_value]; try discriminate. unfold to_i64_res.
  destruct (in_i64 z); cbn [bind]; [|discriminate]. destruct (registered (table_of reg) z); [discriminate|].
  destruct (is_private reg z); discriminate. Qed.
Lemma nonempty_no_panic x : try_as_nonempty_bytes x <> Panic.
Proof. destruct x as [ |[|b r]| | | | | | | ]; discriminate. Qed.
Lemma key_ops_loop_no_panic a : forall s, key_ops_loop a s <> Panic.
Proof. induction a as [|x r IH]; intros s; cbn [key_ops_loop]; [discriminate|].
  apply bind_no_panic; [apply reg_from_value_no_panic|]. intros op.
  destruct (reg_set_insert op s) as [[|] s']; [apply IH|discriminate]. Qed.
Lemma kops_dec_no_panic x s : kops_dec x s <> Panic.
Proof. unfold kops_dec. apply bind_no_panic; [destruct x; discriminate|]. intros a.
  apply bind_no_panic; [apply key_ops_loop_no_panic|]. intros t. destruct (isnil t); discriminate. Qed.

Lemma key_step_no_panic : forall k l x, key_step k l x <> Panic.
Proof. intros k l x. rewrite key_step_cases.
  destruct (label_eqb l (LInt 1)). { apply bind_no_panic; [apply reg_from_value_no_panic|discriminate]. }
  destruct (label_eqb l (LInt 2)). { apply bind_no_panic; [apply nonempty_no_panic|discriminate]. }
  destruct (label_eqb l (LInt 3)). { apply bind_no_panic; [apply regp_from_value_no_panic|discriminate]. }
  destruct (label_eqb l (LInt 4)). { apply bind_no_panic; [apply kops_dec_no_panic|discriminate]. }
  destruct (label_eqb l (LInt 5)). { apply bind_no_panic; [apply nonempty_no_panic|discriminate]. }
  discriminate. Qed.

Lemma CoseKey_from_value_no_panic : forall v, CoseKey_from_value v <> Panic.
Proof. intros v. unfold CoseKey_from_value. apply bind_no_panic; [destruct v; discriminate|]. intros m.
  apply bind_no_panic; [apply map_loop_no_panic; apply key_step_no_panic|]. intros k.
  destruct (reg_eqb (k_kty k) KTY_RESERVED); discriminate. Qed.

Lemma mapM_no_panic {A B} (f : A -> res B) : (forall x, f x <> Panic) -> forall l, mapM f l <> Panic.
Proof. intros NP. induction l as [|a r IH]; cbn [mapM]; [discriminate|].
  apply bind_no_panic; [apply NP|]. intros b. apply bind_no_panic; [apply IH|discriminate]. Qed.

Lemma CoseKeySet_from_value_no_panic : forall v, CoseKeySet_from_value v <> Panic.
Proof. intros v. unfold CoseKeySet_from_value. apply bind_no_panic; [destruct v; discriminate|]. intros a.
  apply mapM_no_panic. apply CoseKey_from_value_no_panic. Qed.

Print Assumptions key_accept_iff.
Print Assumptions keyset_accept_iff.
Print Assumptions CoseKey_from_value_no_panic.
