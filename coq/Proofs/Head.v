(* Byte / big-endian / head-codec lemmas. *)
From Coq Require Import Lia.
From Coset.Model Require Import Prelude Cbor Label.
Require Import ZifyBool ZifyN ZifyNat.
Ltac Zify.zify_post_hook ::= Z.div_mod_to_equations.
Open Scope N_scope.

Lemma n2b_b2n b : n2b (b2n b) = b.
Proof. unfold n2b, b2n. pose proof (Byte.to_N_bounded b). rewrite N.mod_small by lia. now rewrite Byte.of_to_N. Qed.
Lemma b2n_n2b n : b2n (n2b n) = n mod 256.
Proof. unfold n2b, b2n. assert (H: n mod 256 < 256) by (apply N.mod_lt; lia).
  destruct (Byte.of_N (n mod 256)) eqn:E.
  - now apply Byte.to_of_N in E.
  - apply Byte.of_N_None_iff in E. lia. Qed.
Lemma b2n_lt b : b2n b < 256.
Proof. unfold b2n. pose proof (Byte.to_N_bounded b). lia. Qed.
Lemma b2n_inj a b : b2n a = b2n b -> a = b.
Proof. intros H. rewrite <- (n2b_b2n a), <- (n2b_b2n b). now rewrite H. Qed.

Lemma be_length k n : length (be k n) = k.
Proof. induction k; simpl; auto. Qed.

Lemma unbe_be k n : unbe (be k n) = n mod 256 ^ N.of_nat k.
Proof.
  induction k as [|k IH]; cbn [be unbe].
  - now rewrite N.mod_1_r.
  - rewrite be_length, IH, b2n_n2b.
    replace (N.of_nat (S k)) with (N.succ (N.of_nat k)) by lia.
    rewrite N.pow_succ_r'.
    set (p := 256 ^ N.of_nat k). assert (Hp: p <> 0) by (apply N.pow_nonzero; lia).
    rewrite (N.mul_comm 256 p). rewrite N.mod_mul_r by lia. lia.
Qed.
Lemma unbe_be_small k n : n < 256 ^ N.of_nat k -> unbe (be k n) = n.
Proof. intros. rewrite unbe_be. now apply N.mod_small. Qed.
Lemma unbe_bound l : unbe l < 256 ^ N.of_nat (length l).
Proof.
  induction l as [|b r IH]; cbn [unbe length]. { simpl. lia. }
  replace (N.of_nat (S (length r))) with (N.succ (N.of_nat (length r))) by lia.
  rewrite N.pow_succ_r'. pose proof (b2n_lt b). nia.
Qed.

(* lexicographic order on byte strings = Label.bytes_cmp *)
Lemma bytes_cmp_unbe a b : length a = length b -> bytes_cmp a b = N.compare (unbe a) (unbe b).
Proof.
  revert b. induction a as [|x a IH]; intros [|y b] Hl; try discriminate; cbn [bytes_cmp unbe].
  - reflexivity.
  - injection Hl as Hl. rewrite <- Hl.
    pose proof (unbe_bound a) as Ba. pose proof (unbe_bound b) as Bb. rewrite <- Hl in Bb.
    set (p := 256 ^ N.of_nat (length a)) in *.
    destruct (N.compare_spec (b2n x) (b2n y)) as [E|L|G].
    + rewrite E, IH by assumption.
      destruct (N.compare_spec (unbe a) (unbe b)); symmetry;
        [apply N.compare_eq_iff|apply N.compare_lt_iff|apply N.compare_gt_iff]; nia.
    + symmetry. apply N.compare_lt_iff. nia.
    + symmetry. apply N.compare_gt_iff. nia.
Qed.
Lemma bytes_cmp_be k n1 n2 : n1 < 256 ^ N.of_nat k -> n2 < 256 ^ N.of_nat k ->
  bytes_cmp (be k n1) (be k n2) = N.compare n1 n2.
Proof. intros H1 H2. rewrite bytes_cmp_unbe by now rewrite !be_length. now rewrite !unbe_be_small. Qed.

Lemma bytes_cmp_refl a : bytes_cmp a a = Eq.
Proof. induction a as [|x a IH]; cbn; auto. now rewrite N.compare_refl. Qed.
Lemma bytes_cmp_eq a b : bytes_cmp a b = Eq -> a = b.
Proof. revert b. induction a as [|x a IH]; intros [|y b]; cbn; try discriminate; auto.
  destruct (N.compare_spec (b2n x) (b2n y)) as [E|L|G]; try discriminate.
  intros H. f_equal; auto using b2n_inj. Qed.
Lemma bytes_cmp_antisym a b : bytes_cmp b a = CompOpp (bytes_cmp a b).
Proof. revert b. induction a as [|x a IH]; intros [|y b]; cbn; auto.
  rewrite (N.compare_antisym (b2n x) (b2n y)). destruct (b2n x ?= b2n y); cbn; auto. Qed.
Lemma bytes_cmp_app_prefix p a b : bytes_cmp (p ++ a) (p ++ b) = bytes_cmp a b.
Proof. induction p as [|x p IH]; cbn; auto. now rewrite N.compare_refl. Qed.
Lemma bytes_cmp_lt_trans a b c : bytes_cmp a b = Lt -> bytes_cmp b c = Lt -> bytes_cmp a c = Lt.
Proof. revert b c. induction a as [|x a IH]; intros [|y b] [|z c]; cbn; try discriminate; auto.
  destruct (N.compare_spec (b2n x) (b2n y)) as [E|L|G]; try discriminate;
  destruct (N.compare_spec (b2n y) (b2n z)) as [E2|L2|G2]; try discriminate; intros H1 H2.
  - rewrite E, E2, N.compare_refl. eauto.
  - rewrite E. now apply N.compare_lt_iff in L2 as ->.
  - rewrite <- E2. now apply N.compare_lt_iff in L as ->.
  - assert (b2n x < b2n z) by lia. now apply N.compare_lt_iff in H as ->.
Qed.

(* ---------- takeN ---------- *)
Lemma takeN_app a r : takeN (N.of_nat (length a)) (a ++ r) = Some (a, r).
Proof. induction a as [|x a IH]; cbn [length app].
  - destruct r; reflexivity.
  - cbn [takeN]. replace (N.of_nat (S (length a)) =? 0) with false by lia.
    replace (N.pred (N.of_nat (S (length a)))) with (N.of_nat (length a)) by lia. now rewrite IH. Qed.
Lemma takeN_spec n l a r : takeN n l = Some (a, r) -> l = a ++ r /\ N.of_nat (length a) = n.
Proof. revert n a r. induction l as [|x l IH]; intros n a r; cbn [takeN].
  - destruct (n =? 0) eqn:E; [|discriminate]. intros [= <- <-]. split; auto. cbn. lia.
  - destruct (n =? 0) eqn:E. { intros [= <- <-]. split; auto. cbn. lia. }
    destruct (takeN (N.pred n) l) as [[a' r']|] eqn:T; [|discriminate]. intros [= <- <-].
    apply IH in T as [-> L]. split; auto. cbn [length]. lia. Qed.
Lemma takeN_ext n l a r s : takeN n l = Some (a, r) -> takeN n (l ++ s) = Some (a, r ++ s).
Proof. intros H. apply takeN_spec in H as [-> <-]. rewrite <- app_assoc. apply takeN_app. Qed.

(* ---------- head ---------- *)
Definition p64 : N := 18446744073709551616.

Lemma dehead_head mt n r : mt < 8 -> n < p64 ->
  exists ai, dehead (head mt n ++ r) = Some (mt, ai, Some n, r) /\ ai < 28.
Proof.
  unfold p64. intros Hm Hn. unfold head.
  assert (AI: forall a, a < 32 -> (mt*32+a) mod 256 / 32 = mt /\ (mt*32+a) mod 256 mod 32 = a) by (intros; lia).
  destruct (n <? 24) eqn:E1; [|destruct (n <? 256) eqn:E2; [|destruct (n <? 65536) eqn:E3; [|destruct (n <? 4294967296) eqn:E4]]];
  cbn [app dehead]; rewrite b2n_n2b.
  - destruct (AI n ltac:(lia)) as [-> ->]. rewrite E1. exists n. split; auto. lia.
  - destruct (AI 24 ltac:(lia)) as [-> ->]. change (24 <? 24) with false. change (24 =? 24) with true. cbv iota.
    change 1 with (N.of_nat (length (be 1 n))) at 1. rewrite takeN_app.
    rewrite unbe_be_small by (change (256 ^ N.of_nat 1) with 256; lia). exists 24. split; auto. lia.
  - destruct (AI 25 ltac:(lia)) as [-> ->]. change (25 <? 24) with false. change (25 =? 24) with false. change (25 =? 25) with true. cbv iota.
    change 2 with (N.of_nat (length (be 2 n))) at 1. rewrite takeN_app.
    rewrite unbe_be_small by (change (256 ^ N.of_nat 2) with 65536; lia). exists 25. split; auto. lia.
  - destruct (AI 26 ltac:(lia)) as [-> ->]. change (26 <? 24) with false. change (26 =? 24) with false. change (26 =? 25) with false. change (26 =? 26) with true. cbv iota.
    change 4 with (N.of_nat (length (be 4 n))) at 1. rewrite takeN_app.
    rewrite unbe_be_small by (change (256 ^ N.of_nat 4) with 4294967296; lia). exists 26. split; auto. lia.
  - destruct (AI 27 ltac:(lia)) as [-> ->]. change (27 <? 24) with false. change (27 =? 24) with false. change (27 =? 25) with false. change (27 =? 26) with false. change (27 =? 27) with true. cbv iota.
    change 8 with (N.of_nat (length (be 8 n))) at 1. rewrite takeN_app.
    rewrite unbe_be_small by (change (256 ^ N.of_nat 8) with 18446744073709551616; lia). exists 27. split; auto. lia.
Qed.

(* heads are lexicographically monotone in the argument, per major type *)
Lemma bytes_cmp_head mt n1 n2 : mt < 8 -> n1 < p64 -> n2 < p64 ->
  bytes_cmp (head mt n1) (head mt n2) = N.compare n1 n2.
Proof.
  unfold p64. intros Hm H1 H2. unfold head.
  destruct (n1 <? 24) eqn:A1; [|destruct (n1 <? 256) eqn:A2; [|destruct (n1 <? 65536) eqn:A3; [|destruct (n1 <? 4294967296) eqn:A4]]];
  (destruct (n2 <? 24) eqn:B1; [|destruct (n2 <? 256) eqn:B2; [|destruct (n2 <? 65536) eqn:B3; [|destruct (n2 <? 4294967296) eqn:B4]]]);
  cbn [bytes_cmp]; rewrite !b2n_n2b;
  repeat match goal with |- context [(mt*32+?a) mod 256] => replace ((mt*32+a) mod 256) with (mt*32+a) by lia end.
  all: try (match goal with |- match (?x ?= ?y) with _ => _ end = _ =>
        destruct (N.compare_spec x y) as [E|L|G]; try lia end).
  all: try (symmetry; first [apply N.compare_lt_iff; lia | apply N.compare_gt_iff; lia | apply N.compare_eq_iff; lia]).
  all: try (apply bytes_cmp_be; first [change (256 ^ N.of_nat 1) with 256 | change (256 ^ N.of_nat 2) with 65536
           | change (256 ^ N.of_nat 4) with 4294967296 | change (256 ^ N.of_nat 8) with 18446744073709551616]; lia).
Qed.

(* first byte of a head determines the major type *)
Lemma head_first mt n : mt < 8 -> exists b r, head mt n = b :: r /\ b2n b / 32 = mt.
Proof. intros Hm. unfold head.
  destruct (n <? 24) eqn:E1; [|destruct (n <? 256); [|destruct (n <? 65536); [|destruct (n <? 4294967296)]]];
  eexists; eexists; (split; [reflexivity|]); rewrite b2n_n2b; lia. Qed.

Lemma head_length mt n : n < p64 ->
  length (head mt n) = if n <? 24 then 1%nat else if n <? 256 then 2%nat else if n <? 65536 then 3%nat
                       else if n <? 4294967296 then 5%nat else 9%nat.
Proof. intros _. unfold head.
  repeat match goal with |- context [if ?c then _ else _] => destruct c end; cbn [length]; rewrite ?be_length; reflexivity. Qed.
