(* C03 / C04 / C05: the structure functions produce exactly the RFC 8152 structures, which are
   injective in every component. *)
From Coq Require Import Lia.
From Coset.Model Require Import Prelude Cbor Iana Label Msg.
From Coset.Spec Require Import DetCbor Structures.
From Coset.Proofs Require Import Head Codec RoundTrip Order.
Require Import ZifyBool ZifyN ZifyNat.
Open Scope N_scope.

(* the exact bytes a protected header contributes *)
Definition protected_bytes (p : protected) : res bytes :=
  match p_orig p with
  | Some d => Ok d
  | None => if header_is_empty (p_hdr p) then Ok [] else do v <- header_to_value (p_hdr p); Ok (ser v)
  end.

Lemma protected_cbor_bstr_bytes p : protected_cbor_bstr p = do b <- protected_bytes p; Ok (VBytes b).
Proof. destruct p as [[d|] h]; cbn [protected_cbor_bstr protected_bytes p_orig p_hdr bind]; try reflexivity.
  destruct (header_is_empty h); [reflexivity|]. destruct (header_to_value h); reflexivity. Qed.

(* contexts: the strings found in the source are the RFC's *)
Definition rfc_sig_ctx (c : sig_context) : sig_ctx :=
  match c with SigCoseSignature => Signature | SigCoseSign1 => Signature1 | SigCounterSignature => CounterSignature end.
Definition rfc_mac_ctx (c : mac_context) : mac_ctx := match c with MacCoseMac => MAC | MacCoseMac0 => MAC0 end.
Definition rfc_enc_ctx (c : enc_context) : enc_ctx :=
  match c with EncCoseEncrypt => Encrypt | EncCoseEncrypt0 => Encrypt0 | EncEncRecipient => Enc_Recipient
             | EncMacRecipient => Mac_Recipient | EncRecRecipient => Rec_Recipient end.

Lemma sig_context_text_rfc c : sig_context_text c = ascii_bytes (sig_ctx_string (rfc_sig_ctx c)).
Proof. destruct c; reflexivity. Qed.
Lemma mac_context_text_rfc c : mac_context_text c = ascii_bytes (mac_ctx_string (rfc_mac_ctx c)).
Proof. destruct c; reflexivity. Qed.
Lemma enc_context_text_rfc c : enc_context_text c = ascii_bytes (enc_ctx_string (rfc_enc_ctx c)).
Proof. destruct c; reflexivity. Qed.

(* spec encoders = model serialiser on the values involved *)
Lemma det_bstr_ser b : det_bstr b = ser (VBytes b).
Proof. unfold det_bstr. now rewrite det_head_head. Qed.
Lemma det_tstr_ser t : det_tstr t = ser (VText t).
Proof. unfold det_tstr. now rewrite det_head_head. Qed.
Lemma det_array_ser l : det_array (map ser l) = ser (VArray l).
Proof. unfold det_array. rewrite det_head_head, map_length. cbn [ser]. f_equal.
  induction l; cbn; [reflexivity|]. now rewrite IHl. Qed.

Definition sig_value (c : sig_ctx) (b : bytes) (s : option bytes) (aad pl : bytes) : value :=
  VArray ([VText (ascii_bytes (sig_ctx_string c)); VBytes b]
          ++ match s with Some x => [VBytes x] | None => [] end ++ [VBytes aad; VBytes pl]).
Lemma sig_structure_ser c b s aad pl : sig_structure c b s aad pl = ser (sig_value c b s aad pl).
Proof. unfold sig_structure, sig_value. rewrite <- det_array_ser. f_equal.
  rewrite !map_app. cbn [map]. rewrite !det_bstr_ser, det_tstr_ser. destruct s; cbn [map]; now rewrite ?det_bstr_ser. Qed.
Definition mac_value (c : mac_ctx) (p aad pl : bytes) : value :=
  VArray [VText (ascii_bytes (mac_ctx_string c)); VBytes p; VBytes aad; VBytes pl].
Lemma mac_structure_ser c p aad pl : mac_structure c p aad pl = ser (mac_value c p aad pl).
Proof. unfold mac_structure, mac_value. rewrite <- det_array_ser. cbn [map]. now rewrite !det_bstr_ser, det_tstr_ser. Qed.
Definition enc_value (c : enc_ctx) (p aad : bytes) : value :=
  VArray [VText (ascii_bytes (enc_ctx_string c)); VBytes p; VBytes aad].
Lemma enc_structure_ser c p aad : enc_structure c p aad = ser (enc_value c p aad).
Proof. unfold enc_structure, enc_value. rewrite <- det_array_ser. cbn [map]. now rewrite !det_bstr_ser, det_tstr_ser. Qed.

(* ---------- the structure functions ---------- *)
Definition opt_protected_bytes (s : option protected) : res (option bytes) :=
  match s with Some p => do b <- protected_bytes p; Ok (Some b) | None => Ok None end.

Theorem sig_structure_data_spec c body sign aad pl :
  sig_structure_data c body sign aad pl =
    match protected_bytes body with
    | Ok b => match opt_protected_bytes sign with
              | Ok s => Ok (sig_structure (rfc_sig_ctx c) b s aad pl)
              | Err _ | Panic => Panic
              | OutOfFuel => OutOfFuel
              end
    | Err _ | Panic => Panic
    | OutOfFuel => OutOfFuel
    end.
Proof.
  unfold sig_structure_data. rewrite protected_cbor_bstr_bytes.
  destruct (protected_bytes body) as [b|e| |]; cbn [bind expect]; try reflexivity.
  destruct sign as [sp|]; cbn [opt_protected_bytes].
  - rewrite protected_cbor_bstr_bytes. destruct (protected_bytes sp) as [s|e| |]; cbn [bind expect]; try reflexivity.
    rewrite sig_structure_ser, sig_context_text_rfc. reflexivity.
  - cbn [bind]. rewrite sig_structure_ser, sig_context_text_rfc. reflexivity.
Qed.

Theorem mac_structure_data_spec c p aad pl :
  mac_structure_data c p aad pl =
    match protected_bytes p with
    | Ok b => Ok (mac_structure (rfc_mac_ctx c) b aad pl)
    | Err _ | Panic => Panic
    | OutOfFuel => OutOfFuel
    end.
Proof. unfold mac_structure_data. rewrite protected_cbor_bstr_bytes.
  destruct (protected_bytes p) as [b|e| |]; cbn [bind expect]; try reflexivity.
  now rewrite mac_structure_ser, mac_context_text_rfc. Qed.

Theorem enc_structure_data_spec c p aad :
  enc_structure_data c p aad =
    match protected_bytes p with
    | Ok b => Ok (enc_structure (rfc_enc_ctx c) b aad)
    | Err _ | Panic => Panic
    | OutOfFuel => OutOfFuel
    end.
Proof. unfold enc_structure_data. rewrite protected_cbor_bstr_bytes.
  destruct (protected_bytes p) as [b|e| |]; cbn [bind expect]; try reflexivity.
  now rewrite enc_structure_ser, enc_context_text_rfc. Qed.

(* ---------- injectivity (domain separation) ---------- *)
Definition short (b : bytes) : Prop := N.of_nat (length b) < p64.

Lemma ser_inj v1 v2 : value_nf v1 = true -> value_nf v2 = true -> ser v1 = ser v2 -> v1 = v2.
Proof. intros W1 W2 E.
  pose proof (de_ser v1 W1 (Nat.max (vsize v1) (vsize v2)) (Nat.max (depth v1) (depth v2)) []
                (Nat.le_max_l _ _) (Nat.le_max_l _ _)) as D1.
  pose proof (de_ser v2 W2 (Nat.max (vsize v1) (vsize v2)) (Nat.max (depth v1) (depth v2)) []
                (Nat.le_max_r _ _) (Nat.le_max_r _ _)) as D2.
  rewrite E in D1. rewrite D1 in D2. now injection D2. Qed.

Lemma short_nf b : short b -> (N.of_nat (length b) <? p64) = true. Proof. unfold short. lia. Qed.

Lemma sig_value_nf c b s aad pl : short b -> (forall x, s = Some x -> short x) -> short aad -> short pl ->
  value_nf (sig_value c b s aad pl) = true.
Proof. intros Hb Hs Ha Hp. unfold sig_value. cbn [value_nf].
  destruct s as [x|]; cbn [app length forallb value_nf].
  - rewrite (short_nf x (Hs x eq_refl)), (short_nf b), (short_nf aad), (short_nf pl) by assumption. destruct c; reflexivity.
  - rewrite (short_nf b), (short_nf aad), (short_nf pl) by assumption. destruct c; reflexivity. Qed.

Lemma sig_ctx_string_inj c c' : ascii_bytes (sig_ctx_string c) = ascii_bytes (sig_ctx_string c') -> c = c'.
Proof. destruct c, c'; cbn; intros H; try reflexivity; discriminate H. Qed.
Lemma mac_ctx_string_inj c c' : ascii_bytes (mac_ctx_string c) = ascii_bytes (mac_ctx_string c') -> c = c'.
Proof. destruct c, c'; cbn; intros H; try reflexivity; discriminate H. Qed.
Lemma enc_ctx_string_inj c c' : ascii_bytes (enc_ctx_string c) = ascii_bytes (enc_ctx_string c') -> c = c'.
Proof. destruct c, c'; cbn; intros H; try reflexivity; discriminate H. Qed.

Theorem sig_structure_injective c b s aad pl c' b' s' aad' pl' :
  short b -> (forall x, s = Some x -> short x) -> short aad -> short pl ->
  short b' -> (forall x, s' = Some x -> short x) -> short aad' -> short pl' ->
  sig_structure c b s aad pl = sig_structure c' b' s' aad' pl' ->
  c = c' /\ b = b' /\ s = s' /\ aad = aad' /\ pl = pl'.
Proof.
  intros. rewrite !sig_structure_ser in *.
  match goal with H : ser _ = ser _ |- _ => apply ser_inj in H; try (apply sig_value_nf; assumption) end.
  unfold sig_value in *. destruct s, s'; cbn [app] in *;
  match goal with H : VArray _ = VArray _ |- _ => injection H as ? ? ? ? end; subst;
  repeat split; auto using sig_ctx_string_inj; try congruence.
Qed.

Theorem mac_structure_injective c p aad pl c' p' aad' pl' :
  short p -> short aad -> short pl -> short p' -> short aad' -> short pl' ->
  mac_structure c p aad pl = mac_structure c' p' aad' pl' ->
  c = c' /\ p = p' /\ aad = aad' /\ pl = pl'.
Proof.
  intros. rewrite !mac_structure_ser in *.
  match goal with H : ser _ = ser _ |- _ => apply ser_inj in H end.
  - unfold mac_value in *. match goal with H : VArray _ = VArray _ |- _ => injection H as ? ? ? ? end; subst.
    repeat split; auto using mac_ctx_string_inj.
  - unfold mac_value. cbn [value_nf length forallb]. rewrite (short_nf p), (short_nf aad), (short_nf pl) by assumption. destruct c; reflexivity.
  - unfold mac_value. cbn [value_nf length forallb]. rewrite (short_nf p'), (short_nf aad'), (short_nf pl') by assumption. destruct c'; reflexivity.
Qed.

Theorem enc_structure_injective c p aad c' p' aad' :
  short p -> short aad -> short p' -> short aad' ->
  enc_structure c p aad = enc_structure c' p' aad' -> c = c' /\ p = p' /\ aad = aad'.
Proof.
  intros. rewrite !enc_structure_ser in *.
  match goal with H : ser _ = ser _ |- _ => apply ser_inj in H end.
  - unfold enc_value in *. match goal with H : VArray _ = VArray _ |- _ => injection H as ? ? ? end; subst.
    repeat split; auto using enc_ctx_string_inj.
  - unfold enc_value. cbn [value_nf length forallb]. rewrite (short_nf p), (short_nf aad) by assumption. destruct c; reflexivity.
  - unfold enc_value. cbn [value_nf length forallb]. rewrite (short_nf p'), (short_nf aad') by assumption. destruct c'; reflexivity.
Qed.

(* the 4- and the 5-element Sig_structure never collide either: covered by the theorem above
   (s = None vs s' = Some _ is excluded by its conclusion s = s') *)

(* ---------- what each protected header contributes ---------- *)
Lemma protected_bytes_decoded parse v p :
  protected_from_bstr parse v = Ok p -> exists d, v = VBytes d /\ p_orig p = Some d /\ protected_bytes p = Ok d.
Proof. unfold protected_from_bstr. destruct v; cbn [try_as_bytes bind]; try discriminate.
  destruct (isnil b).
  - intros [= <-]. exists b. repeat split.
  - destruct (parse b); cbn [bind]; try discriminate. intros [= <-]. exists b. repeat split. Qed.
Lemma protected_bytes_built_empty h : header_is_empty h = true -> protected_bytes (mkProtected None h) = Ok [].
Proof. intros E. unfold protected_bytes. cbn. now rewrite E. Qed.
Lemma protected_bytes_built_nonempty h : header_is_empty h = false ->
  protected_bytes (mkProtected None h) = do v <- header_to_value h; Ok (ser v).
Proof. intros E. unfold protected_bytes. cbn. now rewrite E. Qed.

(* ---------- callers: which structure, which slots ---------- *)
Lemma Sign1_tbs_data_eq m aad :
  Sign1_tbs_data m aad = sig_structure_data SigCoseSign1 (s1_prot m) None aad (match s1_payload m with Some b => b | None => [] end).
Proof. reflexivity. Qed.
Lemma Sign1_tbs_detached_data_eq m pl aad :
  Sign1_tbs_detached_data m pl aad =
    match s1_payload m with Some _ => Panic | None => sig_structure_data SigCoseSign1 (s1_prot m) None aad pl end.
Proof. unfold Sign1_tbs_detached_data. destruct (s1_payload m); reflexivity. Qed.
Lemma Sign_tbs_data_eq m aad sg :
  Sign_tbs_data m aad sg = sig_structure_data SigCoseSignature (sn_prot m) (Some (s_prot sg)) aad
                             (match sn_payload m with Some b => b | None => [] end).
Proof. reflexivity. Qed.
Lemma Sign_tbs_detached_data_eq m pl aad sg :
  Sign_tbs_detached_data m pl aad sg =
    match sn_payload m with Some _ => Panic | None => sig_structure_data SigCoseSignature (sn_prot m) (Some (s_prot sg)) aad pl end.
Proof. unfold Sign_tbs_detached_data. destruct (sn_payload m); reflexivity. Qed.
Lemma Sign1_verify_eq (R : Type) m aad (f : bytes -> bytes -> R) :
  Sign1_verify_signature m aad f = do tbs <- Sign1_tbs_data m aad; Ok (f (s1_sig m) tbs).
Proof. reflexivity. Qed.
Lemma Sign_verify_eq (R : Type) m w aad (f : bytes -> bytes -> R) :
  Sign_verify_signature m w aad f = do sg <- nth_res (sn_sigs m) w; do tbs <- Sign_tbs_data m aad sg; Ok (f (s_sig sg) tbs).
Proof. reflexivity. Qed.
Lemma nth_res_in_range {A} (l : list A) i : (i < length l)%nat -> exists x, nth_res l i = Ok x /\ nth_error l i = Some x.
Proof. revert i. induction l as [|a l IH]; intros [|i] H; cbn in *; try lia; eauto. apply IH. lia. Qed.
Lemma nth_res_out_of_range {A} (l : list A) i : (length l <= i)%nat -> nth_res l i = Panic.
Proof. revert i. induction l as [|a l IH]; intros [|i] H; cbn in *; try lia; auto. apply IH. lia. Qed.

Lemma Mac_tbm_eq m aad :
  Mac_tbm m aad = match mc_payload m with None => Panic | Some pl => mac_structure_data MacCoseMac (mc_prot m) aad pl end.
Proof. reflexivity. Qed.
Lemma Mac0_tbm_eq m aad :
  Mac0_tbm m aad = match m0_payload m with None => Panic | Some pl => mac_structure_data MacCoseMac0 (m0_prot m) aad pl end.
Proof. reflexivity. Qed.
Lemma Mac_verify_eq (R : Type) m aad (f : bytes -> bytes -> R) :
  Mac_verify_tag m aad f = do tbm <- Mac_tbm m aad; Ok (f (mc_tag m) tbm).
Proof. reflexivity. Qed.
Lemma Mac0_verify_eq (R : Type) m aad (f : bytes -> bytes -> R) :
  Mac0_verify_tag m aad f = do tbm <- Mac0_tbm m aad; Ok (f (m0_tag m) tbm).
Proof. reflexivity. Qed.

Lemma Encrypt_decrypt_eq (R : Type) m aad (f : bytes -> bytes -> R) :
  Encrypt_decrypt m aad f = match en_ct m with None => Panic
                            | Some ct => do a <- enc_structure_data EncCoseEncrypt (en_prot m) aad; Ok (f ct a) end.
Proof. reflexivity. Qed.
Lemma Encrypt0_decrypt_eq (R : Type) m aad (f : bytes -> bytes -> R) :
  Encrypt0_decrypt m aad f = match e0_ct m with None => Panic
                             | Some ct => do a <- enc_structure_data EncCoseEncrypt0 (e0_prot m) aad; Ok (f ct a) end.
Proof. reflexivity. Qed.
Lemma Recipient_decrypt_eq (R : Type) m c aad (f : bytes -> bytes -> R) :
  Recipient_decrypt m c aad f =
    match r_ct m with
    | None => Panic
    | Some ct => match c with
                 | EncEncRecipient | EncMacRecipient | EncRecRecipient =>
                     do a <- enc_structure_data c (r_prot m) aad; Ok (f ct a)
                 | _ => Panic
                 end
    end.
Proof. unfold Recipient_decrypt. destruct (r_ct m); [|reflexivity]. destruct c; reflexivity. Qed.
