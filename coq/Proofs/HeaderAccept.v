(* Accept-iff for the COSE header decoder, one nesting level, arbitrary nested decoders:
   the sequential decoder (seen-set, early exit, IV check after every step) accepts exactly
   what the declarative, order-insensitive specification `header_spec` accepts, with the same result. *)
From Coq Require Import Lia ZifyBool ZifyN ZifyNat.
From Coset.Model Require Import Prelude Cbor Iana Label Msg.
From Coset.gen Require Import Generated.
From Coset.Spec Require Import IanaRef Accept.
From Coset.Proofs Require Import Loop IanaTables.
Open Scope string_scope. Open Scope Z_scope. Open Scope list_scope.

Definition to_opt {A} (r : res A) : option A := match r with Ok a => Some a | _ => None end.

Lemma to_opt_ok {A} (r : res A) a : to_opt r = Some a <-> r = Ok a.
Proof. destruct r; cbn; split; congruence. Qed.

Lemma to_opt_bind {A B} (r : res A) (f : A -> res B) :
  to_opt (bind r f) = match to_opt r with Some a => to_opt (f a) | None => None end.
Proof. destruct r; reflexivity. Qed.

Lemma bind_no_panic {A B} (r : res A) (f : A -> res B) :
  r <> Panic -> (forall a, f a <> Panic) -> bind r f <> Panic.
Proof. destruct r; cbn; auto; congruence. Qed.

(* ---------- label constants ---------- *)
Lemma H_ALG_1 : H_ALG = 1. Proof. reflexivity. Qed.
Lemma H_CRIT_2 : H_CRIT = 2. Proof. reflexivity. Qed.
Lemma H_CONTENT_TYPE_3 : H_CONTENT_TYPE = 3. Proof. reflexivity. Qed.
Lemma H_KID_4 : H_KID = 4. Proof. reflexivity. Qed.
Lemma H_IV_5 : H_IV = 5. Proof. reflexivity. Qed.
Lemma H_PARTIAL_IV_6 : H_PARTIAL_IV = 6. Proof. reflexivity. Qed.
Lemma H_COUNTER_SIG_7 : H_COUNTER_SIG = 7. Proof. reflexivity. Qed.

(* ---------- arity of COSE_Signature ---------- *)
Lemma arity_sig n : arity_ok "CoseSignature" n = Nat.eqb n 3.
Proof.
  change (arity_ok "CoseSignature" n) with (existsb (Z.eqb (Z.of_nat n)) [3]).
  cbn [existsb]. rewrite orb_false_r.
  destruct (Nat.eqb_spec n 3); lia.
Qed.

(* ---------- keys / distinctness / lookup ---------- *)
Lemma is_i64_in_i64 z : is_i64 z = in_i64 z.
Proof. unfold is_i64, in_i64. change (2 ^ 63) with 9223372036854775808. reflexivity. Qed.

Lemma key_label_from_value k : key_label k = to_opt (label_from_value k).
Proof. destruct k; try reflexivity. cbn [key_label label_from_value]. unfold to_i64_res.
  rewrite is_i64_in_i64. destruct (in_i64 z); reflexivity. Qed.

Lemma key_labels_labels m : key_labels m = to_opt (labels m).
Proof. induction m as [|[k v] m IH]; [reflexivity|]. cbn [key_labels labels].
  rewrite key_label_from_value, IH.
  destruct (label_from_value k); cbn [to_opt bind]; try reflexivity.
  destruct (labels m); reflexivity. Qed.

Lemma keys_match m lm : labels m = Ok lm <-> key_labels m = Some lm.
Proof. rewrite key_labels_labels. symmetry. apply to_opt_ok. Qed.

Lemma label_in_In l ls : label_in l ls = true <-> In l ls.
Proof. induction ls as [|x r IH]; cbn [label_in In]; [split; [discriminate|tauto]|].
  split.
  - intros H. apply orb_true_iff in H as [H|H]; [left; symmetry; now apply label_eqb_eq|right; now apply IH].
  - intros [H|H]; apply orb_true_iff; [left; apply label_eqb_eq; auto|right; now apply IH]. Qed.

Lemma distinct_NoDup ls : distinct ls = true <-> NoDup ls.
Proof. induction ls as [|x r IH]; cbn [distinct].
  - split; auto. constructor.
  - rewrite andb_true_iff, negb_true_iff, IH. split.
    + intros [H1 H2]. constructor; auto. rewrite <- label_in_In. congruence.
    + intros H. inversion H; subst. split; auto.
      destruct (label_in x r) eqn:E; auto. apply label_in_In in E. tauto. Qed.

Lemma find_lookup l lm : find l lm = lookup l lm.
Proof. reflexivity. Qed.

(* ---------- shapes: each typed position of the decoder is the spec's shape ---------- *)
Lemma regp_alg_shape x :
  to_opt (regp_from_value "Algorithm" x) = alg_shape (registered T_Algorithm) x.
Proof.
  destruct x; try reflexivity. cbn [regp_from_value alg_shape]. unfold to_i64_res.
  change (is_i64 z) with (in_i64 z). destruct (in_i64 z); [|reflexivity]. cbn [bind].
  change (table_of "Algorithm") with T_Algorithm.
  destruct (registered T_Algorithm z); [reflexivity|].
  rewrite (is_private_iff "Algorithm") by (cbn; tauto). unfold private_use.
  destruct (z <? -65536); reflexivity.
Qed.

Lemma reg_reg_shape T x : to_opt (reg_from_value T x) = reg_shape (registered T) x.
Proof.
  destruct x; try reflexivity. cbn [reg_from_value reg_shape]. unfold to_i64_res.
  change (is_i64 z) with (in_i64 z). destruct (in_i64 z); [|reflexivity]. cbn [bind andb].
  destruct (registered T z); reflexivity.
Qed.

Lemma mapM_all_some {A B} (f : A -> res B) l :
  to_opt (mapM f l) = all_some (map (fun x => to_opt (f x)) l).
Proof. induction l as [|a r IH]; [reflexivity|]. cbn [mapM map all_some].
  rewrite to_opt_bind. destruct (to_opt (f a)); [|reflexivity].
  rewrite to_opt_bind, IH. destruct (all_some _); reflexivity. Qed.

Lemma map_ext_shape {A B} (f g : A -> B) l : (forall x, f x = g x) -> map f l = map g l.
Proof. intros H. induction l; cbn; congruence. Qed.

Lemma nonempty_shape x : to_opt (try_as_nonempty_bytes x) = nonempty_bstr x.
Proof. destruct x; try reflexivity. destruct b; reflexivity. Qed.

Definition crit_parse (x : value) : res (list reg_label) :=
  match x with
  | VArray a => if isnil a then Err EUnexpected else mapM (reg_from_value T_HeaderParameter) a
  | _ => Err EUnexpected
  end.

Lemma crit_parse_shape x : to_opt (crit_parse x) = crit_shape (registered T_HeaderParameter) x.
Proof. destruct x; try reflexivity. destruct l as [|y r]; [reflexivity|].
  cbn [crit_parse isnil crit_shape]. rewrite mapM_all_some.
  f_equal. apply map_ext_shape. intros. apply reg_reg_shape. Qed.

Definition ctype_parse (x : value) : res reg_label :=
  do c <- reg_from_value T_CoapContentFormat x;
  match c with
  | RText t => do _ <- check_content_type_text t; Ok c
  | _ => Ok c
  end.

Lemma ctype_parse_shape x :
  to_opt (ctype_parse x) = content_type_shape (registered T_CoapContentFormat) x.
Proof.
  unfold ctype_parse. rewrite to_opt_bind, reg_reg_shape.
  destruct x; try reflexivity.
  - cbn [reg_shape content_type_shape]. destruct (is_i64 z && registered T_CoapContentFormat z); reflexivity.
  - cbn [reg_shape content_type_shape]. unfold check_content_type_text, media_type_text.
    destruct (isnil t); [reflexivity|]. cbn [negb andb].
    destruct (ws_prefix t); [reflexivity|]. destruct (ws_suffix t); [reflexivity|].
    cbn [orb negb andb]. destruct (Nat.eqb (count_slash t) 1); reflexivity.
Qed.

Section Level.
  Variable parse_prot : bytes -> res header.
  Variable hv : value -> res header.

  Let sigf := signature_from_value_with parse_prot hv.

  Definition csig_parse (x : value) : res (list signature) :=
    match x with
    | VArray sig_or_sigs =>
      match sig_or_sigs with
      | [] => Err EUnexpected
      | VBytes _ :: _ => do s <- signature_from_value_with parse_prot hv x; Ok [s]
      | VArray _ :: _ => mapM (signature_from_value_with parse_prot hv) sig_or_sigs
      | _ => Err EUnexpected
      end
    | _ => Err EUnexpected
    end.

  Lemma csig_parse_shape x :
    to_opt (csig_parse x) = countersig_shape (fun y => to_opt (signature_from_value_with parse_prot hv y)) x.
  Proof.
    destruct x; try reflexivity. destruct l as [|y r]; [reflexivity|].
    destruct y; try reflexivity.
    - cbn [csig_parse countersig_shape]. rewrite to_opt_bind.
      destruct (to_opt _); reflexivity.
    - cbn [csig_parse countersig_shape]. apply mapM_all_some.
  Qed.

  (* ---------- the step, per label ---------- *)
  Definition guard (h : header) : res header := if iv_clash h then Err EUnexpected else Ok h.

  Definition step' (h : header) (l : label) (x : value) : res header :=
    if label_eqb l (LInt 1) then do a <- regp_from_value "Algorithm" x; Ok (set_alg (Some a) h)
    else if label_eqb l (LInt 2) then do c <- crit_parse x; Ok (set_crit (h_crit h ++ c) h)
    else if label_eqb l (LInt 3) then do c <- ctype_parse x; Ok (set_ctype (Some c) h)
    else if label_eqb l (LInt 4) then do b <- try_as_nonempty_bytes x; Ok (set_kid b h)
    else if label_eqb l (LInt 5) then do b <- try_as_nonempty_bytes x; Ok (set_iv b h)
    else if label_eqb l (LInt 6) then do b <- try_as_nonempty_bytes x; Ok (set_piv b h)
    else if label_eqb l (LInt 7) then do ss <- csig_parse x; Ok (set_csigs (h_csigs h ++ ss) h)
    else Ok (set_rest (h_rest h ++ [(l, x)]) h).

  Lemma crit_branch {B} (G : list reg_label -> B) x :
    match x with
    | VArray a => if isnil a then Err EUnexpected
                  else do c <- mapM (reg_from_value T_HeaderParameter) a; Ok (G c)
    | _ => Err EUnexpected
    end = do c <- crit_parse x; Ok (G c).
  Proof. destruct x; try reflexivity. destruct l; reflexivity. Qed.

  Lemma ctype_branch {B} (G : reg_label -> B) x :
    (do c <- reg_from_value T_CoapContentFormat x;
     match c with
     | RText t => do _ <- check_content_type_text t; Ok (G c)
     | _ => Ok (G c)
     end) = do c <- ctype_parse x; Ok (G c).
  Proof. unfold ctype_parse. destruct (reg_from_value T_CoapContentFormat x) as [[z|t]| | |]; try reflexivity.
    cbn [bind]. destruct (check_content_type_text t) as [[]| | |]; reflexivity. Qed.

  Lemma csig_branch {B} (G : list signature -> B) x :
    match x with
    | VArray sig_or_sigs =>
      match sig_or_sigs with
      | [] => Err EUnexpected
      | VBytes _ :: _ => do s <- signature_from_value_with parse_prot hv x; Ok (G [s])
      | VArray _ :: _ => do ss <- mapM (signature_from_value_with parse_prot hv) sig_or_sigs; Ok (G ss)
      | _ => Err EUnexpected
      end
    | _ => Err EUnexpected
    end = do ss <- csig_parse x; Ok (G ss).
  Proof. destruct x; try reflexivity. destruct l as [|y r]; [reflexivity|]. destruct y; try reflexivity.
    cbn [csig_parse]. destruct (signature_from_value_with _ _ _); reflexivity. Qed.

  Lemma header_step_cases h l x :
    header_step parse_prot hv h l x = do h' <- step' h l x; guard h'.
  Proof.
    unfold header_step, step'. rewrite !is_lint_eqb.
    rewrite H_ALG_1, H_CRIT_2, H_CONTENT_TYPE_3, H_KID_4, H_IV_5, H_PARTIAL_IV_6, H_COUNTER_SIG_7.
    rewrite (crit_branch (fun c => set_crit (h_crit h ++ c) h)).
    rewrite (ctype_branch (fun c => set_ctype (Some c) h)).
    rewrite (csig_branch (fun ss => set_csigs (h_csigs h ++ ss) h)).
    reflexivity.
  Qed.
End Level.

(* ---------- no panic ---------- *)
Lemma mapM_no_panic {A B} (f : A -> res B) : (forall x, f x <> Panic) -> forall l, mapM f l <> Panic.
Proof. intros NP. induction l as [|a r IH]; cbn [mapM]; [discriminate|].
  apply bind_no_panic; auto. intros b. apply bind_no_panic; auto. discriminate. Qed.

Lemma try_as_bytes_no_panic x : try_as_bytes x <> Panic.
Proof. destruct x; discriminate. Qed.
Lemma try_as_nonempty_bytes_no_panic x : try_as_nonempty_bytes x <> Panic.
Proof. destruct x; try discriminate. destruct b; discriminate. Qed.
Lemma regp_from_value_no_panic reg x : regp_from_value reg x <> Panic.
Proof. destruct x; try discriminate. cbn [regp_from_value]. unfold to_i64_res.
  destruct (in_i64 z); cbn [bind]; [|discriminate].
  destruct (registered _ z); [discriminate|]. destruct (is_private reg z); discriminate. Qed.
Lemma reg_from_value_no_panic T x : reg_from_value T x <> Panic.
Proof. destruct x; try discriminate. cbn [reg_from_value]. unfold to_i64_res.
  destruct (in_i64 z); cbn [bind]; [|discriminate]. destruct (registered _ z); discriminate. Qed.
Lemma crit_parse_no_panic x : crit_parse x <> Panic.
Proof. destruct x; try discriminate. cbn [crit_parse]. destruct (isnil l); [discriminate|].
  apply mapM_no_panic. apply reg_from_value_no_panic. Qed.
Lemma ctype_parse_no_panic x : ctype_parse x <> Panic.
Proof. unfold ctype_parse. apply bind_no_panic; [apply reg_from_value_no_panic|].
  intros [z|t]; [discriminate|]. unfold check_content_type_text.
  destruct (isnil t); [discriminate|]. destruct (ws_prefix t || ws_suffix t); [discriminate|].
  destruct (negb _); discriminate. Qed.

Section NoPanic.
  Variable parse_prot : bytes -> res header.
  Variable hv : value -> res header.
  Hypothesis hv_np : forall x, hv x <> Panic.
  Hypothesis pp_np : forall b, parse_prot b <> Panic.

  Lemma protected_from_bstr_no_panic x : protected_from_bstr parse_prot x <> Panic.
  Proof. unfold protected_from_bstr. apply bind_no_panic; [apply try_as_bytes_no_panic|].
    intros d. destruct (isnil d); [discriminate|]. apply bind_no_panic; auto. discriminate. Qed.

  Lemma signature_from_value_with_no_panic x : signature_from_value_with parse_prot hv x <> Panic.
  Proof. destruct x; try discriminate. cbn [signature_from_value_with]. rewrite arity_sig.
    destruct l as [|x0 [|x1 [|x2 [|x3 r]]]]; cbn [length Nat.eqb negb]; try discriminate.
    apply bind_no_panic; [apply try_as_bytes_no_panic|]. intros sg.
    apply bind_no_panic; auto. intros u.
    apply bind_no_panic; [apply protected_from_bstr_no_panic|]. discriminate. Qed.

  Lemma csig_parse_no_panic x : csig_parse parse_prot hv x <> Panic.
  Proof. destruct x; try discriminate. destruct l as [|y r]; [discriminate|]. destruct y; try discriminate.
    - cbn [csig_parse]. apply bind_no_panic; [apply signature_from_value_with_no_panic|]. discriminate.
    - cbn [csig_parse]. apply mapM_no_panic. apply signature_from_value_with_no_panic. Qed.

  Lemma step'_no_panic h l x : step' parse_prot hv h l x <> Panic.
  Proof. unfold step'.
    repeat match goal with |- (if ?c then _ else _) <> _ => destruct c end;
    try (apply bind_no_panic; [|discriminate]);
    auto using regp_from_value_no_panic, crit_parse_no_panic, ctype_parse_no_panic,
               try_as_nonempty_bytes_no_panic, csig_parse_no_panic.
    discriminate. Qed.

  Lemma header_step_no_panic_sec h l x : header_step parse_prot hv h l x <> Panic.
  Proof. rewrite header_step_cases. apply bind_no_panic; [apply step'_no_panic|].
    intros h'. unfold guard. destruct (iv_clash h'); discriminate. Qed.
End NoPanic.

Lemma header_step_no_panic : forall pp hv, (forall x, hv x <> Panic) -> (forall b, pp b <> Panic) ->
  forall h l x, header_step pp hv h l x <> Panic.
Proof. intros. now apply header_step_no_panic_sec. Qed.

(* ---------- the fold is the lookup-based merge ---------- *)
Lemma label_eqb_refl a : label_eqb a a = true. Proof. now apply label_eqb_eq. Qed.
Lemma label_eqb_sym a b : label_eqb a b = label_eqb b a.
Proof. destruct (label_eqb a b) eqn:E; destruct (label_eqb b a) eqn:F; auto.
  - apply label_eqb_eq in E. subst. rewrite label_eqb_refl in F. discriminate.
  - apply label_eqb_eq in F. subst. rewrite label_eqb_refl in E. discriminate. Qed.

Lemma non_std_label l :
  label_eqb l (LInt 1) = false -> label_eqb l (LInt 2) = false -> label_eqb l (LInt 3) = false ->
  label_eqb l (LInt 4) = false -> label_eqb l (LInt 5) = false -> label_eqb l (LInt 6) = false ->
  label_eqb l (LInt 7) = false -> std_header_label l = false.
Proof. destruct l; [|reflexivity]. cbn [label_eqb std_header_label]. lia. Qed.

Lemma nonempty_bstr_nonnil x b : nonempty_bstr x = Some b -> isnil b = false.
Proof. destruct x; try discriminate. destruct b0; [discriminate|]. now intros [= <-]. Qed.

Section Merge.
  Variable parse_prot : bytes -> res header.
  Variable hv : value -> res header.

  Notation RA := (registered T_Algorithm).
  Notation RH := (registered T_HeaderParameter).
  Notation RC := (registered T_CoapContentFormat).
  Definition sig_acc_of : value -> option signature :=
    fun y => to_opt (signature_from_value_with parse_prot hv y).
  Notation non_std := (fun e : label * value => negb (std_header_label (fst e))).

  Definition merge' (h : header) (lm : list (label * value)) : option header :=
    match field (lookup (LInt 1) lm) (fun x => option_map Some (alg_shape RA x)) (h_alg h),
          field (lookup (LInt 2) lm) (fun x => option_map (app (h_crit h)) (crit_shape RH x)) (h_crit h),
          field (lookup (LInt 3) lm) (fun x => option_map Some (content_type_shape RC x)) (h_ctype h),
          field (lookup (LInt 4) lm) nonempty_bstr (h_kid h),
          field (lookup (LInt 5) lm) nonempty_bstr (h_iv h),
          field (lookup (LInt 6) lm) nonempty_bstr (h_piv h),
          field (lookup (LInt 7) lm) (fun x => option_map (app (h_csigs h)) (countersig_shape sig_acc_of x)) (h_csigs h) with
    | Some a, Some c, Some ct, Some kid, Some iv, Some piv, Some cs =>
      Some (mkHeader a c ct kid iv piv cs (h_rest h ++ filter non_std lm))
    | _, _, _, _, _, _, _ => None
    end.

  Ltac kill_fields :=
    repeat (match goal with |- context [match field ?a ?b ?c with _ => _ end] => destruct (field a b c) end);
    try reflexivity.

  Ltac hproj := cbn [set_alg set_crit set_ctype set_kid set_iv set_piv set_csigs set_rest
                     h_alg h_crit h_ctype h_kid h_iv h_piv h_csigs h_rest].

  Lemma foldM_step'_merge : forall lm h, NoDup (map fst lm) ->
    to_opt (foldM (step' parse_prot hv) lm h) = merge' h lm.
  Proof.
    induction lm as [|[l v] r IH]; intros h ND.
    - unfold merge'. cbn [foldM to_opt lookup field filter]. rewrite app_nil_r. destruct h; reflexivity.
    - inversion ND as [|? ? NI ND']; subst. cbn [foldM map fst] in *. rewrite to_opt_bind.
      pose proof (lookup_notin l r NI) as LN.
      unfold step'.
      destruct (label_eqb l (LInt 1)) eqn:E1.
      { apply label_eqb_eq in E1. subst l. rewrite to_opt_bind, regp_alg_shape.
        destruct (alg_shape RA v) as [a|] eqn:SA; cbn [to_opt].
        - rewrite IH by assumption. unfold merge'. cbn [lookup label_eqb Z.eqb Pos.eqb]. rewrite LN.
          cbn [field filter fst]. change (std_header_label (LInt 1)) with true. cbn [negb].
          rewrite SA. destruct h; hproj. reflexivity.
        - unfold merge'. cbn [lookup label_eqb Z.eqb Pos.eqb field]. rewrite SA. reflexivity. }
      destruct (label_eqb l (LInt 2)) eqn:E2.
      { apply label_eqb_eq in E2. subst l. rewrite to_opt_bind, crit_parse_shape.
        destruct (crit_shape RH v) as [a|] eqn:SA; cbn [to_opt].
        - rewrite IH by assumption. unfold merge'. cbn [lookup label_eqb Z.eqb Pos.eqb]. rewrite LN.
          cbn [field filter fst]. change (std_header_label (LInt 2)) with true. cbn [negb].
          rewrite SA. destruct h; hproj. reflexivity.
        - unfold merge'. cbn [lookup label_eqb Z.eqb Pos.eqb field]. rewrite SA. cbn [option_map]. kill_fields. }
      destruct (label_eqb l (LInt 3)) eqn:E3.
      { apply label_eqb_eq in E3. subst l. rewrite to_opt_bind, ctype_parse_shape.
        destruct (content_type_shape RC v) as [a|] eqn:SA; cbn [to_opt].
        - rewrite IH by assumption. unfold merge'. cbn [lookup label_eqb Z.eqb Pos.eqb]. rewrite LN.
          cbn [field filter fst]. change (std_header_label (LInt 3)) with true. cbn [negb].
          rewrite SA. destruct h; hproj. reflexivity.
        - unfold merge'. cbn [lookup label_eqb Z.eqb Pos.eqb field]. rewrite SA. cbn [option_map]. kill_fields. }
      destruct (label_eqb l (LInt 4)) eqn:E4.
      { apply label_eqb_eq in E4. subst l. rewrite to_opt_bind, nonempty_shape.
        destruct (nonempty_bstr v) as [a|] eqn:SA; cbn [to_opt].
        - rewrite IH by assumption. unfold merge'. cbn [lookup label_eqb Z.eqb Pos.eqb]. rewrite LN.
          cbn [field filter fst]. change (std_header_label (LInt 4)) with true. cbn [negb].
          rewrite SA. destruct h; hproj. reflexivity.
        - unfold merge'. cbn [lookup label_eqb Z.eqb Pos.eqb field]. rewrite SA. kill_fields. }
      destruct (label_eqb l (LInt 5)) eqn:E5.
      { apply label_eqb_eq in E5. subst l. rewrite to_opt_bind, nonempty_shape.
        destruct (nonempty_bstr v) as [a|] eqn:SA; cbn [to_opt].
        - rewrite IH by assumption. unfold merge'. cbn [lookup label_eqb Z.eqb Pos.eqb]. rewrite LN.
          cbn [field filter fst]. change (std_header_label (LInt 5)) with true. cbn [negb].
          rewrite SA. destruct h; hproj. reflexivity.
        - unfold merge'. cbn [lookup label_eqb Z.eqb Pos.eqb field]. rewrite SA. kill_fields. }
      destruct (label_eqb l (LInt 6)) eqn:E6.
      { apply label_eqb_eq in E6. subst l. rewrite to_opt_bind, nonempty_shape.
        destruct (nonempty_bstr v) as [a|] eqn:SA; cbn [to_opt].
        - rewrite IH by assumption. unfold merge'. cbn [lookup label_eqb Z.eqb Pos.eqb]. rewrite LN.
          cbn [field filter fst]. change (std_header_label (LInt 6)) with true. cbn [negb].
          rewrite SA. destruct h; hproj. reflexivity.
        - unfold merge'. cbn [lookup label_eqb Z.eqb Pos.eqb field]. rewrite SA. kill_fields. }
      destruct (label_eqb l (LInt 7)) eqn:E7.
      { apply label_eqb_eq in E7. subst l. rewrite to_opt_bind, csig_parse_shape.
        fold sig_acc_of.
        destruct (countersig_shape sig_acc_of v) as [a|] eqn:SA; cbn [to_opt].
        - rewrite IH by assumption. unfold merge'. cbn [lookup label_eqb Z.eqb Pos.eqb]. rewrite LN.
          cbn [field filter fst]. change (std_header_label (LInt 7)) with true. cbn [negb].
          rewrite SA. destruct h; hproj. reflexivity.
        - unfold merge'. cbn [lookup label_eqb Z.eqb Pos.eqb field]. rewrite SA. cbn [option_map]. kill_fields. }
      cbn [to_opt]. rewrite IH by assumption. unfold merge'. cbn [lookup filter fst].
      rewrite (non_std_label l E1 E2 E3 E4 E5 E6 E7). cbn [negb].
      rewrite !(label_eqb_sym (LInt _) l), E1, E2, E3, E4, E5, E6, E7.
      destruct h; hproj. rewrite <- app_assoc. reflexivity.
  Qed.
End Merge.

(* ---------- IV / Partial IV: checking after every step = checking once at the end ---------- *)
Section Clash.
  Variable parse_prot : bytes -> res header.
  Variable hv : value -> res header.

  Lemma try_as_nonempty_bytes_nonnil x b : try_as_nonempty_bytes x = Ok b -> isnil b = false.
  Proof. destruct x; try discriminate. destruct b0; [discriminate|]. now intros [= <-]. Qed.

  (* a clash, once present, stays: iv / partial_iv are only ever overwritten by non-empty strings *)
  Lemma step'_clash_mono h l x h' :
    step' parse_prot hv h l x = Ok h' -> iv_clash h = true -> iv_clash h' = true.
  Proof.
    unfold step'. intros S C.
    repeat match type of S with (if ?c then _ else _) = _ => destruct c end;
    match type of S with
    | bind ?r _ = _ => destruct r as [a| | |] eqn:P; cbn [bind] in S; try discriminate
    | _ => idtac
    end; injection S as <-; try exact C.
    - apply try_as_nonempty_bytes_nonnil in P. unfold iv_clash in *. cbn [set_iv h_iv h_piv].
      apply andb_true_iff in C as [_ C]. now rewrite P, C.
    - apply try_as_nonempty_bytes_nonnil in P. unfold iv_clash in *. cbn [set_piv h_iv h_piv].
      apply andb_true_iff in C as [C _]. now rewrite P, C.
  Qed.

  Lemma foldM_clash_mono : forall lm h h',
    foldM (step' parse_prot hv) lm h = Ok h' -> iv_clash h = true -> iv_clash h' = true.
  Proof. induction lm as [|[l v] r IH]; intros h h' F C; cbn [foldM] in F.
    - now injection F as <-.
    - destruct (step' parse_prot hv h l v) as [h1| | |] eqn:S1; cbn [bind] in F; try discriminate.
      eapply IH; eauto. eapply step'_clash_mono; eauto. Qed.

  Definition final_guard (o : option header) : option header :=
    match o with Some h' => if iv_clash h' then None else Some h' | None => None end.

  Lemma foldM_guard : forall lm h, iv_clash h = false ->
    to_opt (foldM (header_step parse_prot hv) lm h) = final_guard (to_opt (foldM (step' parse_prot hv) lm h)).
  Proof.
    induction lm as [|[l v] r IH]; intros h C; cbn [foldM].
    - cbn [to_opt final_guard]. now rewrite C.
    - rewrite header_step_cases.
      destruct (step' parse_prot hv h l v) as [h1| | |] eqn:S1; cbn [bind to_opt final_guard]; try reflexivity.
      unfold guard. destruct (iv_clash h1) eqn:C1; cbn [bind to_opt].
      + destruct (foldM (step' parse_prot hv) r h1) as [h2| | |] eqn:F; cbn [to_opt final_guard]; try reflexivity.
        now rewrite (foldM_clash_mono _ _ _ F C1).
      + now apply IH.
  Qed.
End Clash.

(* ---------- the theorem ---------- *)
Definition map_based_decoder (parse_prot : bytes -> res header) (hv : value -> res header) (v : value) : res header :=
  match v with
  | VMap m => map_loop (header_step parse_prot hv) m header_default []
  | _ => Err EUnexpected
  end.

Section Spec.
  Variable alg_reg header_param_reg content_format_reg : Z -> bool.
  Variable sig_acc : value -> option signature.

  (* header_spec, after key normalisation *)
  Definition header_spec_body (lm : list (label * value)) : option header :=
    match field (find (LInt 1) lm) (fun x => option_map Some (alg_shape alg_reg x)) None,
          field (find (LInt 2) lm) (crit_shape header_param_reg) [],
          field (find (LInt 3) lm) (fun x => option_map Some (content_type_shape content_format_reg x)) None,
          field (find (LInt 4) lm) nonempty_bstr [],
          field (find (LInt 5) lm) nonempty_bstr [],
          field (find (LInt 6) lm) nonempty_bstr [],
          field (find (LInt 7) lm) (countersig_shape sig_acc) [] with
    | Some a, Some c, Some ct, Some kid, Some iv, Some piv, Some cs =>
      if negb (isnil iv) && negb (isnil piv) then None
      else Some (mkHeader a c ct kid iv piv cs (filter (fun e => negb (std_header_label (fst e))) lm))
    | _, _, _, _, _, _, _ => None
    end.

  Lemma header_spec_unfold m :
    header_spec alg_reg header_param_reg content_format_reg sig_acc (VMap m) =
    match key_labels m with
    | None => None
    | Some lm => if negb (distinct (map fst lm)) then None else header_spec_body lm
    end.
  Proof. reflexivity. Qed.
End Spec.

Lemma field_app_nil {A} o (f : value -> option (list A)) :
  field o (fun x => option_map (app []) (f x)) [] = field o f [].
Proof. destruct o; cbn [field]; [|reflexivity]. destruct (f v); reflexivity. Qed.

Lemma merge'_default parse_prot hv lm :
  final_guard (merge' parse_prot hv header_default lm) =
  header_spec_body (registered T_Algorithm) (registered T_HeaderParameter) (registered T_CoapContentFormat)
                   (sig_acc_of parse_prot hv) lm.
Proof.
  unfold merge', header_spec_body.
  cbn [header_default h_alg h_crit h_ctype h_kid h_iv h_piv h_csigs h_rest].
  rewrite !field_app_nil. change find with lookup.
  repeat (match goal with |- context [match field ?a ?b ?c with _ => _ end] => destruct (field a b c) end);
    reflexivity.
Qed.

Theorem foldM_header_spec parse_prot hv lm : NoDup (map fst lm) ->
  to_opt (foldM (header_step parse_prot hv) lm header_default) =
  header_spec_body (registered T_Algorithm) (registered T_HeaderParameter) (registered T_CoapContentFormat)
                   (fun x => to_opt (signature_from_value_with parse_prot hv x)) lm.
Proof. intros ND. rewrite foldM_guard by reflexivity. rewrite foldM_step'_merge by assumption.
  apply merge'_default. Qed.

Theorem header_accept_iff :
  forall (parse_prot : bytes -> res header) (hv : value -> res header) (v : value) (h : header),
    map_based_decoder parse_prot hv v = Ok h
    <->
    header_spec (registered T_Algorithm) (registered T_HeaderParameter) (registered T_CoapContentFormat)
                (fun x => to_opt (signature_from_value_with parse_prot hv x)) v = Some h.
Proof.
  intros pp hv v h. destruct v; try (split; discriminate).
  unfold map_based_decoder. rewrite header_spec_unfold, map_loop_iff. split.
  - intros (lm & L & ND & _ & F). apply keys_match in L. rewrite L.
    rewrite (proj2 (distinct_NoDup _) ND). cbn [negb].
    rewrite <- foldM_header_spec by assumption. now apply to_opt_ok.
  - destruct (key_labels m) as [lm|] eqn:L; [|discriminate].
    destruct (distinct (map fst lm)) eqn:D; cbn [negb]; [|discriminate].
    apply distinct_NoDup in D. intros SP. exists lm. repeat split; auto.
    + now apply keys_match.
    + apply to_opt_ok. now rewrite foldM_header_spec.
Qed.

(* each direction, for reference *)
Corollary header_accept_sound parse_prot hv v h :
  map_based_decoder parse_prot hv v = Ok h ->
  header_spec (registered T_Algorithm) (registered T_HeaderParameter) (registered T_CoapContentFormat)
              (fun x => to_opt (signature_from_value_with parse_prot hv x)) v = Some h.
Proof. apply header_accept_iff. Qed.
Corollary header_accept_complete parse_prot hv v h :
  header_spec (registered T_Algorithm) (registered T_HeaderParameter) (registered T_CoapContentFormat)
              (fun x => to_opt (signature_from_value_with parse_prot hv x)) v = Some h ->
  map_based_decoder parse_prot hv v = Ok h.
Proof. apply header_accept_iff. Qed.

Lemma header_from_value_unfold parse_prot v :
  header_from_value parse_prot v = map_based_decoder parse_prot (header_from_value parse_prot) v.
Proof. destruct v; reflexivity. Qed.

Corollary header_from_value_accept_iff :
  forall parse_prot v h,
    header_from_value parse_prot v = Ok h <->
    header_spec (registered T_Algorithm) (registered T_HeaderParameter) (registered T_CoapContentFormat)
                (fun x => to_opt (signature_from_value parse_prot x)) v = Some h.
Proof. intros pp v h. rewrite header_from_value_unfold. apply header_accept_iff. Qed.

(* the decoder never fails for a reason other than Err when it does not accept: in particular a
   rejected map is rejected by the specification as well *)
Corollary header_reject_iff parse_prot hv v :
  (forall h, map_based_decoder parse_prot hv v <> Ok h) <->
  header_spec (registered T_Algorithm) (registered T_HeaderParameter) (registered T_CoapContentFormat)
              (fun x => to_opt (signature_from_value_with parse_prot hv x)) v = None.
Proof. split.
  - intros H. destruct (header_spec _ _ _ _ v) as [h|] eqn:E; auto. apply header_accept_iff in E. now apply H in E.
  - intros E h D. apply header_accept_iff in D. congruence. Qed.

Print Assumptions header_accept_iff.
Print Assumptions header_from_value_accept_iff.
Print Assumptions header_step_no_panic.
