(* C02: the byte string of a protected header is retained exactly as received, at every nesting
   level, and is what is written back on encoding; the parsed view does not depend on the encoding. *)
From Coq Require Import Lia.
From Coset.Model Require Import Prelude Cbor Iana Label Msg Context.
From Coset.Proofs Require Import RoundTrip Structures MsgAccept.
Require Import ZifyBool ZifyN ZifyNat.
Open Scope Z_scope. Open Scope list_scope.

(* ====================================================================== *)
(* 1. the decoder keeps the bytes; the encoder writes them back            *)
(* ====================================================================== *)
Theorem protected_retained : forall parse v ph,
  protected_from_bstr parse v = Ok ph ->
  exists p, v = VBytes p /\ p_orig ph = Some p /\ protected_cbor_bstr ph = Ok (VBytes p).
Proof.
  intros parse v ph H. destruct (protected_bytes_decoded parse v ph H) as (d & -> & O & B).
  exists d. repeat split; auto. rewrite protected_cbor_bstr_bytes, B. reflexivity.
Qed.

(* whatever p_hdr is: the parsed header is never re-encoded *)
Theorem protected_reencoded_verbatim : forall ph p,
  p_orig ph = Some p -> protected_cbor_bstr ph = Ok (VBytes p).
Proof. intros [o h] p H. cbn [p_orig] in H. subst o. reflexivity. Qed.

(* ====================================================================== *)
(* 2. every carrier: slot retained at the top level, written back verbatim *)
(* ====================================================================== *)
Ltac bd H :=
  repeat match type of H with
  | bind ?r _ = Ok _ => let E := fresh "E" in destruct r eqn:E; cbn [bind] in H; try discriminate H
  end.

Ltac ifc H :=
  match type of H with (if ?c then _ else _) = _ => destruct c; [discriminate H|] end.

Ltac enc_first p :=
  let v' := fresh "v'" in let T := fresh "T" in
  intros v' T;
  match type of T with
  | bind (protected_cbor_bstr ?q) _ = _ =>
      rewrite (protected_reencoded_verbatim q p) in T by assumption; cbn [bind] in T
  end;
  bd T; injection T as <-; eexists; reflexivity.

Theorem CoseSign1_protected_retained : forall v m, CoseSign1_from_value v = Ok m ->
  exists p rest, v = VArray (VBytes p :: rest) /\ p_orig (s1_prot m) = Some p /\
    (forall v', CoseSign1_to_value m = Ok v' -> exists rest', v' = VArray (VBytes p :: rest')).
Proof.
  intros v m H. unfold CoseSign1_from_value in H.
  destruct v as [| | | | | | |a|]; cbn [try_as_array bind] in H; try discriminate H.
  rewrite arity_sign1 in H.
  destruct a as [|x0 [|x1 [|x2 [|x3 a]]]]; cbn [List.length Nat.eqb negb] in H; try discriminate H.
  ifc H. bd H. injection H as <-. unfold ProtectedHeader_from_cbor_bstr in *.
  match goal with E : protected_from_bstr _ _ = Ok _ |- _ => apply protected_retained in E as (p & -> & O & _) end.
  exists p. eexists. split; [reflexivity|]. split; [exact O|].
  unfold CoseSign1_to_value. cbn [s1_prot s1_unprot s1_payload s1_sig] in *. enc_first p.
Qed.

Theorem CoseSign_protected_retained : forall v m, CoseSign_from_value v = Ok m ->
  exists p rest, v = VArray (VBytes p :: rest) /\ p_orig (sn_prot m) = Some p /\
    (forall v', CoseSign_to_value m = Ok v' -> exists rest', v' = VArray (VBytes p :: rest')).
Proof.
  intros v m H. unfold CoseSign_from_value in H.
  destruct v as [| | | | | | |a|]; cbn [try_as_array bind] in H; try discriminate H.
  rewrite arity_sign in H.
  destruct a as [|x0 [|x1 [|x2 [|x3 a]]]]; cbn [List.length Nat.eqb negb] in H; try discriminate H.
  ifc H. bd H. injection H as <-. unfold ProtectedHeader_from_cbor_bstr in *.
  match goal with E : protected_from_bstr _ _ = Ok _ |- _ => apply protected_retained in E as (p & -> & O & _) end.
  exists p. eexists. split; [reflexivity|]. split; [exact O|].
  unfold CoseSign_to_value. cbn [sn_prot sn_unprot sn_payload sn_sigs] in *. enc_first p.
Qed.

Theorem CoseMac0_protected_retained : forall v m, CoseMac0_from_value v = Ok m ->
  exists p rest, v = VArray (VBytes p :: rest) /\ p_orig (m0_prot m) = Some p /\
    (forall v', CoseMac0_to_value m = Ok v' -> exists rest', v' = VArray (VBytes p :: rest')).
Proof.
  intros v m H. unfold CoseMac0_from_value in H.
  destruct v as [| | | | | | |a|]; cbn [try_as_array bind] in H; try discriminate H.
  rewrite arity_mac0 in H.
  destruct a as [|x0 [|x1 [|x2 [|x3 a]]]]; cbn [List.length Nat.eqb negb] in H; try discriminate H.
  ifc H. bd H. injection H as <-. unfold ProtectedHeader_from_cbor_bstr in *.
  match goal with E : protected_from_bstr _ _ = Ok _ |- _ => apply protected_retained in E as (p & -> & O & _) end.
  exists p. eexists. split; [reflexivity|]. split; [exact O|].
  unfold CoseMac0_to_value. cbn [m0_prot m0_unprot m0_payload m0_tag] in *. enc_first p.
Qed.

Theorem CoseMac_protected_retained : forall v m, CoseMac_from_value v = Ok m ->
  exists p rest, v = VArray (VBytes p :: rest) /\ p_orig (mc_prot m) = Some p /\
    (forall v', CoseMac_to_value m = Ok v' -> exists rest', v' = VArray (VBytes p :: rest')).
Proof.
  intros v m H. unfold CoseMac_from_value in H.
  destruct v as [| | | | | | |a|]; cbn [try_as_array bind] in H; try discriminate H.
  rewrite arity_mac in H.
  destruct a as [|x0 [|x1 [|x2 [|x3 [|x4 a]]]]]; cbn [List.length Nat.eqb negb] in H; try discriminate H.
  ifc H. bd H. injection H as <-. unfold ProtectedHeader_from_cbor_bstr in *.
  match goal with E : protected_from_bstr _ _ = Ok _ |- _ => apply protected_retained in E as (p & -> & O & _) end.
  exists p. eexists. split; [reflexivity|]. split; [exact O|].
  unfold CoseMac_to_value. cbn [mc_prot mc_unprot mc_payload mc_tag mc_recipients] in *. enc_first p.
Qed.

Theorem CoseEncrypt_protected_retained : forall v m, CoseEncrypt_from_value v = Ok m ->
  exists p rest, v = VArray (VBytes p :: rest) /\ p_orig (en_prot m) = Some p /\
    (forall v', CoseEncrypt_to_value m = Ok v' -> exists rest', v' = VArray (VBytes p :: rest')).
Proof.
  intros v m H. unfold CoseEncrypt_from_value in H.
  destruct v as [| | | | | | |a|]; cbn [try_as_array bind] in H; try discriminate H.
  rewrite arity_encrypt in H.
  destruct a as [|x0 [|x1 [|x2 [|x3 a]]]]; cbn [List.length Nat.eqb negb] in H; try discriminate H.
  ifc H. bd H. injection H as <-. unfold ProtectedHeader_from_cbor_bstr in *.
  match goal with E : protected_from_bstr _ _ = Ok _ |- _ => apply protected_retained in E as (p & -> & O & _) end.
  exists p. eexists. split; [reflexivity|]. split; [exact O|].
  unfold CoseEncrypt_to_value. cbn [en_prot en_unprot en_ct en_recipients] in *. enc_first p.
Qed.

Theorem CoseEncrypt0_protected_retained : forall v m, CoseEncrypt0_from_value v = Ok m ->
  exists p rest, v = VArray (VBytes p :: rest) /\ p_orig (e0_prot m) = Some p /\
    (forall v', CoseEncrypt0_to_value m = Ok v' -> exists rest', v' = VArray (VBytes p :: rest')).
Proof.
  intros v m H. unfold CoseEncrypt0_from_value in H.
  destruct v as [| | | | | | |a|]; cbn [try_as_array bind] in H; try discriminate H.
  rewrite arity_encrypt0 in H.
  destruct a as [|x0 [|x1 [|x2 a]]]; cbn [List.length Nat.eqb negb] in H; try discriminate H.
  ifc H. bd H. injection H as <-. unfold ProtectedHeader_from_cbor_bstr in *.
  match goal with E : protected_from_bstr _ _ = Ok _ |- _ => apply protected_retained in E as (p & -> & O & _) end.
  exists p. eexists. split; [reflexivity|]. split; [exact O|].
  unfold CoseEncrypt0_to_value. cbn [e0_prot e0_unprot e0_ct] in *. enc_first p.
Qed.

Theorem CoseRecipient_protected_retained : forall v m, CoseRecipient_from_value v = Ok m ->
  exists p rest, v = VArray (VBytes p :: rest) /\ p_orig (r_prot m) = Some p /\
    (forall v', CoseRecipient_to_value m = Ok v' -> exists rest', v' = VArray (VBytes p :: rest')).
Proof.
  intros v m H.
  destruct v as [| | | | | | |a|]; cbn [CoseRecipient_from_value] in H; try discriminate H.
  rewrite arity_recipient in H.
  destruct a as [|x0 [|x1 [|x2 rest]]]; cbn [List.length Nat.eqb negb orb] in H; try discriminate H.
  ifc H. bd H. injection H as <-. unfold ProtectedHeader_from_cbor_bstr in *.
  match goal with E : protected_from_bstr _ _ = Ok _ |- _ => apply protected_retained in E as (p & -> & O & _) end.
  exists p. eexists. split; [reflexivity|]. split; [exact O|].
  cbn [CoseRecipient_to_value r_prot r_unprot r_ct r_recipients] in *.
  intros v' T. rewrite (protected_reencoded_verbatim _ p O) in T. cbn [bind] in T.
  bd T. injection T as <-. cbn [app]. eexists; reflexivity.
Qed.

Theorem CoseSignature_protected_retained : forall v m, CoseSignature_from_value v = Ok m ->
  exists p rest, v = VArray (VBytes p :: rest) /\ p_orig (s_prot m) = Some p /\
    (forall v', CoseSignature_to_value m = Ok v' -> exists rest', v' = VArray (VBytes p :: rest')).
Proof.
  intros v m H. unfold CoseSignature_from_value, signature_from_value, signature_from_value_with in H.
  destruct v as [| | | | | | |a|]; try discriminate H.
  rewrite arity_signature in H.
  destruct a as [|x0 [|x1 [|x2 a]]]; cbn [List.length Nat.eqb negb] in H; try discriminate H.
  ifc H. bd H. injection H as <-.
  match goal with E : protected_from_bstr _ _ = Ok _ |- _ => apply protected_retained in E as (p & -> & O & _) end.
  exists p. eexists. split; [reflexivity|]. split; [exact O|].
  unfold CoseSignature_to_value. cbn [signature_to_value s_prot s_unprot s_sig] in *.
  intros v' T. rewrite (protected_reencoded_verbatim _ p O) in T. cbn [bind] in T.
  bd T. injection T as <-. eexists; reflexivity.
Qed.

Theorem SuppPubInfo_protected_retained : forall v s, SuppPubInfo_from_value v = Ok s ->
  exists l p rest, v = VArray (l :: VBytes p :: rest) /\ p_orig (sp_prot s) = Some p /\
    (forall v', SuppPubInfo_to_value s = Ok v' -> exists l' rest', v' = VArray (l' :: VBytes p :: rest')).
Proof.
  intros v s H. unfold SuppPubInfo_from_value in H.
  destruct v as [| | | | | | |a|]; cbn [try_as_array bind] in H; try discriminate H.
  rewrite arity_supp in H.
  destruct a as [|x0 [|x1 rest]]; cbn [List.length Nat.eqb negb orb] in H; try discriminate H.
  ifc H. bd H. injection H as <-. unfold ProtectedHeader_from_cbor_bstr in *.
  match goal with E : protected_from_bstr _ _ = Ok _ |- _ => apply protected_retained in E as (p & -> & O & _) end.
  exists x0, p. eexists. split; [reflexivity|]. split; [exact O|].
  unfold SuppPubInfo_to_value. cbn [sp_prot sp_len sp_other] in *.
  intros v' T. rewrite (protected_reencoded_verbatim _ p O) in T. cbn [bind] in T.
  injection T as <-. cbn [app]. do 2 eexists; reflexivity.
Qed.

(* ====================================================================== *)
(* 4. the parsed view does not depend on the encoding                      *)
(* ====================================================================== *)
Lemma header_at_eq n v : header_at n v = header_from_value (parse_prot_at n) v.
Proof. destruct n; reflexivity. Qed.

Lemma protected_nonempty_inv parse p ph : p <> [] ->
  protected_from_bstr parse (VBytes p) = Ok ph ->
  exists h, parse p = Ok h /\ ph = mkProtected (Some p) h.
Proof.
  intros NE H. unfold protected_from_bstr in H. cbn [try_as_bytes bind] in H.
  destruct p as [|b p]; [congruence|]. cbn [isnil] in H.
  destruct (parse (b :: p)) as [h| | |]; cbn [bind] in H; try discriminate H.
  injection H as <-. eauto.
Qed.

Theorem parsed_view_encoding_independent : forall n p1 p2 v,
  p1 <> [] -> p2 <> [] -> read_to_value p1 = Ok v -> read_to_value p2 = Ok v ->
  forall ph1 ph2,
    protected_from_bstr (parse_prot_at n) (VBytes p1) = Ok ph1 ->
    protected_from_bstr (parse_prot_at n) (VBytes p2) = Ok ph2 ->
    p_hdr ph1 = p_hdr ph2.
Proof.
  intros n p1 p2 v N1 N2 R1 R2 ph1 ph2 H1 H2.
  apply protected_nonempty_inv in H1 as (h1 & P1 & ->); [|assumption].
  apply protected_nonempty_inv in H2 as (h2 & P2 & ->); [|assumption].
  cbn [p_hdr]. destruct n as [|n]; cbn [parse_prot_at] in P1, P2; [discriminate P1|].
  rewrite R1 in P1. rewrite R2 in P2. cbn [bind] in P1, P2. congruence.
Qed.

Lemma read_empty_map : read_to_value [xa0] = Ok (VMap []).
Proof. vm_compute. reflexivity. Qed.

Lemma header_at_empty_map n : header_at n (VMap []) = Ok header_default.
Proof. destruct n; reflexivity. Qed.

Theorem empty_forms_same_view : forall n ph1 ph2,
  protected_from_bstr (parse_prot_at (S n)) (VBytes []) = Ok ph1 ->
  protected_from_bstr (parse_prot_at (S n)) (VBytes [xa0]) = Ok ph2 ->
  p_hdr ph1 = p_hdr ph2 /\ p_orig ph1 = Some [] /\ p_orig ph2 = Some [xa0].
Proof.
  intros n ph1 ph2 H1 H2.
  unfold protected_from_bstr in H1. cbn [try_as_bytes bind isnil] in H1. injection H1 as <-.
  apply protected_nonempty_inv in H2 as (h2 & P2 & ->); [|discriminate].
  cbn [parse_prot_at] in P2. rewrite read_empty_map in P2. cbn [bind] in P2.
  rewrite header_at_empty_map in P2. injection P2 as <-. repeat split.
Qed.

(* ====================================================================== *)
(* 3. every nesting level                                                  *)
(* ====================================================================== *)
Definition All {A} (P : A -> Prop) : list A -> Prop :=
  fix all (l : list A) : Prop := match l with [] => True | x :: r => P x /\ all r end.

Lemma All_Forall {A} (P : A -> Prop) l : All P l <-> Forall P l.
Proof. induction l as [|x l IH]; cbn [All]; split; intros H; auto.
  - destruct H as [H1 H2]. constructor; [assumption|now apply IH].
  - inversion H; subst. split; [assumption|now apply IH]. Qed.
Lemma All_app {A} (P : A -> Prop) l1 l2 : All P (l1 ++ l2) <-> All P l1 /\ All P l2.
Proof. rewrite !All_Forall. apply Forall_app. Qed.

(* every protected header inside carries retained bytes (and hence re-encodes to exactly them) *)
Fixpoint hdr_ok (h : header) {struct h} : Prop := All sig_ok (h_csigs h)
with sig_ok (s : signature) {struct s} : Prop := prot_ok (s_prot s) /\ hdr_ok (s_unprot s)
with prot_ok (p : protected) {struct p} : Prop := (exists d, p_orig p = Some d) /\ hdr_ok (p_hdr p).

Fixpoint rec_ok (r : recipient) {struct r} : Prop :=
  prot_ok (r_prot r) /\ hdr_ok (r_unprot r) /\ All rec_ok (r_recipients r).

Lemma hdr_ok_eq h : hdr_ok h = All sig_ok (h_csigs h). Proof. destruct h; reflexivity. Qed.
Lemma sig_ok_eq s : sig_ok s = (prot_ok (s_prot s) /\ hdr_ok (s_unprot s)). Proof. destruct s; reflexivity. Qed.
Lemma prot_ok_eq p : prot_ok p = ((exists d, p_orig p = Some d) /\ hdr_ok (p_hdr p)). Proof. destruct p; reflexivity. Qed.
Lemma rec_ok_eq r : rec_ok r = (prot_ok (r_prot r) /\ hdr_ok (r_unprot r) /\ All rec_ok (r_recipients r)).
Proof. destruct r; reflexivity. Qed.

(* what the predicate means for the encoder *)
Lemma prot_ok_reencodes p : prot_ok p -> exists d, p_orig p = Some d /\ protected_cbor_bstr p = Ok (VBytes d).
Proof. rewrite prot_ok_eq. intros [[d O] _]. exists d. split; [exact O|]. now apply protected_reencoded_verbatim. Qed.

Lemma hdr_ok_default : hdr_ok header_default. Proof. exact I. Qed.
Lemma hdr_ok_csigs h h' : h_csigs h' = h_csigs h -> hdr_ok h -> hdr_ok h'.
Proof. rewrite !hdr_ok_eq. now intros ->. Qed.
Lemma hdr_ok_set_csigs c h : All sig_ok c -> hdr_ok (set_csigs c h).
Proof. rewrite hdr_ok_eq. trivial. Qed.

Ltac bdg :=
  repeat match goal with
  | |- bind ?r _ = Ok _ -> _ => destruct r eqn:?; cbn [bind]; try discriminate
  end.

Section Level.
  Variable pp : bytes -> res header.
  Hypothesis pp_ok : forall b h, pp b = Ok h -> hdr_ok h.

  Lemma protected_from_bstr_ok v p : protected_from_bstr pp v = Ok p -> prot_ok p.
  Proof.
    unfold protected_from_bstr. destruct v; cbn [try_as_bytes bind]; try discriminate.
    destruct (isnil b).
    - intros [= <-]. rewrite prot_ok_eq. cbn [p_orig p_hdr]. split; [eauto|exact hdr_ok_default].
    - destruct (pp b) as [h| | |] eqn:E; cbn [bind]; try discriminate. intros [= <-].
      rewrite prot_ok_eq. cbn [p_orig p_hdr]. split; [eauto|]. eapply pp_ok; eassumption.
  Qed.

  Lemma signature_with_ok hv x1 :
    (forall h, hv x1 = Ok h -> hdr_ok h) ->
    forall x0 x2 a s, signature_from_value_with pp hv (VArray (x0 :: x1 :: x2 :: a)) = Ok s -> sig_ok s.
  Proof.
    intros Hhv x0 x2 a s. unfold signature_from_value_with.
    destruct (negb _); [discriminate|]. bdg. intros [= <-].
    rewrite sig_ok_eq. cbn [s_prot s_unprot]. split.
    - eapply protected_from_bstr_ok; eassumption.
    - apply Hhv; congruence.
  Qed.

  (* the loop invariant, with exactly the facts about hv that the step uses on x *)
  Lemma header_step_ok_local hv x :
    (forall s, signature_from_value_with pp hv x = Ok s -> sig_ok s) ->
    (forall l ss, x = VArray l -> mapM (signature_from_value_with pp hv) l = Ok ss -> All sig_ok ss) ->
    forall h l h', hdr_ok h -> header_step pp hv h l x = Ok h' -> hdr_ok h'.
  Proof.
    intros H1 H2 h l h' Hh H. unfold header_step in H.
    match type of H with bind ?r _ = _ => destruct r as [h1| | |] eqn:E; cbn [bind] in H; try discriminate H end.
    destruct (iv_clash h1); [discriminate H|]. injection H as <-.
    revert E.
    destruct (is_lint l H_ALG).
    { bdg. intros [= <-]. now apply (hdr_ok_csigs h). }
    destruct (is_lint l H_CRIT).
    { destruct x; try discriminate. destruct (isnil l0); [discriminate|]. bdg. intros [= <-]. now apply (hdr_ok_csigs h). }
    destruct (is_lint l H_CONTENT_TYPE).
    { bdg. match goal with |- match ?c with _ => _ end = _ -> _ => destruct c end; bdg; intros [= <-]; now apply (hdr_ok_csigs h). }
    destruct (is_lint l H_KID).
    { bdg. intros [= <-]. now apply (hdr_ok_csigs h). }
    destruct (is_lint l H_IV).
    { bdg. intros [= <-]. now apply (hdr_ok_csigs h). }
    destruct (is_lint l H_PARTIAL_IV).
    { bdg. intros [= <-]. now apply (hdr_ok_csigs h). }
    destruct (is_lint l H_COUNTER_SIG).
    { destruct x as [| | | | | | |a|]; try discriminate.
      destruct a as [|y a]; [discriminate|].
      destruct y; try discriminate.
      - bdg. intros [= <-]. apply hdr_ok_set_csigs, All_app. split; [now rewrite <- hdr_ok_eq|].
        cbn [All]. split; [|exact I]. apply H1; congruence.
      - bdg. intros [= <-]. apply hdr_ok_set_csigs, All_app. split; [now rewrite <- hdr_ok_eq|].
        eapply H2; [reflexivity|congruence]. }
    intros [= <-]. now apply (hdr_ok_csigs h).
  Qed.

  Lemma mapM_all_ok {A B} (f : A -> res B) (P : B -> Prop) l :
    Forall (fun x => forall b, f x = Ok b -> P b) l -> forall bs, mapM f l = Ok bs -> All P bs.
  Proof.
    induction 1 as [|x l Hx _ IH]; intros bs; cbn [mapM].
    - intros [= <-]. exact I.
    - bdg. intros [= <-]. cbn [All]. split; [now apply Hx|now apply IH].
  Qed.

  (* the abstract form: hv produces ok headers everywhere *)
  Lemma signature_with_ok_global hv :
    (forall x h', hv x = Ok h' -> hdr_ok h') ->
    forall v s, signature_from_value_with pp hv v = Ok s -> sig_ok s.
  Proof.
    intros Hhv v s H. destruct v as [| | | | | | |a|]; try discriminate H.
    destruct a as [|x0 [|x1 [|x2 a]]].
    1-3: unfold signature_from_value_with in H; rewrite arity_signature in H; discriminate H.
    eapply signature_with_ok; [|exact H]. apply Hhv.
  Qed.

  Lemma header_step_ok hv :
    (forall x h', hv x = Ok h' -> hdr_ok h') ->
    forall h l x h', hdr_ok h -> header_step pp hv h l x = Ok h' -> hdr_ok h'.
  Proof.
    intros Hhv h l x h'. apply header_step_ok_local.
    - apply signature_with_ok_global, Hhv.
    - intros a ss _. apply mapM_all_ok. apply Forall_forall. intros y _ s. apply signature_with_ok_global, Hhv.
  Qed.

  Lemma map_loop_ok (step : header -> label -> value -> res header) m :
    Forall (fun kv => forall h l h', hdr_ok h -> step h l (snd kv) = Ok h' -> hdr_ok h') m ->
    forall s seen s', hdr_ok s -> map_loop step m s seen = Ok s' -> hdr_ok s'.
  Proof.
    induction 1 as [|[k x] m Hx _ IH]; intros s seen s' Hs; cbn [map_loop].
    - now intros [= <-].
    - bdg. destruct (label_mem _ seen); [discriminate|]. bdg. apply IH. eapply Hx; eassumption.
  Qed.

  (* the hereditary statement proved by induction on the value *)
  Let hfv := header_from_value pp.
  Let sfv := signature_from_value_with pp hfv.
  Definition HS (v : value) : Prop :=
    (forall h, hfv v = Ok h -> hdr_ok h) /\
    (forall s, sfv v = Ok s -> sig_ok s) /\
    (forall l ss, v = VArray l -> mapM sfv l = Ok ss -> All sig_ok ss).

  Lemma HS_all : forall v, HS v.
  Proof.
    induction v as [z|b|x|t|b| |t v IH|l IH|m IH] using value_ind';
      try (split; [discriminate|split; [discriminate|discriminate]]).
    - (* array *)
      split; [discriminate|]. split.
      + intros s H. destruct l as [|x0 [|x1 [|x2 a]]].
        1-3: unfold sfv, signature_from_value_with in H; rewrite arity_signature in H; discriminate H.
        eapply signature_with_ok; [|exact H].
        inversion IH as [|? ? _ IH1]; subst. inversion IH1 as [|? ? [I1 _] _]; subst. exact I1.
      + intros l' ss [= <-]. apply mapM_all_ok. eapply Forall_impl; [|exact IH].
        intros a (_ & Ha & _). exact Ha.
    - (* map *)
      split; [|split; discriminate].
      intros h H. unfold hfv in H. cbn [header_from_value] in H.
      eapply map_loop_ok; [|exact hdr_ok_default|exact H].
      eapply Forall_impl; [|exact IH]. intros [k x] [_ (_ & Hs & Hm)]. cbn [snd fst] in *.
      apply header_step_ok_local; assumption.
  Qed.

  Lemma header_from_value_ok v h : header_from_value pp v = Ok h -> hdr_ok h.
  Proof. apply (HS_all v). Qed.
  Lemma signature_from_value_ok v s : signature_from_value pp v = Ok s -> sig_ok s.
  Proof. apply (HS_all v). Qed.
End Level.

Lemma parse_prot_at_ok : forall n b h, parse_prot_at n b = Ok h -> hdr_ok h.
Proof.
  induction n as [|n IH]; intros b h; cbn [parse_prot_at]; [discriminate|].
  bdg. rewrite header_at_eq. apply header_from_value_ok. exact IH.
Qed.

Theorem decoded_header_all_retained : forall n v h, header_at n v = Ok h -> hdr_ok h.
Proof. intros n v h. rewrite header_at_eq. apply header_from_value_ok, parse_prot_at_ok. Qed.

Theorem decoded_protected_all_retained : forall n v p,
  protected_from_bstr (parse_prot_at n) v = Ok p -> prot_ok p.
Proof. intros n v p. apply protected_from_bstr_ok, parse_prot_at_ok. Qed.

Theorem decoded_signature_all_retained : forall n v s,
  signature_from_value (parse_prot_at n) v = Ok s -> sig_ok s.
Proof. intros n v s. apply signature_from_value_ok, parse_prot_at_ok. Qed.

(* ---------- the public decoders ---------- *)
Lemma Header_from_value_ok v h : Header_from_value v = Ok h -> hdr_ok h.
Proof. apply decoded_header_all_retained. Qed.
Lemma ProtectedHeader_ok v p : ProtectedHeader_from_cbor_bstr v = Ok p -> prot_ok p.
Proof. apply decoded_protected_all_retained. Qed.
Lemma CoseSignature_ok v s : CoseSignature_from_value v = Ok s -> sig_ok s.
Proof. apply decoded_signature_all_retained. Qed.

Lemma map_err_ok {A} (r : res A) e a : map_err r e = Ok a -> r = Ok a.
Proof. destruct r; cbn; congruence. Qed.

(* recipients: hereditary statement by induction on the value *)
Definition RS (v : value) : Prop :=
  (forall r, CoseRecipient_from_value v = Ok r -> rec_ok r) /\
  (forall l rs, v = VArray l -> mapM CoseRecipient_from_value l = Ok rs -> All rec_ok rs).

Lemma RS_all : forall v, RS v.
Proof.
  induction v as [z|b|x|t|b| |t v IH|l IH|m IH] using value_ind'; try (split; discriminate).
  split.
  2:{ intros l' rs [= <-]. apply mapM_all_ok. eapply Forall_impl; [|exact IH]. intros a [Ha _]. exact Ha. }
  intros r H. cbn [CoseRecipient_from_value] in H. rewrite arity_recipient in H.
  destruct l as [|x0 [|x1 [|x2 rest]]]; cbn [List.length Nat.eqb negb orb] in H; try discriminate H.
  ifc H.
  match type of H with bind ?r _ = _ => destruct r as [rs| | |] eqn:R; cbn [bind] in H; try discriminate H end.
  assert (RSok : All rec_ok rs).
  { match type of R with (if ?c then _ else _) = _ => destruct c end; [|injection R as <-; exact I].
    destruct rest as [|x3 rest]; [discriminate R|].
    destruct x3 as [| | | | | | |ra|]; try discriminate R.
    inversion IH as [|? ? _ IH1]; subst. inversion IH1 as [|? ? _ IH2]; subst.
    inversion IH2 as [|? ? _ IH3]; subst. inversion IH3 as [|? ? [_ I3] _]; subst.
    eapply I3; [reflexivity|exact R]. }
  clear R. bd H. injection H as <-.
  rewrite rec_ok_eq. cbn [r_prot r_unprot r_recipients].
  split; [eapply ProtectedHeader_ok; eassumption|].
  split; [eapply Header_from_value_ok; eassumption|exact RSok].
Qed.

Lemma CoseRecipient_ok v r : CoseRecipient_from_value v = Ok r -> rec_ok r.
Proof. apply (RS_all v). Qed.
Lemma recipients_ok v rs : recipients_from_value v = Ok rs -> Forall rec_ok rs.
Proof.
  unfold recipients_from_value. destruct v; cbn [try_as_array bind]; try discriminate.
  intros H. apply All_Forall. eapply (proj2 (RS_all (VArray l))); [reflexivity|exact H].
Qed.

Theorem decoded_messages_all_retained :
  (forall v m, CoseSign1_from_value v = Ok m -> prot_ok (s1_prot m) /\ hdr_ok (s1_unprot m)) /\
  (forall v m, CoseSign_from_value v = Ok m ->
     prot_ok (sn_prot m) /\ hdr_ok (sn_unprot m) /\ Forall sig_ok (sn_sigs m)) /\
  (forall v s, CoseSignature_from_value v = Ok s -> sig_ok s) /\
  (forall v m, CoseMac_from_value v = Ok m ->
     prot_ok (mc_prot m) /\ hdr_ok (mc_unprot m) /\ Forall rec_ok (mc_recipients m)) /\
  (forall v m, CoseMac0_from_value v = Ok m -> prot_ok (m0_prot m) /\ hdr_ok (m0_unprot m)) /\
  (forall v m, CoseEncrypt_from_value v = Ok m ->
     prot_ok (en_prot m) /\ hdr_ok (en_unprot m) /\ Forall rec_ok (en_recipients m)) /\
  (forall v m, CoseEncrypt0_from_value v = Ok m -> prot_ok (e0_prot m) /\ hdr_ok (e0_unprot m)) /\
  (forall v r, CoseRecipient_from_value v = Ok r -> rec_ok r) /\
  (forall v s, SuppPubInfo_from_value v = Ok s -> prot_ok (sp_prot s)) /\
  (forall v k, CoseKdfContext_from_value v = Ok k -> prot_ok (sp_prot (kc_pub k))).
Proof.
  assert (SUPP : forall v s, SuppPubInfo_from_value v = Ok s -> prot_ok (sp_prot s)).
  { intros v s H. unfold SuppPubInfo_from_value in H.
    destruct v as [| | | | | | |a|]; cbn [try_as_array bind] in H; try discriminate H.
    ifc H. destruct a as [|x0 [|x1 rest]]; try discriminate H.
    bd H. injection H as <-. cbn [sp_prot]. eapply ProtectedHeader_ok; eassumption. }
  repeat split.
  - unfold CoseSign1_from_value in H.
    destruct v as [| | | | | | |a|]; cbn [try_as_array bind] in H; try discriminate H.
    ifc H. destruct a as [|x0 [|x1 [|x2 [|x3 a]]]]; try discriminate H.
    bd H. injection H as <-. eapply ProtectedHeader_ok; eassumption.
  - unfold CoseSign1_from_value in H.
    destruct v as [| | | | | | |a|]; cbn [try_as_array bind] in H; try discriminate H.
    ifc H. destruct a as [|x0 [|x1 [|x2 [|x3 a]]]]; try discriminate H.
    bd H. injection H as <-. eapply Header_from_value_ok; eassumption.
  - unfold CoseSign_from_value in H.
    destruct v as [| | | | | | |a|]; cbn [try_as_array bind] in H; try discriminate H.
    ifc H. destruct a as [|x0 [|x1 [|x2 [|x3 a]]]]; try discriminate H.
    bd H. injection H as <-. eapply ProtectedHeader_ok; eassumption.
  - unfold CoseSign_from_value in H.
    destruct v as [| | | | | | |a|]; cbn [try_as_array bind] in H; try discriminate H.
    ifc H. destruct a as [|x0 [|x1 [|x2 [|x3 a]]]]; try discriminate H.
    bd H. injection H as <-. eapply Header_from_value_ok; eassumption.
  - unfold CoseSign_from_value in H.
    destruct v as [| | | | | | |a|]; cbn [try_as_array bind] in H; try discriminate H.
    ifc H. destruct a as [|x0 [|x1 [|x2 [|x3 a]]]]; try discriminate H.
    bd H. injection H as <-. cbn [sn_sigs]. apply All_Forall.
    eapply mapM_all_ok; [|eassumption]. apply Forall_forall. intros y _ s Hs.
    apply map_err_ok in Hs. eapply CoseSignature_ok; exact Hs.
  - intros v s. apply CoseSignature_ok.
  - unfold CoseMac_from_value in H.
    destruct v as [| | | | | | |a|]; cbn [try_as_array bind] in H; try discriminate H.
    ifc H. destruct a as [|x0 [|x1 [|x2 [|x3 [|x4 a]]]]]; try discriminate H.
    bd H. injection H as <-. eapply ProtectedHeader_ok; eassumption.
  - unfold CoseMac_from_value in H.
    destruct v as [| | | | | | |a|]; cbn [try_as_array bind] in H; try discriminate H.
    ifc H. destruct a as [|x0 [|x1 [|x2 [|x3 [|x4 a]]]]]; try discriminate H.
    bd H. injection H as <-. eapply Header_from_value_ok; eassumption.
  - unfold CoseMac_from_value in H.
    destruct v as [| | | | | | |a|]; cbn [try_as_array bind] in H; try discriminate H.
    ifc H. destruct a as [|x0 [|x1 [|x2 [|x3 [|x4 a]]]]]; try discriminate H.
    bd H. injection H as <-. eapply recipients_ok; eassumption.
  - unfold CoseMac0_from_value in H.
    destruct v as [| | | | | | |a|]; cbn [try_as_array bind] in H; try discriminate H.
    ifc H. destruct a as [|x0 [|x1 [|x2 [|x3 a]]]]; try discriminate H.
    bd H. injection H as <-. eapply ProtectedHeader_ok; eassumption.
  - unfold CoseMac0_from_value in H.
    destruct v as [| | | | | | |a|]; cbn [try_as_array bind] in H; try discriminate H.
    ifc H. destruct a as [|x0 [|x1 [|x2 [|x3 a]]]]; try discriminate H.
    bd H. injection H as <-. eapply Header_from_value_ok; eassumption.
  - unfold CoseEncrypt_from_value in H.
    destruct v as [| | | | | | |a|]; cbn [try_as_array bind] in H; try discriminate H.
    ifc H. destruct a as [|x0 [|x1 [|x2 [|x3 a]]]]; try discriminate H.
    bd H. injection H as <-. eapply ProtectedHeader_ok; eassumption.
  - unfold CoseEncrypt_from_value in H.
    destruct v as [| | | | | | |a|]; cbn [try_as_array bind] in H; try discriminate H.
    ifc H. destruct a as [|x0 [|x1 [|x2 [|x3 a]]]]; try discriminate H.
    bd H. injection H as <-. eapply Header_from_value_ok; eassumption.
  - unfold CoseEncrypt_from_value in H.
    destruct v as [| | | | | | |a|]; cbn [try_as_array bind] in H; try discriminate H.
    ifc H. destruct a as [|x0 [|x1 [|x2 [|x3 a]]]]; try discriminate H.
    bd H. injection H as <-. eapply recipients_ok; eassumption.
  - unfold CoseEncrypt0_from_value in H.
    destruct v as [| | | | | | |a|]; cbn [try_as_array bind] in H; try discriminate H.
    ifc H. destruct a as [|x0 [|x1 [|x2 a]]]; try discriminate H.
    bd H. injection H as <-. eapply ProtectedHeader_ok; eassumption.
  - unfold CoseEncrypt0_from_value in H.
    destruct v as [| | | | | | |a|]; cbn [try_as_array bind] in H; try discriminate H.
    ifc H. destruct a as [|x0 [|x1 [|x2 a]]]; try discriminate H.
    bd H. injection H as <-. eapply Header_from_value_ok; eassumption.
  - intros v r. apply CoseRecipient_ok.
  - exact SUPP.
  - intros v k H. unfold CoseKdfContext_from_value in H.
    destruct v as [| | | | | | |a|]; cbn [try_as_array bind] in H; try discriminate H.
    ifc H. destruct a as [|x0 [|x1 [|x2 [|x3 rest]]]]; try discriminate H.
    bd H. injection H as <-. cbn [kc_pub]. eapply SUPP; eassumption.
Qed.

Print Assumptions protected_retained.
Print Assumptions protected_reencoded_verbatim.
Print Assumptions CoseSign1_protected_retained.
Print Assumptions CoseSign_protected_retained.
Print Assumptions CoseMac_protected_retained.
Print Assumptions CoseMac0_protected_retained.
Print Assumptions CoseEncrypt_protected_retained.
Print Assumptions CoseEncrypt0_protected_retained.
Print Assumptions CoseRecipient_protected_retained.
Print Assumptions CoseSignature_protected_retained.
Print Assumptions SuppPubInfo_protected_retained.
Print Assumptions decoded_header_all_retained.
Print Assumptions decoded_protected_all_retained.
Print Assumptions decoded_signature_all_retained.
Print Assumptions header_step_ok.
Print Assumptions decoded_messages_all_retained.
Print Assumptions parsed_view_encoding_independent.
Print Assumptions empty_forms_same_view.
