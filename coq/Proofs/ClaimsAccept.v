(* C10 (claims part): ClaimsSet::from_cbor_value accepts exactly what the declarative claims_spec
   accepts (and yields the same value); no panic; encode-then-decode round trip. *)
From Coq Require Import Lia.
From Coset.Model Require Import Prelude Cbor Iana Label Msg Cwt.
From Coset.Spec Require Import IanaRef Accept.
From Coset.Proofs Require Import Head Order IanaTables.
Require Import ZifyBool ZifyN ZifyNat.
Open Scope string_scope. Open Scope Z_scope. Open Scope list_scope.

Notation creg := (registered T_CwtClaimName).

Definition ro {A} (r : res A) : option A := match r with Ok a => Some a | _ => None end.
Lemma ro_some {A} (r : res A) a : ro r = Some a <-> r = Ok a.
Proof. destruct r; cbn; split; intros H; try discriminate; congruence. Qed.

(* ---------- derived equality on claim names ---------- *)
Lemma bytes_eqb_eq a b : bytes_eqb a b = true <-> a = b.
Proof. revert b. induction a as [|x a IH]; intros [|y b]; cbn [bytes_eqb]; try (split; congruence).
  rewrite andb_true_iff, IH. split.
  - intros [E ->]. apply Byte.byte_dec_bl in E. now subst.
  - intros [= -> ->]. split; auto. apply Byte.byte_dec_lb. reflexivity. Qed.

Lemma regp_eqb_eq a b : regp_eqb a b = true <-> a = b.
Proof. destruct a, b; cbn [regp_eqb]; try (split; discriminate);
  rewrite ?Z.eqb_eq, ?bytes_eqb_eq; split; congruence. Qed.
Lemma regp_eqb_refl a : regp_eqb a a = true. Proof. now apply regp_eqb_eq. Qed.
Lemma regp_eqb_neq a b : a <> b -> regp_eqb a b = false.
Proof. intros H. destruct (regp_eqb a b) eqn:E; auto. apply regp_eqb_eq in E. contradiction. Qed.

Lemma regp_in_In x s : regp_in x s = true <-> In x s.
Proof. induction s as [|y r IH]; cbn [regp_in In].
  - split; [discriminate|tauto].
  - rewrite orb_true_iff, regp_eqb_eq, IH. split; intros [H|H]; auto. Qed.
Lemma regp_distinct_NoDup s : regp_distinct s = true <-> NoDup s.
Proof. induction s as [|x r IH]; cbn [regp_distinct].
  - split; auto. constructor.
  - rewrite andb_true_iff, negb_true_iff, IH. split.
    + intros [H1 H2]. constructor; auto. rewrite <- regp_in_In. congruence.
    + intros H. inversion H; subst. split; auto.
      destruct (regp_in x r) eqn:E; auto. apply regp_in_In in E. tauto. Qed.

(* membership through Ord coincides with membership, on decoded names *)
Lemma regp_mem_In l seen : regp_wf "CwtClaimName" l -> Forall (regp_wf "CwtClaimName") seen ->
  (regp_mem l seen = true <-> In l seen).
Proof. intros Wl Ws. unfold regp_mem. rewrite existsb_exists. split.
  - intros (x & Hx & E). unfold is_eq in E. destruct (regp_cmp l x) eqn:C; try discriminate.
    apply (regp_cmp_eq "CwtClaimName") in C; auto. + now subst. + rewrite Forall_forall in Ws. auto.
  - intros H. exists l. split; auto. unfold is_eq.
    now rewrite (proj2 (regp_cmp_eq "CwtClaimName" l l Wl Wl) eq_refl). Qed.

(* ---------- key normalisation ---------- *)
Lemma is_i64_in_i64 z : is_i64 z = in_i64 z. Proof. reflexivity. Qed.
Lemma private_CR z : is_private "CwtClaimName" z = private_use z.
Proof. unfold private_use. apply is_private_iff. cbn; tauto. Qed.

Lemma claim_name_eq k : claim_name creg k = ro (regp_from_value "CwtClaimName" k).
Proof. destruct k; try reflexivity. cbn [claim_name regp_from_value]. rewrite is_i64_in_i64. unfold to_i64_res.
  destruct (in_i64 z); cbn [bind ro]; [|reflexivity].
  change (table_of "CwtClaimName") with T_CwtClaimName. destruct (creg z); [reflexivity|].
  pose proof (private_CR z) as P. destruct (is_private "CwtClaimName" z), (private_use z); try discriminate; reflexivity. Qed.

Lemma claim_name_iff k n : regp_from_value "CwtClaimName" k = Ok n <-> claim_name creg k = Some n.
Proof. rewrite claim_name_eq. symmetry. apply ro_some. Qed.

Fixpoint names (m : list (value * value)) : res (list (regp_label * value)) :=
  match m with
  | [] => Ok []
  | (k, v) :: m' => do l <- regp_from_value "CwtClaimName" k; do r <- names m'; Ok ((l, v) :: r)
  end.

Lemma claim_names_eq m : claim_names creg m = ro (names m).
Proof. induction m as [|[k v] m IH]; cbn [claim_names names]; [reflexivity|].
  rewrite claim_name_eq, IH. destruct (regp_from_value "CwtClaimName" k); cbn [ro bind]; try reflexivity.
  destruct (names m); reflexivity. Qed.
Lemma names_iff m lm : names m = Ok lm <-> claim_names creg m = Some lm.
Proof. rewrite claim_names_eq. symmetry. apply ro_some. Qed.

Lemma names_wf : forall m lm, names m = Ok lm -> Forall (regp_wf "CwtClaimName") (map fst lm).
Proof. induction m as [|[k v] m IH]; intros lm; cbn [names].
  - intros [= <-]. constructor.
  - destruct (regp_from_value "CwtClaimName" k) as [l| | |] eqn:LK; cbn [bind]; try discriminate.
    destruct (names m) as [r| | |]; cbn [bind]; try discriminate. intros [= <-]. cbn [map fst].
    constructor; eauto using regp_from_value_wf. Qed.

Lemma regp_from_value_cases reg k :
  (exists l, regp_from_value reg k = Ok l) \/ (exists e, regp_from_value reg k = Err e).
Proof. destruct k; cbn [regp_from_value]; eauto. unfold to_i64_res. destruct (in_i64 z); cbn [bind]; eauto.
  destruct (registered (table_of reg) z); eauto. destruct (is_private reg z); eauto. Qed.

(* ---------- the loop is: names, pairwise distinct, monadic fold ---------- *)
Fixpoint cfold (lm : list (regp_label * value)) (c : claims) : res claims :=
  match lm with
  | [] => Ok c
  | (l, v) :: r => do c' <- claims_step c l v; cfold r c'
  end.

Lemma claims_loop_iff : forall m c seen c', Forall (regp_wf "CwtClaimName") seen ->
  (claims_loop m c seen = Ok c' <->
   exists lm, names m = Ok lm /\ NoDup (map fst lm) /\ (forall l, In l (map fst lm) -> ~ In l seen) /\ cfold lm c = Ok c').
Proof.
  induction m as [|[k v] m IH]; intros s seen s' WS; cbn [claims_loop names].
  - split.
    + intros [= <-]. exists []. cbn. repeat split; auto. constructor.
    + intros (lm & [= <-] & _ & _ & F). cbn in F. congruence.
  - destruct (regp_from_value "CwtClaimName" k) as [l|e| |] eqn:LK; cbn [bind];
      try (split; [discriminate | intros (lm & L & _); discriminate]).
    pose proof (regp_from_value_wf _ _ _ LK) as WL.
    destruct (regp_mem l seen) eqn:M.
    { split; [discriminate|]. intros (lm & L & ND & DJ & F).
      destruct (names m) as [r| | |]; cbn [bind] in L; try discriminate. injection L as <-.
      apply regp_mem_In in M; auto. exfalso. apply (DJ l); cbn; auto. }
    assert (NM: ~ In l seen) by (rewrite <- regp_mem_In by auto; congruence).
    destruct (claims_step s l v) as [s1|e| |] eqn:ST; cbn [bind].
    2-4: split; [discriminate|]; intros (lm & L & ND & DJ & F);
         destruct (names m) as [r| | |]; cbn [bind] in L; try discriminate; injection L as <-;
         cbn [cfold] in F; rewrite ST in F; discriminate.
    rewrite IH by (constructor; auto). split.
    + intros (lm & L & ND & DJ & F). exists ((l, v) :: lm). rewrite L. cbn [bind map fst cfold]. rewrite ST. cbn [bind].
      repeat split; auto.
      * constructor; auto. intros I. apply (DJ l I). now left.
      * intros l0 [<-|I]; auto. intros I2. apply (DJ l0 I). now right.
    + intros (lm & L & ND & DJ & F). destruct (names m) as [r| | |]; cbn [bind] in L; try discriminate. injection L as <-.
      cbn [map fst cfold] in *. rewrite ST in F. cbn [bind] in F. inversion ND; subst.
      exists r. repeat split; auto.
      intros l0 I [<-|I2]; auto. apply (DJ l0); auto. now right.
Qed.

(* ---------- the step, with the constants pinned ---------- *)
Lemma claims_step_eq c n x : claims_step c n x =
  if regp_eqb n (PAssigned 1) then do t <- try_as_string x;
    Ok (mkClaims (Some t) (c_sub c) (c_aud c) (c_exp c) (c_nbf c) (c_iat c) (c_cti c) (c_rest c))
  else if regp_eqb n (PAssigned 2) then do t <- try_as_string x;
    Ok (mkClaims (c_iss c) (Some t) (c_aud c) (c_exp c) (c_nbf c) (c_iat c) (c_cti c) (c_rest c))
  else if regp_eqb n (PAssigned 3) then do t <- try_as_string x;
    Ok (mkClaims (c_iss c) (c_sub c) (Some t) (c_exp c) (c_nbf c) (c_iat c) (c_cti c) (c_rest c))
  else if regp_eqb n (PAssigned 4) then do t <- Timestamp_from_value x;
    Ok (mkClaims (c_iss c) (c_sub c) (c_aud c) (Some t) (c_nbf c) (c_iat c) (c_cti c) (c_rest c))
  else if regp_eqb n (PAssigned 5) then do t <- Timestamp_from_value x;
    Ok (mkClaims (c_iss c) (c_sub c) (c_aud c) (c_exp c) (Some t) (c_iat c) (c_cti c) (c_rest c))
  else if regp_eqb n (PAssigned 6) then do t <- Timestamp_from_value x;
    Ok (mkClaims (c_iss c) (c_sub c) (c_aud c) (c_exp c) (c_nbf c) (Some t) (c_cti c) (c_rest c))
  else if regp_eqb n (PAssigned 7) then do b <- try_as_bytes x;
    Ok (mkClaims (c_iss c) (c_sub c) (c_aud c) (c_exp c) (c_nbf c) (c_iat c) (Some b) (c_rest c))
  else Ok (mkClaims (c_iss c) (c_sub c) (c_aud c) (c_exp c) (c_nbf c) (c_iat c) (c_cti c) (c_rest c ++ [(n, x)])).
Proof. reflexivity. Qed.

Lemma std_claim_false n : std_claim n = false ->
  regp_eqb n (PAssigned 1) = false /\ regp_eqb n (PAssigned 2) = false /\ regp_eqb n (PAssigned 3) = false /\
  regp_eqb n (PAssigned 4) = false /\ regp_eqb n (PAssigned 5) = false /\ regp_eqb n (PAssigned 6) = false /\
  regp_eqb n (PAssigned 7) = false.
Proof. destruct n; cbn [std_claim regp_eqb]; auto 10. intros H. repeat split; lia. Qed.

Lemma std_claim_true n : std_claim n = true ->
  n = PAssigned 1 \/ n = PAssigned 2 \/ n = PAssigned 3 \/ n = PAssigned 4 \/ n = PAssigned 5 \/ n = PAssigned 6 \/ n = PAssigned 7.
Proof. destruct n; cbn [std_claim]; try discriminate. intros H.
  assert (z = 1 \/ z = 2 \/ z = 3 \/ z = 4 \/ z = 5 \/ z = 6 \/ z = 7) as D by lia.
  repeat (destruct D as [->|D]; [tauto|]). subst. tauto. Qed.

Lemma claims_step_other c n x : std_claim n = false ->
  claims_step c n x = Ok (mkClaims (c_iss c) (c_sub c) (c_aud c) (c_exp c) (c_nbf c) (c_iat c) (c_cti c) (c_rest c ++ [(n, x)])).
Proof. intros H. rewrite claims_step_eq. destruct (std_claim_false n H) as (-> & -> & -> & -> & -> & -> & ->). reflexivity. Qed.

(* shapes *)
Definition sh {A} (r : res A) : option (option A) := match r with Ok a => Some (Some a) | _ => None end.
Lemma text_shape_eq v : text_shape v = sh (try_as_string v). Proof. destruct v; reflexivity. Qed.
Lemma bstr_shape_eq v : bstr_shape v = sh (try_as_bytes v). Proof. destruct v; reflexivity. Qed.
Lemma time_shape_eq v : time_shape v = sh (Timestamp_from_value v).
Proof. destruct v; try reflexivity. cbn [time_shape Timestamp_from_value]. rewrite is_i64_in_i64. unfold to_i64_res.
  destruct (in_i64 z); reflexivity. Qed.
Lemma Timestamp_iff v t : Timestamp_from_value v = Ok t <-> time_shape v = Some (Some t).
Proof. rewrite time_shape_eq. destruct (Timestamp_from_value v); cbn [sh]; split; intros H; try discriminate; congruence. Qed.

(* ---------- fold from an arbitrary state = lookup-based merge ---------- *)
Definition merge (c : claims) (lm : list (regp_label * value)) : option claims :=
  match field (find_claim (PAssigned 1) lm) text_shape (c_iss c),
        field (find_claim (PAssigned 2) lm) text_shape (c_sub c),
        field (find_claim (PAssigned 3) lm) text_shape (c_aud c),
        field (find_claim (PAssigned 4) lm) time_shape (c_exp c),
        field (find_claim (PAssigned 5) lm) time_shape (c_nbf c),
        field (find_claim (PAssigned 6) lm) time_shape (c_iat c),
        field (find_claim (PAssigned 7) lm) bstr_shape (c_cti c) with
  | Some i, Some s, Some a, Some e, Some n, Some t, Some ct =>
    Some (mkClaims i s a e n t ct (c_rest c ++ filter (fun x => negb (std_claim (fst x))) lm))
  | _, _, _, _, _, _, _ => None
  end.

Lemma ff_hit {A} k v r (shape : value -> option A) d :
  field (find_claim (PAssigned k) ((PAssigned k, v) :: r)) shape d = shape v.
Proof. cbn [find_claim]. rewrite regp_eqb_refl. reflexivity. Qed.
Lemma ff_miss {A} k l v r (shape : value -> option A) d : l <> PAssigned k ->
  field (find_claim (PAssigned k) ((l, v) :: r)) shape d = field (find_claim (PAssigned k) r) shape d.
Proof. intros H. cbn [find_claim]. rewrite regp_eqb_neq by congruence. reflexivity. Qed.
Lemma find_claim_notin l lm : ~ In l (map fst lm) -> find_claim l lm = None.
Proof. induction lm as [|[l' v] r IH]; cbn [find_claim map fst In]; auto. intros H.
  rewrite regp_eqb_neq by (intros ->; tauto). apply IH. tauto. Qed.
Lemma ff_notin {A} l r (shape : value -> option A) d : ~ In l (map fst r) ->
  field (find_claim l r) shape d = Some d.
Proof. intros H. now rewrite find_claim_notin. Qed.

Ltac kill_fields :=
  repeat (match goal with |- context [match field ?a ?b ?c with _ => _ end] => destruct (field a b c) end);
  try reflexivity.

Lemma cfold_merge : forall lm c, NoDup (map fst lm) -> ro (cfold lm c) = merge c lm.
Proof.
  induction lm as [|[l v] r IH]; intros c ND.
  - destruct c. cbn. now rewrite app_nil_r.
  - cbn [map fst] in ND. inversion ND as [|? ? NI ND']; subst. cbn [cfold].
    destruct (std_claim l) eqn:SC.
    + rewrite claims_step_eq.
      apply std_claim_true in SC. unfold merge.
      destruct SC as [->|[->|[->|[->|[->|[->| ->]]]]]];
        cbn [regp_eqb Z.eqb Pos.eqb]; rewrite ff_hit, !ff_miss by discriminate;
        rewrite ?text_shape_eq, ?time_shape_eq, ?bstr_shape_eq.
      1-3: destruct (try_as_string v) as [t| | |]; cbn [bind ro sh]; [|kill_fields..].
      4-6: destruct (Timestamp_from_value v) as [t| | |]; cbn [bind ro sh]; [|kill_fields..].
      7: destruct (try_as_bytes v) as [t| | |]; cbn [bind ro sh]; [|kill_fields..].
      all: rewrite IH by assumption; unfold merge;
        cbn [c_iss c_sub c_aud c_exp c_nbf c_iat c_cti c_rest]; rewrite (ff_notin _ r _ _ NI);
        cbn [filter fst std_claim]; reflexivity.
    + rewrite claims_step_other by assumption. cbn [bind]. rewrite IH by assumption.
      unfold merge. cbn [c_iss c_sub c_aud c_exp c_nbf c_iat c_cti c_rest filter fst]. rewrite SC. cbn [negb].
      rewrite !ff_miss by (intros ->; discriminate). rewrite <- app_assoc. reflexivity.
Qed.

Lemma claims_spec_merge m : claims_spec creg (VMap m) =
  match claim_names creg m with
  | None => None
  | Some lm => if negb (regp_distinct (map fst lm)) then None else merge claims_default lm
  end.
Proof. reflexivity. Qed.

Theorem claims_accept_iff : forall v c,
  ClaimsSet_from_value v = Ok c <-> claims_spec creg v = Some c.
Proof.
  intros v c. destruct v; try (split; discriminate).
  rewrite claims_spec_merge. cbn [ClaimsSet_from_value]. rewrite claims_loop_iff by constructor. split.
  - intros (lm & N & ND & _ & F). apply names_iff in N. rewrite N.
    rewrite (proj2 (regp_distinct_NoDup _) ND). cbn [negb].
    rewrite <- cfold_merge by assumption. now apply ro_some.
  - destruct (claim_names creg m) as [lm|] eqn:N; [|discriminate].
    destruct (regp_distinct (map fst lm)) eqn:D; [|discriminate]. cbn [negb].
    apply regp_distinct_NoDup in D. intros H. exists lm. apply names_iff in N.
    repeat split; auto. apply ro_some. now rewrite cfold_merge.
Qed.

Corollary claims_accept_sound v c : ClaimsSet_from_value v = Ok c -> claims_spec creg v = Some c.
Proof. apply claims_accept_iff. Qed.
Corollary claims_accept_complete v c : claims_spec creg v = Some c -> ClaimsSet_from_value v = Ok c.
Proof. apply claims_accept_iff. Qed.

(* ---------- no panic ---------- *)
Lemma try_as_string_cases x : (exists t, try_as_string x = Ok t) \/ (exists e, try_as_string x = Err e).
Proof. destruct x; cbn; eauto. Qed.
Lemma try_as_bytes_cases x : (exists t, try_as_bytes x = Ok t) \/ (exists e, try_as_bytes x = Err e).
Proof. destruct x; cbn; eauto. Qed.
Lemma Timestamp_cases x : (exists t, Timestamp_from_value x = Ok t) \/ (exists e, Timestamp_from_value x = Err e).
Proof. destruct x; cbn [Timestamp_from_value]; eauto. unfold to_i64_res. destruct (in_i64 z); cbn [bind]; eauto. Qed.

Lemma claims_step_cases c n x : (exists c', claims_step c n x = Ok c') \/ (exists e, claims_step c n x = Err e).
Proof. rewrite claims_step_eq.
  repeat match goal with |- context [if ?b then _ else _] => destruct b end; eauto.
  1-3: destruct (try_as_string_cases x) as [[t ->]|[e ->]]; cbn [bind]; eauto.
  1-3: destruct (Timestamp_cases x) as [[t ->]|[e ->]]; cbn [bind]; eauto.
  destruct (try_as_bytes_cases x) as [[t ->]|[e ->]]; cbn [bind]; eauto. Qed.

Lemma claims_step_no_panic : forall c n x, claims_step c n x <> Panic.
Proof. intros c n x. destruct (claims_step_cases c n x) as [[c' ->]|[e ->]]; discriminate. Qed.

Lemma claims_loop_no_panic : forall m c seen, claims_loop m c seen <> Panic.
Proof. induction m as [|[k v] m IH]; intros c seen; cbn [claims_loop]; [discriminate|].
  destruct (regp_from_value_cases "CwtClaimName" k) as [[l ->]|[e ->]]; cbn [bind]; [|discriminate].
  destruct (regp_mem l seen); [discriminate|].
  destruct (claims_step_cases c l v) as [[c' ->]|[e ->]]; cbn [bind]; [apply IH|discriminate]. Qed.

Lemma ClaimsSet_from_value_no_panic : forall v, ClaimsSet_from_value v <> Panic.
Proof. destruct v; cbn [ClaimsSet_from_value]; try discriminate. apply claims_loop_no_panic. Qed.


(* ---------- encode then decode ---------- *)
(* PrivateUse(z) must really be in the private-use range (z < -65536): an unregistered integer
   outside it is encoded fine but rejected by the decoder (UnregisteredIanaNonPrivateValue). *)
Definition claims_wf (c : claims) : Prop :=
  NoDup (map fst (c_rest c)) /\
  Forall (fun e => regp_wf "CwtClaimName" (fst e) /\ std_claim (fst e) = false /\
                   (match fst e with
                    | PAssigned z => in_i64 z = true
                    | PPrivate z => in_i64 z = true /\ (z <? -65536) = true
                    | PText _ => True end)) (c_rest c)
  /\ (forall z, c_exp c = Some (WholeSeconds z) -> in_i64 z = true)
  /\ (forall z, c_nbf c = Some (WholeSeconds z) -> in_i64 z = true)
  /\ (forall z, c_iat c = Some (WholeSeconds z) -> in_i64 z = true).

Definition oe {A} (k : Z) (o : option A) (f : A -> value) : list (regp_label * value) :=
  match o with Some a => [(PAssigned k, f a)] | None => [] end.

Lemma to_value_eq c : ClaimsSet_to_value c =
  Ok (VMap (opt_entry 1 (c_iss c) VText ++ opt_entry 2 (c_sub c) VText ++ opt_entry 3 (c_aud c) VText
         ++ opt_entry 4 (c_exp c) Timestamp_to_value ++ opt_entry 5 (c_nbf c) Timestamp_to_value
         ++ opt_entry 6 (c_iat c) Timestamp_to_value ++ opt_entry 7 (c_cti c) VBytes
         ++ map (fun nv => (regp_to_value (fst nv), snd nv)) (c_rest c))).
Proof. reflexivity. Qed.

Lemma names_app a b : names (a ++ b) = do x <- names a; do y <- names b; Ok (x ++ y).
Proof. induction a as [|[k v] a IH]; cbn [app names bind].
  - destruct (names b); reflexivity.
  - destruct (regp_from_value "CwtClaimName" k); cbn [bind]; try reflexivity.
    rewrite IH. destruct (names a); cbn [bind]; try reflexivity. destruct (names b); reflexivity. Qed.

Lemma names_opt {A} k (o : option A) f : In k [1; 2; 3; 4; 5; 6; 7] -> names (opt_entry k o f) = Ok (oe k o f).
Proof. intros H. destruct o; [|reflexivity]. cbn [In] in H.
  repeat (destruct H as [<-|H]; [reflexivity|]). destruct H. Qed.

Lemma regp_rt n : regp_wf "CwtClaimName" n ->
  (match n with
   | PAssigned z => in_i64 z = true
   | PPrivate z => in_i64 z = true /\ (z <? -65536) = true
   | PText _ => True end) ->
  regp_from_value "CwtClaimName" (regp_to_value n) = Ok n.
Proof. destruct n; cbn [regp_to_value regp_from_value regp_wf]; intros W H; [| |reflexivity]; unfold to_i64_res.
  - destruct H as [H1 H2]. rewrite H1. cbn [bind]. rewrite W, private_CR. unfold private_use. now rewrite H2.
  - rewrite H. cbn [bind]. now rewrite W. Qed.

Lemma names_rest rest :
  Forall (fun e : regp_label * value => regp_from_value "CwtClaimName" (regp_to_value (fst e)) = Ok (fst e)) rest ->
  names (map (fun nv => (regp_to_value (fst nv), snd nv)) rest) = Ok rest.
Proof. induction 1 as [|[n x] r H _ IH]; [reflexivity|]. cbn [map names fst snd] in *. rewrite H. cbn [bind].
  rewrite IH. reflexivity. Qed.

Lemma cfold_app a b c : cfold (a ++ b) c = do c1 <- cfold a c; cfold b c1.
Proof. revert c. induction a as [|[l v] a IH]; intros c; cbn [app cfold bind]; [reflexivity|].
  destruct (claims_step c l v); cbn [bind]; auto. Qed.

Lemma Timestamp_rt t : (forall z, t = WholeSeconds z -> in_i64 z = true) ->
  Timestamp_from_value (Timestamp_to_value t) = Ok t.
Proof. destruct t; [|reflexivity]. intros H. cbn [Timestamp_to_value Timestamp_from_value]. unfold to_i64_res.
  now rewrite (H z eq_refl). Qed.

Lemma cfold_oe1 o s a e n t ct r : cfold (oe 1 o VText) (mkClaims None s a e n t ct r) = Ok (mkClaims o s a e n t ct r).
Proof. destruct o; reflexivity. Qed.
Lemma cfold_oe2 o i a e n t ct r : cfold (oe 2 o VText) (mkClaims i None a e n t ct r) = Ok (mkClaims i o a e n t ct r).
Proof. destruct o; reflexivity. Qed.
Lemma cfold_oe3 o i s e n t ct r : cfold (oe 3 o VText) (mkClaims i s None e n t ct r) = Ok (mkClaims i s o e n t ct r).
Proof. destruct o; reflexivity. Qed.
Lemma cfold_oe4 o i s a n t ct r : (forall z, o = Some (WholeSeconds z) -> in_i64 z = true) ->
  cfold (oe 4 o Timestamp_to_value) (mkClaims i s a None n t ct r) = Ok (mkClaims i s a o n t ct r).
Proof. destruct o as [ts|]; [|reflexivity]. intros H. cbn [oe cfold]. rewrite claims_step_eq.
  cbn [regp_eqb Z.eqb Pos.eqb]. rewrite Timestamp_rt by (intros z ->; auto). reflexivity. Qed.
Lemma cfold_oe5 o i s a e t ct r : (forall z, o = Some (WholeSeconds z) -> in_i64 z = true) ->
  cfold (oe 5 o Timestamp_to_value) (mkClaims i s a e None t ct r) = Ok (mkClaims i s a e o t ct r).
Proof. destruct o as [ts|]; [|reflexivity]. intros H. cbn [oe cfold]. rewrite claims_step_eq.
  cbn [regp_eqb Z.eqb Pos.eqb]. rewrite Timestamp_rt by (intros z ->; auto). reflexivity. Qed.
Lemma cfold_oe6 o i s a e n ct r : (forall z, o = Some (WholeSeconds z) -> in_i64 z = true) ->
  cfold (oe 6 o Timestamp_to_value) (mkClaims i s a e n None ct r) = Ok (mkClaims i s a e n o ct r).
Proof. destruct o as [ts|]; [|reflexivity]. intros H. cbn [oe cfold]. rewrite claims_step_eq.
  cbn [regp_eqb Z.eqb Pos.eqb]. rewrite Timestamp_rt by (intros z ->; auto). reflexivity. Qed.
Lemma cfold_oe7 o i s a e n t r : cfold (oe 7 o VBytes) (mkClaims i s a e n t None r) = Ok (mkClaims i s a e n t o r).
Proof. destruct o; reflexivity. Qed.

Lemma cfold_rest : forall rest c, Forall (fun e : regp_label * value => std_claim (fst e) = false) rest ->
  cfold rest c = Ok (mkClaims (c_iss c) (c_sub c) (c_aud c) (c_exp c) (c_nbf c) (c_iat c) (c_cti c) (c_rest c ++ rest)).
Proof. induction rest as [|[l v] r IH]; intros c F.
  - destruct c. cbn. now rewrite app_nil_r.
  - inversion F; subst. cbn [cfold fst] in *. rewrite claims_step_other by assumption. cbn [bind].
    rewrite IH by assumption. cbn [c_iss c_sub c_aud c_exp c_nbf c_iat c_cti c_rest]. now rewrite <- app_assoc. Qed.

Lemma In_oe {A} j k (o : option A) f L :
  In (PAssigned j) (map fst (oe k o f ++ L)) -> j = k \/ In (PAssigned j) (map fst L).
Proof. destruct o; cbn; auto. intros [[= ->]|H]; auto. Qed.
Lemma NoDup_oe {A} k (o : option A) f L :
  ~ In (PAssigned k) (map fst L) -> NoDup (map fst L) -> NoDup (map fst (oe k o f ++ L)).
Proof. destruct o; cbn; auto. constructor; auto. Qed.
Lemma rest_no_std rest n : Forall (fun e : regp_label * value => std_claim (fst e) = false) rest ->
  In n (map fst rest) -> std_claim n = false.
Proof. intros F H. apply in_map_iff in H as (e & <- & I). rewrite Forall_forall in F. auto. Qed.

Theorem claims_roundtrip : forall c, claims_wf c ->
  exists v, ClaimsSet_to_value c = Ok v /\ ClaimsSet_from_value v = Ok c.
Proof.
  intros c (ND & FA & HE & HN & HI). destruct c as [i s a e n t ct rest].
  cbn [c_rest c_exp c_nbf c_iat] in *.
  assert (F1: Forall (fun e : regp_label * value => std_claim (fst e) = false) rest)
    by (eapply Forall_impl; [|exact FA]; cbn beta; tauto).
  assert (F2: Forall (fun e : regp_label * value =>
            regp_from_value "CwtClaimName" (regp_to_value (fst e)) = Ok (fst e)) rest).
  { eapply Forall_impl; [|exact FA]. cbn beta. intros x (W & _ & H). now apply regp_rt. }
  eexists. split; [apply to_value_eq|].
  cbn [ClaimsSet_from_value c_iss c_sub c_aud c_exp c_nbf c_iat c_cti c_rest].
  apply claims_loop_iff; [constructor|].
  exists (oe 1 i VText ++ oe 2 s VText ++ oe 3 a VText ++ oe 4 e Timestamp_to_value
          ++ oe 5 n Timestamp_to_value ++ oe 6 t Timestamp_to_value ++ oe 7 ct VBytes ++ rest).
  split; [|split; [|split]].
  - rewrite !names_app, !names_opt by (cbn; tauto). rewrite names_rest by assumption. reflexivity.
  - repeat (apply NoDup_oe;
      [ let H := fresh "H" in intros H;
        repeat (apply In_oe in H as [H|H]; [discriminate H|]);
        apply (rest_no_std _ _ F1) in H; cbv in H; discriminate H | ]).
    exact ND.
  - intros l _ [].
  - unfold claims_default.
    rewrite cfold_app, cfold_oe1. cbn [bind].
    rewrite cfold_app, cfold_oe2. cbn [bind].
    rewrite cfold_app, cfold_oe3. cbn [bind].
    rewrite cfold_app, cfold_oe4 by assumption. cbn [bind].
    rewrite cfold_app, cfold_oe5 by assumption. cbn [bind].
    rewrite cfold_app, cfold_oe6 by assumption. cbn [bind].
    rewrite cfold_app, cfold_oe7. cbn [bind].
    rewrite cfold_rest by assumption. reflexivity.
Qed.

(* why claims_wf asks PrivateUse(z) to lie in the private-use range: regp_wf and in_i64 alone
   are not enough *)
Example private_range_needed :
  let c := mkClaims None None None None None None None [(PPrivate 100, VNull)] in
  regp_wf "CwtClaimName" (PPrivate 100) /\ in_i64 100 = true /\
  exists v, ClaimsSet_to_value c = Ok v /\ ClaimsSet_from_value v = Err EUnregNonPriv.
Proof. cbv zeta. split; [reflexivity|]. split; [reflexivity|]. eexists. split; reflexivity. Qed.

(* the same statement read through the declarative spec *)
Corollary claims_roundtrip_spec c : claims_wf c ->
  exists v, ClaimsSet_to_value c = Ok v /\ claims_spec creg v = Some c.
Proof. intros H. destruct (claims_roundtrip c H) as (v & E & D). exists v. split; auto. now apply claims_accept_iff. Qed.

Print Assumptions claims_accept_iff.
Print Assumptions ClaimsSet_from_value_no_panic.
Print Assumptions claims_roundtrip.
