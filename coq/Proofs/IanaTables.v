(* C17: facts about the registry tables regenerated from /repo/src/iana/mod.rs, established by
   computation over the (finite) tables and lifted to quantified statements. *)
From Coq Require Import Lia.
From Coset.Model Require Import Prelude Cbor Iana Label.
From Coset.gen Require Import Generated.
From Coset.Spec Require Import IanaRef.
Open Scope string_scope. Open Scope Z_scope.

Definition pair_eqb (a b : string * Z) : bool := String.eqb (fst a) (fst b) && Z.eqb (snd a) (snd b).
Lemma pair_eqb_eq a b : pair_eqb a b = true <-> a = b.
Proof. destruct a, b; unfold pair_eqb; cbn. rewrite andb_true_iff, String.eqb_eq, Z.eqb_eq. split; [intros []|intros [=]]; subst; auto. Qed.

(* every entry of t converts both ways *)
Definition table_inverse (t : list (string * Z)) : bool :=
  forallb (fun e => match from_i64 t (snd e), to_i64 t (fst e) with
                    | Some n, Some z => String.eqb n (fst e) && Z.eqb z (snd e)
                    | _, _ => false end) t.
Definition table_in_ref (rt t : list (string * Z)) : bool :=
  forallb (fun e => existsb (pair_eqb e) rt) t.
Definition registry_ok (e : string * list (string * Z)) : bool :=
  table_inverse (snd e) &&
  match assoc (fst e) ref_registries with Some rt => table_in_ref rt (snd e) | None => false end.

Lemma all_registries_ok : forallb registry_ok registries = true.
Proof. vm_compute. reflexivity. Qed.

Lemma registry_entry reg t : In (reg, t) registries -> registry_ok (reg, t) = true.
Proof. intros H. exact (proj1 (forallb_forall _ _) all_registries_ok _ H). Qed.

Theorem conversions_inverse reg t name z :
  In (reg, t) registries -> In (name, z) t -> from_i64 t z = Some name /\ to_i64 t name = Some z.
Proof. intros Hr He. apply registry_entry in Hr. unfold registry_ok in Hr. apply andb_true_iff in Hr as [Hi _].
  unfold table_inverse in Hi. rewrite forallb_forall in Hi. specialize (Hi _ He). cbn [fst snd] in Hi.
  destruct (from_i64 t z) as [n|]; [|discriminate]. destruct (to_i64 t name) as [z'|]; [|discriminate].
  apply andb_true_iff in Hi as [A B]. apply String.eqb_eq in A. apply Z.eqb_eq in B. now subst. Qed.

Lemma from_i64_in t i n : from_i64 t i = Some n -> In (n, i) t.
Proof. induction t as [|[n' v] r IH]; cbn; [discriminate|].
  destruct (Z.eqb_spec i v). - intros [= <-]. left. now subst. - intros H. right. auto. Qed.
Lemma assoc_in {A} k (l : list (string * A)) a : assoc k l = Some a -> In (k, a) l.
Proof. induction l as [|[k' a'] r IH]; cbn; [discriminate|].
  destruct (String.eqb_spec k k'). - intros [= <-]. left. now subst. - intros H. right. auto. Qed.

Theorem from_to_inverse reg t i name :
  In (reg, t) registries -> from_i64 t i = Some name -> to_i64 t name = Some i.
Proof. intros Hr H. apply from_i64_in in H. now apply (conversions_inverse reg t name i Hr). Qed.
Theorem to_from_inverse reg t i name :
  In (reg, t) registries -> to_i64 t name = Some i -> from_i64 t i = Some name.
Proof. intros Hr H. apply assoc_in in H. now apply (conversions_inverse reg t name i Hr). Qed.

(* no two names share an integer, no name occurs twice *)
Theorem names_integers_one_to_one reg t n1 n2 z1 z2 :
  In (reg, t) registries -> In (n1, z1) t -> In (n2, z2) t -> (n1 = n2 <-> z1 = z2).
Proof. intros Hr H1 H2.
  destruct (conversions_inverse _ _ _ _ Hr H1) as [A1 B1]. destruct (conversions_inverse _ _ _ _ Hr H2) as [A2 B2].
  split; intros ->; congruence. Qed.

(* each name carries the integer IANA registered for it *)
Theorem names_carry_iana_integers reg t name z :
  In (reg, t) registries -> In (name, z) t ->
  exists rt, assoc reg ref_registries = Some rt /\ In (name, z) rt.
Proof. intros Hr He. apply registry_entry in Hr. unfold registry_ok in Hr. apply andb_true_iff in Hr as [_ Hi].
  cbn [fst snd] in Hi. destruct (assoc reg ref_registries) as [rt|]; [|discriminate]. exists rt. split; auto.
  unfold table_in_ref in Hi. rewrite forallb_forall in Hi. specialize (Hi _ He).
  apply existsb_exists in Hi as (x & Hx & E). apply pair_eqb_eq in E. now subst. Qed.

(* the private-use predicate *)
Lemma private_ranges_pinned :
  private_ranges = map (fun r => (r, ("<", ref_private_bound))) ref_private_registries.
Proof. reflexivity. Qed.

Theorem is_private_iff reg i : In reg ref_private_registries -> is_private reg i = (i <? -65536).
Proof. unfold is_private. rewrite private_ranges_pinned. cbn.
  intros [<-|[<-|[<-|[<-|[]]]]]; reflexivity. Qed.
Theorem is_private_other reg i : ~ In reg ref_private_registries -> is_private reg i = false.
Proof. unfold is_private. rewrite private_ranges_pinned. cbn. intros H.
  repeat match goal with |- context [String.eqb reg ?s] =>
    destruct (String.eqb_spec reg s); [exfalso; apply H; subst; cbn; tauto|] end. reflexivity. Qed.

Definition no_assigned_private : bool :=
  forallb (fun r => forallb (fun e => negb (is_private r (snd e))) (table_of r)) ref_private_registries.
Theorem assigned_values_not_private reg name z :
  In reg ref_private_registries -> In (name, z) (table_of reg) -> is_private reg z = false.
Proof. intros Hr He. assert (H: no_assigned_private = true) by (vm_compute; reflexivity).
  unfold no_assigned_private in H. rewrite forallb_forall in H. specialize (H _ Hr).
  rewrite forallb_forall in H. specialize (H _ He). now apply negb_true_iff in H. Qed.

(* ---------- label classification ---------- *)
Definition i64 (z : Z) : Prop := -9223372036854775808 <= z < 9223372036854775808.
Lemma in_i64_true z : i64 z -> in_i64 z = true. Proof. unfold i64, in_i64. lia. Qed.
Lemma in_i64_false z : ~ i64 z -> in_i64 z = false. Proof. unfold i64, in_i64. lia. Qed.

Theorem regp_classification reg z : i64 z ->
  regp_from_value reg (VInt z) =
    if registered (table_of reg) z then Ok (PAssigned z)
    else if is_private reg z then Ok (PPrivate z)
    else Err EUnregNonPriv.
Proof. intros H. cbn. unfold to_i64_res. now rewrite in_i64_true. Qed.
Theorem reg_classification t z : i64 z ->
  reg_from_value t (VInt z) = if registered t z then Ok (RAssigned z) else Err EUnreg.
Proof. intros H. cbn. unfold to_i64_res. now rewrite in_i64_true. Qed.
Theorem label_out_of_range reg t z : ~ i64 z ->
  regp_from_value reg (VInt z) = Err ERange /\ reg_from_value t (VInt z) = Err ERange
  /\ label_from_value (VInt z) = Err ERange.
Proof. intros H. cbn. unfold to_i64_res. now rewrite in_i64_false. Qed.
Theorem text_labels_kept reg t s :
  regp_from_value reg (VText s) = Ok (PText s) /\ reg_from_value t (VText s) = Ok (RText s)
  /\ label_from_value (VText s) = Ok (LText s).
Proof. repeat split. Qed.
Lemma registered_iff t z : registered t z = true <-> exists n, from_i64 t z = Some n.
Proof. unfold registered. destruct (from_i64 t z); cbn; split; eauto; try discriminate. intros [n [=]]. Qed.

(* constants the model takes from the source, pinned to the registered values *)
Lemma label_constants_pinned :
  (H_ALG, H_CRIT, H_CONTENT_TYPE, H_KID, H_IV, H_PARTIAL_IV, H_COUNTER_SIG) = (1, 2, 3, 4, 5, 6, 7)
  /\ (K_KTY, K_KID, K_ALG, K_KEY_OPS, K_BASE_IV) = (1, 2, 3, 4, 5)
  /\ (C_ISS, C_SUB, C_AUD, C_EXP, C_NBF, C_IAT, C_CTI) = (1, 2, 3, 4, 5, 6, 7).
Proof. repeat split. Qed.
