(* C15: every narrowing of a wire integer is an explicit range test. *)
From Coq Require Import Lia.
From Coset.Model Require Import Prelude Cbor Iana Label Msg Key Cwt Context.
From Coset.Proofs Require Import Head RoundTrip Widths.
Require Import ZifyBool ZifyN ZifyNat.
Open Scope Z_scope.

Definition I64 (z : Z) : Prop := -9223372036854775808 <= z < 9223372036854775808.
Definition U64 (z : Z) : Prop := 0 <= z < 18446744073709551616.
Definition CBOR_INT (z : Z) : Prop := -18446744073709551616 <= z < 18446744073709551616.

Lemma to_i64_res_exact z : to_i64_res z = if in_i64 z then Ok z else Err ERange. Proof. reflexivity. Qed.
Lemma in_i64_iff z : in_i64 z = true <-> I64 z. Proof. unfold in_i64, I64. lia. Qed.
Lemma in_u64_iff z : in_u64 z = true <-> U64 z. Proof. unfold in_u64, U64. lia. Qed.

Lemma label_int_exact z :
  label_from_value (VInt z) = if in_i64 z then Ok (LInt z) else Err ERange.
Proof. cbn. unfold to_i64_res. destruct (in_i64 z); reflexivity. Qed.

Lemma reg_int_exact t z :
  reg_from_value t (VInt z) =
    if in_i64 z then (if registered t z then Ok (RAssigned z) else Err EUnreg) else Err ERange.
Proof. cbn. unfold to_i64_res. destruct (in_i64 z); reflexivity. Qed.

Lemma regp_int_exact reg z :
  regp_from_value reg (VInt z) =
    if in_i64 z then (if registered (table_of reg) z then Ok (PAssigned z)
                      else if is_private reg z then Ok (PPrivate z) else Err EUnregNonPriv)
    else Err ERange.
Proof. cbn. unfold to_i64_res. destruct (in_i64 z); reflexivity. Qed.

Lemma timestamp_int_exact z :
  Timestamp_from_value (VInt z) = if in_i64 z then Ok (WholeSeconds z) else Err ERange.
Proof. cbn. unfold to_i64_res. destruct (in_i64 z); reflexivity. Qed.

Lemma party_nonce_exact z :
  PartyInfo_from_value (VArray [VNull; VInt z; VNull]) =
    if in_i64 z then Ok (mkParty None (Some (NonceInteger z)) None) else Err ERange.
Proof. unfold PartyInfo_from_value. cbn. unfold to_i64_res. destruct (in_i64 z); reflexivity. Qed.

Lemma key_data_length_exact z :
  SuppPubInfo_from_value (VArray [VInt z; VBytes []]) =
    if in_u64 z then Ok (mkSupp z (mkProtected (Some []) header_default) None) else Err ERange.
Proof. unfold SuppPubInfo_from_value. cbn. unfold to_u64_res. destruct (in_u64 z); reflexivity. Qed.

(* supported values encode back to a CBOR integer of the same value *)
Lemma label_int_encodes z : label_to_value (LInt z) = VInt z. Proof. reflexivity. Qed.
Lemma timestamp_int_encodes z : Timestamp_to_value (WholeSeconds z) = VInt z. Proof. reflexivity. Qed.

(* every CBOR integer survives the byte codec exactly, in the shortest form *)
Lemma int_roundtrip z f bud r : CBOR_INT z -> de (S (S f)) bud (ser (VInt z) ++ r) = Ok (VInt z, r).
Proof. intros H. apply de_ser; cbn; try lia. unfold CBOR_INT in H. lia. Qed.
