(* Wire-normality of re-encoded values.
   If v is in wire normal form (value_nf) and T_from_value v = Ok m, then the re-encoding
   T_to_value m = Ok v' is again in normal form and not deeper than v.  With
   DecodedNf.from_reader_output this discharges the value_nf / depth hypotheses of the
   byte-level decode -> encode -> decode fixed-point theorems. *)
From Coq Require Import Lia Permutation.
From Coset.Model Require Import Prelude Cbor Iana Label Msg Key Cwt Context Api.
From Coset.gen Require Import Generated.
From Coset.Spec Require Import IanaRef Accept AcceptMsg.
From Coset.Proofs Require Import Head RoundTrip Loop IanaTables HeaderAccept.
From Coset.Proofs Require DecodedNf NoDupLabels Canon Retained NoPanic MsgAccept KeyAccept ClaimsAccept
  TypedRoundTrip HeaderRoundTrip MsgRoundTrip.
Require Import ZifyBool ZifyN ZifyNat.
Ltac Zify.zify_post_hook ::= Z.div_mod_to_equations.
Open Scope string_scope. Open Scope Z_scope. Open Scope list_scope.

Local Notation RA := (registered T_Algorithm).
Local Notation RH := (registered T_HeaderParameter).
Local Notation RC := (registered T_CoapContentFormat).
Local Notation RKT := (registered T_KeyType).
Local Notation RKO := (registered T_KeyOperation).
Local Notation creg := (registered T_CwtClaimName).

Ltac bdo H :=
  repeat match type of H with
  | bind ?r _ = Ok _ => let E := fresh "E" in destruct r eqn:E; cbn [bind] in H; try discriminate H
  end.
Ltac bd1 H x E :=
  match type of H with
  | bind ?r _ = Ok _ => destruct r as [x| | |] eqn:E; cbn [bind] in H; try discriminate H
  end.
Ltac ifc H :=
  match type of H with (if ?c then _ else _) = _ => destruct c eqn:?; [discriminate H|] end.

(* ====================================================================== *)
(* 0. generic: normal form / depth of arrays and maps                     *)
(* ====================================================================== *)
(* v' is an acceptable re-encoding of v *)
Definition good_out (v v' : value) : Prop := value_nf v' = true /\ (depth v' <= depth v)%nat.

Lemma good_out_refl v : value_nf v = true -> good_out v v.
Proof. intros H. split; [exact H|lia]. Qed.

Lemma good_out_trans a b c : good_out a b -> good_out b c -> good_out a c.
Proof. intros [_ D1] [N2 D2]. split; [exact N2|lia]. Qed.

(* ---------- arrays ---------- *)
Lemma forallb_Forall {A} (f : A -> bool) l : forallb f l = true <-> Forall (fun x => f x = true) l.
Proof. rewrite forallb_forall, Forall_forall. reflexivity. Qed.

Lemma nf_array_inv l : value_nf (VArray l) = true ->
  (N.of_nat (length l) < p64)%N /\ Forall (fun y => value_nf y = true) l.
Proof. cbn [value_nf]. intros H. apply andb_true_iff in H as [L F]. split; [lia|now apply forallb_Forall]. Qed.

Lemma nf_array_intro l : (N.of_nat (length l) < p64)%N -> Forall (fun y => value_nf y = true) l ->
  value_nf (VArray l) = true.
Proof. intros L F. cbn [value_nf]. apply andb_true_iff. split; [lia|now apply forallb_Forall]. Qed.

Lemma In_list_max x l : In x l -> (depth x <= list_max depth l)%nat.
Proof. unfold list_max. induction l as [|y l IH]; intros I; [destruct I|]. cbn [fold_right].
  destruct I as [->|I].
  - apply Nat.le_max_l.
  - etransitivity; [apply IH, I|apply Nat.le_max_r]. Qed.

Lemma list_max_le l d : Forall (fun y => (depth y <= d)%nat) l -> (list_max depth l <= d)%nat.
Proof. unfold list_max. induction 1 as [|y l Hy _ IH]; cbn [fold_right]; [lia|]. now apply Nat.max_lub. Qed.

(* y may appear as an element of the re-encoding of VArray l *)
Definition el (l : list value) (y : value) : Prop :=
  value_nf y = true /\ (depth y <= list_max depth l)%nat.

Lemma el_In l y : value_nf (VArray l) = true -> In y l -> el l y.
Proof. intros NF I. apply nf_array_inv in NF as [_ F]. rewrite Forall_forall in F.
  split; [now apply F|now apply In_list_max]. Qed.

Lemma el_trans l x y : el l x -> good_out x y -> el l y.
Proof. intros [_ D] [N D']. split; [exact N|lia]. Qed.

Lemma array_reencode l l' : value_nf (VArray l) = true -> (length l' <= length l)%nat ->
  Forall (el l) l' -> good_out (VArray l) (VArray l').
Proof.
  intros NF L F. apply nf_array_inv in NF as [LL _]. split.
  - apply nf_array_intro; [lia|]. eapply Forall_impl; [|exact F]. intros y [N _]. exact N.
  - cbn [depth]. apply le_n_S. apply list_max_le. eapply Forall_impl; [|exact F]. intros y [_ D]. exact D.
Qed.

Lemma array_perm l l' : Permutation l' l -> value_nf (VArray l) = true -> good_out (VArray l) (VArray l').
Proof. intros P NF. apply array_reencode; [exact NF|rewrite (Permutation_length P); lia|].
  apply Forall_forall. intros y I. apply el_In; [exact NF|]. eapply Permutation_in; eassumption. Qed.

(* ---------- maps ---------- *)
Lemma nf_map_inv m : value_nf (VMap m) = true ->
  (N.of_nat (length m) < p64)%N /\ Forall (fun kv => value_nf (fst kv) = true /\ value_nf (snd kv) = true) m.
Proof. cbn [value_nf]. intros H. apply andb_true_iff in H as [L F]. split; [lia|].
  apply forallb_Forall in F. eapply Forall_impl; [|exact F]. intros kv E. now apply andb_true_iff in E. Qed.

Lemma nf_map_intro m : (N.of_nat (length m) < p64)%N ->
  Forall (fun kv => value_nf (fst kv) = true /\ value_nf (snd kv) = true) m -> value_nf (VMap m) = true.
Proof. intros L F. cbn [value_nf]. apply andb_true_iff. split; [lia|].
  apply forallb_Forall. eapply Forall_impl; [|exact F]. intros kv [A B]. now rewrite A, B. Qed.

Lemma depth_map m : depth (VMap m) = S (mmax m). Proof. reflexivity. Qed.

Lemma mmax_In m kv : In kv m -> (depth (fst kv) <= mmax m)%nat /\ (depth (snd kv) <= mmax m)%nat.
Proof. induction m as [|kv0 m IH]; intros I; [destruct I|]. cbn [mmax fold_right]. fold (mmax m).
  destruct I as [->|I].
  - split; (etransitivity; [|apply Nat.le_max_l]); [apply Nat.le_max_l|apply Nat.le_max_r].
  - destruct (IH I) as [A B]. split; (etransitivity; [|apply Nat.le_max_r]); assumption. Qed.

Lemma mmax_le m d : Forall (fun kv => (depth (fst kv) <= d)%nat /\ (depth (snd kv) <= d)%nat) m -> (mmax m <= d)%nat.
Proof. induction 1 as [|kv m [A B] _ IH]; cbn [mmax fold_right]; [lia|]. fold (mmax m).
  apply Nat.max_lub; [apply Nat.max_lub|]; assumption. Qed.

(* kv may appear as an entry of the re-encoding of VMap m: its key is one of the keys of m *)
Definition mel (m : list (value * value)) (kv : value * value) : Prop :=
  In (fst kv) (map fst m) /\ value_nf (snd kv) = true /\ (depth (snd kv) <= mmax m)%nat.

Lemma mel_In m kv : value_nf (VMap m) = true -> In kv m -> mel m kv.
Proof. intros NF I. apply nf_map_inv in NF as [_ F]. rewrite Forall_forall in F.
  split; [now apply in_map|]. split; [now apply F|now apply mmax_In]. Qed.

Lemma mel_good m k x y : value_nf (VMap m) = true -> In (k, x) m -> good_out x y -> mel m (k, y).
Proof. intros NF I [N D]. pose proof (mmax_In m _ I) as [_ B]. unfold mel. cbn [fst snd] in *.
  split; [apply in_map_iff; exists (k, x); auto|]. split; [exact N|lia]. Qed.

Lemma map_reencode m m' : value_nf (VMap m) = true -> (length m' <= length m)%nat ->
  Forall (mel m) m' -> good_out (VMap m) (VMap m').
Proof.
  intros NF L F. apply nf_map_inv in NF as [LL FM]. rewrite Forall_forall in FM.
  assert (K : forall k, In k (map fst m) -> value_nf k = true /\ (depth k <= mmax m)%nat).
  { intros k I. apply in_map_iff in I as (kv & <- & I). split; [now apply FM|now apply mmax_In]. }
  split.
  - apply nf_map_intro; [lia|]. eapply Forall_impl; [|exact F]. intros kv (I & N & _).
    split; [now apply K|exact N].
  - rewrite !depth_map. apply le_n_S. apply mmax_le. eapply Forall_impl; [|exact F].
    intros kv (I & _ & D). split; [now apply K|exact D].
Qed.

Lemma count_nodup (m m' : list (value * value)) : NoDup (map fst m') -> Forall (mel m) m' -> (length m' <= length m)%nat.
Proof. intros ND F. rewrite <- (map_length fst m'), <- (map_length fst m).
  apply NoDup_incl_length; [exact ND|]. intros k I. apply in_map_iff in I as (kv & <- & I).
  rewrite Forall_forall in F. now apply F. Qed.

(* ====================================================================== *)
(* 1. leaves: what is stored re-encodes to exactly the value it came from *)
(* ====================================================================== *)
Lemma label_exact v l : label_from_value v = Ok l -> label_to_value l = v.
Proof. destruct v; cbn [label_from_value]; try discriminate.
  - unfold to_i64_res. destruct (in_i64 z); cbn [bind]; [|discriminate]. now intros [= <-].
  - now intros [= <-]. Qed.

Lemma reg_exact T v r : reg_from_value T v = Ok r -> reg_to_value r = v.
Proof. destruct v; cbn [reg_from_value]; try discriminate.
  - unfold to_i64_res. destruct (in_i64 z); cbn [bind]; [|discriminate].
    destruct (registered T z); [|discriminate]. now intros [= <-].
  - now intros [= <-]. Qed.

Lemma regp_exact reg v a : regp_from_value reg v = Ok a -> regp_to_value a = v.
Proof. destruct v; cbn [regp_from_value]; try discriminate.
  - unfold to_i64_res. destruct (in_i64 z); cbn [bind]; [|discriminate].
    destruct (registered (table_of reg) z); [now intros [= <-]|].
    destruct (is_private reg z); [|discriminate]. now intros [= <-].
  - now intros [= <-]. Qed.

Lemma bytes_or_nil_exact x o : bytes_or_nil x = Ok o -> opt_bytes_value o = x.
Proof. destruct x; cbn [bytes_or_nil]; try discriminate; now intros [= <-]. Qed.

Lemma try_as_bytes_exact x b : try_as_bytes x = Ok b -> VBytes b = x.
Proof. destruct x; cbn [try_as_bytes]; try discriminate; now intros [= <-]. Qed.

Lemma try_as_array_exact x a : try_as_array x = Ok a -> x = VArray a.
Proof. destruct x; cbn [try_as_array]; try discriminate; now intros [= <-]. Qed.

Lemma mapM_bytes_exact l : forall bs, mapM try_as_bytes l = Ok bs -> map VBytes bs = l.
Proof. induction l as [|x l IH]; intros bs H; cbn [mapM] in H.
  - injection H as <-. reflexivity.
  - bd1 H b E. bd1 H r E'. injection H as <-. cbn [map]. rewrite (try_as_bytes_exact _ _ E), (IH _ eq_refl). reflexivity. Qed.

Lemma protected_exact pp x p : protected_from_bstr pp x = Ok p -> protected_cbor_bstr p = Ok x.
Proof. intros H. destruct (Retained.protected_retained _ _ _ H) as (d & -> & _ & E). exact E. Qed.

(* ---------- Label ---------- *)
Theorem Label_reencode_exact : forall v l, Label_from_value v = Ok l -> Label_to_value l = Ok v.
Proof. intros v l H. unfold Label_to_value. now rewrite (label_exact _ _ H). Qed.

Theorem Label_reencode_nf : forall v m v', value_nf v = true -> Label_from_value v = Ok m ->
  Label_to_value m = Ok v' -> value_nf v' = true /\ (depth v' <= depth v)%nat.
Proof. intros v m v' NF H E. rewrite (Label_reencode_exact _ _ H) in E. injection E as <-. now apply good_out_refl. Qed.

(* ---------- PartyInfo ---------- *)
Theorem PartyInfo_reencode_exact : forall v p, PartyInfo_from_value v = Ok p -> PartyInfo_to_value p = Ok v.
Proof.
  intros v p H. unfold PartyInfo_from_value in H. bd1 H a A. apply try_as_array_exact in A. subst v.
  rewrite MsgAccept.arity_party in H. destruct a as [|x0 [|x1 [|x2 [|x3 r]]]]; try discriminate H.
  cbn [length Nat.eqb negb] in H. bd1 H other E2. bd1 H nn E1. bd1 H idn E0. injection H as <-.
  unfold PartyInfo_to_value. cbn [pi_identity pi_nonce pi_other].
  rewrite (bytes_or_nil_exact _ _ E0), (bytes_or_nil_exact _ _ E2). repeat f_equal.
  destruct x1; try discriminate E1.
  - unfold to_i64_res in E1. destruct (in_i64 z); cbn [bind] in E1; [|discriminate]. now injection E1 as <-.
  - now injection E1 as <-.
  - now injection E1 as <-.
Qed.

Theorem PartyInfo_reencode_nf : forall v m v', value_nf v = true -> PartyInfo_from_value v = Ok m ->
  PartyInfo_to_value m = Ok v' -> value_nf v' = true /\ (depth v' <= depth v)%nat.
Proof. intros v m v' NF H E. rewrite (PartyInfo_reencode_exact _ _ H) in E. injection E as <-. now apply good_out_refl. Qed.

(* ---------- SuppPubInfo ---------- *)
Lemma uint_exact x i n : try_as_integer x = Ok i -> to_u64_res i = Ok n -> VInt n = x.
Proof. destruct x; cbn [try_as_integer]; try discriminate. intros [= <-]. unfold to_u64_res.
  destruct (in_u64 z); [|discriminate]. now intros [= <-]. Qed.

Theorem SuppPubInfo_reencode_exact : forall v s, SuppPubInfo_from_value v = Ok s -> SuppPubInfo_to_value s = Ok v.
Proof.
  intros v s H. unfold SuppPubInfo_from_value in H. bd1 H a A. apply try_as_array_exact in A. subst v.
  rewrite MsgAccept.arity_supp in H. destruct a as [|x0 [|x1 [|x2 [|x3 r]]]]; try discriminate H.
  - cbn [length Nat.eqb negb orb bind] in H. bd1 H p E0. bd1 H i E1. bd1 H n E2. injection H as <-.
    unfold SuppPubInfo_to_value. cbn [sp_len sp_prot sp_other].
    rewrite (protected_exact _ _ _ E0). cbn [bind app]. rewrite (uint_exact _ _ _ E1 E2). reflexivity.
  - cbn [length Nat.eqb negb orb] in H. bd1 H other E. bd1 H p E0. bd1 H i E1. bd1 H n E2. injection H as <-.
    bd1 E b E3. injection E as <-.
    unfold SuppPubInfo_to_value. cbn [sp_len sp_prot sp_other].
    rewrite (protected_exact _ _ _ E0). cbn [bind app]. rewrite (try_as_bytes_exact _ _ E3), (uint_exact _ _ _ E1 E2).
    reflexivity.
Qed.

Theorem SuppPubInfo_reencode_nf : forall v m v', value_nf v = true -> SuppPubInfo_from_value v = Ok m ->
  SuppPubInfo_to_value m = Ok v' -> value_nf v' = true /\ (depth v' <= depth v)%nat.
Proof. intros v m v' NF H E. rewrite (SuppPubInfo_reencode_exact _ _ H) in E. injection E as <-. now apply good_out_refl. Qed.

(* ---------- CoseKdfContext ---------- *)
Theorem CoseKdfContext_reencode_exact : forall v k, CoseKdfContext_from_value v = Ok k -> CoseKdfContext_to_value k = Ok v.
Proof.
  intros v k H. unfold CoseKdfContext_from_value in H. bd1 H a A. apply try_as_array_exact in A. subst v.
  ifc H. destruct a as [|x0 [|x1 [|x2 [|x3 rest]]]]; try discriminate H.
  bd1 H priv E. bd1 H pub E0. bd1 H pv E1. bd1 H pu E2. bd1 H alg E3. injection H as <-.
  unfold CoseKdfContext_to_value. cbn [kc_alg kc_u kc_v kc_pub kc_priv].
  rewrite (PartyInfo_reencode_exact _ _ E2), (PartyInfo_reencode_exact _ _ E1), (SuppPubInfo_reencode_exact _ _ E0).
  cbn [bind]. rewrite (regp_exact _ _ _ E3), (mapM_bytes_exact _ _ E). reflexivity.
Qed.

Theorem CoseKdfContext_reencode_nf : forall v m v', value_nf v = true -> CoseKdfContext_from_value v = Ok m ->
  CoseKdfContext_to_value m = Ok v' -> value_nf v' = true /\ (depth v' <= depth v)%nat.
Proof. intros v m v' NF H E. rewrite (CoseKdfContext_reencode_exact _ _ H) in E. injection E as <-. now apply good_out_refl. Qed.

(* ====================================================================== *)
(* 2. map-shaped types: labelled views and per-field lemmas               *)
(* ====================================================================== *)
Lemma key_labels_In m : forall lm l x, key_labels m = Some lm -> In (l, x) lm -> In (label_to_value l, x) m.
Proof. induction m as [|[k v] m IH]; intros lm l x; cbn [key_labels].
  - intros [= <-] [].
  - destruct (key_label k) as [l0|] eqn:K; [|discriminate].
    destruct (key_labels m) as [r|]; [|discriminate]. intros [= <-] [E|I].
    + injection E as <- <-. left. now rewrite (HeaderRoundTrip.key_label_inv k l0 K).
    + right. eapply IH; eauto. Qed.

Lemma find_In_pair l lm x : find l lm = Some x -> In (l, x) lm.
Proof. induction lm as [|[l' v] r IH]; cbn [find]; [discriminate|].
  destruct (label_eqb l l') eqn:E.
  - apply label_eqb_eq in E. subst. intros [= <-]. now left.
  - intros H. right. now apply IH. Qed.

Lemma emit_rest_form rest : forall seen acc m, emit_rest rest seen acc = Ok m ->
  m = acc ++ map (fun e => (label_to_value (fst e), snd e)) rest.
Proof. induction rest as [|[l x] r IH]; intros seen acc m H; cbn [emit_rest] in H.
  - injection H as <-. now rewrite app_nil_r.
  - destruct (label_mem l seen); [discriminate|]. apply IH in H. rewrite H, <- app_assoc. reflexivity. Qed.

Lemma rest_mel m lm (p : label * value -> bool) : value_nf (VMap m) = true -> key_labels m = Some lm ->
  Forall (mel m) (map (fun e => (label_to_value (fst e), snd e)) (filter p lm)).
Proof. intros NF K. apply Forall_forall. intros kv I. apply in_map_iff in I as ([l x] & <- & I).
  apply filter_In in I as [I _]. cbn [fst snd]. apply mel_In; [exact NF|]. eapply key_labels_In; eauto. Qed.

(* an entry emitted for the typed field with label z, decoded from x *)
Definition ent_ok (z : Z) (x : value) (kv : value * value) : Prop :=
  fst kv = VInt z /\ good_out x (snd kv).

Lemma field_mel {A} m lm z (shape : value -> option A) d f (ent : A -> list (value * value)) :
  value_nf (VMap m) = true -> key_labels m = Some lm ->
  field (find (LInt z) lm) shape d = Some f -> ent d = [] ->
  (forall x a, shape x = Some a -> value_nf x = true -> Forall (ent_ok z x) (ent a)) ->
  Forall (mel m) (ent f).
Proof.
  intros NF K F D S. destruct (find (LInt z) lm) as [x|] eqn:FD; cbn [field] in F.
  - apply find_In_pair in FD. apply (key_labels_In m lm) in FD; [|exact K]. cbn [label_to_value] in FD.
    pose proof (mel_In m _ NF FD) as (_ & Nx & _). cbn [snd] in Nx.
    specialize (S x f F Nx). eapply Forall_impl; [|exact S]. intros [k y] [E G]. cbn [fst snd] in *. subst k.
    eapply mel_good; eauto.
  - injection F as <-. rewrite D. constructor.
Qed.

Lemma ent_ok_exact z x : value_nf x = true -> Forall (ent_ok z x) [(VInt z, x)].
Proof. intros N. constructor; [|constructor]. split; [reflexivity|now apply good_out_refl]. Qed.

(* ---------- shapes re-encode exactly ---------- *)
Lemma reg_shape_exact R x r : reg_shape R x = Some r -> reg_to_value r = x.
Proof. destruct x; cbn [reg_shape]; try discriminate.
  - destruct (is_i64 z && R z); [|discriminate]. now intros [= <-].
  - now intros [= <-]. Qed.

Lemma alg_shape_exact R x a : alg_shape R x = Some a -> regp_to_value a = x.
Proof. destruct x; cbn [alg_shape]; try discriminate.
  - destruct (is_i64 z); [|discriminate]. destruct (R z); [now intros [= <-]|].
    destruct (private_use z); [|discriminate]. now intros [= <-].
  - now intros [= <-]. Qed.

Lemma nonempty_exact x b : nonempty_bstr x = Some b -> x = VBytes b /\ isnil b = false.
Proof. destruct x; cbn [nonempty_bstr]; try discriminate. destruct b0; [discriminate|]. intros [= <-]. auto. Qed.

Lemma all_some_reg_exact R l : forall c, all_some (map (reg_shape R) l) = Some c -> map reg_to_value c = l.
Proof. induction l as [|x l IH]; intros c; cbn [map all_some].
  - now intros [= <-].
  - destruct (reg_shape R x) as [r|] eqn:S; [|discriminate].
    destruct (all_some (map (reg_shape R) l)) as [rs|]; [|discriminate]. intros [= <-].
    cbn [map]. rewrite (reg_shape_exact _ _ _ S), (IH rs eq_refl). reflexivity. Qed.

Lemma alg_ent z x a : option_map Some (alg_shape RA x) = Some a -> value_nf x = true ->
  Forall (ent_ok z x) (opt_entry z a regp_to_value).
Proof. destruct (alg_shape RA x) as [a0|] eqn:S; cbn [option_map]; [|discriminate]. intros [= <-] N.
  cbn [opt_entry]. rewrite (alg_shape_exact _ _ _ S). now apply ent_ok_exact. Qed.

Lemma bytes_ent z x b : nonempty_bstr x = Some b -> value_nf x = true -> Forall (ent_ok z x) (bytes_entry z b).
Proof. intros S N. apply nonempty_exact in S as [-> E]. unfold bytes_entry. rewrite E. now apply ent_ok_exact. Qed.

(* ====================================================================== *)
(* 3. CoseKey, CoseKeySet                                                 *)
(* ====================================================================== *)
Lemma key_ops_ent x ops : key_ops_shape RKO x = Some ops -> value_nf x = true ->
  Forall (ent_ok 4 x) (if isnil ops then [] else [(VInt 4, VArray (map reg_to_value ops))]).
Proof.
  destruct x as [| | | | | | |[|y r]|]; cbn [key_ops_shape]; try discriminate.
  destruct (all_some (map (reg_shape RKO) (y :: r))) as [ops0|] eqn:AS; [|discriminate].
  destruct (reg_distinct ops0); [|discriminate]. intros [= <-] N.
  destruct (isnil (sort_by reg_cmp ops0)); constructor; [|constructor].
  split; [reflexivity|]. cbn [snd]. apply array_perm; [|exact N].
  rewrite <- (all_some_reg_exact _ _ _ AS). apply Permutation_map. apply Canon.sort_by_perm.
Qed.

Theorem CoseKey_reencode_nf : forall v m v', value_nf v = true -> CoseKey_from_value v = Ok m ->
  CoseKey_to_value m = Ok v' -> value_nf v' = true /\ (depth v' <= depth v)%nat.
Proof.
  intros v k v' NF H E.
  assert (ND : forall m', v' = VMap m' -> NoDup (map fst m')).
  { intros m' ->. eapply NoDupLabels.key_encoding_has_distinct_keys; eauto. }
  rewrite NoDupLabels.CoseKey_to_value_eq in E.
  destruct (seed_seen (NoDupLabels.key_typed k)) as [seen| | |]; cbn [bind] in E; try discriminate.
  destruct (emit_rest (k_params k) seen (NoDupLabels.key_typed k)) as [m'| | |] eqn:ER; cbn [bind] in E; try discriminate.
  injection E as <-. apply emit_rest_form in ER. specialize (ND m' eq_refl).
  apply KeyAccept.key_accept_iff in H.
  destruct v as [| | | | | | | |m]; try (cbn [key_spec] in H; discriminate).
  rewrite KeyAccept.key_spec_unfold in H.
  destruct (key_labels m) as [lm|] eqn:L; [|discriminate].
  destruct (distinct (map fst lm)); cbn [negb] in H; [|discriminate].
  unfold KeyAccept.key_body in H.
  destruct (find (LInt 1) lm) as [kv|] eqn:F1; [|discriminate].
  destruct (reg_shape RKT kv) as [kty|] eqn:S1; [|discriminate].
  destruct (field (find (LInt 2) lm) nonempty_bstr []) as [kid|] eqn:S2; [|discriminate].
  destruct (field (find (LInt 3) lm) (fun x => option_map Some (alg_shape RA x)) None) as [alg|] eqn:S3; [|discriminate].
  destruct (field (find (LInt 4) lm) (key_ops_shape RKO) []) as [ops|] eqn:S4; [|discriminate].
  destruct (field (find (LInt 5) lm) nonempty_bstr []) as [biv|] eqn:S5; [|discriminate].
  destruct (reg_eqb kty (RAssigned 0)); [discriminate|]. injection H as <-.
  unfold NoDupLabels.key_typed in ER. cbn [k_kty k_kid k_alg k_ops k_base_iv k_params] in ER.
  assert (F : Forall (mel m) m').
  { subst m'. repeat (apply Forall_app; split).
    - rewrite (reg_shape_exact _ _ _ S1). constructor; [|constructor]. apply mel_In; [exact NF|].
      apply find_In_pair in F1. exact (key_labels_In m lm _ _ L F1).
    - exact (field_mel m lm 2 nonempty_bstr [] kid (bytes_entry 2) NF L S2 eq_refl (bytes_ent 2)).
    - exact (field_mel m lm 3 _ None alg (fun o => opt_entry 3 o regp_to_value) NF L S3 eq_refl (alg_ent 3)).
    - exact (field_mel m lm 4 _ [] ops (fun o => if isnil o then [] else [(VInt 4, VArray (map reg_to_value o))])
               NF L S4 eq_refl key_ops_ent).
    - exact (field_mel m lm 5 nonempty_bstr [] biv (bytes_entry 5) NF L S5 eq_refl (bytes_ent 5)).
    - now apply rest_mel. }
  apply map_reencode; [exact NF|now apply count_nodup|exact F].
Qed.

(* arrays of independently decoded elements *)
Lemma mapM_reencode_aux {T} (fromv : value -> res T) (tov : T -> res value) l0 :
  value_nf (VArray l0) = true -> forall l, incl l l0 ->
  Forall (fun x => value_nf x = true -> forall t y, fromv x = Ok t -> tov t = Ok y -> good_out x y) l ->
  forall ts ys, mapM fromv l = Ok ts -> mapM tov ts = Ok ys ->
  length ys = length l /\ Forall (el l0) ys.
Proof.
  intros NF. induction l as [|x l IH]; intros IN F ts ys M1 M2; cbn [mapM] in M1.
  - injection M1 as <-. cbn [mapM] in M2. injection M2 as <-. split; [reflexivity|constructor].
  - bd1 M1 t E. bd1 M1 tr E'. injection M1 as <-. cbn [mapM] in M2. bd1 M2 y Ey. bd1 M2 yr Ey'. injection M2 as <-.
    inversion F as [|? ? Hx Hl]; subst.
    assert (Ix : In x l0) by (apply IN; now left).
    pose proof (el_In l0 x NF Ix) as Ex.
    destruct (IH (fun z Hz => IN z (or_intror Hz)) Hl tr yr eq_refl Ey') as [L G].
    split; [cbn [length]; now rewrite L|]. constructor; [|exact G].
    eapply el_trans; [exact Ex|]. eapply Hx; eauto. exact (proj1 Ex).
Qed.

Lemma array_mapM_reencode {T} (fromv : value -> res T) (tov : T -> res value) l :
  value_nf (VArray l) = true ->
  Forall (fun x => value_nf x = true -> forall t y, fromv x = Ok t -> tov t = Ok y -> good_out x y) l ->
  forall ts ys, mapM fromv l = Ok ts -> mapM tov ts = Ok ys -> good_out (VArray l) (VArray ys).
Proof. intros NF F ts ys M1 M2.
  destruct (mapM_reencode_aux fromv tov l NF l (fun _ H => H) F ts ys M1 M2) as [L G].
  apply array_reencode; [exact NF|lia|exact G]. Qed.

Theorem CoseKeySet_reencode_nf : forall v m v', value_nf v = true -> CoseKeySet_from_value v = Ok m ->
  CoseKeySet_to_value m = Ok v' -> value_nf v' = true /\ (depth v' <= depth v)%nat.
Proof.
  intros v ks v' NF H E. unfold CoseKeySet_from_value in H. bd1 H a A. apply try_as_array_exact in A. subst v.
  unfold CoseKeySet_to_value in E. bd1 E vs M. injection E as <-.
  eapply array_mapM_reencode; [exact NF| |exact H|exact M].
  apply Forall_forall. intros x _ N t y. now apply CoseKey_reencode_nf.
Qed.

(* ====================================================================== *)
(* 4. ClaimsSet                                                           *)
(* ====================================================================== *)
Lemma claim_name_exact k n : claim_name creg k = Some n -> regp_to_value n = k.
Proof. destruct k; cbn [claim_name]; try discriminate.
  - destruct (is_i64 z); [|discriminate]. destruct (creg z); [now intros [= <-]|].
    destruct (private_use z); [|discriminate]. now intros [= <-].
  - now intros [= <-]. Qed.

Lemma claim_names_In m : forall lm n x, claim_names creg m = Some lm -> In (n, x) lm -> In (regp_to_value n, x) m.
Proof. induction m as [|[k v] m IH]; intros lm n x; cbn [claim_names].
  - intros [= <-] [].
  - destruct (claim_name creg k) as [n0|] eqn:K; [|discriminate].
    destruct (claim_names creg m) as [r|]; [|discriminate]. intros [= <-] [E|I].
    + injection E as <- <-. left. now rewrite (claim_name_exact k n0 K).
    + right. eapply IH; eauto. Qed.

Lemma find_claim_In n lm x : find_claim n lm = Some x -> In (n, x) lm.
Proof. induction lm as [|[n' v] r IH]; cbn [find_claim]; [discriminate|].
  destruct (regp_eqb n n') eqn:E.
  - apply ClaimsAccept.regp_eqb_eq in E. subst. intros [= <-]. now left.
  - intros H. right. now apply IH. Qed.

Lemma cfield_mel {A} m lm z (shape : value -> option (option A)) f (tov : A -> value) :
  value_nf (VMap m) = true -> claim_names creg m = Some lm ->
  field (find_claim (PAssigned z) lm) shape None = Some f ->
  (forall x o, shape x = Some o -> exists a, o = Some a /\ tov a = x) ->
  Forall (mel m) (opt_entry z f tov).
Proof.
  intros NF K F S. destruct (find_claim (PAssigned z) lm) as [x|] eqn:FD; cbn [field] in F.
  - destruct (S x f F) as (a & -> & Ea). apply find_claim_In in FD.
    apply (claim_names_In m lm) in FD; [|exact K]. cbn [regp_to_value] in FD.
    cbn [opt_entry]. rewrite Ea. constructor; [|constructor]. now apply mel_In.
  - injection F as <-. constructor.
Qed.

Lemma text_shape_exact x o : text_shape x = Some o -> exists a, o = Some a /\ VText a = x.
Proof. destruct x; cbn [text_shape]; try discriminate. intros [= <-]. eauto. Qed.
Lemma bstr_shape_exact x o : bstr_shape x = Some o -> exists a, o = Some a /\ VBytes a = x.
Proof. destruct x; cbn [bstr_shape]; try discriminate. intros [= <-]. eauto. Qed.
Lemma time_shape_exact x o : time_shape x = Some o -> exists a, o = Some a /\ Timestamp_to_value a = x.
Proof. destruct x; cbn [time_shape]; try discriminate.
  - destruct (is_i64 z); [|discriminate]. intros [= <-]. eauto.
  - intros [= <-]. eauto. Qed.

Definition centries (c : claims) : list (value * value) :=
  opt_entry C_ISS (c_iss c) VText
  ++ opt_entry C_SUB (c_sub c) VText
  ++ opt_entry C_AUD (c_aud c) VText
  ++ opt_entry C_EXP (c_exp c) Timestamp_to_value
  ++ opt_entry C_NBF (c_nbf c) Timestamp_to_value
  ++ opt_entry C_IAT (c_iat c) Timestamp_to_value
  ++ opt_entry C_CTI (c_cti c) VBytes
  ++ map (fun nv => (regp_to_value (fst nv), snd nv)) (c_rest c).

Lemma claims_step_count c n x c' : claims_step c n x = Ok c' -> (length (centries c') <= S (length (centries c)))%nat.
Proof.
  unfold claims_step.
  repeat match goal with |- context [if is_claim n ?k then _ else _] => destruct (is_claim n k) end;
    intros H; bdo H; injection H as <-; unfold centries;
    cbn [c_iss c_sub c_aud c_exp c_nbf c_iat c_cti c_rest];
    rewrite ?app_length, ?map_length, ?app_length; cbn [opt_entry length]; lia.
Qed.

Lemma claims_loop_count m : forall c seen c', claims_loop m c seen = Ok c' ->
  (length (centries c') <= length (centries c) + length m)%nat.
Proof. induction m as [|[k x] m IH]; intros c seen c' H; cbn [claims_loop] in H.
  - injection H as <-. lia.
  - bd1 H n E. destruct (regp_mem n seen); [discriminate|]. bd1 H c1 E1.
    apply claims_step_count in E1. apply IH in H. cbn [length]. lia. Qed.

Theorem ClaimsSet_reencode_nf : forall v m v', value_nf v = true -> ClaimsSet_from_value v = Ok m ->
  ClaimsSet_to_value m = Ok v' -> value_nf v' = true /\ (depth v' <= depth v)%nat.
Proof.
  intros v c v' NF H E. change (ClaimsSet_to_value c) with (Ok (A:=value) (VMap (centries c))) in E. injection E as <-.
  destruct v as [| | | | | | | |m]; try discriminate H.
  assert (CNT : (length (centries c) <= length m)%nat).
  { cbn [ClaimsSet_from_value] in H. apply claims_loop_count in H. exact H. }
  apply ClaimsAccept.claims_accept_iff in H. rewrite ClaimsAccept.claims_spec_merge in H.
  destruct (claim_names creg m) as [lm|] eqn:N; [|discriminate].
  destruct (regp_distinct (map fst lm)); cbn [negb] in H; [|discriminate].
  unfold ClaimsAccept.merge, claims_default in H. cbn [c_iss c_sub c_aud c_exp c_nbf c_iat c_cti c_rest app] in H.
  destruct (field (find_claim (PAssigned 1) lm) text_shape None) as [i|] eqn:S1; [|discriminate].
  destruct (field (find_claim (PAssigned 2) lm) text_shape None) as [sb|] eqn:S2; [|discriminate].
  destruct (field (find_claim (PAssigned 3) lm) text_shape None) as [a|] eqn:S3; [|discriminate].
  destruct (field (find_claim (PAssigned 4) lm) time_shape None) as [e|] eqn:S4; [|discriminate].
  destruct (field (find_claim (PAssigned 5) lm) time_shape None) as [n|] eqn:S5; [|discriminate].
  destruct (field (find_claim (PAssigned 6) lm) time_shape None) as [t|] eqn:S6; [|discriminate].
  destruct (field (find_claim (PAssigned 7) lm) bstr_shape None) as [ct|] eqn:S7; [|discriminate].
  injection H as <-. apply map_reencode; [exact NF|exact CNT|].
  unfold centries. cbn [c_iss c_sub c_aud c_exp c_nbf c_iat c_cti c_rest].
  repeat (apply Forall_app; split).
  - exact (cfield_mel m lm 1 text_shape i VText NF N S1 text_shape_exact).
  - exact (cfield_mel m lm 2 text_shape sb VText NF N S2 text_shape_exact).
  - exact (cfield_mel m lm 3 text_shape a VText NF N S3 text_shape_exact).
  - exact (cfield_mel m lm 4 time_shape e Timestamp_to_value NF N S4 time_shape_exact).
  - exact (cfield_mel m lm 5 time_shape n Timestamp_to_value NF N S5 time_shape_exact).
  - exact (cfield_mel m lm 6 time_shape t Timestamp_to_value NF N S6 time_shape_exact).
  - exact (cfield_mel m lm 7 bstr_shape ct VBytes NF N S7 bstr_shape_exact).
  - apply Forall_forall. intros kv I. apply in_map_iff in I as ([nm x] & <- & I).
    apply filter_In in I as [I _]. cbn [fst snd]. apply mel_In; [exact NF|]. eapply claim_names_In; eauto.
Qed.

(* ====================================================================== *)
(* 5. Header / CoseSignature / ProtectedHeader, at any nested parser      *)
(* ====================================================================== *)
Lemma header_to_value_form h v' : header_to_value h = Ok v' ->
  exists c7, v' = VMap ((NoDupLabels.header_typed h ++ c7) ++ map (fun e => (label_to_value (fst e), snd e)) (h_rest h)) /\
    match h_csigs h with
    | [] => c7 = []
    | [s] => exists sv, signature_to_value s = Ok sv /\ c7 = [(VInt 7, sv)]
    | ss => exists svs, mapM signature_to_value ss = Ok svs /\ c7 = [(VInt 7, VArray svs)]
    end.
Proof.
  rewrite NoDupLabels.header_to_value_eq. intros H.
  match type of H with bind ?X _ = _ => destruct X as [m2| | |] eqn:E2 end; cbn [bind] in H; try discriminate.
  destruct (seed_seen m2) as [seen| | |]; cbn [bind] in H; try discriminate.
  destruct (emit_rest (h_rest h) seen m2) as [m'| | |] eqn:ER; cbn [bind] in H; try discriminate.
  injection H as <-. apply emit_rest_form in ER. subst m'.
  destruct (h_csigs h) as [|s [|s' ss]].
  - injection E2 as <-. exists []. rewrite app_nil_r. auto.
  - destruct (signature_to_value s) as [sv| | |]; cbn [bind] in E2; try discriminate. injection E2 as <-.
    exists [(VInt 7, sv)]. split; [reflexivity|]. eauto.
  - destruct (mapM signature_to_value (s :: s' :: ss)) as [svs| | |]; cbn [bind] in E2; try discriminate.
    injection E2 as <-. exists [(VInt 7, VArray svs)]. split; [reflexivity|]. eauto.
Qed.

Lemma crit_ent x c : crit_shape RH x = Some c -> value_nf x = true ->
  Forall (ent_ok 2 x) (if isnil c then [] else [(VInt 2, VArray (map reg_to_value c))]).
Proof.
  destruct x as [| | | | | | |[|y r]|]; cbn [crit_shape]; try discriminate. intros AS N.
  pose proof (all_some_reg_exact _ _ _ AS) as E. destruct c as [|c0 cr]; [discriminate E|].
  cbn [isnil]. rewrite E. now apply ent_ok_exact.
Qed.

Lemma ctype_shape_exact x c : content_type_shape RC x = Some c -> reg_to_value c = x.
Proof. destruct x; cbn [content_type_shape]; try discriminate; try (apply reg_shape_exact).
  destruct (media_type_text t); [|discriminate]. now intros [= <-]. Qed.

Lemma ctype_ent x a : option_map Some (content_type_shape RC x) = Some a -> value_nf x = true ->
  Forall (ent_ok 3 x) (opt_entry 3 a reg_to_value).
Proof. destruct (content_type_shape RC x) as [c|] eqn:S; cbn [option_map]; [|discriminate]. intros [= <-] N.
  cbn [opt_entry]. rewrite (ctype_shape_exact _ _ S). now apply ent_ok_exact. Qed.

Lemma single_good x sv : good_out x (VArray [sv]) -> good_out x sv.
Proof. intros [N D]. apply nf_array_inv in N as [_ F]. inversion F as [|? ? Ns _]; subst.
  split; [exact Ns|]. cbn [depth] in D. unfold list_max in D. cbn [fold_right] in D.
  pose proof (Nat.le_max_l (depth sv) 0). lia. Qed.

Section NfLevel.
  Variable pp : bytes -> res header.
  Let hfv := header_from_value pp.
  Let sfv := signature_from_value_with pp hfv.

  Definition DN (v : value) : Prop := value_nf v = true ->
    (forall h v', hfv v = Ok h -> header_to_value h = Ok v' -> good_out v v') /\
    (forall s v', sfv v = Ok s -> signature_to_value s = Ok v' -> good_out v v') /\
    (forall l ss svs, v = VArray l -> mapM sfv l = Ok ss -> mapM signature_to_value ss = Ok svs ->
       good_out (VArray l) (VArray svs)).

  Lemma sig_reencode x0 x1 x2 a s v' :
    value_nf (VArray (x0 :: x1 :: x2 :: a)) = true ->
    (value_nf x1 = true -> forall h u', hfv x1 = Ok h -> header_to_value h = Ok u' -> good_out x1 u') ->
    sfv (VArray (x0 :: x1 :: x2 :: a)) = Ok s -> signature_to_value s = Ok v' ->
    good_out (VArray (x0 :: x1 :: x2 :: a)) v'.
  Proof.
    intros NF IH H E. unfold sfv, signature_from_value_with in H.
    destruct (negb _); [discriminate|].
    destruct (try_as_bytes x2) as [sg| | |] eqn:B; cbn [bind] in H; try discriminate.
    destruct (hfv x1) as [u| | |] eqn:U; cbn [bind] in H; try discriminate.
    destruct (protected_from_bstr pp x0) as [p| | |] eqn:P; cbn [bind] in H; try discriminate.
    injection H as <-. rewrite NoPanic.signature_to_value_eq in E. cbn [s_prot s_unprot s_sig] in E.
    rewrite (protected_exact _ _ _ P) in E. cbn [bind] in E.
    destruct (header_to_value u) as [u'| | |] eqn:EU; cbn [bind] in E; try discriminate. injection E as <-.
    rewrite (try_as_bytes_exact _ _ B).
    assert (E1 : el (x0 :: x1 :: x2 :: a) x1) by (apply el_In; [exact NF|right; now left]).
    apply array_reencode; [exact NF|cbn [length]; lia|].
    constructor; [|constructor; [|constructor; [|constructor]]].
    - apply el_In; [exact NF|now left].
    - eapply el_trans; [exact E1|]. eapply IH; eauto. exact (proj1 E1).
    - apply el_In; [exact NF|right; right; now left].
  Qed.

  Lemma DN_all : forall v, DN v.
  Proof.
    induction v as [z|b|x|t|b| |t v IH|l IH|m IH] using value_ind'; intros NF;
      try (split; [discriminate|split; [discriminate|discriminate]]).
    - (* array *)
      split; [discriminate|]. split.
      + intros s v' H E. destruct l as [|x0 [|x1 [|x2 a]]].
        1-3: unfold sfv, signature_from_value_with in H; rewrite arity_sig in H; discriminate H.
        eapply sig_reencode; eauto.
        inversion IH as [|? ? _ IH1]; subst. inversion IH1 as [|? ? I1 _]; subst.
        intros N1. exact (proj1 (I1 N1)).
      + intros l' ss svs [= <-] M1 M2.
        eapply array_mapM_reencode; [exact NF| |exact M1|exact M2].
        eapply Forall_impl; [|exact IH]. intros a Ha Na. exact (proj1 (proj2 (Ha Na))).
    - (* map *)
      split; [|split; discriminate].
      intros h v' H E. unfold hfv in H. apply header_from_value_accept_iff in H.
      rewrite header_spec_unfold in H.
      destruct (key_labels m) as [lm|] eqn:K; [|discriminate].
      destruct (distinct (map fst lm)); cbn [negb] in H; [|discriminate].
      unfold header_spec_body in H.
      destruct (field (find (LInt 1) lm) _ None) as [a|] eqn:E1; [|discriminate].
      destruct (field (find (LInt 2) lm) (crit_shape RH) []) as [c|] eqn:E2; [|discriminate].
      destruct (field (find (LInt 3) lm) _ None) as [ct|] eqn:E3; [|discriminate].
      destruct (field (find (LInt 4) lm) nonempty_bstr []) as [kid|] eqn:E4; [|discriminate].
      destruct (field (find (LInt 5) lm) nonempty_bstr []) as [iv|] eqn:E5; [|discriminate].
      destruct (field (find (LInt 6) lm) nonempty_bstr []) as [piv|] eqn:E6; [|discriminate].
      destruct (field (find (LInt 7) lm) (countersig_shape _) []) as [cs|] eqn:E7; [|discriminate].
      destruct (negb (isnil iv) && negb (isnil piv)); [discriminate|]. injection H as <-.
      assert (ND : forall m', v' = VMap m' -> NoDup (map fst m')).
      { intros m' ->. eapply NoDupLabels.header_encoding_has_distinct_keys; eauto. }
      apply header_to_value_form in E as (c7 & -> & C7). specialize (ND _ eq_refl).
      cbn [h_csigs h_rest] in C7, ND |- *.
      unfold NoDupLabels.header_typed in ND |- *. cbn [h_alg h_crit h_ctype h_kid h_iv h_piv] in ND |- *.
      match goal with |- good_out _ (VMap ?m') => assert (F : Forall (mel m) m') end.
      { repeat (apply Forall_app; split).
        - exact (field_mel m lm 1 _ None a (fun o => opt_entry 1 o regp_to_value) NF K E1 eq_refl (alg_ent 1)).
        - exact (field_mel m lm 2 _ [] c (fun o => if isnil o then [] else [(VInt 2, VArray (map reg_to_value o))])
                   NF K E2 eq_refl crit_ent).
        - exact (field_mel m lm 3 _ None ct (fun o => opt_entry 3 o reg_to_value) NF K E3 eq_refl ctype_ent).
        - exact (field_mel m lm 4 nonempty_bstr [] kid (bytes_entry 4) NF K E4 eq_refl (bytes_ent 4)).
        - exact (field_mel m lm 5 nonempty_bstr [] iv (bytes_entry 5) NF K E5 eq_refl (bytes_ent 5)).
        - exact (field_mel m lm 6 nonempty_bstr [] piv (bytes_entry 6) NF K E6 eq_refl (bytes_ent 6)).
        - (* counter-signatures *)
          destruct (find (LInt 7) lm) as [x|] eqn:F7; cbn [field] in E7; [|injection E7 as <-; subst c7; constructor].
          apply find_In_pair in F7. apply (key_labels_In m lm) in F7; [|exact K]. cbn [label_to_value] in F7.
          pose proof (mel_In m _ NF F7) as (_ & Nx & _). cbn [snd] in Nx.
          rewrite Forall_forall in IH. destruct (IH _ F7) as [_ Hx]. cbn [snd] in Hx.
          destruct (Hx Nx) as (_ & Hs & Hm).
          destruct x as [| | | | | | |sl|]; try discriminate E7.
          destruct sl as [|y r]; [discriminate E7|]. destruct y; try discriminate E7.
          * cbn [countersig_shape] in E7.
            destruct (signature_from_value pp (VArray (VBytes b :: r))) as [s| | |] eqn:S; cbn [to_opt] in E7; try discriminate.
            injection E7 as <-. destruct C7 as (sv & Es & ->). constructor; [|constructor].
            eapply mel_good; [exact NF|exact F7|]. eapply Hs; eauto.
          * cbn [countersig_shape] in E7.
            rewrite <- (mapM_all_some (signature_from_value pp)) in E7. apply to_opt_ok in E7.
            destruct cs as [|s [|s' r']].
            -- subst c7. constructor.
            -- destruct C7 as (sv & Es & ->). constructor; [|constructor].
               eapply mel_good; [exact NF|exact F7|]. apply single_good.
               eapply Hm; [reflexivity|exact E7|]. cbn [mapM]. rewrite Es. reflexivity.
            -- destruct C7 as (svs & Es & ->). constructor; [|constructor].
               eapply mel_good; [exact NF|exact F7|]. eapply Hm; [reflexivity|exact E7|exact Es].
        - now apply rest_mel. }
      apply map_reencode; [exact NF|now apply count_nodup|exact F].
  Qed.

  Theorem header_reencode_gen v h v' : value_nf v = true ->
    header_from_value pp v = Ok h -> header_to_value h = Ok v' -> good_out v v'.
  Proof. intros NF. apply (DN_all v NF). Qed.

  Theorem signature_reencode_gen v s v' : value_nf v = true ->
    signature_from_value pp v = Ok s -> signature_to_value s = Ok v' -> good_out v v'.
  Proof. intros NF. apply (DN_all v NF). Qed.

  Theorem signatures_reencode_gen l ss svs : value_nf (VArray l) = true ->
    mapM (signature_from_value pp) l = Ok ss -> mapM signature_to_value ss = Ok svs ->
    good_out (VArray l) (VArray svs).
  Proof. intros NF. apply (DN_all (VArray l) NF). reflexivity. Qed.
End NfLevel.

(* ---------- the public entry points ---------- *)
Theorem Header_reencode_nf : forall v m v', value_nf v = true -> Header_from_value v = Ok m ->
  Header_to_value m = Ok v' -> value_nf v' = true /\ (depth v' <= depth v)%nat.
Proof. intros v h v' NF H E. unfold Header_from_value in H. rewrite Retained.header_at_eq in H.
  exact (header_reencode_gen _ v h v' NF H E). Qed.

Theorem CoseSignature_reencode_nf : forall v m v', value_nf v = true -> CoseSignature_from_value v = Ok m ->
  CoseSignature_to_value m = Ok v' -> value_nf v' = true /\ (depth v' <= depth v)%nat.
Proof. intros v s v' NF H E. exact (signature_reencode_gen _ v s v' NF H E). Qed.

(* ProtectedHeader, bstr-wrapped form (from_cbor_bstr / cbor_bstr): the bytes are written back verbatim *)
Theorem ProtectedHeader_cbor_bstr_reencode_exact : forall v p, ProtectedHeader_from_cbor_bstr v = Ok p ->
  protected_cbor_bstr p = Ok v.
Proof. intros v p H. exact (protected_exact _ _ _ H). Qed.

Theorem ProtectedHeader_cbor_bstr_reencode_nf : forall v m v', value_nf v = true -> ProtectedHeader_from_cbor_bstr v = Ok m ->
  protected_cbor_bstr m = Ok v' -> value_nf v' = true /\ (depth v' <= depth v)%nat.
Proof. intros v p v' NF H E. rewrite (ProtectedHeader_cbor_bstr_reencode_exact _ _ H) in E. injection E as <-.
  now apply good_out_refl. Qed.

(* ProtectedHeader, AsCborValue form (a bare map) *)
Theorem ProtectedHeader_reencode_nf : forall v m v', value_nf v = true -> ProtectedHeader_from_value v = Ok m ->
  protected_to_value m = Ok v' -> value_nf v' = true /\ (depth v' <= depth v)%nat.
Proof. intros v p v' NF H E. unfold ProtectedHeader_from_value in H. bd1 H h EH. injection H as <-.
  unfold protected_to_value in E. cbn [p_hdr] in E. exact (Header_reencode_nf v h v' NF EH E). Qed.

(* ====================================================================== *)
(* 6. messages                                                            *)
(* ====================================================================== *)
Ltac el_exact NF := apply el_In; [exact NF|cbn [In]; tauto].
Ltac el_hdr NF EH EU :=
  match type of EH with Header_from_value ?x = Ok ?u =>
    let X := fresh "X" in
    assert (X : el _ x) by el_exact NF;
    eapply el_trans; [exact X|exact (Header_reencode_nf _ _ _ (proj1 X) EH EU)]
  end.

Theorem CoseSign1_reencode_nf : forall v m v', value_nf v = true -> CoseSign1_from_value v = Ok m ->
  CoseSign1_to_value m = Ok v' -> value_nf v' = true /\ (depth v' <= depth v)%nat.
Proof.
  intros v m v' NF H E. unfold CoseSign1_from_value in H. bd1 H a A. apply try_as_array_exact in A. subst v.
  ifc H. destruct a as [|x0 [|x1 [|x2 [|x3 r]]]]; try discriminate H.
  bd1 H sg E3. bd1 H pl E2. bd1 H u E1. bd1 H p E0. injection H as <-.
  unfold CoseSign1_to_value in E. cbn [s1_prot s1_unprot s1_payload s1_sig] in E.
  rewrite (protected_exact _ _ _ E0) in E. cbn [bind] in E. bd1 E u' EU. injection E as <-.
  rewrite (try_as_bytes_exact _ _ E3), (bytes_or_nil_exact _ _ E2).
  apply array_reencode; [exact NF|cbn [length]; lia|].
  constructor; [el_exact NF|constructor; [el_hdr NF E1 EU|constructor; [el_exact NF|constructor; [el_exact NF|constructor]]]].
Qed.

Theorem CoseMac0_reencode_nf : forall v m v', value_nf v = true -> CoseMac0_from_value v = Ok m ->
  CoseMac0_to_value m = Ok v' -> value_nf v' = true /\ (depth v' <= depth v)%nat.
Proof.
  intros v m v' NF H E. unfold CoseMac0_from_value in H. bd1 H a A. apply try_as_array_exact in A. subst v.
  ifc H. destruct a as [|x0 [|x1 [|x2 [|x3 r]]]]; try discriminate H.
  bd1 H tg E3. bd1 H pl E2. bd1 H u E1. bd1 H p E0. injection H as <-.
  unfold CoseMac0_to_value in E. cbn [m0_prot m0_unprot m0_payload m0_tag] in E.
  rewrite (protected_exact _ _ _ E0) in E. cbn [bind] in E. bd1 E u' EU. injection E as <-.
  rewrite (try_as_bytes_exact _ _ E3), (bytes_or_nil_exact _ _ E2).
  apply array_reencode; [exact NF|cbn [length]; lia|].
  constructor; [el_exact NF|constructor; [el_hdr NF E1 EU|constructor; [el_exact NF|constructor; [el_exact NF|constructor]]]].
Qed.

Theorem CoseEncrypt0_reencode_nf : forall v m v', value_nf v = true -> CoseEncrypt0_from_value v = Ok m ->
  CoseEncrypt0_to_value m = Ok v' -> value_nf v' = true /\ (depth v' <= depth v)%nat.
Proof.
  intros v m v' NF H E. unfold CoseEncrypt0_from_value in H. bd1 H a A. apply try_as_array_exact in A. subst v.
  ifc H. destruct a as [|x0 [|x1 [|x2 r]]]; try discriminate H.
  bd1 H ct E2. bd1 H u E1. bd1 H p E0. injection H as <-.
  unfold CoseEncrypt0_to_value in E. cbn [e0_prot e0_unprot e0_ct] in E.
  rewrite (protected_exact _ _ _ E0) in E. cbn [bind] in E. bd1 E u' EU. injection E as <-.
  rewrite (bytes_or_nil_exact _ _ E2).
  apply array_reencode; [exact NF|cbn [length]; lia|].
  constructor; [el_exact NF|constructor; [el_hdr NF E1 EU|constructor; [el_exact NF|constructor]]].
Qed.

Lemma mapM_map_err {A B} (f : A -> res B) e l : forall r,
  mapM (fun s => map_err (f s) e) l = Ok r -> mapM f l = Ok r.
Proof. induction l as [|x l IH]; intros r H; cbn [mapM] in *; [exact H|].
  bd1 H y E. bd1 H ys E'. injection H as <-. apply MsgRoundTrip.map_err_ok in E. rewrite E. cbn [bind].
  rewrite (IH ys eq_refl). reflexivity. Qed.

Theorem CoseSign_reencode_nf : forall v m v', value_nf v = true -> CoseSign_from_value v = Ok m ->
  CoseSign_to_value m = Ok v' -> value_nf v' = true /\ (depth v' <= depth v)%nat.
Proof.
  intros v m v' NF H E. unfold CoseSign_from_value in H. bd1 H a A. apply try_as_array_exact in A. subst v.
  ifc H. destruct a as [|x0 [|x1 [|x2 [|x3 r]]]]; try discriminate H.
  bd1 H sa E3. bd1 H sigs E4. bd1 H pl E2. bd1 H u E1. bd1 H p E0. injection H as <-.
  apply try_as_array_exact in E3. subst x3. apply mapM_map_err in E4.
  unfold CoseSign_to_value in E. cbn [sn_prot sn_unprot sn_payload sn_sigs] in E.
  rewrite (protected_exact _ _ _ E0) in E. cbn [bind] in E. bd1 E u' EU. bd1 E ss ES. injection E as <-.
  rewrite (bytes_or_nil_exact _ _ E2).
  apply array_reencode; [exact NF|cbn [length]; lia|].
  constructor; [el_exact NF|constructor; [el_hdr NF E1 EU|constructor; [el_exact NF|constructor; [|constructor]]]].
  assert (X : el (x0 :: x1 :: x2 :: VArray sa :: r) (VArray sa)) by el_exact NF.
  eapply el_trans; [exact X|]. exact (signatures_reencode_gen _ sa sigs ss (proj1 X) E4 ES).
Qed.

(* ---------- COSE_recipient (recursive) ---------- *)
Definition RN (v : value) : Prop := value_nf v = true ->
  forall r v', CoseRecipient_from_value v = Ok r -> CoseRecipient_to_value r = Ok v' -> good_out v v'.

Lemma RN_strong : forall v, RN v /\ (forall ra, v = VArray ra -> Forall RN ra).
Proof.
  induction v as [z|b|x|t|b| |t v IH|l IH|m IH] using value_ind';
    try (split; [intros NF r v' H; discriminate H|intros ra Hra; discriminate Hra]).
  split; [|intros ra [= <-]; eapply Forall_impl; [|exact IH]; intros a [Ha _]; exact Ha].
  intros NF r v' H E. cbn [CoseRecipient_from_value] in H.
  ifc H. destruct l as [|x0 [|x1 [|x2 rest]]]; try discriminate H.
  match type of H with bind ?r _ = _ => destruct r as [rs| | |] eqn:R; cbn [bind] in H; try discriminate H end.
  bd1 H ct E2. bd1 H u E1. bd1 H p E0. injection H as <-.
  rewrite NoPanic.CoseRecipient_to_value_eq in E. cbn [r_prot r_unprot r_ct r_recipients] in E.
  rewrite (protected_exact _ _ _ E0) in E. cbn [bind] in E. bd1 E u' EU.
  match type of E with bind ?r _ = _ => destruct r as [tail| | |] eqn:T; cbn [bind] in E; try discriminate E end.
  injection E as <-. rewrite (bytes_or_nil_exact _ _ E2).
  assert (TL : (length tail <= length rest)%nat /\ Forall (el (x0 :: x1 :: x2 :: rest)) tail).
  { destruct (isnil rs) eqn:NI.
    - injection T as <-. split; [cbn [length]; lia|constructor].
    - bd1 T rs' M. injection T as <-.
      match type of R with (if ?c then _ else _) = _ => destruct c end; [|injection R as <-; discriminate NI].
      destruct rest as [|x3 rest']; [discriminate R|].
      destruct x3 as [| | | | | | |ra|]; try discriminate R.
      split; [cbn [length]; lia|]. constructor; [|constructor].
      assert (X : el (x0 :: x1 :: x2 :: VArray ra :: rest') (VArray ra)) by el_exact NF.
      eapply el_trans; [exact X|].
      eapply array_mapM_reencode; [exact (proj1 X)| |exact R|exact M].
      inversion IH as [|? ? _ IH1]; subst. inversion IH1 as [|? ? _ IH2]; subst.
      inversion IH2 as [|? ? _ IH3]; subst. inversion IH3 as [|? ? [_ I3] _]; subst.
      exact (I3 ra eq_refl). }
  destruct TL as [TL1 TL2].
  apply array_reencode; [exact NF|cbn [app length]; lia|].
  cbn [app]. constructor; [el_exact NF|constructor; [el_hdr NF E1 EU|constructor; [el_exact NF|exact TL2]]].
Qed.

Theorem CoseRecipient_reencode_nf : forall v m v', value_nf v = true -> CoseRecipient_from_value v = Ok m ->
  CoseRecipient_to_value m = Ok v' -> value_nf v' = true /\ (depth v' <= depth v)%nat.
Proof. intros v r v' NF. apply (proj1 (RN_strong v) NF). Qed.

Lemma recipients_reencode x rs vs : value_nf x = true -> recipients_from_value x = Ok rs ->
  mapM CoseRecipient_to_value rs = Ok vs -> good_out x (VArray vs).
Proof. intros NF H M. unfold recipients_from_value in H. bd1 H ra A. apply try_as_array_exact in A. subst x.
  eapply array_mapM_reencode; [exact NF| |exact H|exact M].
  apply Forall_forall. intros y _ Ny r v'. now apply CoseRecipient_reencode_nf. Qed.

Theorem CoseEncrypt_reencode_nf : forall v m v', value_nf v = true -> CoseEncrypt_from_value v = Ok m ->
  CoseEncrypt_to_value m = Ok v' -> value_nf v' = true /\ (depth v' <= depth v)%nat.
Proof.
  intros v m v' NF H E. unfold CoseEncrypt_from_value in H. bd1 H a A. apply try_as_array_exact in A. subst v.
  ifc H. destruct a as [|x0 [|x1 [|x2 [|x3 r]]]]; try discriminate H.
  bd1 H rs E3. bd1 H ct E2. bd1 H u E1. bd1 H p E0. injection H as <-.
  unfold CoseEncrypt_to_value in E. cbn [en_prot en_unprot en_ct en_recipients] in E.
  rewrite (protected_exact _ _ _ E0) in E. cbn [bind] in E. bd1 E u' EU. bd1 E vs ES. injection E as <-.
  rewrite (bytes_or_nil_exact _ _ E2).
  apply array_reencode; [exact NF|cbn [length]; lia|].
  constructor; [el_exact NF|constructor; [el_hdr NF E1 EU|constructor; [el_exact NF|constructor; [|constructor]]]].
  assert (X : el (x0 :: x1 :: x2 :: x3 :: r) x3) by el_exact NF.
  eapply el_trans; [exact X|]. exact (recipients_reencode x3 rs vs (proj1 X) E3 ES).
Qed.

Theorem CoseMac_reencode_nf : forall v m v', value_nf v = true -> CoseMac_from_value v = Ok m ->
  CoseMac_to_value m = Ok v' -> value_nf v' = true /\ (depth v' <= depth v)%nat.
Proof.
  intros v m v' NF H E. unfold CoseMac_from_value in H. bd1 H a A. apply try_as_array_exact in A. subst v.
  ifc H. destruct a as [|x0 [|x1 [|x2 [|x3 [|x4 r]]]]]; try discriminate H.
  bd1 H rs E4. bd1 H tg E3. bd1 H pl E2. bd1 H u E1. bd1 H p E0. injection H as <-.
  unfold CoseMac_to_value in E. cbn [mc_prot mc_unprot mc_payload mc_tag mc_recipients] in E.
  rewrite (protected_exact _ _ _ E0) in E. cbn [bind] in E. bd1 E u' EU. bd1 E vs ES. injection E as <-.
  rewrite (bytes_or_nil_exact _ _ E2), (try_as_bytes_exact _ _ E3).
  apply array_reencode; [exact NF|cbn [length]; lia|].
  constructor; [el_exact NF|constructor; [el_hdr NF E1 EU|constructor; [el_exact NF|constructor; [el_exact NF|constructor; [|constructor]]]]].
  assert (X : el (x0 :: x1 :: x2 :: x3 :: x4 :: r) x4) by el_exact NF.
  eapply el_trans; [exact X|]. exact (recipients_reencode x4 rs vs (proj1 X) E4 ES).
Qed.

(* ====================================================================== *)
(* 7. byte level: decode -> encode -> decode without side conditions on   *)
(*    the re-encoded value                                                *)
(* ====================================================================== *)
Lemma read_to_value_inv b v : read_to_value b = Ok v -> from_reader b = Ok (v, []).
Proof. unfold read_to_value. destruct (from_reader b) as [[v0 r]| | |]; cbn [bind]; try discriminate.
  destruct r; cbn [isnil]; [now intros [= <-]|discriminate]. Qed.

(* the re-encoding of a value in normal form is in normal form and not deeper *)
Definition reencode_nf {T : Type} (fromv : value -> res T) (tov : T -> res value) : Prop :=
  forall v m v', value_nf v = true -> fromv v = Ok m -> tov m = Ok v' ->
    value_nf v' = true /\ (depth v' <= depth v)%nat.

(* bytes shorter than 2^64 that parse to a value without a non-canonical short bignum and decode
   to m: m encodes, and the encoding decodes to m again *)
Definition bytes_fp_full {T : Type} (fromv : value -> res T) (tov : T -> res value) : Prop :=
  forall b v m,
    (N.of_nat (length b) < p64)%N -> from_reader b = Ok (v, []) -> DecodedNf.no_bad_bignum v = true ->
    fromv v = Ok m ->
    exists b', to_vec tov m = Ok b' /\ from_slice fromv b' = Ok m.

Definition bytes_fp_full_slice {T : Type} (fromv : value -> res T) (tov : T -> res value) : Prop :=
  forall b m,
    (N.of_nat (length b) < p64)%N -> from_slice fromv b = Ok m ->
    (exists v, from_reader b = Ok (v, []) /\ DecodedNf.no_bad_bignum v = true) ->
    exists b', to_vec tov m = Ok b' /\ from_slice fromv b' = Ok m.

Section Full.
  Context {T : Type}.
  Variable fromv : value -> res T.
  Variable tov : T -> res value.
  Hypothesis FP : forall v y, fromv v = Ok y -> exists v', tov y = Ok v' /\ fromv v' = Ok y.
  Hypothesis RE : reencode_nf fromv tov.

  Theorem bytes_fixed_point_full_gen : bytes_fp_full fromv tov.
  Proof.
    intros b v m HL D NB H.
    destruct (DecodedNf.from_reader_output b v HL D) as [N0 DP].
    assert (NF : value_nf v = true) by (rewrite DecodedNf.nf_split, N0, NB; reflexivity).
    destruct (FP v m H) as (v' & E & D').
    destruct (RE v m v' NF H E) as [NF' DP'].
    exists (ser v'). unfold to_vec, from_slice. rewrite E. cbn [bind]. split; [reflexivity|].
    rewrite (TypedRoundTrip.read_back v' NF'); [exact D'|lia].
  Qed.

  Theorem bytes_fixed_point_full_slice_gen : bytes_fp_full_slice fromv tov.
  Proof.
    intros b m HL H (v & D & NB). apply (bytes_fixed_point_full_gen b v m HL D NB).
    unfold from_slice in H. destruct (read_to_value b) as [v0| | |] eqn:R; cbn [bind] in H; try discriminate.
    apply read_to_value_inv in R. rewrite D in R. injection R as <-. exact H.
  Qed.
End Full.

Lemma ProtectedHeader_value_decode_encode_fixed_point : forall v p, ProtectedHeader_from_value v = Ok p ->
  exists v', protected_to_value p = Ok v' /\ ProtectedHeader_from_value v' = Ok p.
Proof. intros v p H. unfold ProtectedHeader_from_value in H. bd1 H h EH. injection H as <-.
  destruct (HeaderRoundTrip.Header_decode_encode_fixed_point v h EH) as (v' & E & D). exists v'.
  split; [exact E|]. unfold ProtectedHeader_from_value. rewrite D. reflexivity. Qed.

Lemma ProtectedHeader_cbor_bstr_decode_encode_fixed_point : forall v p, ProtectedHeader_from_cbor_bstr v = Ok p ->
  exists v', protected_cbor_bstr p = Ok v' /\ ProtectedHeader_from_cbor_bstr v' = Ok p.
Proof. intros v p H. exists v. exact (HeaderRoundTrip.ProtectedHeader_decode_encode_fixed_point v p H). Qed.

Theorem Label_bytes_fixed_point_full : forall b v m,
  (N.of_nat (length b) < p64)%N -> from_reader b = Ok (v, []) -> DecodedNf.no_bad_bignum v = true ->
  Label_from_value v = Ok m ->
  exists b', to_vec Label_to_value m = Ok b' /\ from_slice Label_from_value b' = Ok m.
Proof. exact (bytes_fixed_point_full_gen Label_from_value Label_to_value TypedRoundTrip.label_decode_encode_fixed_point Label_reencode_nf). Qed.

Theorem Label_bytes_fixed_point_full_slice : forall b m,
  (N.of_nat (length b) < p64)%N -> from_slice Label_from_value b = Ok m ->
  (exists v, from_reader b = Ok (v, []) /\ DecodedNf.no_bad_bignum v = true) ->
  exists b', to_vec Label_to_value m = Ok b' /\ from_slice Label_from_value b' = Ok m.
Proof. exact (bytes_fixed_point_full_slice_gen Label_from_value Label_to_value TypedRoundTrip.label_decode_encode_fixed_point Label_reencode_nf). Qed.

Theorem PartyInfo_bytes_fixed_point_full : forall b v m,
  (N.of_nat (length b) < p64)%N -> from_reader b = Ok (v, []) -> DecodedNf.no_bad_bignum v = true ->
  PartyInfo_from_value v = Ok m ->
  exists b', to_vec PartyInfo_to_value m = Ok b' /\ from_slice PartyInfo_from_value b' = Ok m.
Proof. exact (bytes_fixed_point_full_gen PartyInfo_from_value PartyInfo_to_value TypedRoundTrip.party_decode_encode_fixed_point PartyInfo_reencode_nf). Qed.

Theorem PartyInfo_bytes_fixed_point_full_slice : forall b m,
  (N.of_nat (length b) < p64)%N -> from_slice PartyInfo_from_value b = Ok m ->
  (exists v, from_reader b = Ok (v, []) /\ DecodedNf.no_bad_bignum v = true) ->
  exists b', to_vec PartyInfo_to_value m = Ok b' /\ from_slice PartyInfo_from_value b' = Ok m.
Proof. exact (bytes_fixed_point_full_slice_gen PartyInfo_from_value PartyInfo_to_value TypedRoundTrip.party_decode_encode_fixed_point PartyInfo_reencode_nf). Qed.

Theorem CoseKey_bytes_fixed_point_full : forall b v m,
  (N.of_nat (length b) < p64)%N -> from_reader b = Ok (v, []) -> DecodedNf.no_bad_bignum v = true ->
  CoseKey_from_value v = Ok m ->
  exists b', to_vec CoseKey_to_value m = Ok b' /\ from_slice CoseKey_from_value b' = Ok m.
Proof. exact (bytes_fixed_point_full_gen CoseKey_from_value CoseKey_to_value TypedRoundTrip.key_decode_encode_fixed_point CoseKey_reencode_nf). Qed.

Theorem CoseKey_bytes_fixed_point_full_slice : forall b m,
  (N.of_nat (length b) < p64)%N -> from_slice CoseKey_from_value b = Ok m ->
  (exists v, from_reader b = Ok (v, []) /\ DecodedNf.no_bad_bignum v = true) ->
  exists b', to_vec CoseKey_to_value m = Ok b' /\ from_slice CoseKey_from_value b' = Ok m.
Proof. exact (bytes_fixed_point_full_slice_gen CoseKey_from_value CoseKey_to_value TypedRoundTrip.key_decode_encode_fixed_point CoseKey_reencode_nf). Qed.

Theorem CoseKeySet_bytes_fixed_point_full : forall b v m,
  (N.of_nat (length b) < p64)%N -> from_reader b = Ok (v, []) -> DecodedNf.no_bad_bignum v = true ->
  CoseKeySet_from_value v = Ok m ->
  exists b', to_vec CoseKeySet_to_value m = Ok b' /\ from_slice CoseKeySet_from_value b' = Ok m.
Proof. exact (bytes_fixed_point_full_gen CoseKeySet_from_value CoseKeySet_to_value TypedRoundTrip.keyset_decode_encode_fixed_point CoseKeySet_reencode_nf). Qed.

Theorem CoseKeySet_bytes_fixed_point_full_slice : forall b m,
  (N.of_nat (length b) < p64)%N -> from_slice CoseKeySet_from_value b = Ok m ->
  (exists v, from_reader b = Ok (v, []) /\ DecodedNf.no_bad_bignum v = true) ->
  exists b', to_vec CoseKeySet_to_value m = Ok b' /\ from_slice CoseKeySet_from_value b' = Ok m.
Proof. exact (bytes_fixed_point_full_slice_gen CoseKeySet_from_value CoseKeySet_to_value TypedRoundTrip.keyset_decode_encode_fixed_point CoseKeySet_reencode_nf). Qed.

Theorem ClaimsSet_bytes_fixed_point_full : forall b v m,
  (N.of_nat (length b) < p64)%N -> from_reader b = Ok (v, []) -> DecodedNf.no_bad_bignum v = true ->
  ClaimsSet_from_value v = Ok m ->
  exists b', to_vec ClaimsSet_to_value m = Ok b' /\ from_slice ClaimsSet_from_value b' = Ok m.
Proof. exact (bytes_fixed_point_full_gen ClaimsSet_from_value ClaimsSet_to_value TypedRoundTrip.claims_decode_encode_fixed_point ClaimsSet_reencode_nf). Qed.

Theorem ClaimsSet_bytes_fixed_point_full_slice : forall b m,
  (N.of_nat (length b) < p64)%N -> from_slice ClaimsSet_from_value b = Ok m ->
  (exists v, from_reader b = Ok (v, []) /\ DecodedNf.no_bad_bignum v = true) ->
  exists b', to_vec ClaimsSet_to_value m = Ok b' /\ from_slice ClaimsSet_from_value b' = Ok m.
Proof. exact (bytes_fixed_point_full_slice_gen ClaimsSet_from_value ClaimsSet_to_value TypedRoundTrip.claims_decode_encode_fixed_point ClaimsSet_reencode_nf). Qed.

Theorem Header_bytes_fixed_point_full : forall b v m,
  (N.of_nat (length b) < p64)%N -> from_reader b = Ok (v, []) -> DecodedNf.no_bad_bignum v = true ->
  Header_from_value v = Ok m ->
  exists b', to_vec Header_to_value m = Ok b' /\ from_slice Header_from_value b' = Ok m.
Proof. exact (bytes_fixed_point_full_gen Header_from_value Header_to_value HeaderRoundTrip.Header_decode_encode_fixed_point Header_reencode_nf). Qed.

Theorem Header_bytes_fixed_point_full_slice : forall b m,
  (N.of_nat (length b) < p64)%N -> from_slice Header_from_value b = Ok m ->
  (exists v, from_reader b = Ok (v, []) /\ DecodedNf.no_bad_bignum v = true) ->
  exists b', to_vec Header_to_value m = Ok b' /\ from_slice Header_from_value b' = Ok m.
Proof. exact (bytes_fixed_point_full_slice_gen Header_from_value Header_to_value HeaderRoundTrip.Header_decode_encode_fixed_point Header_reencode_nf). Qed.

Theorem ProtectedHeader_bytes_fixed_point_full : forall b v m,
  (N.of_nat (length b) < p64)%N -> from_reader b = Ok (v, []) -> DecodedNf.no_bad_bignum v = true ->
  ProtectedHeader_from_value v = Ok m ->
  exists b', to_vec protected_to_value m = Ok b' /\ from_slice ProtectedHeader_from_value b' = Ok m.
Proof. exact (bytes_fixed_point_full_gen ProtectedHeader_from_value protected_to_value ProtectedHeader_value_decode_encode_fixed_point ProtectedHeader_reencode_nf). Qed.

Theorem ProtectedHeader_bytes_fixed_point_full_slice : forall b m,
  (N.of_nat (length b) < p64)%N -> from_slice ProtectedHeader_from_value b = Ok m ->
  (exists v, from_reader b = Ok (v, []) /\ DecodedNf.no_bad_bignum v = true) ->
  exists b', to_vec protected_to_value m = Ok b' /\ from_slice ProtectedHeader_from_value b' = Ok m.
Proof. exact (bytes_fixed_point_full_slice_gen ProtectedHeader_from_value protected_to_value ProtectedHeader_value_decode_encode_fixed_point ProtectedHeader_reencode_nf). Qed.

Theorem ProtectedHeader_cbor_bstr_bytes_fixed_point_full : forall b v m,
  (N.of_nat (length b) < p64)%N -> from_reader b = Ok (v, []) -> DecodedNf.no_bad_bignum v = true ->
  ProtectedHeader_from_cbor_bstr v = Ok m ->
  exists b', to_vec protected_cbor_bstr m = Ok b' /\ from_slice ProtectedHeader_from_cbor_bstr b' = Ok m.
Proof. exact (bytes_fixed_point_full_gen ProtectedHeader_from_cbor_bstr protected_cbor_bstr ProtectedHeader_cbor_bstr_decode_encode_fixed_point ProtectedHeader_cbor_bstr_reencode_nf). Qed.

Theorem ProtectedHeader_cbor_bstr_bytes_fixed_point_full_slice : forall b m,
  (N.of_nat (length b) < p64)%N -> from_slice ProtectedHeader_from_cbor_bstr b = Ok m ->
  (exists v, from_reader b = Ok (v, []) /\ DecodedNf.no_bad_bignum v = true) ->
  exists b', to_vec protected_cbor_bstr m = Ok b' /\ from_slice ProtectedHeader_from_cbor_bstr b' = Ok m.
Proof. exact (bytes_fixed_point_full_slice_gen ProtectedHeader_from_cbor_bstr protected_cbor_bstr ProtectedHeader_cbor_bstr_decode_encode_fixed_point ProtectedHeader_cbor_bstr_reencode_nf). Qed.

Theorem CoseSignature_bytes_fixed_point_full : forall b v m,
  (N.of_nat (length b) < p64)%N -> from_reader b = Ok (v, []) -> DecodedNf.no_bad_bignum v = true ->
  CoseSignature_from_value v = Ok m ->
  exists b', to_vec CoseSignature_to_value m = Ok b' /\ from_slice CoseSignature_from_value b' = Ok m.
Proof. exact (bytes_fixed_point_full_gen CoseSignature_from_value CoseSignature_to_value HeaderRoundTrip.CoseSignature_decode_encode_fixed_point CoseSignature_reencode_nf). Qed.

Theorem CoseSignature_bytes_fixed_point_full_slice : forall b m,
  (N.of_nat (length b) < p64)%N -> from_slice CoseSignature_from_value b = Ok m ->
  (exists v, from_reader b = Ok (v, []) /\ DecodedNf.no_bad_bignum v = true) ->
  exists b', to_vec CoseSignature_to_value m = Ok b' /\ from_slice CoseSignature_from_value b' = Ok m.
Proof. exact (bytes_fixed_point_full_slice_gen CoseSignature_from_value CoseSignature_to_value HeaderRoundTrip.CoseSignature_decode_encode_fixed_point CoseSignature_reencode_nf). Qed.

Theorem CoseSign1_bytes_fixed_point_full : forall b v m,
  (N.of_nat (length b) < p64)%N -> from_reader b = Ok (v, []) -> DecodedNf.no_bad_bignum v = true ->
  CoseSign1_from_value v = Ok m ->
  exists b', to_vec CoseSign1_to_value m = Ok b' /\ from_slice CoseSign1_from_value b' = Ok m.
Proof. exact (bytes_fixed_point_full_gen CoseSign1_from_value CoseSign1_to_value MsgRoundTrip.CoseSign1_decode_encode_fixed_point CoseSign1_reencode_nf). Qed.

Theorem CoseSign1_bytes_fixed_point_full_slice : forall b m,
  (N.of_nat (length b) < p64)%N -> from_slice CoseSign1_from_value b = Ok m ->
  (exists v, from_reader b = Ok (v, []) /\ DecodedNf.no_bad_bignum v = true) ->
  exists b', to_vec CoseSign1_to_value m = Ok b' /\ from_slice CoseSign1_from_value b' = Ok m.
Proof. exact (bytes_fixed_point_full_slice_gen CoseSign1_from_value CoseSign1_to_value MsgRoundTrip.CoseSign1_decode_encode_fixed_point CoseSign1_reencode_nf). Qed.

Theorem CoseSign_bytes_fixed_point_full : forall b v m,
  (N.of_nat (length b) < p64)%N -> from_reader b = Ok (v, []) -> DecodedNf.no_bad_bignum v = true ->
  CoseSign_from_value v = Ok m ->
  exists b', to_vec CoseSign_to_value m = Ok b' /\ from_slice CoseSign_from_value b' = Ok m.
Proof. exact (bytes_fixed_point_full_gen CoseSign_from_value CoseSign_to_value MsgRoundTrip.CoseSign_decode_encode_fixed_point CoseSign_reencode_nf). Qed.

Theorem CoseSign_bytes_fixed_point_full_slice : forall b m,
  (N.of_nat (length b) < p64)%N -> from_slice CoseSign_from_value b = Ok m ->
  (exists v, from_reader b = Ok (v, []) /\ DecodedNf.no_bad_bignum v = true) ->
  exists b', to_vec CoseSign_to_value m = Ok b' /\ from_slice CoseSign_from_value b' = Ok m.
Proof. exact (bytes_fixed_point_full_slice_gen CoseSign_from_value CoseSign_to_value MsgRoundTrip.CoseSign_decode_encode_fixed_point CoseSign_reencode_nf). Qed.

Theorem CoseMac_bytes_fixed_point_full : forall b v m,
  (N.of_nat (length b) < p64)%N -> from_reader b = Ok (v, []) -> DecodedNf.no_bad_bignum v = true ->
  CoseMac_from_value v = Ok m ->
  exists b', to_vec CoseMac_to_value m = Ok b' /\ from_slice CoseMac_from_value b' = Ok m.
Proof. exact (bytes_fixed_point_full_gen CoseMac_from_value CoseMac_to_value MsgRoundTrip.CoseMac_decode_encode_fixed_point CoseMac_reencode_nf). Qed.

Theorem CoseMac_bytes_fixed_point_full_slice : forall b m,
  (N.of_nat (length b) < p64)%N -> from_slice CoseMac_from_value b = Ok m ->
  (exists v, from_reader b = Ok (v, []) /\ DecodedNf.no_bad_bignum v = true) ->
  exists b', to_vec CoseMac_to_value m = Ok b' /\ from_slice CoseMac_from_value b' = Ok m.
Proof. exact (bytes_fixed_point_full_slice_gen CoseMac_from_value CoseMac_to_value MsgRoundTrip.CoseMac_decode_encode_fixed_point CoseMac_reencode_nf). Qed.

Theorem CoseMac0_bytes_fixed_point_full : forall b v m,
  (N.of_nat (length b) < p64)%N -> from_reader b = Ok (v, []) -> DecodedNf.no_bad_bignum v = true ->
  CoseMac0_from_value v = Ok m ->
  exists b', to_vec CoseMac0_to_value m = Ok b' /\ from_slice CoseMac0_from_value b' = Ok m.
Proof. exact (bytes_fixed_point_full_gen CoseMac0_from_value CoseMac0_to_value MsgRoundTrip.CoseMac0_decode_encode_fixed_point CoseMac0_reencode_nf). Qed.

Theorem CoseMac0_bytes_fixed_point_full_slice : forall b m,
  (N.of_nat (length b) < p64)%N -> from_slice CoseMac0_from_value b = Ok m ->
  (exists v, from_reader b = Ok (v, []) /\ DecodedNf.no_bad_bignum v = true) ->
  exists b', to_vec CoseMac0_to_value m = Ok b' /\ from_slice CoseMac0_from_value b' = Ok m.
Proof. exact (bytes_fixed_point_full_slice_gen CoseMac0_from_value CoseMac0_to_value MsgRoundTrip.CoseMac0_decode_encode_fixed_point CoseMac0_reencode_nf). Qed.

Theorem CoseEncrypt_bytes_fixed_point_full : forall b v m,
  (N.of_nat (length b) < p64)%N -> from_reader b = Ok (v, []) -> DecodedNf.no_bad_bignum v = true ->
  CoseEncrypt_from_value v = Ok m ->
  exists b', to_vec CoseEncrypt_to_value m = Ok b' /\ from_slice CoseEncrypt_from_value b' = Ok m.
Proof. exact (bytes_fixed_point_full_gen CoseEncrypt_from_value CoseEncrypt_to_value MsgRoundTrip.CoseEncrypt_decode_encode_fixed_point CoseEncrypt_reencode_nf). Qed.

Theorem CoseEncrypt_bytes_fixed_point_full_slice : forall b m,
  (N.of_nat (length b) < p64)%N -> from_slice CoseEncrypt_from_value b = Ok m ->
  (exists v, from_reader b = Ok (v, []) /\ DecodedNf.no_bad_bignum v = true) ->
  exists b', to_vec CoseEncrypt_to_value m = Ok b' /\ from_slice CoseEncrypt_from_value b' = Ok m.
Proof. exact (bytes_fixed_point_full_slice_gen CoseEncrypt_from_value CoseEncrypt_to_value MsgRoundTrip.CoseEncrypt_decode_encode_fixed_point CoseEncrypt_reencode_nf). Qed.

Theorem CoseEncrypt0_bytes_fixed_point_full : forall b v m,
  (N.of_nat (length b) < p64)%N -> from_reader b = Ok (v, []) -> DecodedNf.no_bad_bignum v = true ->
  CoseEncrypt0_from_value v = Ok m ->
  exists b', to_vec CoseEncrypt0_to_value m = Ok b' /\ from_slice CoseEncrypt0_from_value b' = Ok m.
Proof. exact (bytes_fixed_point_full_gen CoseEncrypt0_from_value CoseEncrypt0_to_value MsgRoundTrip.CoseEncrypt0_decode_encode_fixed_point CoseEncrypt0_reencode_nf). Qed.

Theorem CoseEncrypt0_bytes_fixed_point_full_slice : forall b m,
  (N.of_nat (length b) < p64)%N -> from_slice CoseEncrypt0_from_value b = Ok m ->
  (exists v, from_reader b = Ok (v, []) /\ DecodedNf.no_bad_bignum v = true) ->
  exists b', to_vec CoseEncrypt0_to_value m = Ok b' /\ from_slice CoseEncrypt0_from_value b' = Ok m.
Proof. exact (bytes_fixed_point_full_slice_gen CoseEncrypt0_from_value CoseEncrypt0_to_value MsgRoundTrip.CoseEncrypt0_decode_encode_fixed_point CoseEncrypt0_reencode_nf). Qed.

Theorem CoseRecipient_bytes_fixed_point_full : forall b v m,
  (N.of_nat (length b) < p64)%N -> from_reader b = Ok (v, []) -> DecodedNf.no_bad_bignum v = true ->
  CoseRecipient_from_value v = Ok m ->
  exists b', to_vec CoseRecipient_to_value m = Ok b' /\ from_slice CoseRecipient_from_value b' = Ok m.
Proof. exact (bytes_fixed_point_full_gen CoseRecipient_from_value CoseRecipient_to_value MsgRoundTrip.CoseRecipient_decode_encode_fixed_point CoseRecipient_reencode_nf). Qed.

Theorem CoseRecipient_bytes_fixed_point_full_slice : forall b m,
  (N.of_nat (length b) < p64)%N -> from_slice CoseRecipient_from_value b = Ok m ->
  (exists v, from_reader b = Ok (v, []) /\ DecodedNf.no_bad_bignum v = true) ->
  exists b', to_vec CoseRecipient_to_value m = Ok b' /\ from_slice CoseRecipient_from_value b' = Ok m.
Proof. exact (bytes_fixed_point_full_slice_gen CoseRecipient_from_value CoseRecipient_to_value MsgRoundTrip.CoseRecipient_decode_encode_fixed_point CoseRecipient_reencode_nf). Qed.

Theorem SuppPubInfo_bytes_fixed_point_full : forall b v m,
  (N.of_nat (length b) < p64)%N -> from_reader b = Ok (v, []) -> DecodedNf.no_bad_bignum v = true ->
  SuppPubInfo_from_value v = Ok m ->
  exists b', to_vec SuppPubInfo_to_value m = Ok b' /\ from_slice SuppPubInfo_from_value b' = Ok m.
Proof. exact (bytes_fixed_point_full_gen SuppPubInfo_from_value SuppPubInfo_to_value MsgRoundTrip.SuppPubInfo_decode_encode_fixed_point SuppPubInfo_reencode_nf). Qed.

Theorem SuppPubInfo_bytes_fixed_point_full_slice : forall b m,
  (N.of_nat (length b) < p64)%N -> from_slice SuppPubInfo_from_value b = Ok m ->
  (exists v, from_reader b = Ok (v, []) /\ DecodedNf.no_bad_bignum v = true) ->
  exists b', to_vec SuppPubInfo_to_value m = Ok b' /\ from_slice SuppPubInfo_from_value b' = Ok m.
Proof. exact (bytes_fixed_point_full_slice_gen SuppPubInfo_from_value SuppPubInfo_to_value MsgRoundTrip.SuppPubInfo_decode_encode_fixed_point SuppPubInfo_reencode_nf). Qed.

Theorem CoseKdfContext_bytes_fixed_point_full : forall b v m,
  (N.of_nat (length b) < p64)%N -> from_reader b = Ok (v, []) -> DecodedNf.no_bad_bignum v = true ->
  CoseKdfContext_from_value v = Ok m ->
  exists b', to_vec CoseKdfContext_to_value m = Ok b' /\ from_slice CoseKdfContext_from_value b' = Ok m.
Proof. exact (bytes_fixed_point_full_gen CoseKdfContext_from_value CoseKdfContext_to_value MsgRoundTrip.CoseKdfContext_decode_encode_fixed_point CoseKdfContext_reencode_nf). Qed.

Theorem CoseKdfContext_bytes_fixed_point_full_slice : forall b m,
  (N.of_nat (length b) < p64)%N -> from_slice CoseKdfContext_from_value b = Ok m ->
  (exists v, from_reader b = Ok (v, []) /\ DecodedNf.no_bad_bignum v = true) ->
  exists b', to_vec CoseKdfContext_to_value m = Ok b' /\ from_slice CoseKdfContext_from_value b' = Ok m.
Proof. exact (bytes_fixed_point_full_slice_gen CoseKdfContext_from_value CoseKdfContext_to_value MsgRoundTrip.CoseKdfContext_decode_encode_fixed_point CoseKdfContext_reencode_nf). Qed.
Theorem all_types_reencode_nf :
  reencode_nf Label_from_value Label_to_value /\
  reencode_nf PartyInfo_from_value PartyInfo_to_value /\
  reencode_nf CoseKey_from_value CoseKey_to_value /\
  reencode_nf CoseKeySet_from_value CoseKeySet_to_value /\
  reencode_nf ClaimsSet_from_value ClaimsSet_to_value /\
  reencode_nf Header_from_value Header_to_value /\
  reencode_nf ProtectedHeader_from_value protected_to_value /\
  reencode_nf ProtectedHeader_from_cbor_bstr protected_cbor_bstr /\
  reencode_nf CoseSignature_from_value CoseSignature_to_value /\
  reencode_nf CoseSign1_from_value CoseSign1_to_value /\
  reencode_nf CoseSign_from_value CoseSign_to_value /\
  reencode_nf CoseMac_from_value CoseMac_to_value /\
  reencode_nf CoseMac0_from_value CoseMac0_to_value /\
  reencode_nf CoseEncrypt_from_value CoseEncrypt_to_value /\
  reencode_nf CoseEncrypt0_from_value CoseEncrypt0_to_value /\
  reencode_nf CoseRecipient_from_value CoseRecipient_to_value /\
  reencode_nf SuppPubInfo_from_value SuppPubInfo_to_value /\
  reencode_nf CoseKdfContext_from_value CoseKdfContext_to_value.
Proof.
  repeat apply conj.
  - exact Label_reencode_nf.
  - exact PartyInfo_reencode_nf.
  - exact CoseKey_reencode_nf.
  - exact CoseKeySet_reencode_nf.
  - exact ClaimsSet_reencode_nf.
  - exact Header_reencode_nf.
  - exact ProtectedHeader_reencode_nf.
  - exact ProtectedHeader_cbor_bstr_reencode_nf.
  - exact CoseSignature_reencode_nf.
  - exact CoseSign1_reencode_nf.
  - exact CoseSign_reencode_nf.
  - exact CoseMac_reencode_nf.
  - exact CoseMac0_reencode_nf.
  - exact CoseEncrypt_reencode_nf.
  - exact CoseEncrypt0_reencode_nf.
  - exact CoseRecipient_reencode_nf.
  - exact SuppPubInfo_reencode_nf.
  - exact CoseKdfContext_reencode_nf.
Qed.
Theorem all_types_bytes_fixed_point_full :
  bytes_fp_full Label_from_value Label_to_value /\
  bytes_fp_full PartyInfo_from_value PartyInfo_to_value /\
  bytes_fp_full CoseKey_from_value CoseKey_to_value /\
  bytes_fp_full CoseKeySet_from_value CoseKeySet_to_value /\
  bytes_fp_full ClaimsSet_from_value ClaimsSet_to_value /\
  bytes_fp_full Header_from_value Header_to_value /\
  bytes_fp_full ProtectedHeader_from_value protected_to_value /\
  bytes_fp_full ProtectedHeader_from_cbor_bstr protected_cbor_bstr /\
  bytes_fp_full CoseSignature_from_value CoseSignature_to_value /\
  bytes_fp_full CoseSign1_from_value CoseSign1_to_value /\
  bytes_fp_full CoseSign_from_value CoseSign_to_value /\
  bytes_fp_full CoseMac_from_value CoseMac_to_value /\
  bytes_fp_full CoseMac0_from_value CoseMac0_to_value /\
  bytes_fp_full CoseEncrypt_from_value CoseEncrypt_to_value /\
  bytes_fp_full CoseEncrypt0_from_value CoseEncrypt0_to_value /\
  bytes_fp_full CoseRecipient_from_value CoseRecipient_to_value /\
  bytes_fp_full SuppPubInfo_from_value SuppPubInfo_to_value /\
  bytes_fp_full CoseKdfContext_from_value CoseKdfContext_to_value.
Proof.
  repeat apply conj.
  - exact Label_bytes_fixed_point_full.
  - exact PartyInfo_bytes_fixed_point_full.
  - exact CoseKey_bytes_fixed_point_full.
  - exact CoseKeySet_bytes_fixed_point_full.
  - exact ClaimsSet_bytes_fixed_point_full.
  - exact Header_bytes_fixed_point_full.
  - exact ProtectedHeader_bytes_fixed_point_full.
  - exact ProtectedHeader_cbor_bstr_bytes_fixed_point_full.
  - exact CoseSignature_bytes_fixed_point_full.
  - exact CoseSign1_bytes_fixed_point_full.
  - exact CoseSign_bytes_fixed_point_full.
  - exact CoseMac_bytes_fixed_point_full.
  - exact CoseMac0_bytes_fixed_point_full.
  - exact CoseEncrypt_bytes_fixed_point_full.
  - exact CoseEncrypt0_bytes_fixed_point_full.
  - exact CoseRecipient_bytes_fixed_point_full.
  - exact SuppPubInfo_bytes_fixed_point_full.
  - exact CoseKdfContext_bytes_fixed_point_full.
Qed.
Theorem all_types_bytes_fixed_point_full_slice :
  bytes_fp_full_slice Label_from_value Label_to_value /\
  bytes_fp_full_slice PartyInfo_from_value PartyInfo_to_value /\
  bytes_fp_full_slice CoseKey_from_value CoseKey_to_value /\
  bytes_fp_full_slice CoseKeySet_from_value CoseKeySet_to_value /\
  bytes_fp_full_slice ClaimsSet_from_value ClaimsSet_to_value /\
  bytes_fp_full_slice Header_from_value Header_to_value /\
  bytes_fp_full_slice ProtectedHeader_from_value protected_to_value /\
  bytes_fp_full_slice ProtectedHeader_from_cbor_bstr protected_cbor_bstr /\
  bytes_fp_full_slice CoseSignature_from_value CoseSignature_to_value /\
  bytes_fp_full_slice CoseSign1_from_value CoseSign1_to_value /\
  bytes_fp_full_slice CoseSign_from_value CoseSign_to_value /\
  bytes_fp_full_slice CoseMac_from_value CoseMac_to_value /\
  bytes_fp_full_slice CoseMac0_from_value CoseMac0_to_value /\
  bytes_fp_full_slice CoseEncrypt_from_value CoseEncrypt_to_value /\
  bytes_fp_full_slice CoseEncrypt0_from_value CoseEncrypt0_to_value /\
  bytes_fp_full_slice CoseRecipient_from_value CoseRecipient_to_value /\
  bytes_fp_full_slice SuppPubInfo_from_value SuppPubInfo_to_value /\
  bytes_fp_full_slice CoseKdfContext_from_value CoseKdfContext_to_value.
Proof.
  repeat apply conj.
  - exact Label_bytes_fixed_point_full_slice.
  - exact PartyInfo_bytes_fixed_point_full_slice.
  - exact CoseKey_bytes_fixed_point_full_slice.
  - exact CoseKeySet_bytes_fixed_point_full_slice.
  - exact ClaimsSet_bytes_fixed_point_full_slice.
  - exact Header_bytes_fixed_point_full_slice.
  - exact ProtectedHeader_bytes_fixed_point_full_slice.
  - exact ProtectedHeader_cbor_bstr_bytes_fixed_point_full_slice.
  - exact CoseSignature_bytes_fixed_point_full_slice.
  - exact CoseSign1_bytes_fixed_point_full_slice.
  - exact CoseSign_bytes_fixed_point_full_slice.
  - exact CoseMac_bytes_fixed_point_full_slice.
  - exact CoseMac0_bytes_fixed_point_full_slice.
  - exact CoseEncrypt_bytes_fixed_point_full_slice.
  - exact CoseEncrypt0_bytes_fixed_point_full_slice.
  - exact CoseRecipient_bytes_fixed_point_full_slice.
  - exact SuppPubInfo_bytes_fixed_point_full_slice.
  - exact CoseKdfContext_bytes_fixed_point_full_slice.
Qed.

(* ====================================================================== *)
(* 8. non-vacuity                                                         *)
(* ====================================================================== *)
(* COSE_Sign1 [ h'a10126' (protected: alg = ES256), {4: h'3131'} (kid), h'01020304', h'0506' ] *)
Definition example_sign1_bytes : bytes :=
  [x84; x43; xa1; x01; x26; xa1; x04; x42; x31; x31; x44; x01; x02; x03; x04; x42; x05; x06].
Definition example_sign1_value : value :=
  VArray [VBytes [xa1; x01; x26]; VMap [(VInt 4, VBytes [x31; x31])]; VBytes [x01; x02; x03; x04]; VBytes [x05; x06]].
Definition example_sign1 : sign1 :=
  mkSign1 (mkProtected (Some [xa1; x01; x26]) (mkHeader (Some (PAssigned (-7))) [] None [] [] [] [] []))
          (mkHeader None [] None [x31; x31] [] [] [] []) (Some [x01; x02; x03; x04]) [x05; x06].

Example CoseSign1_bytes_fixed_point_full_nonvacuous :
  (* all hypotheses of CoseSign1_bytes_fixed_point_full hold for the example ... *)
  (N.of_nat (length example_sign1_bytes) < p64)%N /\
  from_reader example_sign1_bytes = Ok (example_sign1_value, []) /\
  DecodedNf.no_bad_bignum example_sign1_value = true /\
  CoseSign1_from_value example_sign1_value = Ok example_sign1 /\
  (* ... so does that of the from_slice form ... *)
  from_slice CoseSign1_from_value example_sign1_bytes = Ok example_sign1 /\
  (* ... the message is not trivial ... *)
  h_alg (p_hdr (s1_prot example_sign1)) = Some (PAssigned (-7)) /\
  h_kid (s1_unprot example_sign1) = [x31; x31] /\
  (* ... and the conclusion, here with the very same bytes *)
  to_vec CoseSign1_to_value example_sign1 = Ok example_sign1_bytes /\
  exists b', to_vec CoseSign1_to_value example_sign1 = Ok b' /\
             from_slice CoseSign1_from_value b' = Ok example_sign1.
Proof.
  assert (A : (N.of_nat (length example_sign1_bytes) < p64)%N) by (vm_compute; reflexivity).
  assert (B : from_reader example_sign1_bytes = Ok (example_sign1_value, [])) by (vm_compute; reflexivity).
  assert (C : DecodedNf.no_bad_bignum example_sign1_value = true) by (vm_compute; reflexivity).
  assert (D : CoseSign1_from_value example_sign1_value = Ok example_sign1) by (vm_compute; reflexivity).
  split; [exact A|]. split; [exact B|]. split; [exact C|]. split; [exact D|].
  split; [vm_compute; reflexivity|]. split; [reflexivity|]. split; [reflexivity|].
  split; [vm_compute; reflexivity|].
  exact (CoseSign1_bytes_fixed_point_full _ _ _ A B C D).
Qed.

Print Assumptions all_types_reencode_nf.
Print Assumptions all_types_bytes_fixed_point_full.
Print Assumptions all_types_bytes_fixed_point_full_slice.
Print Assumptions CoseSign1_bytes_fixed_point_full_nonvacuous.
