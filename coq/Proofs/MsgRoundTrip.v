(* C07 / C11 for the message structures and the KDF-context types, lifted from the
   header-level results of HeaderRoundTrip.v:
   - PART A: every decoded message re-encodes, and decoding the re-encoding returns the same
     in-memory value (value level; byte level through TypedRoundTrip.bytes_fixed_point);
   - PART B: every well-formed built message encodes, and decoding the encoding returns the value
     with the byte strings of its protected headers filled in (`assign_T`). *)
From Coq Require Import Lia ZifyBool ZifyN ZifyNat.
From Coset.Model Require Import Prelude Cbor Iana Label Msg Context Api.
From Coset.Proofs Require Import RoundTrip HeaderRoundTrip.
From Coset.Proofs Require NoPanic Retained MsgAccept TypedRoundTrip.
Open Scope string_scope. Open Scope Z_scope. Open Scope list_scope.

(* ====================================================================== *)
(* 0. "encodes, and the encoding decodes to" relations for the components  *)
(* ====================================================================== *)
Definition EDP (p p' : protected) : Prop :=
  exists d, protected_cbor_bstr p = Ok (VBytes d) /\ ProtectedHeader_from_cbor_bstr (VBytes d) = Ok p'.
Definition EDH (h h' : header) : Prop :=
  exists v, header_to_value h = Ok v /\ Header_from_value v = Ok h'.
Definition EDS (s s' : signature) : Prop :=
  exists v, signature_to_value s = Ok v /\ CoseSignature_from_value v = Ok s'.
Definition EDR (r r' : recipient) : Prop :=
  exists v, CoseRecipient_to_value r = Ok v /\ CoseRecipient_from_value v = Ok r'.

(* ---------- list helpers ---------- *)
Lemma mapM_ed {A B} (enc : A -> res B) (dec : B -> res A) l l' :
  Forall2 (fun a a' => exists v, enc a = Ok v /\ dec v = Ok a') l l' ->
  exists vs, mapM enc l = Ok vs /\ mapM dec vs = Ok l'.
Proof. induction 1 as [|a a' l l' (v & E & D) _ (vs & Es & Ds)].
  - exists []. split; reflexivity.
  - exists (v :: vs). cbn [mapM]. rewrite E, Es, D, Ds. split; reflexivity. Qed.

Lemma mapM_Forall2_ok {A B} (f : A -> res B) l : forall l', mapM f l = Ok l' ->
  Forall2 (fun a b => f a = Ok b) l l'.
Proof. induction l as [|x l IH]; intros l' H; cbn [mapM] in H.
  - injection H as <-. constructor.
  - destruct (f x) as [y| | |] eqn:Fx; cbn [bind] in H; try discriminate H.
    destruct (mapM f l) as [ys| | |] eqn:Ml; cbn [bind] in H; try discriminate H.
    injection H as <-. constructor; [exact Fx|now apply IH]. Qed.

Lemma Forall2_right {A B} (R : A -> B -> Prop) (Q : B -> Prop) l l' :
  Forall2 R l l' -> Forall (fun b => forall a, R a b -> Q b) l' -> Forall Q l'.
Proof. induction 1 as [|a b l l' Rab _ IH]; intros F; [constructor|].
  inversion F as [|? ? Hb Hr]; subst. constructor; [eapply Hb; exact Rab|now apply IH]. Qed.

Lemma Forall2_imp {A B} (R R' : A -> B -> Prop) l l' :
  (forall a b, R a b -> R' a b) -> Forall2 R l l' -> Forall2 R' l l'.
Proof. intros H. induction 1; constructor; auto. Qed.

Lemma Forall2_diag {A} (P : A -> A -> Prop) l : Forall (fun a => P a a) l -> Forall2 P l l.
Proof. induction 1; constructor; auto. Qed.

Lemma mapM_ok_diag {A B} (f : A -> res B) (P : B -> B -> Prop) l l' :
  mapM f l = Ok l' -> (forall a b, f a = Ok b -> P b b) -> Forall2 P l' l'.
Proof. intros M H. apply Forall2_diag. apply mapM_Forall2_ok in M.
  eapply Forall2_right; [exact M|]. apply Forall_forall. intros b _ a. apply H. Qed.

Lemma bytes_or_nil_rt o : bytes_or_nil (opt_bytes_value o) = Ok o.
Proof. destruct o; reflexivity. Qed.

Lemma map_err_ok {A} (r : res A) e a : map_err r e = Ok a -> r = Ok a.
Proof. destruct r; cbn; congruence. Qed.

(* ====================================================================== *)
(* 1. generic: a message whose components encode/decode does so itself     *)
(* ====================================================================== *)
Lemma sign1_ed p p' u u' pl sg : EDP p p' -> EDH u u' ->
  exists v, CoseSign1_to_value (mkSign1 p u pl sg) = Ok v /\ CoseSign1_from_value v = Ok (mkSign1 p' u' pl sg).
Proof.
  intros (d & Ep & Dp) (uv & Eu & Du).
  exists (VArray [VBytes d; uv; opt_bytes_value pl; VBytes sg]). split.
  - unfold CoseSign1_to_value. cbn [s1_prot s1_unprot s1_payload s1_sig]. rewrite Ep. cbn [bind]. rewrite Eu. reflexivity.
  - unfold CoseSign1_from_value. cbn [try_as_array bind length]. rewrite MsgAccept.arity_sign1.
    cbn [Nat.eqb negb try_as_bytes bind]. rewrite bytes_or_nil_rt. cbn [bind]. rewrite Du. cbn [bind].
    rewrite Dp. reflexivity.
Qed.

Lemma mac0_ed p p' u u' pl tg : EDP p p' -> EDH u u' ->
  exists v, CoseMac0_to_value (mkMac0 p u pl tg) = Ok v /\ CoseMac0_from_value v = Ok (mkMac0 p' u' pl tg).
Proof.
  intros (d & Ep & Dp) (uv & Eu & Du).
  exists (VArray [VBytes d; uv; opt_bytes_value pl; VBytes tg]). split.
  - unfold CoseMac0_to_value. cbn [m0_prot m0_unprot m0_payload m0_tag]. rewrite Ep. cbn [bind]. rewrite Eu. reflexivity.
  - unfold CoseMac0_from_value. cbn [try_as_array bind length]. rewrite MsgAccept.arity_mac0.
    cbn [Nat.eqb negb try_as_bytes bind]. rewrite bytes_or_nil_rt. cbn [bind]. rewrite Du. cbn [bind].
    rewrite Dp. reflexivity.
Qed.

Lemma encrypt0_ed p p' u u' ct : EDP p p' -> EDH u u' ->
  exists v, CoseEncrypt0_to_value (mkEncrypt0 p u ct) = Ok v /\ CoseEncrypt0_from_value v = Ok (mkEncrypt0 p' u' ct).
Proof.
  intros (d & Ep & Dp) (uv & Eu & Du).
  exists (VArray [VBytes d; uv; opt_bytes_value ct]). split.
  - unfold CoseEncrypt0_to_value. cbn [e0_prot e0_unprot e0_ct]. rewrite Ep. cbn [bind]. rewrite Eu. reflexivity.
  - unfold CoseEncrypt0_from_value. cbn [try_as_array bind length]. rewrite MsgAccept.arity_encrypt0.
    cbn [Nat.eqb negb bind]. rewrite bytes_or_nil_rt. cbn [bind]. rewrite Du. cbn [bind].
    rewrite Dp. reflexivity.
Qed.

Lemma sigs_ed ss ss' : Forall2 EDS ss ss' ->
  exists vs, mapM signature_to_value ss = Ok vs /\
             mapM (fun s => map_err (CoseSignature_from_value s) EUnexpected) vs = Ok ss'.
Proof. intros F. apply mapM_ed. eapply Forall2_imp; [|exact F].
  intros s s' (v & E & D). exists v. split; [exact E|]. rewrite D. reflexivity. Qed.

Lemma sign_ed p p' u u' pl ss ss' : EDP p p' -> EDH u u' -> Forall2 EDS ss ss' ->
  exists v, CoseSign_to_value (mkSign p u pl ss) = Ok v /\ CoseSign_from_value v = Ok (mkSign p' u' pl ss').
Proof.
  intros (d & Ep & Dp) (uv & Eu & Du) F. destruct (sigs_ed _ _ F) as (vs & Es & Ds).
  exists (VArray [VBytes d; uv; opt_bytes_value pl; VArray vs]). split.
  - unfold CoseSign_to_value. cbn [sn_prot sn_unprot sn_payload sn_sigs]. rewrite Ep. cbn [bind]. rewrite Eu.
    cbn [bind]. rewrite Es. reflexivity.
  - unfold CoseSign_from_value. cbn [try_as_array bind length]. rewrite MsgAccept.arity_sign.
    cbn [Nat.eqb negb try_as_array bind]. rewrite Ds. cbn [bind]. rewrite bytes_or_nil_rt. cbn [bind].
    rewrite Du. cbn [bind]. rewrite Dp. reflexivity.
Qed.

Lemma recipients_ed rs rs' : Forall2 EDR rs rs' ->
  exists vs, mapM CoseRecipient_to_value rs = Ok vs /\ mapM CoseRecipient_from_value vs = Ok rs'.
Proof. apply mapM_ed. Qed.

(* the nested list is omitted when empty: 3 elements then, 4 otherwise *)
Lemma recipient_ed p p' u u' ct rs rs' : EDP p p' -> EDH u u' -> Forall2 EDR rs rs' ->
  EDR (mkRecipient p u ct rs) (mkRecipient p' u' ct rs').
Proof.
  intros (d & Ep & Dp) (uv & Eu & Du) F. destruct (recipients_ed _ _ F) as (vs & Es & Ds).
  unfold EDR. rewrite NoPanic.CoseRecipient_to_value_eq. cbn [r_prot r_unprot r_ct r_recipients].
  rewrite Ep. cbn [bind]. rewrite Eu. cbn [bind].
  destruct F as [|r r' rs rs' Hr Hrs].
  - cbn [isnil bind app]. eexists. split; [reflexivity|].
    cbn [CoseRecipient_from_value length]. rewrite MsgAccept.arity_recipient.
    cbn [Nat.eqb negb orb bind]. rewrite bytes_or_nil_rt. cbn [bind]. rewrite Du. cbn [bind].
    rewrite Dp. reflexivity.
  - cbn [isnil]. rewrite Es. cbn [bind app]. eexists. split; [reflexivity|].
    cbn [CoseRecipient_from_value length]. rewrite MsgAccept.arity_recipient.
    cbn [Nat.eqb negb orb]. rewrite Ds. cbn [bind]. rewrite bytes_or_nil_rt. cbn [bind]. rewrite Du. cbn [bind].
    rewrite Dp. reflexivity.
Qed.

Lemma encrypt_ed p p' u u' ct rs rs' : EDP p p' -> EDH u u' -> Forall2 EDR rs rs' ->
  exists v, CoseEncrypt_to_value (mkEncrypt p u ct rs) = Ok v /\ CoseEncrypt_from_value v = Ok (mkEncrypt p' u' ct rs').
Proof.
  intros (d & Ep & Dp) (uv & Eu & Du) F. destruct (recipients_ed _ _ F) as (vs & Es & Ds).
  exists (VArray [VBytes d; uv; opt_bytes_value ct; VArray vs]). split.
  - unfold CoseEncrypt_to_value. cbn [en_prot en_unprot en_ct en_recipients]. rewrite Ep. cbn [bind]. rewrite Eu.
    cbn [bind]. rewrite Es. reflexivity.
  - unfold CoseEncrypt_from_value, recipients_from_value. cbn [try_as_array bind length]. rewrite MsgAccept.arity_encrypt.
    cbn [Nat.eqb negb try_as_array bind]. rewrite Ds. cbn [bind]. rewrite bytes_or_nil_rt. cbn [bind].
    rewrite Du. cbn [bind]. rewrite Dp. reflexivity.
Qed.

Lemma mac_ed p p' u u' pl tg rs rs' : EDP p p' -> EDH u u' -> Forall2 EDR rs rs' ->
  exists v, CoseMac_to_value (mkMac p u pl tg rs) = Ok v /\ CoseMac_from_value v = Ok (mkMac p' u' pl tg rs').
Proof.
  intros (d & Ep & Dp) (uv & Eu & Du) F. destruct (recipients_ed _ _ F) as (vs & Es & Ds).
  exists (VArray [VBytes d; uv; opt_bytes_value pl; VBytes tg; VArray vs]). split.
  - unfold CoseMac_to_value. cbn [mc_prot mc_unprot mc_payload mc_tag mc_recipients]. rewrite Ep. cbn [bind]. rewrite Eu.
    cbn [bind]. rewrite Es. reflexivity.
  - unfold CoseMac_from_value, recipients_from_value. cbn [try_as_array bind length]. rewrite MsgAccept.arity_mac.
    cbn [Nat.eqb negb try_as_array bind]. rewrite Ds. cbn [bind try_as_bytes]. rewrite bytes_or_nil_rt. cbn [bind].
    rewrite Du. cbn [bind]. rewrite Dp. reflexivity.
Qed.

(* ---------- KDF context types ---------- *)
Lemma supp_ed n p p' other : in_u64 n = true -> EDP p p' ->
  exists v, SuppPubInfo_to_value (mkSupp n p other) = Ok v /\ SuppPubInfo_from_value v = Ok (mkSupp n p' other).
Proof.
  intros Hn (d & Ep & Dp). unfold SuppPubInfo_to_value. cbn [sp_len sp_prot sp_other]. rewrite Ep. cbn [bind].
  eexists. split; [reflexivity|].
  unfold SuppPubInfo_from_value. destruct other as [o|]; cbn [app try_as_array bind length];
    rewrite MsgAccept.arity_supp; cbn [Nat.eqb negb orb bind try_as_bytes]; rewrite Dp; cbn [bind try_as_integer];
    unfold to_u64_res; rewrite Hn; reflexivity.
Qed.

Definition EDPI (p p' : party_info) : Prop :=
  exists v, PartyInfo_to_value p = Ok v /\ PartyInfo_from_value v = Ok p'.
Definition EDSP (s s' : supp_pub_info) : Prop :=
  exists v, SuppPubInfo_to_value s = Ok v /\ SuppPubInfo_from_value v = Ok s'.

Lemma mapM_bytes_rt l : mapM try_as_bytes (map VBytes l) = Ok l.
Proof. induction l as [|b l IH]; [reflexivity|]. cbn [map mapM try_as_bytes bind]. rewrite IH. reflexivity. Qed.

Lemma kdf_ed alg pu pu' pv pv' sp sp' priv :
  regp_from_value "Algorithm" (regp_to_value alg) = Ok alg -> EDPI pu pu' -> EDPI pv pv' -> EDSP sp sp' ->
  exists v, CoseKdfContext_to_value (mkKdf alg pu pv sp priv) = Ok v /\
            CoseKdfContext_from_value v = Ok (mkKdf alg pu' pv' sp' priv).
Proof.
  intros Ha (uv & Eu & Du) (vv & Ev & Dv) (sv & Es & Ds).
  unfold CoseKdfContext_to_value. cbn [kc_alg kc_u kc_v kc_pub kc_priv]. rewrite Eu. cbn [bind]. rewrite Ev. cbn [bind].
  rewrite Es. cbn [bind app]. eexists. split; [reflexivity|].
  unfold CoseKdfContext_from_value. cbn [try_as_array bind length]. rewrite MsgAccept.arity_kdf.
  cbn [Nat.leb negb]. rewrite mapM_bytes_rt. cbn [bind]. rewrite Ds. cbn [bind]. rewrite Dv. cbn [bind].
  rewrite Du. cbn [bind]. rewrite Ha. reflexivity.
Qed.

(* ====================================================================== *)
(* 2. what a successful decode says about the components                  *)
(* ====================================================================== *)
(* "is the result of a successful decode" *)
Definition decP (p : protected) : Prop := exists x, ProtectedHeader_from_cbor_bstr x = Ok p.
Definition decH (h : header) : Prop := exists x, Header_from_value x = Ok h.
Definition decS (s : signature) : Prop := exists x, CoseSignature_from_value x = Ok s.
Definition decR (r : recipient) : Prop := exists x, CoseRecipient_from_value x = Ok r.

Lemma mapM_ok_Forall {A B} (f : A -> res B) l : forall l', mapM f l = Ok l' -> Forall (fun b => exists a, f a = Ok b) l'.
Proof. intros l' M. apply mapM_Forall2_ok in M. eapply Forall2_right; [exact M|].
  apply Forall_forall. intros b _ a H. eauto. Qed.

Ltac bd H :=
  repeat match type of H with
  | bind ?r _ = Ok _ => let E := fresh "E" in destruct r eqn:E; cbn [bind] in H; try discriminate H
  end.
Ltac ifc H :=
  match type of H with (if ?c then _ else _) = _ => destruct c; [discriminate H|] end.

Lemma sign1_inv v m : CoseSign1_from_value v = Ok m -> decP (s1_prot m) /\ decH (s1_unprot m).
Proof.
  unfold CoseSign1_from_value. intros H.
  destruct v as [| | | | | | |a|]; cbn [try_as_array bind] in H; try discriminate H.
  ifc H. destruct a as [|x0 [|x1 [|x2 [|x3 a]]]]; try discriminate H.
  bd H. injection H as <-. cbn [s1_prot s1_unprot]. split; eexists; eassumption.
Qed.

Lemma mac0_inv v m : CoseMac0_from_value v = Ok m -> decP (m0_prot m) /\ decH (m0_unprot m).
Proof.
  unfold CoseMac0_from_value. intros H.
  destruct v as [| | | | | | |a|]; cbn [try_as_array bind] in H; try discriminate H.
  ifc H. destruct a as [|x0 [|x1 [|x2 [|x3 a]]]]; try discriminate H.
  bd H. injection H as <-. cbn [m0_prot m0_unprot]. split; eexists; eassumption.
Qed.

Lemma encrypt0_inv v m : CoseEncrypt0_from_value v = Ok m -> decP (e0_prot m) /\ decH (e0_unprot m).
Proof.
  unfold CoseEncrypt0_from_value. intros H.
  destruct v as [| | | | | | |a|]; cbn [try_as_array bind] in H; try discriminate H.
  ifc H. destruct a as [|x0 [|x1 [|x2 a]]]; try discriminate H.
  bd H. injection H as <-. cbn [e0_prot e0_unprot]. split; eexists; eassumption.
Qed.

Lemma sign_inv v m : CoseSign_from_value v = Ok m -> decP (sn_prot m) /\ decH (sn_unprot m) /\ Forall decS (sn_sigs m).
Proof.
  unfold CoseSign_from_value. intros H.
  destruct v as [| | | | | | |a|]; cbn [try_as_array bind] in H; try discriminate H.
  ifc H. destruct a as [|x0 [|x1 [|x2 [|x3 a]]]]; try discriminate H.
  bd H. injection H as <-. cbn [sn_prot sn_unprot sn_sigs].
  split; [eexists; eassumption|]. split; [eexists; eassumption|].
  match goal with M : mapM _ _ = Ok _ |- _ => apply mapM_ok_Forall in M; eapply Forall_impl; [|exact M] end.
  cbn beta. intros s [x Hs]. apply map_err_ok in Hs. exists x. exact Hs.
Qed.

Lemma recipient_inv v r : CoseRecipient_from_value v = Ok r ->
  decP (r_prot r) /\ decH (r_unprot r) /\ Forall decR (r_recipients r).
Proof.
  intros H. destruct v as [| | | | | | |a|]; cbn [CoseRecipient_from_value] in H; try discriminate H.
  ifc H. destruct a as [|x0 [|x1 [|x2 rest]]]; try discriminate H.
  match type of H with bind ?r _ = _ => destruct r as [rs| | |] eqn:R; cbn [bind] in H; try discriminate H end.
  bd H. injection H as <-. cbn [r_prot r_unprot r_recipients].
  split; [eexists; eassumption|]. split; [eexists; eassumption|].
  match type of R with (if ?c then _ else _) = _ => destruct c end; [|injection R as <-; constructor].
  destruct rest as [|x3 rest]; [discriminate R|].
  destruct x3 as [| | | | | | |ra|]; try discriminate R. eapply mapM_ok_Forall; exact R.
Qed.

Lemma recipients_inv v rs : recipients_from_value v = Ok rs -> Forall decR rs.
Proof.
  unfold recipients_from_value. destruct v; cbn [try_as_array bind]; try discriminate. apply mapM_ok_Forall.
Qed.

Lemma encrypt_inv v m : CoseEncrypt_from_value v = Ok m ->
  decP (en_prot m) /\ decH (en_unprot m) /\ Forall decR (en_recipients m).
Proof.
  unfold CoseEncrypt_from_value. intros H.
  destruct v as [| | | | | | |a|]; cbn [try_as_array bind] in H; try discriminate H.
  ifc H. destruct a as [|x0 [|x1 [|x2 [|x3 a]]]]; try discriminate H.
  bd H. injection H as <-. cbn [en_prot en_unprot en_recipients].
  split; [eexists; eassumption|]. split; [eexists; eassumption|]. eapply recipients_inv; eassumption.
Qed.

Lemma mac_inv v m : CoseMac_from_value v = Ok m ->
  decP (mc_prot m) /\ decH (mc_unprot m) /\ Forall decR (mc_recipients m).
Proof.
  unfold CoseMac_from_value. intros H.
  destruct v as [| | | | | | |a|]; cbn [try_as_array bind] in H; try discriminate H.
  ifc H. destruct a as [|x0 [|x1 [|x2 [|x3 [|x4 a]]]]]; try discriminate H.
  bd H. injection H as <-. cbn [mc_prot mc_unprot mc_recipients].
  split; [eexists; eassumption|]. split; [eexists; eassumption|]. eapply recipients_inv; eassumption.
Qed.

Lemma supp_inv v s : SuppPubInfo_from_value v = Ok s -> in_u64 (sp_len s) = true /\ decP (sp_prot s).
Proof.
  unfold SuppPubInfo_from_value. intros H.
  destruct v as [| | | | | | |a|]; cbn [try_as_array bind] in H; try discriminate H.
  ifc H. destruct a as [|x0 [|x1 rest]]; try discriminate H.
  match type of H with bind ?r _ = _ => destruct r as [o| | |] eqn:R; cbn [bind] in H; try discriminate H end.
  bd H. injection H as <-. cbn [sp_len sp_prot]. split; [|eexists; eassumption].
  match goal with E : to_u64_res _ = Ok _ |- _ => unfold to_u64_res in E; revert E end.
  match goal with |- (if ?c then _ else _) = _ -> _ => destruct c eqn:C end; [|discriminate].
  intros [= <-]. exact C.
Qed.

(* ====================================================================== *)
(* 3. PART A, value level                                                 *)
(* ====================================================================== *)
Lemma EDP_dec p : decP p -> EDP p p.
Proof. intros [x H]. destruct (Retained.protected_retained _ _ _ H) as (d & -> & _ & E). exists d. auto. Qed.

Lemma EDH_dec h : decH h -> EDH h h.
Proof. intros [x H]. exact (Header_decode_encode_fixed_point x h H). Qed.

Lemma EDS_dec s : decS s -> EDS s s.
Proof. intros [x H]. exact (CoseSignature_decode_encode_fixed_point x s H). Qed.

Lemma EDS_dec_list ss : Forall decS ss -> Forall2 EDS ss ss.
Proof. intros F. apply Forall2_diag. eapply Forall_impl; [|exact F]. apply EDS_dec. Qed.

Theorem CoseSign1_decode_encode_fixed_point : forall v m, CoseSign1_from_value v = Ok m ->
  exists v', CoseSign1_to_value m = Ok v' /\ CoseSign1_from_value v' = Ok m.
Proof. intros v m H. destruct (sign1_inv v m H) as [P U]. destruct m.
  apply sign1_ed; [now apply EDP_dec|now apply EDH_dec]. Qed.

Theorem CoseMac0_decode_encode_fixed_point : forall v m, CoseMac0_from_value v = Ok m ->
  exists v', CoseMac0_to_value m = Ok v' /\ CoseMac0_from_value v' = Ok m.
Proof. intros v m H. destruct (mac0_inv v m H) as [P U]. destruct m.
  apply mac0_ed; [now apply EDP_dec|now apply EDH_dec]. Qed.

Theorem CoseEncrypt0_decode_encode_fixed_point : forall v m, CoseEncrypt0_from_value v = Ok m ->
  exists v', CoseEncrypt0_to_value m = Ok v' /\ CoseEncrypt0_from_value v' = Ok m.
Proof. intros v m H. destruct (encrypt0_inv v m H) as [P U]. destruct m.
  apply encrypt0_ed; [now apply EDP_dec|now apply EDH_dec]. Qed.

Theorem CoseSign_decode_encode_fixed_point : forall v m, CoseSign_from_value v = Ok m ->
  exists v', CoseSign_to_value m = Ok v' /\ CoseSign_from_value v' = Ok m.
Proof. intros v m H. destruct (sign_inv v m H) as (P & U & S). destruct m.
  apply sign_ed; [now apply EDP_dec|now apply EDH_dec|now apply EDS_dec_list]. Qed.

(* recipients: induction on the decoded value; a decoded 4-element recipient with an empty nested
   list re-encodes as a 3-element array, which decodes to the same value *)
Lemma EDR_dec r : decR r -> EDR r r.
Proof.
  induction r as [p u ct rs IH] using NoPanic.recipient_ind'. intros [v H].
  destruct (recipient_inv v _ H) as (P & U & R). cbn [r_prot r_unprot r_recipients] in *.
  apply recipient_ed; [now apply EDP_dec|now apply EDH_dec|].
  apply Forall2_diag. clear H. induction IH as [|r rs Hr _ IHrs]; [constructor|].
  inversion R; subst. constructor; auto.
Qed.

Lemma EDR_dec_list rs : Forall decR rs -> Forall2 EDR rs rs.
Proof. intros F. apply Forall2_diag. eapply Forall_impl; [|exact F]. apply EDR_dec. Qed.

Theorem CoseRecipient_decode_encode_fixed_point : forall v r, CoseRecipient_from_value v = Ok r ->
  exists v', CoseRecipient_to_value r = Ok v' /\ CoseRecipient_from_value v' = Ok r.
Proof. intros v r H. apply EDR_dec. exists v. exact H. Qed.

Theorem CoseEncrypt_decode_encode_fixed_point : forall v m, CoseEncrypt_from_value v = Ok m ->
  exists v', CoseEncrypt_to_value m = Ok v' /\ CoseEncrypt_from_value v' = Ok m.
Proof. intros v m H. destruct (encrypt_inv v m H) as (P & U & R). destruct m.
  apply encrypt_ed; [now apply EDP_dec|now apply EDH_dec|now apply EDR_dec_list]. Qed.

Theorem CoseMac_decode_encode_fixed_point : forall v m, CoseMac_from_value v = Ok m ->
  exists v', CoseMac_to_value m = Ok v' /\ CoseMac_from_value v' = Ok m.
Proof. intros v m H. destruct (mac_inv v m H) as (P & U & R). destruct m.
  apply mac_ed; [now apply EDP_dec|now apply EDH_dec|now apply EDR_dec_list]. Qed.

(* ---------- KDF context types ---------- *)
Theorem SuppPubInfo_decode_encode_fixed_point : forall v s, SuppPubInfo_from_value v = Ok s ->
  exists v', SuppPubInfo_to_value s = Ok v' /\ SuppPubInfo_from_value v' = Ok s.
Proof. intros v s H. destruct (supp_inv v s H) as [N P]. destruct s. apply supp_ed; [exact N|now apply EDP_dec]. Qed.

Lemma kdf_inv v k : CoseKdfContext_from_value v = Ok k ->
  (exists x, regp_from_value "Algorithm" x = Ok (kc_alg k)) /\
  (exists x, PartyInfo_from_value x = Ok (kc_u k)) /\ (exists x, PartyInfo_from_value x = Ok (kc_v k)) /\
  (exists x, SuppPubInfo_from_value x = Ok (kc_pub k)).
Proof.
  unfold CoseKdfContext_from_value. intros H.
  destruct v as [| | | | | | |a|]; cbn [try_as_array bind] in H; try discriminate H.
  ifc H. destruct a as [|x0 [|x1 [|x2 [|x3 rest]]]]; try discriminate H.
  bd H. injection H as <-. cbn [kc_alg kc_u kc_v kc_pub]. repeat split; eexists; eassumption.
Qed.

Theorem CoseKdfContext_decode_encode_fixed_point : forall v k, CoseKdfContext_from_value v = Ok k ->
  exists v', CoseKdfContext_to_value k = Ok v' /\ CoseKdfContext_from_value v' = Ok k.
Proof.
  intros v k H. destruct (kdf_inv v k H) as ([xa A] & [xu U] & [xv V] & [xs S]). destruct k. apply kdf_ed.
  - eapply regp_rt; exact A.
  - eapply TypedRoundTrip.party_decode_encode_fixed_point; exact U.
  - eapply TypedRoundTrip.party_decode_encode_fixed_point; exact V.
  - eapply SuppPubInfo_decode_encode_fixed_point; exact S.
Qed.

(* ====================================================================== *)
(* 4. PART A, byte level                                                  *)
(* ====================================================================== *)
Section Bytes.
  Context {T : Type}.
  Variable fromv : value -> res T.
  Variable tov : T -> res value.
  Definition bytes_fp : Prop := forall b m v',
    from_slice fromv b = Ok m -> tov m = Ok v' -> value_nf v' = true -> (depth v' <= 256)%nat ->
    exists b', to_vec tov m = Ok b' /\ from_slice fromv b' = Ok m /\ to_vec tov m = Ok b'.
  Lemma bytes_fp_intro :
    (forall v y, fromv v = Ok y -> exists v', tov y = Ok v' /\ fromv v' = Ok y) -> bytes_fp.
  Proof. intros FP b m v' H. exact (TypedRoundTrip.bytes_fixed_point _ _ _ b m FP H v'). Qed.
End Bytes.

Theorem CoseSign1_bytes_fixed_point : bytes_fp CoseSign1_from_value CoseSign1_to_value.
Proof. apply bytes_fp_intro, CoseSign1_decode_encode_fixed_point. Qed.
Theorem CoseSign_bytes_fixed_point : bytes_fp CoseSign_from_value CoseSign_to_value.
Proof. apply bytes_fp_intro, CoseSign_decode_encode_fixed_point. Qed.
Theorem CoseMac_bytes_fixed_point : bytes_fp CoseMac_from_value CoseMac_to_value.
Proof. apply bytes_fp_intro, CoseMac_decode_encode_fixed_point. Qed.
Theorem CoseMac0_bytes_fixed_point : bytes_fp CoseMac0_from_value CoseMac0_to_value.
Proof. apply bytes_fp_intro, CoseMac0_decode_encode_fixed_point. Qed.
Theorem CoseEncrypt_bytes_fixed_point : bytes_fp CoseEncrypt_from_value CoseEncrypt_to_value.
Proof. apply bytes_fp_intro, CoseEncrypt_decode_encode_fixed_point. Qed.
Theorem CoseEncrypt0_bytes_fixed_point : bytes_fp CoseEncrypt0_from_value CoseEncrypt0_to_value.
Proof. apply bytes_fp_intro, CoseEncrypt0_decode_encode_fixed_point. Qed.
Theorem CoseRecipient_bytes_fixed_point : bytes_fp CoseRecipient_from_value CoseRecipient_to_value.
Proof. apply bytes_fp_intro, CoseRecipient_decode_encode_fixed_point. Qed.
Theorem SuppPubInfo_bytes_fixed_point : bytes_fp SuppPubInfo_from_value SuppPubInfo_to_value.
Proof. apply bytes_fp_intro, SuppPubInfo_decode_encode_fixed_point. Qed.
Theorem CoseKdfContext_bytes_fixed_point : bytes_fp CoseKdfContext_from_value CoseKdfContext_to_value.
Proof. apply bytes_fp_intro, CoseKdfContext_decode_encode_fixed_point. Qed.
Theorem Header_bytes_fixed_point : bytes_fp Header_from_value Header_to_value.
Proof. apply bytes_fp_intro, Header_decode_encode_fixed_point. Qed.
Theorem CoseSignature_bytes_fixed_point : bytes_fp CoseSignature_from_value CoseSignature_to_value.
Proof. apply bytes_fp_intro, CoseSignature_decode_encode_fixed_point. Qed.

Theorem messages_bytes_fixed_point :
  bytes_fp CoseSign1_from_value CoseSign1_to_value /\
  bytes_fp CoseSign_from_value CoseSign_to_value /\
  bytes_fp CoseMac_from_value CoseMac_to_value /\
  bytes_fp CoseMac0_from_value CoseMac0_to_value /\
  bytes_fp CoseEncrypt_from_value CoseEncrypt_to_value /\
  bytes_fp CoseEncrypt0_from_value CoseEncrypt0_to_value /\
  bytes_fp CoseRecipient_from_value CoseRecipient_to_value /\
  bytes_fp SuppPubInfo_from_value SuppPubInfo_to_value /\
  bytes_fp CoseKdfContext_from_value CoseKdfContext_to_value /\
  bytes_fp Header_from_value Header_to_value /\
  bytes_fp CoseSignature_from_value CoseSignature_to_value.
Proof.
  repeat split;
    [apply CoseSign1_bytes_fixed_point|apply CoseSign_bytes_fixed_point|apply CoseMac_bytes_fixed_point
    |apply CoseMac0_bytes_fixed_point|apply CoseEncrypt_bytes_fixed_point|apply CoseEncrypt0_bytes_fixed_point
    |apply CoseRecipient_bytes_fixed_point|apply SuppPubInfo_bytes_fixed_point|apply CoseKdfContext_bytes_fixed_point
    |apply Header_bytes_fixed_point|apply CoseSignature_bytes_fixed_point].
Qed.

(* ====================================================================== *)
(* 5. PART B: well-formed built messages                                  *)
(* ====================================================================== *)
(* the components, at the budget of the public entry points *)
Lemma EDP_built p : pbwf nest_limit p -> EDP p (assign_prot p).
Proof. intros W. destruct (protected_encode_decode nest_limit p W) as (d & E & D). exists d. split; [exact E|exact D]. Qed.

Lemma EDH_built h : bwf nest_limit h -> EDH h (assign_header h).
Proof. intros W. destruct (header_encode_decode nest_limit h W) as (v & E & D). exists v. split; [exact E|exact D]. Qed.

Lemma EDS_built s : sbwf nest_limit s -> EDS s (assign_sig s).
Proof. intros W. destruct (signature_encode_decode nest_limit s W) as (v & E & D). exists v. split; [exact E|exact D]. Qed.

Lemma EDS_built_list ss : All (sbwf nest_limit) ss -> Forall2 EDS ss (map assign_sig ss).
Proof. induction ss as [|s ss IH]; cbn [Retained.All map]; [constructor|].
  intros [Ws Wr]. constructor; [now apply EDS_built|now apply IH]. Qed.

(* ---------- COSE_Sign1 / COSE_Mac0 / COSE_Encrypt0 ---------- *)
Definition CoseSign1_bwf (m : sign1) : Prop := pbwf nest_limit (s1_prot m) /\ bwf nest_limit (s1_unprot m).
Definition assign_CoseSign1 (m : sign1) : sign1 :=
  mkSign1 (assign_prot (s1_prot m)) (assign_header (s1_unprot m)) (s1_payload m) (s1_sig m).

Theorem CoseSign1_encode_decode : forall m, CoseSign1_bwf m ->
  exists v, CoseSign1_to_value m = Ok v /\ CoseSign1_from_value v = Ok (assign_CoseSign1 m).
Proof. intros [p u pl sg] [Wp Wu]. cbn [s1_prot s1_unprot] in *. unfold assign_CoseSign1.
  cbn [s1_prot s1_unprot s1_payload s1_sig]. apply sign1_ed; [now apply EDP_built|now apply EDH_built]. Qed.

Definition CoseMac0_bwf (m : mac0) : Prop := pbwf nest_limit (m0_prot m) /\ bwf nest_limit (m0_unprot m).
Definition assign_CoseMac0 (m : mac0) : mac0 :=
  mkMac0 (assign_prot (m0_prot m)) (assign_header (m0_unprot m)) (m0_payload m) (m0_tag m).

Theorem CoseMac0_encode_decode : forall m, CoseMac0_bwf m ->
  exists v, CoseMac0_to_value m = Ok v /\ CoseMac0_from_value v = Ok (assign_CoseMac0 m).
Proof. intros [p u pl tg] [Wp Wu]. cbn [m0_prot m0_unprot] in *. unfold assign_CoseMac0.
  cbn [m0_prot m0_unprot m0_payload m0_tag]. apply mac0_ed; [now apply EDP_built|now apply EDH_built]. Qed.

Definition CoseEncrypt0_bwf (m : encrypt0) : Prop := pbwf nest_limit (e0_prot m) /\ bwf nest_limit (e0_unprot m).
Definition assign_CoseEncrypt0 (m : encrypt0) : encrypt0 :=
  mkEncrypt0 (assign_prot (e0_prot m)) (assign_header (e0_unprot m)) (e0_ct m).

Theorem CoseEncrypt0_encode_decode : forall m, CoseEncrypt0_bwf m ->
  exists v, CoseEncrypt0_to_value m = Ok v /\ CoseEncrypt0_from_value v = Ok (assign_CoseEncrypt0 m).
Proof. intros [p u ct] [Wp Wu]. cbn [e0_prot e0_unprot] in *. unfold assign_CoseEncrypt0.
  cbn [e0_prot e0_unprot e0_ct]. apply encrypt0_ed; [now apply EDP_built|now apply EDH_built]. Qed.

(* ---------- COSE_Sign ---------- *)
Definition CoseSign_bwf (m : sign) : Prop :=
  pbwf nest_limit (sn_prot m) /\ bwf nest_limit (sn_unprot m) /\ All (sbwf nest_limit) (sn_sigs m).
Definition assign_CoseSign (m : sign) : sign :=
  mkSign (assign_prot (sn_prot m)) (assign_header (sn_unprot m)) (sn_payload m) (map assign_sig (sn_sigs m)).

Theorem CoseSign_encode_decode : forall m, CoseSign_bwf m ->
  exists v, CoseSign_to_value m = Ok v /\ CoseSign_from_value v = Ok (assign_CoseSign m).
Proof. intros [p u pl ss] (Wp & Wu & Ws). cbn [sn_prot sn_unprot sn_sigs] in *. unfold assign_CoseSign.
  cbn [sn_prot sn_unprot sn_payload sn_sigs].
  apply sign_ed; [now apply EDP_built|now apply EDH_built|now apply EDS_built_list]. Qed.

(* ---------- COSE_recipient (recursive), COSE_Encrypt, COSE_Mac ---------- *)
Fixpoint CoseRecipient_bwf (r : recipient) {struct r} : Prop :=
  pbwf nest_limit (r_prot r) /\ bwf nest_limit (r_unprot r) /\ All CoseRecipient_bwf (r_recipients r).
Fixpoint assign_CoseRecipient (r : recipient) {struct r} : recipient :=
  match r with
  | mkRecipient p u ct rs => mkRecipient (assign_prot p) (assign_header u) ct (map assign_CoseRecipient rs)
  end.

Lemma CoseRecipient_bwf_eq r : CoseRecipient_bwf r =
  (pbwf nest_limit (r_prot r) /\ bwf nest_limit (r_unprot r) /\ All CoseRecipient_bwf (r_recipients r)).
Proof. destruct r; reflexivity. Qed.

Lemma EDR_built_list rs :
  Forall (fun r => CoseRecipient_bwf r -> EDR r (assign_CoseRecipient r)) rs ->
  All CoseRecipient_bwf rs -> Forall2 EDR rs (map assign_CoseRecipient rs).
Proof. induction 1 as [|r rs Hr _ IH]; cbn [Retained.All map]; [constructor|].
  intros [Wr Wrs]. constructor; [now apply Hr|now apply IH]. Qed.

Lemma EDR_built r : CoseRecipient_bwf r -> EDR r (assign_CoseRecipient r).
Proof. induction r as [p u ct rs IH] using NoPanic.recipient_ind'.
  rewrite CoseRecipient_bwf_eq. cbn [r_prot r_unprot r_recipients assign_CoseRecipient]. intros (Wp & Wu & Wr).
  apply recipient_ed; [now apply EDP_built|now apply EDH_built|now apply EDR_built_list]. Qed.

Theorem CoseRecipient_encode_decode : forall r, CoseRecipient_bwf r ->
  exists v, CoseRecipient_to_value r = Ok v /\ CoseRecipient_from_value v = Ok (assign_CoseRecipient r).
Proof. exact EDR_built. Qed.

Lemma EDR_built_all rs : All CoseRecipient_bwf rs -> Forall2 EDR rs (map assign_CoseRecipient rs).
Proof. apply EDR_built_list. apply Forall_forall. intros r _. apply EDR_built. Qed.

Definition CoseEncrypt_bwf (m : encrypt) : Prop :=
  pbwf nest_limit (en_prot m) /\ bwf nest_limit (en_unprot m) /\ All CoseRecipient_bwf (en_recipients m).
Definition assign_CoseEncrypt (m : encrypt) : encrypt :=
  mkEncrypt (assign_prot (en_prot m)) (assign_header (en_unprot m)) (en_ct m) (map assign_CoseRecipient (en_recipients m)).

Theorem CoseEncrypt_encode_decode : forall m, CoseEncrypt_bwf m ->
  exists v, CoseEncrypt_to_value m = Ok v /\ CoseEncrypt_from_value v = Ok (assign_CoseEncrypt m).
Proof. intros [p u ct rs] (Wp & Wu & Wr). cbn [en_prot en_unprot en_recipients] in *. unfold assign_CoseEncrypt.
  cbn [en_prot en_unprot en_ct en_recipients].
  apply encrypt_ed; [now apply EDP_built|now apply EDH_built|now apply EDR_built_all]. Qed.

Definition CoseMac_bwf (m : mac) : Prop :=
  pbwf nest_limit (mc_prot m) /\ bwf nest_limit (mc_unprot m) /\ All CoseRecipient_bwf (mc_recipients m).
Definition assign_CoseMac (m : mac) : mac :=
  mkMac (assign_prot (mc_prot m)) (assign_header (mc_unprot m)) (mc_payload m) (mc_tag m)
        (map assign_CoseRecipient (mc_recipients m)).

Theorem CoseMac_encode_decode : forall m, CoseMac_bwf m ->
  exists v, CoseMac_to_value m = Ok v /\ CoseMac_from_value v = Ok (assign_CoseMac m).
Proof. intros [p u pl tg rs] (Wp & Wu & Wr). cbn [mc_prot mc_unprot mc_recipients] in *. unfold assign_CoseMac.
  cbn [mc_prot mc_unprot mc_payload mc_tag mc_recipients].
  apply mac_ed; [now apply EDP_built|now apply EDH_built|now apply EDR_built_all]. Qed.

(* ---------- SuppPubInfo, CoseKdfContext ---------- *)
Definition SuppPubInfo_bwf (s : supp_pub_info) : Prop := in_u64 (sp_len s) = true /\ pbwf nest_limit (sp_prot s).
Definition assign_SuppPubInfo (s : supp_pub_info) : supp_pub_info :=
  mkSupp (sp_len s) (assign_prot (sp_prot s)) (sp_other s).

Theorem SuppPubInfo_encode_decode : forall s, SuppPubInfo_bwf s ->
  exists v, SuppPubInfo_to_value s = Ok v /\ SuppPubInfo_from_value v = Ok (assign_SuppPubInfo s).
Proof. intros [n p o] [Wn Wp]. cbn [sp_len sp_prot] in *. unfold assign_SuppPubInfo. cbn [sp_len sp_prot sp_other].
  apply supp_ed; [exact Wn|now apply EDP_built]. Qed.

Definition CoseKdfContext_bwf (k : kdf_context) : Prop :=
  alg_ok (Some (kc_alg k)) /\ TypedRoundTrip.party_wf (kc_u k) /\ TypedRoundTrip.party_wf (kc_v k) /\
  SuppPubInfo_bwf (kc_pub k).
Definition assign_CoseKdfContext (k : kdf_context) : kdf_context :=
  mkKdf (kc_alg k) (kc_u k) (kc_v k) (assign_SuppPubInfo (kc_pub k)) (kc_priv k).

Theorem CoseKdfContext_encode_decode : forall k, CoseKdfContext_bwf k ->
  exists v, CoseKdfContext_to_value k = Ok v /\ CoseKdfContext_from_value v = Ok (assign_CoseKdfContext k).
Proof. intros [alg pu pv sp priv] (Wa & Wu & Wv & Ws). cbn [kc_alg kc_u kc_v kc_pub] in *.
  unfold assign_CoseKdfContext. cbn [kc_alg kc_u kc_v kc_pub kc_priv].
  apply kdf_ed; [exact Wa|now apply TypedRoundTrip.party_roundtrip|now apply TypedRoundTrip.party_roundtrip|
                 now apply SuppPubInfo_encode_decode]. Qed.

(* ---------- byte level: encoding a well-formed built message and reading the bytes back ---------- *)
Section BytesB.
  Context {T : Type}.
  Variable fromv : value -> res T.
  Variable tov : T -> res value.
  Variable wf : T -> Prop.
  Variable assign : T -> T.
  Definition bytes_ed : Prop := forall m v, wf m ->
    tov m = Ok v -> value_nf v = true -> (depth v <= 256)%nat ->
    exists b, to_vec tov m = Ok b /\ from_slice fromv b = Ok (assign m).
  Lemma bytes_ed_intro :
    (forall m, wf m -> exists v, tov m = Ok v /\ fromv v = Ok (assign m)) -> bytes_ed.
  Proof. intros ED m v W Hv NF D. destruct (ED m W) as (v' & E & Dv). rewrite Hv in E. injection E as <-.
    exists (ser v). unfold to_vec, from_slice. rewrite Hv. cbn [bind]. split; [reflexivity|].
    rewrite (TypedRoundTrip.read_back v NF D). exact Dv. Qed.
End BytesB.

Theorem messages_bytes_encode_decode :
  bytes_ed CoseSign1_from_value CoseSign1_to_value CoseSign1_bwf assign_CoseSign1 /\
  bytes_ed CoseSign_from_value CoseSign_to_value CoseSign_bwf assign_CoseSign /\
  bytes_ed CoseMac_from_value CoseMac_to_value CoseMac_bwf assign_CoseMac /\
  bytes_ed CoseMac0_from_value CoseMac0_to_value CoseMac0_bwf assign_CoseMac0 /\
  bytes_ed CoseEncrypt_from_value CoseEncrypt_to_value CoseEncrypt_bwf assign_CoseEncrypt /\
  bytes_ed CoseEncrypt0_from_value CoseEncrypt0_to_value CoseEncrypt0_bwf assign_CoseEncrypt0 /\
  bytes_ed CoseRecipient_from_value CoseRecipient_to_value CoseRecipient_bwf assign_CoseRecipient /\
  bytes_ed SuppPubInfo_from_value SuppPubInfo_to_value SuppPubInfo_bwf assign_SuppPubInfo /\
  bytes_ed CoseKdfContext_from_value CoseKdfContext_to_value CoseKdfContext_bwf assign_CoseKdfContext.
Proof.
  repeat split; apply bytes_ed_intro;
    [apply CoseSign1_encode_decode|apply CoseSign_encode_decode|apply CoseMac_encode_decode
    |apply CoseMac0_encode_decode|apply CoseEncrypt_encode_decode|apply CoseEncrypt0_encode_decode
    |apply CoseRecipient_encode_decode|apply SuppPubInfo_encode_decode|apply CoseKdfContext_encode_decode].
Qed.

(* ====================================================================== *)
(* 6. decoded messages are well-formed built messages that assigning       *)
(*    leaves unchanged: PART B covers PART A                               *)
(* ====================================================================== *)
Lemma decP_built p : decP p -> pbwf nest_limit p /\ assign_prot p = p.
Proof. intros [x H]. destruct (Retained.protected_retained _ _ _ H) as (d & -> & O & _).
  destruct p as [o h]. cbn [p_orig] in O. subst o. rewrite pbwf_eq. cbn [p_orig assign_prot].
  split; [exact H|reflexivity]. Qed.

Lemma decH_built h : decH h -> bwf nest_limit h /\ assign_header h = h.
Proof. intros [x H]. exact (decoded_header_is_built nest_limit x h H). Qed.

Lemma decS_built s : decS s -> sbwf nest_limit s /\ assign_sig s = s.
Proof. intros [x H]. apply (proj1 (proj2 (decoded_is_built nest_limit))).
  eapply signature_decoded_sdwf. exact H. Qed.

Lemma decS_built_list ss : Forall decS ss -> All (sbwf nest_limit) ss /\ map assign_sig ss = ss.
Proof. induction 1 as [|s ss Hs _ [IH1 IH2]]; [split; [exact I|reflexivity]|].
  destruct (decS_built s Hs) as [W E]. cbn [Retained.All map]. rewrite E, IH2. auto. Qed.

Lemma decR_built r : decR r -> CoseRecipient_bwf r /\ assign_CoseRecipient r = r.
Proof.
  induction r as [p u ct rs IH] using NoPanic.recipient_ind'. intros [v H].
  destruct (recipient_inv v _ H) as (P & U & R). cbn [r_prot r_unprot r_recipients] in *.
  destruct (decP_built p P) as [Wp Ep]. destruct (decH_built u U) as [Wu Eu].
  assert (X : All CoseRecipient_bwf rs /\ map assign_CoseRecipient rs = rs).
  { clear H. induction IH as [|r rs Hr _ IHrs]; [split; [exact I|reflexivity]|].
    inversion R as [|? ? Rr Rrs]; subst. destruct (Hr Rr) as [W E]. destruct (IHrs Rrs) as [W' E'].
    cbn [Retained.All map]. rewrite E, E'. auto. }
  destruct X as [Wr Er]. rewrite CoseRecipient_bwf_eq. cbn [r_prot r_unprot r_recipients assign_CoseRecipient].
  rewrite Ep, Eu, Er. auto.
Qed.

Lemma decR_built_list rs : Forall decR rs -> All CoseRecipient_bwf rs /\ map assign_CoseRecipient rs = rs.
Proof. induction 1 as [|r rs Hr _ [IH1 IH2]]; [split; [exact I|reflexivity]|].
  destruct (decR_built r Hr) as [W E]. cbn [Retained.All map]. rewrite E, IH2. auto. Qed.

Theorem decoded_messages_are_built :
  (forall v m, CoseSign1_from_value v = Ok m -> CoseSign1_bwf m /\ assign_CoseSign1 m = m) /\
  (forall v m, CoseSign_from_value v = Ok m -> CoseSign_bwf m /\ assign_CoseSign m = m) /\
  (forall v m, CoseMac_from_value v = Ok m -> CoseMac_bwf m /\ assign_CoseMac m = m) /\
  (forall v m, CoseMac0_from_value v = Ok m -> CoseMac0_bwf m /\ assign_CoseMac0 m = m) /\
  (forall v m, CoseEncrypt_from_value v = Ok m -> CoseEncrypt_bwf m /\ assign_CoseEncrypt m = m) /\
  (forall v m, CoseEncrypt0_from_value v = Ok m -> CoseEncrypt0_bwf m /\ assign_CoseEncrypt0 m = m) /\
  (forall v m, CoseRecipient_from_value v = Ok m -> CoseRecipient_bwf m /\ assign_CoseRecipient m = m) /\
  (forall v m, SuppPubInfo_from_value v = Ok m -> SuppPubInfo_bwf m /\ assign_SuppPubInfo m = m) /\
  (forall v m, CoseKdfContext_from_value v = Ok m -> CoseKdfContext_bwf m /\ assign_CoseKdfContext m = m).
Proof.
  assert (SUPP : forall v m, SuppPubInfo_from_value v = Ok m -> SuppPubInfo_bwf m /\ assign_SuppPubInfo m = m).
  { intros v m H. destruct (supp_inv v m H) as [N P]. destruct (decP_built _ P) as [Wp Ep].
    destruct m as [n p o]. unfold SuppPubInfo_bwf, assign_SuppPubInfo. cbn [sp_len sp_prot sp_other] in *.
    rewrite Ep. auto. }
  repeat apply conj.
  - intros v m H. destruct (sign1_inv v m H) as [P U].
    destruct (decP_built _ P) as [Wp Ep]. destruct (decH_built _ U) as [Wu Eu].
    destruct m as [p u pl sg]. unfold CoseSign1_bwf, assign_CoseSign1. cbn [s1_prot s1_unprot s1_payload s1_sig] in *.
    rewrite Ep, Eu. auto.
  - intros v m H. destruct (sign_inv v m H) as (P & U & S).
    destruct (decP_built _ P) as [Wp Ep]. destruct (decH_built _ U) as [Wu Eu]. destruct (decS_built_list _ S) as [Ws Es].
    destruct m as [p u pl ss]. unfold CoseSign_bwf, assign_CoseSign. cbn [sn_prot sn_unprot sn_payload sn_sigs] in *.
    rewrite Ep, Eu, Es. auto.
  - intros v m H. destruct (mac_inv v m H) as (P & U & R).
    destruct (decP_built _ P) as [Wp Ep]. destruct (decH_built _ U) as [Wu Eu]. destruct (decR_built_list _ R) as [Wr Er].
    destruct m as [p u pl tg rs]. unfold CoseMac_bwf, assign_CoseMac.
    cbn [mc_prot mc_unprot mc_payload mc_tag mc_recipients] in *. rewrite Ep, Eu, Er. auto.
  - intros v m H. destruct (mac0_inv v m H) as [P U].
    destruct (decP_built _ P) as [Wp Ep]. destruct (decH_built _ U) as [Wu Eu].
    destruct m as [p u pl tg]. unfold CoseMac0_bwf, assign_CoseMac0. cbn [m0_prot m0_unprot m0_payload m0_tag] in *.
    rewrite Ep, Eu. auto.
  - intros v m H. destruct (encrypt_inv v m H) as (P & U & R).
    destruct (decP_built _ P) as [Wp Ep]. destruct (decH_built _ U) as [Wu Eu]. destruct (decR_built_list _ R) as [Wr Er].
    destruct m as [p u ct rs]. unfold CoseEncrypt_bwf, assign_CoseEncrypt.
    cbn [en_prot en_unprot en_ct en_recipients] in *. rewrite Ep, Eu, Er. auto.
  - intros v m H. destruct (encrypt0_inv v m H) as [P U].
    destruct (decP_built _ P) as [Wp Ep]. destruct (decH_built _ U) as [Wu Eu].
    destruct m as [p u ct]. unfold CoseEncrypt0_bwf, assign_CoseEncrypt0. cbn [e0_prot e0_unprot e0_ct] in *.
    rewrite Ep, Eu. auto.
  - intros v m H. apply decR_built. exists v. exact H.
  - exact SUPP.
  - intros v m H. destruct (kdf_inv v m H) as ([xa A] & [xu U] & [xv V] & [xs S]).
    destruct (SUPP _ _ S) as [Ws Es].
    destruct m as [alg pu pv sp priv]. unfold CoseKdfContext_bwf, assign_CoseKdfContext.
    cbn [kc_alg kc_u kc_v kc_pub kc_priv] in *. rewrite Es. split; [|reflexivity].
    split; [cbn [alg_ok]; eapply regp_rt; exact A|].
    split; [eapply TypedRoundTrip.decoded_party_wf; exact U|].
    split; [eapply TypedRoundTrip.decoded_party_wf; exact V|exact Ws].
Qed.

(* ====================================================================== *)
(* 7. non-vacuity                                                         *)
(* ====================================================================== *)
(* a built COSE_Sign1 whose protected header (alg = ES256) has no bytes yet: encoding assigns them *)
Example CoseSign1_bwf_example : (0 < nest_limit)%nat ->
  let inner := mkHeader (Some (PAssigned (-7))) [] None [] [] [] [] [] in
  let m := mkSign1 (mkProtected None inner) (mkHeader None [] None [x31] [] [] [] []) (Some [x01]) [x02; x03] in
  CoseSign1_bwf m /\ assign_CoseSign1 m <> m /\
  exists v, CoseSign1_to_value m = Ok v /\ CoseSign1_from_value v = Ok (assign_CoseSign1 m).
Proof.
  intros NL. cbv zeta.
  match goal with |- CoseSign1_bwf ?m /\ _ => assert (W : CoseSign1_bwf m) end.
  { assert (FW : forall h0, alg_ok (h_alg h0) -> crit_ok (h_crit h0) -> ctype_ok (h_ctype h0) ->
                  iv_clash h0 = false -> rest_ok (h_rest h0) -> flat_wf h0) by (unfold flat_wf; auto).
    split; cbn [s1_prot s1_unprot].
    - rewrite pbwf_eq. cbn [p_orig p_hdr]. right. destruct nest_limit as [|n]; [lia|]. split.
      + rewrite bwf_eq. split; [|exact I]. apply FW; cbn [h_alg h_crit h_ctype h_rest].
        * reflexivity.
        * constructor.
        * exact I.
        * reflexivity.
        * split; constructor.
      + intros v' E. vm_compute in E. injection E as <-. split; [vm_compute; reflexivity|cbn; lia].
    - rewrite bwf_eq. split; [|exact I]. apply FW; cbn [h_alg h_crit h_ctype h_rest].
      + exact I.
      + constructor.
      + exact I.
      + reflexivity.
      + split; constructor. }
  split; [exact W|]. split; [|now apply CoseSign1_encode_decode].
  intros H. apply (f_equal (fun m => p_orig (s1_prot m))) in H. discriminate H.
Qed.

(* the asymmetry of COSE_recipient: a 4-element array with an empty nested list decodes, the result
   re-encodes as a 3-element array, and that decodes to the same value *)
Example recipient_empty_nested_list :
  let r := mkRecipient (mkProtected (Some []) header_default) header_default None [] in
  CoseRecipient_from_value (VArray [VBytes []; VMap []; VNull; VArray []]) = Ok r /\
  CoseRecipient_to_value r = Ok (VArray [VBytes []; VMap []; VNull]) /\
  CoseRecipient_from_value (VArray [VBytes []; VMap []; VNull]) = Ok r.
Proof.
  cbv zeta.
  assert (H0 : Header_from_value (VMap []) = Ok header_default) by apply Retained.header_at_empty_map.
  split; [|split].
  - cbn [CoseRecipient_from_value length]. rewrite MsgAccept.arity_recipient.
    cbn [Nat.eqb negb orb mapM bind bytes_or_nil]. rewrite H0. reflexivity.
  - reflexivity.
  - cbn [CoseRecipient_from_value length]. rewrite MsgAccept.arity_recipient.
    cbn [Nat.eqb negb orb mapM bind bytes_or_nil]. rewrite H0. reflexivity.
Qed.

Print Assumptions CoseSign1_decode_encode_fixed_point.
Print Assumptions CoseSign_decode_encode_fixed_point.
Print Assumptions CoseMac_decode_encode_fixed_point.
Print Assumptions CoseMac0_decode_encode_fixed_point.
Print Assumptions CoseEncrypt_decode_encode_fixed_point.
Print Assumptions CoseEncrypt0_decode_encode_fixed_point.
Print Assumptions CoseRecipient_decode_encode_fixed_point.
Print Assumptions SuppPubInfo_decode_encode_fixed_point.
Print Assumptions CoseKdfContext_decode_encode_fixed_point.
Print Assumptions CoseSign1_bytes_fixed_point.
Print Assumptions CoseSign_bytes_fixed_point.
Print Assumptions CoseMac_bytes_fixed_point.
Print Assumptions CoseMac0_bytes_fixed_point.
Print Assumptions CoseEncrypt_bytes_fixed_point.
Print Assumptions CoseEncrypt0_bytes_fixed_point.
Print Assumptions CoseRecipient_bytes_fixed_point.
Print Assumptions SuppPubInfo_bytes_fixed_point.
Print Assumptions CoseKdfContext_bytes_fixed_point.
Print Assumptions Header_bytes_fixed_point.
Print Assumptions CoseSignature_bytes_fixed_point.
Print Assumptions messages_bytes_fixed_point.
Print Assumptions CoseSign1_encode_decode.
Print Assumptions CoseMac0_encode_decode.
Print Assumptions CoseEncrypt0_encode_decode.
Print Assumptions CoseSign_encode_decode.
Print Assumptions CoseRecipient_encode_decode.
Print Assumptions CoseEncrypt_encode_decode.
Print Assumptions CoseMac_encode_decode.
Print Assumptions SuppPubInfo_encode_decode.
Print Assumptions CoseKdfContext_encode_decode.
Print Assumptions messages_bytes_encode_decode.
Print Assumptions decoded_messages_are_built.
Print Assumptions CoseSign1_bwf_example.
Print Assumptions recipient_empty_nested_list.
