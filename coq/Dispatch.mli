open Api
open Ascii
open BinNat
open BinNums
open Builders
open Byte
open Cbor
open Context
open Cwt
open Datatypes
open Desc
open Generated
open HexString
open Iana
open Key
open Label
open Msg
open Nat
open Prelude
open String

type __ = Obj.t

val b2s : bytes -> string

type ty_ops = { fromv : (value -> __ res); tov : (__ -> value res);
                dsc : (__ -> value); odsc : (value -> __ res);
                tagn : coq_N option }

type carrier = __

val ok_value : value -> value res

val tags : string -> coq_N option

val reg_ty : string -> ty_ops

val regp_ty : string -> ty_ops

val prefix_split : string -> string -> string option

val lookup_ty : string -> ty_ops option

val badcase : bytes

val show_hex : bytes -> bytes

val show_bool : bool -> bytes

val sp : bytes

val desc_arg : bytes -> value res

val show_decoded : string -> ty_ops -> carrier -> bytes

val tagged_from : ty_ops -> bytes -> carrier res

val tagged_to : ty_ops -> carrier -> bytes res

val roundtrip :
  string -> ty_ops -> (bytes -> carrier res) -> (carrier -> bytes res) ->
  bytes -> bytes

val sig_ctx_of : string -> sig_context option

val mac_ctx_of : string -> mac_context option

val enc_ctx_of : string -> enc_context option

val show_cmp : comparison -> bytes

val closure1_of : value -> closure1 res

val len_byte : bytes -> byte

val closure2_of : value -> closure2 res

val record2 : bytes -> bytes -> bytes

val o_enc_ctx : value -> enc_context res

val o_header_op : value -> header_op res

val o_signature_op : value -> signature_op res

val o_sign1_op : value -> sign1_op res

val o_sign_op : value -> sign_op res

val o_mac0_op : value -> mac0_op res

val o_mac_op : value -> mac_op res

val o_recipient_op : value -> recipient_op res

val o_encrypt_op : value -> encrypt_op res

val o_encrypt0_op : value -> encrypt0_op res

val o_bool : value -> bool res

val o_key_op : value -> key_op res

val o_claims_op : value -> claims_op res

val o_party_op : value -> party_op res

val o_supp_op : value -> supp_op res

val o_kdf_op : value -> kdf_op res

val show_build : ('a1 -> bytes) -> 'a1 res -> bytes

val run_build :
  (value -> 'a2 res) -> ('a1 -> 'a2 -> 'a1 res) -> 'a1 -> value -> 'a1 res

val sv : ('a1 -> value) -> 'a1 -> bytes

val build_case : string -> value -> bytes

val nat_of_arg : bytes -> nat

val show_rec : bytes res -> bytes

val helper_case : string -> value res -> bool -> bytes -> bytes list -> bytes

val buildrt_case : string -> value -> bool -> bytes list -> bytes

val cmp_case : string -> value -> value -> bytes

val iana_case : string -> coq_Z -> bytes

val ord_of : string -> cbor_ordering option

val canon_case : cbor_ordering -> cose_key -> bytes

val run_case : bytes -> bytes list -> bytes
