open BinInt
open BinNat
open BinNums
open Cbor
open Datatypes
open Iana
open List
open PeanoNat
open Prelude
open String

type label =
| LInt of coq_Z
| LText of bytes

type reg_label =
| RAssigned of coq_Z
| RText of bytes

type regp_label =
| PPrivate of coq_Z
| PAssigned of coq_Z
| PText of bytes

(** val in_i64 : coq_Z -> bool **)

let in_i64 z =
  (&&)
    (Z.leb (Zneg (Coq_xO (Coq_xO (Coq_xO (Coq_xO (Coq_xO (Coq_xO (Coq_xO
      (Coq_xO (Coq_xO (Coq_xO (Coq_xO (Coq_xO (Coq_xO (Coq_xO (Coq_xO (Coq_xO
      (Coq_xO (Coq_xO (Coq_xO (Coq_xO (Coq_xO (Coq_xO (Coq_xO (Coq_xO (Coq_xO
      (Coq_xO (Coq_xO (Coq_xO (Coq_xO (Coq_xO (Coq_xO (Coq_xO (Coq_xO (Coq_xO
      (Coq_xO (Coq_xO (Coq_xO (Coq_xO (Coq_xO (Coq_xO (Coq_xO (Coq_xO (Coq_xO
      (Coq_xO (Coq_xO (Coq_xO (Coq_xO (Coq_xO (Coq_xO (Coq_xO (Coq_xO (Coq_xO
      (Coq_xO (Coq_xO (Coq_xO (Coq_xO (Coq_xO (Coq_xO (Coq_xO (Coq_xO (Coq_xO
      (Coq_xO (Coq_xO
      Coq_xH))))))))))))))))))))))))))))))))))))))))))))))))))))))))))))))))
      z)
    (Z.ltb z (Zpos (Coq_xO (Coq_xO (Coq_xO (Coq_xO (Coq_xO (Coq_xO (Coq_xO
      (Coq_xO (Coq_xO (Coq_xO (Coq_xO (Coq_xO (Coq_xO (Coq_xO (Coq_xO (Coq_xO
      (Coq_xO (Coq_xO (Coq_xO (Coq_xO (Coq_xO (Coq_xO (Coq_xO (Coq_xO (Coq_xO
      (Coq_xO (Coq_xO (Coq_xO (Coq_xO (Coq_xO (Coq_xO (Coq_xO (Coq_xO (Coq_xO
      (Coq_xO (Coq_xO (Coq_xO (Coq_xO (Coq_xO (Coq_xO (Coq_xO (Coq_xO (Coq_xO
      (Coq_xO (Coq_xO (Coq_xO (Coq_xO (Coq_xO (Coq_xO (Coq_xO (Coq_xO (Coq_xO
      (Coq_xO (Coq_xO (Coq_xO (Coq_xO (Coq_xO (Coq_xO (Coq_xO (Coq_xO (Coq_xO
      (Coq_xO (Coq_xO
      Coq_xH)))))))))))))))))))))))))))))))))))))))))))))))))))))))))))))))))

(** val in_u64 : coq_Z -> bool **)

let in_u64 z =
  (&&) (Z.leb Z0 z)
    (Z.ltb z (Zpos (Coq_xO (Coq_xO (Coq_xO (Coq_xO (Coq_xO (Coq_xO (Coq_xO
      (Coq_xO (Coq_xO (Coq_xO (Coq_xO (Coq_xO (Coq_xO (Coq_xO (Coq_xO (Coq_xO
      (Coq_xO (Coq_xO (Coq_xO (Coq_xO (Coq_xO (Coq_xO (Coq_xO (Coq_xO (Coq_xO
      (Coq_xO (Coq_xO (Coq_xO (Coq_xO (Coq_xO (Coq_xO (Coq_xO (Coq_xO (Coq_xO
      (Coq_xO (Coq_xO (Coq_xO (Coq_xO (Coq_xO (Coq_xO (Coq_xO (Coq_xO (Coq_xO
      (Coq_xO (Coq_xO (Coq_xO (Coq_xO (Coq_xO (Coq_xO (Coq_xO (Coq_xO (Coq_xO
      (Coq_xO (Coq_xO (Coq_xO (Coq_xO (Coq_xO (Coq_xO (Coq_xO (Coq_xO (Coq_xO
      (Coq_xO (Coq_xO (Coq_xO
      Coq_xH))))))))))))))))))))))))))))))))))))))))))))))))))))))))))))))))))

(** val to_i64_res : coq_Z -> coq_Z res **)

let to_i64_res z =
  if in_i64 z then Ok z else Err ERange

(** val to_u64_res : coq_Z -> coq_Z res **)

let to_u64_res z =
  if in_u64 z then Ok z else Err ERange

(** val label_from_value : value -> label res **)

let label_from_value = function
| VInt i -> bind (to_i64_res i) (fun z -> Ok (LInt z))
| VText t -> Ok (LText t)
| _ -> Err EUnexpected

(** val label_to_value : label -> value **)

let label_to_value = function
| LInt z -> VInt z
| LText t -> VText t

(** val reg_from_value : (string * coq_Z) list -> value -> reg_label res **)

let reg_from_value tbl = function
| VInt i ->
  bind (to_i64_res i) (fun z ->
    if registered tbl z then Ok (RAssigned z) else Err EUnreg)
| VText t -> Ok (RText t)
| _ -> Err EUnexpected

(** val reg_to_value : reg_label -> value **)

let reg_to_value = function
| RAssigned z -> VInt z
| RText t -> VText t

(** val regp_from_value : string -> value -> regp_label res **)

let regp_from_value reg = function
| VInt i ->
  bind (to_i64_res i) (fun z ->
    if registered (table_of reg) z
    then Ok (PAssigned z)
    else if is_private reg z then Ok (PPrivate z) else Err EUnregNonPriv)
| VText t -> Ok (PText t)
| _ -> Err EUnexpected

(** val regp_to_value : regp_label -> value **)

let regp_to_value = function
| PPrivate z -> VInt z
| PAssigned z -> VInt z
| PText t -> VText t

(** val bytes_cmp : bytes -> bytes -> comparison **)

let rec bytes_cmp a b =
  match a with
  | [] -> (match b with
           | [] -> Eq
           | _ :: _ -> Lt)
  | x :: a' ->
    (match b with
     | [] -> Gt
     | y :: b' ->
       (match N.compare (b2n x) (b2n y) with
        | Eq -> bytes_cmp a' b'
        | x0 -> x0))

(** val then_cmp : comparison -> comparison -> comparison **)

let then_cmp c d =
  match c with
  | Eq -> d
  | _ -> c

(** val text_cmp : bytes -> bytes -> comparison **)

let text_cmp t1 t2 =
  then_cmp (Nat.compare (Datatypes.length t1) (Datatypes.length t2))
    (bytes_cmp t1 t2)

(** val int_cmp : coq_Z -> coq_Z -> comparison **)

let int_cmp i1 i2 =
  if Z.ltb i1 Z0
  then if Z.ltb i2 Z0 then Z.compare i2 i1 else Gt
  else if Z.eqb i1 Z0
       then if Z.ltb i2 Z0 then Lt else if Z.eqb i2 Z0 then Eq else Lt
       else if Z.ltb i2 Z0
            then Lt
            else if Z.eqb i2 Z0 then Gt else Z.compare i1 i2

(** val label_cmp : label -> label -> comparison **)

let label_cmp a b =
  match a with
  | LInt i1 -> (match b with
                | LInt i2 -> int_cmp i1 i2
                | LText _ -> Lt)
  | LText t1 -> (match b with
                 | LInt _ -> Gt
                 | LText t2 -> text_cmp t1 t2)

(** val reg_cmp : reg_label -> reg_label -> comparison **)

let reg_cmp a b =
  match a with
  | RAssigned i1 ->
    (match b with
     | RAssigned i2 -> label_cmp (LInt i1) (LInt i2)
     | RText _ -> Lt)
  | RText t1 -> (match b with
                 | RAssigned _ -> Gt
                 | RText t2 -> text_cmp t1 t2)

(** val regp_cmp : regp_label -> regp_label -> comparison **)

let regp_cmp a b =
  match a with
  | PPrivate i1 ->
    (match b with
     | PPrivate i2 -> label_cmp (LInt i1) (LInt i2)
     | PAssigned i2 -> label_cmp (LInt i1) (LInt i2)
     | PText _ -> Lt)
  | PAssigned i1 ->
    (match b with
     | PPrivate i2 -> label_cmp (LInt i1) (LInt i2)
     | PAssigned i2 -> label_cmp (LInt i1) (LInt i2)
     | PText _ -> Lt)
  | PText t1 -> (match b with
                 | PText t2 -> text_cmp t1 t2
                 | _ -> Gt)

(** val cmp_canonical : label -> label -> comparison **)

let cmp_canonical a b =
  let ea = ser (label_to_value a) in
  let eb = ser (label_to_value b) in
  if negb (Nat.eqb (Datatypes.length ea) (Datatypes.length eb))
  then Nat.compare (Datatypes.length ea) (Datatypes.length eb)
  else bytes_cmp ea eb

(** val label_eqb : label -> label -> bool **)

let label_eqb a b =
  match a with
  | LInt x -> (match b with
               | LInt y -> Z.eqb x y
               | LText _ -> false)
  | LText x -> (match b with
                | LInt _ -> false
                | LText y -> bytes_eqb x y)

(** val regp_eqb : regp_label -> regp_label -> bool **)

let regp_eqb a b =
  match a with
  | PPrivate x -> (match b with
                   | PPrivate y -> Z.eqb x y
                   | _ -> false)
  | PAssigned x -> (match b with
                    | PAssigned y -> Z.eqb x y
                    | _ -> false)
  | PText x -> (match b with
                | PText y -> bytes_eqb x y
                | _ -> false)

(** val reg_eqb : reg_label -> reg_label -> bool **)

let reg_eqb a b =
  match a with
  | RAssigned x -> (match b with
                    | RAssigned y -> Z.eqb x y
                    | RText _ -> false)
  | RText x -> (match b with
                | RAssigned _ -> false
                | RText y -> bytes_eqb x y)

(** val is_eq : comparison -> bool **)

let is_eq = function
| Eq -> true
| _ -> false

(** val label_mem : label -> label list -> bool **)

let label_mem l seen =
  existsb (fun x -> is_eq (label_cmp l x)) seen

(** val regp_mem : regp_label -> regp_label list -> bool **)

let regp_mem l seen =
  existsb (fun x -> is_eq (regp_cmp l x)) seen

(** val reg_set_insert :
    reg_label -> reg_label list -> bool * reg_label list **)

let rec reg_set_insert x s = match s with
| [] -> (true, (x :: []))
| y :: r ->
  (match reg_cmp x y with
   | Eq -> (false, s)
   | Lt -> (true, (x :: s))
   | Gt -> let (ins, r') = reg_set_insert x r in (ins, (y :: r')))

(** val insert_sorted :
    ('a1 -> 'a1 -> comparison) -> 'a1 -> 'a1 list -> 'a1 list **)

let rec insert_sorted cmp x l = match l with
| [] -> x :: []
| y :: r ->
  (match cmp x y with
   | Lt -> x :: l
   | _ -> y :: (insert_sorted cmp x r))

(** val sort_by : ('a1 -> 'a1 -> comparison) -> 'a1 list -> 'a1 list **)

let sort_by cmp l =
  fold_left (fun acc x -> insert_sorted cmp x acc) l []
