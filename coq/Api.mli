open BinNat
open BinNums
open Cbor
open Label
open Msg
open Prelude

val from_slice : (value -> 'a1 res) -> bytes -> 'a1 res

val to_vec : ('a1 -> value res) -> 'a1 -> bytes res

val from_tagged_slice : (value -> 'a1 res) -> coq_N -> bytes -> 'a1 res

val to_tagged_vec : ('a1 -> value res) -> coq_N -> 'a1 -> bytes res

val coq_Label_to_value : label -> value res
