open Ascii
open BinInt
open BinNums
open Datatypes
open Generated
open List
open Prelude
open String

val assoc : string -> (string * 'a1) list -> 'a1 option

val table_of : string -> (string * coq_Z) list

val from_i64 : (string * coq_Z) list -> coq_Z -> string option

val to_i64 : (string * coq_Z) list -> string -> coq_Z option

val registered : (string * coq_Z) list -> coq_Z -> bool

val cmp_op : string -> coq_Z -> coq_Z -> bool

val is_private : string -> coq_Z -> bool

val enum_const : string -> string -> coq_Z

val label_const : (string * (string * string)) list -> string -> coq_Z

val coq_H_ALG : coq_Z

val coq_H_CRIT : coq_Z

val coq_H_CONTENT_TYPE : coq_Z

val coq_H_KID : coq_Z

val coq_H_IV : coq_Z

val coq_H_PARTIAL_IV : coq_Z

val coq_H_COUNTER_SIG : coq_Z

val coq_K_KTY : coq_Z

val coq_K_KID : coq_Z

val coq_K_ALG : coq_Z

val coq_K_KEY_OPS : coq_Z

val coq_K_BASE_IV : coq_Z

val coq_C_ISS : coq_Z

val coq_C_SUB : coq_Z

val coq_C_AUD : coq_Z

val coq_C_EXP : coq_Z

val coq_C_NBF : coq_Z

val coq_C_IAT : coq_Z

val coq_C_CTI : coq_Z

val tag_of : string -> coq_N

val ctx_text : (string * string) list -> string -> string

val arity_ok : string -> nat -> bool

val nest_limit : nat

val coq_T_HeaderParameter : (string * coq_Z) list

val coq_T_CoapContentFormat : (string * coq_Z) list

val coq_T_KeyType : (string * coq_Z) list

val coq_T_KeyOperation : (string * coq_Z) list

val coq_T_KeyParameter : (string * coq_Z) list
