open BinInt
open BinNat
open BinNums
open Byte
open Datatypes
open List
open Nat
open Prelude

type value =
| VInt of coq_Z
| VBytes of bytes
| VFloat of coq_N
| VText of bytes
| VBool of bool
| VNull
| VTag of coq_N * value
| VArray of value list
| VMap of (value * value) list

val be : nat -> coq_N -> bytes

val unbe : bytes -> coq_N

val head : coq_N -> coq_N -> bytes

val takeN : coq_N -> bytes -> (bytes * bytes) option

val dehead : bytes -> (((coq_N * coq_N) * coq_N option) * bytes) option

val pow2 : coq_N -> coq_N

val widen16 : coq_N -> coq_N

val widen32 : coq_N -> coq_N

val cand16 : coq_N -> coq_N

val cand32 : coq_N -> coq_N

val ser_float : coq_N -> bytes

val inr : coq_N -> coq_N -> byte -> bool

val cont : byte -> bool

val utf8_valid : bytes -> bool

val ser : value -> bytes

val derr : 'a1 res

val strip0 : bytes -> bytes

val bignum : bool -> bytes -> value res

val segs : nat -> coq_N -> nat -> bytes -> (bytes * bytes) res

val de : nat -> nat -> bytes -> (value * bytes) res

val items : nat -> nat -> coq_N option -> bytes -> (value list * bytes) res

val entries :
  nat -> nat -> coq_N option -> bytes -> ((value * value) list * bytes) res

val coq_RECURSION_LIMIT : nat

val fuel_of : bytes -> nat

val from_reader : bytes -> (value * bytes) res
