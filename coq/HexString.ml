open Ascii
open BinNums
open String

module Raw =
 struct
  (** val of_pos : positive -> string -> string **)

  let rec of_pos p rest =
    match p with
    | Coq_xI p0 ->
      (match p0 with
       | Coq_xI p1 ->
         (match p1 with
          | Coq_xI p2 ->
            (match p2 with
             | Coq_xI p' ->
               of_pos p' (String ((Ascii (false, true, true, false, false,
                 true, true, false)), rest))
             | Coq_xO p' ->
               of_pos p' (String ((Ascii (true, true, true, false, true,
                 true, false, false)), rest))
             | Coq_xH ->
               String ((Ascii (false, true, true, false, false, true, true,
                 false)), rest))
          | Coq_xO p2 ->
            (match p2 with
             | Coq_xI p' ->
               of_pos p' (String ((Ascii (false, true, false, false, false,
                 true, true, false)), rest))
             | Coq_xO p' ->
               of_pos p' (String ((Ascii (true, true, false, false, true,
                 true, false, false)), rest))
             | Coq_xH ->
               String ((Ascii (false, true, false, false, false, true, true,
                 false)), rest))
          | Coq_xH ->
            String ((Ascii (true, true, true, false, true, true, false,
              false)), rest))
       | Coq_xO p1 ->
         (match p1 with
          | Coq_xI p2 ->
            (match p2 with
             | Coq_xI p' ->
               of_pos p' (String ((Ascii (false, false, true, false, false,
                 true, true, false)), rest))
             | Coq_xO p' ->
               of_pos p' (String ((Ascii (true, false, true, false, true,
                 true, false, false)), rest))
             | Coq_xH ->
               String ((Ascii (false, false, true, false, false, true, true,
                 false)), rest))
          | Coq_xO p2 ->
            (match p2 with
             | Coq_xI p' ->
               of_pos p' (String ((Ascii (true, false, false, true, true,
                 true, false, false)), rest))
             | Coq_xO p' ->
               of_pos p' (String ((Ascii (true, false, false, false, true,
                 true, false, false)), rest))
             | Coq_xH ->
               String ((Ascii (true, false, false, true, true, true, false,
                 false)), rest))
          | Coq_xH ->
            String ((Ascii (true, false, true, false, true, true, false,
              false)), rest))
       | Coq_xH ->
         String ((Ascii (true, true, false, false, true, true, false,
           false)), rest))
    | Coq_xO p0 ->
      (match p0 with
       | Coq_xI p1 ->
         (match p1 with
          | Coq_xI p2 ->
            (match p2 with
             | Coq_xI p' ->
               of_pos p' (String ((Ascii (true, false, true, false, false,
                 true, true, false)), rest))
             | Coq_xO p' ->
               of_pos p' (String ((Ascii (false, true, true, false, true,
                 true, false, false)), rest))
             | Coq_xH ->
               String ((Ascii (true, false, true, false, false, true, true,
                 false)), rest))
          | Coq_xO p2 ->
            (match p2 with
             | Coq_xI p' ->
               of_pos p' (String ((Ascii (true, false, false, false, false,
                 true, true, false)), rest))
             | Coq_xO p' ->
               of_pos p' (String ((Ascii (false, true, false, false, true,
                 true, false, false)), rest))
             | Coq_xH ->
               String ((Ascii (true, false, false, false, false, true, true,
                 false)), rest))
          | Coq_xH ->
            String ((Ascii (false, true, true, false, true, true, false,
              false)), rest))
       | Coq_xO p1 ->
         (match p1 with
          | Coq_xI p2 ->
            (match p2 with
             | Coq_xI p' ->
               of_pos p' (String ((Ascii (true, true, false, false, false,
                 true, true, false)), rest))
             | Coq_xO p' ->
               of_pos p' (String ((Ascii (false, false, true, false, true,
                 true, false, false)), rest))
             | Coq_xH ->
               String ((Ascii (true, true, false, false, false, true, true,
                 false)), rest))
          | Coq_xO p2 ->
            (match p2 with
             | Coq_xI p' ->
               of_pos p' (String ((Ascii (false, false, false, true, true,
                 true, false, false)), rest))
             | Coq_xO p' ->
               of_pos p' (String ((Ascii (false, false, false, false, true,
                 true, false, false)), rest))
             | Coq_xH ->
               String ((Ascii (false, false, false, true, true, true, false,
                 false)), rest))
          | Coq_xH ->
            String ((Ascii (false, false, true, false, true, true, false,
              false)), rest))
       | Coq_xH ->
         String ((Ascii (false, true, false, false, true, true, false,
           false)), rest))
    | Coq_xH ->
      String ((Ascii (true, false, false, false, true, true, false, false)),
        rest)
 end

(** val of_pos : positive -> string **)

let of_pos p =
  String ((Ascii (false, false, false, false, true, true, false, false)),
    (String ((Ascii (false, false, false, true, true, true, true, false)),
    (Raw.of_pos p EmptyString))))

(** val of_N : coq_N -> string **)

let of_N = function
| N0 ->
  String ((Ascii (false, false, false, false, true, true, false, false)),
    (String ((Ascii (false, false, false, true, true, true, true, false)),
    (String ((Ascii (false, false, false, false, true, true, false, false)),
    EmptyString)))))
| Npos p -> of_pos p

(** val of_Z : coq_Z -> string **)

let of_Z = function
| Z0 ->
  String ((Ascii (false, false, false, false, true, true, false, false)),
    (String ((Ascii (false, false, false, true, true, true, true, false)),
    (String ((Ascii (false, false, false, false, true, true, false, false)),
    EmptyString)))))
| Zpos p -> of_pos p
| Zneg p ->
  String ((Ascii (true, false, true, true, false, true, false, false)),
    (of_pos p))
