open Ascii
open BinInt
open BinNums
open Cbor
open Context
open Cwt
open Datatypes
open Iana
open Key
open Label
open List
open Msg
open Prelude
open String

val fresh_protected : header -> protected

type header_op =
| HO_key_id of bytes
| HO_algorithm of coq_Z
| HO_add_critical of coq_Z
| HO_add_critical_label of reg_label
| HO_content_format of coq_Z
| HO_content_type of bytes
| HO_iv of bytes
| HO_partial_iv of bytes
| HO_add_counter_signature of signature
| HO_value of coq_Z * value
| HO_text_value of bytes * value

val header_builder_step : header -> header_op -> header res

type signature_op =
| SO_protected of header
| SO_unprotected of header
| SO_signature of bytes

val signature_builder_step : signature -> signature_op -> signature res

type closure1 = bytes -> bytes option

type closure2 = bytes -> bytes -> bytes option

val call1 : closure1 -> bytes -> bytes res

val call2 : closure2 -> bytes -> bytes -> bytes res

type sign1_op =
| S1_protected of header
| S1_unprotected of header
| S1_signature of bytes
| S1_payload of bytes
| S1_create_signature of bytes * closure1
| S1_create_detached_signature of bytes * bytes * closure1
| S1_try_create_signature of bytes * closure1
| S1_try_create_detached_signature of bytes * bytes * closure1

val sign1_builder_step : sign1 -> sign1_op -> sign1 res

type sign_op =
| SN_protected of header
| SN_unprotected of header
| SN_payload of bytes
| SN_add_signature of signature
| SN_add_created_signature of signature * bytes * closure1
| SN_add_detached_signature of signature * bytes * bytes * closure1
| SN_try_add_created_signature of signature * bytes * closure1
| SN_try_add_detached_signature of signature * bytes * bytes * closure1

val sign_builder_step : sign -> sign_op -> sign res

type mac0_op =
| M0_protected of header
| M0_unprotected of header
| M0_tag of bytes
| M0_payload of bytes
| M0_create_tag of bytes * closure1
| M0_try_create_tag of bytes * closure1

val mac0_builder_step : mac0 -> mac0_op -> mac0 res

type mac_op =
| MC_protected of header
| MC_unprotected of header
| MC_tag of bytes
| MC_payload of bytes
| MC_add_recipient of recipient
| MC_create_tag of bytes * closure1
| MC_try_create_tag of bytes * closure1

val mac_builder_step : mac -> mac_op -> mac res

type recipient_op =
| RO_protected of header
| RO_unprotected of header
| RO_ciphertext of bytes
| RO_add_recipient of recipient
| RO_create_ciphertext of enc_context * bytes * bytes * closure2
| RO_try_create_ciphertext of enc_context * bytes * bytes * closure2

val recipient_aad : recipient -> enc_context -> bytes -> bytes res

val recipient_builder_step : recipient -> recipient_op -> recipient res

type encrypt_op =
| EO_protected of header
| EO_unprotected of header
| EO_ciphertext of bytes
| EO_add_recipient of recipient
| EO_create_ciphertext of bytes * bytes * closure2
| EO_try_create_ciphertext of bytes * bytes * closure2

val encrypt_builder_step : encrypt -> encrypt_op -> encrypt res

type encrypt0_op =
| E0_protected of header
| E0_unprotected of header
| E0_ciphertext of bytes
| E0_create_ciphertext of bytes * bytes * closure2
| E0_try_create_ciphertext of bytes * bytes * closure2

val encrypt0_builder_step : encrypt0 -> encrypt0_op -> encrypt0 res

type key_op =
| KO_new
| KO_new_ec2_pub_key of coq_Z * bytes * bytes
| KO_new_ec2_pub_key_y_sign of coq_Z * bytes * bool
| KO_new_ec2_priv_key of coq_Z * bytes * bytes * bytes
| KO_new_symmetric_key of bytes
| KO_new_okp_key
| KO_kty of reg_label
| KO_key_id of bytes
| KO_base_iv of bytes
| KO_key_type of coq_Z
| KO_algorithm of coq_Z
| KO_add_key_op of coq_Z
| KO_param of coq_Z * value

val ec2 : string -> label

val key_of_kty : string -> cose_key

val key_builder_step : cose_key -> key_op -> cose_key res

type claims_op =
| CO_issuer of bytes
| CO_subject of bytes
| CO_audience of bytes
| CO_expiration_time of timestamp
| CO_not_before of timestamp
| CO_issued_at of timestamp
| CO_cwt_id of bytes
| CO_claim of coq_Z * value
| CO_text_claim of bytes * value
| CO_private_claim of coq_Z * value

val claims_builder_step : claims -> claims_op -> claims res

type party_op =
| PO_identity of bytes
| PO_nonce of nonce
| PO_other of bytes

val party_builder_step : party_info -> party_op -> party_info res

type supp_op =
| UO_key_data_length of coq_Z
| UO_protected of header
| UO_other of bytes

val supp_builder_step : supp_pub_info -> supp_op -> supp_pub_info res

type kdf_op =
| DO_party_u_info of party_info
| DO_party_v_info of party_info
| DO_supp_pub_info of supp_pub_info
| DO_algorithm of coq_Z
| DO_add_supp_priv_info of bytes

val kdf_builder_step : kdf_context -> kdf_op -> kdf_context res

val run_ops : ('a1 -> 'a2 -> 'a1 res) -> 'a2 list -> 'a1 -> 'a1 res
